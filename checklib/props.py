"""Per-property configuration of ./check: Lean modules holding the theorems, which regenerated tie
theorems the property depends on (projection, DESIGN §5.5), and the correspondence runs."""

ALL_KINDS = None


def storediff(name, kinds, quick, thorough, search=None):
    base = (['-kinds', ','.join(kinds)] if kinds else []) + (['-dialect', 'pg'] if 'pgmodel' in name else []) + (['-pgshim'] if 'pgshim' in name else [])
    return dict(bin='storediff', name=name,
                quick=base + ['-scripts', str(quick[0]), '-batches', str(quick[1])],
                thorough=base + ['-scripts', str(thorough[0]), '-batches', str(thorough[1])],
                search=base + ['-scripts', str((search or thorough)[0]), '-batches', str((search or thorough)[1])])


def sysdiff(name, kinds, quick, thorough, monitor, extra=None, search=None):
    base = (['-kinds', ','.join(kinds)] if kinds else []) + ['-monitor', monitor] + (extra or [])
    mk = lambda n: base + ['-scripts', str(n[0]), '-steps', str(n[1])]
    return dict(bin='sysdiff', name=name, quick=mk(quick), thorough=mk(thorough), search=mk(search or thorough))


def with_monitor(run, monitor):
    r = dict(run)
    for k in ('quick', 'thorough', 'search'):
        r[k] = r[k] + ['-monitor', monitor]
    return r


PROMISE_KINDS = ['ReadPromise', 'ReadPromises', 'SearchPromises', 'CreatePromise', 'UpdatePromise', 'CreatePromiseAndTask']
CALLBACK_KINDS = ['CreateCallback', 'DeleteCallbacks', 'CreateTasks', 'CompleteTasks']
SCHEDULE_KINDS = ['ReadSchedule', 'ReadSchedules', 'SearchSchedules', 'CreateSchedule', 'UpdateSchedule', 'DeleteSchedule']
TASK_KINDS = ['ReadTask', 'ReadTasks', 'ReadEnqueueableTasks', 'CreateTask', 'CreateTasks', 'CompleteTasks', 'UpdateTask', 'HeartbeatTasks', 'CreatePromiseAndTask']
LOCK_KINDS = ['ReadLock', 'AcquireLock', 'ReleaseLock', 'HeartbeatLocks', 'TimeoutLocks']

API_PROMISE = ['ReadPromise', 'SearchPromises', 'CreatePromise', 'CreatePromiseAndTask', 'CompletePromise', 'CreateCallback', 'CreateSubscription', 'ClaimTask']
SYS_RULE = ('online-generated scripts against the real system.System + coroutines + router + sqlite store under a harness-owned AIO: '
            'a case is one step (submit request / tick at a chosen time / one store batch of chosen composition, order and '
            'before/after-commit failures / router or sender completion / crash+restart); every step is executed by the Lean model '
            '(Sys.step) first and then by the implementation; compared: every dispatched submission, every response, error flag and '
            'full table dump after every batch; non-trivial = a response or an executed store transaction (counted)')

PROPS = {
    'C01': dict(
        modules=['Resonate.Properties.C01'],
        pin_filter=r'awaitLoops|coroutineCmds|tick|queueShapes',
        tie_filter=r'promise(Select|SelectAll|Search|Insert|Update)|callbackInsert_guard|shape|wiring|uniques',
        harness=[with_monitor(storediff('storediff-promises', PROMISE_KINDS + ['DeleteCallbacks', 'CompleteTasks', 'CreateTasks'], (30, 30), (800, 40), (300, 40)), 'C01'),
                 sysdiff('sysdiff-promises', API_PROMISE, (25, 120), (600, 150), 'C01', ['-routed', '40', '-fail', '15', '-crash', '2'], (200, 150)),
                 sysdiff('sysdiff-promises-focus', ['ReadPromise', 'CreatePromise', 'CompletePromise', 'SearchPromises', 'CreateCallback'], (15, 60), (500, 80), 'C01',
                         ['-focus', '-fail', '5'], (300, 80)),
                 dict(bin='txedge', name='txedge', quick=['-steps', '8'], thorough=['-steps', '60', '-callbacks', '150000'], search=['-steps', '24'])],
        rule='txedge: a batch acknowledged to its submitters is in the database also when the transaction deadline passes during it (a completion reported written but not stored can be completed again differently); ' + SYS_RULE + '; plus storediff over the promise command kinds; the C01 monitor (PromMono over consecutive implementation dumps) runs on every committed batch',
        assumptions=['completion requests carry a state in {resolved, rejected, canceled} (front-end validation)',
                     'byte strings are valid UTF-8 in generated inputs'],
        trusted_base=['coroutine control flow and kernel tick are modelled by hand (Model/Coroutines, Model/System) and tied by sysdiff'],
    ),
    'C06': dict(
        modules=['Resonate.Properties.C06'],
        pin_filter=r'awaitLoops|coroutineCmds|tick|queueShapes|storeOpen',
        tie_filter=r'promise(Insert|Update)|callback|taskInsert|taskCompleteByRootId|shape|wiring|uniques',
        harness=[sysdiff('sysdiff-crashes', ['CreatePromise', 'CreatePromiseAndTask', 'CompletePromise', 'CreateCallback', 'CreateSubscription', 'ReadPromise', 'ClaimTask', 'CompleteTask'],
                         (25, 150), (600, 200), 'C01,C05,C08,C07', ['-routed', '50', '-fail', '15', '-crash', '6', '-smallcfg', '-known', 'F5,F20'], (200, 150)),
                 dict(bin='crashdiff', name='crashdiff', quick=['-rounds', '2', '-kills', '3'], thorough=['-rounds', '25', '-kills', '6'], search=['-rounds', '8', '-kills', '5']),
                 dict(bin='txedge', name='txedge', quick=['-steps', '8'], thorough=['-steps', '60', '-callbacks', '150000'], search=['-steps', '24'])],
        rule=SYS_RULE + '; here 6% of the steps are a crash/restart (a new system.System and store object on the same sqlite file, volatile state dropped), so crashes fall before and after '
             'store commits, between the steps of every coroutine and in the middle of sweeps, also repeatedly; the dump monitors C01 (nothing disappears, completed rows final), C05 (no '
             'registration without its pending promise; a completion converted every registration), C08 (routed promise born with its task; completed promise has no live task) run on every '
             'committed batch; crashdiff: first a sparse-database phase (ONE acknowledged write — a lock, a schedule, a promise, a lock and a schedule — on a fresh file, a graceful SIGTERM with the default configuration, a restart on the same file: the write is still there), then '
             'the REAL `resonate serve` binary built from /repo, 4 concurrent HTTP clients (create / register / complete with idempotency keys), SIGKILL after a '
             'random 20-620 ms of traffic (every second phase runs 2-3 s while another connection holds the sqlite write lock longer than the store transaction timeout, shortened to 300 ms, so batches time out half-way), restart on the same file, repeatedly, finally SIGTERM with the default configuration: every write acknowledged with 2xx before a kill is read back '
             'unchanged after every restart, the file left by every kill satisfies the all-or-nothing invariants, the server starts on it; non-trivial = acknowledged writes re-verified (counted)',
        assumptions=['a committed sqlite transaction is durable and atomic at the process level (sqlite, WAL/journal); power loss / fsync are outside the model and the sandbox',
                     'in-flight requests lose only their responses'],
        trusted_base=['coroutines and kernel tick modelled by hand, tied by sysdiff; the crash step of the model (volatile state dropped, database kept) is tied by sysdiff in-process and sampled by crashdiff on the real binary',
                      'crashdiff samples kill moments (no model comparison: wall-clock timing)'],
    ),
    'C07': dict(
        modules=['Resonate.Properties.C07'],
        pin_filter=r'awaitLoops|coroutineCmds|tick|queueShapes|taskGuards',
        tie_filter=r'task|shape|wiring|uniques',
        harness=[sysdiff('sysdiff-tasks', ['CreatePromise', 'CreatePromiseAndTask', 'CompletePromise', 'ClaimTask', 'CompleteTask', 'HeartbeatTasks', 'CreateCallback'],
                         (30, 150), (600, 200), 'C07,C08', ['-routed', '70', '-fail', '10', '-crash', '1'], (200, 200)),
                 sysdiff('sysdiff-tasks-lookalike', ['CreatePromise', 'CreatePromiseAndTask', 'CompletePromise', 'ClaimTask', 'CompleteTask', 'HeartbeatTasks'],
                         (20, 150), (400, 200), 'C07,C08', ['-routed', '80', '-fail', '5', '-crash', '0', '-hostile'], (200, 200)),
                 storediff('storediff-tasks', TASK_KINDS + ['CreatePromise', 'UpdatePromise', 'CreateCallback'], (20, 30), (500, 40))],
        rule=SYS_RULE + '; 2-4 workers compete for tasks with current / stale / future counters, lease sweeps and dispatch cycles interleaved; the C07 monitor (no task disappears, counters never decrease, finished tasks never change, a claimed task changes holder only via a counter bump) runs on every committed batch; the driver additionally checks that every transaction dispatched by the model coroutines satisfies wfTx',
        assumptions=['FIFO execution of store submissions across ticks for the lease statement', 'completion requests carry a valid state'],
        trusted_base=['task coroutines and kernel tick are modelled by hand and tied by sysdiff; that every yielded UpdateTask satisfies wfUpdateTask is checked at run time by the driver on every dispatched transaction (proved for the block structure only)'],
    ),
    'C08': dict(
        modules=['Resonate.Properties.C08'],
        pin_filter=r'awaitLoops|coroutineCmds|tick|queueShapes',
        tie_filter=r'task|promiseInsert|promiseUpdate|callback|shape|wiring|uniques',
        harness=[sysdiff('sysdiff-dispatch', ['CreatePromise', 'CreatePromise', 'CreatePromiseAndTask', 'CompletePromise', 'ClaimTask', 'CompleteTask', 'CreateCallback', 'CreateSubscription', 'HeartbeatTasks'],
                         (30, 150), (800, 200), 'C08,C07,C05,C12', ['-routed', '70', '-fail', '20', '-crash', '1', '-smallcfg', '-known', 'F5,F20'], (250, 200)),
                 sysdiff('sysdiff-dispatch-ids', ['CreatePromise', 'CompletePromise', 'ClaimTask', 'CreateCallback'], (12, 120), (300, 150), 'C08',
                         ['-routed', '90', '-fail', '3', '-crash', '0', '-hostile', '-known', 'F5,F20'], (120, 150)),
                 storediff('storediff-tasks', TASK_KINDS + ['CreatePromise', 'UpdatePromise', 'CreateCallback', 'DeleteCallbacks'], (20, 30), (500, 40)),
                 dict(bin='routesend', name='routesend', quick=['-cases', '1500'], thorough=['-cases', '20000'], search=['-cases', '6000'])],
        rule='routesend: the REAL router decides which promises are routed (a promise whose tag names a receiver is born with its invocation task only if the router matches it): every tag shape against the model and against two direct clauses (plain strings are logical names, receiver objects are physical receivers); ' + SYS_RULE + '; mixes of routed / unrouted promises (routing tags: logical names, URLs, JSON receivers, non-receiver JSON), callbacks and subscriptions; every hand-off outcome (success / refused / error), router failures, store failures, task batch sizes 1..100; monitors: a routed promise is created with its invocation task, a completed promise leaves none of its previous tasks live, C07 task monotonicity, C05',
        assumptions=['router outcome is taken from the real router and passed to the model (the router model itself is C19)'],
        trusted_base=['coroutines modelled by hand and tied by sysdiff'],
    ),
    'C09': dict(
        modules=['Resonate.Properties.C09'],
        pin_filter=r'awaitLoops|coroutineCmds|tick|queueShapes',
        tie_filter=r'lock|shape|wiring|uniques',
        harness=[with_monitor(storediff('storediff-locks', LOCK_KINDS + ['HeartbeatTasks', 'HeartbeatTasks', 'ReadLock'], (30, 40), (800, 50), (300, 50)), 'C09'),
                 sysdiff('sysdiff-locks', ['AcquireLock', 'ReleaseLock', 'HeartbeatLocks'], (20, 120), (500, 150), 'C09', ['-fail', '10', '-crash', '1'], (150, 150))],
        rule=SYS_RULE + '; plus storediff over the five lock command kinds (several executions / processes on 3 resources, clock around the lease end); the C09 monitor (at most one lock row per resource) runs on every committed batch',
        assumptions=['time parameters are whatever the callers pass; theorems quantify over all of them'],
        trusted_base=['lock coroutines are modelled by hand and tied by sysdiff'],
    ),
    'C02': dict(
        modules=['Resonate.Properties.C02'],
        pin_filter=r'awaitLoops|coroutineCmds|tick|queueShapes',
        tie_filter=r'promise(Select_|Insert|Update)|callbackInsert|shape|wiring|uniques',
        harness=[sysdiff('sysdiff-linearizable', None, (25, 120), (600, 150), 'C02,C01,C03,C07', ['-routed', '40', '-fail', '15', '-crash', '1', '-known', 'F5'], (200, 150)),
                 sysdiff('sysdiff-linearizable-focus', ['ReadPromise', 'CreatePromise', 'CreatePromiseAndTask', 'CompletePromise', 'CreateCallback', 'CreateSubscription', 'ClaimTask', 'CompleteTask', 'AcquireLock', 'ReleaseLock'],
                         (20, 100), (500, 120), 'C02,C01', ['-focus', '-smallcfg', '-fail', '10', '-crash', '1', '-known', 'F5'], (200, 120)),
                 dict(bin='stackrun', name='stackrun', quick=['-rounds', '40'], thorough=['-rounds', '800'], search=['-rounds', '250'])],
        rule=SYS_RULE + '; the linearizability checker runs inside the model driver on the history of the run: database snapshots after EVERY transaction (also inside a batch), the tick times, the router answer of each request; '
             'for every response (platform errors excepted) it searches the request\'s window — snapshots from its submission to its response x ticks in the window — for an instant at which the SEQUENTIAL specification '
             '(C02.seqRun: the same coroutine served alone, Lean) gives exactly this response (for ClaimTask: status, task and links at that instant, each attached promise a state it had inside the window); a response '
             'with no such instant is a violation; since sysdiff requires the implementation\'s events to equal the model\'s, the verdict is about the implementation\'s responses; workloads over 4 shared promise ids, '
             'focus mode with 2 ids and deadlines near the clock, queue / batch / pool sizes down to 1, failures before / after commit',
        assumptions=['request clocks: a request is evaluated at the tick at which its coroutine was (re)started — any tick of its window is admitted by the checker',
                     'ClaimTask attaches promises read in a later transaction than the claim (DESIGN §8)'],
        trusted_base=['the theorems cover single-transaction requests, promise completion (incl. lazy time-out), and read stability for creation and registration; ClaimTask / CompleteTask, CreateSchedule and SearchPromises '
                      'with lazy time-outs are covered by the trace checker only (bounded by the explored runs, not a proof)',
                      'the trace checker is Lean code in the driver (Driver/Main.lean), not a theorem'],
    ),
    'C03': dict(
        modules=['Resonate.Properties.C03'],
        pin_filter=r'awaitLoops|coroutineCmds|tick|queueShapes',
        tie_filter=r'promise(Insert|Update|Select_)|taskInsert_|shape|wiring|uniques',
        harness=[sysdiff('sysdiff-retries', ['CreatePromise', 'CreatePromise', 'CreatePromiseAndTask', 'CompletePromise', 'CompletePromise', 'ReadPromise'],
                         (30, 150), (800, 150), 'C03,C01,C04,C07', ['-routed', '40', '-fail', '25', '-crash', '1', '-known', 'F5'], (250, 150)),
                 sysdiff('sysdiff-retries-focus', ['CreatePromise', 'CreatePromiseAndTask', 'CompletePromise', 'ReadPromise'], (15, 60), (500, 80), 'C03,C01', ['-focus', '-fail', '15', '-known', 'F5'], (300, 80)),
                 with_monitor(storediff('storediff-promises', PROMISE_KINDS, (20, 30), (500, 40)), 'C01')],
        rule=SYS_RULE + '; requests on 4 promise ids with idempotency key absent / i0 / i1, strict on/off, all three completion states, timeouts around the clock; 25% of the submissions fail before or AFTER commit so that clients retry after lost responses and race the original; monitors: PromMono (no repeat changes a promise), task monotonicity (no second task), C04',
        assumptions=['completion requests carry a state in {resolved, rejected, canceled}'],
        trusted_base=['coroutines modelled by hand and tied by sysdiff'],
    ),
    'C04': dict(
        modules=['Resonate.Properties.C04'],
        pin_filter=r'awaitLoops|coroutineCmds|tick|queueShapes',
        tie_filter=r'promise(SelectAll|Update|Select_|Search)|shape|wiring',
        harness=[sysdiff('sysdiff-timeouts', ['ReadPromise', 'SearchPromises', 'CreatePromise', 'CreatePromiseAndTask', 'CompletePromise'],
                         (30, 150), (800, 150), 'C04,C01', ['-routed', '20', '-fail', '10', '-crash', '1', '-smallcfg'], (250, 150)),
                 sysdiff('sysdiff-timeouts-focus', ['ReadPromise', 'SearchPromises', 'CreatePromise', 'CompletePromise'], (15, 60), (500, 80), 'C04,C01', ['-focus', '-fail', '5'], (300, 80))],
        rule=SYS_RULE + '; request and sweep ticks are placed before / exactly at / after the timeout (timeouts drawn as now-1000, now, now+1, now+1000, ...; clock steps 0, 1, 500, 1000, ...), promise batch sizes 1..100; the C04 response monitor checks on every implementation response of read / create / complete / search that no promise is reported pending with timeout <= the tick of the response',
        assumptions=['the decision tick is the tick at which the coroutine was resumed after its read (c.Time())'],
        trusted_base=['coroutines modelled by hand and tied by sysdiff'],
    ),
    'C05': dict(
        modules=['Resonate.Properties.C05'],
        pin_filter=r'awaitLoops|coroutineCmds|tick|queueShapes',
        tie_filter=r'callback|taskInsertAll|taskCompleteByRootId|promiseUpdate|promiseSelect_|shape|wiring|uniques',
        harness=[sysdiff('sysdiff-callbacks', ['ReadPromise', 'CreatePromise', 'CompletePromise', 'CreateCallback', 'CreateSubscription', 'SearchPromises'],
                         (30, 120), (600, 150), 'C05,C01,C04', ['-routed', '20', '-fail', '15', '-crash', '2', '-known', 'F5,F20'], (200, 150)),
                 sysdiff('sysdiff-callbacks-focus', ['ReadPromise', 'CreatePromise', 'CompletePromise', 'CreateCallback', 'CreateSubscription'], (15, 60), (500, 80), 'C05,C01',
                         ['-focus', '-fail', '5', '-known', 'F5,F20'], (300, 80)),
                 sysdiff('sysdiff-callbacks-collide', ['CreatePromise', 'CompletePromise', 'CreateCallback', 'CreateSubscription'], (25, 150), (500, 200), 'C05,C01',
                         ['-hostile', '-routed', '0', '-fail', '3', '-crash', '0', '-known', 'F5,F20'], (300, 200)),
                 storediff('storediff-callbacks', ['CreatePromise', 'UpdatePromise', 'CreateCallback', 'DeleteCallbacks', 'CreateTasks', 'CompleteTasks', 'ReadTask', 'ReadPromise'], (20, 30), (500, 40))],
        rule=SYS_RULE + '; the C05 monitor (every registration awaits a pending promise; a promise completed in a batch had every registration turned into exactly one identical task) runs on every committed batch of the implementation; sysdiff-callbacks-collide draws promise, root and subscription ids whose derived registration ids collide (root a + promise b:c and root a:b + promise c both give __resume:a:b:c; likewise __notify:a:b:c), so that a completion meets a task that already carries its registration\'s id',
        assumptions=['completion requests carry a state in {resolved, rejected, canceled} (front-end validation)'],
        trusted_base=['coroutine control flow and kernel tick are modelled by hand (Model/Coroutines, Model/System) and tied by sysdiff'],
    ),
    'C10': dict(
        modules=['Resonate.Properties.C10'],
        pin_filter=r'awaitLoops|coroutineCmds|tick|queueShapes',
        tie_filter=r'schedule|promiseInsert|taskInsert_|shape|wiring|uniques',
        harness=[sysdiff('sysdiff-schedules', ['CreateSchedule', 'CreateSchedule', 'DeleteSchedule', 'ReadSchedule', 'SearchSchedules', 'CreatePromise', 'ReadPromise'],
                         (25, 200), (600, 250), 'C10,C01', ['-routed', '40', '-fail', '15', '-crash', '1', '-hostile', '-smallcfg', '-known', 'F5'], (200, 250)),
                 storediff('storediff-schedules', SCHEDULE_KINDS + ['CreatePromise'], (20, 30), (500, 40)),
                 dict(bin='cronref', name='cronref', quick=['-cases', '4000'], thorough=['-cases', '80000'], search=['-cases', '20000'])],
        rule='cronref: util.Next (robfig/cron behind the schedule coroutines) against a reference evaluator written from the meaning of a cron expression, for five- and six-field expressions built from *, */k and numbers, '
             'drawn interleaved in one process and including pairs that differ only in where their blanks are: the result must be the first instant strictly after t at which the expression matches; ' + SYS_RULE + '; schedules on second-grid cron expressions with clock steps that jump over 0..5 occurrences per tick, create / delete racing the firing cycle, a user creating the same promise id, schedule batch sizes 1..100, failures and crashes mid-cycle, markup characters in schedule ids and malformed id templates; the C10 monitor checks on every committed batch that a schedule row changes only by one firing (last_run_time = the occurrence, next_run_time = the NEXT grid point after it, other fields untouched) and that the promise of that occurrence exists with the templated id, timeout = occurrence + promise timeout, parameter and marker tags',
        assumptions=['cron is abstract in the theorems (IsNext); robfig/cron is validated against the grid model only for the expressions the harness uses',
                     'completion batch size large enough for all router completions of a cycle to arrive in one tick (harness discipline)'],
        trusted_base=['schedule coroutines modelled by hand and tied by sysdiff; Model/Env.lean (cron grid, id template subset)'],
    ),
    'C20': dict(
        modules=['Resonate.Properties.C20'],
        pin_filter=r'awaitLoops|coroutineCmds|tick|queueShapes',
        tie_filter=r'Insert_row|_set|Select_where|_proj|shape|wiring',
        harness=[dict(bin='codecdiff', name='codecdiff', quick=['-cases', '1500'], thorough=['-cases', '60000'], search=['-cases', '20000']),
                 dict(bin='frontdiff', name='frontdiff', quick=['-facts', '{gen}/gofacts.json'], thorough=['-facts', '{gen}/gofacts.json'], search=['-facts', '{gen}/gofacts.json']),
                 storediff('storediff-all', None, (20, 30), (600, 40)),
                 dict(bin='routesend', name='routesend', quick=['-cases', '1500'], thorough=['-cases', '20000'], search=['-cases', '6000']),
                 sysdiff('sysdiff-data', ['CreatePromise', 'CompletePromise', 'ReadPromise', 'SearchPromises', 'CreateSchedule', 'ReadSchedule', 'CreateCallback', 'ClaimTask'],
                         (15, 120), (300, 150), 'C01,C10', ['-routed', '50', '-hostile', '-known', 'F5'], (100, 150))],
        rule='routesend: every dispatched body (the real sender worker) carries the task / the completed promise exactly as the record encodes itself - every field, 64-bit timeouts and times (2^53+1, 2^62+12345, MaxInt64-1, MaxInt64) digit for digit, markup and non-ASCII in ids, keys, tags, headers, binary data; codecdiff: random string maps over an alphabet of hostile characters (all 32 control characters, quotes, backslash, slash, markup characters, DEL, U+2028/2029, RTL and combining marks, U+FFFD/U+FFFF, astral-plane characters; lengths up to ~2000) encoded by the real encoding/json and decoded through the real PromiseRecord.Promise(), compared with the Lean codec both ways (char classes counted); every case also converts a whole promise record (parameter, tags, and the value in each state a client completes a promise with: resolved, rejected, canceled; states cycle through all five) and a whole schedule record (tags, promise tags, promise parameter) and requires every field back as stored; storediff / sysdiff carry markup and non-ASCII data, headers, tags, receiver descriptions, slashes and colons in ids through the real store and coroutines and compare every stored row and every response field with the model',
        assumptions=['text = valid UTF-8; absent and empty are equivalent for maps and blobs', 'HTTP / protobuf wire codecs (gin, protobuf, base64) are exercised by frontdiff translation-equality only, not modelled',
                     'Postgres 32-bit columns are outside the model'],
        trusted_base=['Model/Json.lean is validated against encoding/json by codecdiff'],
    ),
    'C18': dict(
        modules=['Resonate.Properties.C18'],
        tie_filter=r'^$',
        harness=[dict(bin='polldiff', name='polldiff', quick=['-scripts', '60', '-steps', '40', '-hostile'], thorough=['-scripts', '1500', '-steps', '60', '-hostile'],
                      search=['-scripts', '600', '-steps', '60', '-hostile'], divergence_is_violation=False),
                 dict(bin='routesend', name='routesend', quick=['-cases', '1500'], thorough=['-cases', '20000'], search=['-cases', '6000'])],
        rule='polldiff: offline-generated scripts of connect / disconnect / reconnect (same group+id) / send (invoke and notify; addressed id present, absent, empty, unknown; '
             'addresses as the sender writes them plus case-variant keys, duplicate keys, extra keys, wrong types, truncated JSON and the literal null) / client read / shutdown, '
             'over 3 groups x 4 ids, limits 0..100 and buffers 0..3, run against the REAL PollWorker.Start loop (registry add/rmv/get, Process, shutdown branch) through the verif hook '
             'over harness-owned unbuffered channels, in a child process per script; after every step the registry size and every buffer level are compared with the Lean model '
             '(Model/Poll.step); for a send the observed receiver is passed to the model, which must be able to produce it for SOME value of the random pick; at the end every client '
             'stream and the set of closed channels are compared; direct C18 monitors on the implementation: Done called exactly once, reported delivered iff exactly one stream grew by one, '
             'receiver in the addressed group, notifications only to the exact id; a crash of the worker is a violation; http phase (implementation only): the REAL plugin — poll.New + Start: HTTP server, handler, worker — with real HTTP clients that connect as /<group>/<id>, group and id percent-encoded where needed (blank, %, /, non-ASCII, +, ? and #), a second listener of the group as a decoy: an invocation and a notification addressed to {group, id} arrive on that listener\'s stream and nowhere else; busy-worker phase (implementation only, 40 trials): a same-id reconnect, then the old connection\'s disconnect issued WHILE a burst of messages keeps the worker in Process, so that the loop\'s priority branch (events found queued at the top of an iteration) is taken as well as the inner one — the replacement must stay open and receive the next message for the id; non-trivial = delivered sends + closes + refusals at the limit (counted)',
        assumptions=['operations are serialised by the single worker goroutine (this is the mechanism of the code: all registry changes and sends happen there)',
                     'each HTTP poll request makes one connection object and asks for it to be registered once'],
        trusted_base=['the HTTP handler around the worker (SSE framing, request context) is not modelled: `read` stands for one iteration of its loop; the handler itself is exercised by the http phase of polldiff',
                      'Model/Poll.decodeData covers flat JSON objects with string values, the literal null and undecodable text; other shapes are outside the generator',
                      'build-tag verif hook internal/app/plugins/poll/verif_hooks.go (constructs the worker with harness-owned channels; adds no behaviour)'],
    ),
    'C19': dict(
        modules=['Resonate.Properties.C19'],
        pin_filter=r'awaitLoops|coroutineCmds|tick|queueShapes',
        tie_filter=r'^$',
        harness=[dict(bin='routesend', name='routesend', quick=['-cases', '2000'], thorough=['-cases', '40000'], search=['-cases', '10000']),
                 sysdiff('sysdiff-handoff', ['CreatePromise', 'CreatePromiseAndTask', 'CompletePromise', 'CreateCallback', 'CreateSubscription', 'ClaimTask'],
                         (15, 150), (400, 200), 'C19,C08', ['-routed', '80', '-fail', '10', '-crash', '1'], (150, 200))],
        rule='routesend: the WHOLE cross product of addresses x target tables x plugin sets (1400 cases) runs first on every tier, then random draws; cases = routing tag (23 plain strings / URLs incl. odd schemes, escapes, IPv6, spaces, markup; 30 JSON values of every shape: receiver objects with and without data, '
             'null data, unknown / case-variant / duplicate keys, non-string type, arrays, numbers, literals, invalid numbers, trailing commas) or raw stored bytes (16 shapes incl. null) '
             'x 5 target tables (none, default overridden, a target whose NAME is a URL, duplicate names, unknown plugin type) x 6 plugin sets x {invoke, resume, notify} x transport answer '
             '{success, failure, error, queue full}; the REAL router worker decides and marshals, the REAL SenderWorker.Process (verif hook) resolves and hands to capturing transports; '
             'compared with the Lean model (Resolve.routeTag / recvBytes / dispatch, url.Parse results supplied by the harness): match decision, stored bytes, transport, address bytes; '
             'direct checks: exactly one completion per submission, completion mirrors the transport answer, nothing handed when the address does not resolve, body names the task id / counter / '
             'three links or the completed promise; messages for the http transport additionally go through the REAL http plugin (queue, worker goroutine) with a stub RoundTripper: '
             'POST to the addressed URL with the body and headers, success iff 200; non-trivial = routed + handed (counted)',
        assumptions=['url.Parse / URL.String of the Go standard library are taken as given (their results are inputs of the model)',
                     'one routing source: the resonate:invoke tag (the default configuration)'],
        trusted_base=['Model/JsonScan.lean (JSON scanner, json.Valid, compact with HTML escaping) and Model/Resolve.recvFields are validated against encoding/json by routesend on the generator\'s shapes only',
                      'build-tag verif hook internal/app/subsystems/aio/sender/verif_hooks.go (exposes the worker; adds no behaviour)',
                      'the body is checked field by field on the real bytes, not modelled byte for byte'],
    ),
    'C11': dict(
        modules=['Resonate.Properties.C11'],
        pin_filter=r'awaitLoops|coroutineCmds|tick|queueShapes',
        tie_filter=r'promiseSelectAll|promiseUpdate|taskSelectAll|taskUpdate|lockTimeout|scheduleSelectAll|scheduleUpdate|taskSelectEnqueueable|shape|wiring',
        harness=[sysdiff('sysdiff-converge', None, (20, 100), (400, 150), 'C11,C01', ['-smallcfg', '-routed', '50', '-fail', '10', '-crash', '1', '-known', 'F16,F18,F19,F5'], (120, 120)),
                 sysdiff('sysdiff-converge-collide', ['CreatePromise', 'CompletePromise', 'CreateCallback', 'CreateSubscription'], (8, 120), (150, 150), 'C11',
                         ['-hostile', '-routed', '0', '-fail', '3', '-crash', '0', '-known', 'F2,F16,F18,F19,F5'], (60, 120)),
                 dict(bin='stackrun', name='stackrun', quick=['-rounds', '45'], thorough=['-rounds', '1000'], search=['-rounds', '300'])],
        rule=SYS_RULE + '; after every script the clients stop and the server idles: each cycle advances the clock by the signal timeout and then ticks until nothing is in flight (every hand-off succeeds, '
             'no injected failure); batch sizes (promise / schedule / task 1..100), pool and queue sizes (down to 1), enqueue delay and signal timeout are drawn per script; the C11 monitor gives every '
             'item that needs attention (promise pending past its timeout, lock past its lease, enqueued / claimed task past its lease or timeout) a deadline in cycles when it is first seen — '
             '5*ceil(items ahead / batch) + 6, the factor 5 because the five sweeps take turns when the pool is small — and requires every schedule that is behind and whose period is longer than the '
             'interval between two runs of SchedulePromises to catch up: (A) the schedule with the oldest next run time advances at the next run, (B) the backlog of missed occurrences over all lagging schedules shrinks within the number of cycles the rate (fired per run - falling due per run) needs to show it (the idle phase is extended accordingly, up to 100 cycles); a late task is excused as finding F19 only when at least TaskBatchSize unclaimed tasks precede it in the sweep\'s order, and anything that cannot progress while a colliding completion block (finding F2) fails its store batch every cycle is counted as F2 collateral; schedules that cannot catch up because occurrences fall due at least as fast as a run fires them (period <= run interval, or occurrences per run >= ScheduleBatchSize) are finding F16, schedules whose id template does not evaluate and the schedules they keep out of the batch are finding F18 (C11.skipped_batch_writes_nothing_F18 is the model-side statement); non-trivial = scripts whose idle phase ran to the end (counted)',
        assumptions=['a cycle of the idle server completes (no store / router / transport failure during the idle phase; failures before it are part of the scripts)',
                     'the late-task clause is not checked when the enqueue delay is shorter than one cycle (a re-dispatched unclaimed task is then late again at once and the sweep batch is ordered by root)',
                     'unique promise / task ids and legal task states (hypotheses of the measure theorems; PromIds is proved over all runs)'],
        trusted_base=['coroutines and kernel tick modelled by hand, tied by sysdiff; the measure theorems are about one complete successful cycle of ONE sweep on a quiet database — their composition with the '
                      'kernel (interleaving of the five sweeps, partial cycles) is covered by the idle phase of sysdiff on the implementation only'],
    ),
    'C12': dict(
        modules=['Resonate.Properties.C12'],
        pin_filter=r'awaitLoops|coroutineCmds|tick|queueShapes',
        tie_filter=r'^$',
        harness=[sysdiff('sysdiff-backpressure', None, (25, 120), (600, 150), 'C12,C01', ['-smallcfg', '-shutdown', '50', '-fail', '15', '-crash', '1', '-routed', '40', '-known', 'F5'], (200, 150)),
                 dict(bin='stackrun', name='stackrun', quick=['-rounds', '60'], thorough=['-rounds', '1500'], search=['-rounds', '400']),
                 dict(bin='frontdiff', name='frontdiff', quick=['-facts', '{gen}/gofacts.json'], thorough=['-facts', '{gen}/gofacts.json'], search=['-facts', '{gen}/gofacts.json'])],
        rule=SYS_RULE + '; queue / batch / pool sizes drawn down to 1 (API queue 1..100, coroutine pool 1..1000, submission batch 1..1000), shutdown requested at a random moment in about half of the scripts, '
             '15% of the submissions fail before or after processing; the C12 monitor counts the responses of every request id on the implementation (never two, none for an id never submitted) and, at the end '
             'of every script, keeps the server running for 8*(outstanding+5) further rounds and requires exactly one response for every request submitted since the last crash; '
             'stackrun: the REAL system.Loop on its own goroutine with the REAL api / aio queues and the REAL store, router and sender worker goroutines, queue / batch / pool sizes 1..10, '
             '1..8 concurrent client goroutines, shutdown requested after a random number of submissions, transports answering from their own goroutines (idle rounds: a quiet server whose last request arrives 150-350 ms after the loop\'s last wake-up with shutdown right behind it); no model (timing is not reproducible): '
             'frontdiff (both REAL front ends over a stub kernel): every (endpoint, status, shape) is answered, and a request the kernel answers after 1.6 s — longer than the front ends\' one-second shutdown timeout — is still answered over HTTP and gRPC; ' + 
             'every request must be answered exactly once, the kernel must not stall, shutdown must complete; each round in a child process with a watchdog; one round in six is a STORM: twelve clients submit 1500 cheap reads each in a tight loop '
             'into an API queue with room for all of them while shutdown is requested from a goroutine of its own at an arbitrary moment, so that requests are caught inside EnqueueSQE at that instant (counted as storm_rounds)',
        assumptions=['request ids are distinct (the front ends draw a fresh id per request)', 'no process crash between submission and response (responses of in-flight requests die with the process: C06)',
                     'the kernel does not halt on a panic (C13)'],
        trusted_base=['kernel tick and coroutines are modelled by hand (Model/System, Model/Coroutines) and tied by sysdiff, which compares the response events of every step',
                      'in sysdiff clients are serialised and the AIO queues are harness-owned; the real aio glue, worker goroutines and concurrent clients are exercised by stackrun only (sampled schedules, no proof)'],
    ),
    'C13': dict(
        modules=['Resonate.Properties.C13'],
        pin_filter=r'sites|awaitLoops|coroutineCmds|tick|queueShapes',
        tie_filter=r'shape|wiring|uniques|Insert_row|_where',
        harness=[dict(bin='frontdiff', name='frontdiff', quick=['-facts', '{gen}/gofacts.json'], thorough=['-facts', '{gen}/gofacts.json'], search=['-facts', '{gen}/gofacts.json']),
                 sysdiff('sysdiff-hostile', None, (20, 120), (500, 150), 'C01,C05,C08', ['-routed', '50', '-hostile', '-fail', '10', '-crash', '2', '-known', 'F5,F20'], (150, 150)),
                 dict(bin='routesend', name='routesend', quick=['-cases', '2000'], thorough=['-cases', '20000'], search=['-cases', '6000'])],
        rule='frontdiff malformed family: 80 malformed requests over every endpoint of both protocols (fields absent, empty, null, negative, huge, wrongly typed, truncated JSON, '
             'unclosed templates, bogus cron, self-referencing callback, and search cursors FORGED with the constant signing key carrying null / empty id / limit 0 / negative limit) '
             'against the real gin and grpc servers over a stub kernel, each in a child process: the request must be refused with a client error without reaching the kernel, or the '
             'kernel must receive a request on which the Lean predicate C13.ValidReq (evaluated by the model driver) is true; a 5xx, a dropped reply or a dead process is a violation; '
             'plus the exhaustive status / shape cases of C15. sysdiff-hostile: all 17 request kinds with hostile pools (markup and separators in ids, unclosed id templates, JSON '
             'literals as routing tags) against the real kernel, coroutines, router and store, with enough background cycles for the stored data to be timed out, routed, dispatched and '
             'fired, before and after crash/restart steps; the model predicts every assertion of the implementation (a predicted panic is a violation). routesend: every shape of '
             'routing tag and stored receiver through the real router, sender and http plugin (a panic is a violation).',
        assumptions=['hypothesis RunOkV of C13.server_never_asserts: (i) the clock handed to ticks never steps back (a wall clock stepping backwards between the read and the continuation of TimeoutPromises / '
                     'SchedulePromises would reach their elapsed-time assertions: observation O3, not claimed as a finding); (ii) submitted requests passed front-end validation (ValidReq; tied by frontdiff); '
                     '(iii) a thread id started by a tick is not in use by a live thread, a pending submission or a queued completion - the model names submissions by (thread id, sequence number) where Go '
                     'uses closures, so this is a condition on the model\'s naming, not on the server; (iv) router / sender completions are of that subsystem\'s kind. The model driver evaluates the '
                     'hypothesis at every submit / tick / complete step of every sysdiff script (counts kernel_hyp_ok / kernel_hyp_not_met in the evidence distribution)',
                     'the database at boot has unique keys (KeysX; the empty database has: keysX_empty)'],
        trusted_base=['kernel composition IS mechanised (Proofs/Kernel.lean: delivery invariant over Sys.step; Proofs/KeysInv.lean + AllYieldsK.lean: key invariants over every command the coroutines emit; '
                      'Proofs/Responds.lean: request coroutines always answer; Proofs/Productive.lean: the per-tick fuel of the model is never exhausted). Outside the theorem: '
                      'everything the kernel model abstracts (goroutines, channels, real queues: stackrun / routesend exercise those)',
                      'translate/gofacts site inventory (Generated/Sites.lean, pinned): every util.Assert / panic site of the coroutine and kernel packages is listed; the model\'s `.panic` '
                      'leaves were written from that list by hand',
                      'front-end validation is not modelled: frontdiff ties it to ValidReq on the malformed pool only'],
    ),
    'C14': dict(
        modules=['Resonate.Properties.C14'],
        pin_filter=r'awaitLoops|coroutineCmds|tick|queueShapes',
        tie_filter=r'(promise|schedule)(Search|Insert|Update|Delete|Select)|shape|wiring|uniques',
        harness=[with_monitor(storediff('storediff-search', ['SearchPromises', 'SearchPromises', 'CreatePromise', 'UpdatePromise', 'SearchSchedules', 'CreateSchedule', 'DeleteSchedule', 'CreatePromiseAndTask'], (40, 40), (1000, 60), (300, 60)), 'C14,C01'),
                 sysdiff('sysdiff-search', ['SearchPromises', 'SearchSchedules', 'CreatePromise', 'CompletePromise', 'CreateSchedule', 'DeleteSchedule'], (20, 120), (400, 150), 'C01,C14', ['-fail', '10'], (150, 150)),
                 sysdiff('sysdiff-search-focus', ['SearchPromises', 'SearchPromises', 'CreatePromise', 'CompletePromise', 'ReadPromise'], (15, 60), (400, 80), 'C01,C14', ['-focus', '-fail', '5'], (200, 80))],
        rule='storediff over search/create/complete/delete commands (populations grow to dozens of rows, prefix/suffix/infix patterns, every state subset, tag subsets, page sizes 1..100, cursors), every search that heads a batch is ALSO checked against an independent Go oracle of the property (matching set, newest first, first limit) evaluated on the previous implementation dump; sysdiff covers the coroutine (cursor construction, lazy time-out and re-search)',
        assumptions=['cursor MAC (jwt) is not modelled; the signed-cursor reject path is exercised by frontdiff/stack tests only',
                     'tag keys are plain JSON-path labels on sqlite (finding F14 is listed as known)'],
        trusted_base=['search coroutines modelled by hand and tied by sysdiff'],
    ),
    'C15': dict(
        modules=['Resonate.Properties.C15'],
        tie_filter=r'^$',
        harness=[dict(bin='frontdiff', name='frontdiff', quick=['-facts', '{gen}/gofacts.json'], thorough=['-facts', '{gen}/gofacts.json'], search=['-facts', '{gen}/gofacts.json'])],
        divergence_is_violation=True,
        rule='EXHAUSTIVE: 21 endpoints x all 30 StatusCode constants x {response with minimal | full resource, error with | without a wrapped cause} x {HTTP, gRPC} against the '
             'real gin engine and the real grpc server over a scripted stub kernel, each case in a child process (a handler panic is an observation); '
             'checked per case: reply received, HTTP code = status/100, JSON body / error body carrying the code, gRPC OK iff successful and a proper '
             'error code otherwise, every outcome flag = (status == the kernel\'s success status for that operation); plus per endpoint the same '
             'well-formed request through both protocols must translate to the same kernel request',
        assumptions=['wire codecs (gin, protobuf, base64) are exercised, not modelled'],
        trusted_base=['translate/gofacts (go/ast fact extractor)', 'the stub kernel of frontdiff'],
    ),
    'C17': dict(
        modules=['Resonate.Properties.C17'],
        tie_filter=r'.*',
        harness=[storediff('storediff-all', None, (25, 30), (800, 40), (300, 40)),
                 dict(storediff('storediff-pgmodel', None, (25, 30), (800, 40), (300, 40)), regenerated_driver=True, divergence_is_violation=True),
                 dict(storediff('storediff-pgshim', None, (25, 30), (800, 40), (300, 40)), regenerated_driver=True, divergence_is_violation=True)],
        rule='storediff-pgshim: (deadline phase: Execute with a transaction deadline that expires while the last statement, made slow by the shim, is still running — an acknowledged write is in the database, as with the sqlite worker) the REAL postgres.go worker (Execute, performCommands, all handlers, the Postgres SQL text) run over a database/sql shim ($N -> ?N, ::casts stripped) on sqlite and compared, result by result and table by table, with the model under the regenerated Postgres definitions, for every command kind except the three whose SQL is Postgres-only (jsonb containment in the two searches, DISTINCT ON in the enqueueable select); the deciding artefact for those, and for engine semantics, is static: both statement sets and both handler argument lists are re-translated from /repo on every run and proved '
             'equal, definition by definition, to SqlSpec.defs .pg / .sqlite (110 tie theorems), whose store semantics are proved equal under DialectSafe; '
             'storediff validates the shared model against the real sqlite store (random batches over all 27 kinds; non-trivial = affected/returned >= 1 row)',
        assumptions=['no Postgres server exists in the sandbox: the Postgres Go code is exercised over a shim on sqlite (storediff-pgshim), engine-specific behaviour of a real server is not observed; the three Postgres-only statements are decided statically (translation + proof)',
                     'Postgres 32-bit columns (callbacks.timeout, tasks.ttl/counter, ::int cast) and SERIAL not being rolled back are outside the model (documented dialect differences)',
                     'MVCC behaviour with Workers > 1 is outside the model'],
        trusted_base=['sql2lean.py for the Postgres dialect ($n placeholders, ::casts, @>, DISTINCT ON)'],
    ),
    'C16': dict(
        modules=['Resonate.Properties.C16'],
        tie_filter=r'.*',
        harness=[storediff('storediff-all', None, (40, 30), (1500, 40), (400, 40)),
                 dict(bin='txedge', name='txedge', quick=['-steps', '8'], thorough=['-steps', '60', '-callbacks', '150000'], search=['-steps', '24'])],
        divergence_is_violation=True,
        rule='txedge: the transaction deadline (TxTimeout) swept over the duration of a batch dominated by one slow command placed first / middle / last / last in the same transaction, on the real store; outcome must be all-failed-and-nothing-written or all-applied-and-everything-written (read back through an independent connection); non-trivial = deadline expired inside the batch. storediff: '
             'random batches of 1-4 transactions x 1-5 commands over all 27 command kinds on small shared id pools, from a fresh '
             'file database per script; a case is one command; non-trivial = an alter command that affected >=1 row or a query '
             'that returned >=1 row (counted); compared: error/no-error per batch, every result, full dump of the five tables and '
             'sqlite_sequence after every batch',
        assumptions=['isolation (visibility only at commit) is sqlite\'s; the model executes a batch as one atomic step',
                     'byte strings are valid UTF-8 in generated inputs'],
        trusted_base=['store.Process / Execute / performCommands control flow is tied by correspondence (storediff), not translated'],
    ),
}
