"""Per-property configuration of ./check: Lean modules holding the theorems, which regenerated tie
theorems the property depends on (projection, DESIGN §5.5), and the correspondence runs."""

ALL_KINDS = None


def storediff(name, kinds, quick, thorough, search=None):
    base = ['-kinds', ','.join(kinds)] if kinds else []
    return dict(bin='storediff', name=name,
                quick=base + ['-scripts', str(quick[0]), '-batches', str(quick[1])],
                thorough=base + ['-scripts', str(thorough[0]), '-batches', str(thorough[1])],
                search=base + ['-scripts', str((search or thorough)[0]), '-batches', str((search or thorough)[1])])


PROMISE_KINDS = ['ReadPromise', 'ReadPromises', 'SearchPromises', 'CreatePromise', 'UpdatePromise', 'CreatePromiseAndTask']
CALLBACK_KINDS = ['CreateCallback', 'DeleteCallbacks', 'CreateTasks', 'CompleteTasks']
SCHEDULE_KINDS = ['ReadSchedule', 'ReadSchedules', 'SearchSchedules', 'CreateSchedule', 'UpdateSchedule', 'DeleteSchedule']
TASK_KINDS = ['ReadTask', 'ReadTasks', 'ReadEnqueueableTasks', 'CreateTask', 'CreateTasks', 'CompleteTasks', 'UpdateTask', 'HeartbeatTasks', 'CreatePromiseAndTask']
LOCK_KINDS = ['ReadLock', 'AcquireLock', 'ReleaseLock', 'HeartbeatLocks', 'TimeoutLocks']

PROPS = {
    'C16': dict(
        modules=['Resonate.Properties.C16'],
        tie_filter=r'.*',
        harness=[storediff('storediff-all', None, (40, 30), (1500, 40), (400, 40))],
        divergence_is_violation=True,
        rule='random batches of 1-4 transactions x 1-5 commands over all 27 command kinds on small shared id pools, from a fresh '
             'file database per script; a case is one command; non-trivial = an alter command that affected >=1 row or a query '
             'that returned >=1 row (counted); compared: error/no-error per batch, every result, full dump of the five tables and '
             'sqlite_sequence after every batch',
        assumptions=['isolation (visibility only at commit) is sqlite\'s; the model executes a batch as one atomic step',
                     'byte strings are valid UTF-8 in generated inputs'],
        trusted_base=['store.Process / Execute / performCommands control flow is tied by correspondence (storediff), not translated'],
    ),
}
