module github.com/resonatehq/resonate/verifharness

go 1.23.0

require (
	github.com/resonatehq/resonate v0.0.0
	github.com/anishathalye/porcupine v1.0.0
	github.com/gin-gonic/gin v1.10.0
	github.com/go-playground/validator/v10 v10.24.0
	github.com/golang-jwt/jwt v3.2.2+incompatible
	github.com/google/uuid v1.6.0
	github.com/lib/pq v1.10.9
	github.com/mattn/go-sqlite3 v1.14.24
	github.com/mitchellh/mapstructure v1.5.0
	github.com/oapi-codegen/runtime v1.1.1
	github.com/prometheus/client_golang v1.20.5
	github.com/resonatehq/gocoro v0.0.0-20240928015848-78539a59dab0
	github.com/robfig/cron/v3 v3.0.1
	github.com/spf13/cobra v1.8.1
	github.com/spf13/viper v1.19.0
	github.com/stretchr/testify v1.10.0
	go.uber.org/mock v0.5.0
	google.golang.org/grpc v1.70.0
	google.golang.org/protobuf v1.36.5
	github.com/apapsch/go-jsonmerge/v2 v2.0.0 // indirect
	github.com/beorn7/perks v1.0.1 // indirect
	github.com/bytedance/sonic v1.11.6 // indirect
	github.com/bytedance/sonic/loader v0.1.1 // indirect
	github.com/cespare/xxhash/v2 v2.3.0 // indirect
	github.com/cloudwego/base64x v0.1.4 // indirect
	github.com/cloudwego/iasm v0.2.0 // indirect
	github.com/davecgh/go-spew v1.1.2-0.20180830191138-d8f796af33cc // indirect
	github.com/fsnotify/fsnotify v1.7.0 // indirect
	github.com/gabriel-vasile/mimetype v1.4.8 // indirect
	github.com/gin-contrib/sse v0.1.0 // indirect
	github.com/go-playground/locales v0.14.1 // indirect
	github.com/go-playground/universal-translator v0.18.1 // indirect
	github.com/goccy/go-json v0.10.2 // indirect
	github.com/hashicorp/hcl v1.0.0 // indirect
	github.com/inconshreveable/mousetrap v1.1.0 // indirect
	github.com/json-iterator/go v1.1.12 // indirect
	github.com/klauspost/compress v1.17.9 // indirect
	github.com/klauspost/cpuid/v2 v2.2.7 // indirect
	github.com/leodido/go-urn v1.4.0 // indirect
	github.com/magiconair/properties v1.8.7 // indirect
	github.com/mattn/go-isatty v0.0.20 // indirect
	github.com/modern-go/concurrent v0.0.0-20180306012644-bacd9c7ef1dd // indirect
	github.com/modern-go/reflect2 v1.0.2 // indirect
	github.com/munnerz/goautoneg v0.0.0-20191010083416-a7dc8b61c822 // indirect
	github.com/pelletier/go-toml/v2 v2.2.2 // indirect
	github.com/pmezard/go-difflib v1.0.1-0.20181226105442-5d4384ee4fb2 // indirect
	github.com/prometheus/client_model v0.6.1 // indirect
	github.com/prometheus/common v0.55.0 // indirect
	github.com/prometheus/procfs v0.15.1 // indirect
	github.com/rogpeppe/go-internal v1.11.0 // indirect
	github.com/sagikazarmark/locafero v0.4.0 // indirect
	github.com/sagikazarmark/slog-shim v0.1.0 // indirect
	github.com/sourcegraph/conc v0.3.0 // indirect
	github.com/spf13/afero v1.11.0 // indirect
	github.com/spf13/cast v1.6.0 // indirect
	github.com/spf13/pflag v1.0.5 // indirect
	github.com/subosito/gotenv v1.6.0 // indirect
	github.com/twitchyliquid64/golang-asm v0.15.1 // indirect
	github.com/ugorji/go/codec v1.2.12 // indirect
	go.uber.org/atomic v1.9.0 // indirect
	go.uber.org/multierr v1.9.0 // indirect
	golang.org/x/arch v0.8.0 // indirect
	golang.org/x/crypto v0.35.0 // indirect
	golang.org/x/exp v0.0.0-20230905200255-921286631fa9 // indirect
	golang.org/x/net v0.36.0 // indirect
	golang.org/x/sys v0.30.0 // indirect
	golang.org/x/text v0.22.0 // indirect
	google.golang.org/genproto/googleapis/rpc v0.0.0-20241202173237-19429a94021a // indirect
	gopkg.in/ini.v1 v1.67.0 // indirect
	gopkg.in/yaml.v3 v3.0.1 // indirect
)

replace github.com/resonatehq/resonate => /repo
