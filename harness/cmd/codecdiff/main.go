// codecdiff — Go's encoding/json for map[string]string (what resonate persists for header / tag maps,
// and reads back through PromiseRecord.Promise()) against the Lean codec model (Model/Json.lean).
package main

import (
	"encoding/json"
	"flag"
	"fmt"
	"math/rand"
	"os"
	"reflect"
	"sort"
	"strings"

	"github.com/resonatehq/resonate/pkg/promise"
	"github.com/resonatehq/resonate/pkg/schedule"
	"github.com/resonatehq/resonate/verifharness/internal/lean"
)

type M = map[string]any

var alphabet = func() []rune {
	rs := []rune{'"', '\\', '/', '<', '>', '&', '\'', ':', ',', '{', '}', '[', ']', ' ', 'a', 'Z', '0', 0x7f, 0x80, 0xe9, 0x2028, 0x2029, 0x200f, 0x0301, 0xfffd, 0xffff, 0x10000, 0x1f600, 0x10ffff, 'u', 'n', 'b'}
	for c := rune(0); c < 32; c++ {
		rs = append(rs, c)
	}
	return rs
}()

func randStr(r *rand.Rand) string {
	n := r.Intn(8)
	if r.Intn(20) == 0 {
		n = 200 + r.Intn(2000)
	}
	var sb strings.Builder
	for i := 0; i < n; i++ {
		sb.WriteRune(alphabet[r.Intn(len(alphabet))])
	}
	return sb.String()
}

func main() {
	seed := flag.Int64("seed", 1, "")
	n := flag.Int("cases", 2000, "")
	driver := flag.String("driver", "", "")
	work := flag.String("work", "", "")
	out := flag.String("out", "", "")
	flag.String("replay", "", "")
	flag.String("corpus", "", "")
	flag.Parse()
	os.MkdirAll(*work, 0o755)
	drv, err := lean.Start(*driver)
	if err != nil {
		panic(err)
	}
	defer drv.Close()
	r := rand.New(rand.NewSource(*seed))
	summary := M{"cases": *n, "scripts": *n, "disagreements": 0}
	classes := map[string]int{}
	var samples []any
	records := 0
	fail := func(what string, m map[string]string, detail string) {
		rep := M{"harness": "codecdiff", "map": m, "what": what, "detail": detail}
		b, _ := json.MarshalIndent(rep, "", " ")
		p := *work + "/codecdiff-divergence.json"
		os.WriteFile(p, b, 0o644)
		summary["disagreements"], summary["divergence"], summary["diff"], summary["divergence_file"], summary["property_violation"] = 1, what, detail, p, false
	}
	for i := 0; i < *n && summary["disagreements"] == 0; i++ {
		m := map[string]string{}
		for k := r.Intn(4); k > 0; k-- {
			m[randStr(r)] = randStr(r)
		}
		keys := make([]string, 0, len(m))
		for k := range m {
			keys = append(keys, k)
		}
		sort.Strings(keys)
		pairs := []any{}
		for _, k := range keys {
			pairs = append(pairs, []any{k, m[k]})
			for _, c := range k + m[k] {
				switch {
				case c < 32:
					classes["control"]++
				case c == '"' || c == '\\':
					classes["quote/backslash"]++
				case c == '<' || c == '>' || c == '&':
					classes["html"]++
				case c == 0x2028 || c == 0x2029:
					classes["line-separator"]++
				case c >= 0x10000:
					classes["astral"]++
				case c >= 0x80:
					classes["non-ascii"]++
				default:
					classes["ascii"]++
				}
			}
		}
		goBytes, _ := json.Marshal(m)
		rep, _, err := drv.Call(M{"op": "json_enc", "pairs": pairs})
		if err != nil {
			fail("driver", m, err.Error())
			break
		}
		if rep["text"] != string(goBytes) {
			fail("encoding differs", m, fmt.Sprintf("go=%q model=%q", goBytes, rep["text"]))
			break
		}
		// decoding through the real record conversion (pkg/promise bytesToMap)
		p, perr := (&promise.PromiseRecord{Id: "x", State: promise.Pending, Tags: goBytes}).Promise()
		rep2, _, err := drv.Call(M{"op": "json_dec", "text": string(goBytes)})
		if err != nil {
			fail("driver", m, err.Error())
			break
		}
		got := map[string]string{}
		if l, ok := rep2["pairs"].([]any); ok {
			for _, kv := range l {
				x := kv.([]any)
				got[x[0].(string)] = x[1].(string)
			}
		} else {
			fail("model cannot decode what Go wrote", m, string(goBytes))
			break
		}
		if perr != nil || !reflect.DeepEqual(p.Tags, m) {
			fail("Go round trip lost data", m, fmt.Sprint(perr))
			summary["property_violation"] = true
			break
		}
		if !reflect.DeepEqual(got, m) {
			fail("model decoding differs", m, fmt.Sprint(got))
			break
		}
		// the whole record conversion, in every state a stored promise can be in: parameter and tags always, the value
		// whenever the state is one a client completes a promise with (resolved, rejected, canceled) — and the schedule
		// record's three maps and parameter data
		{
			st := []promise.State{promise.Pending, promise.Resolved, promise.Rejected, promise.Canceled, promise.Timedout}[i%5]
			data := []byte(string(goBytes) + "\x00\xff")
			rec := &promise.PromiseRecord{Id: "x", State: st, ParamHeaders: goBytes, ParamData: data, Tags: goBytes}
			withValue := st == promise.Resolved || st == promise.Rejected || st == promise.Canceled
			if withValue {
				rec.ValueHeaders, rec.ValueData = goBytes, data
			}
			q, qerr := rec.Promise()
			bad := ""
			switch {
			case qerr != nil:
				bad = qerr.Error()
			case !reflect.DeepEqual(q.Param.Headers, m) || string(q.Param.Data) != string(data):
				bad = "parameter"
			case !reflect.DeepEqual(q.Tags, m):
				bad = "tags"
			case withValue && (!reflect.DeepEqual(q.Value.Headers, m) || string(q.Value.Data) != string(data)):
				bad = "value"
			}
			if bad != "" {
				fail(fmt.Sprintf("a stored promise row in state %v is not returned as stored: %s", st, bad), m, fmt.Sprintf("decoded value headers %v, %d value bytes", q.Value.Headers, len(q.Value.Data)))
				summary["property_violation"] = true
				break
			}
			sr := &schedule.ScheduleRecord{Id: "s", Tags: goBytes, PromiseTags: goBytes, PromiseParamHeaders: goBytes, PromiseParamData: data}
			sc, serr := sr.Schedule()
			if serr != nil || !reflect.DeepEqual(sc.Tags, m) || !reflect.DeepEqual(sc.PromiseTags, m) || !reflect.DeepEqual(sc.PromiseParam.Headers, m) || string(sc.PromiseParam.Data) != string(data) {
				fail("a stored schedule row is not returned as stored", m, fmt.Sprint(serr))
				summary["property_violation"] = true
				break
			}
			records++
		}
		if i < 2 {
			samples = append(samples, M{"map": m, "encoded": string(goBytes)})
		}
	}
	total := 0
	for _, v := range classes {
		total += v
	}
	summary["counts"] = M{"nontrivial": *n, "char_classes": classes, "chars": total, "records_decoded": records}
	summary["samples"] = samples
	b, _ := json.MarshalIndent(summary, "", " ")
	if *out != "" {
		os.WriteFile(*out, b, 0o644)
	} else {
		fmt.Println(string(b))
	}
	if summary["disagreements"] != 0 {
		os.Exit(3)
	}
}
