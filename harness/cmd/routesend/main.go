// routesend — correspondence check for receiver resolution (property C19):
//   routing tag --router.Process--> stored receiver bytes --SenderWorker.Process--> message to a transport
// against the Lean model Model/Resolve.lean, with direct checks of the dispatched body and of the sender's completion,
// and a transport stage that feeds the message to the real http plugin (stub RoundTripper, no network).
//
// Cases are generated offline by the parent and executed in a child process ("START i" is printed before each case),
// because a panic on a worker goroutine kills the process: the parent then reports the crashing case.
package main

import (
	"regexp"
	"bufio"
	"bytes"
	"encoding/json"
	"errors"
	"flag"
	"fmt"
	"io"
	"log/slog"
	"math"
	"math/rand"
	"net/http"
	"net/url"
	"os"
	"os/exec"
	"path/filepath"
	"reflect"
	"sort"
	"strings"
	"time"

	"github.com/prometheus/client_golang/prometheus"
	"github.com/resonatehq/resonate/internal/aio"
	httpplugin "github.com/resonatehq/resonate/internal/app/plugins/http"
	"github.com/resonatehq/resonate/internal/app/subsystems/aio/router"
	"github.com/resonatehq/resonate/internal/app/subsystems/aio/sender"
	"github.com/resonatehq/resonate/internal/kernel/bus"
	"github.com/resonatehq/resonate/internal/kernel/t_aio"
	"github.com/resonatehq/resonate/internal/metrics"
	"github.com/resonatehq/resonate/pkg/idempotency"
	"github.com/resonatehq/resonate/pkg/message"
	"github.com/resonatehq/resonate/pkg/promise"
	"github.com/resonatehq/resonate/pkg/task"
	"github.com/resonatehq/resonate/verifharness/internal/lean"
)

type M = map[string]any

type Target struct {
	Name string `json:"name"`
	Type string `json:"type"`
	Data string `json:"data"`
}

type Case struct {
	Idx     int      `json:"idx"`
	Tag     *string  `json:"tag"`            // routing tag (nil = absent); ignored when Stored is set
	Stored  *string  `json:"stored"`         // receiver bytes given to the sender directly (callback receivers come from requests)
	Targets []Target `json:"targets"`
	Plugins []string `json:"plugins"`        // registered transports
	Kind    string   `json:"kind"`           // invoke | resume | notify
	Plugin  string   `json:"pluginOutcome"`  // success | failure | error | full
	Http    int      `json:"http,omitempty"` // status the stub HTTP endpoint answers (0 = transport error)
}

// ---------------------------------------------------------------- pools

var plainTags = []string{"default", "poll://g/w1", "poll://g", "poll://g/", "poll://g/a/b", "http://x.io/a?b=c", "https://h:8080/p", "nowhere", "ftp://x/y",
	"", " spaced", "a<b&c>", "é", "poll://G%20x/i%2Fj", "poll://workers:2/a", "poll://g:0/", "poll://g.h-1:8080/w_1", "poll://[g]/x", "poll://[::1]/x", "poll://g:/i", "http://[::1]:80/", "::bad url", "%zz", "poll:opaque", "HTTP://UP.case/", "local", "http://x.io/ a", "poll://", "x y"}

var jsonTags = []string{
	`{"type":"poll","data":{"group":"g","id":"i"}}`, `{ "type" : "poll" , "data" : { "group" : "g" } }`,
	`{"type":"http","data":{"url":"http://x.io/hook","headers":{"a":"b"}}}`, `{"type":"poll"}`, `{"type":"poll","data":null}`, `{"type":"http","data":null}`,
	`{"type":"","data":{}}`, `{"type":"nope","data":{}}`, `{"type":"poll","x":1}`, `{"Type":"poll","DATA":{"group":"g"}}`, `{"type":5}`, `{"type":null,"data":1}`,
	`[1]`, `7`, `"str"`, `null`, `true`, `{}`, `{"type":"a","type":"poll","data":{"group":"d"}}`, `{"type":"poll","data":{"group":"<&>"}}`,
	`{"type":"http","data":{"url":"://bad"}}`, `{"type":"http","data":"str"}`, `{"type":"http","data":{"url":"http://x.io/<a>&"}}`, `{"data":{"group":"g"},"type":"poll"}`,
	`{"type":"poll","data":{"group":"g"}} `, ` {"type":"poll","data":[1, 2]}`, `-0.5e+3`, `01`, `{"type":"poll",}`, `{"type":"p\"q","data":1.50}`,
}

var storedBytes = []string{`null`, `5`, `"default"`, ` "default" `, `{"type":"poll","data":{"group":"g"},"extra":1}`, `[]`, `{"type":7}`, `"poll://g/i"`, `{"type":"poll","data":{"group":"g"}}`,
	`{"data":{"group":"g"}}`, `{`, ``, `{"type":"http","data":null}`, `"http://x.io/<a>"`, `{"TYPE":"poll","Data":{"group":"G"}}`, `true`}

var targetSets = [][]Target{
	nil,
	{{"default", "http", `{"url":"http://default.io"}`}},
	{{"poll://g/w1", "http", `{"url":"http://shadow.io"}`}, {"local", "poll", `{"group":"loc"}`}},
	{{"local", "poll", `{"group":"a"}`}, {"local", "http", `{"url":"http://second.io"}`}},
	{{"nowhere", "carrier-pigeon", `{}`}, {"", "poll", `{"group":"empty-name"}`}},
}

var pluginSets = [][]string{{"http", "poll"}, {"http", "poll"}, {"http", "poll"}, {"poll"}, {"http"}, {}}

func genCases(r *rand.Rand, n int) []Case {
	var cs []Case
	mk := func(ti, pi int) Case {
		return Case{Targets: targetSets[ti], Plugins: pluginSets[pi],
			Kind: []string{"invoke", "invoke", "resume", "notify"}[r.Intn(4)], Plugin: []string{"success", "success", "failure", "error", "full"}[r.Intn(5)],
			Http: []int{200, 200, 500, 404, 0, 300, 304, 201, 308, 399, 400}[r.Intn(11)]}
	}
	// the whole cross product {tags, stored bytes, no tag} x target tables x plugin sets first (kind / transport answer drawn at random) ...
	distinctPlugins := []int{0, 3, 4, 5}
	for ti := range targetSets {
		for _, pi := range distinctPlugins {
			for _, t := range plainTags {
				t := t
				c := mk(ti, pi)
				c.Tag = &t
				cs = append(cs, c)
			}
			for _, t := range jsonTags {
				t := t
				c := mk(ti, pi)
				c.Tag = &t
				cs = append(cs, c)
			}
			for _, b := range storedBytes {
				b := b
				c := mk(ti, pi)
				c.Stored = &b
				cs = append(cs, c)
			}
			cs = append(cs, mk(ti, pi))
		}
	}
	// ... then random draws (other kinds / transport answers for the same addresses)
	for len(cs) < n {
		c := mk(r.Intn(len(targetSets)), r.Intn(len(pluginSets)))
		switch x := r.Intn(10); {
		case x < 4:
			t := plainTags[r.Intn(len(plainTags))]
			c.Tag = &t
		case x < 8:
			t := jsonTags[r.Intn(len(jsonTags))]
			c.Tag = &t
		case x < 9:
			s := storedBytes[r.Intn(len(storedBytes))]
			c.Stored = &s
		default:
		}
		cs = append(cs, c)
	}
	for i := range cs {
		cs[i].Idx = i
	}
	return cs
}

// ---------------------------------------------------------------- child

type cqAIO struct{ cqes []*bus.CQE[t_aio.Submission, t_aio.Completion] }

func (a *cqAIO) String() string                                       { return "cqAIO" }
func (a *cqAIO) Start() error                                         { return nil }
func (a *cqAIO) Stop() error                                          { return nil }
func (a *cqAIO) Shutdown()                                            {}
func (a *cqAIO) Errors() <-chan error                                 { return nil }
func (a *cqAIO) Signal(<-chan interface{}) <-chan interface{}         { panic("not used") }
func (a *cqAIO) Flush(int64)                                          {}
func (a *cqAIO) Dispatch(*t_aio.Submission, func(*t_aio.Completion, error)) { panic("not used") }
func (a *cqAIO) EnqueueSQE(*bus.SQE[t_aio.Submission, t_aio.Completion])   { panic("not used") }
func (a *cqAIO) EnqueueCQE(c *bus.CQE[t_aio.Submission, t_aio.Completion]) { a.cqes = append(a.cqes, c) }
func (a *cqAIO) DequeueCQE(int) []*bus.CQE[t_aio.Submission, t_aio.Completion] {
	return nil
}

type stubPlugin struct {
	typ     string
	outcome string
	got     []*aio.Message
}

func (p *stubPlugin) String() string          { return "stub:" + p.typ }
func (p *stubPlugin) Type() string            { return p.typ }
func (p *stubPlugin) Start(chan<- error) error { return nil }
func (p *stubPlugin) Stop() error             { return nil }
func (p *stubPlugin) Enqueue(m *aio.Message) bool {
	if p.outcome == "full" {
		return false
	}
	p.got = append(p.got, m)
	switch p.outcome {
	case "success":
		m.Done(true, nil)
	case "failure":
		m.Done(false, nil)
	default:
		m.Done(false, errors.New("transport error"))
	}
	return true
}

type stubTransport struct {
	status int
	reqs   []*http.Request
	bodies [][]byte
}

func (t *stubTransport) RoundTrip(r *http.Request) (*http.Response, error) {
	b, _ := io.ReadAll(r.Body)
	t.reqs = append(t.reqs, r)
	t.bodies = append(t.bodies, b)
	if t.status == 0 {
		return nil, errors.New("connection refused (scripted)")
	}
	return &http.Response{StatusCode: t.status, Body: io.NopCloser(strings.NewReader("")), Header: http.Header{}, Request: r}, nil
}

func runCase(drv *lean.Driver, reg *metrics.Metrics, rt *router.Router, hp *httpplugin.Http, tr *stubTransport, c Case, counts map[string]int) (string, string, bool) {
	// ---- router
	var recv []byte
	if c.Stored != nil {
		recv = []byte(*c.Stored)
	} else {
		tags := map[string]string{"other": "x"}
		req := M{"op": "route_tag"}
		if c.Tag != nil {
			tags["resonate:invoke"] = *c.Tag
			req["tag"] = *c.Tag
		}
		p := &promise.Promise{Id: "p", State: promise.Pending, Tags: tags}
		cqe := rt.Process([]*bus.SQE[t_aio.Submission, t_aio.Completion]{{Submission: &t_aio.Submission{Kind: t_aio.Router, Router: &t_aio.RouterSubmission{Promise: p}}}})[0]
		rep, _, err := drv.Call(req)
		if err != nil {
			return "harness", err.Error(), false
		}
		if cqe.Error != nil || cqe.Completion == nil || cqe.Completion.Router == nil {
			return "router returned no completion", fmt.Sprint(cqe.Error), true
		}
		matched := cqe.Completion.Router.Matched
		// direct C19 check, independent of the model: a routing tag that is not JSON at all is a plain string and is
		// kept as a logical name
		if c.Tag != nil && !json.Valid([]byte(*c.Tag)) {
			var name string
			if !matched {
				return "a plain-string routing tag was not routed", fmt.Sprintf("tag %q is not JSON, so it is a logical name; the router did not match it", *c.Tag), true
			}
			if err := json.Unmarshal(cqe.Completion.Router.Recv, &name); err != nil || name != *c.Tag {
				return "a plain-string routing tag was not kept as the logical name", fmt.Sprintf("tag %q stored as %s", *c.Tag, cqe.Completion.Router.Recv), true
			}
			counts["plain_string_tags"]++
		}
		// … and a JSON receiver object (exactly the keys "type" - a non-empty string - and optionally "data") is kept as a
		// physical receiver with that type and that data
		if c.Tag != nil && json.Valid([]byte(*c.Tag)) {
			var obj map[string]json.RawMessage
			var typ string
			if json.Unmarshal([]byte(*c.Tag), &obj) == nil && obj != nil && len(obj) <= 2 && obj["type"] != nil && json.Unmarshal(obj["type"], &typ) == nil && typ != "" &&
				(len(obj) == 1 || obj["data"] != nil) && strings.Count(*c.Tag, `"type"`) == 1 && strings.Count(*c.Tag, `"data"`) <= 1 {
				if !matched {
					return "a JSON receiver object was not routed", fmt.Sprintf("tag %s is a receiver object of type %q; the router did not match it", *c.Tag, typ), true
				}
				var got struct {
					Type string          `json:"type"`
					Data json.RawMessage `json:"data"`
				}
				if err := json.Unmarshal(cqe.Completion.Router.Recv, &got); err != nil || got.Type != typ {
					return "a JSON receiver object was not kept as that physical receiver", fmt.Sprintf("tag %s stored as %s", *c.Tag, cqe.Completion.Router.Recv), true
				}
				var a, b any
				wantData := obj["data"]
				if wantData == nil {
					wantData = json.RawMessage("null")
				}
				gotData := got.Data
				if gotData == nil {
					gotData = json.RawMessage("null")
				}
				if json.Unmarshal(wantData, &a) != nil || json.Unmarshal(gotData, &b) != nil || !reflect.DeepEqual(a, b) {
					return "a JSON receiver object was stored with different data", fmt.Sprintf("tag %s stored as %s", *c.Tag, cqe.Completion.Router.Recv), true
				}
				counts["receiver_object_tags"]++
			}
		}
		if matched != (rep["matched"] == true) {
			return "router match decision differs", fmt.Sprintf("tag %q: impl matched=%v model=%v", deref(c.Tag), matched, rep["matched"]), false
		}
		if !matched {
			counts["unrouted"]++
			return "", "", false
		}
		recv = cqe.Completion.Router.Recv
		if string(recv) != fmt.Sprint(rep["recv"]) {
			return "stored receiver bytes differ", fmt.Sprintf("tag %q: impl=%s model=%v", deref(c.Tag), recv, rep["recv"]), false
		}
		counts["routed:"+fmt.Sprint(rep["address"].(map[string]any)["k"])]++
	}
	// ---- sender
	a := &cqAIO{}
	s, err := sender.New(a, reg, &sender.Config{Size: 10, Targets: targetConfigs(c.Targets)})
	if err != nil {
		return "harness", err.Error(), false
	}
	w := s.VerifWorker()
	stubs := map[string]*stubPlugin{}
	for _, p := range c.Plugins {
		stubs[p] = &stubPlugin{typ: p, outcome: c.Plugin}
		w.AddPlugin(stubs[p])
	}
	one := int64(1)
	// timeouts over the full 64-bit range (C20): the dispatched body must carry them digit for digit
	bodyCase := c.Idx
	timeouts := []int64{99, 1<<53 + 1, math.MaxInt64, 0, 1<<62 + 12345, math.MaxInt64 - 1}
	tmo := timeouts[bodyCase%len(timeouts)]
	big := int64(1<<53+3) + int64(bodyCase)
	tk := &task.Task{Id: "__" + c.Kind + ":p<&>", Counter: 3, Timeout: tmo, State: task.Enqueued, RootPromiseId: "p", Recv: recv,
		Mesg: &message.Mesg{Type: message.Type(c.Kind), Root: "root", Leaf: "leaf"}, CreatedOn: &one}
	if bodyCase%2 == 1 {
		tk.CreatedOn = &big
	}
	sub := &t_aio.SenderSubmission{Task: tk, ClaimHref: "http://r/tasks/claim/" + tk.Id + "/3", CompleteHref: "http://r/tasks/complete/" + tk.Id + "/3", HeartbeatHref: "http://r/tasks/heartbeat/" + tk.Id + "/3"}
	if c.Kind == "notify" {
		sub.Promise = &promise.Promise{Id: "p<&>", State: promise.Resolved, Tags: map[string]string{}, Value: promise.Value{Data: []byte("v")}, CompletedOn: &one}
		sub.Promise.Timeout = tmo
		if bodyCase%2 == 1 {
			ik := idempotency.Key("k<&>\u00e9")
			sub.Promise.CompletedOn, sub.Promise.CreatedOn = &big, &one
			sub.Promise.Param = promise.Value{Headers: map[string]string{"h<": "&>"}, Data: []byte{0, 255, '<'}}
			sub.Promise.Tags = map[string]string{"resonate:invoke": "poll://g/i", "t<&>": "\u00e9"}
			sub.Promise.IdempotencyKeyForCreate = &ik
		}
	}
	var panicked any
	func() {
		defer func() { panicked = recover() }()
		w.Process(&bus.SQE[t_aio.Submission, t_aio.Completion]{Id: "s", Submission: &t_aio.Submission{Kind: t_aio.Sender, Tags: map[string]string{"id": "s"}, Sender: sub}})
	}()
	if panicked != nil {
		return "the sender worker panicked on stored receiver bytes (the server process would die)", fmt.Sprintf("recv=%s: %v", recv, panicked), true
	}
	// model
	req := M{"op": "dispatch", "recv": string(recv), "plugins": c.Plugins, "targets": c.Targets}
	var name *string
	if json.Unmarshal(recv, &name) == nil && name != nil {
		if u, err := url.Parse(*name); err == nil {
			req["parsed"] = M{"scheme": u.Scheme, "host": u.Host, "path": u.Path, "str": u.String()}
		}
	}
	rep, _, err := drv.Call(req)
	if err != nil {
		return "harness", err.Error(), false
	}
	out := rep["outcome"].(map[string]any)
	var got *aio.Message
	gotPlugin := ""
	for _, sp := range stubs {
		for _, m := range sp.got {
			if got != nil {
				return "one hand-off produced two messages", "", true
			}
			got, gotPlugin = m, sp.typ
		}
	}
	if len(a.cqes) != 1 {
		return "the sender did not complete the submission exactly once (a lost or duplicated hand-off)", fmt.Sprintf("%d completions for recv=%s", len(a.cqes), recv), true
	}
	cqe := a.cqes[0]
	// direct C18 / C19 clause, independent of the model: poll://group/id addresses exactly that group and that id of the
	// poll transport (for groups and ids written with letters, digits, '.', '_', '-' and ':' there is nothing to decode)
	if name != nil && got != nil && gotPlugin == "poll" {
		if m := pollAddr.FindStringSubmatch(*name); m != nil {
			targeted := false
			for _, t := range c.Targets {
				targeted = targeted || t.Name == *name
			}
			var d struct {
				Group string `json:"group"`
				Id    string `json:"id"`
			}
			if !targeted && (json.Unmarshal(got.Data, &d) != nil || d.Group != m[1] || d.Id != m[2]) {
				return "a poll:// address was handed to the poll transport with another group or id", fmt.Sprintf("address %q handed over as %s", *name, got.Data), true
			}
			counts["poll_addresses"]++
		}
	}
	counts["dispatch:"+fmt.Sprint(out["k"])]++
	if out["k"] == "handed" && c.Plugin != "full" {
		if got == nil {
			return "model hands the message to a transport, the implementation did not", fmt.Sprintf("recv=%s model=%v impl error=%v", recv, out, cqe.Error), false
		}
		if gotPlugin != out["plugin"] || string(got.Data) != fmt.Sprint(out["data"]) {
			return "transport or address differs", fmt.Sprintf("recv=%s: impl %s %s, model %v %v", recv, gotPlugin, got.Data, out["plugin"], out["data"]), false
		}
		// body: names exactly this task (or, for notifications, the completed promise)
		if what := checkBody(got, sub); what != "" {
			return "dispatched body does not name the task / promise", what, true
		}
		// completion mirrors the transport's answer
		switch c.Plugin {
		case "success", "failure":
			if cqe.Error != nil || cqe.Completion == nil || cqe.Completion.Sender == nil || cqe.Completion.Sender.Success != (c.Plugin == "success") {
				return "sender completion does not mirror the transport's answer", fmt.Sprintf("transport said %s; completion=%v error=%v", c.Plugin, cqe.Completion, cqe.Error), true
			}
		default:
			if cqe.Error == nil {
				return "a transport error was reported as a completed hand-off", "", true
			}
		}
		// transport stage: the real http plugin with a stub RoundTripper
		if gotPlugin == "http" {
			if what := httpStage(hp, tr, got, c.Http, counts); what != "" {
				return "http transport", what, true
			}
		}
	} else {
		if got != nil && c.Plugin != "full" {
			return "a message was handed to a transport although the address does not resolve", fmt.Sprintf("recv=%s: impl handed to %s %s, model %v", recv, gotPlugin, got.Data, out), true
		}
		if cqe.Error == nil {
			return "an unresolvable / undeliverable address was reported as a completed hand-off", fmt.Sprintf("recv=%s model=%v completion=%v", recv, out, cqe.Completion), true
		}
	}
	return "", "", false
}

var pollAddr = regexp.MustCompile(`^poll://([A-Za-z0-9._:-]+)/([A-Za-z0-9._-]*)$`)

func deref(s *string) string {
	if s == nil {
		return "<absent>"
	}
	return *s
}

func targetConfigs(ts []Target) []sender.TargetConfig {
	var out []sender.TargetConfig
	for _, t := range ts {
		out = append(out, sender.TargetConfig{Name: t.Name, Type: t.Type, Data: json.RawMessage(t.Data)})
	}
	return out
}



// sameRecord: the object found in the dispatched body, decoded with exact numbers, equals the record's own
// JSON encoding decoded the same way (every field, every digit of 64-bit integers, every byte of data)
func sameRecord(got map[string]any, rec any) string {
	raw, err := json.Marshal(rec)
	if err != nil {
		return "record does not encode: " + err.Error()
	}
	var want map[string]any
	dec := json.NewDecoder(bytes.NewReader(raw))
	dec.UseNumber()
	if err := dec.Decode(&want); err != nil {
		return "record encoding does not decode: " + err.Error()
	}
	if !reflect.DeepEqual(got, want) {
		g, _ := json.Marshal(got)
		return fmt.Sprintf("body has %s, record is %s", g, raw)
	}
	return ""
}

func checkBody(m *aio.Message, sub *t_aio.SenderSubmission) string {
	var b map[string]any
	dec := json.NewDecoder(bytes.NewReader(m.Body))
	dec.UseNumber()
	if err := dec.Decode(&b); err != nil {
		return "body is not JSON: " + err.Error()
	}
	if b["type"] != string(sub.Task.Mesg.Type) || string(m.Type) != string(sub.Task.Mesg.Type) {
		return fmt.Sprintf("type %v / %v, want %s", b["type"], m.Type, sub.Task.Mesg.Type)
	}
	if sub.Task.Mesg.Type == message.Notify {
		p, _ := b["promise"].(map[string]any)
		if p == nil || p["id"] != sub.Promise.Id || p["state"] != "RESOLVED" {
			return fmt.Sprintf("notification body carries promise %v, want id %s RESOLVED", p, sub.Promise.Id)
		}
		if what := sameRecord(p, sub.Promise); what != "" {
			return "notification body does not carry the promise exactly as its record encodes it: " + what
		}
		return ""
	}
	t, _ := b["task"].(map[string]any)
	h, _ := b["href"].(map[string]any)
	if t == nil || h == nil {
		return "body lacks task or href"
	}
	if t["id"] != sub.Task.Id || fmt.Sprint(t["counter"]) != fmt.Sprint(sub.Task.Counter) {
		return fmt.Sprintf("body names task %v counter %v, want %s %d", t["id"], t["counter"], sub.Task.Id, sub.Task.Counter)
	}
	if what := sameRecord(t, sub.Task); what != "" {
		return "body does not carry the task exactly as its record encodes it: " + what
	}
	if h["claim"] != sub.ClaimHref || h["complete"] != sub.CompleteHref || h["heartbeat"] != sub.HeartbeatHref {
		return fmt.Sprintf("links %v, want %s %s %s", h, sub.ClaimHref, sub.CompleteHref, sub.HeartbeatHref)
	}
	return ""
}

// the message goes through the real http plugin (queue, worker goroutine, HttpWorker.Process)
func httpStage(hp *httpplugin.Http, tr *stubTransport, m *aio.Message, status int, counts map[string]int) string {
	tr.status, tr.reqs, tr.bodies = status, nil, nil
	type res struct {
		ok  bool
		err error
	}
	ch := make(chan res, 1)
	if !hp.Enqueue(&aio.Message{Type: m.Type, Data: m.Data, Body: m.Body, Done: func(ok bool, err error) { ch <- res{ok, err} }}) {
		return "http plugin queue full"
	}
	var r res
	select {
	case r = <-ch:
	case <-time.After(10 * time.Second):
		return "the http plugin never reported the outcome of a message (lost)"
	}
	var d *struct {
		Headers map[string]string `json:"headers"`
		Url     string            `json:"url"`
	}
	if err := json.Unmarshal(m.Data, &d); err != nil || d == nil {
		counts["http:bad-address"]++
		if r.ok || r.err == nil || len(tr.reqs) != 0 {
			return fmt.Sprintf("undecodable http address %s was not a failed hand-off (ok=%v err=%v, %d requests)", m.Data, r.ok, r.err, len(tr.reqs))
		}
		return ""
	}
	if len(tr.reqs) == 0 {
		counts["http:no-request"]++
		if r.ok || r.err == nil {
			return fmt.Sprintf("no request was made for %s but the hand-off was not reported failed", m.Data)
		}
		return ""
	}
	rq := tr.reqs[0]
	if len(tr.reqs) != 1 || rq.Method != "POST" || !bytes.Equal(tr.bodies[0], m.Body) || rq.Header.Get("Content-Type") != "application/json" {
		return fmt.Sprintf("request differs: %d requests, method %s, body equal %v, content-type %q", len(tr.reqs), rq.Method, bytes.Equal(tr.bodies[0], m.Body), rq.Header.Get("Content-Type"))
	}
	if want, err := url.Parse(d.Url); err == nil && rq.URL.String() != want.String() {
		return fmt.Sprintf("posted to %s, address says %s", rq.URL, d.Url)
	}
	for k, v := range d.Headers {
		if !strings.EqualFold(k, "Content-Type") && rq.Header.Get(k) != v {
			return fmt.Sprintf("header %s = %q, want %q", k, rq.Header.Get(k), v)
		}
	}
	if status == 0 {
		if r.ok || r.err == nil {
			return "transport error reported as delivered"
		}
	} else if r.err != nil || r.ok != (status == 200) {
		return fmt.Sprintf("endpoint answered %d, plugin reported ok=%v err=%v", status, r.ok, r.err)
	}
	counts[fmt.Sprintf("http:%d", status)]++
	return ""
}

func child(file, driver string) {
	b, err := os.ReadFile(file)
	if err != nil {
		panic(err)
	}
	var cases []Case
	if err := json.Unmarshal(b, &cases); err != nil {
		panic(err)
	}
	slog.SetDefault(slog.New(slog.NewTextHandler(io.Discard, nil)))
	drv, err := lean.Start(driver)
	if err != nil {
		panic(err)
	}
	defer drv.Close()
	reg := metrics.New(prometheus.NewRegistry())
	rt, err := router.New(nil, reg, &router.Config{Size: 10, Workers: 1})
	if err != nil {
		panic(err)
	}
	tr := &stubTransport{}
	http.DefaultTransport = tr
	hp, err := httpplugin.New(nil, reg, &httpplugin.Config{Size: 10, Workers: 1, Timeout: 5 * time.Second})
	if err != nil {
		panic(err)
	}
	_ = hp.Start(nil)
	out := bufio.NewWriter(os.Stdout)
	counts := map[string]int{}
	for _, c := range cases {
		fmt.Fprintf(out, "START %d\n", c.Idx)
		out.Flush()
		what, diff, prop := runCase(drv, reg, rt, hp, tr, c, counts)
		if what != "" {
			ob, _ := json.Marshal(M{"idx": c.Idx, "what": what, "diff": diff, "property_violation": prop})
			fmt.Fprintf(out, "FAIL %s\n", ob)
			out.Flush()
		}
	}
	ob, _ := json.Marshal(counts)
	fmt.Fprintf(out, "DONE %s\n", ob)
	out.Flush()
}

// ---------------------------------------------------------------- parent

func main() {
	seed := flag.Int64("seed", 1, "")
	ncases := flag.Int("cases", 400, "")
	driver := flag.String("driver", "", "")
	work := flag.String("work", "", "")
	out := flag.String("out", "", "")
	replay := flag.String("replay", "", "")
	corpus := flag.String("corpus", "", "")
	childFile := flag.String("child", "", "internal")
	flag.Parse()
	if *childFile != "" {
		child(*childFile, *driver)
		return
	}
	os.MkdirAll(*work, 0o755)
	self, _ := os.Executable()
	type failure struct {
		c    Case
		info M
	}
	runBatch := func(cases []Case) ([]failure, map[string]int) {
		var fails []failure
		totals := map[string]int{}
		rest := cases
		for len(rest) > 0 {
			f := filepath.Join(*work, "routesend-cases.json")
			b, _ := json.Marshal(rest)
			os.WriteFile(f, b, 0o644)
			cmd := exec.Command(self, "-child", f, "-driver", *driver)
			outb, err := cmd.CombinedOutput()
			last, done := -1, false
			byIdx := map[int]Case{}
			for _, c := range rest {
				byIdx[c.Idx] = c
			}
			for _, line := range strings.Split(string(outb), "\n") {
				switch {
				case strings.HasPrefix(line, "START "):
					fmt.Sscanf(line, "START %d", &last)
				case strings.HasPrefix(line, "FAIL "):
					var info M
					if json.Unmarshal([]byte(line[5:]), &info) == nil {
						idx := int(info["idx"].(float64))
						fails = append(fails, failure{byIdx[idx], info})
					}
				case strings.HasPrefix(line, "DONE "):
					done = true
					var cs map[string]int
					if json.Unmarshal([]byte(line[5:]), &cs) == nil {
						for k, v := range cs {
							totals[k] += v
						}
					}
				}
			}
			if done {
				break
			}
			// the child died inside case `last`
			tail := string(outb)
			if i := strings.Index(tail, "panic:"); i >= 0 {
				tail = tail[i:]
			}
			if len(tail) > 1200 {
				tail = tail[:1200]
			}
			fails = append(fails, failure{byIdx[last], M{"idx": last, "what": "a worker goroutine crashed the process", "diff": fmt.Sprintf("%v: %s", err, tail), "property_violation": true, "crashed": true}})
			var next []Case
			seen := false
			for _, c := range rest {
				if seen {
					next = append(next, c)
				}
				if c.Idx == last {
					seen = true
				}
			}
			if !seen {
				break
			}
			rest = next
		}
		return fails, totals
	}
	summary := M{"seed": *seed, "disagreements": 0}
	var cases []Case
	origin := fmt.Sprintf("seed=%d", *seed)
	files := []string{}
	if *replay != "" {
		files = append(files, *replay)
	}
	if *corpus != "" {
		fs, _ := filepath.Glob(filepath.Join(*corpus, "*.json"))
		sort.Strings(fs)
		files = append(files, fs...)
	}
	for _, f := range files {
		b, err := os.ReadFile(f)
		if err != nil {
			panic(err)
		}
		var rec struct {
			Case Case `json:"case"`
		}
		if err := json.Unmarshal(b, &rec); err != nil {
			panic(err)
		}
		rec.Case.Idx = len(cases)
		cases = append(cases, rec.Case)
	}
	summary["corpus_scripts"] = len(cases)
	if *replay == "" {
		r := rand.New(rand.NewSource(*seed))
		for _, c := range genCases(r, *ncases) {
			c.Idx = len(cases)
			cases = append(cases, c)
		}
	}
	fails, totals := runBatch(cases)
	totals["nontrivial"] = totals["dispatch:handed"] + totals["routed:logical"] + totals["routed:physical"]
	if len(fails) > 0 {
		// a property violation first, otherwise the first divergence
		pick := fails[0]
		for _, f := range fails {
			if f.info["property_violation"] == true {
				pick = f
				break
			}
		}
		rep := M{"harness": "routesend", "origin": origin, "case": pick.c, "divergence": pick.info, "failing_cases": len(fails)}
		b, _ := json.MarshalIndent(rep, "", " ")
		path := filepath.Join(*work, "routesend-divergence.json")
		os.WriteFile(path, b, 0o644)
		summary["disagreements"] = len(fails)
		summary["divergence_file"] = path
		summary["divergence"] = pick.info["what"]
		summary["diff"] = fmt.Sprint(pick.info["diff"])
		summary["property_violation"] = pick.info["property_violation"] == true
	}
	summary["scripts"] = len(cases)
	summary["cases"] = len(cases)
	summary["counts"] = totals
	if len(cases) > 0 {
		summary["samples"] = []any{cases[:min(3, len(cases))]}
	}
	_ = reflect.DeepEqual
	b, _ := json.MarshalIndent(summary, "", " ")
	if *out != "" {
		os.WriteFile(*out, b, 0o644)
	} else {
		fmt.Println(string(b))
	}
	if summary["disagreements"] != 0 {
		os.Exit(3)
	}
}
