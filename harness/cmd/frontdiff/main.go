// frontdiff — exhaustive check of the two API front ends (real gin engine, real grpc server on
// loopback) over a stub kernel that answers every request with a scripted (status, shape):
//
//	endpoint × every StatusCode of t_api/status.go × {response, error} × resource shapes × {http, grpc}
//
// plus, per endpoint, the same well-formed request sent through both protocols, whose translated
// kernel requests must be equal.  Every case runs in a child process so that a panic of a handler
// (grpc-go does not recover) is an observation ("crash"), not the end of the run.
package main

import (
	"bufio"
	"bytes"
	"context"
	"encoding/json"
	"flag"
	"fmt"
	"io"
	"log/slog"
	"net/http"
	"os"
	"os/exec"
	"reflect"
	"sort"
	"strings"
	"time"

	i_api "github.com/resonatehq/resonate/internal/api"
	grpcApi "github.com/resonatehq/resonate/internal/app/subsystems/api/grpc"
	"github.com/resonatehq/resonate/internal/app/subsystems/api/grpc/pb"
	httpApi "github.com/resonatehq/resonate/internal/app/subsystems/api/http"
	"github.com/resonatehq/resonate/internal/kernel/bus"
	"github.com/resonatehq/resonate/internal/kernel/t_api"
	"github.com/resonatehq/resonate/pkg/callback"
	"github.com/resonatehq/resonate/pkg/lock"
	"github.com/resonatehq/resonate/pkg/message"
	"github.com/resonatehq/resonate/pkg/promise"
	"github.com/resonatehq/resonate/pkg/schedule"
	"github.com/resonatehq/resonate/pkg/task"
	"github.com/resonatehq/resonate/verifharness/internal/canon"
	"github.com/resonatehq/resonate/verifharness/internal/lean"
	"google.golang.org/grpc"
	"google.golang.org/grpc/codes"
	"google.golang.org/grpc/credentials/insecure"
	"google.golang.org/grpc/status"
)

type M = map[string]any

// ---------------------------------------------------------------- stub kernel

type stubAPI struct {
	next     func(*t_api.Request) (*t_api.Response, error)
	captured *t_api.Request
}

func (s *stubAPI) String() string                                  { return "stub" }
func (s *stubAPI) Start() error                                    { return nil }
func (s *stubAPI) Stop() error                                     { return nil }
func (s *stubAPI) Shutdown()                                       {}
func (s *stubAPI) Done() bool                                      { return false }
func (s *stubAPI) Errors() <-chan error                            { return nil }
func (s *stubAPI) Signal(<-chan interface{}) <-chan interface{}    { return nil }
func (s *stubAPI) DequeueSQE(int) []*bus.SQE[t_api.Request, t_api.Response] { return nil }
func (s *stubAPI) EnqueueCQE(*bus.CQE[t_api.Request, t_api.Response])       {}
func (s *stubAPI) DequeueCQE(cq <-chan *bus.CQE[t_api.Request, t_api.Response]) *bus.CQE[t_api.Request, t_api.Response] {
	return <-cq
}
func (s *stubAPI) EnqueueSQE(sqe *bus.SQE[t_api.Request, t_api.Response]) {
	s.captured = sqe.Submission
	res, err := s.next(sqe.Submission)
	sqe.Callback(res, err)
}

var _ i_api.API = (*stubAPI)(nil)

// ---------------------------------------------------------------- scripted responses

func i64(v int64) *int64 { return &v }

func mkPromise(full bool) *promise.Promise {
	p := &promise.Promise{Id: "p/1", State: promise.Pending, Timeout: 5, Tags: map[string]string{}}
	if full {
		k := "ik"
		_ = k
		p.State = promise.Resolved
		p.Param = promise.Value{Headers: map[string]string{"a": "b"}, Data: []byte("x")}
		p.Value = promise.Value{Headers: map[string]string{"c": "d"}, Data: []byte("y")}
		p.CreatedOn, p.CompletedOn = i64(1), i64(2)
		p.Tags = map[string]string{"t": "u"}
	}
	return p
}

func mkTask(full bool) *task.Task {
	t := &task.Task{Id: "__invoke:p/1", Counter: 1, Timeout: 5, State: task.Claimed, RootPromiseId: "p/1",
		Mesg: &message.Mesg{Type: message.Invoke, Root: "p/1", Leaf: "p/1"}}
	if full {
		pid := "w"
		t.ProcessId = &pid
		t.Mesg = &message.Mesg{Type: message.Resume, Root: "p/1", Leaf: "q"}
		t.CreatedOn = i64(1)
	}
	return t
}

func mkSchedule(full bool) *schedule.Schedule {
	s := &schedule.Schedule{Id: "s", Cron: "* * * * *", PromiseId: "x.{{.timestamp}}", Tags: map[string]string{}}
	if full {
		s.Description, s.LastRunTime = "d", i64(3)
		s.PromiseParam = promise.Value{Headers: map[string]string{"a": "b"}, Data: []byte("x")}
		s.PromiseTags = map[string]string{"t": "u"}
	}
	return s
}

// response of kind k with status s; shape 0 = minimal (optional resources nil), 1 = full
func mkResponse(k t_api.Kind, s t_api.StatusCode, shape int) *t_api.Response {
	full := shape == 1
	ok := s.IsSuccessful()
	r := &t_api.Response{Kind: k, Tags: map[string]string{}}
	var p *promise.Promise
	if ok || full {
		p = mkPromise(full)
	}
	switch k {
	case t_api.ReadPromise:
		r.ReadPromise = &t_api.ReadPromiseResponse{Status: s, Promise: p}
	case t_api.SearchPromises:
		x := &t_api.SearchPromisesResponse{Status: s}
		if full {
			x.Promises = []*promise.Promise{mkPromise(true), mkPromise(false)}
			x.Cursor = &t_api.Cursor[t_api.SearchPromisesRequest]{Next: &t_api.SearchPromisesRequest{Id: "*", States: []promise.State{promise.Pending}, Tags: map[string]string{}, Limit: 1, SortId: i64(3)}}
		}
		r.SearchPromises = x
	case t_api.CreatePromise:
		r.CreatePromise = &t_api.CreatePromiseResponse{Status: s, Promise: p}
	case t_api.CreatePromiseAndTask:
		x := &t_api.CreatePromiseAndTaskResponse{Status: s, Promise: p}
		if full {
			x.Task = mkTask(true)
		}
		r.CreatePromiseAndTask = x
	case t_api.CompletePromise:
		r.CompletePromise = &t_api.CompletePromiseResponse{Status: s, Promise: p}
	case t_api.CreateCallback:
		x := &t_api.CreateCallbackResponse{Status: s, Promise: p}
		if full {
			x.Callback = &callback.Callback{Id: "cb", PromiseId: "p/1", Timeout: 5, CreatedOn: 1}
		}
		r.CreateCallback = x
	case t_api.CreateSubscription:
		x := &t_api.CreateSubscriptionResponse{Status: s, Promise: p}
		if full {
			x.Callback = &callback.Callback{Id: "cb", PromiseId: "p/1", Timeout: 5, CreatedOn: 1}
		}
		r.CreateSubscription = x
	case t_api.ReadSchedule:
		x := &t_api.ReadScheduleResponse{Status: s}
		if ok || full {
			x.Schedule = mkSchedule(full)
		}
		r.ReadSchedule = x
	case t_api.SearchSchedules:
		x := &t_api.SearchSchedulesResponse{Status: s}
		if full {
			x.Schedules = []*schedule.Schedule{mkSchedule(true), mkSchedule(false)}
			x.Cursor = &t_api.Cursor[t_api.SearchSchedulesRequest]{Next: &t_api.SearchSchedulesRequest{Id: "*", Tags: map[string]string{}, Limit: 1, SortId: i64(3)}}
		}
		r.SearchSchedules = x
	case t_api.CreateSchedule:
		x := &t_api.CreateScheduleResponse{Status: s}
		if ok || full {
			x.Schedule = mkSchedule(full)
		}
		r.CreateSchedule = x
	case t_api.DeleteSchedule:
		r.DeleteSchedule = &t_api.DeleteScheduleResponse{Status: s}
	case t_api.AcquireLock:
		x := &t_api.AcquireLockResponse{Status: s}
		if ok || full {
			x.Lock = &lock.Lock{ResourceId: "r", ExecutionId: "e", ProcessId: "w", Ttl: 1, ExpiresAt: 2}
		}
		r.AcquireLock = x
	case t_api.ReleaseLock:
		r.ReleaseLock = &t_api.ReleaseLockResponse{Status: s}
	case t_api.HeartbeatLocks:
		r.HeartbeatLocks = &t_api.HeartbeatLocksResponse{Status: s, LocksAffected: int64(shape)}
	case t_api.ClaimTask:
		x := &t_api.ClaimTaskResponse{Status: s}
		if s == t_api.StatusCreated || full {
			x.Task = mkTask(full)
			x.RootPromiseHref = "http://r/promises/p/1"
		}
		if full {
			x.RootPromise, x.LeafPromise, x.LeafPromiseHref = mkPromise(true), mkPromise(false), "http://r/promises/q"
		}
		if shape >= 2 {
			x.Task, x.RootPromiseHref, x.LeafPromiseHref = mkTask(true), "http://r/promises/p/1", "http://r/promises/q"
			if shape == 2 {
				x.LeafPromise = mkPromise(false)
			} else {
				x.RootPromise = mkPromise(true)
			}
		}
		r.ClaimTask = x
	case t_api.CompleteTask:
		x := &t_api.CompleteTaskResponse{Status: s}
		if full {
			x.Task = mkTask(true)
		}
		r.CompleteTask = x
	case t_api.HeartbeatTasks:
		r.HeartbeatTasks = &t_api.HeartbeatTasksResponse{Status: s, TasksAffected: int64(shape)}
	}
	return r
}

// ---------------------------------------------------------------- endpoints

type endpoint struct {
	name     string
	kind     t_api.Kind
	method   string
	path     string
	headers  map[string]string
	body     string
	grpc     func(c *clients) (any, error)
	flagName string          // gRPC outcome flag
	flagTrue t_api.StatusCode // the success status for which the flag must be true
}

type clients struct {
	p  pb.PromisesClient
	cb pb.CallbacksClient
	su pb.SubscriptionsClient
	sc pb.SchedulesClient
	l  pb.LocksClient
	t  pb.TasksClient
}

var ctx = context.Background()

func endpoints() []endpoint {
	val := &pb.Value{Headers: map[string]string{"h": "1"}, Data: []byte("data")}
	recvL := &pb.Recv{Recv: &pb.Recv_Logical{Logical: "default"}}
	ik := map[string]string{"request-id": "rid", "idempotency-key": "ik", "strict": "true"}
	rid := map[string]string{"request-id": "rid"}
	return []endpoint{
		{"ReadPromise", t_api.ReadPromise, "GET", "/promises/p/1", rid, "",
			func(c *clients) (any, error) { return c.p.ReadPromise(ctx, &pb.ReadPromiseRequest{Id: "p/1", RequestId: "rid"}) }, "", 0},
		{"SearchPromises", t_api.SearchPromises, "GET", "/promises?id=p*&state=pending&limit=7&tags[a]=b", rid, "",
			func(c *clients) (any, error) {
				return c.p.SearchPromises(ctx, &pb.SearchPromisesRequest{Id: "p*", State: pb.SearchState_SEARCH_PENDING, Limit: 7, Tags: map[string]string{"a": "b"}, RequestId: "rid"})
			}, "", 0},
		{"CreatePromise", t_api.CreatePromise, "POST", "/promises", ik, `{"id":"p/1","param":{"headers":{"h":"1"},"data":"ZGF0YQ=="},"timeout":9,"tags":{"a":"b"}}`,
			func(c *clients) (any, error) {
				return c.p.CreatePromise(ctx, &pb.CreatePromiseRequest{Id: "p/1", IdempotencyKey: "ik", Strict: true, Param: val, Timeout: 9, Tags: map[string]string{"a": "b"}, RequestId: "rid"})
			}, "Noop", t_api.StatusOK},
		{"CreatePromiseAndTask", t_api.CreatePromiseAndTask, "POST", "/promises/task", ik, `{"promise":{"id":"p/1","param":{"headers":{"h":"1"},"data":"ZGF0YQ=="},"timeout":9,"tags":{"a":"b"}},"task":{"processId":"w","ttl":3}}`,
			func(c *clients) (any, error) {
				return c.p.CreatePromiseAndTask(ctx, &pb.CreatePromiseAndTaskRequest{Promise: &pb.CreatePromiseRequest{Id: "p/1", IdempotencyKey: "ik", Strict: true, Param: val, Timeout: 9, Tags: map[string]string{"a": "b"}, RequestId: "rid"}, Task: &pb.CreatePromiseTaskRequest{ProcessId: "w", Ttl: 3}})
			}, "Noop", t_api.StatusOK},
		{"ResolvePromise", t_api.CompletePromise, "PATCH", "/promises/p/1", ik, `{"state":"RESOLVED","value":{"headers":{"h":"1"},"data":"ZGF0YQ=="}}`,
			func(c *clients) (any, error) {
				return c.p.ResolvePromise(ctx, &pb.ResolvePromiseRequest{Id: "p/1", IdempotencyKey: "ik", Strict: true, Value: val, RequestId: "rid"})
			}, "Noop", t_api.StatusOK},
		{"RejectPromise", t_api.CompletePromise, "PATCH", "/promises/p/1", ik, `{"state":"REJECTED","value":{"headers":{"h":"1"},"data":"ZGF0YQ=="}}`,
			func(c *clients) (any, error) {
				return c.p.RejectPromise(ctx, &pb.RejectPromiseRequest{Id: "p/1", IdempotencyKey: "ik", Strict: true, Value: val, RequestId: "rid"})
			}, "Noop", t_api.StatusOK},
		{"CancelPromise", t_api.CompletePromise, "PATCH", "/promises/p/1", ik, `{"state":"REJECTED_CANCELED","value":{"headers":{"h":"1"},"data":"ZGF0YQ=="}}`,
			func(c *clients) (any, error) {
				return c.p.CancelPromise(ctx, &pb.CancelPromiseRequest{Id: "p/1", IdempotencyKey: "ik", Strict: true, Value: val, RequestId: "rid"})
			}, "Noop", t_api.StatusOK},
		{"CreateCallback", t_api.CreateCallback, "POST", "/callbacks", rid, `{"Id":"cb","promiseId":"p/1","rootPromiseId":"root","timeout":9,"recv":"default"}`,
			func(c *clients) (any, error) {
				return c.cb.CreateCallback(ctx, &pb.CreateCallbackRequest{Id: "cb", PromiseId: "p/1", RootPromiseId: "root", Timeout: 9, Recv: recvL, RequestId: "rid"})
			}, "Noop", t_api.StatusOK},
		{"CreateSubscription", t_api.CreateSubscription, "POST", "/subscriptions", rid, `{"Id":"sub","promiseId":"p/1","timeout":9,"recv":"default"}`,
			func(c *clients) (any, error) {
				return c.su.CreateSubscription(ctx, &pb.CreateSubscriptionRequest{Id: "sub", PromiseId: "p/1", Timeout: 9, Recv: recvL, RequestId: "rid"})
			}, "Noop", t_api.StatusOK},
		{"ReadSchedule", t_api.ReadSchedule, "GET", "/schedules/s", rid, "",
			func(c *clients) (any, error) { return c.sc.ReadSchedule(ctx, &pb.ReadScheduleRequest{Id: "s", RequestId: "rid"}) }, "", 0},
		{"SearchSchedules", t_api.SearchSchedules, "GET", "/schedules?id=s*&limit=7&tags[a]=b", rid, "",
			func(c *clients) (any, error) {
				return c.sc.SearchSchedules(ctx, &pb.SearchSchedulesRequest{Id: "s*", Limit: 7, Tags: map[string]string{"a": "b"}, RequestId: "rid"})
			}, "", 0},
		{"CreateSchedule", t_api.CreateSchedule, "POST", "/schedules", map[string]string{"request-id": "rid", "idempotency-key": "ik"},
			`{"id":"s","desc":"d","cron":"* * * * *","tags":{"a":"b"},"promiseId":"x.{{.timestamp}}","promiseTimeout":9,"promiseParam":{"headers":{"h":"1"},"data":"ZGF0YQ=="},"promiseTags":{"c":"d"}}`,
			func(c *clients) (any, error) {
				return c.sc.CreateSchedule(ctx, &pb.CreateScheduleRequest{Id: "s", Description: "d", Cron: "* * * * *", Tags: map[string]string{"a": "b"}, PromiseId: "x.{{.timestamp}}", PromiseTimeout: 9, PromiseParam: val, PromiseTags: map[string]string{"c": "d"}, IdempotencyKey: "ik", RequestId: "rid"})
			}, "", 0},
		{"DeleteSchedule", t_api.DeleteSchedule, "DELETE", "/schedules/s", rid, "",
			func(c *clients) (any, error) { return c.sc.DeleteSchedule(ctx, &pb.DeleteScheduleRequest{Id: "s", RequestId: "rid"}) }, "", 0},
		{"AcquireLock", t_api.AcquireLock, "POST", "/locks/acquire", rid, `{"resourceId":"r","executionId":"e","processId":"w","ttl":4}`,
			func(c *clients) (any, error) {
				return c.l.AcquireLock(ctx, &pb.AcquireLockRequest{ResourceId: "r", ExecutionId: "e", ProcessId: "w", Ttl: 4, RequestId: "rid"})
			}, "Acquired", t_api.StatusCreated},
		{"ReleaseLock", t_api.ReleaseLock, "POST", "/locks/release", rid, `{"resourceId":"r","executionId":"e"}`,
			func(c *clients) (any, error) {
				return c.l.ReleaseLock(ctx, &pb.ReleaseLockRequest{ResourceId: "r", ExecutionId: "e", RequestId: "rid"})
			}, "Released", t_api.StatusNoContent},
		{"HeartbeatLocks", t_api.HeartbeatLocks, "POST", "/locks/heartbeat", rid, `{"processId":"w"}`,
			func(c *clients) (any, error) { return c.l.HeartbeatLocks(ctx, &pb.HeartbeatLocksRequest{ProcessId: "w", RequestId: "rid"}) }, "", 0},
		{"ClaimTask", t_api.ClaimTask, "POST", "/tasks/claim", rid, `{"id":"t","counter":2,"processId":"w","ttl":4}`,
			func(c *clients) (any, error) {
				return c.t.ClaimTask(ctx, &pb.ClaimTaskRequest{Id: "t", Counter: 2, ProcessId: "w", Ttl: 4, RequestId: "rid"})
			}, "Claimed", t_api.StatusCreated},
		{"CompleteTask", t_api.CompleteTask, "POST", "/tasks/complete", rid, `{"id":"t","counter":2}`,
			func(c *clients) (any, error) { return c.t.CompleteTask(ctx, &pb.CompleteTaskRequest{Id: "t", Counter: 2, RequestId: "rid"}) }, "Completed", t_api.StatusCreated},
		{"HeartbeatTasks", t_api.HeartbeatTasks, "POST", "/tasks/heartbeat", rid, `{"processId":"w"}`,
			func(c *clients) (any, error) { return c.t.HeartbeatTasks(ctx, &pb.HeartbeatTasksRequest{ProcessId: "w", RequestId: "rid"}) }, "", 0},
	}
}

// equivalent HTTP / gRPC requests at the boundary values of every validated numeric field: either both front ends refuse
// the request, or both hand the kernel the same request
func boundaries() []endpoint {
	rid := map[string]string{"request-id": "rid"}
	recvL := &pb.Recv{Recv: &pb.Recv_Logical{Logical: "default"}}
	var out []endpoint
	for _, ttl := range []int{0, 1, 2147483647} {
		ttl := ttl
		out = append(out, endpoint{fmt.Sprintf("ClaimTask:ttl=%d", ttl), t_api.ClaimTask, "POST", "/tasks/claim", rid, fmt.Sprintf(`{"id":"t","counter":2,"processId":"w","ttl":%d}`, ttl),
			func(c *clients) (any, error) {
				return c.t.ClaimTask(ctx, &pb.ClaimTaskRequest{Id: "t", Counter: 2, ProcessId: "w", Ttl: int32(ttl), RequestId: "rid"})
			}, "", 0})
		out = append(out, endpoint{fmt.Sprintf("AcquireLock:ttl=%d", ttl), t_api.AcquireLock, "POST", "/locks/acquire", rid, fmt.Sprintf(`{"resourceId":"r","executionId":"e","processId":"w","ttl":%d}`, ttl),
			func(c *clients) (any, error) {
				return c.l.AcquireLock(ctx, &pb.AcquireLockRequest{ResourceId: "r", ExecutionId: "e", ProcessId: "w", Ttl: int64(ttl), RequestId: "rid"})
			}, "", 0})
		out = append(out, endpoint{fmt.Sprintf("CreatePromiseAndTask:ttl=%d", ttl), t_api.CreatePromiseAndTask, "POST", "/promises/task", rid, fmt.Sprintf(`{"promise":{"id":"p","timeout":9},"task":{"processId":"w","ttl":%d}}`, ttl),
			func(c *clients) (any, error) {
				return c.p.CreatePromiseAndTask(ctx, &pb.CreatePromiseAndTaskRequest{Promise: &pb.CreatePromiseRequest{Id: "p", Timeout: 9, RequestId: "rid"}, Task: &pb.CreatePromiseTaskRequest{ProcessId: "w", Ttl: int32(ttl)}})
			}, "", 0})
	}
	// counters: 1 and the largest value; 0 is not a well-formed HTTP request (gin's `required` on an int treats 0 as
	// absent and answers 400, while gRPC cannot tell 0 from absent and passes it on - observation O4 in DESIGN.md)
	for _, n := range []int{1, 2147483647} {
		n := n
		out = append(out, endpoint{fmt.Sprintf("ClaimTask:counter=%d", n), t_api.ClaimTask, "POST", "/tasks/claim", rid, fmt.Sprintf(`{"id":"t","counter":%d,"processId":"w","ttl":1}`, n),
			func(c *clients) (any, error) {
				return c.t.ClaimTask(ctx, &pb.ClaimTaskRequest{Id: "t", Counter: int32(n), ProcessId: "w", Ttl: 1, RequestId: "rid"})
			}, "", 0})
		out = append(out, endpoint{fmt.Sprintf("CompleteTask:counter=%d", n), t_api.CompleteTask, "POST", "/tasks/complete", rid, fmt.Sprintf(`{"id":"t","counter":%d}`, n),
			func(c *clients) (any, error) {
				return c.t.CompleteTask(ctx, &pb.CompleteTaskRequest{Id: "t", Counter: int32(n), RequestId: "rid"})
			}, "", 0})
	}
	for _, n := range []int{0, 1} {
		n := n
		out = append(out, endpoint{fmt.Sprintf("CreatePromise:timeout=%d", n), t_api.CreatePromise, "POST", "/promises", rid, fmt.Sprintf(`{"id":"p","timeout":%d}`, n),
			func(c *clients) (any, error) {
				return c.p.CreatePromise(ctx, &pb.CreatePromiseRequest{Id: "p", Timeout: int64(n), RequestId: "rid"})
			}, "", 0})
		out = append(out, endpoint{fmt.Sprintf("CreateCallback:timeout=%d", n), t_api.CreateCallback, "POST", "/callbacks", rid, fmt.Sprintf(`{"Id":"cb","promiseId":"p","rootPromiseId":"root","timeout":%d,"recv":"default"}`, n),
			func(c *clients) (any, error) {
				return c.cb.CreateCallback(ctx, &pb.CreateCallbackRequest{Id: "cb", PromiseId: "p", RootPromiseId: "root", Timeout: int64(n), Recv: recvL, RequestId: "rid"})
			}, "", 0})
		out = append(out, endpoint{fmt.Sprintf("CreateSubscription:timeout=%d", n), t_api.CreateSubscription, "POST", "/subscriptions", rid, fmt.Sprintf(`{"Id":"sub","promiseId":"p","timeout":%d,"recv":"default"}`, n),
			func(c *clients) (any, error) {
				return c.su.CreateSubscription(ctx, &pb.CreateSubscriptionRequest{Id: "sub", PromiseId: "p", Timeout: int64(n), Recv: recvL, RequestId: "rid"})
			}, "", 0})
	}
	// no idempotency key, not strict: the kernel request carries no key (nil), in both protocols
	val := &pb.Value{Headers: map[string]string{"h": "1"}, Data: []byte("data")}
	out = append(out, endpoint{"CreatePromise:no-key", t_api.CreatePromise, "POST", "/promises", rid, `{"id":"p","timeout":9}`,
		func(c *clients) (any, error) {
			return c.p.CreatePromise(ctx, &pb.CreatePromiseRequest{Id: "p", Timeout: 9, RequestId: "rid"})
		}, "", 0})
	out = append(out, endpoint{"ResolvePromise:no-key", t_api.CompletePromise, "PATCH", "/promises/p", rid, `{"state":"RESOLVED","value":{"headers":{"h":"1"},"data":"ZGF0YQ=="}}`,
		func(c *clients) (any, error) {
			return c.p.ResolvePromise(ctx, &pb.ResolvePromiseRequest{Id: "p", Value: val, RequestId: "rid"})
		}, "", 0})
	out = append(out, endpoint{"CreateSchedule:no-key", t_api.CreateSchedule, "POST", "/schedules", rid,
		`{"id":"s","cron":"* * * * *","promiseId":"x.{{.timestamp}}","promiseTimeout":9}`,
		func(c *clients) (any, error) {
			return c.sc.CreateSchedule(ctx, &pb.CreateScheduleRequest{Id: "s", Cron: "* * * * *", PromiseId: "x.{{.timestamp}}", PromiseTimeout: 9, RequestId: "rid"})
		}, "", 0})
	out = append(out, endpoint{"CreatePromiseAndTask:no-key", t_api.CreatePromiseAndTask, "POST", "/promises/task", rid, `{"promise":{"id":"p","timeout":9},"task":{"processId":"w","ttl":3}}`,
		func(c *clients) (any, error) {
			return c.p.CreatePromiseAndTask(ctx, &pb.CreatePromiseAndTaskRequest{Promise: &pb.CreatePromiseRequest{Id: "p", Timeout: 9, RequestId: "rid"}, Task: &pb.CreatePromiseTaskRequest{ProcessId: "w", Ttl: 3}})
		}, "", 0})
	// completion values of every shape: headers only, data only, neither, both - for resolve, reject and cancel
	type vshape struct {
		name, json string
		pb         *pb.Value
	}
	for _, vs := range []vshape{
		{"headers-only", `,"value":{"headers":{"h":"1"}}`, &pb.Value{Headers: map[string]string{"h": "1"}}},
		{"data-only", `,"value":{"data":"ZGF0YQ=="}`, &pb.Value{Data: []byte("data")}},
		{"no-value", ``, nil},
		{"empty-value", `,"value":{}`, &pb.Value{}},
	} {
		vs := vs
		out = append(out, endpoint{"ResolvePromise:" + vs.name, t_api.CompletePromise, "PATCH", "/promises/p", rid, `{"state":"RESOLVED"` + vs.json + `}`,
			func(c *clients) (any, error) {
				return c.p.ResolvePromise(ctx, &pb.ResolvePromiseRequest{Id: "p", Value: vs.pb, RequestId: "rid"})
			}, "", 0})
		out = append(out, endpoint{"RejectPromise:" + vs.name, t_api.CompletePromise, "PATCH", "/promises/p", rid, `{"state":"REJECTED"` + vs.json + `}`,
			func(c *clients) (any, error) {
				return c.p.RejectPromise(ctx, &pb.RejectPromiseRequest{Id: "p", Value: vs.pb, RequestId: "rid"})
			}, "", 0})
		out = append(out, endpoint{"CancelPromise:" + vs.name, t_api.CompletePromise, "PATCH", "/promises/p", rid, `{"state":"REJECTED_CANCELED"` + vs.json + `}`,
			func(c *clients) (any, error) {
				return c.p.CancelPromise(ctx, &pb.CancelPromiseRequest{Id: "p", Value: vs.pb, RequestId: "rid"})
			}, "", 0})
		out = append(out, endpoint{"CreatePromise:param-" + vs.name, t_api.CreatePromise, "POST", "/promises", rid, `{"id":"p","timeout":9` + strings.Replace(vs.json, `"value"`, `"param"`, 1) + `}`,
			func(c *clients) (any, error) {
				return c.p.CreatePromise(ctx, &pb.CreatePromiseRequest{Id: "p", Timeout: 9, Param: vs.pb, RequestId: "rid"})
			}, "", 0})
	}
	// physical receivers: the JSON object in HTTP, the oneof in gRPC
	recvP := &pb.Recv{Recv: &pb.Recv_Physical{Physical: &pb.PhysicalRecv{Type: "poll", Data: []byte(`{"group":"g","id":"i"}`)}}}
	out = append(out, endpoint{"CreateCallback:physical-recv", t_api.CreateCallback, "POST", "/callbacks", rid, `{"Id":"cb","promiseId":"p","rootPromiseId":"root","timeout":9,"recv":{"type":"poll","data":{"group":"g","id":"i"}}}`,
		func(c *clients) (any, error) {
			return c.cb.CreateCallback(ctx, &pb.CreateCallbackRequest{Id: "cb", PromiseId: "p", RootPromiseId: "root", Timeout: 9, Recv: recvP, RequestId: "rid"})
		}, "", 0})
	out = append(out, endpoint{"CreateSubscription:physical-recv", t_api.CreateSubscription, "POST", "/subscriptions", rid, `{"Id":"sub","promiseId":"p","timeout":9,"recv":{"type":"poll","data":{"group":"g","id":"i"}}}`,
		func(c *clients) (any, error) {
			return c.su.CreateSubscription(ctx, &pb.CreateSubscriptionRequest{Id: "sub", PromiseId: "p", Timeout: 9, Recv: recvP, RequestId: "rid"})
		}, "", 0})
	// searches: every state filter, no tags / tags, sort order defaults
	for _, stf := range []struct {
		q string
		s pb.SearchState
	}{{"pending", pb.SearchState_SEARCH_PENDING}, {"resolved", pb.SearchState_SEARCH_RESOLVED}, {"rejected", pb.SearchState_SEARCH_REJECTED}, {"", pb.SearchState_SEARCH_ALL}} {
		stf := stf
		path := "/promises?id=p*&limit=3"
		if stf.q != "" {
			path += "&state=" + stf.q
		}
		out = append(out, endpoint{"SearchPromises:state=" + stf.q, t_api.SearchPromises, "GET", path, rid, "",
			func(c *clients) (any, error) {
				return c.p.SearchPromises(ctx, &pb.SearchPromisesRequest{Id: "p*", State: stf.s, Limit: 3, RequestId: "rid"})
			}, "", 0})
	}
	for _, lim := range []int{1, 100} {
		lim := lim
		out = append(out, endpoint{fmt.Sprintf("SearchPromises:limit=%d", lim), t_api.SearchPromises, "GET", fmt.Sprintf("/promises?id=p*&limit=%d", lim), rid, "",
			func(c *clients) (any, error) {
				return c.p.SearchPromises(ctx, &pb.SearchPromisesRequest{Id: "p*", Limit: int32(lim), RequestId: "rid"})
			}, "", 0})
		out = append(out, endpoint{fmt.Sprintf("SearchSchedules:limit=%d", lim), t_api.SearchSchedules, "GET", fmt.Sprintf("/schedules?id=s*&limit=%d", lim), rid, "",
			func(c *clients) (any, error) {
				return c.sc.SearchSchedules(ctx, &pb.SearchSchedulesRequest{Id: "s*", Limit: int32(lim), RequestId: "rid"})
			}, "", 0})
	}
	return out
}

// ---------------------------------------------------------------- cases

// malformed requests: every field absent / empty / null / negative / huge / wrongly typed / hostile, in both protocols.
// Expected: refused with a client error without reaching the kernel, OR the kernel receives a request that satisfies the
// model's `ValidReq` (the hypothesis of the no-assertion theorem C13.request_never_panics) — never a 5xx, never a crash.
type badReq struct {
	name   string
	method string
	path   string
	body   string
	grpc   func(c *clients) (any, error)
}

func forged[T any](next *T) string {
	s, _ := (&t_api.Cursor[T]{Next: next}).Encode()
	return s
}

func malformed() []badReq {
	h := func(name, method, path, body string) badReq { return badReq{name: name, method: method, path: path, body: body} }
	g := func(name string, f func(c *clients) (any, error)) badReq { return badReq{name: name, grpc: f} }
	neg := int64(-1)
	_ = neg
	return []badReq{
		h("search-promises:empty-id", "GET", "/promises?id=&limit=5", ""),
		h("search-promises:no-id", "GET", "/promises?limit=5", ""),
		h("search-promises:limit-0", "GET", "/promises?id=p*&limit=0", ""),
		h("search-promises:limit-neg", "GET", "/promises?id=p*&limit=-1", ""),
		h("search-promises:limit-huge", "GET", "/promises?id=p*&limit=100000", ""),
		h("search-promises:limit-text", "GET", "/promises?id=p*&limit=abc", ""),
		h("search-promises:state-bogus", "GET", "/promises?id=p*&state=bogus", ""),
		h("search-promises:cursor-garbage", "GET", "/promises?cursor=garbage", ""),
		h("search-promises:cursor-forged-null", "GET", "/promises?cursor="+forged[t_api.SearchPromisesRequest](nil), ""),
		h("search-promises:cursor-forged-empty", "GET", "/promises?cursor="+forged(&t_api.SearchPromisesRequest{Id: "", Limit: 0}), ""),
		h("search-promises:cursor-forged-neg-limit", "GET", "/promises?cursor="+forged(&t_api.SearchPromisesRequest{Id: "p*", Limit: -3, States: []promise.State{promise.Pending}}), ""),
		h("search-promises:cursor-forged-no-states", "GET", "/promises?cursor="+forged(&t_api.SearchPromisesRequest{Id: "p*", Limit: 5, Tags: map[string]string{}}), ""),
		h("search-promises:cursor-forged-nil-tags", "GET", "/promises?cursor="+forged(&t_api.SearchPromisesRequest{Id: "p*", Limit: 5, States: []promise.State{promise.Pending}}), ""),
		h("search-schedules:cursor-forged-nil-tags", "GET", "/schedules?cursor="+forged(&t_api.SearchSchedulesRequest{Id: "s*", Limit: 5}), ""),
		h("search-schedules:empty-id", "GET", "/schedules?id=&limit=5", ""),
		h("search-schedules:limit-neg", "GET", "/schedules?id=s*&limit=-1", ""),
		h("search-schedules:cursor-forged-null", "GET", "/schedules?cursor="+forged[t_api.SearchSchedulesRequest](nil), ""),
		h("search-schedules:cursor-forged-empty", "GET", "/schedules?cursor="+forged(&t_api.SearchSchedulesRequest{Id: "", Limit: 0}), ""),
		h("create-promise:empty-body", "POST", "/promises", `{}`),
		h("create-promise:empty-id", "POST", "/promises", `{"id":"","timeout":5}`),
		h("create-promise:null-id", "POST", "/promises", `{"id":null,"timeout":5}`),
		h("create-promise:neg-timeout", "POST", "/promises", `{"id":"p","timeout":-5}`),
		h("create-promise:text-timeout", "POST", "/promises", `{"id":"p","timeout":"x"}`),
		h("create-promise:nulls", "POST", "/promises", `{"id":"p","timeout":5,"tags":null,"param":null}`),
		h("create-promise:not-json", "POST", "/promises", `not json`),
		h("create-promise:huge-timeout", "POST", "/promises", `{"id":"p","timeout":9223372036854775807}`),
		h("create-promise-task:no-task", "POST", "/promises/task", `{"promise":{"id":"p","timeout":5}}`),
		h("create-promise-task:no-promise", "POST", "/promises/task", `{"task":{"processId":"w","ttl":1}}`),
		h("create-promise-task:bad-task", "POST", "/promises/task", `{"promise":{"id":"p","timeout":5},"task":{"processId":"","ttl":-1}}`),
		h("complete:empty-body", "PATCH", "/promises/p", `{}`),
		h("complete:pending", "PATCH", "/promises/p", `{"state":"PENDING"}`),
		h("complete:bogus", "PATCH", "/promises/p", `{"state":"BOGUS"}`),
		h("complete:timedout", "PATCH", "/promises/p", `{"state":"REJECTED_TIMEDOUT"}`),
		h("complete:lowercase", "PATCH", "/promises/p", `{"state":"resolved"}`),
		h("complete:numeric-state", "PATCH", "/promises/p", `{"state":1}`),
		h("complete:null-value", "PATCH", "/promises/p", `{"state":"RESOLVED","value":null}`),
		h("callback:empty-body", "POST", "/callbacks", `{}`),
		h("callback:neg-timeout", "POST", "/callbacks", `{"promiseId":"p","rootPromiseId":"r","timeout":-1,"recv":"default"}`),
		h("callback:null-recv", "POST", "/callbacks", `{"promiseId":"p","rootPromiseId":"r","timeout":5,"recv":null}`),
		h("callback:number-recv", "POST", "/callbacks", `{"promiseId":"p","rootPromiseId":"r","timeout":5,"recv":5}`),
		h("callback:no-recv", "POST", "/callbacks", `{"promiseId":"p","rootPromiseId":"r","timeout":5}`),
		h("callback:same-ids", "POST", "/callbacks", `{"promiseId":"p","rootPromiseId":"p","timeout":5,"recv":"default"}`),
		h("subscription:empty-id", "POST", "/subscriptions", `{"id":"","promiseId":"p","timeout":5,"recv":"default"}`),
		h("subscription:null-recv", "POST", "/subscriptions", `{"id":"s","promiseId":"p","timeout":5,"recv":null}`),
		h("schedule:empty-body", "POST", "/schedules", `{}`),
		h("schedule:bad-cron", "POST", "/schedules", `{"id":"s","cron":"bogus","promiseId":"x","promiseTimeout":5}`),
		h("schedule:bad-template", "POST", "/schedules", `{"id":"s","cron":"* * * * *","promiseId":"x.{{.timestamp","promiseTimeout":5}`),
		h("schedule:neg-timeout", "POST", "/schedules", `{"id":"s","cron":"* * * * *","promiseId":"x","promiseTimeout":-5}`),
		h("lock-acquire:empty-body", "POST", "/locks/acquire", `{}`),
		h("lock-acquire:neg-ttl", "POST", "/locks/acquire", `{"resourceId":"r","executionId":"e","processId":"w","ttl":-1}`),
		h("lock-acquire:empty-ids", "POST", "/locks/acquire", `{"resourceId":"","executionId":"","processId":"","ttl":1}`),
		h("lock-release:empty-body", "POST", "/locks/release", `{}`),
		h("lock-heartbeat:empty-body", "POST", "/locks/heartbeat", `{}`),
		h("task-claim:empty-body", "POST", "/tasks/claim", `{}`),
		h("task-claim:empty-process", "POST", "/tasks/claim", `{"id":"t","counter":1,"processId":"","ttl":1}`),
		h("task-claim:neg-ttl", "POST", "/tasks/claim", `{"id":"t","counter":1,"processId":"w","ttl":-1}`),
		h("task-claim:neg-counter", "POST", "/tasks/claim", `{"id":"t","counter":-1,"processId":"w","ttl":1}`),
		h("task-claim-get:text-counter", "GET", "/tasks/claim/t/abc", ""),
		h("task-complete:empty-body", "POST", "/tasks/complete", `{}`),
		h("task-heartbeat:empty-process", "POST", "/tasks/heartbeat", `{"processId":""}`),
		g("grpc:search-promises:empty", func(c *clients) (any, error) { return c.p.SearchPromises(ctx, &pb.SearchPromisesRequest{}) }),
		g("grpc:search-promises:neg-limit", func(c *clients) (any, error) {
			return c.p.SearchPromises(ctx, &pb.SearchPromisesRequest{Id: "p*", Limit: -1})
		}),
		g("grpc:search-promises:cursor-garbage", func(c *clients) (any, error) {
			return c.p.SearchPromises(ctx, &pb.SearchPromisesRequest{Cursor: "garbage"})
		}),
		g("grpc:search-promises:cursor-forged-null", func(c *clients) (any, error) {
			return c.p.SearchPromises(ctx, &pb.SearchPromisesRequest{Cursor: forged[t_api.SearchPromisesRequest](nil)})
		}),
		g("grpc:search-promises:cursor-forged-empty", func(c *clients) (any, error) {
			return c.p.SearchPromises(ctx, &pb.SearchPromisesRequest{Cursor: forged(&t_api.SearchPromisesRequest{Id: "", Limit: 0})})
		}),
		g("grpc:search-schedules:empty", func(c *clients) (any, error) { return c.sc.SearchSchedules(ctx, &pb.SearchSchedulesRequest{}) }),
		g("grpc:search-schedules:cursor-forged-null", func(c *clients) (any, error) {
			return c.sc.SearchSchedules(ctx, &pb.SearchSchedulesRequest{Cursor: forged[t_api.SearchSchedulesRequest](nil)})
		}),
		g("grpc:create-promise:empty", func(c *clients) (any, error) { return c.p.CreatePromise(ctx, &pb.CreatePromiseRequest{}) }),
		g("grpc:create-promise:neg-timeout", func(c *clients) (any, error) {
			return c.p.CreatePromise(ctx, &pb.CreatePromiseRequest{Id: "p", Timeout: -5})
		}),
		g("grpc:create-promise-task:nil-parts", func(c *clients) (any, error) {
			return c.p.CreatePromiseAndTask(ctx, &pb.CreatePromiseAndTaskRequest{})
		}),
		g("grpc:create-promise-task:nil-task", func(c *clients) (any, error) {
			return c.p.CreatePromiseAndTask(ctx, &pb.CreatePromiseAndTaskRequest{Promise: &pb.CreatePromiseRequest{Id: "p", Timeout: 5}})
		}),
		g("grpc:create-promise-task:bad-task", func(c *clients) (any, error) {
			return c.p.CreatePromiseAndTask(ctx, &pb.CreatePromiseAndTaskRequest{Promise: &pb.CreatePromiseRequest{Id: "p", Timeout: 5}, Task: &pb.CreatePromiseTaskRequest{ProcessId: "", Ttl: -1}})
		}),
		g("grpc:resolve:empty", func(c *clients) (any, error) { return c.p.ResolvePromise(ctx, &pb.ResolvePromiseRequest{}) }),
		g("grpc:callback:nil-recv", func(c *clients) (any, error) {
			return c.cb.CreateCallback(ctx, &pb.CreateCallbackRequest{PromiseId: "p", RootPromiseId: "r", Timeout: 5})
		}),
		g("grpc:callback:empty", func(c *clients) (any, error) { return c.cb.CreateCallback(ctx, &pb.CreateCallbackRequest{}) }),
		g("grpc:subscription:nil-recv", func(c *clients) (any, error) {
			return c.su.CreateSubscription(ctx, &pb.CreateSubscriptionRequest{Id: "s", PromiseId: "p", Timeout: 5})
		}),
		g("grpc:schedule:empty", func(c *clients) (any, error) { return c.sc.CreateSchedule(ctx, &pb.CreateScheduleRequest{}) }),
		g("grpc:schedule:bad-cron", func(c *clients) (any, error) {
			return c.sc.CreateSchedule(ctx, &pb.CreateScheduleRequest{Id: "s", Cron: "bogus", PromiseId: "x", PromiseTimeout: 5})
		}),
		g("grpc:lock-acquire:empty", func(c *clients) (any, error) { return c.l.AcquireLock(ctx, &pb.AcquireLockRequest{}) }),
		g("grpc:lock-acquire:neg-ttl", func(c *clients) (any, error) {
			return c.l.AcquireLock(ctx, &pb.AcquireLockRequest{ResourceId: "r", ExecutionId: "e", ProcessId: "w", Ttl: -1})
		}),
		g("grpc:task-claim:empty", func(c *clients) (any, error) { return c.t.ClaimTask(ctx, &pb.ClaimTaskRequest{}) }),
		g("grpc:task-claim:empty-process", func(c *clients) (any, error) {
			return c.t.ClaimTask(ctx, &pb.ClaimTaskRequest{Id: "t", Counter: 1, ProcessId: "", Ttl: 1})
		}),
		g("grpc:task-claim:neg-ttl", func(c *clients) (any, error) {
			return c.t.ClaimTask(ctx, &pb.ClaimTaskRequest{Id: "t", Counter: 1, ProcessId: "w", Ttl: -1})
		}),
		g("grpc:task-complete:empty", func(c *clients) (any, error) { return c.t.CompleteTask(ctx, &pb.CompleteTaskRequest{}) }),
		g("grpc:task-heartbeat:empty", func(c *clients) (any, error) { return c.t.HeartbeatTasks(ctx, &pb.HeartbeatTasksRequest{}) }),
	}
}

type caseT struct {
	Idx    int    `json:"idx"`
	Ep     string `json:"ep"`
	Status int    `json:"status"`
	Form   string `json:"form"` // resp | err
	Shape  int    `json:"shape"`
	Proto  string `json:"proto"` // http | grpc | equiv | idpath
	Path   string `json:"path,omitempty"` // idpath: the request path as sent
	Want   string `json:"want,omitempty"` // idpath: the id the kernel must receive
	Bad    int    `json:"bad,omitempty"`  // malformed: index into malformed()
}

func (c caseT) key() string {
	if c.Proto == "idpath" {
		return fmt.Sprintf("idpath:%s:%s", c.Ep, c.Path)
	}
	if c.Proto == "malformed" {
		return fmt.Sprintf("malformed:%d:%s", c.Bad, c.Ep)
	}
	return fmt.Sprintf("%s:%s:%d:%s:%d", c.Proto, c.Ep, c.Status, c.Form, c.Shape)
}

// ids with characters that URL handling likes to normalise, and the ways a client may legally spell them in a path
var pathIds = []string{"p/1", "x+y/z", "q+r", "a b", "p%q", "a%2Fb", "é/ü", "a:b;c", "~.-_", "a+b c", "x/y+z/w", "Ab"}

func pathSpellings(id string) []string {
	hexOf := func(b byte, upper bool) string {
		if upper {
			return fmt.Sprintf("%%%02X", b)
		}
		return fmt.Sprintf("%%%02x", b)
	}
	unreserved := func(b byte) bool {
		return b >= 'a' && b <= 'z' || b >= 'A' && b <= 'Z' || b >= '0' && b <= '9' || strings.IndexByte("-._~", b) >= 0
	}
	var canon, lower, over, slash strings.Builder
	for i := 0; i < len(id); i++ {
		b := id[i]
		switch {
		case unreserved(b) || b == '+' || b == ':' || b == ';':
			canon.WriteByte(b)
			lower.WriteByte(b)
			slash.WriteByte(b)
		case b == '/':
			canon.WriteByte(b)
			lower.WriteByte(b)
			slash.WriteString("%2F") // an encoded slash
		default:
			canon.WriteString(hexOf(b, true))
			lower.WriteString(hexOf(b, false)) // lower-case hex digits
			slash.WriteString(hexOf(b, true))
		}
		if b == '+' || b == '/' {
			over.WriteByte(b)
		} else {
			over.WriteString(hexOf(b, true)) // every other byte percent-encoded, needed or not
		}
	}
	seen := map[string]bool{}
	var out []string
	for _, x := range []string{canon.String(), lower.String(), over.String(), slash.String()} {
		if !seen[x] {
			seen[x] = true
			out = append(out, x)
		}
	}
	return out
}

func allStatuses(factsPath string) []int {
	b, err := os.ReadFile(factsPath)
	if err != nil {
		panic(err)
	}
	var f struct {
		Statuses [][]any `json:"statuses"`
	}
	if err := json.Unmarshal(b, &f); err != nil {
		panic(err)
	}
	out := []int{}
	for _, s := range f.Statuses {
		out = append(out, int(s[1].(float64)))
	}
	return out
}

func enumerate(statuses []int) []caseT {
	var cs []caseT
	for _, ep := range endpoints() {
		for _, s := range statuses {
			forms := []string{"resp"}
			if s >= 50000 {
				forms = []string{"err"}
			} else if s >= 40000 {
				forms = []string{"resp", "err"}
			}
			for _, f := range forms {
				// for errors the shape is the cause: 0 = wrapped cause (store / router / echo failures),
				// 1 = no cause (queue-full and shutting-down errors are created with a nil cause)
				shapes := []int{0, 1}
				if f == "resp" && strings.HasPrefix(ep.name, "ClaimTask") {
					// a claimed resume task whose root (2) or leaf (3) promise the kernel could not attach: a registration may
					// name a root promise that does not exist
					shapes = []int{0, 1, 2, 3}
				}
				for _, sh := range shapes {
					for _, p := range []string{"http", "grpc"} {
						cs = append(cs, caseT{Ep: ep.name, Status: s, Form: f, Shape: sh, Proto: p})
					}
				}
			}
		}
		cs = append(cs, caseT{Ep: ep.name, Proto: "equiv"})
	}
	// a kernel that takes longer than the server's (shutdown) timeout to answer: the request is still answered
	cs = append(cs, caseT{Ep: "ReadPromise", Proto: "slow-http"}, caseT{Ep: "ReadPromise", Proto: "slow-grpc"})
	for i, b := range malformed() {
		cs = append(cs, caseT{Ep: b.name, Proto: "malformed", Bad: i})
	}
	for i, b := range boundaries() {
		cs = append(cs, caseT{Ep: b.name, Proto: "boundary", Bad: i})
	}
	// ids in URL paths reach the kernel exactly as the client spelled them (percent-decoding only)
	for _, t := range [][2]string{{"ReadPromise", "/promises/"}, {"ResolvePromise", "/promises/"}, {"ReadSchedule", "/schedules/"}, {"DeleteSchedule", "/schedules/"}} {
		for _, id := range pathIds {
			for _, sp := range pathSpellings(id) {
				cs = append(cs, caseT{Ep: t[0], Proto: "idpath", Path: t[1] + sp, Want: id})
			}
		}
	}
	for i := range cs {
		cs[i].Idx = i
	}
	return cs
}

// ---------------------------------------------------------------- child: run cases [from, to)

func flagOf(res any, name string) (bool, bool) {
	v := reflect.ValueOf(res)
	if v.Kind() == reflect.Ptr {
		v = v.Elem()
	}
	f := v.FieldByName(name)
	if !f.IsValid() || f.Kind() != reflect.Bool {
		return false, false
	}
	return f.Bool(), true
}

func child(from, to int, factsPath, driverPath string) {
	slog.SetDefault(slog.New(slog.NewTextHandler(io.Discard, nil)))
	cases := enumerate(allStatuses(factsPath))
	stub := &stubAPI{}
	hs, err := httpApi.New(stub, &httpApi.Config{Addr: "127.0.0.1:0", Timeout: time.Second, TaskFrequency: time.Minute})
	if err != nil {
		panic(err)
	}
	gs, err := grpcApi.New(stub, &grpcApi.Config{Addr: "127.0.0.1:0"})
	if err != nil {
		panic(err)
	}
	errs := make(chan error, 4)
	go hs.Start(errs)
	go gs.Start(errs)
	time.Sleep(150 * time.Millisecond)
	conn, err := grpc.NewClient(gs.Addr(), grpc.WithTransportCredentials(insecure.NewCredentials()))
	if err != nil {
		panic(err)
	}
	cl := &clients{pb.NewPromisesClient(conn), pb.NewCallbacksClient(conn), pb.NewSubscriptionsClient(conn), pb.NewSchedulesClient(conn), pb.NewLocksClient(conn), pb.NewTasksClient(conn)}
	hc := &http.Client{Timeout: 3 * time.Second}
	base := "http://" + hs.Addr()
	eps := map[string]endpoint{}
	for _, e := range endpoints() {
		eps[e.name] = e
	}
	out := bufio.NewWriter(os.Stdout)
	bads := malformed()
	var drv *lean.Driver
	if driverPath != "" {
		if drv, err = lean.Start(driverPath); err != nil {
			panic(err)
		}
		defer drv.Close()
	}
	doHTTP := func(e endpoint) (*http.Response, []byte, error) {
		req, _ := http.NewRequest(e.method, base+e.path, strings.NewReader(e.body))
		for k, v := range e.headers {
			req.Header.Set(k, v)
		}
		if e.body != "" {
			req.Header.Set("Content-Type", "application/json")
		}
		res, err := hc.Do(req)
		if err != nil {
			return nil, nil, err
		}
		defer res.Body.Close()
		b, _ := io.ReadAll(res.Body)
		return res, b, nil
	}
	for _, c := range cases[from:to] {
		fmt.Fprintf(out, "START %d\n", c.Idx)
		out.Flush()
		e := eps[c.Ep]
		problem := ""
		if c.Proto == "slow-http" || c.Proto == "slow-grpc" {
			// the front ends are configured with a timeout of one second (graceful shutdown); the kernel answers after 1.6 s
			stub.next = func(r *t_api.Request) (*t_api.Response, error) {
				time.Sleep(1600 * time.Millisecond)
				return mkResponse(r.Kind, t_api.StatusOK, 1), nil
			}
			if c.Proto == "slow-http" {
				res, _, herr := doHTTP(e)
				if herr != nil {
					problem = "a request the kernel answered after 1.6 s (server timeout 1 s) got no HTTP reply: " + herr.Error()
				} else if res.StatusCode != 200 {
					problem = fmt.Sprintf("a request the kernel answered OK after 1.6 s was rendered as %d", res.StatusCode)
				}
			} else if _, gerr := e.grpc(cl); gerr != nil {
				problem = "a request the kernel answered after 1.6 s got a gRPC error: " + gerr.Error()
			}
			r, _ := json.Marshal(M{"idx": c.Idx, "key": c.key(), "problem": problem})
			fmt.Fprintf(out, "DONE %s\n", r)
			out.Flush()
			continue
		}
		if c.Proto == "malformed" {
			b := bads[c.Bad]
			stub.next = func(r *t_api.Request) (*t_api.Response, error) { return mkResponse(r.Kind, t_api.StatusOK, 1), nil }
			stub.captured = nil
			refused := false
			if b.grpc != nil {
				_, gerr := b.grpc(cl)
				if gerr != nil {
					switch status.Code(gerr) {
					case codes.InvalidArgument, codes.NotFound, codes.FailedPrecondition, codes.AlreadyExists, codes.PermissionDenied:
						refused = true
					default:
						problem = fmt.Sprintf("malformed gRPC request answered %v (not a client error): %v", status.Code(gerr), gerr)
					}
				}
			} else {
				res, _, herr := doHTTP(endpoint{method: b.method, path: b.path, body: b.body, headers: map[string]string{"request-id": "rid"}})
				switch {
				case herr != nil:
					problem = "no HTTP reply to a malformed request: " + herr.Error()
				case res.StatusCode >= 500:
					problem = fmt.Sprintf("malformed HTTP request answered %d", res.StatusCode)
				case res.StatusCode >= 400:
					refused = true
				}
			}
			if problem == "" {
				if rq := stub.captured; rq != nil {
					// it reached the kernel: it must satisfy the hypothesis of the no-assertion theorem
					func() {
						defer func() {
							if p := recover(); p != nil {
								problem = fmt.Sprintf("the kernel received a request that cannot even be described (nil payload): %v", p)
							}
						}()
						// the stores assert non-nil tag maps on searches (nil and empty are one value in the canonical form)
						if (rq.Kind == t_api.SearchPromises && rq.SearchPromises != nil && rq.SearchPromises.Tags == nil) ||
							(rq.Kind == t_api.SearchSchedules && rq.SearchSchedules != nil && rq.SearchSchedules.Tags == nil) {
							problem = "the kernel received a search whose tag map is nil (the store asserts it is not)"
							return
						}
						rep, _, err := drv.Call(M{"op": "valid_req", "req": canon.Req(rq)})
						if err != nil {
							problem = "harness: " + err.Error()
						} else if rep["valid"] != true {
							problem = fmt.Sprintf("the kernel received a request outside ValidReq (it would hit a kernel assertion): %v", canon.Req(rq))
						}
					}()
				} else if !refused {
					problem = "neither refused with a client error nor handed to the kernel"
				}
			}
		} else if c.Proto == "idpath" {
			stub.next = func(r *t_api.Request) (*t_api.Response, error) { return mkResponse(r.Kind, t_api.StatusOK, 1), nil }
			stub.captured = nil
			e2 := e
			e2.path = c.Path
			_, _, herr := doHTTP(e2)
			if hreq := stub.captured; herr != nil || hreq == nil {
				problem = fmt.Sprintf("http request %s did not reach the kernel: %v", c.Path, herr)
			} else {
				cm, _ := canon.Req(hreq)["c"].(map[string]any)
				if got := fmt.Sprint(cm["id"]); got != c.Want {
					problem = fmt.Sprintf("path %s: the kernel received id %q, the client addressed %q", c.Path, got, c.Want)
				}
			}
		} else if c.Proto == "boundary" {
			e = boundaries()[c.Bad]
			stub.next = func(r *t_api.Request) (*t_api.Response, error) { return mkResponse(r.Kind, t_api.StatusOK, 1), nil }
			stub.captured = nil
			hres, _, herr := doHTTP(e)
			hreq := stub.captured
			stub.captured = nil
			_, gerr := e.grpc(cl)
			greq := stub.captured
			switch {
			case herr != nil:
				problem = fmt.Sprintf("no HTTP reply: %v", herr)
			case hreq == nil && greq == nil:
				// both refused
				if hres.StatusCode < 400 || hres.StatusCode >= 500 || gerr == nil {
					problem = fmt.Sprintf("neither request reached the kernel but not both were refused as client errors: http %d, grpc %v", hres.StatusCode, gerr)
				}
			case hreq == nil || greq == nil:
				problem = fmt.Sprintf("equivalent requests are treated differently: http reached the kernel=%v (status %d), grpc reached the kernel=%v (%v)", hreq != nil, hres.StatusCode, greq != nil, gerr)
			default:
				a, _ := json.Marshal(canon.Req(hreq))
				b, _ := json.Marshal(canon.Req(greq))
				if !bytes.Equal(a, b) {
					problem = fmt.Sprintf("translated kernel requests differ: http=%s grpc=%s", a, b)
				}
			}
		} else if c.Proto == "equiv" {
			stub.next = func(r *t_api.Request) (*t_api.Response, error) { return mkResponse(r.Kind, t_api.StatusOK, 1), nil }
			stub.captured = nil
			_, _, herr := doHTTP(e)
			hreq := stub.captured
			stub.captured = nil
			_, gerr := e.grpc(cl)
			greq := stub.captured
			switch {
			case herr != nil || hreq == nil:
				problem = fmt.Sprintf("http request did not reach the kernel: %v", herr)
			case gerr != nil || greq == nil:
				problem = fmt.Sprintf("grpc request did not reach the kernel: %v", gerr)
			default:
				a, _ := json.Marshal(canon.Req(hreq))
				b, _ := json.Marshal(canon.Req(greq))
				if !bytes.Equal(a, b) {
					problem = fmt.Sprintf("translated kernel requests differ: http=%s grpc=%s", a, b)
				}
			}
		} else {
			st := t_api.StatusCode(c.Status)
			stub.next = func(r *t_api.Request) (*t_api.Response, error) {
				if c.Form == "err" {
					if c.Shape == 1 {
						return nil, t_api.NewError(st, nil)
					}
					return nil, t_api.NewError(st, fmt.Errorf("scripted"))
				}
				return mkResponse(r.Kind, st, c.Shape), nil
			}
			if c.Proto == "http" {
				res, body, err := doHTTP(e)
				switch {
				case err != nil:
					problem = "no HTTP reply: " + err.Error()
				case res.StatusCode != c.Status/100:
					problem = fmt.Sprintf("HTTP status %d, want %d", res.StatusCode, c.Status/100)
				default:
					var v any
					if len(body) > 0 {
						if jerr := json.Unmarshal(body, &v); jerr != nil {
							problem = "reply body is not JSON: " + string(body)
						}
					}
					if problem == "" && c.Status >= 40000 {
						m, _ := v.(map[string]any)
						em, _ := m["error"].(map[string]any)
						if em == nil || int(em["code"].(float64)) != c.Status {
							problem = fmt.Sprintf("error body does not carry code %d: %s", c.Status, body)
						}
					}
				}
			} else {
				res, err := e.grpc(cl)
				if st.IsSuccessful() && c.Form == "resp" {
					if err != nil {
						problem = "grpc error for a successful status: " + err.Error()
					} else if e.flagName != "" {
						v, ok := flagOf(res, e.flagName)
						if !ok {
							problem = "flag " + e.flagName + " missing"
						} else if v != (st == e.flagTrue) {
							problem = fmt.Sprintf("flag %s=%v for kernel status %d (success status of this operation is %d)", e.flagName, v, c.Status, e.flagTrue)
						}
					}
				} else {
					code := status.Code(err)
					if err == nil {
						problem = "grpc OK for a failure status"
					} else if code == codes.OK || code == codes.Unknown || code == codes.Unavailable && c.Status/100 != 503 {
						problem = fmt.Sprintf("grpc code %s for status %d: %v", code, c.Status, err)
					}
				}
			}
		}
		r, _ := json.Marshal(M{"idx": c.Idx, "key": c.key(), "problem": problem})
		fmt.Fprintf(out, "DONE %s\n", r)
		out.Flush()
	}
	os.Exit(0)
}

// ---------------------------------------------------------------- parent

func main() {
	isChild := flag.Bool("child", false, "")
	from := flag.Int("from", 0, "")
	to := flag.Int("to", 0, "")
	facts := flag.String("facts", "", "gofacts.json with the status universe")
	outPath := flag.String("out", "", "summary JSON path")
	work := flag.String("work", "", "scratch directory")
	driverFlag := flag.String("driver", "", "Lean model driver (ValidReq is evaluated by the model)")
	_ = flag.Int64("seed", 1, "unused: the enumeration is exhaustive")
	only := flag.String("only", "", "run only cases whose key contains this substring")
	flag.String("replay", "", "unused")
	flag.String("corpus", "", "unused")
	flag.Parse()
	if *isChild {
		child(*from, *to, *facts, *driverFlag)
		return
	}
	os.MkdirAll(*work, 0o755)
	cases := enumerate(allStatuses(*facts))
	self, _ := os.Executable()
	results := map[int]string{}
	crashes := 0
	next := 0
	for next < len(cases) {
		cmd := exec.Command(self, "-child", "-from", fmt.Sprint(next), "-to", fmt.Sprint(len(cases)), "-facts", *facts, "-driver", *driverFlag)
		var stderr bytes.Buffer
		cmd.Stderr = &stderr
		pipe, _ := cmd.StdoutPipe()
		if err := cmd.Start(); err != nil {
			panic(err)
		}
		sc := bufio.NewScanner(pipe)
		sc.Buffer(make([]byte, 1<<20), 1<<20)
		started := -1
		for sc.Scan() {
			line := sc.Text()
			if strings.HasPrefix(line, "START ") {
				fmt.Sscan(line[6:], &started)
			} else if strings.HasPrefix(line, "DONE ") {
				var r struct {
					Idx     int    `json:"idx"`
					Problem string `json:"problem"`
				}
				json.Unmarshal([]byte(line[5:]), &r)
				results[r.Idx] = r.Problem
				next = r.Idx + 1
				started = -1
			}
		}
		cmd.Wait()
		if started >= 0 {
			// the child died while running case `started`
			msg := stderr.String()
			if i := strings.Index(msg, "panic:"); i >= 0 {
				msg = msg[i:]
			}
			if len(msg) > 300 {
				msg = msg[:300]
			}
			results[started] = "CRASH: the server process died: " + strings.ReplaceAll(msg, "\n", " | ")
			crashes++
			next = started + 1
		} else if next < len(cases) && started < 0 && len(results) == 0 {
			panic("child produced nothing: " + stderr.String())
		}
	}
	problems := []M{}
	byEp := map[string]int{}
	for _, c := range cases {
		byEp[c.Ep]++
		if *only != "" && !strings.Contains(c.key(), *only) {
			continue
		}
		if p := results[c.Idx]; p != "" {
			problems = append(problems, M{"key": c.key(), "problem": p})
		}
	}
	sort.Slice(problems, func(i, j int) bool { return problems[i]["key"].(string) < problems[j]["key"].(string) })
	summary := M{"cases": len(cases), "scripts": len(cases), "crashes": crashes, "problems": problems, "disagreements": 0,
		"counts": M{"nontrivial": len(cases), "by_endpoint": byEp}, "exhaustive": true,
		"samples": []any{cases[0], cases[len(cases)/2], cases[len(cases)-1]}}
	if len(problems) > 0 {
		summary["disagreements"] = 1
		summary["property_violation"] = true
		summary["divergence"] = fmt.Sprintf("%d front-end cases fail", len(problems))
		summary["diff"] = fmt.Sprint(problems[0]["key"], ": ", problems[0]["problem"])
		path := *work + "/frontdiff-divergence.json"
		b, _ := json.MarshalIndent(M{"harness": "frontdiff", "problems": problems}, "", " ")
		os.WriteFile(path, b, 0o644)
		summary["divergence_file"] = path
	}
	b, _ := json.MarshalIndent(summary, "", " ")
	if *outPath != "" {
		os.WriteFile(*outPath, b, 0o644)
	} else {
		fmt.Println(string(b))
	}
	if len(problems) > 0 {
		os.Exit(3)
	}
}
