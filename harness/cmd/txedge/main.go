// txedge: the store's transaction deadline landing inside a batch.
//
// The sqlite store runs every batch in one database transaction bound to a context with a
// deadline (config TxTimeout). When the deadline passes database/sql rolls the transaction
// back by itself; the command that is running finishes and still reports rows, the next
// command (or Commit) fails. The model executes a batch as one atomic step with two outcomes:
// (a) every submission fails and the database is unchanged, (b) every submission succeeds
// and the database is the model's result. This harness sweeps the deadline over the whole
// duration of a batch whose cost is dominated by one slow command placed first, in the
// middle, or last, and checks on the REAL store that the outcome is (a) or (b), reading the
// database back through an independent connection.
package main

import (
	"strings"
	"sync"
	"database/sql"
	"encoding/json"
	"flag"
	"fmt"
	"io"
	"log/slog"
	"os"
	"path/filepath"
	"time"

	"github.com/prometheus/client_golang/prometheus"
	"github.com/resonatehq/resonate/internal/app/subsystems/aio/store/sqlite"
	"github.com/resonatehq/resonate/internal/kernel/bus"
	"github.com/resonatehq/resonate/internal/kernel/t_aio"
	"github.com/resonatehq/resonate/internal/metrics"
	"github.com/resonatehq/resonate/pkg/message"
	"github.com/resonatehq/resonate/pkg/promise"

	_ "github.com/mattn/go-sqlite3"
)

type M = map[string]any

func open(path string, txTimeout time.Duration) (*sqlite.SqliteStore, error) {
	st, err := sqlite.New(nil, metrics.New(prometheus.NewRegistry()), &sqlite.Config{Size: 10, BatchSize: 10, Path: path, TxTimeout: txTimeout})
	if err != nil {
		return nil, err
	}
	return st, nil
}

func createPromise(id string) *t_aio.Command {
	return &t_aio.Command{Kind: t_aio.CreatePromise, CreatePromise: &t_aio.CreatePromiseCommand{
		Id: id, Timeout: 1 << 40, Param: promise.Value{Headers: map[string]string{}, Data: []byte{}}, Tags: map[string]string{}, CreatedOn: 1}}
}

func sqe(id string, cmds ...*t_aio.Command) *bus.SQE[t_aio.Submission, t_aio.Completion] {
	return &bus.SQE[t_aio.Submission, t_aio.Completion]{Id: id,
		Submission: &t_aio.Submission{Kind: t_aio.Store, Tags: map[string]string{}, Store: &t_aio.StoreSubmission{Transaction: &t_aio.Transaction{Commands: cmds}}},
		Callback:   func(*t_aio.Completion, error) {}}
}

func process(st *sqlite.SqliteStore, sqes []*bus.SQE[t_aio.Submission, t_aio.Completion]) (cqes []*bus.CQE[t_aio.Submission, t_aio.Completion], pan string) {
	defer func() {
		if r := recover(); r != nil {
			pan = fmt.Sprint(r)
		}
	}()
	return st.Process(sqes), ""
}

func copyFile(src, dst string) error {
	in, err := os.Open(src)
	if err != nil {
		return err
	}
	defer in.Close()
	out, err := os.Create(dst)
	if err != nil {
		return err
	}
	defer out.Close()
	_, err = io.Copy(out, in)
	return err
}

// independent read of the database; retried while the rolled back connection still holds the lock
func counts(path string) (promises map[string]bool, tasks int, err error) {
	for i := 0; i < 300; i++ {
		var db *sql.DB
		db, err = sql.Open("sqlite3", path)
		if err != nil {
			return
		}
		promises = map[string]bool{}
		var rows *sql.Rows
		rows, err = db.Query("SELECT id FROM promises")
		if err == nil {
			for rows.Next() {
				var id string
				rows.Scan(&id) // nolint
				promises[id] = true
			}
			rows.Close()
			err = db.QueryRow("SELECT COUNT(*) FROM tasks").Scan(&tasks)
		}
		db.Close()
		if err == nil {
			return
		}
		time.Sleep(50 * time.Millisecond)
	}
	return
}

// cqAIO: the minimum of aio.AIO the store's worker loop needs - it only hands completions back
type cqAIO struct {
	ch chan *bus.CQE[t_aio.Submission, t_aio.Completion]
}

func (a *cqAIO) String() string                                          { return "cqAIO" }
func (a *cqAIO) Start() error                                            { return nil }
func (a *cqAIO) Stop() error                                             { return nil }
func (a *cqAIO) Shutdown()                                               {}
func (a *cqAIO) Errors() <-chan error                                    { return nil }
func (a *cqAIO) Signal(<-chan interface{}) <-chan interface{}            { return nil }
func (a *cqAIO) Flush(int64)                                             {}
func (a *cqAIO) Dispatch(*t_aio.Submission, func(*t_aio.Completion, error)) {}
func (a *cqAIO) EnqueueSQE(*bus.SQE[t_aio.Submission, t_aio.Completion]) {}
func (a *cqAIO) EnqueueCQE(c *bus.CQE[t_aio.Submission, t_aio.Completion]) { a.ch <- c }
func (a *cqAIO) DequeueCQE(int) []*bus.CQE[t_aio.Submission, t_aio.Completion] { return nil }

func main() {
	seed := flag.Int64("seed", 1, "")
	n := flag.Int("callbacks", 60000, "callbacks on the promise whose CreateTasks is the slow command")
	steps := flag.Int("steps", 8, "deadlines per placement, spread over the calibrated batch duration")
	work := flag.String("work", "", "")
	out := flag.String("out", "", "")
	flag.String("driver", "", "unused")
	flag.String("corpus", "", "")
	flag.String("replay", "", "")
	flag.Parse()
	slog.SetDefault(slog.New(slog.NewTextHandler(io.Discard, nil)))
	os.MkdirAll(*work, 0o755)
	summary := M{"seed": *seed, "disagreements": 0}
	cnt := map[string]int{}
	fail := func(what string, detail M) {
		rep := M{"harness": "txedge", "seed": *seed, "divergence": M{"what": what, "property_violation": true}, "detail": detail}
		b, _ := json.MarshalIndent(rep, "", " ")
		path := filepath.Join(*work, "txedge-divergence.json")
		os.WriteFile(path, b, 0o644)
		summary["disagreements"] = 1
		summary["divergence_file"] = path
		summary["divergence"] = what
		summary["property_violation"] = true
	}
	finish := func() {
		cnt["nontrivial"] = cnt["deadline_inside_batch"]
		summary["scripts"] = cnt["batches"]
		summary["cases"] = cnt["batches"]
		summary["counts"] = cnt
		b, _ := json.MarshalIndent(summary, "", " ")
		if *out != "" {
			os.WriteFile(*out, b, 0o644)
		} else {
			fmt.Println(string(b))
		}
		for _, f := range []string{"base.db", "run.db", "cal.db", "run.db-journal"} {
			os.Remove(filepath.Join(*work, f))
		}
		if summary["disagreements"] != 0 {
			os.Exit(3)
		}
		os.Exit(0)
	}
	harnessErr := func(err error) {
		summary["disagreements"] = 1
		summary["divergence"] = "harness: " + err.Error()
		finish()
	}

	// 1. reachable state: pending promise "big" with n callbacks
	base := filepath.Join(*work, "base.db")
	os.Remove(base)
	boot, err := sql.Open("sqlite3", base)
	if err != nil {
		harnessErr(err)
	}
	if _, err := boot.Exec(sqlite.CREATE_TABLE_STATEMENT); err != nil {
		harnessErr(err)
	}
	boot.Close()
	setup, err := open(base, time.Hour)
	if err != nil {
		harnessErr(err)
	}
	if cq, p := process(setup, []*bus.SQE[t_aio.Submission, t_aio.Completion]{sqe("b", createPromise("big"))}); p != "" || cq[0].Error != nil {
		harnessErr(fmt.Errorf("setup: %v %v", p, cq))
	}
	for b := 0; b < *n; b += 5000 {
		cmds := []*t_aio.Command{}
		for k := b; k < b+5000 && k < *n; k++ {
			cmds = append(cmds, &t_aio.Command{Kind: t_aio.CreateCallback, CreateCallback: &t_aio.CreateCallbackCommand{
				Id: fmt.Sprintf("cb.%07d", k), PromiseId: "big", Recv: []byte(`"default"`),
				Mesg: &message.Mesg{Type: message.Resume, Root: fmt.Sprintf("root.%07d", k), Leaf: "big"}, Timeout: 1 << 40, CreatedOn: 1}})
		}
		if cq, p := process(setup, []*bus.SQE[t_aio.Submission, t_aio.Completion]{sqe("c", cmds...)}); p != "" || cq[0].Error != nil {
			harnessErr(fmt.Errorf("setup callbacks: %v", p))
		}
	}
	setup.Stop() // nolint
	slow := func() *t_aio.Command {
		return &t_aio.Command{Kind: t_aio.CreateTasks, CreateTasks: &t_aio.CreateTasksCommand{PromiseId: "big", CreatedOn: 2}}
	}
	batches := map[string]func() []*bus.SQE[t_aio.Submission, t_aio.Completion]{
		"slow-last": func() []*bus.SQE[t_aio.Submission, t_aio.Completion] {
			return []*bus.SQE[t_aio.Submission, t_aio.Completion]{sqe("v1", createPromise("v1")), sqe("v2", createPromise("v2")), sqe("slow", slow())}
		},
		"slow-middle": func() []*bus.SQE[t_aio.Submission, t_aio.Completion] {
			return []*bus.SQE[t_aio.Submission, t_aio.Completion]{sqe("v1", createPromise("v1")), sqe("slow", slow()), sqe("v2", createPromise("v2"))}
		},
		"slow-first": func() []*bus.SQE[t_aio.Submission, t_aio.Completion] {
			return []*bus.SQE[t_aio.Submission, t_aio.Completion]{sqe("slow", slow()), sqe("v1", createPromise("v1")), sqe("v2", createPromise("v2"))}
		},
		"slow-last-same-tx": func() []*bus.SQE[t_aio.Submission, t_aio.Completion] {
			return []*bus.SQE[t_aio.Submission, t_aio.Completion]{sqe("v", createPromise("v1"), createPromise("v2"), slow())}
		},
	}
	names := []string{"slow-last", "slow-middle", "slow-first", "slow-last-same-tx"}

	// 2. calibrate: how long does the batch take here
	cal := filepath.Join(*work, "cal.db")
	if err := copyFile(base, cal); err != nil {
		harnessErr(err)
	}
	cs, err := open(cal, time.Hour)
	if err != nil {
		harnessErr(err)
	}
	t0 := time.Now()
	cq, p := process(cs, batches["slow-last"]())
	took := time.Since(t0)
	cs.Stop() // nolint
	os.Remove(cal)
	if p != "" || cq[0].Error != nil || cq[2].Error != nil || cq[2].Completion.Store.Results[0].CreateTasks.RowsAffected != int64(*n) {
		harnessErr(fmt.Errorf("calibration batch did not apply: %v", p))
	}
	summary["samples"] = []any{M{"callbacks": *n, "batch_ms": took.Milliseconds(), "steps": *steps}}

	// 2b. several store workers at once (the Postgres store runs `workers` of them over one store.Process): each worker's
	// batch is executed on its own database and acknowledged with its own results - nothing of one worker's batch may
	// end up in, or be acknowledged from, another worker's
	{
		const workers, rounds = 4, 150
		stores := make([]*sqlite.SqliteStore, workers)
		paths := make([]string, workers)
		for i := range stores {
			paths[i] = filepath.Join(*work, fmt.Sprintf("par-%d.db", i))
			os.Remove(paths[i])
			b, err := sql.Open("sqlite3", paths[i])
			if err != nil {
				harnessErr(err)
			}
			if _, err := b.Exec(sqlite.CREATE_TABLE_STATEMENT); err != nil {
				harnessErr(err)
			}
			b.Close()
			if stores[i], err = open(paths[i], 10*time.Second); err != nil {
				harnessErr(err)
			}
		}
		var wg sync.WaitGroup
		acked := make([][]string, workers)
		for i := 0; i < workers; i++ {
			wg.Add(1)
			go func(i int) {
				defer wg.Done()
				for k := 0; k < rounds; k++ {
					ids := []string{fmt.Sprintf("w%d.%d.a", i, k), fmt.Sprintf("w%d.%d.b", i, k)}
					cq, p := process(stores[i], []*bus.SQE[t_aio.Submission, t_aio.Completion]{sqe("a", createPromise(ids[0])), sqe("b", createPromise(ids[1]))})
					if p != "" || len(cq) != 2 {
						continue
					}
					for j, c := range cq {
						if c.Error == nil && c.Completion != nil && c.Completion.Store != nil && len(c.Completion.Store.Results) == 1 && c.Completion.Store.Results[0].CreatePromise != nil &&
							c.Completion.Store.Results[0].CreatePromise.RowsAffected == 1 {
							acked[i] = append(acked[i], ids[j])
						}
					}
				}
			}(i)
		}
		wg.Wait()
		for i := range stores {
			stores[i].Stop() // nolint
			proms, _, err := counts(paths[i])
			if err != nil {
				harnessErr(err)
			}
			cnt["parallel_acks"] += len(acked[i])
			for _, id := range acked[i] {
				if !proms[id] {
					fail(fmt.Sprintf("with %d store workers running store.Process at once, worker %d was told that promise %q was created, but its database does not hold it", workers, i, id), M{"worker": i, "id": id, "acked": len(acked[i]), "stored": len(proms)})
					finish()
				}
			}
			for id := range proms {
				if !strings.HasPrefix(id, fmt.Sprintf("w%d.", i)) {
					fail(fmt.Sprintf("worker %d's database holds promise %q, which another worker submitted", i, id), M{"worker": i, "id": id})
					finish()
				}
			}
			os.Remove(paths[i])
		}
	}

	// 2c. the worker loop: what the store's own goroutine collects as ONE batch (up to BatchSize submissions) is one
	// transaction - when a later submission of that batch fails, the earlier ones are neither applied nor acknowledged
	{
		wl := filepath.Join(*work, "loop.db")
		os.Remove(wl)
		b, err := sql.Open("sqlite3", wl)
		if err != nil {
			harnessErr(err)
		}
		if _, err := b.Exec(sqlite.CREATE_TABLE_STATEMENT); err != nil {
			harnessErr(err)
		}
		b.Close()
		prep, err := open(wl, 10*time.Second)
		if err != nil {
			harnessErr(err)
		}
		cb := &t_aio.Command{Kind: t_aio.CreateCallback, CreateCallback: &t_aio.CreateCallbackCommand{Id: "cb.loop", PromiseId: "lp", Recv: []byte(`"default"`),
			Mesg: &message.Mesg{Type: message.Resume, Root: "root.loop", Leaf: "lp"}, Timeout: 1 << 40, CreatedOn: 1}}
		mkTasks := func() *t_aio.Command {
			return &t_aio.Command{Kind: t_aio.CreateTasks, CreateTasks: &t_aio.CreateTasksCommand{PromiseId: "lp", CreatedOn: 2}}
		}
		if cq, p := process(prep, []*bus.SQE[t_aio.Submission, t_aio.Completion]{sqe("s", createPromise("lp"), cb, mkTasks())}); p != "" || cq[0].Error != nil {
			harnessErr(fmt.Errorf("worker-loop setup: %v %v", p, cq))
		}
		prep.Stop() // nolint
		stub := &cqAIO{ch: make(chan *bus.CQE[t_aio.Submission, t_aio.Completion], 16)}
		st, err := sqlite.New(stub, metrics.New(prometheus.NewRegistry()), &sqlite.Config{Size: 10, BatchSize: 3, Path: wl, TxTimeout: 10 * time.Second})
		if err != nil {
			harnessErr(err)
		}
		read := func(id string) *t_aio.Command {
			return &t_aio.Command{Kind: t_aio.ReadPromise, ReadPromise: &t_aio.ReadPromiseCommand{Id: id}}
		}
		// three submissions, 2 + 2 + 1 commands; the last one fails (the tasks of "lp" exist already: UNIQUE violation)
		for _, q := range []*bus.SQE[t_aio.Submission, t_aio.Completion]{sqe("a", createPromise("lq"), read("lq")), sqe("b", createPromise("lr"), read("lr")), sqe("c", mkTasks())} {
			if !st.Enqueue(q) {
				harnessErr(fmt.Errorf("worker-loop: enqueue refused"))
			}
		}
		if err := st.Start(nil); err != nil {
			harnessErr(err)
		}
		got := map[string]bool{} // id -> failed
		deadline := time.After(15 * time.Second)
		for len(got) < 3 {
			select {
			case c := <-stub.ch:
				got[c.Id] = c.Error != nil
			case <-deadline:
				harnessErr(fmt.Errorf("worker-loop: only %d of 3 completions arrived", len(got)))
			}
		}
		st.Stop() // nolint
		proms, _, rerr := counts(wl)
		if rerr != nil {
			harnessErr(rerr)
		}
		cnt["worker_loop_batches"]++
		detail := M{"a_failed": got["a"], "b_failed": got["b"], "c_failed": got["c"], "lq_in_db": proms["lq"], "lr_in_db": proms["lr"]}
		if got["c"] && (!got["a"] || !got["b"] || proms["lq"] || proms["lr"]) {
			fail("one batch of the store's worker loop (three submissions collected together, the third fails) was applied in part: the earlier submissions were acknowledged or written", detail)
			finish()
		}
		os.Remove(wl)
	}

	// 3. sweep
	for _, name := range names {
		for s := 0; s <= *steps; s++ {
			// deadlines from 1/(steps+1) of the duration up to 1.5x (the last ones normally do not expire)
			d := time.Duration(float64(took) * 1.5 * float64(s+1) / float64(*steps+1))
			path := filepath.Join(*work, "run.db")
			os.Remove(path)
			os.Remove(path + "-journal")
			if err := copyFile(base, path); err != nil {
				harnessErr(err)
			}
			st, err := open(path, d)
			if err != nil {
				harnessErr(err)
			}
			sqes := batches[name]()
			cqes, pan := process(st, sqes)
			cnt["batches"]++
			if pan != "" {
				st.Stop() // nolint
				fail("the store panicked on a batch whose transaction deadline passed: "+pan, M{"placement": name, "tx_timeout_ns": d.Nanoseconds()})
				finish()
			}
			nerr, reported := 0, int64(-1)
			for _, c := range cqes {
				if c.Error != nil {
					nerr++
					continue
				}
				for j, r := range c.Completion.Store.Results {
					_ = j
					if r.Kind == t_aio.CreateTasks {
						reported = r.CreateTasks.RowsAffected
					}
				}
			}
			proms, tasks, rerr := counts(path)
			st.Stop() // nolint
			if rerr != nil {
				harnessErr(fmt.Errorf("read back: %v", rerr))
			}
			detail := M{"placement": name, "tx_timeout_ns": d.Nanoseconds(), "batch_ns_calibrated": took.Nanoseconds(), "submissions": len(cqes), "failed": nerr,
				"reported_tasks": reported, "tasks_in_db": tasks, "v1_in_db": proms["v1"], "v2_in_db": proms["v2"], "callbacks": *n}
			switch {
			case nerr == len(cqes):
				cnt["deadline_inside_batch"]++
				if tasks != 0 || proms["v1"] || proms["v2"] {
					fail("a batch reported as failed to every submission left rows behind", detail)
					finish()
				}
			case nerr == 0:
				cnt["applied"]++
				if tasks != *n || reported != int64(*n) || !proms["v1"] || !proms["v2"] {
					fail(fmt.Sprintf("a batch reported as applied (CreateTasks rows=%d, both creates acknowledged) is not in the database: tasks=%d v1=%v v2=%v",
						reported, tasks, proms["v1"], proms["v2"]), detail)
					finish()
				}
			default:
				fail("submissions of one batch got different verdicts (some failed, some succeeded)", detail)
				finish()
			}
		}
	}
	finish()
}
