// polldiff — correspondence check between the real poll transport worker (PollWorker.Start loop, connection
// registry, PollWorker.Process; driven through the build-tag `verif` hook over harness-owned channels) and the Lean
// model Model/Poll.lean, plus direct monitors for property C18 on the implementation's observations.
//
// A script is generated offline (it does not depend on implementation state) and executed in a CHILD process, because
// a panic of the worker goroutine (double close, send on a closed channel, nil dereference) kills the process: the
// parent then reports the crash with the script as the replay.
package main

import (
	"encoding/json"
	"flag"
	"fmt"
	"math/rand"
	"os"
	"os/exec"
	"path/filepath"
	"reflect"
	"sort"
	"strings"

	"bufio"
	"context"
	"github.com/prometheus/client_golang/prometheus"
	"github.com/resonatehq/resonate/internal/aio"
	"github.com/resonatehq/resonate/internal/app/plugins/poll"
	"github.com/resonatehq/resonate/internal/metrics"
	"github.com/resonatehq/resonate/pkg/message"
	"github.com/resonatehq/resonate/verifharness/internal/lean"
	"net/http"
	"net/url"
	"time"
)

type M = map[string]any

type Step struct {
	Op     string `json:"op"` // connect | disconnect | send | read | shutdown
	Group  string `json:"group,omitempty"`
	Id     string `json:"id,omitempty"`
	Cap    int    `json:"cap,omitempty"`
	Conn   int    `json:"conn,omitempty"` // index of the connection object (= model handle)
	Notify bool   `json:"notify,omitempty"`
	Data   string `json:"data,omitempty"`
	Body   string `json:"body,omitempty"`
}

type Script struct {
	Max   int    `json:"max"`
	Steps []Step `json:"steps"`
}

var groups = []string{"g", "h", "G"}
var ids = []string{"a", "b", "", "A"}

func genData(r *rand.Rand, hostile bool) string {
	g, i := groups[r.Intn(len(groups))], ids[r.Intn(len(ids))]
	if r.Intn(8) == 0 {
		i = "zz" // nobody has this id
	}
	q := func(s string) string { b, _ := json.Marshal(s); return string(b) }
	switch x := r.Intn(40); {
	case x == 0:
		return `{"group":` + q(g) + `}`
	case x == 1:
		return `{"id":` + q(i) + `,"group":` + q(g) + `}`
	case x == 2:
		return `{"Group":` + q(g) + `,"id":` + q(i) + `}` // encoding/json matches field names case-insensitively
	case x == 3:
		return `{"group":"x","group":` + q(g) + `,"id":` + q(i) + `}` // the last duplicate wins
	case x == 4:
		return `{"group":` + q(g) + `,"id":` + q(i) + `,"extra":"e"}`
	case x == 5:
		return `{"group":1}`
	case x == 6:
		return `"g"`
	case x == 7:
		return `{"group":` + q(g)
	case x == 8:
		return `{}`
	case x == 9 && hostile:
		return `null`
	}
	return `{"group":` + q(g) + `,"id":` + q(i) + `}`
}

func genScript(r *rand.Rand, nsteps int, hostile bool) Script {
	s := Script{Max: []int{0, 1, 2, 3, 5, 100, 100, 100}[r.Intn(8)]}
	nconn := 0
	down := false
	for len(s.Steps) < nsteps {
		x := r.Intn(100)
		switch {
		case x < 28:
			s.Steps = append(s.Steps, Step{Op: "connect", Group: groups[r.Intn(len(groups))], Id: ids[r.Intn(len(ids))], Cap: []int{0, 1, 1, 2, 3}[r.Intn(5)]})
			nconn++
		case x < 40 && nconn > 0:
			s.Steps = append(s.Steps, Step{Op: "disconnect", Conn: r.Intn(nconn)})
		case x < 80 && !down:
			s.Steps = append(s.Steps, Step{Op: "send", Notify: r.Intn(3) == 0, Data: genData(r, hostile), Body: fmt.Sprintf("m%d", len(s.Steps))})
		case x < 97 && nconn > 0:
			s.Steps = append(s.Steps, Step{Op: "read", Conn: r.Intn(nconn)})
		case x >= 97 && !down && r.Intn(3) == 0:
			s.Steps = append(s.Steps, Step{Op: "shutdown"})
			down = true
		}
	}
	return s
}

// ---------------------------------------------------------------- child: run one script

type connState struct {
	c      *poll.VerifConn
	group  string
	id     string
	stream []string // bodies read so far
	closed bool     // observed closed
	asked  bool     // connect was issued
	openAt int      // last step after which the channel was verified open (-2 = never)
}

func runScript(drv *lean.Driver, sc Script) M {
	counts := map[string]int{}
	var conns []*connState
	// after the first model/implementation divergence the script goes on WITHOUT the model: only the direct monitors of
	// the property decide from then on (a divergence alone is not a violation of the property)
	var diverged M
	modelOn := true
	fail := func(i int, what, diff string, prop bool) M {
		f := M{"step": i, "what": what, "diff": diff, "property_violation": prop, "counts": counts}
		if prop {
			if diverged != nil {
				f["correspondence_divergence"] = diverged["what"]
			}
			return f
		}
		if diverged == nil {
			diverged = f
			modelOn = false
		}
		return nil
	}
	// closures seen right after a step, attributed to that step when the channel was verified open after the previous one
	sweep := func(i int, st Step) M {
		for k, cs := range conns {
			if cs.closed || cs.c.Buffered() != 0 {
				continue
			}
			_, closed := cs.c.DrainOne()
			if !closed {
				cs.openAt = i
				continue
			}
			cs.closed = true
			if cs.openAt != i-1 {
				continue // closed at an unknown earlier step (its buffer was not empty then)
			}
			allowed := false
			switch st.Op {
			case "connect":
				nw := conns[len(conns)-1]
				allowed = k == len(conns)-1 || (cs.group == nw.group && cs.id == nw.id)
			case "disconnect":
				allowed = k == st.Conn
			case "shutdown":
				allowed = true
			}
			if !allowed {
				return M{"step": i, "what": "a channel was closed by an operation that must not close it", "diff": fmt.Sprintf("step %d (%s) closed connection %d (%s/%s)", i, st.Op, k, cs.group, cs.id), "property_violation": true, "counts": counts}
			}
		}
		return nil
	}

	if _, _, err := drv.Call(M{"op": "poll_init", "max": sc.Max}); err != nil {
		return M{"harness": err.Error()}
	}
	loop := poll.NewVerifLoop(sc.Max)
	dummy := loop.NewConn("\x00barrier", "\x00", 1)
	barrier := func() { loop.Disconnect(dummy) }
	modelState := func() (M, error) {
		rep, _, err := drv.Call(M{"op": "poll_state"})
		return rep, err
	}
	// compare registry size and per-connection buffer levels with the model
	compare := func(i int) M {
		ms, err := modelState()
		if err != nil {
			return M{"harness": err.Error()}
		}
		if n, _ := ms["len"].(json.Number); n.String() != fmt.Sprint(loop.Len()) {
			return fail(i, "registry size differs", fmt.Sprintf("impl=%d model=%v", loop.Len(), ms["len"]), false)
		}
		mc, _ := ms["conns"].([]any)
		want := map[int]int{}
		for _, x := range mc {
			m := x.(map[string]any)
			h, _ := m["handle"].(json.Number).Int64()
			want[int(h)] = len(m["buf"].([]any))
		}
		for h, n := range want {
			if h >= len(conns) || conns[h].c.Buffered() != n {
				return fail(i, "buffer level differs", fmt.Sprintf("conn %d: impl=%d model=%d", h, conns[h].c.Buffered(), n), false)
			}
		}
		return nil
	}
	// drain the connections the model says were closed by this step: they must be closed
	closedBy := func(i int, rep M) M {
		l, _ := rep["closed"].([]any)
		for _, x := range l {
			h64, _ := x.(json.Number).Int64()
			h := int(h64)
			if h >= len(conns) {
				return fail(i, "model closed an unknown connection", fmt.Sprint(h), false)
			}
			bodies, closed := conns[h].c.Drain()
			for _, b := range bodies {
				conns[h].stream = append(conns[h].stream, string(b))
			}
			if !closed {
				return fail(i, "model says the connection was closed, the implementation left it open", fmt.Sprintf("conn %d", h), false)
			}
			conns[h].closed = true
			counts["closed"]++
		}
		return nil
	}
	call := func(req M) (M, bool) {
		if !modelOn {
			return nil, true
		}
		rep, _, err := drv.Call(req)
		if err != nil {
			diverged = M{"harness": err.Error()}
			modelOn = false
			return nil, true
		}
		return rep, false
	}
	for i, st := range sc.Steps {
		switch st.Op {
		case "connect":
			cs := &connState{c: loop.NewConn(st.Group, st.Id, st.Cap), group: st.Group, id: st.Id, asked: true, openAt: i - 1}
			conns = append(conns, cs)
			loop.Connect(cs.c)
			barrier()
			// direct C18 check: a reconnect with the same id replaces the older connection (whatever the limit says:
			// replacing does not add a connection) - an older open connection of that group and id is closed by this step
			for k, old := range conns[:len(conns)-1] {
				if old.group != st.Group || old.id != st.Id || old.closed || old.c.Buffered() != 0 || old.openAt != i-1 {
					continue
				}
				if _, closed := old.c.DrainOne(); !closed {
					return fail(i, "a reconnect with the same id did not replace the older connection", fmt.Sprintf("connection %d (%s/%s) is still open after connection %d with the same group and id connected (limit %d, registry size %d)", k, old.group, old.id, len(conns)-1, sc.Max, loop.Len()), true)
				}
				old.closed = true
				counts["replaced"]++
			}
			if rep, off := call(M{"op": "poll_connect", "group": st.Group, "id": st.Id, "cap": st.Cap}); !off {
				if h, _ := rep["handle"].(json.Number).Int64(); int(h) != len(conns)-1 {
					return M{"harness": fmt.Sprintf("handle numbering: model %d harness %d", h, len(conns)-1)}
				}
				_ = closedBy(i, rep)
				if rep["registered"] == true {
					counts["registered"]++
				} else {
					counts["turned_away"]++
				}
			}
		case "disconnect":
			cs := conns[st.Conn]
			loop.Disconnect(cs.c)
			barrier()
			if rep, off := call(M{"op": "poll_disconnect", "handle": st.Conn, "group": cs.group, "id": cs.id}); !off {
				_ = closedBy(i, rep)
			}
		case "shutdown":
			loop.CloseSend()
			barrier()
			if rep, off := call(M{"op": "poll_shutdown"}); !off {
				_ = closedBy(i, rep)
			}
			counts["shutdown"]++
		case "read":
			cs := conns[st.Conn]
			if !cs.closed && cs.c.Buffered() > 0 {
				// one body off the channel, as the HTTP handler does
				bodies, _ := cs.c.DrainOne()
				for _, b := range bodies {
					cs.stream = append(cs.stream, string(b))
				}
				counts["read"]++
			}
			if !cs.closed {
				call(M{"op": "poll_read", "handle": st.Conn})
			}
		case "send":
			before := make([]int, len(conns))
			for k, cs := range conns {
				before[k] = cs.c.Buffered()
			}
			var done []any
			var typ message.Type = message.Invoke
			if st.Notify {
				typ = message.Notify
			}
			loop.Send(&aio.Message{Type: typ, Data: []byte(st.Data), Body: []byte(st.Body), Done: func(ok bool, err error) { done = append(done, ok) }})
			barrier()
			if len(done) != 1 {
				return fail(i, "Done was not called exactly once", fmt.Sprint(done), true)
			}
			success := done[0] == true
			got := -1
			for k, cs := range conns {
				if !cs.closed && cs.c.Buffered() != before[k] {
					if got >= 0 || cs.c.Buffered() != before[k]+1 {
						return fail(i, "a send changed more than one stream (or one stream by more than one body)", fmt.Sprintf("conns %d and %d", got, k), true)
					}
					got = k
				}
			}
			// direct C18 checks on the implementation's observation
			if success != (got >= 0) {
				return fail(i, "reported delivered and handed to a listener disagree", fmt.Sprintf("Done(success=%v), stream that grew: %d", success, got), true)
			}
			var addr *struct {
				Group string `json:"group"`
				Id    string `json:"id"`
			}
			if err := json.Unmarshal([]byte(st.Data), &addr); got >= 0 && (err != nil || addr == nil) {
				return fail(i, "a message with an undecodable address was handed to a listener", st.Data, true)
			} else if got >= 0 {
				cs := conns[got]
				if cs.group != addr.Group {
					return fail(i, "message handed to a listener of another group", fmt.Sprintf("addressed %q, listener %d is in %q", addr.Group, got, cs.group), true)
				}
				if st.Notify && cs.id != addr.Id {
					return fail(i, "notification handed to a listener with another id", fmt.Sprintf("addressed %q/%q, listener %d has id %q", addr.Group, addr.Id, got, cs.id), true)
				}
			}
			req := M{"op": "poll_send", "notify": st.Notify, "data": st.Data, "body": st.Body}
			if got >= 0 {
				req["observed"] = got
			}
			if rep, off := call(req); !off {
				if rep["ok"] != true {
					fail(i, "no choice of the random pick lets the model produce the implementation's outcome", fmt.Sprintf("impl: success=%v listener=%d; model can: %v", success, got, rep["possible"]), false)
				} else {
					counts["send:"+strings.Split(fmt.Sprint(rep["outcome"]), ":")[0]]++
				}
			}
		}
		if modelOn {
			if f := compare(i); f != nil {
				return f
			}
		}
		if f := sweep(i, st); f != nil {
			if diverged != nil {
				f["correspondence_divergence"] = diverged["what"]
			}
			return f
		}
	}
	if diverged != nil {
		loop.Stop()
		return diverged
	}
	// end of script: stop the loop the way Poll.Stop does, then every stream equals the model's log for that channel,
	// and exactly the channels the model closed are closed
	ms, err := modelState()
	if err != nil {
		return M{"harness": err.Error()}
	}
	loop.Stop()
	closedWant := map[int]bool{}
	for _, x := range ms["closed"].([]any) {
		h, _ := x.(json.Number).Int64()
		closedWant[int(h)] = true
	}
	logWant := map[int][]string{}
	for _, x := range ms["log"].([]any) {
		p := x.([]any)
		h, _ := p[0].(json.Number).Int64()
		logWant[int(h)] = append(logWant[int(h)], p[1].(string))
	}
	for h, cs := range conns {
		bodies, closed := cs.c.Drain()
		for _, b := range bodies {
			cs.stream = append(cs.stream, string(b))
		}
		closed = closed || cs.closed
		if closed != closedWant[h] {
			fail(len(sc.Steps), "closed / open state of a connection differs at the end", fmt.Sprintf("conn %d: impl closed=%v model closed=%v", h, closed, closedWant[h]), false)
			return diverged
		}
		if !reflect.DeepEqual(append([]string{}, cs.stream...), append([]string{}, logWant[h]...)) {
			return fail(len(sc.Steps), "bytes received on a client stream differ from the accepted hand-offs", fmt.Sprintf("conn %d: impl=%v model=%v", h, cs.stream, logWant[h]), true)
		}
	}
	return M{"ok": true, "counts": counts}
}

// ---------------------------------------------------------------- parent

// busyPhase: the worker's loop takes connect / disconnect events with priority at the top of every iteration, also
// those that arrived while it was busy in Process.  A reconnect with the same id replaces the older connection; the old
// handler's disconnect arrives late.  Whichever branch of the loop takes it, it must leave the replacement alone: the
// replacement stays registered, open, and receives the next message addressed to the id.  The disconnect is issued
// while a burst of messages to another connection keeps the worker busy, so both branches are exercised over the
// trials; on a correct plugin the outcome does not depend on which one was.
func busyPhase(trials int) (M, int) {
	loop := poll.NewVerifLoop(16)
	defer loop.Stop()
	dummy := loop.NewConn("\x00barrier", "\x00", 1)
	barrier := func() { loop.Disconnect(dummy) }
	other := loop.NewConn("g2", "z", 64)
	loop.Connect(other)
	addr := func(g, id string) []byte { return []byte(fmt.Sprintf(`{"group":%q,"id":%q}`, g, id)) }
	checked := 0
	for i := 0; i < trials; i++ {
		old := loop.NewConn("g", "a", 4)
		loop.Connect(old)
		neu := loop.NewConn("g", "a", 4)
		loop.Connect(neu) // same id: replaces (and closes) the older connection
		started, done := make(chan struct{}), make(chan struct{})
		go func() {
			for j := 0; j < 6; j++ {
				loop.Send(&aio.Message{Type: message.Invoke, Data: addr("g2", "z"), Body: []byte("x"), Done: func(bool, error) {}})
				if j == 0 {
					close(started)
				}
			}
			close(done)
		}()
		<-started
		loop.Disconnect(old) // the old handler notices its closed channel and unregisters — late
		<-done
		barrier()
		other.Drain()
		var res []bool
		loop.Send(&aio.Message{Type: message.Invoke, Data: addr("g", "a"), Body: []byte(fmt.Sprintf("m%d", i)), Done: func(ok bool, err error) { res = append(res, ok) }})
		barrier()
		bodies, closed := neu.Drain()
		if closed || len(res) != 1 || !res[0] || len(bodies) != 1 || string(bodies[0]) != fmt.Sprintf("m%d", i) {
			return M{"what": "a late disconnect of a replaced connection affected its replacement", "property_violation": true,
				"diff": fmt.Sprintf("trial %d: connection g/a was replaced by a reconnect with the same id; after the old connection's disconnect (issued while the worker was busy) the replacement is closed=%v, the next message for g/a was reported %v and %d bodies reached the replacement", i, closed, res, len(bodies))}, checked
		}
		checked++
		loop.Disconnect(neu)
		barrier()
	}
	return nil, checked
}

// httpPhase: the REAL plugin (poll.New + Start: HTTP server, handler, worker) with real HTTP clients.  A listener that
// connects as /<group>/<id> — group and id percent-encoded on the wire where the characters need it — is the listener
// addressed by {"group": group, "id": id}: an invocation addressed to it arrives on ITS stream (a second listener of the
// group is connected as a decoy) and is reported delivered, and a notification reaches exactly it.
func httpPhase() (M, int) {
	p, err := poll.New(nil, metrics.New(prometheus.NewRegistry()), &poll.Config{Size: 100, BufferSize: 100, MaxConnections: 100, Addr: "127.0.0.1:0", Timeout: 2 * time.Second})
	if err != nil {
		return M{"harness": err.Error()}, 0
	}
	errs := make(chan error, 4)
	if err := p.Start(errs); err != nil {
		return M{"harness": err.Error()}, 0
	}
	defer func() { _ = p.Stop() }()
	checked := 0
	type stream struct {
		lines chan string
		close func()
	}
	connect := func(group, id string) (*stream, error) {
		u := "http://" + p.Addr() + "/" + url.PathEscape(group) + "/" + url.PathEscape(id)
		ctx, cancel := context.WithCancel(context.Background())
		req, _ := http.NewRequestWithContext(ctx, "GET", u, nil)
		res, err := http.DefaultClient.Do(req)
		if err != nil {
			cancel()
			return nil, err
		}
		if res.StatusCode != 200 {
			cancel()
			return nil, fmt.Errorf("status %d", res.StatusCode)
		}
		st := &stream{lines: make(chan string, 64), close: func() { cancel(); res.Body.Close() }}
		go func() {
			sc := bufio.NewScanner(res.Body)
			for sc.Scan() {
				if l := sc.Text(); strings.HasPrefix(l, "data: ") {
					st.lines <- strings.TrimPrefix(l, "data: ")
				}
			}
			close(st.lines)
		}()
		return st, nil
	}
	recv := func(st *stream, d time.Duration) (string, bool) {
		select {
		case l, ok := <-st.lines:
			return l, ok
		case <-time.After(d):
			return "", false
		}
	}
	for i, id := range []string{"plain", "worker 1", "100%", "a/b", "caf\u00e9", "x+y", "q?r#s"} {
		group := []string{"g", "g 2", "g"}[i%3]
		target, err := connect(group, id)
		if err != nil {
			return M{"harness": "connect: " + err.Error()}, checked
		}
		decoy, err := connect(group, "decoy")
		if err != nil {
			target.close()
			return M{"harness": "connect: " + err.Error()}, checked
		}
		time.Sleep(30 * time.Millisecond) // both registrations have reached the worker
		addr, _ := json.Marshal(M{"group": group, "id": id})
		for _, typ := range []message.Type{message.Invoke, message.Notify} {
			body := fmt.Sprintf("%s-%d", typ, i)
			done := make(chan bool, 1)
			if !p.Enqueue(&aio.Message{Type: typ, Data: addr, Body: []byte(body), Done: func(ok bool, err error) { done <- ok }}) {
				return M{"harness": "the plugin queue is full"}, checked
			}
			ok := false
			select {
			case ok = <-done:
			case <-time.After(3 * time.Second):
			}
			got, arrived := recv(target, 800*time.Millisecond)
			stray, strayed := recv(decoy, 50*time.Millisecond)
			if !ok || !arrived || got != body || strayed {
				target.close()
				decoy.close()
				return M{"what": "a message addressed to a connected listener did not reach that listener", "property_violation": true,
					"diff": fmt.Sprintf("listener connected as /%s/%s (group %q, id %q) with a second listener %q in the group; a %s message addressed to {group %q, id %q} was reported delivered=%v, reached the addressed stream: %v (%q), reached the other stream: %v (%q)", url.PathEscape(group), url.PathEscape(id), group, id, "decoy", typ, group, id, ok, arrived, got, strayed, stray)}, checked
			}
			checked++
		}
		target.close()
		decoy.close()
		time.Sleep(30 * time.Millisecond)
	}
	return nil, checked
}

func main() {
	seed := flag.Int64("seed", 1, "")
	nscripts := flag.Int("scripts", 50, "")
	nsteps := flag.Int("steps", 40, "")
	driver := flag.String("driver", "", "")
	work := flag.String("work", "", "")
	out := flag.String("out", "", "")
	replay := flag.String("replay", "", "")
	corpus := flag.String("corpus", "", "")
	child := flag.String("child", "", "run one script file and print the result (internal)")
	hostile := flag.Bool("hostile", false, "include the JSON literal null as an address")
	busy := flag.Int("busy", 40, "trials of the busy-worker phase (a late disconnect of a replaced connection while the worker is busy)")
	flag.Parse()
	if *child != "" {
		b, err := os.ReadFile(*child)
		if err != nil {
			panic(err)
		}
		var sc Script
		if err := json.Unmarshal(b, &sc); err != nil {
			panic(err)
		}
		drv, err := lean.Start(*driver)
		if err != nil {
			panic(err)
		}
		res := runScript(drv, sc)
		drv.Close()
		ob, _ := json.Marshal(res)
		fmt.Println("RESULT " + string(ob))
		return
	}
	os.MkdirAll(*work, 0o755)
	self, _ := os.Executable()
	runChild := func(sc Script) M {
		f := filepath.Join(*work, "poll-script.json")
		b, _ := json.Marshal(sc)
		os.WriteFile(f, b, 0o644)
		cmd := exec.Command(self, "-child", f, "-driver", *driver)
		outb, err := cmd.CombinedOutput()
		for _, line := range strings.Split(string(outb), "\n") {
			if strings.HasPrefix(line, "RESULT ") {
				var res M
				dec := json.NewDecoder(strings.NewReader(line[7:]))
				dec.UseNumber()
				if dec.Decode(&res) == nil {
					return res
				}
			}
		}
		tail := string(outb)
		if len(tail) > 1500 {
			tail = tail[:1500]
		}
		return M{"what": "the poll transport worker crashed the process", "diff": fmt.Sprintf("%v: %s", err, tail), "property_violation": true, "crashed": true}
	}
	failsSame := func(sc Script, crashed bool) bool {
		res := runChild(sc)
		return res["ok"] != true && res["harness"] == nil && (res["crashed"] == true) == crashed
	}
	shrink := func(sc Script, crashed bool) Script {
		// connection indices refer to the k-th connect: removing a connect renumbers, so connects are kept and only
		// the other steps are removed
		for chunk := len(sc.Steps) / 2; chunk >= 1; chunk /= 2 {
			for i := len(sc.Steps) - chunk; i >= 0; i -= chunk {
				var cand []Step
				removable := true
				for k, st := range sc.Steps {
					if k >= i && k < i+chunk {
						if st.Op == "connect" {
							removable = false
						}
						continue
					}
					cand = append(cand, st)
				}
				if !removable {
					continue
				}
				c2 := Script{Max: sc.Max, Steps: cand}
				if failsSame(c2, crashed) {
					sc = c2
				}
			}
		}
		return sc
	}
	summary := M{"seed": *seed, "disagreements": 0}
	totals := map[string]int{}
	record := func(sc Script, res M, origin string) {
		small := shrink(sc, res["crashed"] == true)
		res2 := runChild(small)
		if res2["ok"] == true {
			small, res2 = sc, res
		}
		rep := M{"harness": "polldiff", "origin": origin, "script": small, "divergence": res2}
		b, _ := json.MarshalIndent(rep, "", " ")
		path := filepath.Join(*work, "polldiff-divergence.json")
		os.WriteFile(path, b, 0o644)
		summary["disagreements"] = 1
		summary["divergence_file"] = path
		summary["divergence"] = res2["what"]
		summary["diff"] = fmt.Sprint(res2["diff"])
		summary["property_violation"] = res2["property_violation"] == true
	}
	files := []string{}
	if *replay != "" {
		files = append(files, *replay)
	}
	if *corpus != "" {
		fs, _ := filepath.Glob(filepath.Join(*corpus, "*.json"))
		sort.Strings(fs)
		files = append(files, fs...)
	}
	ncorpus := 0
	for _, f := range files {
		b, err := os.ReadFile(f)
		if err != nil {
			panic(err)
		}
		var rec struct {
			Script Script `json:"script"`
		}
		if err := json.Unmarshal(b, &rec); err != nil {
			panic(err)
		}
		ncorpus++
		if res := runChild(rec.Script); res["ok"] != true {
			record(rec.Script, res, f)
			break
		}
	}
	summary["corpus_scripts"] = ncorpus
	nstepsTotal := 0
	var samples []any
	if *replay == "" && summary["disagreements"] == 0 {
		for s := 0; s < *nscripts; s++ {
			r := rand.New(rand.NewSource(*seed*1000003 + int64(s)))
			sc := genScript(r, *nsteps, *hostile)
			nstepsTotal += len(sc.Steps)
			if s == 0 {
				samples = []any{M{"max": sc.Max, "steps": sc.Steps[:min(6, len(sc.Steps))]}}
			}
			res := runChild(sc)
			if c, ok := res["counts"].(map[string]any); ok {
				for k, v := range c {
					n, _ := v.(json.Number).Int64()
					totals[k] += int(n)
				}
			}
			if res["ok"] != true {
				record(sc, res, fmt.Sprintf("seed=%d script=%d", *seed, s))
				break
			}
		}
	}
	if *replay == "" && summary["disagreements"] == 0 {
		info, n := busyPhase(*busy)
		totals["busy_worker_trials"] = n
		if info != nil {
			path := filepath.Join(*work, "polldiff-divergence.json")
			info["harness"] = nil
			delete(info, "harness")
			b, _ := json.MarshalIndent(M{"harness": "polldiff", "phase": "busy-worker", "result": info, "origin": fmt.Sprintf("busy-worker phase, %d trials", *busy)}, "", " ")
			os.WriteFile(path, b, 0o644)
			summary["disagreements"] = 1
			summary["divergence_file"] = path
			summary["divergence"] = info["what"]
			summary["diff"] = fmt.Sprint(info["diff"])
			summary["property_violation"] = true
		}
	}
	if *replay == "" && summary["disagreements"] == 0 {
		info, n := httpPhase()
		totals["http_listener_messages"] = n
		if info != nil && info["harness"] != nil {
			summary["disagreements"] = 1
			summary["divergence"] = "harness: " + fmt.Sprint(info["harness"])
		} else if info != nil {
			path := filepath.Join(*work, "polldiff-divergence.json")
			b, _ := json.MarshalIndent(M{"harness": "polldiff", "phase": "http", "result": info, "origin": "http phase"}, "", " ")
			os.WriteFile(path, b, 0o644)
			summary["disagreements"] = 1
			summary["divergence_file"] = path
			summary["divergence"] = info["what"]
			summary["diff"] = fmt.Sprint(info["diff"])
			summary["property_violation"] = true
		}
	}
	totals["nontrivial"] = totals["send:delivered"] + totals["closed"] + totals["turned_away"]
	summary["scripts"] = *nscripts
	summary["cases"] = nstepsTotal
	summary["counts"] = totals
	summary["samples"] = samples
	b, _ := json.MarshalIndent(summary, "", " ")
	if *out != "" {
		os.WriteFile(*out, b, 0o644)
	} else {
		fmt.Println(string(b))
	}
	if summary["disagreements"] != 0 {
		os.Exit(3)
	}
}
