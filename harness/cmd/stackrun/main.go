// stackrun — the REAL kernel loop (system.Loop on its own goroutine), the REAL api and aio queues and the REAL store /
// router / sender subsystems on their worker goroutines, with tiny queue, batch and pool sizes, driven by several
// concurrent client goroutines, with shutdown requested at a random moment.  No model comparison (goroutine timing is
// not reproducible): the C12 monitor alone decides — every request handed to the server gets exactly one response,
// the kernel never stalls, and shutdown completes with every accepted request answered.
//
// Each round runs in a child process with a watchdog, because the failure mode of interest is a hang.
package main

import (
	"database/sql"
	"encoding/json"
	"flag"
	"fmt"
	"io"
	"log/slog"
	"math/rand"
	"os"
	"os/exec"
	"path/filepath"
	"runtime"
	"strings"
	"sync"
	"sync/atomic"
	"time"

	"github.com/prometheus/client_golang/prometheus"
	"github.com/resonatehq/resonate/internal/aio"
	"github.com/resonatehq/resonate/internal/api"
	"github.com/resonatehq/resonate/internal/app/coroutines"
	"github.com/resonatehq/resonate/internal/app/subsystems/aio/router"
	"github.com/resonatehq/resonate/internal/app/subsystems/aio/sender"
	"github.com/resonatehq/resonate/internal/app/subsystems/aio/store/sqlite"
	"github.com/resonatehq/resonate/internal/kernel/bus"
	"github.com/resonatehq/resonate/internal/kernel/system"
	"github.com/resonatehq/resonate/internal/kernel/t_api"
	"github.com/resonatehq/resonate/internal/metrics"
	"github.com/resonatehq/resonate/verifharness/internal/gen"

	iaio "github.com/resonatehq/resonate/internal/aio"
)

type M = map[string]any

type Round struct {
	Seed        int64 `json:"seed"`
	ApiSize     int   `json:"apiSize"`
	CqSize      int   `json:"cqSize"`
	StoreSize   int   `json:"storeSize"`
	StoreBatch  int   `json:"storeBatch"`
	RouterSize  int   `json:"routerSize"`
	SenderSize  int   `json:"senderSize"`
	Pool        int   `json:"pool"`
	SubBatch    int   `json:"subBatch"`
	CplBatch    int   `json:"cplBatch"`
	Clients     int   `json:"clients"`
	PerClient   int   `json:"perClient"`
	ShutdownAt  int   `json:"shutdownAt"` // after this many submissions in total (-1 = only at the end)
	TransportOk bool  `json:"transportOk"`
	// Idle: a quiet server (long signal timeout, generous queues); each request arrives while the loop sleeps and
	// shutdown is requested right behind the last one - accepted requests must still be answered
	Idle bool `json:"idle,omitempty"`
	// Refuse: the transports refuse this many hand-offs (queue full) before accepting: a transient failure delays dispatch
	// but never prevents it (C11)
	Refuse int `json:"refuse,omitempty"`
	// Saturated: see drawRound; every third request is one its coroutine answers within the tick that admits it (a
	// callback on its own root), so that ticks occur after which no coroutine is in flight while the queue still holds requests
	Saturated bool `json:"saturated,omitempty"`
	// Storm: many clients submit cheap reads in a tight loop while shutdown is requested from a goroutine of its own at an
	// arbitrary moment: requests caught inside EnqueueSQE at that instant are answered exactly once like all others
	Storm bool `json:"storm,omitempty"`
}

type okPlugin struct {
	typ       string
	ok        bool
	refuse    *int32 // > 0: this many further hand-offs are refused (transport queue full) before the transport accepts
	delivered *int64
}

func (p *okPlugin) String() string           { return "stub:" + p.typ }
func (p *okPlugin) Type() string             { return p.typ }
func (p *okPlugin) Start(chan<- error) error { return nil }
func (p *okPlugin) Stop() error              { return nil }
func (p *okPlugin) Enqueue(m *iaio.Message) bool {
	if p.refuse != nil && atomic.AddInt32(p.refuse, -1) >= 0 {
		return false // transient: the transport's queue is full
	}
	if p.delivered != nil {
		atomic.AddInt64(p.delivered, 1)
	}
	go m.Done(p.ok, nil) // transports answer from their own goroutines
	return true
}

func drawRound(r *rand.Rand) Round {
	small := func(xs ...int) int { return xs[r.Intn(len(xs))] }
	rd := Round{Seed: r.Int63(), ApiSize: small(1, 1, 2, 3, 10), CqSize: small(1, 1, 2, 3, 10), StoreSize: small(1, 1, 2, 5), StoreBatch: small(1, 2, 5),
		RouterSize: small(1, 1, 2, 5), SenderSize: small(1, 1, 2, 5), Pool: small(1, 2, 3, 10), SubBatch: small(1, 2, 3, 10), CplBatch: small(1, 2, 3, 10),
		Clients: small(1, 2, 4, 8), PerClient: small(3, 6, 12), ShutdownAt: -1, TransportOk: r.Intn(4) != 0}
	if r.Intn(2) == 0 {
		rd.ShutdownAt = r.Intn(rd.Clients*rd.PerClient + 1)
	}
	if r.Intn(3) == 0 {
		rd.Refuse = 1 + r.Intn(4)
	}
	if r.Intn(5) == 0 {
		// saturated shutdown: a store queue of one, one request per tick, a burst that fills the api queue, shutdown right
		// behind it - every accepted request is still answered before the loop stops
		rd.ApiSize, rd.SubBatch, rd.StoreSize, rd.Pool, rd.CqSize = 10, 1, 1, 10, 10
		rd.Clients, rd.PerClient = small(2, 4), small(6, 12)
		rd.ShutdownAt = rd.Clients * rd.PerClient
		rd.Saturated = true
	} else if r.Intn(6) == 0 {
		rd.Storm = true
		rd.ApiSize, rd.CqSize, rd.Pool, rd.SubBatch, rd.CplBatch, rd.StoreSize, rd.StoreBatch = 100, 100, 100, 100, 100, 100, 100
		rd.Clients, rd.PerClient = 12, 1500
		rd.ApiSize = rd.Clients * rd.PerClient // room for every request: the submission always succeeds, whatever the moment
		rd.ShutdownAt = rd.Clients*rd.PerClient/4 + r.Intn(rd.Clients*rd.PerClient/2)
		rd.Refuse = 0
	} else if r.Intn(3) == 0 {
		rd.Idle = true
		rd.ApiSize, rd.CqSize, rd.Pool, rd.SubBatch, rd.CplBatch = 10, 10, 10, 10, 10
		rd.Clients, rd.PerClient = 1, small(1, 1, 2, 3, 8)
		rd.ShutdownAt = rd.Clients * rd.PerClient
	}
	return rd
}

func runRound(rd Round, dir string) M {
	slog.SetDefault(slog.New(slog.NewTextHandler(io.Discard, nil)))
	reg := metrics.New(prometheus.NewRegistry())
	path := filepath.Join(dir, fmt.Sprintf("stack-%d.db", rd.Seed))
	os.Remove(path)
	defer os.Remove(path)
	a := aio.New(rd.CqSize, reg)
	st, err := sqlite.New(a, reg, &sqlite.Config{Size: rd.StoreSize, BatchSize: rd.StoreBatch, Path: path, TxTimeout: 10 * time.Second})
	if err != nil {
		return M{"harness": err.Error()}
	}
	rt, err := router.New(a, reg, &router.Config{Size: rd.RouterSize, Workers: 1})
	if err != nil {
		return M{"harness": err.Error()}
	}
	sn, err := sender.New(a, reg, &sender.Config{Size: rd.SenderSize})
	if err != nil {
		return M{"harness": err.Error()}
	}
	refuse := int32(rd.Refuse)
	var delivered int64
	sn.VerifWorker().AddPlugin(&okPlugin{"poll", rd.TransportOk, &refuse, &delivered})
	sn.VerifWorker().AddPlugin(&okPlugin{"http", rd.TransportOk, &refuse, &delivered})
	a.AddSubsystem(st)
	a.AddSubsystem(rt)
	a.AddSubsystem(sn)
	ap := api.New(rd.ApiSize, reg)
	sc := &system.Config{Url: "http://r", CoroutineMaxSize: rd.Pool, SubmissionBatchSize: rd.SubBatch, CompletionBatchSize: rd.CplBatch,
		PromiseBatchSize: 2, ScheduleBatchSize: 2, TaskBatchSize: 2, TaskEnqueueDelay: 5 * time.Millisecond, SignalTimeout: 2 * time.Millisecond}
	if rd.Idle {
		sc.SignalTimeout = 400 * time.Millisecond
	}
	s := system.New(ap, a, sc, reg)
	s.AddOnRequest(t_api.ReadPromise, coroutines.ReadPromise)
	s.AddOnRequest(t_api.SearchPromises, coroutines.SearchPromises)
	s.AddOnRequest(t_api.CreatePromise, coroutines.CreatePromise)
	s.AddOnRequest(t_api.CreatePromiseAndTask, coroutines.CreatePromiseAndTask)
	s.AddOnRequest(t_api.CreateCallback, coroutines.CreateCallback)
	s.AddOnRequest(t_api.CreateSubscription, coroutines.CreateSubscription)
	s.AddOnRequest(t_api.CompletePromise, coroutines.CompletePromise)
	s.AddOnRequest(t_api.ClaimTask, coroutines.ClaimTask)
	s.AddOnRequest(t_api.CompleteTask, coroutines.CompleteTask)
	s.AddOnRequest(t_api.HeartbeatTasks, coroutines.HeartbeatTasks)
	s.AddOnRequest(t_api.AcquireLock, coroutines.AcquireLock)
	s.AddOnRequest(t_api.HeartbeatLocks, coroutines.HeartbeatLocks)
	s.AddOnRequest(t_api.ReleaseLock, coroutines.ReleaseLock)
	s.AddBackground("TimeoutPromises", coroutines.TimeoutPromises)
	s.AddBackground("SchedulePromises", coroutines.SchedulePromises)
	s.AddBackground("TimeoutLocks", coroutines.TimeoutLocks)
	s.AddBackground("EnqueueTasks", coroutines.EnqueueTasks)
	s.AddBackground("TimeoutTasks", coroutines.TimeoutTasks)
	if err := a.Start(); err != nil {
		return M{"harness": err.Error()}
	}
	loopDone := make(chan error, 1)
	go func() { loopDone <- s.Loop() }()

	kinds := []t_api.Kind{t_api.ReadPromise, t_api.SearchPromises, t_api.CreatePromise, t_api.CreatePromise, t_api.CreatePromiseAndTask, t_api.CompletePromise,
		t_api.CreateCallback, t_api.CreateSubscription, t_api.ClaimTask, t_api.CompleteTask, t_api.HeartbeatTasks, t_api.AcquireLock, t_api.ReleaseLock, t_api.HeartbeatLocks}
	var mu sync.Mutex
	resp := map[string]int{}
	status := map[string]int{}
	submitted := 0
	clockBad := ""
	total := rd.Clients * rd.PerClient
	shutdownCh := make(chan struct{})
	var shutOnce sync.Once
	var shutdownDone <-chan interface{}
	doShutdown := func() {
		shutOnce.Do(func() {
			shutdownDone = s.Shutdown()
			close(shutdownCh)
		})
	}
	if rd.Storm {
		kinds = []t_api.Kind{t_api.ReadPromise}
		go func() {
			for {
				mu.Lock()
				n := submitted
				mu.Unlock()
				if n >= rd.ShutdownAt {
					doShutdown()
					return
				}
				runtime.Gosched()
			}
		}()
	}
	var wg sync.WaitGroup
	for c := 0; c < rd.Clients; c++ {
		wg.Add(1)
		go func(c int) {
			defer wg.Done()
			g := gen.New(rd.Seed + int64(c)*7919)
			for k := 0; k < rd.PerClient; k++ {
				tid := fmt.Sprintf("c%d.%d", c, k)
				rq := g.Request(tid, time.Now().UnixMilli(), kinds, nil, 50)
				if rd.Saturated && k%3 != 0 {
					rq = &t_api.Request{Kind: t_api.CreateCallback, Tags: rq.Tags, CreateCallback: &t_api.CreateCallbackRequest{PromiseId: "imm", RootPromiseId: "imm", Timeout: time.Now().UnixMilli() + 1000, Recv: []byte(`"default"`)}}
				}
				if rd.Idle {
					time.Sleep(time.Duration(10+g.R.Intn(15)) * time.Millisecond) // let the loop go to sleep
					if k == rd.PerClient-1 {
						// the last request arrives long after the loop's last wake-up (but before its timer is due) and shutdown is
						// requested right behind it: whichever signal wakes the loop, the request is handled at the clock of THAT moment
						time.Sleep(time.Duration(150+g.R.Intn(200)) * time.Millisecond)
						rq = &t_api.Request{Kind: t_api.CreatePromise, Tags: rq.Tags, CreatePromise: &t_api.CreatePromiseRequest{Id: "last." + tid, Timeout: time.Now().UnixMilli() + 60000, Tags: map[string]string{}}}
					}
				}
				mu.Lock()
				submitted++
				n := submitted
				mu.Unlock()
				submitWall := time.Now().UnixMilli()
				ap.EnqueueSQE(&bus.SQE[t_api.Request, t_api.Response]{Id: tid, Submission: rq, Callback: func(res *t_api.Response, err error) {
					mu.Lock()
					// the kernel clock: a request is handled at an instant between its submission and its response
					if err == nil && res != nil && res.Kind == t_api.CreatePromise && res.CreatePromise != nil && res.CreatePromise.Status == t_api.StatusCreated &&
						res.CreatePromise.Promise != nil && res.CreatePromise.Promise.CreatedOn != nil {
						if co := *res.CreatePromise.Promise.CreatedOn; co < submitWall-60 || co > time.Now().UnixMilli()+60 {
							clockBad = fmt.Sprintf("promise %s was created by request %s submitted at %d and answered at %d, but carries creation time %d", res.CreatePromise.Promise.Id, tid, submitWall, time.Now().UnixMilli(), co)
						}
					}
					resp[tid]++
					if err != nil {
						var e *t_api.Error
						if ee, ok := err.(*t_api.Error); ok {
							e = ee
							status[fmt.Sprint(int(e.Code()))]++
						} else {
							status["error"]++
						}
					} else {
						status["ok"]++
					}
					mu.Unlock()
				}})
				if rd.ShutdownAt >= 0 && n >= rd.ShutdownAt && !rd.Storm {
					doShutdown()
				}
				if !rd.Storm && g.R.Intn(3) == 0 {
					time.Sleep(time.Duration(g.R.Intn(300)) * time.Microsecond)
				}
			}
		}(c)
	}
	wg.Wait()
	// every request must be answered; the kernel must keep moving
	deadline := time.Now().Add(20 * time.Second)
	answered := func() (int, string) {
		mu.Lock()
		defer mu.Unlock()
		n := 0
		for c := 0; c < rd.Clients; c++ {
			for k := 0; k < rd.PerClient; k++ {
				tid := fmt.Sprintf("c%d.%d", c, k)
				switch resp[tid] {
				case 0:
				case 1:
					n++
				default:
					return n, "request " + tid + " was answered " + fmt.Sprint(resp[tid]) + " times"
				}
			}
		}
		return n, ""
	}
	for {
		n, bad := answered()
		if bad != "" {
			return M{"what": bad, "property_violation": true, "status": status}
		}
		mu.Lock()
		cb := clockBad
		mu.Unlock()
		if cb != "" {
			return M{"what": "the kernel clock is not between submission and response: " + cb, "property_violation": true, "status": status}
		}
		if n == total {
			break
		}
		if time.Now().After(deadline) {
			return M{"what": fmt.Sprintf("%d of %d requests were never answered although the server was left running for 20 s (kernel stalled or responses dropped)", total-n, total),
				"property_violation": true, "status": status}
		}
		time.Sleep(2 * time.Millisecond)
	}
	// C11: while unclaimed tasks of pending promises are waiting and the transports accept, hand-offs keep being attempted
	// (an unclaimed task cycles init -> enqueued -> init as its claim window lapses, so deliveries keep coming)
	if rd.ShutdownAt < 0 { // shutdown not requested yet: after a shutdown request background coroutines are no longer started
		waiting := func() int {
			db, err := sql.Open("sqlite3", path)
			if err != nil {
				return 0
			}
			defer db.Close()
			var n int
			_ = db.QueryRow(`SELECT count(*) FROM tasks t JOIN promises p ON p.id = t.root_promise_id WHERE t.state IN (1, 2) AND p.state = 1 AND p.timeout > ? AND t.timeout > ? AND NOT EXISTS (SELECT 1 FROM tasks c WHERE c.root_promise_id = t.root_promise_id AND c.state = 4)`,
				time.Now().UnixMilli()+10000, time.Now().UnixMilli()+10000).Scan(&n)
			return n
		}
		if w0 := waiting(); w0 > 0 {
			c0 := atomic.LoadInt64(&delivered)
			stuck := true
			for i := 0; i < 30 && stuck; i++ {
				time.Sleep(100 * time.Millisecond)
				stuck = atomic.LoadInt64(&delivered) == c0 && waiting() > 0
			}
			if stuck {
				return M{"what": fmt.Sprintf("no hand-off was attempted for 3 s although %d unclaimed tasks of pending promises are waiting and the transports accept (refused before: %d)", w0, rd.Refuse),
					"property_violation": true, "status": status}
			}
		}
	}
	// graceful shutdown completes
	doShutdown()
	select {
	case <-shutdownDone:
	case <-time.After(20 * time.Second):
		return M{"what": "shutdown did not complete within 20 s after every request had been answered", "property_violation": true, "status": status}
	}
	<-loopDone
	_ = a.Stop()
	time.Sleep(5 * time.Millisecond)
	if _, bad := answered(); bad != "" {
		return M{"what": bad, "property_violation": true, "status": status}
	}
	return M{"ok": true, "status": status, "requests": total}
}

func main() {
	seed := flag.Int64("seed", 1, "")
	rounds := flag.Int("rounds", 30, "")
	work := flag.String("work", "", "")
	out := flag.String("out", "", "")
	replay := flag.String("replay", "", "")
	flag.String("driver", "", "unused (no model comparison)")
	flag.String("corpus", "", "")
	child := flag.String("child", "", "internal")
	flag.Parse()
	if *child != "" {
		var rd Round
		if err := json.Unmarshal([]byte(*child), &rd); err != nil {
			panic(err)
		}
		res := runRound(rd, *work)
		b, _ := json.Marshal(res)
		fmt.Println("RESULT " + string(b))
		return
	}
	os.MkdirAll(*work, 0o755)
	self, _ := os.Executable()
	runChild := func(rd Round) M {
		b, _ := json.Marshal(rd)
		cmd := exec.Command(self, "-child", string(b), "-work", *work)
		done := make(chan struct{})
		var outb []byte
		var err error
		go func() { outb, err = cmd.CombinedOutput(); close(done) }()
		select {
		case <-done:
		case <-time.After(90 * time.Second):
			_ = cmd.Process.Kill()
			<-done
			return M{"what": "the server process hung (no result within 90 s)", "property_violation": true}
		}
		for _, line := range strings.Split(string(outb), "\n") {
			if strings.HasPrefix(line, "RESULT ") {
				var res M
				if json.Unmarshal([]byte(line[7:]), &res) == nil {
					return res
				}
			}
		}
		tail := string(outb)
		if i := strings.Index(tail, "panic:"); i >= 0 {
			tail = tail[i:]
		}
		if len(tail) > 1200 {
			tail = tail[:1200]
		}
		return M{"what": "the server process crashed", "diff": fmt.Sprintf("%v: %s", err, tail), "property_violation": true}
	}
	summary := M{"seed": *seed, "disagreements": 0}
	totals := map[string]int{}
	nreq := 0
	var roundsToRun []Round
	if *replay != "" {
		b, err := os.ReadFile(*replay)
		if err != nil {
			panic(err)
		}
		var rec struct {
			Round Round `json:"round"`
		}
		if err := json.Unmarshal(b, &rec); err != nil {
			panic(err)
		}
		roundsToRun = append(roundsToRun, rec.Round)
	} else {
		r := rand.New(rand.NewSource(*seed))
		for i := 0; i < *rounds; i++ {
			roundsToRun = append(roundsToRun, drawRound(r))
		}
	}
	var sample any
	for i, rd := range roundsToRun {
		if i == 0 {
			sample = rd
		}
		res := runChild(rd)
		if rd.Storm {
			totals["storm_rounds"]++
		}
		if st, ok := res["status"].(map[string]any); ok {
			for k, v := range st {
				totals["status:"+k] += int(v.(float64))
			}
		}
		if res["ok"] == true {
			nreq += int(res["requests"].(float64))
			continue
		}
		if res["harness"] != nil {
			summary["disagreements"] = 1
			summary["divergence"] = "harness: " + fmt.Sprint(res["harness"])
			break
		}
		rep := M{"harness": "stackrun", "round": rd, "divergence": res}
		b, _ := json.MarshalIndent(rep, "", " ")
		path := filepath.Join(*work, "stackrun-divergence.json")
		os.WriteFile(path, b, 0o644)
		summary["disagreements"] = 1
		summary["divergence_file"] = path
		summary["divergence"] = res["what"]
		summary["diff"] = fmt.Sprint(res["diff"])
		summary["property_violation"] = res["property_violation"] == true
		break
	}
	totals["nontrivial"] = nreq
	summary["scripts"] = len(roundsToRun)
	summary["cases"] = nreq
	summary["counts"] = totals
	summary["samples"] = []any{sample}
	b, _ := json.MarshalIndent(summary, "", " ")
	if *out != "" {
		os.WriteFile(*out, b, 0o644)
	} else {
		fmt.Println(string(b))
	}
	if summary["disagreements"] != 0 {
		os.Exit(3)
	}
}
