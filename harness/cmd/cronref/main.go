// cronref — the cron helper the schedule coroutines rely on (`util.Next`, built on robfig/cron) against a reference
// evaluator written from the meaning of a cron expression, for expressions of the shapes `*`, `*/k`, `n` per field
// (five and six fields, day-of-month and day-of-week left at `*`).  C10: "fires once for every occurrence of its cron
// expression after the schedule's creation, in chronological order, none skipped, never before the occurrence time" —
// `util.Next(t, e)` must be the FIRST instant strictly after `t` at which `e` matches, for every expression, whichever
// other expressions the process has evaluated before (expressions are drawn interleaved, including pairs that differ only
// in where their blanks are).
package main

import (
	"encoding/json"
	"flag"
	"fmt"
	"math/rand"
	"os"
	"strconv"
	"strings"
	"time"

	"github.com/resonatehq/resonate/internal/util"
)

type M = map[string]any

func field(r *rand.Rand, max int) string {
	switch r.Intn(4) {
	case 0:
		return "*"
	case 1:
		return "*/" + fmt.Sprint([]int{2, 5, 10, 15}[r.Intn(4)])
	default:
		return fmt.Sprint(r.Intn(max))
	}
}

func matches(f string, v int) bool {
	if f == "*" {
		return true
	}
	if strings.HasPrefix(f, "*/") {
		k, _ := strconv.Atoi(f[2:])
		return v%k == 0
	}
	n, _ := strconv.Atoi(f)
	return v == n
}

// refNext: the first instant strictly after t (ms) at which the expression matches; -1 if none within the horizon
func refNext(t int64, e string) int64 {
	fs := strings.Fields(e)
	step := int64(60000)
	if len(fs) == 6 {
		step = 1000
	} else {
		fs = append([]string{"0"}, fs...)
	}
	for c, n := (t/step+1)*step, 0; n < 3000000; c, n = c+step, n+1 {
		tm := time.Unix(0, c*int64(time.Millisecond))
		if matches(fs[0], tm.Second()) && matches(fs[1], tm.Minute()) && matches(fs[2], tm.Hour()) {
			return c
		}
	}
	return -1
}

func main() {
	seed := flag.Int64("seed", 1, "")
	n := flag.Int("cases", 4000, "")
	work := flag.String("work", "", "")
	out := flag.String("out", "", "")
	flag.String("driver", "", "unused")
	flag.String("replay", "", "")
	flag.String("corpus", "", "")
	flag.Parse()
	os.MkdirAll(*work, 0o755)
	r := rand.New(rand.NewSource(*seed))
	summary := M{"cases": *n, "scripts": *n, "disagreements": 0, "seed": *seed}
	// expressions that differ only in where their blanks are
	pool := []string{"1 12 * * *", "11 2 * * *", "1 1 * * * *", "11 * * * * *", "*/1 5 * * *", "*/15 * * * *", "* * * * *", "* * * * * *", "*/2 * * * * *", "*/5 * * * * *", "0 * * * * *", "2 5 * * * *", "25 * * * * *"}
	for i := 0; i < 24; i++ {
		if r.Intn(2) == 0 {
			pool = append(pool, fmt.Sprintf("%s %s * * *", field(r, 60), field(r, 24)))
		} else {
			pool = append(pool, fmt.Sprintf("%s %s %s * * *", field(r, 60), field(r, 60), field(r, 24)))
		}
	}
	counts := map[string]int{}
	var history []any
	for i := 0; i < *n; i++ {
		e := pool[r.Intn(len(pool))]
		t := int64(1700000000000) + r.Int63n(40*24*3600*1000)
		got, err := util.Next(t, e)
		want := refNext(t, e)
		history = append(history, []any{e, t})
		if len(history) > 12 {
			history = history[1:]
		}
		if want < 0 {
			counts["beyond_horizon"]++
			continue
		}
		counts["fields:"+fmt.Sprint(len(strings.Fields(e)))]++
		if err != nil || got != want {
			what := fmt.Sprintf("util.Next(%d, %q) = %d (err %v); the first occurrence of the expression after that instant is %d", t, e, got, err, want)
			if err == nil && got > want {
				what += ": the occurrence at " + fmt.Sprint(want) + " is skipped"
			} else if err == nil {
				what += ": " + fmt.Sprint(got) + " is not the next occurrence of this expression"
			}
			rep := M{"harness": "cronref", "expression": e, "instant": t, "got": got, "want": want, "last_evaluations": history, "what": what}
			b, _ := json.MarshalIndent(rep, "", " ")
			p := *work + "/cronref-divergence.json"
			os.WriteFile(p, b, 0o644)
			summary["disagreements"], summary["divergence"], summary["diff"], summary["divergence_file"], summary["property_violation"] = 1, "the cron helper does not return the next occurrence", what, p, true
			break
		}
	}
	counts["nontrivial"] = counts["fields:5"] + counts["fields:6"]
	summary["counts"] = counts
	summary["samples"] = []any{M{"expressions": pool[:8]}}
	b, _ := json.MarshalIndent(summary, "", " ")
	if *out != "" {
		os.WriteFile(*out, b, 0o644)
	} else {
		fmt.Println(string(b))
	}
	if summary["disagreements"] != 0 {
		os.Exit(3)
	}
}
