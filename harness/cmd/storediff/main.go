// storediff — correspondence check between the real sqlite store (SqliteStore.Process →
// store.Process → Execute → performCommands on a file database) and the Lean store model
// (Db.execBatch over the generated SQL definitions).  Same batches on both sides; compared:
// error/no-error per batch, every command result, full table dump after every batch.
package main

import (
	"context"
	"database/sql"
	"database/sql/driver"
	"encoding/json"
	"flag"
	"fmt"
	"github.com/resonatehq/resonate/pkg/promise"
	"io"
	"log/slog"
	"os"
	"path/filepath"
	"reflect"
	"regexp"
	"sort"
	"strings"
	"sync"
	"time"

	sqlite3 "github.com/mattn/go-sqlite3"
	"github.com/prometheus/client_golang/prometheus"
	"github.com/resonatehq/resonate/internal/app/subsystems/aio/store/postgres"
	"github.com/resonatehq/resonate/internal/app/subsystems/aio/store/sqlite"
	"github.com/resonatehq/resonate/internal/kernel/bus"
	"github.com/resonatehq/resonate/internal/kernel/t_aio"
	"github.com/resonatehq/resonate/internal/metrics"
	"github.com/resonatehq/resonate/verifharness/internal/canon"
	"github.com/resonatehq/resonate/verifharness/internal/dump"
	"github.com/resonatehq/resonate/verifharness/internal/gen"
	"github.com/resonatehq/resonate/verifharness/internal/lean"
	"github.com/resonatehq/resonate/verifharness/internal/monitor"

	_ "github.com/mattn/go-sqlite3"
)

type M = map[string]any

type processor interface {
	Process([]*bus.SQE[t_aio.Submission, t_aio.Completion]) []*bus.CQE[t_aio.Submission, t_aio.Completion]
}

type impl struct {
	path  string
	store processor
	rdb   *sql.DB
}

// -pgshim: the implementation under test is the REAL postgres.go worker (Execute, performCommands, every handler and the
// Postgres SQL text), run over a database/sql shim that rewrites $N placeholders to ?N and strips ::casts and hands the
// statements to sqlite (tables created from the sqlite schema, whose column names and types the Postgres statements use).
// No Postgres server exists in the sandbox; everything but the three Postgres-only statements (jsonb containment in the two
// searches, DISTINCT ON in the enqueueable select) means the same to both engines.
var pgshim bool
var pgPlaceholder = regexp.MustCompile(`\$(\d+)`)
var pgCast = regexp.MustCompile(`::[a-z]+`)

func pgToSqlite(q string) string {
	return pgPlaceholder.ReplaceAllString(pgCast.ReplaceAllString(q, ""), "?$1")
}

type pgshimDriver struct{ inner sqlite3.SQLiteDriver }

func (d *pgshimDriver) Open(name string) (driver.Conn, error) {
	c, err := d.inner.Open(name)
	if err != nil {
		return nil, err
	}
	return &pgshimConn{c.(*sqlite3.SQLiteConn)}, nil
}

type pgshimConn struct{ c *sqlite3.SQLiteConn }

func (c *pgshimConn) Prepare(q string) (driver.Stmt, error) { return c.c.Prepare(pgToSqlite(q)) }
func (c *pgshimConn) Close() error                          { return c.c.Close() }
func (c *pgshimConn) Begin() (driver.Tx, error)             { return c.c.Begin() } //nolint:staticcheck
func (c *pgshimConn) BeginTx(ctx context.Context, o driver.TxOptions) (driver.Tx, error) {
	return c.c.BeginTx(ctx, o)
}
func (c *pgshimConn) PrepareContext(ctx context.Context, q string) (driver.Stmt, error) {
	st, err := c.c.PrepareContext(ctx, pgToSqlite(q))
	if err != nil || pgSlowMatch == "" || !strings.Contains(q, pgSlowMatch) {
		return st, err
	}
	return &slowStmt{st.(*sqlite3.SQLiteStmt)}, nil
}

// a statement made slow by the harness (the deadline phase): it runs, and succeeds, after the pause
var pgSlowMatch string
var pgSlowPause time.Duration

type slowStmt struct{ s *sqlite3.SQLiteStmt }

func (s *slowStmt) Close() error  { return s.s.Close() }
func (s *slowStmt) NumInput() int { return s.s.NumInput() }
func (s *slowStmt) Exec(a []driver.Value) (driver.Result, error) {
	time.Sleep(pgSlowPause)
	return s.s.Exec(a) //nolint:staticcheck
}
func (s *slowStmt) Query(a []driver.Value) (driver.Rows, error) { return s.s.Query(a) } //nolint:staticcheck
func (s *slowStmt) ExecContext(ctx context.Context, a []driver.NamedValue) (driver.Result, error) {
	time.Sleep(pgSlowPause)
	return s.s.ExecContext(ctx, a)
}
func (s *slowStmt) QueryContext(ctx context.Context, a []driver.NamedValue) (driver.Rows, error) {
	return s.s.QueryContext(ctx, a)
}

// pgDeadlinePhase: the REAL Postgres worker's Execute with a transaction deadline that expires while the last statement of the
// transaction is still running (the statement itself succeeds).  database/sql has rolled the transaction back by the time
// Execute commits: whatever Execute reports, an acknowledged write must be in the database (C17: the Postgres backend reports
// what the sqlite backend reports — which fails such a batch, txedge — and C06 / C16 of the Postgres store).
func pgDeadlinePhase(dir string) (M, int) {
	checked := 0
	for i, pause := range []time.Duration{120 * time.Millisecond, 250 * time.Millisecond} {
		path := filepath.Join(dir, fmt.Sprintf("pgdeadline-%d.db", i))
		os.Remove(path)
		defer os.Remove(path)
		boot, err := sql.Open("sqlite3", path)
		if err != nil {
			return M{"harness": err.Error()}, checked
		}
		if _, err := boot.Exec(sqlite.CREATE_TABLE_STATEMENT); err != nil {
			return M{"harness": err.Error()}, checked
		}
		boot.Close()
		pgshimOnce.Do(func() { sql.Register("pgshim", &pgshimDriver{}) })
		db, err := sql.Open("pgshim", path)
		if err != nil {
			return M{"harness": err.Error()}, checked
		}
		db.SetMaxOpenConns(1)
		pgSlowMatch, pgSlowPause = "INSERT INTO promises", pause
		w := postgres.NewVerifWorker(db, pause/3)
		id := fmt.Sprintf("late%d", i)
		res, xerr := w.Execute([]*t_aio.Transaction{{Commands: []*t_aio.Command{{Kind: t_aio.CreatePromise, CreatePromise: &t_aio.CreatePromiseCommand{
			Id: id, Timeout: 1 << 40, Param: promise.Value{Headers: map[string]string{}, Data: []byte{}}, Tags: map[string]string{}, CreatedOn: 1}}}}})
		pgSlowMatch = ""
		db.Close()
		rdb, err := sql.Open("sqlite3", path)
		if err != nil {
			return M{"harness": err.Error()}, checked
		}
		n := 0
		_ = rdb.QueryRow("SELECT COUNT(*) FROM promises WHERE id = ?", id).Scan(&n)
		rdb.Close()
		acked := xerr == nil && len(res) == 1 && len(res[0]) == 1 && res[0][0].CreatePromise != nil && res[0][0].CreatePromise.RowsAffected == 1
		if acked && n != 1 {
			return M{"what": "the Postgres worker acknowledged a transaction that is not in the database", "property_violation": true,
				"diff": fmt.Sprintf("Execute([CreatePromise %s]) with a transaction deadline of %v that expired while the insert (made to take %v) was running reported RowsAffected=1 and no error; the promise is not stored (database/sql had rolled the transaction back before the commit)", id, pause/3, pause)}, checked
		}
		if !acked && n == 1 {
			return M{"what": "the Postgres worker reported a failed transaction that is in the database", "property_violation": true, "diff": fmt.Sprintf("Execute reported %v for promise %s, which is stored", xerr, id)}, checked
		}
		checked++
	}
	return nil, checked
}
func (c *pgshimConn) ExecContext(ctx context.Context, q string, a []driver.NamedValue) (driver.Result, error) {
	return c.c.ExecContext(ctx, pgToSqlite(q), a)
}
func (c *pgshimConn) QueryContext(ctx context.Context, q string, a []driver.NamedValue) (driver.Rows, error) {
	return c.c.QueryContext(ctx, pgToSqlite(q), a)
}

var pgshimOnce sync.Once

func newImpl(dir string, n int) (*impl, error) {
	path := filepath.Join(dir, fmt.Sprintf("store-%d.db", n))
	os.Remove(path)
	boot, err := sql.Open("sqlite3", path)
	if err != nil {
		return nil, err
	}
	if _, err := boot.Exec(sqlite.CREATE_TABLE_STATEMENT); err != nil {
		return nil, err
	}
	boot.Close()
	var st processor
	if pgshim {
		pgshimOnce.Do(func() { sql.Register("pgshim", &pgshimDriver{}) })
		db, err := sql.Open("pgshim", path)
		if err != nil {
			return nil, err
		}
		db.SetMaxOpenConns(1)
		st = postgres.NewVerifWorker(db, 10*time.Second)
	} else {
		sst, err := sqlite.New(nil, metrics.New(prometheus.NewRegistry()), &sqlite.Config{Size: 10, BatchSize: 10, Path: path, TxTimeout: 10e9})
		if err != nil {
			return nil, err
		}
		st = sst
	}
	rdb, err := sql.Open("sqlite3", path)
	if err != nil {
		return nil, err
	}
	return &impl{path: path, store: st, rdb: rdb}, nil
}

func (i *impl) close() {
	i.rdb.Close()
	os.Remove(i.path)
}

// run one batch on the real store; returns the canonical observation
func (i *impl) batch(txs [][]*t_aio.Command) (obs M) {
	sqes := make([]*bus.SQE[t_aio.Submission, t_aio.Completion], len(txs))
	for k, tx := range txs {
		sqes[k] = &bus.SQE[t_aio.Submission, t_aio.Completion]{
			Id:         fmt.Sprintf("s%d", k),
			Submission: &t_aio.Submission{Kind: t_aio.Store, Tags: map[string]string{}, Store: &t_aio.StoreSubmission{Transaction: &t_aio.Transaction{Commands: tx}}},
			Callback:   func(*t_aio.Completion, error) {},
		}
	}
	obs = M{}
	var cqes []*bus.CQE[t_aio.Submission, t_aio.Completion]
	func() {
		defer func() {
			if r := recover(); r != nil {
				obs["panic"] = fmt.Sprint(r)
			}
		}()
		cqes = i.store.Process(sqes)
	}()
	if _, ok := obs["panic"]; ok {
		return obs
	}
	if len(cqes) != len(sqes) {
		obs["harness"] = fmt.Sprintf("%d cqes for %d sqes", len(cqes), len(sqes))
		return obs
	}
	nerr := 0
	results := []any{}
	for k, cqe := range cqes {
		if cqe.Id != sqes[k].Id {
			obs["harness"] = fmt.Sprintf("cqe %d has id %s, want %s", k, cqe.Id, sqes[k].Id)
		}
		if cqe.Error != nil {
			nerr++
			if cqe.Completion != nil {
				obs["harness"] = "cqe with both error and completion"
			}
			continue
		}
		if cqe.Completion == nil || cqe.Completion.Store == nil {
			obs["harness"] = "cqe without store completion"
			continue
		}
		rs := cqe.Completion.Store.Results
		if len(rs) != len(txs[k]) {
			obs["harness"] = fmt.Sprintf("tx %d: %d results for %d commands", k, len(rs), len(txs[k]))
			continue
		}
		row := []any{}
		for j, r := range rs {
			m, err := canon.Res(txs[k][j].Kind, r)
			if err != nil {
				obs["harness"] = fmt.Sprintf("tx %d cmd %d: %v", k, j, err)
				m = M{"bad": err.Error()}
			}
			row = append(row, m)
		}
		results = append(results, row)
	}
	switch {
	case nerr == 0:
		obs["err"] = false
		obs["results"] = results
	case nerr == len(cqes):
		obs["err"] = true
		obs["errText"] = cqes[0].Error.Error()
		obs["results"] = []any{}
	default:
		obs["err"] = true
		obs["harness"] = fmt.Sprintf("%d of %d submissions failed: a batch must fail or succeed as a whole", nerr, len(cqes))
	}
	d, err := dump.Sqlite(i.rdb)
	if err != nil {
		obs["harness"] = "dump: " + err.Error()
	}
	obs["db"] = d
	return obs
}

func batchJSON(txs [][]*t_aio.Command, dialect string) M {
	out := []any{}
	for _, tx := range txs {
		row := []any{}
		for _, c := range tx {
			row = append(row, canon.Cmd(c))
		}
		out = append(out, row)
	}
	return M{"op": "batch", "dialect": dialect, "txs": out}
}

// classify the model's error kinds against the real error text
func errClassOK(modelErr string, implText string) bool {
	switch {
	case modelErr == "unique-task-id":
		return strings.Contains(implText, "UNIQUE constraint failed: tasks.id")
	}
	return false
}

var monitors = map[string]bool{}
var modelDialect = "sqlite"

type runner struct {
	drv      *lean.Driver
	dir      string
	nimpl    int
	implOnly bool // after a divergence: the property monitors alone decide
	stats    M
	counts   map[string]int
}

// runScript executes batches from a fresh database on both sides; returns index of the first
// disagreement (-1 if none) and a description.
func (r *runner) runScript(script [][][]*t_aio.Command, dialect string) (int, M) {
	r.nimpl++
	im, err := newImpl(r.dir, r.nimpl)
	if err != nil {
		return 0, M{"harness": err.Error()}
	}
	defer im.close()
	if _, _, err := r.drv.Call(M{"op": "reset"}); err != nil {
		return 0, M{"harness": err.Error()}
	}
	var prevDump M
	for bi, txs := range script {
		obs := im.batch(txs)
		if monitors["C14"] && prevDump != nil && obs["err"] == false {
			// every search that runs before the first write of its batch sees the database as it stood before the batch:
			// it is checked against the property itself
			isRead := func(k t_aio.StoreKind) bool {
				switch k {
				case t_aio.ReadPromise, t_aio.ReadPromises, t_aio.SearchPromises, t_aio.ReadSchedule, t_aio.ReadSchedules, t_aio.SearchSchedules,
					t_aio.ReadTask, t_aio.ReadTasks, t_aio.ReadEnqueueableTasks, t_aio.ReadLock:
					return true
				}
				return false
			}
			res, _ := obs["results"].([]any)
			dirty := false
			for ti := 0; ti < len(txs) && !dirty && ti < len(res); ti++ {
				rs, _ := res[ti].([]any)
				for ci := 0; ci < len(txs[ti]) && !dirty && ci < len(rs); ci++ {
					cmd := txs[ti][ci]
					if !isRead(cmd.Kind) {
						dirty = true
						break
					}
					if cmd.Kind != t_aio.SearchPromises && cmd.Kind != t_aio.SearchSchedules {
						continue
					}
					cj, _ := lean.NormalizeValue(canon.Cmd(cmd)["c"])
					rj, _ := lean.NormalizeValue(rs[ci])
					got := []M{}
					for _, x := range rj.(map[string]any)["rows"].([]any) {
						got = append(got, x.(map[string]any))
					}
					oracle := monitor.SearchPromises
					if cmd.Kind == t_aio.SearchSchedules {
						oracle = monitor.SearchSchedules
					}
					if what := oracle(prevDump, cj.(map[string]any), got); what != "" {
						return bi, M{"what": "property monitor failed on the implementation", "property": "C14", "diff": what, "property_violation": true}
					}
					r.counts["search_checked"]++
				}
			}
		}
		if d, ok := obs["db"].(M); ok {
			if nd, err := lean.NormalizeValue(d); err == nil {
				cur := nd.(map[string]any)
				if monitors["C09"] && prevDump != nil && obs["err"] == false {
					// "heartbeating by the owning process extends the lease": in a committed batch whose only lock-writing commands
					// are heartbeats, every lock of a heartbeating process expires at (time of its last heartbeat) + ttl afterwards
					last := map[string]int64{}
					only := true
					for _, tx := range txs {
						for _, c := range tx {
							switch c.Kind {
							case t_aio.HeartbeatLocks:
								last[c.HeartbeatLocks.ProcessId] = c.HeartbeatLocks.Time
							case t_aio.AcquireLock, t_aio.ReleaseLock, t_aio.TimeoutLocks:
								only = false
							}
						}
					}
					if only && len(last) > 0 {
						rowsOf := func(d map[string]any) map[string]map[string]any {
							out := map[string]map[string]any{}
							xs, _ := d["locks"].([]any)
							for _, x := range xs {
								if m, ok := x.(map[string]any); ok {
									out[fmt.Sprint(m["resourceId"])] = m
								}
							}
							return out
						}
						jn := func(v any) int64 {
							switch x := v.(type) {
							case json.Number:
								n, _ := x.Int64()
								return n
							case float64:
								return int64(x)
							case int64:
								return x
							case int:
								return int64(x)
							}
							return -1
						}
						pl, cl := rowsOf(prevDump), rowsOf(cur)
						for rid, t := range pl {
							tm, ok := last[fmt.Sprint(t["processId"])]
							if !ok {
								continue
							}
							u := cl[rid]
							if u == nil || jn(u["expiresAt"]) != tm+jn(t["ttl"]) {
								return bi, M{"what": "property monitor failed on the implementation", "property": "C09",
									"diff": fmt.Sprintf("lock on %q held by process %v (ttl %d) was heartbeated at %d in this batch but expires at %v afterwards, not at %d", rid, t["processId"], jn(t["ttl"]), tm, func() any {
										if u == nil {
											return "<gone>"
										}
										return u["expiresAt"]
									}(), tm+jn(t["ttl"])),
									"property_violation": true}
							}
							r.counts["lock_heartbeats_checked"]++
						}
					}
				}
				if pid, what := monitor.Check(monitors, prevDump, cur); pid != "" {
					return bi, M{"what": "property monitor failed on the implementation", "property": pid, "diff": what, "property_violation": true}
				}
				prevDump = cur
			}
		}
		if r.implOnly {
			if p, ok := obs["panic"]; ok {
				return bi, M{"what": "implementation panicked", "detail": p, "property_violation": true}
			}
			continue
		}
		rep, _, err := r.drv.Call(batchJSON(txs, modelDialect))
		if err != nil {
			return bi, M{"harness": err.Error(), "impl": obs}
		}
		if h, ok := obs["harness"]; ok {
			return bi, M{"what": "the store broke its completion contract (one completion per submission, one result per command, a batch fails or succeeds as a whole)", "diff": h, "detail": h, "impl": obs, "model": rep}
		}
		if p, ok := obs["panic"]; ok {
			return bi, M{"what": "implementation panicked", "detail": p, "model": rep}
		}
		implErr := obs["err"].(bool)
		modelErr, _ := rep["err"].(string)
		if implErr != (modelErr != "") {
			return bi, M{"what": "error/no-error differs", "impl": obs, "model": rep}
		}
		if implErr {
			r.counts["batches_failed"]++
			r.counts["err:"+modelErr]++
			if !errClassOK(modelErr, obs["errText"].(string)) {
				return bi, M{"what": "error class differs", "impl": obs, "model": rep}
			}
		}
		io, err1 := lean.NormalizeValue(M{"results": obs["results"], "db": obs["db"]})
		mo, err2 := lean.NormalizeValue(M{"results": rep["results"], "db": rep["db"]})
		if err1 != nil || err2 != nil {
			return bi, M{"harness": fmt.Sprint(err1, err2)}
		}
		if !reflect.DeepEqual(io, mo) {
			return bi, M{"what": "results or table dump differ", "diff": firstDiff("", io, mo), "impl": io, "model": mo}
		}
		// statistics on what the batch exercised
		if !implErr {
			for _, tx := range obs["results"].([]any) {
				for _, res := range tx.([]any) {
					m := res.(M)
					switch m["t"] {
					case "rows":
						if m["n"].(int64) > 0 {
							r.counts["alter_hit"]++
						} else {
							r.counts["alter_miss"]++
						}
					case "rows2":
						if m["p"].(int64) > 0 {
							r.counts["alter_hit"]++
						} else {
							r.counts["alter_miss"]++
						}
					default:
						if len(m["rows"].([]any)) > 0 {
							r.counts["query_nonempty"]++
						} else {
							r.counts["query_empty"]++
						}
					}
				}
			}
		}
	}
	return -1, nil
}

func firstDiff(path string, a, b any) string {
	switch x := a.(type) {
	case map[string]any:
		y, ok := b.(map[string]any)
		if !ok {
			return fmt.Sprintf("%s: impl object vs model %v", path, b)
		}
		keys := map[string]bool{}
		for k := range x {
			keys[k] = true
		}
		for k := range y {
			keys[k] = true
		}
		ks := []string{}
		for k := range keys {
			ks = append(ks, k)
		}
		sort.Strings(ks)
		for _, k := range ks {
			if !reflect.DeepEqual(x[k], y[k]) {
				return firstDiff(path+"."+k, x[k], y[k])
			}
		}
	case []any:
		y, ok := b.([]any)
		if !ok {
			return fmt.Sprintf("%s: impl array vs model %v", path, b)
		}
		if len(x) != len(y) {
			return fmt.Sprintf("%s: impl has %d elements, model %d", path, len(x), len(y))
		}
		for i := range x {
			if !reflect.DeepEqual(x[i], y[i]) {
				return firstDiff(fmt.Sprintf("%s[%d]", path, i), x[i], y[i])
			}
		}
	}
	return fmt.Sprintf("%s: impl=%v model=%v", path, a, b)
}

func scriptJSON(script [][][]*t_aio.Command) []any {
	out := []any{}
	for _, txs := range script {
		out = append(out, batchJSON(txs, "sqlite")["txs"])
	}
	return out
}

func parseScript(v any) ([][][]*t_aio.Command, error) {
	var script [][][]*t_aio.Command
	for _, b := range v.([]any) {
		var txs [][]*t_aio.Command
		for _, tx := range b.([]any) {
			var cmds []*t_aio.Command
			for _, c := range tx.([]any) {
				cmd, err := canon.ParseCmd(c.(map[string]any))
				if err != nil {
					return nil, err
				}
				cmds = append(cmds, cmd)
			}
			txs = append(txs, cmds)
		}
		script = append(script, txs)
	}
	return script, nil
}

// shrink: greedily drop batches, then transactions, then commands while the script still disagrees
func (r *runner) shrink(script [][][]*t_aio.Command, dialect string) [][][]*t_aio.Command {
	fails := func(s [][][]*t_aio.Command) bool {
		if len(s) == 0 {
			return false
		}
		i, _ := r.runScript(s, dialect)
		return i >= 0
	}
	// truncate after the failing batch
	if i, _ := r.runScript(script, dialect); i >= 0 {
		script = script[:i+1]
	}
	for i := len(script) - 2; i >= 0; i-- {
		cand := append(append([][][]*t_aio.Command{}, script[:i]...), script[i+1:]...)
		if fails(cand) {
			script = cand
		}
	}
	for bi := range script {
		for ti := len(script[bi]) - 1; ti >= 0 && len(script[bi]) > 1; ti-- {
			cand := cloneScript(script)
			cand[bi] = append(append([][]*t_aio.Command{}, cand[bi][:ti]...), cand[bi][ti+1:]...)
			if fails(cand) {
				script = cand
			}
		}
		for ti := range script[bi] {
			for ci := len(script[bi][ti]) - 1; ci >= 0 && len(script[bi][ti]) > 1; ci-- {
				cand := cloneScript(script)
				cand[bi][ti] = append(append([]*t_aio.Command{}, cand[bi][ti][:ci]...), cand[bi][ti][ci+1:]...)
				if fails(cand) {
					script = cand
				}
			}
		}
	}
	return script
}

func cloneScript(s [][][]*t_aio.Command) [][][]*t_aio.Command {
	out := make([][][]*t_aio.Command, len(s))
	for i := range s {
		out[i] = make([][]*t_aio.Command, len(s[i]))
		for j := range s[i] {
			out[i][j] = append([]*t_aio.Command{}, s[i][j]...)
		}
	}
	return out
}

func main() {
	seed := flag.Int64("seed", 1, "PRNG seed")
	nscripts := flag.Int("scripts", 20, "number of scripts (each from a fresh database)")
	nbatches := flag.Int("batches", 30, "batches per script")
	driver := flag.String("driver", "", "path of the Lean model driver")
	work := flag.String("work", "", "scratch directory")
	kinds := flag.String("kinds", "", "comma-separated command kinds to draw from (default: all 27)")
	replay := flag.String("replay", "", "replay a script file instead of generating")
	corpus := flag.String("corpus", "", "directory of script files to run first")
	out := flag.String("out", "", "summary JSON path")
	dialect := flag.String("dialect", "sqlite", "which generated definitions the MODEL uses (pg: Postgres definitions against the real sqlite store, inside DialectSafe)")
	mon := flag.String("monitor", "", "comma-separated property ids whose monitors run on the implementation dumps")
	hunt := flag.Int("hunt", 300, "after a divergence that no monitor explains: this many further scripts against the implementation alone, monitors on")
	flag.BoolVar(&pgshim, "pgshim", false, "run the real postgres.go worker over a $N->?N shim on sqlite (model: Postgres definitions)")
	flag.Parse()
	if pgshim {
		*dialect = "pg"
		if *kinds == "" {
			ks := []string{}
			for _, k := range canon.KindNames() {
				if k != "SearchPromises" && k != "SearchSchedules" && k != "ReadEnqueueableTasks" {
					ks = append(ks, k)
				}
			}
			*kinds = strings.Join(ks, ",")
		}
	}
	modelDialect = *dialect
	if *dialect == "pg" {
		gen.DialectSafe()
	}
	for _, m := range strings.Split(*mon, ",") {
		if m != "" {
			monitors[m] = true
		}
	}
	slog.SetDefault(slog.New(slog.NewTextHandler(io.Discard, nil)))

	if err := os.MkdirAll(*work, 0o755); err != nil {
		panic(err)
	}
	drv, err := lean.Start(*driver)
	if err != nil {
		panic(err)
	}
	defer drv.Close()
	r := &runner{drv: drv, dir: *work, counts: map[string]int{}}

	var allowed []t_aio.StoreKind
	if *kinds != "" {
		for _, n := range strings.Split(*kinds, ",") {
			k, ok := canon.KindByName(n)
			if !ok {
				panic("unknown kind " + n)
			}
			allowed = append(allowed, k)
		}
	}

	summary := M{"seed": *seed, "disagreements": 0}
	fail := func(script [][][]*t_aio.Command, info M, origin string) {
		small := r.shrink(script, "sqlite")
		_, info2 := r.runScript(small, "sqlite")
		if info2 == nil {
			info2 = info
			small = script
		}
		rep := M{"harness": "storediff", "origin": origin, "script": scriptJSON(small), "divergence": info2}
		b, _ := json.MarshalIndent(rep, "", " ")
		path := filepath.Join(*work, "storediff-divergence.json")
		os.WriteFile(path, b, 0o644)
		summary["disagreements"] = 1
		summary["divergence_file"] = path
		summary["divergence"] = info2["what"]
		summary["diff"] = info2["diff"]
		summary["property_violation"] = info2["property_violation"] == true
	}

	files := []string{}
	if *replay != "" {
		files = append(files, *replay)
	}
	if *corpus != "" {
		fs, _ := filepath.Glob(filepath.Join(*corpus, "*.json"))
		sort.Strings(fs)
		files = append(files, fs...)
	}
	ncorpus := 0
	for _, f := range files {
		b, err := os.ReadFile(f)
		if err != nil {
			panic(err)
		}
		v, err := lean.Normalize(b)
		if err != nil {
			panic(err)
		}
		script, err := parseScript(v.(map[string]any)["script"])
		if err != nil {
			panic(err)
		}
		ncorpus++
		if i, info := r.runScript(script, "sqlite"); i >= 0 {
			fail(script, info, f)
			break
		}
	}
	summary["corpus_scripts"] = ncorpus

	g := gen.New(*seed)
	var divergedScript [][][]*t_aio.Command
	var divergedInfo M
	divergedAt := ""
	nb, ncmd := 0, 0
	var samples []any
	if *replay == "" && summary["disagreements"] == 0 {
		for s := 0; s < *nscripts; s++ {
			var script [][][]*t_aio.Command
			for b := 0; b < *nbatches; b++ {
				var txs [][]*t_aio.Command
				if allowed == nil {
					txs = g.Batch()
				} else {
					nt := 1 + g.R.Intn(4)
					for i := 0; i < nt; i++ {
						var tx []*t_aio.Command
						nc := 1 + g.R.Intn(5)
						for j := 0; j < nc; j++ {
							tx = append(tx, g.CommandOf(allowed[g.R.Intn(len(allowed))]))
						}
						txs = append(txs, tx)
					}
				}
				script = append(script, txs)
				nb++
				for _, tx := range txs {
					ncmd += len(tx)
				}
			}
			if s == 0 {
				samples = scriptJSON(script[:2])
			}
			if i, info := r.runScript(script, "sqlite"); i >= 0 {
				if info["property_violation"] != true && len(monitors) > 0 && !r.implOnly {
					// model and implementation differ, no monitor has spoken: go on against the implementation alone and let
					// the property monitors look for a failing input (this script first)
					first, firstInfo := script, info
					r.implOnly = true
					if _, info2 := r.runScript(script, "sqlite"); info2 != nil && info2["property_violation"] == true {
						info2["correspondence_divergence"] = firstInfo["what"]
						fail(script, info2, fmt.Sprintf("seed=%d script=%d (implementation only)", *seed, s))
						break
					}
					*nscripts = s + 1 + *hunt
					divergedScript, divergedInfo, divergedAt = first, firstInfo, fmt.Sprintf("seed=%d script=%d", *seed, s)
					continue
				}
				fail(script, info, fmt.Sprintf("seed=%d script=%d", *seed, s))
				divergedScript = nil
				break
			}
		}
		if divergedScript != nil && summary["disagreements"] == 0 {
			r.implOnly = false
			fail(divergedScript, divergedInfo, divergedAt)
		}
	}
	if pgshim && *replay == "" && summary["disagreements"] == 0 {
		info, n := pgDeadlinePhase(*work)
		r.counts["pg_deadline_checked"] = n
		if info != nil && info["harness"] != nil {
			summary["disagreements"] = 1
			summary["divergence"] = "harness: " + fmt.Sprint(info["harness"])
		} else if info != nil {
			path := filepath.Join(*work, "storediff-divergence.json")
			b, _ := json.MarshalIndent(M{"harness": "storediff", "phase": "pg-deadline", "result": info}, "", " ")
			os.WriteFile(path, b, 0o644)
			summary["disagreements"] = 1
			summary["divergence_file"] = path
			summary["divergence"] = info["what"]
			summary["diff"] = fmt.Sprint(info["diff"])
			summary["property_violation"] = true
		}
	}
	summary["scripts"] = *nscripts
	summary["batches"] = nb
	summary["commands"] = ncmd
	summary["kinds"] = g.Kinds
	summary["counts"] = r.counts
	summary["samples"] = samples
	b, _ := json.MarshalIndent(summary, "", " ")
	if *out != "" {
		os.WriteFile(*out, b, 0o644)
	} else {
		fmt.Println(string(b))
	}
	if summary["disagreements"] != 0 {
		os.Exit(3)
	}
}
