// sysdiff — correspondence check between the real kernel (system.System + api + gocoro scheduler +
// the 22 coroutines + router + sqlite store) and the Lean system model (Sys.step), driven by a
// harness-owned aio.AIO that holds every dispatched submission until the script executes it.
// Every step is sent to the model FIRST (a predicted panic is never executed in-process), then run
// against the implementation; compared: every dispatched submission with its full content, every
// response, the error flag and the full table dump after every store batch.
package main

import (
	"database/sql"
	"encoding/json"
	"errors"
	"flag"
	"fmt"
	"github.com/resonatehq/resonate/pkg/promise"
	"io"
	"log/slog"
	"math/rand"
	"os"
	"path/filepath"
	"reflect"
	"sort"
	"strings"
	"time"

	"github.com/prometheus/client_golang/prometheus"
	"github.com/resonatehq/resonate/internal/api"
	"github.com/resonatehq/resonate/internal/app/coroutines"
	"github.com/resonatehq/resonate/internal/app/subsystems/aio/router"
	"github.com/resonatehq/resonate/internal/app/subsystems/aio/store/sqlite"
	"github.com/resonatehq/resonate/internal/kernel/bus"
	"github.com/resonatehq/resonate/internal/kernel/system"
	"github.com/resonatehq/resonate/internal/kernel/t_aio"
	"github.com/resonatehq/resonate/internal/kernel/t_api"
	"github.com/resonatehq/resonate/internal/metrics"
	"github.com/resonatehq/resonate/verifharness/internal/canon"
	"github.com/resonatehq/resonate/verifharness/internal/dump"
	"github.com/resonatehq/resonate/verifharness/internal/gen"
	"github.com/resonatehq/resonate/verifharness/internal/lean"
	"github.com/resonatehq/resonate/verifharness/internal/monitor"

	_ "github.com/mattn/go-sqlite3"
)

type M = map[string]any

// ---------------------------------------------------------------- harness-owned AIO

type held struct {
	tid  string
	seq  int
	tick int64
	sqe  *bus.SQE[t_aio.Submission, t_aio.Completion]
}

type ownedAIO struct {
	pending []*held
	cq      []*bus.CQE[t_aio.Submission, t_aio.Completion]
	seq     map[string]int
	events  *[]M
	now     int64
}

func (a *ownedAIO) String() string                                          { return "ownedAIO" }
func (a *ownedAIO) Start() error                                            { return nil }
func (a *ownedAIO) Stop() error                                             { return nil }
func (a *ownedAIO) Shutdown()                                               {}
func (a *ownedAIO) Errors() <-chan error                                    { return nil }
func (a *ownedAIO) Signal(<-chan interface{}) <-chan interface{}            { panic("not used") }
func (a *ownedAIO) Flush(int64)                                             {}
func (a *ownedAIO) EnqueueSQE(*bus.SQE[t_aio.Submission, t_aio.Completion]) { panic("not used") }
func (a *ownedAIO) EnqueueCQE(c *bus.CQE[t_aio.Submission, t_aio.Completion]) {
	a.cq = append(a.cq, c)
}
func (a *ownedAIO) DequeueCQE(n int) []*bus.CQE[t_aio.Submission, t_aio.Completion] {
	k := n
	if len(a.cq) < k {
		k = len(a.cq)
	}
	out := a.cq[:k]
	a.cq = a.cq[k:]
	return out
}
func (a *ownedAIO) Dispatch(sub *t_aio.Submission, cb func(*t_aio.Completion, error)) {
	tid := sub.Tags["id"]
	seq := a.seq[tid]
	a.seq[tid] = seq + 1
	a.pending = append(a.pending, &held{tid: tid, seq: seq, tick: a.now, sqe: &bus.SQE[t_aio.Submission, t_aio.Completion]{Id: tid, Submission: sub, Callback: cb}})
	*a.events = append(*a.events, M{"e": "dispatch", "tid": tid, "seq": seq, "sub": canon.Subm(sub)})
}

func (a *ownedAIO) find(tid string, seq int) (int, *held) {
	for i, h := range a.pending {
		if h.tid == tid && h.seq == seq {
			return i, h
		}
	}
	return -1, nil
}

func (a *ownedAIO) remove(tid string, seq int) {
	if i, _ := a.find(tid, seq); i >= 0 {
		a.pending = append(a.pending[:i], a.pending[i+1:]...)
	}
}

// ---------------------------------------------------------------- the world

type Cfg struct {
	Url                 string `json:"url"`
	CoroutineMaxSize    int    `json:"coroutineMaxSize"`
	SubmissionBatchSize int    `json:"submissionBatchSize"`
	CompletionBatchSize int    `json:"completionBatchSize"`
	PromiseBatchSize    int    `json:"promiseBatchSize"`
	ScheduleBatchSize   int    `json:"scheduleBatchSize"`
	TaskBatchSize       int    `json:"taskBatchSize"`
	TaskEnqueueDelay    int64  `json:"taskEnqueueDelay"`
	SignalTimeout       int64  `json:"signalTimeout"`
	ApiQueueSize        int    `json:"apiQueueSize"`
}

type world struct {
	cfg    Cfg
	bg     bool
	path   string
	store  *sqlite.SqliteStore
	router *router.Router
	api    api.API
	aio    *ownedAIO
	sys    *system.System
	rdb    *sql.DB
	events []M
	reg    *metrics.Metrics
	prev   map[string]any // previous implementation dump (for the property monitors)
	// monitor state (survives crash/restart of the server: it is the observer's memory)
	seen       map[string]M      // C01: first observed creation / completion fields per promise id
	submitAt   map[string]int64  // clock when a request was submitted (its coroutine starts no earlier)
	leases     map[string]*lease // C07: lower bound of the lease end per task id
	lockLeases map[string]*lease // C09: lower bound of the lease end per resource id (pid field = execution id)
	claimed    map[string]bool   // C07: (task id, counter) pairs whose claim was acknowledged
	respN      map[string]int    // C12: responses per request id
	lost       map[string]bool   // C12: requests in flight at a crash (their responses die with the process)
	submitted  []string          // C12: request ids in submission order
	stepNo     int
	submitStep map[string]int // step at which a request was submitted
	lastResp   map[string]M   // the implementation's response per request id (canonical form)
	lastHandoff map[string]string // C19: outcome of the most recent hand-off per task id (success | failure | error)
	finishedAt map[string]int // C07: step at which a task was first seen completed / timed out in the database
	doneStep   map[string]int // C01: step at which a promise was first observed completed
}

// c09Leases: the lock of a resource is not taken from its execution (row deleted or owned by another execution, without
// a release by the holder in the same batch) while the clock is before a lower bound of its lease end
// (acquire / re-acquire / heartbeat processing time + ttl, each >= the submission clock + ttl)
// hostileOn: the generator pools were extended with hostile values (-hostile)
var hostileOn bool

// pairsOf renders a string map given as a list of [key, value] pairs (any order) or as an object, sorted by key
func pairsOf(v any) string {
	out := []string{}
	switch x := v.(type) {
	case []any:
		for _, e := range x {
			if p, ok := e.([]any); ok && len(p) == 2 {
				out = append(out, fmt.Sprintf("%q=%q", p[0], p[1]))
			}
		}
	case map[string]any:
		for k, e := range x {
			out = append(out, fmt.Sprintf("%q=%q", k, e))
		}
	}
	sort.Strings(out)
	return "{" + strings.Join(out, ",") + "}"
}

func (w *world) c09Leases(counts map[string]int, reqs map[string]M, items []Item, prev, cur map[string]any, now int64) string {
	rowsOf := func(d map[string]any) map[string]map[string]any {
		out := map[string]map[string]any{}
		xs, _ := d["locks"].([]any)
		for _, x := range xs {
			if m, ok := x.(map[string]any); ok {
				out[fmt.Sprint(m["resourceId"])] = m
			}
		}
		return out
	}
	pl, cl := rowsOf(prev), rowsOf(cur)
	// the owning process: a lock written by an acquire of this batch names the acquiring process (it is that process whose
	// heartbeats must extend the lease)
	for _, it := range items {
		rq := reqs[it.Tid]
		c, _ := rq["c"].(map[string]any)
		if rq["k"] != "AcquireLock" || c == nil || it.Mode == "before" {
			continue
		}
		rid, eid, pid := fmt.Sprint(c["resourceId"]), fmt.Sprint(c["executionId"]), fmt.Sprint(c["processId"])
		u, t := cl[rid], pl[rid]
		if u == nil || fmt.Sprint(u["executionId"]) != eid || (t != nil && reflect.DeepEqual(t, u)) {
			continue
		}
		ambiguous := false
		for _, it2 := range items {
			rq2 := reqs[it2.Tid]
			c2, _ := rq2["c"].(map[string]any)
			if it2.Tid != it.Tid && rq2["k"] == "AcquireLock" && c2 != nil && fmt.Sprint(c2["resourceId"]) == rid && fmt.Sprint(c2["executionId"]) == eid && fmt.Sprint(c2["processId"]) != pid {
				ambiguous = true
			}
		}
		if !ambiguous && fmt.Sprint(u["processId"]) != pid {
			return fmt.Sprintf("lock on %q acquired by execution %s for process %s is stored as held by process %v: heartbeats of the owning process cannot extend it", rid, eid, pid, u["processId"])
		}
	}
	released := map[string]bool{}
	for _, it := range items {
		rq := reqs[it.Tid]
		if c, _ := rq["c"].(map[string]any); rq["k"] == "ReleaseLock" && c != nil {
			released[fmt.Sprint(c["resourceId"])+"\x00"+fmt.Sprint(c["executionId"])] = true
		}
	}
	for rid, t := range pl {
		l := w.lockLeases[rid]
		if l == nil || l.pid != fmt.Sprint(t["executionId"]) {
			continue
		}
		u := cl[rid]
		if u != nil && fmt.Sprint(u["executionId"]) == l.pid {
			continue
		}
		counts["lock_lost"]++
		// a re-acquire (or heartbeat) of the holder inside this very batch may have shortened the lease before the
		// sweep of the same batch ran: take the smaller bound
		lb := l.lb
		for _, it := range items {
			rq := reqs[it.Tid]
			c, _ := rq["c"].(map[string]any)
			if c == nil || it.Mode == "before" {
				continue
			}
			ttl := int64(-1)
			switch {
			case rq["k"] == "AcquireLock" && fmt.Sprint(c["resourceId"]) == rid && fmt.Sprint(c["executionId"]) == l.pid:
				ttl = jnum(c["ttl"])
				if l.ttl < ttl {
					ttl = l.ttl
				}
			case rq["k"] == "HeartbeatLocks" && fmt.Sprint(c["processId"]) == fmt.Sprint(t["processId"]):
				ttl = l.ttl
			}
			if ttl >= 0 && w.submitAt[it.Tid]+ttl < lb {
				lb = w.submitAt[it.Tid] + ttl
			}
		}
		if released[rid+"\x00"+l.pid] || now >= lb {
			continue
		}
		return fmt.Sprintf("lock on %q held by execution %s was taken away at clock %d although its lease (ttl %d) cannot end before %d: %v -> %v", rid, l.pid, now, l.ttl, lb, t, u)
	}
	for rid, u := range cl {
		eid := fmt.Sprint(u["executionId"])
		t := pl[rid]
		fresh := t == nil || fmt.Sprint(t["executionId"]) != eid
		if !fresh && reflect.DeepEqual(t, u) {
			continue
		}
		l := w.lockLeases[rid]
		if fresh || l == nil || l.pid != eid {
			l = nil
		}
		// candidates of this batch
		minTtl, minSubmit := int64(-1), int64(-1)
		for _, it := range items {
			rq := reqs[it.Tid]
			c, _ := rq["c"].(map[string]any)
			if c == nil || it.Mode == "before" {
				continue
			}
			switch {
			case rq["k"] == "AcquireLock" && fmt.Sprint(c["resourceId"]) == rid && fmt.Sprint(c["executionId"]) == eid:
				if ttl := jnum(c["ttl"]); minTtl < 0 || ttl < minTtl {
					minTtl = ttl
				}
			case rq["k"] == "HeartbeatLocks" && !fresh && fmt.Sprint(c["processId"]) == fmt.Sprint(u["processId"]):
			default:
				continue
			}
			if sa := w.submitAt[it.Tid]; minSubmit < 0 || sa < minSubmit {
				minSubmit = sa
			}
		}
		if minSubmit < 0 {
			delete(w.lockLeases, rid)
			continue
		}
		if l == nil {
			if minTtl < 0 {
				delete(w.lockLeases, rid)
				continue
			}
			counts["lock_acquired"]++
			w.lockLeases[rid] = &lease{lb: minSubmit + minTtl, ttl: minTtl, pid: eid}
			continue
		}
		// the row was renewed by a re-acquire (its own ttl) and / or a heartbeat (the ttl stored by the last acquire;
		// inside one batch the order is unknown, so the smaller of the old and the new ttl bounds the renewal)
		counts["lock_renewed"]++
		eff := l.ttl
		if minTtl >= 0 && minTtl < eff {
			eff = minTtl
		}
		if minTtl >= 0 {
			// a re-acquire REPLACES the lease (a shorter ttl shortens it)
			l.lb = minSubmit + eff
			l.ttl = minTtl
		} else if lb := minSubmit + eff; lb > l.lb {
			l.lb = lb
		}
	}
	for rid := range w.lockLeases {
		if cl[rid] == nil {
			delete(w.lockLeases, rid)
		}
	}
	return ""
}

type lease struct {
	counter, lb, ttl int64
	pid              string
}

func firstN(xs []any, n int) []any {
	if len(xs) > n {
		return xs[:n]
	}
	return xs
}

func jnum(v any) int64 {
	switch x := v.(type) {
	case json.Number:
		n, _ := x.Int64()
		return n
	case int64:
		return x
	case int:
		return int64(x)
	case float64:
		return int64(x)
	}
	return -1
}

// walkPromises calls f on every canonical promise object inside v
func walkPromises(v any, f func(map[string]any)) {
	switch x := v.(type) {
	case map[string]any:
		if _, ok := x["idempotencyKeyForComplete"]; ok {
			if _, ok := x["state"]; ok {
				f(x)
				return
			}
		}
		for _, y := range x {
			walkPromises(y, f)
		}
	case []any:
		for _, y := range x {
			walkPromises(y, f)
		}
	}
}

var c01Creation = []string{"param", "timeout", "tags", "idempotencyKeyForCreate", "createdOn"}
var c01Completion = []string{"state", "value", "completedOn", "idempotencyKeyForComplete"}

// c01Observe: every externally visible copy of a promise (responses, notification payloads) agrees with the first
// one observed on the creation fields, and - once completed - on state, value, completion time and completion key
func (w *world) c01Observe(ev map[string]any) string {
	if ev["e"] == "dispatch" {
		sub, _ := ev["sub"].(map[string]any)
		if sub == nil || sub["k"] != "sender" {
			return ""
		}
	} else if ev["e"] != "respond" {
		return ""
	}
	out := ""
	walkPromises(ev, func(p map[string]any) {
		if out != "" {
			return
		}
		id := fmt.Sprint(p["id"])
		first := w.seen[id]
		if first == nil {
			first = M{}
			for _, f := range c01Creation {
				first[f] = p[f]
			}
			w.seen[id] = first
		}
		for _, f := range c01Creation {
			if !reflect.DeepEqual(first[f], p[f]) {
				out = fmt.Sprintf("promise %q: creation field %s observed as %v and later as %v", id, f, first[f], p[f])
				return
			}
		}
		if jnum(p["state"]) == 1 {
			// a pending copy is a contradiction only when the request was issued after the completion had been observed
			// (requests in flight at that moment may have read earlier: that is concurrency, not a change of state)
			if tid := fmt.Sprint(ev["tid"]); first["state"] != nil && ev["e"] == "respond" && w.submitStep[tid] > w.doneStep[id] {
				out = fmt.Sprintf("promise %q was observed completed (state %v) at step %d; request %s submitted later at step %d is told it is pending", id, first["state"], w.doneStep[id], tid, w.submitStep[tid])
			}
			return
		}
		// a completed copy must agree with the committed row (the database only changes at store batches)
		if xs, ok := w.prev["promises"].([]any); ok {
			for _, x := range xs {
				row, _ := x.(map[string]any)
				if row == nil || fmt.Sprint(row["id"]) != id {
					continue
				}
				for _, f := range []string{"state", "completedOn", "idempotencyKeyForComplete"} {
					if !reflect.DeepEqual(fmt.Sprint(row[f]), fmt.Sprint(p[f])) {
						out = fmt.Sprintf("completed promise %q: %s is %v in this copy but %v in the committed row", id, f, p[f], row[f])
						return
					}
				}
			}
		}
		if first["state"] == nil {
			for _, f := range c01Completion {
				first[f] = p[f]
			}
			w.doneStep[id] = w.stepNo
			return
		}
		for _, f := range c01Completion {
			if !reflect.DeepEqual(first[f], p[f]) {
				out = fmt.Sprintf("completed promise %q: %s observed as %v and later as %v", id, f, first[f], p[f])
				return
			}
		}
	})
	return out
}

// c07Leases runs after a store batch: prev/cur are the dumps around it, items the executed submissions.
// A claimed task (counter c) whose lease end is known to be >= lb must not be taken away while the clock is < lb,
// unless its own timeout has passed or its root promise completed.
func (w *world) c07Leases(counts map[string]int, reqs map[string]M, items []Item, prev, cur map[string]any, now int64) string {
	rowsOf := func(d map[string]any, t string) map[string]map[string]any {
		out := map[string]map[string]any{}
		xs, _ := d[t].([]any)
		for _, x := range xs {
			if m, ok := x.(map[string]any); ok {
				out[fmt.Sprint(m["id"])] = m
			}
		}
		return out
	}
	pt, ct, cp := rowsOf(prev, "tasks"), rowsOf(cur, "tasks"), rowsOf(cur, "promises")
	// "when a promise completes all of ITS outstanding tasks are completed": a live task is finished in a batch only together
	// with its own root promise, by a completion of that very task, or — a notification — by its first hand-off
	for id, t := range pt {
		u := ct[id]
		if st := jnum(t["state"]); u == nil || !(st == 1 || st == 2 || st == 4) || jnum(u["state"]) != 8 {
			continue
		}
		root := fmt.Sprint(t["rootPromiseId"])
		if p := cp[root]; p != nil && jnum(p["state"]) != 1 {
			continue // finished with its promise
		}
		if m, _ := t["mesg"].(map[string]any); m != nil && fmt.Sprint(m["type"]) == "notify" {
			continue
		}
		own := false
		for _, it := range items {
			rq := reqs[it.Tid]
			c, _ := rq["c"].(map[string]any)
			if rq["k"] == "CompleteTask" && c != nil && fmt.Sprint(c["id"]) == id && it.Mode != "before" {
				own = true
			}
		}
		if !own {
			return fmt.Sprintf("task %q (root promise %q) was finished by this batch although promise %q is still pending and no completion of the task was requested: %v -> %v", id, root, root, t, u)
		}
	}
	// "a holder that renews its lease before it runs out keeps the task": a heartbeat of process P executed in this batch
	// renews every task claimed by exactly P (process ids are compared as given) that this batch did not otherwise touch
	for _, it := range items {
		rq := reqs[it.Tid]
		c, _ := rq["c"].(map[string]any)
		if rq["k"] != "HeartbeatTasks" || c == nil || it.Mode == "before" {
			continue
		}
		pid := fmt.Sprint(c["processId"])
		for id, t := range pt {
			u := ct[id]
			if u == nil || jnum(t["state"]) != 4 || fmt.Sprint(t["processId"]) != pid {
				continue
			}
			if jnum(u["state"]) != 4 || jnum(u["counter"]) != jnum(t["counter"]) || fmt.Sprint(u["processId"]) != pid || jnum(u["ttl"]) != jnum(t["ttl"]) {
				continue // finished, reclaimed or re-claimed by something else in this batch
			}
			if want := w.submitAt[it.Tid] + jnum(t["ttl"]); jnum(u["expiresAt"]) < want {
				return fmt.Sprintf("heartbeat of process %q (submitted at clock %d) did not renew the lease of task %q held by that process: expires at %d, ttl %d, so at least %d expected", pid, w.submitAt[it.Tid], id, jnum(u["expiresAt"]), jnum(t["ttl"]), want)
			}
			counts["lease_heartbeat_checked"]++
		}
	}
	for id, t := range pt {
		l := w.leases[id]
		u := ct[id]
		if l == nil || u == nil || jnum(t["state"]) != 4 || jnum(t["counter"]) != l.counter {
			continue
		}
		taken := jnum(u["counter"]) > l.counter || jnum(u["state"]) == 1 || jnum(u["state"]) == 2
		if taken && os.Getenv("DEBUG_LEASE") != "" {
			fmt.Fprintf(os.Stderr, "taken id=%s now=%d lb=%d ttl=%d prev=%v cur=%v\n", id, now, l.lb, l.ttl, t, u)
		}
		if taken {
			counts["lease_taken_away"]++
		}
		if !taken || now >= l.lb || jnum(t["timeout"]) <= now {
			continue
		}
		if p := cp[fmt.Sprint(t["rootPromiseId"])]; p != nil && jnum(p["state"]) != 1 {
			continue
		}
		return fmt.Sprintf("task %q (counter %d, holder %s) was taken away at clock %d although its lease (ttl %d) cannot end before %d: %v -> %v", id, l.counter, l.pid, now, l.ttl, l.lb, t, u)
	}
	// update the lease table from what this batch did
	for id, u := range ct {
		if jnum(u["state"]) != 4 {
			continue
		}
		t := pt[id]
		pid := fmt.Sprint(u["processId"])
		if t == nil || jnum(t["state"]) != 4 || jnum(t["counter"]) != jnum(u["counter"]) {
			// newly claimed by one of the claim requests of this batch
			var nl *lease
			for _, it := range items {
				rq := reqs[it.Tid]
				c, _ := rq["c"].(map[string]any)
				if rq["k"] == "CreatePromiseAndTask" && c != nil {
					// creates the task already claimed by the requester
					pr, _ := c["promise"].(map[string]any)
					tk, _ := c["task"].(map[string]any)
					if pr == nil || tk == nil || "__invoke:"+fmt.Sprint(pr["id"]) != id {
						continue
					}
					c = M{"id": id, "processId": tk["processId"], "ttl": tk["ttl"]}
				} else if rq["k"] != "ClaimTask" || c == nil {
					continue
				}
				if fmt.Sprint(c["id"]) != id || fmt.Sprint(c["processId"]) != pid || it.Mode == "before" {
					continue
				}
				lb, ttl := w.submitAt[it.Tid]+jnum(c["ttl"]), jnum(c["ttl"])
				if nl == nil {
					nl = &lease{counter: jnum(u["counter"]), lb: lb, ttl: ttl, pid: pid}
				} else {
					if lb < nl.lb {
						nl.lb = lb
					}
					if ttl < nl.ttl {
						nl.ttl = ttl
					}
				}
			}
			if nl != nil {
				counts["lease_claimed"]++
				w.leases[id] = nl
			} else {
				delete(w.leases, id)
			}
			continue
		}
		if l := w.leases[id]; l != nil && l.counter == jnum(u["counter"]) && jnum(u["expiresAt"]) != jnum(t["expiresAt"]) && now < l.lb {
			// renewed by one of the heartbeat requests of this batch, and certainly in time: the heartbeat was processed no
			// later than the clock of this batch, which is before the lease end as the PROPERTY defines it (claim or last
			// timely heartbeat plus ttl, of which lb is a lower bound).  The row's own expires_at is not used: it may stem
			// from a late heartbeat, which earns no protection (a sweep that had read the expired lease may still act).
			var lb int64 = -1
			for _, it := range items {
				rq := reqs[it.Tid]
				c, _ := rq["c"].(map[string]any)
				if rq["k"] != "HeartbeatTasks" || c == nil || fmt.Sprint(c["processId"]) != pid || it.Mode == "before" {
					continue
				}
				if x := w.submitAt[it.Tid] + l.ttl; lb < 0 || x < lb {
					lb = x
				}
			}
			counts["lease_renewed"]++
			if lb > l.lb {
				l.lb = lb
			}
		}
	}
	return ""
}

func newWorld(path string, cfg Cfg, bg bool) (*world, error) {
	os.Remove(path)
	boot, err := sql.Open("sqlite3", path)
	if err != nil {
		return nil, err
	}
	if _, err := boot.Exec(sqlite.CREATE_TABLE_STATEMENT); err != nil {
		return nil, err
	}
	boot.Close()
	w := &world{cfg: cfg, bg: bg, path: path, seen: map[string]M{}, submitAt: map[string]int64{}, leases: map[string]*lease{}, lockLeases: map[string]*lease{}, claimed: map[string]bool{}, submitStep: map[string]int{}, finishedAt: map[string]int{}, lastResp: map[string]M{}, lastHandoff: map[string]string{}, doneStep: map[string]int{}, respN: map[string]int{}, lost: map[string]bool{}}
	w.rdb, err = sql.Open("sqlite3", path)
	if err != nil {
		return nil, err
	}
	return w, w.boot()
}

// boot (re)creates every in-memory component over the same database file (= process restart)
func (w *world) boot() error {
	w.reg = metrics.New(prometheus.NewRegistry())
	st, err := sqlite.New(nil, w.reg, &sqlite.Config{Size: 10, BatchSize: 10, Path: w.path, TxTimeout: 10 * time.Second})
	if err != nil {
		return err
	}
	w.store = st
	rt, err := router.New(nil, w.reg, &router.Config{Size: 10, Workers: 1})
	if err != nil {
		return err
	}
	w.router = rt
	w.api = api.New(w.cfg.ApiQueueSize, w.reg)
	w.aio = &ownedAIO{seq: map[string]int{}, events: &w.events}
	sc := &system.Config{
		Url: w.cfg.Url, CoroutineMaxSize: w.cfg.CoroutineMaxSize, SubmissionBatchSize: w.cfg.SubmissionBatchSize,
		CompletionBatchSize: w.cfg.CompletionBatchSize, PromiseBatchSize: w.cfg.PromiseBatchSize, ScheduleBatchSize: w.cfg.ScheduleBatchSize,
		TaskBatchSize: w.cfg.TaskBatchSize, TaskEnqueueDelay: time.Duration(w.cfg.TaskEnqueueDelay) * time.Millisecond,
		SignalTimeout: time.Duration(w.cfg.SignalTimeout) * time.Millisecond,
	}
	s := system.New(w.api, w.aio, sc, w.reg)
	s.AddOnRequest(t_api.ReadPromise, coroutines.ReadPromise)
	s.AddOnRequest(t_api.SearchPromises, coroutines.SearchPromises)
	s.AddOnRequest(t_api.CreatePromise, coroutines.CreatePromise)
	s.AddOnRequest(t_api.CreatePromiseAndTask, coroutines.CreatePromiseAndTask)
	s.AddOnRequest(t_api.CreateCallback, coroutines.CreateCallback)
	s.AddOnRequest(t_api.CreateSubscription, coroutines.CreateSubscription)
	s.AddOnRequest(t_api.CompletePromise, coroutines.CompletePromise)
	s.AddOnRequest(t_api.ReadSchedule, coroutines.ReadSchedule)
	s.AddOnRequest(t_api.SearchSchedules, coroutines.SearchSchedules)
	s.AddOnRequest(t_api.CreateSchedule, coroutines.CreateSchedule)
	s.AddOnRequest(t_api.DeleteSchedule, coroutines.DeleteSchedule)
	s.AddOnRequest(t_api.AcquireLock, coroutines.AcquireLock)
	s.AddOnRequest(t_api.HeartbeatLocks, coroutines.HeartbeatLocks)
	s.AddOnRequest(t_api.ReleaseLock, coroutines.ReleaseLock)
	s.AddOnRequest(t_api.ClaimTask, coroutines.ClaimTask)
	s.AddOnRequest(t_api.CompleteTask, coroutines.CompleteTask)
	s.AddOnRequest(t_api.HeartbeatTasks, coroutines.HeartbeatTasks)
	if w.bg {
		s.AddBackground("TimeoutPromises", coroutines.TimeoutPromises)
		s.AddBackground("SchedulePromises", coroutines.SchedulePromises)
		s.AddBackground("TimeoutLocks", coroutines.TimeoutLocks)
		s.AddBackground("EnqueueTasks", coroutines.EnqueueTasks)
		s.AddBackground("TimeoutTasks", coroutines.TimeoutTasks)
	}
	w.sys = s
	return nil
}

func (w *world) close() {
	w.rdb.Close()
	os.Remove(w.path)
}

// ---------------------------------------------------------------- steps

type Item struct {
	Tid  string `json:"tid"`
	Seq  int    `json:"seq"`
	Mode string `json:"mode"`
}

type Step struct {
	Op      string `json:"op"` // submit | tick | exec | route | send | crash | shutdown
	Tid     string `json:"tid,omitempty"`
	Req     M      `json:"req,omitempty"`
	T       int64  `json:"t,omitempty"`
	Items   []Item `json:"items,omitempty"`
	Seq     int    `json:"seq,omitempty"`
	Outcome string `json:"outcome,omitempty"` // send: success | failure | error
}

func sortedEvents(evs []any) []string {
	out := []string{}
	for _, e := range evs {
		m, ok := e.(map[string]any)
		if ok && m["e"] == "bgDone" {
			continue
		}
		b, _ := lean.Marshal(e)
		out = append(out, string(b))
	}
	sort.Strings(out)
	return out
}

// forcePanics: execute steps for which the model predicts a panic anyway (used in a subprocess to
// confirm that the real implementation dies there)
// known findings tolerated (and counted) by the response monitors
var known = map[string]bool{}

// respMonitor evaluates response-level properties on one IMPLEMENTATION response emitted at tick t.
// Returns (property, finding key or "", description) — "" property = fine.
func respMonitor(w *world, reqs map[string]M, tid string, resp map[string]any, t int64) (string, string, string) {
	num := func(v any) int64 {
		switch x := v.(type) {
		case json.Number:
			n, _ := x.Int64()
			return n
		case int64:
			return x
		case int:
			return int64(x)
		}
		return -1
	}
	overdue := func(p any) bool {
		m, ok := p.(map[string]any)
		return ok && num(m["state"]) == 1 && num(m["timeout"]) <= t
	}
	kind, _ := reqs[tid]["k"].(string)
	if monitors["C14"] && !monitors["C04"] && resp["k"] == "searchPromises" {
		ps, _ := resp["promises"].([]any)
		for _, p := range ps {
			if overdue(p) {
				return "C14", "", fmt.Sprintf("search response reports a pending promise past its timeout at tick %d: %v", t, p)
			}
		}
	}
	if monitors["C04"] {
		switch resp["k"] {
		case "promise", "promiseTask":
			if (kind == "ReadPromise" || kind == "CreatePromise" || kind == "CreatePromiseAndTask" || kind == "CompletePromise") && overdue(resp["promise"]) {
				if num(resp["status"]) == 20100 {
					return "C04", "F5", fmt.Sprintf("fresh create answered 201 with a PENDING promise whose timeout %v <= clock %d", resp["promise"].(map[string]any)["timeout"], t)
				}
				return "C04", "", fmt.Sprintf("%s response reports a pending promise past its timeout at tick %d: %v", kind, t, resp["promise"])
			}
		case "searchPromises":
			ps, _ := resp["promises"].([]any)
			for _, p := range ps {
				if overdue(p) {
					return "C04", "", fmt.Sprintf("search response reports a pending promise past its timeout at tick %d: %v", t, p)
				}
			}
		}
	}
	if monitors["C09"] && kind == "AcquireLock" && resp["k"] == "lock" && num(resp["status"]) == 20100 {
		// "its lease (last acquire or heartbeat time plus ttl)": the lease end reported for a granted lock is the clock of the
		// acquire — some instant between the request's submission and its answer — plus the requested ttl, for every ttl (0 too)
		c, _ := reqs[tid]["c"].(map[string]any)
		l, _ := resp["lock"].(map[string]any)
		if c != nil && l != nil {
			ttl, exp := num(c["ttl"]), num(l["expiresAt"])
			if exp < w.submitAt[tid]+ttl || exp > t+ttl {
				return "C09", "", fmt.Sprintf("lock on %v granted to %v with ttl %d at a clock between %d and %d reports its lease end as %d", c["resourceId"], c["executionId"], ttl, w.submitAt[tid], t, exp)
			}
		}
	}
	if monitors["C03"] {
		c, _ := reqs[tid]["c"].(map[string]any)
		if kind == "CreatePromiseAndTask" && c != nil {
			c, _ = c["promise"].(map[string]any)
		}
		p, _ := resp["promise"].(map[string]any)
		st := num(resp["status"])
		rowOf := func(id any) map[string]any {
			xs, _ := w.prev["promises"].([]any)
			for _, x := range xs {
				if row, _ := x.(map[string]any); row != nil && fmt.Sprint(row["id"]) == fmt.Sprint(id) {
					return row
				}
			}
			return nil
		}
		switch {
		case c == nil:
		case kind == "CreatePromise" || kind == "CreatePromiseAndTask":
			strict := c["strict"] == true
			if st == 20000 && p != nil {
				if c["idempotencyKey"] == nil || !reflect.DeepEqual(c["idempotencyKey"], p["idempotencyKeyForCreate"]) {
					return "C03", "", fmt.Sprintf("%s without the promise's creation key was acknowledged (200): request key %v, promise key %v", kind, c["idempotencyKey"], p["idempotencyKeyForCreate"])
				}
				if strict && num(p["state"]) != 1 {
					return "C03", "", fmt.Sprintf("strict %s was acknowledged (200) although the promise is no longer pending (state %d)", kind, num(p["state"]))
				}
			}
			if st == 40900 && !strict && c["idempotencyKey"] != nil {
				if row := rowOf(c["id"]); row != nil && reflect.DeepEqual(fmt.Sprint(row["idempotencyKeyForCreate"]), fmt.Sprint(c["idempotencyKey"])) {
					return "C03", "", fmt.Sprintf("non-strict %s carrying the promise's own creation key %v was refused (409)", kind, c["idempotencyKey"])
				}
			}
		case kind == "CompletePromise":
			strict := c["strict"] == true
			if st == 20000 && p != nil {
				timedout := !strict && num(p["state"]) == 16
				keyOk := c["idempotencyKey"] != nil && reflect.DeepEqual(c["idempotencyKey"], p["idempotencyKeyForComplete"]) && (!strict || num(p["state"]) == num(c["state"]))
				if !timedout && !keyOk {
					return "C03", "", fmt.Sprintf("completion acknowledged (200) without the completion key / against strict mode: request %v, promise state %d key %v", c, num(p["state"]), p["idempotencyKeyForComplete"])
				}
			}
			if st >= 40300 && st < 40400 && !strict && c["idempotencyKey"] != nil {
				if row := rowOf(c["id"]); row != nil && num(row["state"]) != 1 && reflect.DeepEqual(fmt.Sprint(row["idempotencyKeyForComplete"]), fmt.Sprint(c["idempotencyKey"])) {
					return "C03", "", fmt.Sprintf("non-strict completion carrying the promise's own completion key %v was refused (%d)", c["idempotencyKey"], st)
				}
			}
		}
	}
	if monitors["C03"] || monitors["C01"] || monitors["C04"] {
		// "returns the promise as it stands": the database changes only at exec steps, so w.prev is the store at this
		// tick. A completed promise never changes, hence a response that reports promise p as completed while the store
		// already holds p completed must report exactly the stored completion.
		if p, _ := resp["promise"].(map[string]any); p != nil && num(p["state"]) != 1 && (kind == "ReadPromise" || kind == "CreatePromise" || kind == "CreatePromiseAndTask" || kind == "CompletePromise") {
			xs, _ := w.prev["promises"].([]any)
			for _, x := range xs {
				row, _ := x.(map[string]any)
				if row == nil || fmt.Sprint(row["id"]) != fmt.Sprint(p["id"]) || num(row["state"]) == 1 {
					continue
				}
				v, _ := p["value"].(map[string]any)
				nz := func(x any, zero string) string {
					if x == nil {
						return zero
					}
					return fmt.Sprint(x)
				}
				rowv := M{"state": fmt.Sprint(row["state"]), "completedOn": fmt.Sprint(row["completedOn"]), "idempotencyKeyForComplete": fmt.Sprint(row["idempotencyKeyForComplete"]),
					"value.data": nz(row["valueData"], ""), "value.headers": nz(row["valueHeaders"], "[]")}
				pv := M{"state": fmt.Sprint(p["state"]), "completedOn": fmt.Sprint(p["completedOn"]), "idempotencyKeyForComplete": fmt.Sprint(p["idempotencyKeyForComplete"]),
					"value.data": nz(v["data"], ""), "value.headers": nz(v["headers"], "[]")}
				for _, f := range []string{"state", "completedOn", "idempotencyKeyForComplete", "value.data", "value.headers"} {
					if rowv[f] != pv[f] {
						pid := "C03"
						if !monitors["C03"] {
							pid = "C01"
							if !monitors["C01"] {
								pid = "C04"
							}
						}
						return pid, "", fmt.Sprintf("%s response (status %d) reports promise %v as completed with %s=%v while the store holds it completed with %s=%v (stored state %d, reported state %d)", kind, num(resp["status"]), p["id"], f, pv[f], f, rowv[f], num(row["state"]), num(p["state"]))
					}
				}
			}
		}
	}
	if (monitors["C07"] || monitors["C06"]) && kind == "CompleteTask" {
		// acknowledged => stored: a completion answered 200 / 201 means the task is finished in the database (the database
		// changes only at exec steps, so w.prev is the store now; a finished task never becomes active again)
		c, _ := reqs[tid]["c"].(map[string]any)
		if st := num(resp["status"]); st == 20000 || st == 20100 {
			xs, _ := w.prev["tasks"].([]any)
			for _, x := range xs {
				row, _ := x.(map[string]any)
				if row != nil && fmt.Sprint(row["id"]) == fmt.Sprint(c["id"]) && num(row["state"]) != 8 && num(row["state"]) != 16 {
					pid := "C07"
					if !monitors["C07"] {
						pid = "C06"
					}
					return pid, "", fmt.Sprintf("completion of task %v was acknowledged (%d) but the task is not finished in the database: state %d, counter %d", c["id"], st, num(row["state"]), num(row["counter"]))
				}
			}
		}
	}
	if monitors["C07"] && kind == "CompleteTask" {
		// "a completion of an already finished task is merely acknowledged": a task that was finished in the database
		// before this request was even submitted is finished at every read of this request
		c, _ := reqs[tid]["c"].(map[string]any)
		if fa, ok := w.finishedAt[fmt.Sprint(c["id"])]; ok && fa < w.submitStep[tid] {
			if st := num(resp["status"]); st != 20000 && st < 50000 && st > 0 {
				return "C07", "", fmt.Sprintf("completion of task %v (request counter %v), which was finished before the request was submitted, answered %d instead of being acknowledged (200)", c["id"], c["counter"], st)
			}
		}
	}
	if monitors["C05"] && resp["k"] == "callback" && num(resp["status"]) == 20000 && resp["callback"] == nil {
		if p, ok := resp["promise"].(map[string]any); ok && num(p["state"]) == 1 {
			// acknowledged with a pending body and no callback: the registration must already exist
			c, _ := reqs[tid]["c"].(map[string]any)
			id := ""
			if kind == "CreateCallback" {
				id = "__resume:" + fmt.Sprint(c["rootPromiseId"]) + ":" + fmt.Sprint(c["promiseId"])
			} else {
				id = "__notify:" + fmt.Sprint(c["promiseId"]) + ":" + fmt.Sprint(c["id"])
			}
			var n int
			// the registration itself, or - when the promise completed between the coroutine's last read and this
			// response - the task it was turned into (same id)
			if err := w.rdb.QueryRow(`SELECT (SELECT count(*) FROM callbacks WHERE id = ?) + (SELECT count(*) FROM tasks WHERE id = ?)`, id, id).Scan(&n); err == nil && n == 0 {
				var st int
				_ = w.rdb.QueryRow(`SELECT state FROM promises WHERE id = ?`, fmt.Sprint(c["promiseId"])).Scan(&st)
				return "C05", "F1", fmt.Sprintf("registration %q acknowledged (200, promise reported PENDING, no callback) but no registration exists; the promise is now in state %d", id, st)
			}
		}
	}
	return "", "", ""
}

var forcePanics bool
var focusClock bool // small clock steps (hunting around deadlines and leases)
var monitors = map[string]bool{}

type runner struct {
	drv    *lean.Driver
	dir    string
	n      int
	counts map[string]int
	status map[string]int
	reqs   map[string]M
	now    int64
	// implOnly: the model is not consulted (used to hunt for a property violation on the implementation after the
	// correspondence has broken); only the property monitors decide
	implOnly bool
}

func (r *runner) call(req M) (M, any, error) {
	if r.implOnly {
		return M{}, nil, nil
	}
	return r.drv.Call(req)
}

type divergence struct {
	step int
	info M
}

// apply one step to model and implementation; returns a divergence description or nil
func (r *runner) apply(w *world, st Step) (M, bool) {
	w.stepNo++
	switch st.Op {
	case "submit", "tick", "crash", "shutdown":
		var req M
		switch st.Op {
		case "submit":
			req = M{"op": "submit", "tid": st.Tid, "req": st.Req}
		case "tick":
			req = M{"op": "tick", "t": st.T}
		default:
			req = M{"op": st.Op}
		}
		rep, _, err := r.call(req)
		if err != nil {
			return M{"harness": err.Error()}, false
		}
		mev, _ := rep["events"].([]any)
		// the hypothesis of the kernel-level no-assertion theorem (C13.StepOkV), evaluated by the model on this step
		if hv, ok := rep["hyp"].(bool); ok {
			if hv {
				r.counts["kernel_hyp_ok:"+st.Op]++
			} else {
				r.counts["kernel_hyp_not_met:"+st.Op]++
			}
		}
		if wv, _ := rep["wf_violation"].([]any); len(wv) > 0 {
			return M{"what": "a coroutine of the MODEL yielded a transaction that is not well-formed (guarantee side broken)", "diff": fmt.Sprint(wv), "step": st}, false
		}
		if lv, _ := rep["lin_violation"].([]any); len(lv) > 0 && monitors["C02"] {
			return M{"what": "linearizability: no database of the request's window and no tick of it makes the sequential server give this answer", "property": "C02",
				"diff": fmt.Sprint(lv, " events: ", mev), "property_violation": true, "step": st}, false
		}
		for _, e := range mev {
			if m, ok := e.(map[string]any); ok && m["e"] == "panic" {
				r.counts["predicted_panic"]++
				if forcePanics {
					continue
				}
				return M{"what": "model predicts a panic of the implementation (not executed in-process)", "panic": m, "step": st}, true
			}
		}
		w.events = nil
		if st.Op == "tick" {
			r.now = st.T
		}
		if st.Op == "submit" {
			w.submitAt[st.Tid] = r.now
			w.submitStep[st.Tid] = w.stepNo
			w.submitted = append(w.submitted, st.Tid)
			if r.reqs == nil {
				r.reqs = map[string]M{}
			}
			nr, _ := lean.NormalizeValue(st.Req)
			r.reqs[st.Tid] = nr.(map[string]any)
		}
		switch st.Op {
		case "submit":
			rq, err := canon.ParseReq(st.Req, st.Tid)
			if err != nil {
				return M{"harness": err.Error()}, false
			}
			tid := st.Tid
			w.api.EnqueueSQE(&bus.SQE[t_api.Request, t_api.Response]{Id: tid, Submission: rq, Callback: func(res *t_api.Response, err error) {
				w.events = append(w.events, M{"e": "respond", "tid": tid, "resp": canon.Resp(res, err)})
			}})
		case "tick":
			w.aio.now = st.T
			w.sys.Tick(st.T)
		case "crash":
			for _, tid := range w.submitted {
				if w.respN[tid] == 0 {
					w.lost[tid] = true
				}
			}
			w.lastHandoff = map[string]string{}
			if err := w.boot(); err != nil {
				return M{"harness": err.Error()}, false
			}
		case "shutdown":
			w.api.Shutdown()
		}
		iev := []any{}
		for _, e := range w.events {
			iev = append(iev, e)
		}
		in, _ := lean.NormalizeValue(iev)
		is, ms := sortedEvents(in.([]any)), sortedEvents(mev)
		for _, e := range in.([]any) {
			m := e.(map[string]any)
			if monitors["C01"] {
				if what := w.c01Observe(m); what != "" {
					return M{"what": "property monitor failed on an implementation response", "property": "C01", "diff": what, "property_violation": true, "step": st}, false
				}
			}
			if m["e"] == "dispatch" && monitors["C08"] {
				// "every dispatched message names the task id and counter with which a claim succeeds": the three links are the
				// server's url, the operation, the task's id exactly as stored, and its counter
				if sub, _ := m["sub"].(map[string]any); sub != nil && sub["k"] == "sender" {
					if sd, _ := sub["sender"].(map[string]any); sd != nil {
						if tk, _ := sd["task"].(map[string]any); tk != nil {
							for op, f := range map[string]string{"claim": "claimHref", "complete": "completeHref", "heartbeat": "heartbeatHref"} {
								want := fmt.Sprintf("%s/tasks/%s/%v/%d", w.cfg.Url, op, tk["id"], jnum(tk["counter"]))
								if fmt.Sprint(sd[f]) != want {
									return M{"what": "property monitor failed on the implementation", "property": "C08", "diff": fmt.Sprintf("the message for task %q (counter %d) carries the %s link %q; the link that names this task is %q", tk["id"], jnum(tk["counter"]), op, sd[f], want), "property_violation": true, "step": st}, false
								}
							}
						}
					}
				}
			}
			if m["e"] == "dispatch" && monitors["C04"] && st.Op == "tick" {
				// the decision to complete is taken in this tick, at clock st.T, against the store as it stands (w.prev):
				// at or after the promise's timeout only the time-out form may be written
				if sub, _ := m["sub"].(map[string]any); sub != nil && sub["k"] == "store" {
					txs, _ := sub["tx"].([]any)
					for _, c0 := range txs {
						cm, _ := c0.(map[string]any)
						if cm == nil || cm["k"] != "UpdatePromise" {
							continue
						}
						c, _ := cm["c"].(map[string]any)
						xs, _ := w.prev["promises"].([]any)
						for _, x := range xs {
							row, _ := x.(map[string]any)
							if row == nil || fmt.Sprint(row["id"]) != fmt.Sprint(c["id"]) || jnum(row["state"]) != 1 || jnum(row["timeout"]) > st.T {
								continue
							}
							v, _ := c["value"].(map[string]any)
							hs, _ := v["headers"].([]any)
							if (jnum(c["state"]) != 16 && jnum(c["state"]) != 2) || jnum(c["completedOn"]) != jnum(row["timeout"]) || fmt.Sprint(v["data"]) != "" || len(hs) != 0 {
								return M{"what": "property monitor failed on the implementation", "property": "C04", "diff": fmt.Sprintf("at clock %d, at or after the timeout %d of pending promise %v, a completion other than the time-out form was issued: %v", st.T, jnum(row["timeout"]), c["id"], c), "property_violation": true, "step": st}, false
							}
						}
					}
				}
			}
			if m["e"] == "respond" && monitors["C12"] {
				tid := fmt.Sprint(m["tid"])
				w.respN[tid]++
				if w.respN[tid] > 1 {
					return M{"what": "property monitor failed on an implementation response", "property": "C12", "diff": "request " + tid + " was answered twice", "property_violation": true, "step": st}, false
				}
				if w.submitStep[tid] == 0 {
					return M{"what": "property monitor failed on an implementation response", "property": "C12", "diff": "a response for request " + tid + " that was never submitted", "property_violation": true, "step": st}, false
				}
			}
			if m["e"] == "respond" {
				resp := m["resp"].(map[string]any)
				w.lastResp[fmt.Sprint(m["tid"])] = resp
				if rq := r.reqs[fmt.Sprint(m["tid"])]; monitors["C07"] && rq["k"] == "ClaimTask" && jnum(resp["status"]) == 20100 {
					c, _ := rq["c"].(map[string]any)
					key := fmt.Sprintf("%v#%v", c["id"], c["counter"])
					if w.claimed[key] {
						return M{"what": "property monitor failed on an implementation response", "property": "C07", "diff": "a second claim of task " + key + " (same counter) was acknowledged", "property_violation": true, "step": st}, false
					}
					w.claimed[key] = true
				}
				r.status[fmt.Sprintf("%v:%v", resp["k"], resp["status"])]++
				if pid, key, what := respMonitor(w, r.reqs, fmt.Sprint(m["tid"]), resp, r.now); pid != "" {
					if key != "" && known[key] {
						r.counts["known:"+key]++
					} else {
						return M{"what": "property monitor failed on an implementation response", "property": pid, "finding": key, "diff": what, "property_violation": true, "step": st}, false
					}
				}
			}
			r.counts["ev:"+m["e"].(string)]++
		}
		if !r.implOnly && !reflect.DeepEqual(is, ms) && monitors["C02"] {
			// the implementation answered differently from the model: is its answer still one a sequential server could give at
			// some instant of the request's window? (the model enumerates those answers: C02.seqRun over the history so far)
			mset := map[string]bool{}
			for _, x := range ms {
				mset[x] = true
			}
			for _, e := range in.([]any) {
				m := e.(map[string]any)
				b, _ := lean.Marshal(e)
				if m["e"] != "respond" || mset[string(b)] {
					continue
				}
				resp, _ := m["resp"].(map[string]any)
				if resp == nil || jnum(resp["status"]) >= 50000 || resp["k"] == "error" {
					continue
				}
				crep, _, err := r.call(M{"op": "lin_candidates", "tid": m["tid"]})
				if err != nil || crep["found"] != true {
					continue
				}
				strip := func(x any) any {
					mm, _ := x.(map[string]any)
					if mm == nil || mm["k"] != "claim" {
						return x
					}
					out := map[string]any{}
					for k, v := range mm {
						out[k] = v
					}
					out["rootPromise"], out["leafPromise"] = nil, nil
					return out
				}
				want, _ := lean.Marshal(strip(resp))
				ok := false
				cands, _ := crep["candidates"].([]any)
				for _, c := range cands {
					nc, err := lean.NormalizeValue(c)
					if err != nil {
						continue
					}
					if cb, _ := lean.Marshal(strip(nc)); string(cb) == string(want) {
						ok = true
						break
					}
				}
				if !ok {
					return M{"what": "linearizability: the implementation's answer is none of the answers the sequential server gives at any instant of the request's window", "property": "C02",
						"diff": fmt.Sprintf("request %v answered %s; sequential answers in its window: %d distinct, e.g. %v", m["tid"], want, len(cands), firstN(cands, 2)), "property_violation": true, "step": st}, false
				}
			}
		}
		if !r.implOnly && !reflect.DeepEqual(is, ms) {
			return M{"what": "events differ at " + st.Op, "step": st, "impl_only": diffStrings(is, ms), "model_only": diffStrings(ms, is)}, false
		}
	case "exec":
		items := []any{}
		for _, it := range st.Items {
			items = append(items, M{"tid": it.Tid, "seq": it.Seq, "mode": it.Mode})
		}
		rep, _, err := r.call(M{"op": "exec", "items": items})
		if err != nil {
			return M{"harness": err.Error()}, false
		}
		// implementation: one store.Process over the processed items
		var toProcess []*bus.SQE[t_aio.Submission, t_aio.Completion]
		var modes []string
		var all []*held
		for _, it := range st.Items {
			_, h := w.aio.find(it.Tid, it.Seq)
			if h == nil || h.sqe.Submission.Kind != t_aio.Store {
				continue
			}
			all = append(all, h)
			if it.Mode == "before" {
				w.aio.EnqueueCQE(&bus.CQE[t_aio.Submission, t_aio.Completion]{Id: h.sqe.Id, Callback: h.sqe.Callback, Error: errors.New("simulated failure before processing")})
			} else {
				toProcess = append(toProcess, h.sqe)
				modes = append(modes, it.Mode)
			}
		}
		implErr := false
		if len(toProcess) > 0 {
			cqes := w.store.Process(toProcess)
			for i, cqe := range cqes {
				if cqe.Error != nil {
					implErr = true
				}
				if modes[i] == "after" && cqe.Error == nil {
					cqe.Completion = nil
					cqe.Error = errors.New("simulated failure after processing")
				}
				w.aio.EnqueueCQE(cqe)
			}
		}
		for _, h := range all {
			w.aio.remove(h.tid, h.seq)
		}
		r.counts["store_batches"]++
		r.counts["store_txs"] += len(toProcess)
		if implErr {
			r.counts["store_batches_failed"]++
		}
		d, err := dump.Sqlite(w.rdb)
		if err != nil {
			return M{"harness": err.Error()}, false
		}
		if nd, err := lean.NormalizeValue(d); err == nil {
			cur := nd.(map[string]any)
			if pid, what := monitor.Check(monitors, w.prev, cur); pid != "" {
				return M{"what": "property monitor failed on the implementation", "property": pid, "diff": what, "property_violation": true, "step": st}, false
			}
			if monitors["C05"] {
				if prom, tid, what := monitor.FinishedAtBirth(w.prev, cur); what != "" {
					// F20: the completion block is written unconditionally — promise update, CompleteTasks by root, CreateTasks,
					// DeleteCallbacks.  When a second block for the same promise runs after the first (a lost race: lazy time-outs of
					// several requests, the sweep, a concurrent completion), its promise update changes nothing but its CompleteTasks
					// finishes the notification tasks (their root is that promise) the first block has just created
					blocks := 0
					for _, sqe := range toProcess {
						if sqe.Submission.Store == nil || sqe.Submission.Store.Transaction == nil {
							continue
						}
						for _, c := range sqe.Submission.Store.Transaction.Commands {
							if c.Kind == t_aio.UpdatePromise && c.UpdatePromise != nil && c.UpdatePromise.Id == prom {
								blocks++
							}
						}
					}
					if blocks >= 2 && strings.HasPrefix(tid, "__notify:") {
						if !known["F20"] {
							return M{"what": "property monitor failed on the implementation", "property": "C05", "finding": "F20", "diff": what + fmt.Sprintf(" — %d completion blocks for %q were executed in this batch: the later one's CompleteTasks finished the notification the first one created", blocks, prom), "property_violation": true, "step": st}, false
						}
						r.counts["known:F20"]++
					} else {
						return M{"what": "property monitor failed on the implementation", "property": "C05", "diff": what, "property_violation": true, "step": st}, false
					}
				}
			}
			if monitors["C09"] {
				pv := w.prev
				if pv == nil {
					pv = map[string]any{}
				}
				if what := w.c09Leases(r.counts, r.reqs, st.Items, pv, cur, r.now); what != "" {
					return M{"what": "property monitor failed on the implementation", "property": "C09", "diff": what, "property_violation": true, "step": st}, false
				}
			}
			if monitors["C07"] {
				pv := w.prev
				if pv == nil {
					pv = map[string]any{}
				}
				if what := w.c07Leases(r.counts, r.reqs, st.Items, pv, cur, r.now); what != "" {
					return M{"what": "property monitor failed on the implementation", "property": "C07", "diff": what, "property_violation": true, "step": st}, false
				}
			}
			if monitors["C10"] {
				// "fires once for every occurrence after the schedule's creation": a schedule created by the server starts with its
				// next run strictly after its creation time (on the cron grid, where the grid is known)
				grid := map[string]int64{"* * * * * *": 1000, "*/2 * * * * *": 2000, "*/5 * * * * *": 5000, "*/30 * * * * *": 30000, "* * * * *": 60000, "0 * * * * *": 60000}
				old := map[string]bool{}
				if ps, _ := w.prev["schedules"].([]any); ps != nil {
					for _, x := range ps {
						if row, _ := x.(map[string]any); row != nil {
							old[fmt.Sprint(row["id"], "#", row["sortId"])] = true
						}
					}
				}
				ss, _ := cur["schedules"].([]any)
				for _, x := range ss {
					row, _ := x.(map[string]any)
					if row == nil || old[fmt.Sprint(row["id"], "#", row["sortId"])] || row["lastRunTime"] != nil {
						continue
					}
					co, nx := jnum(row["createdOn"]), jnum(row["nextRunTime"])
					bad := nx <= co
					if g, ok := grid[fmt.Sprint(row["cron"])]; ok && !bad {
						bad = nx != (co/g+1)*g
					}
					if bad {
						return M{"what": "property monitor failed on the implementation", "property": "C10", "diff": fmt.Sprintf("schedule %v (cron %v) was created at %d with its first run at %d: the first occurrence after the creation is expected", row["id"], row["cron"], co, nx), "property_violation": true, "step": st}, false
					}
					// "the configured parameter and tags": the row stored for a schedule holds what a request that created it in this
					// batch configured (several creations of one id can be in a batch when deletions are in between: any of them)
					firstDiff, matched, cands := "", false, 0
					for _, it := range st.Items {
						rq := r.reqs[it.Tid]
						c, _ := rq["c"].(map[string]any)
						// (the coroutine reads with its even submissions and inserts with its odd ones)
						if rq["k"] != "CreateSchedule" || c == nil || it.Mode == "before" || it.Seq%2 != 1 || fmt.Sprint(c["id"]) != fmt.Sprint(row["id"]) {
							continue
						}
						cands++
						pp, _ := c["promiseParam"].(map[string]any)
						diff := ""
						for _, f := range [][3]any{{"cron", c["cron"], row["cron"]}, {"promise id template", c["promiseId"], row["promiseId"]}, {"description", c["description"], row["description"]},
							{"promise timeout", jnum(c["promiseTimeout"]), jnum(row["promiseTimeout"])}, {"promise tags", pairsOf(c["promiseTags"]), pairsOf(row["promiseTags"])},
							{"tags", pairsOf(c["tags"]), pairsOf(row["tags"])}, {"promise parameter headers", pairsOf(pp["headers"]), pairsOf(row["promiseParamHeaders"])},
							{"promise parameter data", fmt.Sprint(pp["data"]), fmt.Sprint(row["promiseParamData"])}} {
							if fmt.Sprint(f[1]) != fmt.Sprint(f[2]) {
								diff = fmt.Sprintf("schedule %v was stored with %v %v, the request that created it (%s) configured %v", row["id"], f[0], f[2], it.Tid, f[1])
								break
							}
						}
						if diff == "" {
							matched = true
							break
						}
						if firstDiff == "" {
							firstDiff = diff
						}
					}
					if cands > 0 && !matched {
						return M{"what": "property monitor failed on the implementation", "property": "C10", "diff": firstDiff, "property_violation": true, "step": st}, false
					}
					if matched {
						r.counts["schedule_row_checked"]++
					}
				}
			}
			if monitors["C19"] || monitors["C08"] {
				// "an undeliverable address results in a failed, retried hand-off": a task moves from init to enqueued only
				// after a hand-off the transport accepted
				old := map[string]map[string]any{}
				if ps, _ := w.prev["tasks"].([]any); ps != nil {
					for _, x := range ps {
						if row, _ := x.(map[string]any); row != nil {
							old[fmt.Sprint(row["id"])] = row
						}
					}
				}
				ts, _ := cur["tasks"].([]any)
				for _, x := range ts {
					row, _ := x.(map[string]any)
					if row == nil || jnum(row["state"]) != 2 {
						continue
					}
					id := fmt.Sprint(row["id"])
					if o := old[id]; o != nil && jnum(o["state"]) == 1 {
						if oc, ok := w.lastHandoff[id]; ok && oc != "success" {
							pid := "C19"
							if !monitors["C19"] {
								pid = "C08"
							}
							return M{"what": "property monitor failed on the implementation", "property": pid, "diff": fmt.Sprintf("task %q was recorded as handed over (init -> enqueued, attempt %d) although its last hand-off ended in %s", id, jnum(row["attempt"]), oc), "property_violation": true, "step": st}, false
						}
					}
				}
			}
			if ts, _ := cur["tasks"].([]any); monitors["C07"] {
				for _, x := range ts {
					if row, _ := x.(map[string]any); row != nil && (jnum(row["state"]) == 8 || jnum(row["state"]) == 16) {
						if _, seen := w.finishedAt[fmt.Sprint(row["id"])]; !seen {
							w.finishedAt[fmt.Sprint(row["id"])] = w.stepNo
						}
					}
				}
			}
			w.prev = cur
		}
		if r.implOnly {
			return nil, false
		}
		modelErr := rep["err"] != nil
		if modelErr != implErr {
			return M{"what": "store batch error/no-error differs", "step": st, "model_err": rep["err"]}, false
		}
		in, _ := lean.NormalizeValue(d)
		if !reflect.DeepEqual(in, rep["db"]) {
			return M{"what": "table dump differs after store batch", "step": st, "diff": firstDiff("db", in, rep["db"])}, false
		}
	case "route":
		_, h := w.aio.find(st.Tid, st.Seq)
		if h == nil || h.sqe.Submission.Kind != t_aio.Router {
			return nil, false
		}
		var cqe *bus.CQE[t_aio.Submission, t_aio.Completion]
		var routerPanic any
		func() {
			defer func() { routerPanic = recover() }()
			cqe = w.router.Process([]*bus.SQE[t_aio.Submission, t_aio.Completion]{h.sqe})[0]
		}()
		if routerPanic != nil {
			// in production this is the router worker goroutine: the process dies
			return M{"what": "the router worker panicked on a stored promise (the server process would die)", "property": "C13", "diff": fmt.Sprint(routerPanic),
				"promise": canon.Promise(h.sqe.Submission.Router.Promise), "property_violation": true, "step": st}, false
		}
		w.aio.remove(st.Tid, st.Seq)
		w.aio.EnqueueCQE(cqe)
		var cpl M
		if cqe.Error != nil || cqe.Completion == nil {
			cpl = M{"k": "err"}
		} else {
			cpl = M{"k": "router", "matched": cqe.Completion.Router.Matched, "recv": string(cqe.Completion.Router.Recv)}
			if cqe.Completion.Router.Matched {
				r.counts["router_matched"]++
			} else {
				r.counts["router_unmatched"]++
			}
		}
		if crep, _, err := r.call(M{"op": "complete", "tid": st.Tid, "seq": st.Seq, "cpl": cpl}); err == nil {
			if hv, ok := crep["hyp"].(bool); ok && hv {
				r.counts["kernel_hyp_ok:complete"]++
			} else if ok {
				r.counts["kernel_hyp_not_met:complete"]++
			}
		} else {
			return M{"harness": err.Error()}, false
		}
	case "send":
		_, h := w.aio.find(st.Tid, st.Seq)
		if h == nil {
			return nil, false
		}
		if h.sqe.Submission.Kind != t_aio.Sender && h.sqe.Submission.Kind != t_aio.Router {
			return nil, false
		}
		w.aio.remove(st.Tid, st.Seq)
		cqe := &bus.CQE[t_aio.Submission, t_aio.Completion]{Id: h.sqe.Id, Callback: h.sqe.Callback}
		var cpl M
		switch st.Outcome {
		case "error":
			cqe.Error = errors.New("simulated subsystem failure")
			cpl = M{"k": "err"}
		default:
			ok := st.Outcome == "success"
			cqe.Completion = &t_aio.Completion{Kind: t_aio.Sender, Tags: h.sqe.Submission.Tags, Sender: &t_aio.SenderCompletion{Success: ok}}
			cpl = M{"k": "sender", "success": ok}
		}
		r.counts["send_"+st.Outcome]++
		if h.sqe.Submission.Kind == t_aio.Sender && h.sqe.Submission.Sender != nil && h.sqe.Submission.Sender.Task != nil && h.sqe.Submission.Sender.Task.Mesg != nil {
			w.lastHandoff[h.sqe.Submission.Sender.Task.Id] = st.Outcome
			r.counts["send_"+string(h.sqe.Submission.Sender.Task.Mesg.Type)+"_"+st.Outcome]++
		}
		w.aio.EnqueueCQE(cqe)
		if crep, _, err := r.call(M{"op": "complete", "tid": st.Tid, "seq": st.Seq, "cpl": cpl}); err == nil {
			if hv, ok := crep["hyp"].(bool); ok && hv {
				r.counts["kernel_hyp_ok:complete"]++
			} else if ok {
				r.counts["kernel_hyp_not_met:complete"]++
			}
		} else {
			return M{"harness": err.Error()}, false
		}
	}
	return nil, false
}

func diffStrings(a, b []string) []string {
	set := map[string]int{}
	for _, x := range b {
		set[x]++
	}
	out := []string{}
	for _, x := range a {
		if set[x] > 0 {
			set[x]--
		} else {
			out = append(out, x)
		}
	}
	return out
}

func firstDiff(path string, a, b any) string {
	switch x := a.(type) {
	case map[string]any:
		y, ok := b.(map[string]any)
		if !ok {
			return fmt.Sprintf("%s: impl object vs model %v", path, b)
		}
		keys := map[string]bool{}
		for k := range x {
			keys[k] = true
		}
		for k := range y {
			keys[k] = true
		}
		ks := []string{}
		for k := range keys {
			ks = append(ks, k)
		}
		sort.Strings(ks)
		for _, k := range ks {
			if !reflect.DeepEqual(x[k], y[k]) {
				return firstDiff(path+"."+k, x[k], y[k])
			}
		}
	case []any:
		y, ok := b.([]any)
		if !ok {
			return fmt.Sprintf("%s: impl array vs model %v", path, b)
		}
		if len(x) != len(y) {
			return fmt.Sprintf("%s: impl has %d elements, model %d", path, len(x), len(y))
		}
		for i := range x {
			if !reflect.DeepEqual(x[i], y[i]) {
				return firstDiff(fmt.Sprintf("%s[%d]", path, i), x[i], y[i])
			}
		}
	}
	return fmt.Sprintf("%s: impl=%v model=%v", path, a, b)
}

// replayScript runs a recorded step list from a fresh world
func (r *runner) replayScript(cfg Cfg, bg bool, steps []Step) (int, M, bool) {
	r.n++
	w, err := newWorld(filepath.Join(r.dir, fmt.Sprintf("sys-%d.db", r.n)), cfg, bg)
	if err != nil {
		return 0, M{"harness": err.Error()}, false
	}
	defer w.close()
	r.now = 0 // the clock of the previous script must not leak into this one
	if _, _, err := r.call(M{"op": "sys_init", "cfg": cfg, "dialect": "sqlite", "bg": bg}); err != nil {
		return 0, M{"harness": err.Error()}, false
	}
	for i, st := range steps {
		if info, predicted := r.apply(w, st); info != nil {
			return i, info, predicted
		}
	}
	if monitors["C11"] {
		// the convergence phase is not part of the recorded steps: it is re-run from the state the script leaves
		now := r.now
		do := func(st Step) (M, bool) { return r.apply(w, st) }
		if info, pred := r.converge(w, cfg, &now, func(n int, dt int64) (M, bool) { return r.settle(w, do, &now, n, dt) }); info != nil {
			return len(steps), info, pred
		}
	}
	return -1, nil, false
}

// ---------------------------------------------------------------- generation

type genOpts struct {
	kinds       []t_api.Kind
	routedPct   int
	failPct     int
	crashPct    int
	shutdownPct int
	steps       int
}

func drawCfg(g *gen.G, small bool) Cfg {
	c := Cfg{Url: "http://r", CoroutineMaxSize: 1000, SubmissionBatchSize: 1000, CompletionBatchSize: 1000, PromiseBatchSize: 100,
		ScheduleBatchSize: 100, TaskBatchSize: 100, TaskEnqueueDelay: 1000, SignalTimeout: 1000, ApiQueueSize: 100}
	if small {
		pick := func(xs ...int) int {
			if g.R.Intn(3) != 0 {
				return xs[len(xs)-1]
			}
			return xs[g.R.Intn(len(xs))]
		}
		c.CoroutineMaxSize = pick(1, 2, 3, 1000)
		c.SubmissionBatchSize = pick(1, 2, 3, 1000)
		c.PromiseBatchSize = pick(1, 2, 100)
		c.ScheduleBatchSize = pick(1, 2, 100)
		c.TaskBatchSize = pick(1, 2, 100)
		c.TaskEnqueueDelay = int64(pick(0, 5000, 1000))
		c.SignalTimeout = int64(pick(1, 1000))
		c.CompletionBatchSize = 1000
		c.ApiQueueSize = pick(1, 2, 100)
	}
	return c
}

// generate runs one online-generated script; returns the recorded steps and a divergence (or nil)
func (r *runner) generate(g *gen.G, cfg Cfg, bg bool, o genOpts) ([]Step, int, M, bool) {
	r.n++
	w, err := newWorld(filepath.Join(r.dir, fmt.Sprintf("sys-%d.db", r.n)), cfg, bg)
	if err != nil {
		return nil, 0, M{"harness": err.Error()}, false
	}
	defer w.close()
	r.now = 0 // the clock of the previous script must not leak into this one
	if _, _, err := r.call(M{"op": "sys_init", "cfg": cfg, "dialect": "sqlite", "bg": bg}); err != nil {
		return nil, 0, M{"harness": err.Error()}, false
	}
	var steps []Step
	now := int64(10000)
	nreq := 0
	do := func(st Step) (M, bool) {
		steps = append(steps, st)
		return r.apply(w, st)
	}
	knownTasks := func() []gen.KnownTask {
		rows, err := w.rdb.Query(`SELECT id, counter, CASE WHEN state = 4 THEN coalesce(process_id, '') ELSE '' END FROM tasks`)
		if err != nil {
			return nil
		}
		defer rows.Close()
		var out []gen.KnownTask
		for rows.Next() {
			var t gen.KnownTask
			if rows.Scan(&t.Id, &t.Counter, &t.Pid) == nil {
				out = append(out, t)
			}
		}
		return out
	}
	settle := func(rounds int, dt int64) (M, bool) { return r.settle(w, do, &now, rounds, dt) }
	hasKind := func(k t_api.Kind) bool {
		for _, x := range o.kinds {
			if x == k {
				return true
			}
		}
		return false
	}
	// a worker's life: a routed promise is created, its task claimed with a real ttl, the lease renewed in time,
	// and lease sweeps run before the renewed lease ends
	leaseScenario := func() (M, bool) {
		nreq++
		id := g.Pick(gen.ApiPromiseIds)
		pidW := g.Pick(gen.ProcIds)
		ttl := []int{1000, 3000, 5000}[g.R.Intn(3)]
		mk := func(k t_api.Kind) (*t_api.Request, string) {
			nreq++
			tid := fmt.Sprintf("r%d", nreq)
			return &t_api.Request{Kind: k, Tags: map[string]string{"id": tid, "name": k.String(), "protocol": "dst"}}, tid
		}
		rq, tid := mk(t_api.CreatePromise)
		rq.CreatePromise = &t_api.CreatePromiseRequest{Id: id, Timeout: now + 100000, Tags: map[string]string{"resonate:invoke": "default"}}
		if info, pred := do(Step{Op: "submit", Tid: tid, Req: canon.Req(rq)}); info != nil {
			return info, pred
		}
		if info, pred := settle(4, 1); info != nil {
			return info, pred
		}
		slow := g.R.Intn(2) == 0
		if slow {
			// let a dispatch cycle hand the task to its receiver first (state enqueued, claim window open)
			now += cfg.SignalTimeout + 1
			if info, pred := settle(4, 1); info != nil {
				return info, pred
			}
		}
		counter := 1
		for _, t := range knownTasks() {
			if t.Id == "__invoke:"+id {
				counter = t.Counter
			}
		}
		rq, tid = mk(t_api.ClaimTask)
		rq.ClaimTask = &t_api.ClaimTaskRequest{Id: "__invoke:" + id, Counter: counter, ProcessId: pidW, Ttl: ttl}
		if info, pred := do(Step{Op: "submit", Tid: tid, Req: canon.Req(rq)}); info != nil {
			return info, pred
		}
		if slow {
			// a slow worker on a slow store: the claim is admitted, its first read stays queued; the claim window
			// of the enqueued task elapses and a lease sweep reads the task before the claim's update is written
			// (submissions are executed in the order they were dispatched throughout)
			execExcept := func(skip string) (M, bool) {
				items := []Item{}
				for _, h := range w.aio.pending {
					if h.sqe.Submission.Kind == t_aio.Store && h.tid != skip {
						items = append(items, Item{Tid: h.tid, Seq: h.seq, Mode: "ok"})
					}
				}
				if len(items) == 0 {
					return nil, false
				}
				return do(Step{Op: "exec", Items: items})
			}
			for k := 0; k < 3; k++ {
				now++
				if info, pred := do(Step{Op: "tick", T: now}); info != nil {
					return info, pred
				}
				if info, pred := execExcept(tid); info != nil {
					return info, pred
				}
			}
			now += cfg.TaskEnqueueDelay + cfg.SignalTimeout + 1
			if info, pred := do(Step{Op: "tick", T: now}); info != nil {
				return info, pred
			}
			// both reads, in dispatch order; then the claim's write and the sweep's write, in dispatch order, as two batches
			if info, pred := execExcept(""); info != nil {
				return info, pred
			}
			now++
			if info, pred := do(Step{Op: "tick", T: now}); info != nil {
				return info, pred
			}
			only := []Item{}
			for _, h := range w.aio.pending {
				if h.sqe.Submission.Kind == t_aio.Store && h.tid == tid {
					only = append(only, Item{Tid: h.tid, Seq: h.seq, Mode: "ok"})
				}
			}
			if len(only) > 0 {
				if info, pred := do(Step{Op: "exec", Items: only}); info != nil {
					return info, pred
				}
			}
			if info, pred := execExcept(tid); info != nil {
				return info, pred
			}
		}
		if info, pred := settle(3, 1); info != nil {
			return info, pred
		}
		for beat := 0; beat < 1+g.R.Intn(2); beat++ {
			now += int64(ttl) / 2
			if info, pred := do(Step{Op: "tick", T: now}); info != nil { // the server clock is what a tick says
				return info, pred
			}
			rq, tid = mk(t_api.HeartbeatTasks)
			rq.HeartbeatTasks = &t_api.HeartbeatTasksRequest{ProcessId: pidW}
			if info, pred := do(Step{Op: "submit", Tid: tid, Req: canon.Req(rq)}); info != nil {
				return info, pred
			}
			if info, pred := settle(3, 1); info != nil {
				return info, pred
			}
		}
		// sweeps before the renewed lease ends
		return settle(3, int64(ttl)/5)
	}
	// a lock holder's life: acquire, re-acquire with a longer ttl, heartbeat, and sweeps before the renewed lease ends
	lockScenario := func() (M, bool) {
		rid, eid, pidW := g.Pick(gen.ResIds), g.Pick(gen.ExecIds), g.Pick(gen.ProcIds)
		ttl1 := int64([]int{1000, 2000, 3000}[g.R.Intn(3)])
		ttl2 := ttl1 + int64([]int{0, 2000, 4000}[g.R.Intn(3)])
		submit := func(k t_api.Kind, fill func(*t_api.Request)) (M, bool) {
			nreq++
			tid := fmt.Sprintf("r%d", nreq)
			rq := &t_api.Request{Kind: k, Tags: map[string]string{"id": tid, "name": k.String(), "protocol": "dst"}}
			fill(rq)
			if info, pred := do(Step{Op: "submit", Tid: tid, Req: canon.Req(rq)}); info != nil {
				return info, pred
			}
			return settle(3, 1)
		}
		for _, ttl := range []int64{ttl1, ttl2} {
			ttl := ttl
			if info, pred := submit(t_api.AcquireLock, func(rq *t_api.Request) {
				rq.AcquireLock = &t_api.AcquireLockRequest{ResourceId: rid, ExecutionId: eid, ProcessId: pidW, Ttl: ttl}
			}); info != nil {
				return info, pred
			}
		}
		now += ttl1 / 2
		if info, pred := do(Step{Op: "tick", T: now}); info != nil {
			return info, pred
		}
		if info, pred := submit(t_api.HeartbeatLocks, func(rq *t_api.Request) {
			rq.HeartbeatLocks = &t_api.HeartbeatLocksRequest{ProcessId: pidW}
		}); info != nil {
			return info, pred
		}
		return settle(3, ttl1/2+1)
	}
	// two registrations whose derived ids coincide — callback (root a, promise b:c) and callback (root a:b, promise c) are both
	// __resume:a:b:c; subscription b:c on a and subscription c on a:b are both __notify:a:b:c.  The first is registered and its
	// promise completed (its task takes the id), then the second is registered and ITS promise completed: that completion meets
	// a task that already carries its registration's id
	collisionScenario := func() (M, bool) {
		submit := func(k t_api.Kind, fill func(*t_api.Request)) (M, bool) {
			nreq++
			tid := fmt.Sprintf("r%d", nreq)
			rq := &t_api.Request{Kind: k, Tags: map[string]string{"id": tid, "name": k.String(), "protocol": "dst"}}
			fill(rq)
			if info, pred := do(Step{Op: "submit", Tid: tid, Req: canon.Req(rq)}); info != nil {
				return info, pred
			}
			return settle(3, 1)
		}
		asSub := g.R.Intn(2) == 0
		pairs := [][2]string{{"b:c", "a"}, {"c", "a:b"}} // callbacks: (promise, root)
		if asSub {
			pairs = [][2]string{{"a", "b:c"}, {"a:b", "c"}} // subscriptions: (promise, subscription id)
		}
		if g.R.Intn(2) == 0 {
			pairs[0], pairs[1] = pairs[1], pairs[0]
		}
		for _, pr := range pairs {
			pr := pr
			if info, pred := submit(t_api.CreatePromise, func(rq *t_api.Request) {
				rq.CreatePromise = &t_api.CreatePromiseRequest{Id: pr[0], Timeout: now + 3000 + int64(g.R.Intn(3))*20000, Tags: map[string]string{}}
			}); info != nil {
				return info, pred
			}
			if asSub {
				if info, pred := submit(t_api.CreateSubscription, func(rq *t_api.Request) {
					rq.CreateSubscription = &t_api.CreateSubscriptionRequest{Id: pr[1], PromiseId: pr[0], Timeout: now + 100000, Recv: []byte(`"default"`)}
				}); info != nil {
					return info, pred
				}
			} else {
				if info, pred := submit(t_api.CreateCallback, func(rq *t_api.Request) {
					rq.CreateCallback = &t_api.CreateCallbackRequest{PromiseId: pr[0], RootPromiseId: pr[1], Timeout: now + 100000, Recv: []byte(`"default"`)}
				}); info != nil {
					return info, pred
				}
			}
			if info, pred := submit(t_api.CompletePromise, func(rq *t_api.Request) {
				rq.CompletePromise = &t_api.CompletePromiseRequest{Id: pr[0], State: promise.Resolved}
			}); info != nil {
				return info, pred
			}
		}
		return settle(3, 1)
	}
	// a registration's life: a promise gets a callback and a subscription, completes, and the resulting resume / notify
	// tasks are dispatched with every kind of transport answer (success, refusal, error), over a few dispatch cycles
	registrationScenario := func() (M, bool) {
		id := g.Pick(gen.ApiPromiseIds)
		submit := func(k t_api.Kind, fill func(*t_api.Request)) (M, bool) {
			nreq++
			tid := fmt.Sprintf("r%d", nreq)
			rq := &t_api.Request{Kind: k, Tags: map[string]string{"id": tid, "name": k.String(), "protocol": "dst"}}
			fill(rq)
			if info, pred := do(Step{Op: "submit", Tid: tid, Req: canon.Req(rq)}); info != nil {
				return info, pred
			}
			return settle(3, 1)
		}
		if info, pred := submit(t_api.CreatePromise, func(rq *t_api.Request) {
			rq.CreatePromise = &t_api.CreatePromiseRequest{Id: id, Timeout: now + 100000, Tags: map[string]string{}}
		}); info != nil {
			return info, pred
		}
		if g.R.Intn(2) == 0 {
			// a registration racing with the completion: the registration reads the promise (pending), the completion is
			// written, then the registration's insert runs (no row: the promise is no longer pending) and its re-read
			// succeeds or fails; all in dispatch order per request
			execTid := func(tid string, mode string) (M, bool) {
				items := []Item{}
				for _, h := range w.aio.pending {
					if h.sqe.Submission.Kind == t_aio.Store && h.tid == tid {
						items = append(items, Item{Tid: h.tid, Seq: h.seq, Mode: mode})
					}
				}
				if len(items) == 0 {
					return nil, false
				}
				return do(Step{Op: "exec", Items: items})
			}
			tickNow := func() (M, bool) { now++; return do(Step{Op: "tick", T: now}) }
			nreq++
			rtid := fmt.Sprintf("r%d", nreq)
			rq := &t_api.Request{Kind: t_api.CreateSubscription, Tags: map[string]string{"id": rtid, "name": "CreateSubscription", "protocol": "dst"}}
			rq.CreateSubscription = &t_api.CreateSubscriptionRequest{Id: "race" + fmt.Sprint(nreq), PromiseId: id, Timeout: now + 100000, Recv: []byte(`"default"`)}
			if g.R.Intn(2) == 0 {
				rq = &t_api.Request{Kind: t_api.CreateCallback, Tags: map[string]string{"id": rtid, "name": "CreateCallback", "protocol": "dst"}}
				rq.CreateCallback = &t_api.CreateCallbackRequest{PromiseId: id, RootPromiseId: "race-" + id, Timeout: now + 100000, Recv: []byte(`"default"`)}
			}
			nreq++
			ctid := fmt.Sprintf("r%d", nreq)
			cq := &t_api.Request{Kind: t_api.CompletePromise, Tags: map[string]string{"id": ctid, "name": "CompletePromise", "protocol": "dst"}}
			cq.CompletePromise = &t_api.CompletePromiseRequest{Id: id, State: promise.Resolved}
			seq := []func() (M, bool){
				func() (M, bool) { return do(Step{Op: "submit", Tid: rtid, Req: canon.Req(rq)}) },
				tickNow,
				func() (M, bool) { return execTid(rtid, "ok") }, // the registration's read: pending
				func() (M, bool) { return do(Step{Op: "submit", Tid: ctid, Req: canon.Req(cq)}) },
				tickNow,                                           // registration dispatches its insert, completion its read
				func() (M, bool) { return execTid(ctid, "ok") },
				tickNow,
				func() (M, bool) { return execTid(ctid, "ok") }, // the completion block
				tickNow,
				func() (M, bool) { return execTid(rtid, "ok") }, // the insert: 0 rows
				tickNow,
				func() (M, bool) { return execTid(rtid, []string{"ok", "before", "after"}[g.R.Intn(3)]) }, // the re-read
				tickNow,
			}
			for _, f := range seq {
				if info, pred := f(); info != nil {
					return info, pred
				}
			}
			return settle(3, 1)
		}
		if info, pred := submit(t_api.CreateCallback, func(rq *t_api.Request) {
			rq.CreateCallback = &t_api.CreateCallbackRequest{PromiseId: id, RootPromiseId: "root-" + id, Timeout: now + 100000, Recv: []byte(`"default"`)}
		}); info != nil {
			return info, pred
		}
		if info, pred := submit(t_api.CreateSubscription, func(rq *t_api.Request) {
			rq.CreateSubscription = &t_api.CreateSubscriptionRequest{Id: "n" + fmt.Sprint(g.R.Intn(2)), PromiseId: id, Timeout: now + 100000, Recv: []byte(`"default"`)}
		}); info != nil {
			return info, pred
		}
		if info, pred := submit(t_api.CompletePromise, func(rq *t_api.Request) {
			rq.CompletePromise = &t_api.CompletePromiseRequest{Id: id, State: promise.Resolved}
		}); info != nil {
			return info, pred
		}
		// dispatch cycles with drawn transport answers
		for cycle := 0; cycle < 3; cycle++ {
			now += cfg.SignalTimeout + cfg.TaskEnqueueDelay + 1
			if info, pred := do(Step{Op: "tick", T: now}); info != nil {
				return info, pred
			}
			for round := 0; round < 4; round++ {
				var items []Item
				for _, h := range w.aio.pending {
					if h.sqe.Submission.Kind == t_aio.Store {
						items = append(items, Item{Tid: h.tid, Seq: h.seq, Mode: "ok"})
					}
				}
				if len(items) > 0 {
					if info, pred := do(Step{Op: "exec", Items: items}); info != nil {
						return info, pred
					}
				}
				for _, h := range append([]*held{}, w.aio.pending...) {
					if h.sqe.Submission.Kind == t_aio.Sender {
						oc := []string{"success", "success", "failure", "error"}[g.R.Intn(4)]
						if info, pred := do(Step{Op: "send", Tid: h.tid, Seq: h.seq, Outcome: oc}); info != nil {
							return info, pred
						}
					} else if h.sqe.Submission.Kind == t_aio.Router {
						if info, pred := do(Step{Op: "route", Tid: h.tid, Seq: h.seq}); info != nil {
							return info, pred
						}
					}
				}
				now++
				if info, pred := do(Step{Op: "tick", T: now}); info != nil {
					return info, pred
				}
			}
		}
		return nil, false
	}
	// C14 as stated: a population with mixed tags, then one search followed through its cursors to the end; the pages
	// together must be exactly the matching set, once each, newest first, nothing that does not match
	traversalScenario := func() (M, bool) {
		sched := hasKind(t_api.SearchSchedules) && hasKind(t_api.CreateSchedule) && g.R.Intn(2) == 0
		pre := fmt.Sprintf("trav%d-", nreq)
		n := 4 + g.R.Intn(4)
		team := func(i int) string { return []string{"a", "b"}[(i*7+i/2)%2] }
		mk := func(k t_api.Kind) (*t_api.Request, string) {
			nreq++
			tid := fmt.Sprintf("r%d", nreq)
			return &t_api.Request{Kind: k, Tags: map[string]string{"id": tid, "name": k.String(), "protocol": "dst"}}, tid
		}
		for i := 0; i < n; i++ {
			var rq *t_api.Request
			var tid string
			if sched {
				rq, tid = mk(t_api.CreateSchedule)
				rq.CreateSchedule = &t_api.CreateScheduleRequest{Id: pre + fmt.Sprint(i), Cron: "0 * * * * *", Tags: map[string]string{"team": team(i), "n": fmt.Sprint(i)},
					PromiseId: pre + "p.{{.timestamp}}", PromiseTimeout: 1000, PromiseTags: map[string]string{}}
			} else {
				rq, tid = mk(t_api.CreatePromise)
				rq.CreatePromise = &t_api.CreatePromiseRequest{Id: pre + fmt.Sprint(i), Timeout: now + 1000000, Tags: map[string]string{"team": team(i), "n": fmt.Sprint(i)}}
			}
			if info, pred := do(Step{Op: "submit", Tid: tid, Req: canon.Req(rq)}); info != nil {
				return info, pred
			}
			if info, pred := settle(2, 1); info != nil {
				return info, pred
			}
		}
		if info, pred := settle(3, 1); info != nil {
			return info, pred
		}
		// the matching set as the database holds it now (creations may have failed under injected failures)
		want := []string{}
		table := "promises"
		if sched {
			table = "schedules"
		}
		if rows, err := w.rdb.Query(`SELECT id, tags FROM ` + table + ` WHERE id LIKE '` + pre + `%' AND id NOT LIKE '` + pre + `p.%' ORDER BY sort_id DESC`); err == nil {
			for rows.Next() {
				var id string
				var tags []byte
				if rows.Scan(&id, &tags) == nil {
					tm := map[string]string{}
					_ = json.Unmarshal(tags, &tm)
					if tm["team"] == "a" {
						want = append(want, id)
					}
				}
			}
			rows.Close()
		} else {
			return nil, false
		}
		limit := 1 + g.R.Intn(2)
		var sortId *int64
		got := []string{}
		for page := 0; page < 2*n+2; page++ {
			var rq *t_api.Request
			var tid string
			if sched {
				rq, tid = mk(t_api.SearchSchedules)
				rq.SearchSchedules = &t_api.SearchSchedulesRequest{Id: pre + "*", Tags: map[string]string{"team": "a"}, Limit: limit, SortId: sortId}
			} else {
				rq, tid = mk(t_api.SearchPromises)
				rq.SearchPromises = &t_api.SearchPromisesRequest{Id: pre + "*", States: []promise.State{promise.Pending, promise.Resolved, promise.Rejected, promise.Timedout, promise.Canceled},
					Tags: map[string]string{"team": "a"}, Limit: limit, SortId: sortId}
			}
			if page > 0 {
				// the next request is whatever the previous page's cursor says (as a client would send it back)
				prev := w.lastResp[fmt.Sprintf("r%d", nreq-1)]
				cur, _ := prev["cursor"].(map[string]any)
				if cur == nil {
					break
				}
				tags := map[string]string{}
				if ps, _ := cur["tags"].([]any); ps != nil {
					for _, kv := range ps {
						if p2, _ := kv.([]any); len(p2) == 2 {
							tags[fmt.Sprint(p2[0])] = fmt.Sprint(p2[1])
						}
					}
				}
				var sid *int64
				if cur["sortId"] != nil {
					v := jnum(cur["sortId"])
					sid = &v
				}
				if sched {
					rq.SearchSchedules = &t_api.SearchSchedulesRequest{Id: fmt.Sprint(cur["id"]), Tags: tags, Limit: int(jnum(cur["limit"])), SortId: sid}
				} else {
					sts := []promise.State{}
					if xs, _ := cur["states"].([]any); xs != nil {
						for _, x := range xs {
							sts = append(sts, promise.State(jnum(x)))
						}
					}
					rq.SearchPromises = &t_api.SearchPromisesRequest{Id: fmt.Sprint(cur["id"]), States: sts, Tags: tags, Limit: int(jnum(cur["limit"])), SortId: sid}
				}
			}
			if info, pred := do(Step{Op: "submit", Tid: tid, Req: canon.Req(rq)}); info != nil {
				return info, pred
			}
			if info, pred := settle(3, 1); info != nil {
				return info, pred
			}
			resp := w.lastResp[tid]
			if resp == nil || jnum(resp["status"]) != 20000 {
				return nil, false // not answered / platform error: no verdict from this traversal
			}
			key := "promises"
			if sched {
				key = "schedules"
			}
			rows, _ := resp[key].([]any)
			if len(rows) > limit {
				return M{"what": "property monitor failed on an implementation response", "property": "C14", "diff": fmt.Sprintf("a page of %d rows for page size %d", len(rows), limit), "property_violation": true}, false
			}
			for _, x := range rows {
				if m, _ := x.(map[string]any); m != nil {
					got = append(got, fmt.Sprint(m["id"]))
				}
			}
			if resp["cursor"] == nil {
				break
			}
		}
		if monitors["C14"] && !reflect.DeepEqual(got, want) {
			return M{"what": "property monitor failed on an implementation response", "property": "C14",
				"diff": fmt.Sprintf("following the cursors of a search for %s* with tag team=a (page size %d) returned %v; the matching set, newest first, is %v", pre, limit, got, want), "property_violation": true}, false
		}
		r.counts["traversals"]++
		return nil, false
	}
	// a request straddling the deadline: admitted at a clock just before the promise's timeout, its store round trip done,
	// answered at a clock at / just after the timeout - for every request kind that looks at the promise
	straddleScenario := func() (M, bool) {
		id := g.Pick(gen.ApiPromiseIds)
		mk := func(k t_api.Kind) (*t_api.Request, string) {
			nreq++
			tid := fmt.Sprintf("r%d", nreq)
			return &t_api.Request{Kind: k, Tags: map[string]string{"id": tid, "name": k.String(), "protocol": "dst"}}, tid
		}
		timeout := now + 50 + int64(g.R.Intn(3))*100
		tags := map[string]string{}
		if g.R.Intn(3) == 0 {
			tags["resonate:timeout"] = "true"
		}
		rq, tid := mk(t_api.CreatePromise)
		rq.CreatePromise = &t_api.CreatePromiseRequest{Id: id, Timeout: timeout, Tags: tags, Param: promise.Value{Headers: map[string]string{"h": "1"}, Data: []byte("d")}}
		if info, pred := do(Step{Op: "submit", Tid: tid, Req: canon.Req(rq)}); info != nil {
			return info, pred
		}
		if info, pred := settle(3, 1); info != nil {
			return info, pred
		}
		var kinds []t_api.Kind
		for _, k := range []t_api.Kind{t_api.ReadPromise, t_api.CreatePromise, t_api.CompletePromise, t_api.SearchPromises, t_api.CreateCallback, t_api.CreateSubscription} {
			if hasKind(k) {
				kinds = append(kinds, k)
			}
		}
		if len(kinds) == 0 || now >= timeout-2 {
			return nil, false
		}
		k := kinds[g.R.Intn(len(kinds))]
		rq, tid = mk(k)
		switch k {
		case t_api.ReadPromise:
			rq.ReadPromise = &t_api.ReadPromiseRequest{Id: id}
		case t_api.CreatePromise:
			rq.CreatePromise = &t_api.CreatePromiseRequest{Id: id, Timeout: timeout + 1000, Strict: g.R.Intn(2) == 0, Tags: map[string]string{}}
		case t_api.CompletePromise:
			rq.CompletePromise = &t_api.CompletePromiseRequest{Id: id, State: promise.Resolved, Strict: g.R.Intn(2) == 0, Value: promise.Value{Headers: map[string]string{}, Data: []byte("v")}}
		case t_api.SearchPromises:
			rq.SearchPromises = &t_api.SearchPromisesRequest{Id: "*", States: []promise.State{promise.Pending, promise.Resolved, promise.Rejected, promise.Timedout, promise.Canceled}, Tags: map[string]string{}, Limit: 10}
		case t_api.CreateCallback:
			rq.CreateCallback = &t_api.CreateCallbackRequest{PromiseId: id, RootPromiseId: "root-" + id, Timeout: timeout + 1000, Recv: []byte(`"default"`)}
		case t_api.CreateSubscription:
			rq.CreateSubscription = &t_api.CreateSubscriptionRequest{Id: "strad", PromiseId: id, Timeout: timeout + 1000, Recv: []byte(`"default"`)}
		}
		if info, pred := do(Step{Op: "submit", Tid: tid, Req: canon.Req(rq)}); info != nil {
			return info, pred
		}
		now = timeout - 1
		if info, pred := do(Step{Op: "tick", T: now}); info != nil { // admitted just before the deadline
			return info, pred
		}
		now = timeout + int64(g.R.Intn(2))
		return settle(5, 0) // its store round trips are answered at / just after the deadline (the clock stays there)
	}
	// two completions racing across the deadline: both read the promise while it is pending; A is resumed just before the
	// deadline and writes a real completion, B is resumed at the deadline and writes the time-out; A's write is executed first,
	// so B's changes no row and B has to answer from what is stored
	completionRaceScenario := func() (M, bool) {
		id := g.Pick(gen.ApiPromiseIds)
		mk := func(k t_api.Kind) (*t_api.Request, string) {
			nreq++
			tid := fmt.Sprintf("r%d", nreq)
			return &t_api.Request{Kind: k, Tags: map[string]string{"id": tid, "name": k.String(), "protocol": "dst"}}, tid
		}
		execTid := func(tid string) (M, bool) {
			items := []Item{}
			for _, h := range w.aio.pending {
				if h.sqe.Submission.Kind == t_aio.Store && h.tid == tid {
					items = append(items, Item{Tid: h.tid, Seq: h.seq, Mode: "ok"})
				}
			}
			if len(items) == 0 {
				return nil, false
			}
			return do(Step{Op: "exec", Items: items})
		}
		execBoth := func(a, b string) (M, bool) {
			items := []Item{}
			for _, t := range []string{a, b} {
				for _, h := range w.aio.pending {
					if h.sqe.Submission.Kind == t_aio.Store && h.tid == t {
						items = append(items, Item{Tid: h.tid, Seq: h.seq, Mode: "ok"})
					}
				}
			}
			if len(items) == 0 {
				return nil, false
			}
			return do(Step{Op: "exec", Items: items})
		}
		timeout := now + 60 + int64(g.R.Intn(3))*100
		tags := map[string]string{}
		if g.R.Intn(3) == 0 {
			tags["resonate:timeout"] = "true"
		}
		rq, tid := mk(t_api.CreatePromise)
		rq.CreatePromise = &t_api.CreatePromiseRequest{Id: id, Timeout: timeout, Tags: tags, Param: promise.Value{Headers: map[string]string{}, Data: []byte("d")}}
		if info, pred := do(Step{Op: "submit", Tid: tid, Req: canon.Req(rq)}); info != nil {
			return info, pred
		}
		if info, pred := settle(3, 1); info != nil {
			return info, pred
		}
		if now >= timeout-8 || len(w.aio.pending) > 0 {
			return nil, false
		}
		ra, ta := mk(t_api.CompletePromise)
		ra.CompletePromise = &t_api.CompletePromiseRequest{Id: id, State: promise.Resolved, IdempotencyKey: nil, Value: promise.Value{Headers: map[string]string{"h": "a"}, Data: []byte("A")}}
		rb, tb := mk(t_api.CompletePromise)
		st := []promise.State{promise.Resolved, promise.Rejected, promise.Canceled}[g.R.Intn(3)]
		rb.CompletePromise = &t_api.CompletePromiseRequest{Id: id, State: st, Strict: g.R.Intn(2) == 0, Value: promise.Value{Headers: map[string]string{}, Data: []byte("B")}}
		tickAt := func(t int64) (M, bool) { now = t; return do(Step{Op: "tick", T: now}) }
		seq := []func() (M, bool){
			func() (M, bool) { return do(Step{Op: "submit", Tid: ta, Req: canon.Req(ra)}) },
			func() (M, bool) { return tickAt(timeout - 4) }, // A reads
			func() (M, bool) { return execTid(ta) },
			func() (M, bool) { return do(Step{Op: "submit", Tid: tb, Req: canon.Req(rb)}) },
			func() (M, bool) { return tickAt(timeout - 2) }, // A resumed before the deadline: writes its completion; B reads
			func() (M, bool) { return execTid(tb) },           // only B's read: A's write stays pending
			func() (M, bool) { return tickAt(timeout) },       // B resumed at the deadline: writes the time-out
			func() (M, bool) { return execBoth(ta, tb) },      // A's write first, then B's (0 rows)
			func() (M, bool) { return tickAt(timeout + 1) },
		}
		for _, f := range seq {
			if info, pred := f(); info != nil {
				return info, pred
			}
		}
		return settle(4, 1)
	}
	// two completions of one claimed task racing: both read the task while it is claimed, A's guarded update is executed
	// first, B's then changes no row — B has to look again and answer what a server handling it after A would answer
	taskCompletionRaceScenario := func() (M, bool) {
		id := fmt.Sprintf("tcr%d", nreq)
		mk := func(k t_api.Kind) (*t_api.Request, string) {
			nreq++
			tid := fmt.Sprintf("r%d", nreq)
			return &t_api.Request{Kind: k, Tags: map[string]string{"id": tid, "name": k.String(), "protocol": "dst"}}, tid
		}
		execTids := func(tids ...string) (M, bool) {
			items := []Item{}
			for _, t := range tids {
				for _, h := range w.aio.pending {
					if h.sqe.Submission.Kind == t_aio.Store && h.tid == t {
						items = append(items, Item{Tid: h.tid, Seq: h.seq, Mode: "ok"})
					}
				}
			}
			if len(items) == 0 {
				return nil, false
			}
			return do(Step{Op: "exec", Items: items})
		}
		rq, tid := mk(t_api.CreatePromise)
		rq.CreatePromise = &t_api.CreatePromiseRequest{Id: id, Timeout: now + 500000, Tags: map[string]string{"resonate:invoke": "default"}, Param: promise.Value{Headers: map[string]string{}, Data: []byte{}}}
		if info, pred := do(Step{Op: "submit", Tid: tid, Req: canon.Req(rq)}); info != nil {
			return info, pred
		}
		if info, pred := settle(4, 1); info != nil {
			return info, pred
		}
		rq, tid = mk(t_api.ClaimTask)
		rq.ClaimTask = &t_api.ClaimTaskRequest{Id: "__invoke:" + id, Counter: 1, ProcessId: "w0", Ttl: 400000}
		if info, pred := do(Step{Op: "submit", Tid: tid, Req: canon.Req(rq)}); info != nil {
			return info, pred
		}
		if info, pred := settle(5, 1); info != nil {
			return info, pred
		}
		if len(w.aio.pending) > 0 {
			return nil, false
		}
		ra, ta := mk(t_api.CompleteTask)
		ra.CompleteTask = &t_api.CompleteTaskRequest{Id: "__invoke:" + id, Counter: 1}
		rb, tb := mk(t_api.CompleteTask)
		rb.CompleteTask = &t_api.CompleteTaskRequest{Id: "__invoke:" + id, Counter: 1}
		tickNow := func() (M, bool) { now++; return do(Step{Op: "tick", T: now}) }
		seq := []func() (M, bool){
			func() (M, bool) { return do(Step{Op: "submit", Tid: ta, Req: canon.Req(ra)}) },
			func() (M, bool) { return do(Step{Op: "submit", Tid: tb, Req: canon.Req(rb)}) },
			tickNow,                                   // both read
			func() (M, bool) { return execTids(ta, tb) }, // both see the task claimed
			tickNow,                                   // both write their guarded update
			func() (M, bool) { return execTids(ta, tb) }, // A's takes effect, B's changes no row
			tickNow,
		}
		for _, f := range seq {
			if info, pred := f(); info != nil {
				return info, pred
			}
		}
		return settle(5, 1)
	}
	for len(steps) < o.steps {
		if hasKind(t_api.CompleteTask) && hasKind(t_api.ClaimTask) && hasKind(t_api.CreatePromise) && g.R.Intn(70) == 0 {
			if info, pred := taskCompletionRaceScenario(); info != nil {
				return steps, len(steps) - 1, info, pred
			}
			r.counts["task_completion_races"]++
			continue
		}
		if (monitors["C01"] || monitors["C03"] || monitors["C04"]) && hasKind(t_api.CreatePromise) && hasKind(t_api.CompletePromise) && g.R.Intn(60) == 0 {
			if info, pred := completionRaceScenario(); info != nil {
				return steps, len(steps) - 1, info, pred
			}
			r.counts["completion_races"]++
			continue
		}
		if (monitors["C04"] || monitors["C01"] || monitors["C03"]) && hasKind(t_api.CreatePromise) && g.R.Intn(45) == 0 {
			if info, pred := straddleScenario(); info != nil {
				return steps, len(steps) - 1, info, pred
			}
			r.counts["straddles"]++
			continue
		}
		if monitors["C14"] && ((hasKind(t_api.SearchPromises) && hasKind(t_api.CreatePromise)) || (hasKind(t_api.SearchSchedules) && hasKind(t_api.CreateSchedule))) && g.R.Intn(40) == 0 {
			if info, pred := traversalScenario(); info != nil {
				return steps, len(steps) - 1, info, pred
			}
			continue
		}
		if hostileOn && hasKind(t_api.CreateCallback) && hasKind(t_api.CreateSubscription) && hasKind(t_api.CompletePromise) && hasKind(t_api.CreatePromise) && g.R.Intn(60) == 0 {
			if info, pred := collisionScenario(); info != nil {
				return steps, len(steps) - 1, info, pred
			}
			r.counts["id_collisions"]++
			continue
		}
		if hasKind(t_api.CreateCallback) && hasKind(t_api.CreateSubscription) && hasKind(t_api.CompletePromise) && g.R.Intn(70) == 0 {
			if info, pred := registrationScenario(); info != nil {
				return steps, len(steps) - 1, info, pred
			}
			continue
		}
		if hasKind(t_api.AcquireLock) && hasKind(t_api.HeartbeatLocks) && g.R.Intn(50) == 0 {
			if info, pred := lockScenario(); info != nil {
				return steps, len(steps) - 1, info, pred
			}
			continue
		}
		if hasKind(t_api.ClaimTask) && hasKind(t_api.HeartbeatTasks) && g.R.Intn(60) == 0 {
			if info, pred := leaseScenario(); info != nil {
				return steps, len(steps) - 1, info, pred
			}
			continue
		}
		x := g.R.Intn(100)
		var info M
		var pred bool
		switch {
		case x < 40:
			nreq++
			tid := fmt.Sprintf("r%d", nreq)
			rq := g.Request(tid, now, o.kinds, knownTasks(), o.routedPct)
			info, pred = do(Step{Op: "submit", Tid: tid, Req: canon.Req(rq)})
			if info == nil && g.R.Intn(8) == 0 {
				// a client retry racing with its original: the same request again, admitted in the same tick
				nreq++
				info, pred = do(Step{Op: "submit", Tid: fmt.Sprintf("r%d", nreq), Req: canon.Req(rq)})
				r.counts["racing_duplicates"]++
			}
		case x < 70:
			// complete every pending router submission, and most sender submissions, before the tick
			for _, h := range append([]*held{}, w.aio.pending...) {
				if h.sqe.Submission.Kind == t_aio.Router {
					if g.R.Intn(100) < o.failPct {
						info, pred = do(Step{Op: "send", Tid: h.tid, Seq: h.seq, Outcome: "error"})
					} else {
						info, pred = do(Step{Op: "route", Tid: h.tid, Seq: h.seq})
					}
				} else if h.sqe.Submission.Kind == t_aio.Sender && g.R.Intn(4) != 0 {
					oc := "success"
					switch y := g.R.Intn(100); {
					case y < 15:
						oc = "failure"
					case y < 25:
						oc = "error"
					}
					info, pred = do(Step{Op: "send", Tid: h.tid, Seq: h.seq, Outcome: oc})
				}
				if info != nil {
					break
				}
			}
			if info == nil {
				if focusClock {
					now += []int64{0, 1, 1, 100, 500, 500, 1000, 1000}[g.R.Intn(8)]
				} else {
					now += []int64{0, 1, 1, 500, 1000, 1000, 2000, 5000}[g.R.Intn(8)]
				}
				info, pred = do(Step{Op: "tick", T: now})
			}
		case x < 99-o.crashPct:
			// one store batch: FIFO across ticks; inside one tick both orders are explored
			var stores []*held
			for _, h := range w.aio.pending {
				if h.sqe.Submission.Kind == t_aio.Store {
					stores = append(stores, h)
				}
			}
			if len(stores) == 0 {
				continue
			}
			sort.SliceStable(stores, func(i, j int) bool { return stores[i].tick < stores[j].tick })
			if g.R.Intn(3) == 0 {
				// shuffle inside equal-tick groups
				for i := 0; i < len(stores); {
					j := i
					for j < len(stores) && stores[j].tick == stores[i].tick {
						j++
					}
					g.R.Shuffle(j-i, func(a, b int) { stores[i+a], stores[i+b] = stores[i+b], stores[i+a] })
					i = j
				}
			}
			k := 1 + g.R.Intn(len(stores))
			if g.R.Intn(2) == 0 {
				k = len(stores)
			}
			var items []Item
			for _, h := range stores[:k] {
				mode := "ok"
				if y := g.R.Intn(100); y < o.failPct/2 {
					mode = "before"
				} else if y < o.failPct {
					mode = "after"
				}
				items = append(items, Item{Tid: h.tid, Seq: h.seq, Mode: mode})
			}
			info, pred = do(Step{Op: "exec", Items: items})
		case x < 99:
			info, pred = do(Step{Op: "crash"})
		default:
			if g.R.Intn(100) < o.shutdownPct {
				info, pred = do(Step{Op: "shutdown"})
			} else {
				continue
			}
		}
		if info != nil {
			return steps, len(steps) - 1, info, pred
		}
	}
	if monitors["C11"] {
		if info, pred := r.converge(w, cfg, &now, settle); info != nil {
			return steps, len(steps) - 1, info, pred
		}
	}
	if monitors["C12"] {
		// quiesce: enough rounds for every accepted request to run to its answer, then each request submitted since the
		// last crash must have been answered exactly once
		out := 0
		for _, tid := range w.submitted {
			if w.respN[tid] == 0 && !w.lost[tid] {
				out++
			}
		}
		if info, pred := settle(8*(out+5), 1000); info != nil {
			return steps, len(steps) - 1, info, pred
		}
		for _, tid := range w.submitted {
			if w.respN[tid] == 0 && !w.lost[tid] {
				return steps, len(steps) - 1, M{"what": "property monitor failed on the implementation", "property": "C12", "diff": "request " + tid + " was never answered although the server kept running (" + fmt.Sprint(8*(out+5)) + " further rounds)", "property_violation": true}, false
			}
		}
	}
	return steps, -1, nil, false
}

// settle: a few rounds of (complete routers and senders, tick, run every pending store submission in FIFO order)
func (r *runner) settle(w *world, do func(Step) (M, bool), now *int64, rounds int, dt int64) (M, bool) {
	for i := 0; i < rounds; i++ {
		for _, h := range append([]*held{}, w.aio.pending...) {
			var info M
			var pred bool
			if h.sqe.Submission.Kind == t_aio.Router {
				info, pred = do(Step{Op: "route", Tid: h.tid, Seq: h.seq})
			} else if h.sqe.Submission.Kind == t_aio.Sender {
				info, pred = do(Step{Op: "send", Tid: h.tid, Seq: h.seq, Outcome: "success"})
			}
			if info != nil {
				return info, pred
			}
		}
		*now += dt
		if info, pred := do(Step{Op: "tick", T: *now}); info != nil {
			return info, pred
		}
		var items []Item
		for _, h := range w.aio.pending {
			if h.sqe.Submission.Kind == t_aio.Store {
				items = append(items, Item{Tid: h.tid, Seq: h.seq, Mode: "ok"})
			}
		}
		if len(items) > 0 {
			if info, pred := do(Step{Op: "exec", Items: items}); info != nil {
				return info, pred
			}
		}
	}
	return nil, false
}

var cronPeriod = map[string]int64{"* * * * * *": 1000, "*/2 * * * * *": 2000, "*/5 * * * * *": 5000, "*/30 * * * * *": 30000, "* * * * *": 60000, "0 * * * * *": 60000}

// converge: the clients have stopped; the server keeps cycling (every hand-off succeeds, no injected failure). Within a number
// of cycles bounded by the amount of stored data — for whatever batch / pool sizes the script drew — no promise may remain
// pending past its timeout, no lock past its lease, no schedule with a next run time in the past, no enqueued / claimed task
// past its lease or timeout, and no dispatchable task may sit in `init` untouched from one cycle to the next.
func (r *runner) converge(w *world, cfg Cfg, now *int64, settle func(int, int64) (M, bool)) (M, bool) {
	num := func(v any) int64 { return jnum(v) }
	dt := cfg.SignalTimeout
	if dt < 1 {
		dt = 1
	}
	ceil := func(a, b int) int {
		if b < 1 {
			b = 1
		}
		return (a + b - 1) / b
	}
	viol := func(what string) (M, bool) {
		return M{"what": "property monitor failed on the implementation", "property": "C11", "diff": what, "property_violation": true}, false
	}
	// per item: the cycle by which it must have been dealt with, fixed when it is first seen needing attention
	// (sweeps take the oldest rows first, `batch` per cycle; the five sweeps take turns when the pool is small: factor 5)
	promDue, lockDue, taskDue := map[string]int{}, map[string]int{}, map[string]int{}
	schedLag := map[string][2]int64{}    // id -> (round first seen behind, lag then) — kept for the verdict bookkeeping of single schedules
	schedOldest := map[string][2]int64{} // id of the oldest lagging schedule -> (round first seen as such, its next run time then)
	schedBacklog := [2]int64{0, 0}       // (round, missed occurrences) when the backlog was first measured
	schedNeed := 0
	rounds := 0
	for round := 0; ; round++ {
		// one cycle of the idle loop: the clock advances by the signal timeout, then the loop keeps ticking at once
		// (completions signal it) until nothing is in flight
		if info, pred := settle(1, dt); info != nil {
			return info, pred
		}
		for i := 0; i < 8 && (len(w.aio.pending) > 0 || len(w.aio.cq) > 0); i++ {
			if info, pred := settle(1, 0); info != nil {
				return info, pred
			}
		}
		d, err := dump.Sqlite(w.rdb)
		if err != nil {
			return M{"harness": err.Error()}, false
		}
		nd, _ := lean.NormalizeValue(d)
		cur := nd.(map[string]any)
		t := *now
		list := func(k string) []any { l, _ := cur[k].([]any); return l }
		if round == 0 {
			rounds = 12 + 5*(ceil(len(list("promises")), cfg.PromiseBatchSize)+ceil(2*len(list("tasks")), cfg.TaskBatchSize)) + len(list("locks"))
			if rounds > 60 {
				rounds = 60
			}
		}
		// F2 in action: a pending promise past its timeout has a registration whose id is the id of a task that exists already, so
		// its completion block fails on the task insert — in the sweep too, and with it the whole store batch the block is in:
		// whatever else is written in that batch (other time-outs, lease resets, firings) fails with it, cycle after cycle
		f2Active := false
		{
			taskIds := map[string]bool{}
			for _, y := range list("tasks") {
				taskIds[fmt.Sprint(y.(map[string]any)["id"])] = true
			}
			overdue := map[string]bool{}
			for _, x := range list("promises") {
				p := x.(map[string]any)
				if num(p["state"]) == 1 && num(p["timeout"]) <= t {
					overdue[fmt.Sprint(p["id"])] = true
				}
			}
			for _, y := range list("callbacks") {
				cb := y.(map[string]any)
				if overdue[fmt.Sprint(cb["promiseId"])] && taskIds[fmt.Sprint(cb["id"])] {
					f2Active = true
				}
			}
		}
		f2Collateral := func(what string) (M, bool, bool) {
			if !f2Active {
				return nil, false, false
			}
			if known["F2"] {
				r.counts["known:F2-collateral"]++
				return nil, false, true
			}
			return M{"what": "property monitor failed on the implementation", "property": "C11", "finding": "F2",
				"diff": what + ": it shares its store batch with the completion block of a promise whose registration collides with an existing task id; that block fails on the task insert and takes the batch with it, every cycle", "property_violation": true}, false, true
		}
		// promises
		overdueNow := 0
		for _, x := range list("promises") {
			p := x.(map[string]any)
			if num(p["state"]) == 1 && num(p["timeout"]) <= t-dt {
				overdueNow++
			}
		}
		seenP := map[string]bool{}
		for _, x := range list("promises") {
			p := x.(map[string]any)
			id := fmt.Sprint(p["id"])
			if num(p["state"]) == 1 && num(p["timeout"]) <= t-dt {
				seenP[id] = true
				if due, ok := promDue[id]; !ok {
					promDue[id] = round + 5*ceil(overdueNow, cfg.PromiseBatchSize) + 6
				} else if round > due {
					// F2: a registration on this promise has the id of a task that exists already (derived ids are not injective
					// when ids contain ':'), so the completion block's task insert violates the UNIQUE constraint: every attempt
					// to complete the promise, the sweep's included, fails
					collides := ""
					taskIds := map[string]bool{}
					for _, y := range list("tasks") {
						taskIds[fmt.Sprint(y.(map[string]any)["id"])] = true
					}
					for _, y := range list("callbacks") {
						cb := y.(map[string]any)
						if fmt.Sprint(cb["promiseId"]) == id && taskIds[fmt.Sprint(cb["id"])] {
							collides = fmt.Sprint(cb["id"])
						}
					}
					if collides != "" {
						if known["F2"] {
							r.counts["known:F2"]++
							continue
						}
						return M{"what": "property monitor failed on the implementation", "property": "C11", "finding": "F2",
							"diff":               fmt.Sprintf("promise %s is still pending at clock %d (cycle %d of the idle server), its timeout was %d: its registration %s has the id of an existing task, so every completion of the promise fails on the task insert", id, t, round, num(p["timeout"]), collides),
							"property_violation": true}, false
					}
					what := fmt.Sprintf("promise %s is still pending at clock %d (cycle %d of the idle server), its timeout was %d; %d promises were overdue when it was first seen, batch size %d", id, t, round, num(p["timeout"]), overdueNow, cfg.PromiseBatchSize)
					if info, pred, hit := f2Collateral(what); hit {
						if info != nil {
							return info, pred
						}
						continue
					}
					return viol(what)
				}
			}
		}
		// locks: one unbatched sweep
		for _, x := range list("locks") {
			l := x.(map[string]any)
			id := fmt.Sprint(l["resourceId"])
			if num(l["expiresAt"]) <= t-dt {
				if due, ok := lockDue[id]; !ok {
					lockDue[id] = round + 12
				} else if round > due {
					return viol(fmt.Sprintf("lock on %s is still held at clock %d (cycle %d of the idle server), its lease ended at %d", id, t, round, num(l["expiresAt"])))
				}
			} else {
				delete(lockDue, id)
			}
		}
		// schedules
		pool := cfg.CoroutineMaxSize
		if pool > 5 {
			pool = 5
		}
		if pool < 1 {
			pool = 1
		}
		runEvery := dt * int64((5+pool-1)/pool) // SchedulePromises runs once per signal timeout, every ceil(5/pool)-th cycle when the pool is smaller than the five sweeps
		evaluable := func(sc map[string]any) bool {
			return !strings.Contains(strings.ReplaceAll(strings.ReplaceAll(fmt.Sprint(sc["promiseId"]), "{{.id}}", ""), "{{.timestamp}}", ""), "{{")
		}
		// a run of SchedulePromises reads the ScheduleBatchSize schedules with the oldest next run time and fires ONE occurrence of
		// each; a schedule whose id template does not evaluate is logged and skipped, never advanced, so once it is the oldest it
		// keeps its slot in every batch (F18).  `accrual` = occurrences falling due per run over the schedules a run can fire.
		accrual, stuck := 0.0, 0
		for _, y := range list("schedules") {
			s2 := y.(map[string]any)
			p2, ok2 := cronPeriod[fmt.Sprint(s2["cron"])]
			if !ok2 {
				continue
			}
			if !evaluable(s2) {
				if num(s2["nextRunTime"]) <= t {
					stuck++
				}
				continue
			}
			accrual += float64(runEvery) / float64(p2)
		}
		lagging := [][3]int64{} // (next run time, missed occurrences, -)
		laggingIds := []string{}
		for _, x := range list("schedules") {
			sc := x.(map[string]any)
			id := fmt.Sprint(sc["id"])
			p, ok := cronPeriod[fmt.Sprint(sc["cron"])]
			if !ok {
				continue // cron outside the model's grid
			}
			lagv := t - num(sc["nextRunTime"])
			if lagv <= p+2*dt {
				delete(schedLag, id)
				continue
			}
			if !evaluable(sc) {
				if known["F18"] {
					r.counts["known:F18"]++
					continue
				}
				return M{"what": "property monitor failed on the implementation", "property": "C11", "finding": "F18",
					"diff":               fmt.Sprintf("schedule %s (cron %v, promise id template %q) is %d ms behind the clock and is never advanced: its id template does not evaluate, every run of SchedulePromises logs and skips it", id, sc["cron"], sc["promiseId"], lagv),
					"property_violation": true}, false
			}
			if stuck > 0 && accrual >= float64(cfg.ScheduleBatchSize-stuck) {
				// F18: the skipped schedules hold `stuck` of the ScheduleBatchSize slots of every run
				if known["F18"] {
					r.counts["known:F18"]++
					continue
				}
				return M{"what": "property monitor failed on the implementation", "property": "C11", "finding": "F18",
					"diff":               fmt.Sprintf("schedule %s (cron %v, period %d ms) is %d ms behind the clock and cannot catch up: %d schedule(s) whose id template does not evaluate are read first by every run of SchedulePromises (batch size %d) and never advanced", id, sc["cron"], p, lagv, stuck, cfg.ScheduleBatchSize),
					"property_violation": true}, false
			}
			if p <= runEvery || accrual >= float64(cfg.ScheduleBatchSize) {
				// F16: one occurrence per selected schedule per run of SchedulePromises, at most ScheduleBatchSize schedules per run,
				// runs at least `signal timeout` apart (and only every ceil(5/pool)-th cycle when the scheduler queue is smaller
				// than the five background coroutines): when occurrences accrue at least that fast the lag never shrinks
				if known["F16"] {
					r.counts["known:F16"]++
					continue
				}
				return M{"what": "property monitor failed on the implementation", "property": "C11", "finding": "F16",
					"diff":               fmt.Sprintf("schedule %s (cron %v, period %d ms, signal timeout %d ms, scheduler queue %d, schedule batch size %d, %.2f occurrences falling due per run) is %d ms behind the clock and cannot catch up: one occurrence per schedule is fired per run of SchedulePromises", id, sc["cron"], p, dt, cfg.CoroutineMaxSize, cfg.ScheduleBatchSize, accrual, lagv),
					"property_violation": true}, false
			}
			lagging = append(lagging, [3]int64{num(sc["nextRunTime"]), lagv / p, 0})
			laggingIds = append(laggingIds, id)
		}
		// schedules that CAN catch up (occurrences fall due more slowly than a run fires them): a run fires the schedules with the
		// oldest next run times first, so (A) the oldest lagging schedule advances at the next run, and (B) the backlog —
		// missed occurrences over all lagging schedules — shrinks at the rate (fired per run − falling due per run).  A fixed
		// per-schedule window would be wrong: with a batch of one a schedule waits until the older ones have caught up with it
		if len(lagging) > 0 {
			oldest, backlog := 0, int64(0)
			for i, l := range lagging {
				backlog += l[1]
				if l[0] < lagging[oldest][0] {
					oldest = i
				}
			}
			if info, pred, hit := f2Collateral(fmt.Sprintf("schedule %s is %d occurrences behind", laggingIds[oldest], lagging[oldest][1])); hit {
				if info != nil {
					return info, pred
				}
			} else {
				oid := laggingIds[oldest]
				// (A)
				if prev, ok := schedOldest[oid]; ok && prev[1] == lagging[oldest][0] {
					if int64(round)-prev[0] > 3*runEvery/dt+3 {
						return viol(fmt.Sprintf("schedule %s has the oldest next run time (%d) of all schedules and has not advanced for %d cycles of the idle server", oid, lagging[oldest][0], int64(round)-prev[0]))
					}
				} else {
					schedOldest = map[string][2]int64{oid: {int64(round), lagging[oldest][0]}}
				}
				// (B)
				capPerRun := float64(cfg.ScheduleBatchSize - stuck)
				if n := float64(len(lagging)); n < capPerRun {
					capPerRun = n
				}
				gain := (capPerRun - accrual) * float64(dt) / float64(runEvery) // backlog reduction per cycle
				if schedBacklog[0] == 0 && schedBacklog[1] == 0 {
					schedBacklog = [2]int64{int64(round), backlog}
					// long enough to see the backlog shrink by more than the rounding of one occurrence per schedule
					if gain > 0 {
						need := int(float64(len(lagging)+3)/gain) + 4
						if need > 90 {
							need = 0 // no verdict within the phase: not checked
							r.counts["schedule_backlog_unchecked"]++
						}
						schedNeed = need
						if need > 0 && rounds < round+need+1 && round+need+1 <= 100 {
							rounds = round + need + 1
						}
					}
				} else if schedNeed > 0 && int64(round)-schedBacklog[0] >= int64(schedNeed) && backlog >= schedBacklog[1] {
					return viol(fmt.Sprintf("the schedules were %d occurrences behind at cycle %d and are %d behind at cycle %d of the idle server (batch size %d, %.2f occurrences falling due per run): the backlog does not shrink", schedBacklog[1], schedBacklog[0], backlog, round, cfg.ScheduleBatchSize, accrual))
				} else if schedNeed > 0 && int64(round)-schedBacklog[0] >= int64(schedNeed) {
					r.counts["schedule_backlog_shrank"]++
					schedBacklog = [2]int64{0, 0}
				}
			}
		} else {
			schedBacklog = [2]int64{0, 0}
			schedOldest = map[string][2]int64{}
		}
		// enqueued / claimed tasks past their lease or timeout (skipped when the enqueue delay is shorter than a cycle:
		// a re-dispatched task is then late again at once and the batch order is by root)
		if cfg.TaskEnqueueDelay >= dt {
			lateNow := 0
			for _, x := range list("tasks") {
				tk := x.(map[string]any)
				if st := num(tk["state"]); (st == 2 || st == 4) && (num(tk["expiresAt"]) <= t-dt || num(tk["timeout"]) <= t-dt) {
					lateNow++
				}
			}
			for _, x := range list("tasks") {
				tk := x.(map[string]any)
				id := fmt.Sprintf("%v#%v", tk["id"], tk["counter"])
				if st := num(tk["state"]); (st == 2 || st == 4) && (num(tk["expiresAt"]) <= t-dt || num(tk["timeout"]) <= t-dt) {
					if due, ok := taskDue[id]; !ok {
						taskDue[id] = round + 5*ceil(lateNow, cfg.TaskBatchSize) + 6
					} else if round > due {
						what := fmt.Sprintf("task %s (state %d) is still past its lease %d / timeout %d at clock %d (cycle %d of the idle server); %d tasks were late when it was first seen, batch size %d", id, st, num(tk["expiresAt"]), num(tk["timeout"]), t, round, lateNow, cfg.TaskBatchSize)
						if info, pred, hit := f2Collateral(what); hit {
							if info != nil {
								return info, pred
							}
							continue
						}
						// F19: the lease sweep reads its batch ORDER BY root_promise_id, sort_id.  Unclaimed tasks are re-dispatched after
						// every reset and are late again one enqueue delay later; when at least TaskBatchSize of them come earlier in that
						// order, they fill every batch and this task is never reached
						ahead := 0
						for _, y := range list("tasks") {
							u := y.(map[string]any)
							if us := num(u["state"]); (us == 1 || us == 2) && fmt.Sprint(u["id"]) != fmt.Sprint(tk["id"]) {
								ur, tr := fmt.Sprint(u["rootPromiseId"]), fmt.Sprint(tk["rootPromiseId"])
								if ur < tr || (ur == tr && num(u["sortId"]) < num(tk["sortId"])) {
									ahead++
								}
							}
						}
						if ahead >= cfg.TaskBatchSize {
							if known["F19"] {
								r.counts["known:F19"]++
								continue
							}
							return M{"what": "property monitor failed on the implementation", "property": "C11", "finding": "F19",
								"diff": what + fmt.Sprintf(": %d unclaimed tasks come before it in the lease sweep's order (root promise id, sort id) and keep filling its batch", ahead), "property_violation": true}, false
						}
						return viol(what)
					}
				}
			}
		}
		if round >= rounds {
			r.counts["converged"]++
			r.counts["converge_rounds"] += round
			return nil, false
		}
	}
}

// shrink removes whole UNITS (a tick together with the router / sender completions issued right before it —
// the harness discipline "every pending router submission completes before the next tick" must survive).
func (r *runner) shrink(cfg Cfg, bg bool, steps []Step, wantPredicted bool) []Step {
	fails := func(s []Step) bool {
		i, info, pred := r.replayScript(cfg, bg, s)
		return i >= 0 && info["harness"] == nil && pred == wantPredicted
	}
	if i, _, _ := r.replayScript(cfg, bg, steps); i >= 0 && i < len(steps) {
		steps = steps[:i+1] // (a failure in the convergence phase is reported at index len(steps): nothing to cut)
	}
	units := func(ss []Step) [][]Step {
		var out [][]Step
		var cur []Step
		for _, st := range ss {
			cur = append(cur, st)
			if st.Op != "route" && st.Op != "send" {
				out = append(out, cur)
				cur = nil
			}
		}
		if len(cur) > 0 {
			out = append(out, cur)
		}
		return out
	}
	flat := func(us [][]Step) []Step {
		var out []Step
		for _, u := range us {
			out = append(out, u...)
		}
		return out
	}
	us := units(steps)
	for chunk := len(us) / 2; chunk >= 1; chunk /= 2 {
		for i := len(us) - 1 - chunk; i >= 0; i -= chunk {
			if i+chunk > len(us)-1 {
				continue
			}
			cand := append(append([][]Step{}, us[:i]...), us[i+chunk:]...)
			if fails(flat(cand)) {
				us = cand
			}
		}
	}
	return flat(us)
}

func main() {
	seed := flag.Int64("seed", 1, "PRNG seed")
	nscripts := flag.Int("scripts", 20, "number of scripts")
	nsteps := flag.Int("steps", 60, "steps per script")
	driver := flag.String("driver", "", "path of the Lean model driver")
	work := flag.String("work", "", "scratch directory")
	kinds := flag.String("kinds", "", "comma-separated request kinds (default all 17)")
	bgFlag := flag.Bool("bg", true, "register the five background coroutines")
	small := flag.Bool("smallcfg", false, "draw small queue / batch / pool sizes")
	routed := flag.Int("routed", 30, "percentage of created promises carrying a routing tag")
	failPct := flag.Int("fail", 10, "percentage of submissions failed before/after processing")
	crashPct := flag.Int("crash", 1, "percentage of steps that are a crash/restart")
	shutdownPct := flag.Int("shutdown", 0, "chance (percent of the 1% idle steps) of a shutdown request")
	replay := flag.String("replay", "", "replay a recorded divergence file")
	corpus := flag.String("corpus", "", "directory of recorded scripts to run first")
	out := flag.String("out", "", "summary JSON path")
	mon := flag.String("monitor", "", "comma-separated property ids whose monitors run on the implementation dumps")
	hostile := flag.Bool("hostile", false, "extend the generator pools with hostile values (markup in ids, unclosed templates, JSON literals as routing tags)")
	hunt := flag.Int("hunt", 0, "after a correspondence divergence that is not itself a property violation: run this many scripts against the implementation alone, the property monitors deciding")
	focusFlag := flag.Bool("focus", false, "narrow the generator: two promise ids, deadlines close to the clock")
	implOnlyFlag := flag.Bool("implonly", false, "do not consult the model at all: the property monitors alone decide (used to look for failing inputs)")
	knownFlag := flag.String("known", "", "comma-separated known-finding keys the response monitors tolerate (counted, not raised)")
	flag.BoolVar(&forcePanics, "force", false, "execute predicted panics against the implementation (the process is expected to die)")
	flag.Parse()
	slog.SetDefault(slog.New(slog.NewTextHandler(io.Discard, nil)))
	_ = rand.Int
	for _, m := range strings.Split(*mon, ",") {
		if m != "" {
			monitors[m] = true
		}
	}
	if *hostile {
		gen.Hostile()
		hostileOn = true
	}
	for _, k := range strings.Split(*knownFlag, ",") {
		if k != "" {
			known[k] = true
		}
	}
	os.MkdirAll(*work, 0o755)
	drv, err := lean.Start(*driver)
	if err != nil {
		panic(err)
	}
	defer drv.Close()
	r := &runner{drv: drv, dir: *work, counts: map[string]int{}, status: map[string]int{}}
	g := gen.New(*seed)
	r.implOnly = *implOnlyFlag
	gen.Focus(*focusFlag)
	focusClock = *focusFlag

	ks := gen.AllApiKinds
	if *kinds != "" {
		ks = nil
		for _, n := range strings.Split(*kinds, ",") {
			k, ok := canon.ApiKindByName(n)
			if !ok {
				panic("unknown kind " + n)
			}
			ks = append(ks, k)
		}
	}
	summary := M{"seed": *seed, "disagreements": 0}
	record := func(cfg Cfg, bg bool, steps []Step, info M, predicted bool, origin string) {
		small := r.shrink(cfg, bg, steps, predicted)
		_, info2, _ := r.replayScript(cfg, bg, small)
		if info2 == nil {
			small, info2 = steps, info
		}
		rep := M{"harness": "sysdiff", "origin": origin, "cfg": cfg, "bg": bg, "steps": small, "divergence": info2, "predicted_panic": predicted, "impl_only": r.implOnly}
		b, _ := json.MarshalIndent(rep, "", " ")
		path := filepath.Join(*work, "sysdiff-divergence.json")
		if r.implOnly {
			path = filepath.Join(*work, "sysdiff-hunt.json")
		}
		os.WriteFile(path, b, 0o644)
		summary["disagreements"] = 1
		summary["divergence_file"] = path
		summary["divergence"] = info2["what"]
		summary["diff"] = fmt.Sprint(info2["diff"], info2["impl_only"], info2["model_only"], info2["panic"])
		summary["predicted_panic"] = predicted
		summary["property_violation"] = info2["property_violation"] == true || predicted
	}

	files := []string{}
	if *replay != "" {
		files = append(files, *replay)
	}
	if *corpus != "" {
		fs, _ := filepath.Glob(filepath.Join(*corpus, "*.json"))
		sort.Strings(fs)
		files = append(files, fs...)
	}
	ncorpus := 0
	for _, f := range files {
		b, err := os.ReadFile(f)
		if err != nil {
			panic(err)
		}
		var rec struct {
			Cfg      Cfg    `json:"cfg"`
			Bg       bool   `json:"bg"`
			Steps    []Step `json:"steps"`
			ImplOnly bool   `json:"impl_only"`
		}
		dec := json.NewDecoder(strings.NewReader(string(b)))
		dec.UseNumber()
		if err := dec.Decode(&rec); err != nil {
			panic(err)
		}
		ncorpus++
		r.implOnly = rec.ImplOnly
		if i, info, pred := r.replayScript(rec.Cfg, rec.Bg, rec.Steps); i >= 0 {
			record(rec.Cfg, rec.Bg, rec.Steps, info, pred, f)
			break
		}
	}
	summary["corpus_scripts"] = ncorpus

	nstepsTotal := 0
	divScript := -1
	var samples []any
	if *replay == "" && summary["disagreements"] == 0 {
		for s := 0; s < *nscripts; s++ {
			g.Reseed(*seed*1000003 + int64(s))
			divScript = s
			cfg := drawCfg(g, *small)
			steps, i, info, pred := r.generate(g, cfg, *bgFlag, genOpts{kinds: ks, routedPct: *routed, failPct: *failPct, crashPct: *crashPct, shutdownPct: *shutdownPct, steps: *nsteps})
			nstepsTotal += len(steps)
			if s == 0 && len(steps) > 6 {
				samples = []any{M{"cfg": cfg, "steps": steps[:6]}}
			}
			if i >= 0 {
				record(cfg, *bgFlag, steps, info, pred, fmt.Sprintf("seed=%d script=%d", *seed, s))
				break
			}
		}
	}
	if summary["disagreements"] != 0 && summary["property_violation"] != true && *hunt > 0 && *replay == "" {
		// the correspondence broke: look for a concrete failing history of the property on the implementation alone
		r.implOnly = true
		hg := gen.New(*seed + 7919)
		summary["hunt_scripts"] = 0
		for s := 0; s < *hunt; s++ {
			// first the diverging script itself (same generator stream, now continuing past the divergence), then fresh ones
			if s == 0 && divScript >= 0 {
				hg.Reseed(*seed*1000003 + int64(divScript))
			} else {
				hg.Reseed((*seed+7919)*1000003 + int64(s))
			}
			gen.Focus(s%2 == 1)
			focusClock = s%2 == 1
			cfg := drawCfg(hg, *small)
			steps, i, info, pred := r.generate(hg, cfg, *bgFlag, genOpts{kinds: ks, routedPct: *routed, failPct: *failPct, crashPct: *crashPct, shutdownPct: *shutdownPct, steps: *nsteps})
			summary["hunt_scripts"] = s + 1
			if i >= 0 && info["property_violation"] == true {
				corr := summary["divergence"]
				record(cfg, *bgFlag, steps, info, pred, fmt.Sprintf("hunt seed=%d script=%d", *seed+7919, s))
				summary["correspondence_divergence"] = corr
				break
			}
		}
		r.implOnly = false
		gen.Focus(false)
		focusClock = false
	}
	summary["scripts"] = *nscripts
	summary["cases"] = nstepsTotal
	summary["kinds"] = g.Kinds
	r.counts["nontrivial"] = r.counts["ev:respond"] + r.counts["store_txs"]
	summary["counts"] = r.counts
	summary["statuses"] = r.status
	summary["samples"] = samples
	b, _ := json.MarshalIndent(summary, "", " ")
	if *out != "" {
		os.WriteFile(*out, b, 0o644)
	} else {
		fmt.Println(string(b))
	}
	if summary["disagreements"] != 0 {
		os.Exit(3)
	}
}
