// crashdiff — property C06 against the REAL server binary: `resonate serve` (built from /repo) on a sqlite file,
// concurrent HTTP clients, SIGKILL at a random moment (repeatedly, also during recovery), restart on the same file,
// and finally a graceful SIGTERM.  Checked on the implementation:
//   - every write the server ACKNOWLEDGED before a kill (2xx to create / complete / callback) is there after restart,
//     unchanged (state, value, parameter, timeout, idempotency keys);
//   - the database found after every kill satisfies the all-or-nothing invariants (no registration on a completed or
//     missing promise; a promise routed by a plain tag has its invocation task; a completed promise has no live task);
//   - the server starts again on whatever file a kill leaves behind and keeps answering.
//
// What a committed sqlite transaction survives below the process level (power loss, fsync) is sqlite's.
package main

import (
	"bytes"
	"context"
	"database/sql"
	"encoding/base64"
	"encoding/json"
	"flag"
	"fmt"
	"io"
	"math/rand"
	"net"
	"net/http"
	"os"
	"os/exec"
	"path/filepath"
	"strings"
	"sync"
	"syscall"
	"time"

	_ "github.com/mattn/go-sqlite3"
	"github.com/resonatehq/resonate/verifharness/internal/dump"
	"github.com/resonatehq/resonate/verifharness/internal/lean"
)

type M = map[string]any

func freePort() int {
	l, err := net.Listen("tcp", "127.0.0.1:0")
	if err != nil {
		panic(err)
	}
	defer l.Close()
	return l.Addr().(*net.TCPAddr).Port
}

type server struct {
	cmd  *exec.Cmd
	base string
	log  *bytes.Buffer
}

// start launches the server; a listener that loses the race for a port picked by freePort (other processes on the
// machine bind ephemeral ports all the time) is not the server's fault: such a start is retried with fresh ports
func start(bin, db string) (*server, error) {
	var s *server
	var err error
	for attempt := 0; attempt < 6; attempt++ {
		s, err = startOnce(bin, db)
		if err == nil || !strings.Contains(err.Error(), "address already in use") {
			return s, err
		}
	}
	return s, err
}

func startOnce(bin, db string) (*server, error) {
	hp, gp, pp, mp := freePort(), freePort(), freePort(), freePort()
	cmd := exec.Command(bin, "serve",
		"--aio-store-sqlite-path", db,
		"--api-http-addr", fmt.Sprintf("127.0.0.1:%d", hp), "--api-grpc-addr", fmt.Sprintf("127.0.0.1:%d", gp),
		"--aio-sender-plugin-poll-addr", fmt.Sprintf("127.0.0.1:%d", pp), "--metrics-addr", fmt.Sprintf("127.0.0.1:%d", mp),
		"--system-signal-timeout", "20ms", "--system-task-enqueue-delay", "50ms", "--aio-store-sqlite-tx-timeout", "300ms")
	var buf bytes.Buffer
	cmd.Stdout, cmd.Stderr = &buf, &buf
	if err := cmd.Start(); err != nil {
		return nil, err
	}
	s := &server{cmd: cmd, base: fmt.Sprintf("http://127.0.0.1:%d", hp), log: &buf}
	deadline := time.Now().Add(15 * time.Second)
	for time.Now().Before(deadline) {
		res, err := http.Get(s.base + "/promises?id=*&limit=1")
		if err == nil {
			res.Body.Close()
			if res.StatusCode == 200 {
				return s, nil
			}
		}
		if cmd.ProcessState != nil {
			break
		}
		time.Sleep(20 * time.Millisecond)
	}
	_ = cmd.Process.Kill()
	_, _ = cmd.Process.Wait()
	logText := buf.String()
	head, tail := logText, ""
	if len(head) > 600 {
		head = head[:600]
	}
	if len(logText) > 1200 {
		tail = " ... " + logText[len(logText)-600:]
	}
	return nil, fmt.Errorf("server did not become ready: %s%s", head, tail)
}

func (s *server) kill(sig syscall.Signal) {
	_ = s.cmd.Process.Signal(sig)
	done := make(chan struct{})
	go func() { _, _ = s.cmd.Process.Wait(); close(done) }()
	select {
	case <-done:
	case <-time.After(30 * time.Second):
		_ = s.cmd.Process.Kill()
		<-done
	}
}

type ack struct {
	Kind    string // create | complete | callback
	Id      string
	Data    string
	Timeout int64
	State   string
	Value   string
	Ikey    string
	Cb      string
}

func do(c *http.Client, method, url string, hdr map[string]string, body any) (int, map[string]any) {
	var rd io.Reader
	if body != nil {
		b, _ := json.Marshal(body)
		rd = bytes.NewReader(b)
	}
	req, _ := http.NewRequest(method, url, rd)
	req.Header.Set("Content-Type", "application/json")
	for k, v := range hdr {
		req.Header.Set(k, v)
	}
	res, err := c.Do(req)
	if err != nil {
		return 0, nil
	}
	defer res.Body.Close()
	b, _ := io.ReadAll(res.Body)
	var out map[string]any
	_ = json.Unmarshal(b, &out)
	return res.StatusCode, out
}

// one phase of traffic against a running server; returns the acknowledged writes
func traffic(r *rand.Rand, s *server, phase int, stop <-chan struct{}, acks *[]ack, mu *sync.Mutex) {
	c := &http.Client{Timeout: 3 * time.Second}
	var wg sync.WaitGroup
	for g := 0; g < 4; g++ {
		wg.Add(1)
		rr := rand.New(rand.NewSource(r.Int63()))
		go func(g int) {
			defer wg.Done()
			for i := 0; ; i++ {
				select {
				case <-stop:
					return
				default:
				}
				id := fmt.Sprintf("ph%d.g%d.%d", phase, g, i)
				data := fmt.Sprintf("d-%s", id)
				tags := map[string]string{"k": "v"}
				if rr.Intn(2) == 0 {
					tags["resonate:invoke"] = "default"
				}
				timeout := time.Now().UnixMilli() + 3600_000
				ik := "ik-" + id
				st, _ := do(c, "POST", s.base+"/promises", map[string]string{"idempotency-key": ik},
					M{"id": id, "timeout": timeout, "param": M{"data": base64.StdEncoding.EncodeToString([]byte(data))}, "tags": tags})
				if st == 201 {
					mu.Lock()
					*acks = append(*acks, ack{Kind: "create", Id: id, Data: data, Timeout: timeout, Ikey: ik})
					mu.Unlock()
				} else {
					continue
				}
				if rr.Intn(2) == 0 {
					cb := fmt.Sprintf("cb.%s", id)
					st, _ := do(c, "POST", s.base+"/callbacks", nil, M{"promiseId": id, "rootPromiseId": "root." + id, "timeout": timeout, "recv": "default"})
					if st == 201 {
						mu.Lock()
						*acks = append(*acks, ack{Kind: "callback", Id: id, Cb: cb})
						mu.Unlock()
					}
				}
				if rr.Intn(3) != 0 {
					state := []string{"RESOLVED", "REJECTED", "REJECTED_CANCELED"}[rr.Intn(3)]
					val := "v-" + id
					st, _ := do(c, "PATCH", s.base+"/promises/"+id, map[string]string{"idempotency-key": "c" + ik},
						M{"state": state, "value": M{"data": base64.StdEncoding.EncodeToString([]byte(val))}})
					if st == 201 {
						mu.Lock()
						*acks = append(*acks, ack{Kind: "complete", Id: id, State: state, Value: val, Ikey: "c" + ik})
						mu.Unlock()
					}
				}
			}
		}(g)
	}
	wg.Wait()
}

// invariants of the file a kill leaves behind
func fileInvariants(path string) string {
	db, err := sql.Open("sqlite3", path) // read-write: a hot journal / WAL left by the kill is recovered on open, as at the next server start
	if err != nil {
		return "cannot open the database after the kill: " + err.Error()
	}
	defer db.Close()
	d, err := dump.Sqlite(db)
	if err != nil {
		return "cannot read the database after the kill: " + err.Error()
	}
	nd, _ := lean.NormalizeValue(d)
	m := nd.(map[string]any)
	prom := map[string]map[string]any{}
	for _, x := range m["promises"].([]any) {
		p := x.(map[string]any)
		prom[fmt.Sprint(p["id"])] = p
	}
	num := func(v any) int64 { n, _ := v.(json.Number).Int64(); return n }
	for _, x := range m["callbacks"].([]any) {
		cb := x.(map[string]any)
		p := prom[fmt.Sprint(cb["promiseId"])]
		if p == nil || num(p["state"]) != 1 {
			return fmt.Sprintf("registration %v awaits a promise that is missing or completed (a completion was applied without converting its registrations)", cb["id"])
		}
	}
	tasks := map[string]map[string]any{}
	for _, x := range m["tasks"].([]any) {
		t := x.(map[string]any)
		tasks[fmt.Sprint(t["id"])] = t
	}
	for id, p := range prom {
		routed := false
		for _, kv := range p["tags"].([]any) {
			pair := kv.([]any)
			if pair[0] == "resonate:invoke" {
				routed = true
			}
		}
		if routed {
			if _, ok := tasks["__invoke:"+id]; !ok {
				return fmt.Sprintf("routed promise %s is stored without its invocation task", id)
			}
		}
		if num(p["state"]) != 1 {
			for tid, t := range tasks {
				if fmt.Sprint(t["rootPromiseId"]) == id && (num(t["state"]) == 1 || num(t["state"]) == 2 || num(t["state"]) == 4) && strings.HasPrefix(tid, "__invoke:") {
					return fmt.Sprintf("promise %s is completed but its task %s is still live (state %d)", id, tid, num(t["state"]))
				}
			}
		}
	}
	return ""
}

func verifyAcks(s *server, acks []ack) string {
	c := &http.Client{Timeout: 5 * time.Second}
	created := map[string]ack{}
	completed := map[string]ack{}
	for _, a := range acks {
		switch a.Kind {
		case "create":
			created[a.Id] = a
		case "complete":
			completed[a.Id] = a
		}
	}
	for id, a := range created {
		st, p := do(c, "GET", s.base+"/promises/"+id, nil, nil)
		if st != 200 || p == nil {
			return fmt.Sprintf("promise %s was acknowledged (201) before the kill and is gone after the restart (GET -> %d)", id, st)
		}
		param, _ := p["param"].(map[string]any)
		if param == nil || param["data"] != base64.StdEncoding.EncodeToString([]byte(a.Data)) || fmt.Sprint(p["timeout"]) != fmt.Sprint(float64(a.Timeout)) && fmt.Sprint(p["timeout"]) != fmt.Sprint(a.Timeout) ||
			p["idempotencyKeyForCreate"] != a.Ikey {
			return fmt.Sprintf("promise %s came back changed after the restart: %v (acknowledged data %q timeout %d key %s)", id, p, a.Data, a.Timeout, a.Ikey)
		}
		if cm, ok := completed[id]; ok {
			val, _ := p["value"].(map[string]any)
			if p["state"] != cm.State || val == nil || val["data"] != base64.StdEncoding.EncodeToString([]byte(cm.Value)) || p["idempotencyKeyForComplete"] != cm.Ikey {
				return fmt.Sprintf("completion of %s was acknowledged (201, %s) before the kill; after the restart the promise is %v", id, cm.State, p)
			}
		}
	}
	return ""
}

func main() {
	seed := flag.Int64("seed", 1, "")
	rounds := flag.Int("rounds", 3, "")
	kills := flag.Int("kills", 4, "SIGKILLs per round")
	work := flag.String("work", "", "")
	out := flag.String("out", "", "")
	repo := flag.String("repo", "/repo", "")
	flag.String("driver", "", "unused")
	flag.String("corpus", "", "")
	flag.String("replay", "", "")
	flag.Parse()
	os.MkdirAll(*work, 0o755)
	summary := M{"seed": *seed, "disagreements": 0}
	bin := filepath.Join(*work, "resonate")
	bcmd := exec.Command("go", "build", "-o", bin, ".")
	bcmd.Dir = *repo
	if outb, err := bcmd.CombinedOutput(); err != nil {
		summary["disagreements"] = 1
		summary["divergence"] = "harness: cannot build the server binary: " + string(outb)
	}
	r := rand.New(rand.NewSource(*seed))
	counts := map[string]int{}
	fail := func(what string, detail M) {
		rep := M{"harness": "crashdiff", "seed": *seed, "divergence": M{"what": what, "property_violation": true}, "detail": detail}
		b, _ := json.MarshalIndent(rep, "", " ")
		path := filepath.Join(*work, "crashdiff-divergence.json")
		os.WriteFile(path, b, 0o644)
		summary["disagreements"] = 1
		summary["divergence_file"] = path
		summary["divergence"] = what
		summary["property_violation"] = true
	}
	// sparse databases: ONE acknowledged write of one kind on a fresh file, a graceful shutdown with the default configuration,
	// a restart on the same file — the write is still there (whatever else the database holds or does not hold)
	if summary["disagreements"] == 0 {
		c := &http.Client{Timeout: 5 * time.Second}
		for _, kind := range []string{"lock", "schedule", "promise", "lock+schedule"} {
			db := filepath.Join(*work, "sparse-"+kind+".db")
			for _, suf := range []string{"", "-wal", "-shm", "-journal"} {
				os.Remove(db + suf)
			}
			s, err := start(bin, db)
			if err != nil {
				fail("the server does not start on a fresh file", M{"kind": kind, "error": err.Error()})
				break
			}
			acked := map[string]bool{}
			if strings.Contains(kind, "lock") {
				st, _ := do(c, "POST", s.base+"/locks/acquire", nil, M{"resourceId": "res", "executionId": "e1", "processId": "w1", "ttl": 3600000})
				acked["lock"] = st == 201
			}
			if strings.Contains(kind, "schedule") {
				st, _ := do(c, "POST", s.base+"/schedules", nil, M{"id": "sch", "cron": "0 0 1 1 *", "promiseId": "sch.{{.timestamp}}", "promiseTimeout": 1000})
				acked["schedule"] = st == 201
			}
			if kind == "promise" {
				st, _ := do(c, "POST", s.base+"/promises", nil, M{"id": "sparse", "timeout": time.Now().UnixMilli() + 3600_000})
				acked["promise"] = st == 201
			}
			s.kill(syscall.SIGTERM)
			s2, err := start(bin, db)
			if err != nil {
				fail("the server does not start after a graceful shutdown", M{"kind": kind, "error": err.Error()})
				break
			}
			what := ""
			if acked["lock"] {
				if st, _ := do(c, "POST", s2.base+"/locks/acquire", nil, M{"resourceId": "res", "executionId": "e2", "processId": "w2", "ttl": 1000}); st != 403 {
					what = fmt.Sprintf("the lock on res was acquired by e1 (201, ttl one hour) before a graceful shutdown; after the restart another execution acquires it (status %d)", st)
				}
			}
			if acked["schedule"] && what == "" {
				if st, _ := do(c, "GET", s2.base+"/schedules/sch", nil, nil); st != 200 {
					what = fmt.Sprintf("schedule sch was created (201) before a graceful shutdown and is gone after the restart (GET -> %d)", st)
				}
			}
			if acked["promise"] && what == "" {
				if st, _ := do(c, "GET", s2.base+"/promises/sparse", nil, nil); st != 200 {
					what = fmt.Sprintf("promise sparse was created (201) before a graceful shutdown and is gone after the restart (GET -> %d)", st)
				}
			}
			s2.kill(syscall.SIGKILL)
			for _, suf := range []string{"", "-wal", "-shm", "-journal"} {
				os.Remove(db + suf)
			}
			if what != "" {
				fail(what, M{"kind": kind, "after": "graceful shutdown of a sparse database"})
				break
			}
			for k, v := range acked {
				if v {
					counts["sparse_graceful:"+k]++
				}
			}
		}
	}
rounds:
	for rd := 0; rd < *rounds && summary["disagreements"] == 0; rd++ {
		db := filepath.Join(*work, fmt.Sprintf("crash-%d.db", rd))
		for _, suf := range []string{"", "-wal", "-shm", "-journal"} {
			os.Remove(db + suf)
		}
		var acks []ack
		var mu sync.Mutex
		for k := 0; k <= *kills; k++ {
			s, err := start(bin, db)
			if err != nil {
				fail("the server does not start on the file the previous kill left behind", M{"round": rd, "kill": k, "error": err.Error()})
				break rounds
			}
			// what was acknowledged so far must be there
			mu.Lock()
			snapshot := append([]ack{}, acks...)
			mu.Unlock()
			if what := verifyAcks(s, snapshot); what != "" {
				s.kill(syscall.SIGKILL)
				fail(what, M{"round": rd, "kill": k})
				break rounds
			}
			counts["acks_verified"] += len(snapshot)
			stop := make(chan struct{})
			done := make(chan struct{})
			go func() { traffic(r, s, k, stop, &acks, &mu); close(done) }()
			if k%2 == 1 {
				// contention: another process holds the write lock longer than the store's transaction timeout, so
				// batches time out in the middle; whatever is acknowledged meanwhile must still be stored
				go func() {
					cdb, err := sql.Open("sqlite3", db+"?_busy_timeout=100")
					if err != nil {
						return
					}
					defer cdb.Close()
					for i := 0; i < 6; i++ {
						select {
						case <-stop:
							return
						default:
						}
						if conn, err := cdb.Conn(context.Background()); err == nil {
							if _, err := conn.ExecContext(context.Background(), "BEGIN IMMEDIATE"); err == nil {
								time.Sleep(450 * time.Millisecond)
								_, _ = conn.ExecContext(context.Background(), "COMMIT")
								counts["lock_holds"]++
							}
							conn.Close()
						}
						time.Sleep(30 * time.Millisecond)
					}
				}()
			}
			// kill in the middle of the traffic (sometimes almost at once: a crash during recovery)
			if k%2 == 1 {
				time.Sleep(time.Duration(2200+r.Intn(900)) * time.Millisecond)
			} else {
				time.Sleep(time.Duration(20+r.Intn(600)) * time.Millisecond)
			}
			if k == *kills {
				// last phase: stop the clients, then a graceful shutdown with the default configuration
				close(stop)
				<-done
				s.kill(syscall.SIGTERM)
				counts["graceful"]++
			} else {
				s.kill(syscall.SIGKILL)
				close(stop)
				<-done
				counts["kills"]++
			}
			if what := fileInvariants(db); what != "" {
				fail(what, M{"round": rd, "kill": k})
				break rounds
			}
		}
		// after the graceful stop: everything acknowledged is still there
		s, err := start(bin, db)
		if err != nil {
			fail("the server does not start after a graceful shutdown", M{"round": rd, "error": err.Error()})
			break
		}
		if what := verifyAcks(s, acks); what != "" {
			s.kill(syscall.SIGKILL)
			fail(what, M{"round": rd, "after": "graceful shutdown"})
			break
		}
		counts["acks_verified"] += len(acks)
		counts["acks"] += len(acks)
		s.kill(syscall.SIGKILL)
		for _, suf := range []string{"", "-wal", "-shm", "-journal"} {
			os.Remove(db + suf)
		}
	}
	os.Remove(bin)
	counts["nontrivial"] = counts["acks_verified"]
	summary["scripts"] = *rounds
	summary["cases"] = counts["acks"]
	summary["counts"] = counts
	summary["samples"] = []any{M{"rounds": *rounds, "kills_per_round": *kills}}
	b, _ := json.MarshalIndent(summary, "", " ")
	if *out != "" {
		os.WriteFile(*out, b, 0o644)
	} else {
		fmt.Println(string(b))
	}
	if summary["disagreements"] != 0 {
		os.Exit(3)
	}
}
