// Package dump reads the five resonate tables (and the autoincrement sequences) through an
// independent connection and renders them in the model's `Db` JSON shape.
package dump

import (
	"database/sql"

	"github.com/resonatehq/resonate/pkg/idempotency"
	"github.com/resonatehq/resonate/pkg/lock"
	"github.com/resonatehq/resonate/pkg/promise"
	"github.com/resonatehq/resonate/pkg/schedule"
	"github.com/resonatehq/resonate/pkg/task"
	"github.com/resonatehq/resonate/verifharness/internal/canon"
)

type M = map[string]any

func Sqlite(db *sql.DB) (M, error) {
	out := M{}
	// promises
	{
		rows, err := db.Query(`SELECT id, state, param_headers, param_data, value_headers, value_data, timeout, idempotency_key_for_create, idempotency_key_for_complete, tags, created_on, completed_on, sort_id FROM promises ORDER BY sort_id`)
		if err != nil {
			return nil, err
		}
		list := []any{}
		for rows.Next() {
			r := &promise.PromiseRecord{}
			var k1, k2 *idempotency.Key
			if err := rows.Scan(&r.Id, &r.State, &r.ParamHeaders, &r.ParamData, &r.ValueHeaders, &r.ValueData, &r.Timeout, &k1, &k2, &r.Tags, &r.CreatedOn, &r.CompletedOn, &r.SortId); err != nil {
				rows.Close()
				return nil, err
			}
			r.IdempotencyKeyForCreate, r.IdempotencyKeyForComplete = k1, k2
			list = append(list, canon.PromiseRecord(r))
		}
		rows.Close()
		out["promises"] = list
	}
	// callbacks
	{
		rows, err := db.Query(`SELECT id, promise_id, root_promise_id, recv, mesg, timeout, created_on FROM callbacks ORDER BY rowid`)
		if err != nil {
			return nil, err
		}
		list := []any{}
		for rows.Next() {
			var id, pid, root string
			var recv, mesg []byte
			var timeout, createdOn int64
			if err := rows.Scan(&id, &pid, &root, &recv, &mesg, &timeout, &createdOn); err != nil {
				rows.Close()
				return nil, err
			}
			list = append(list, M{"id": id, "promiseId": pid, "rootPromiseId": root, "recv": string(recv), "mesg": canon.MesgBytes(mesg), "timeout": timeout, "createdOn": createdOn})
		}
		rows.Close()
		out["callbacks"] = list
	}
	// schedules
	{
		rows, err := db.Query(`SELECT id, description, cron, tags, promise_id, promise_timeout, promise_param_headers, promise_param_data, promise_tags, last_run_time, next_run_time, idempotency_key, created_on, sort_id FROM schedules ORDER BY sort_id`)
		if err != nil {
			return nil, err
		}
		list := []any{}
		for rows.Next() {
			r := &schedule.ScheduleRecord{}
			if err := rows.Scan(&r.Id, &r.Description, &r.Cron, &r.Tags, &r.PromiseId, &r.PromiseTimeout, &r.PromiseParamHeaders, &r.PromiseParamData, &r.PromiseTags, &r.LastRunTime, &r.NextRunTime, &r.IdempotencyKey, &r.CreatedOn, &r.SortId); err != nil {
				rows.Close()
				return nil, err
			}
			list = append(list, canon.ScheduleRecord(r))
		}
		rows.Close()
		out["schedules"] = list
	}
	// locks
	{
		rows, err := db.Query(`SELECT resource_id, process_id, execution_id, ttl, expires_at FROM locks ORDER BY rowid`)
		if err != nil {
			return nil, err
		}
		list := []any{}
		for rows.Next() {
			r := &lock.LockRecord{}
			if err := rows.Scan(&r.ResourceId, &r.ProcessId, &r.ExecutionId, &r.Ttl, &r.ExpiresAt); err != nil {
				rows.Close()
				return nil, err
			}
			list = append(list, canon.LockRecord(r))
		}
		rows.Close()
		out["locks"] = list
	}
	// tasks
	{
		rows, err := db.Query(`SELECT id, process_id, state, root_promise_id, recv, mesg, timeout, counter, attempt, ttl, expires_at, created_on, completed_on, sort_id FROM tasks ORDER BY sort_id`)
		if err != nil {
			return nil, err
		}
		list := []any{}
		for rows.Next() {
			r := &task.TaskRecord{}
			var sortId int64
			if err := rows.Scan(&r.Id, &r.ProcessId, &r.State, &r.RootPromiseId, &r.Recv, &r.Mesg, &r.Timeout, &r.Counter, &r.Attempt, &r.Ttl, &r.ExpiresAt, &r.CreatedOn, &r.CompletedOn, &sortId); err != nil {
				rows.Close()
				return nil, err
			}
			list = append(list, canon.TaskRecord(r, sortId))
		}
		rows.Close()
		out["tasks"] = list
	}
	// sequences
	seq := map[string]int64{}
	rows, err := db.Query(`SELECT name, seq FROM sqlite_sequence`)
	if err == nil {
		for rows.Next() {
			var name string
			var s int64
			if err := rows.Scan(&name, &s); err == nil {
				seq[name] = s
			}
		}
		rows.Close()
	}
	out["seqP"], out["seqS"], out["seqT"] = seq["promises"], seq["schedules"], seq["tasks"]
	return out, nil
}
