// Package gen generates random store commands over small shared id pools so that every guard is
// exercised on both sides.  Every random choice derives from one *rand.Rand.
package gen

import (
	"math/rand"

	"github.com/resonatehq/resonate/internal/kernel/t_aio"
	"github.com/resonatehq/resonate/pkg/idempotency"
	"github.com/resonatehq/resonate/pkg/message"
	"github.com/resonatehq/resonate/pkg/promise"
	"github.com/resonatehq/resonate/pkg/task"
)

type G struct {
	R *rand.Rand
	// distribution counters
	Kinds map[string]int
}

func New(seed int64) *G { return &G{R: rand.New(rand.NewSource(seed)), Kinds: map[string]int{}} }

// Reseed restarts the random stream (one stream per script, so that a script can be regenerated alone)
func (g *G) Reseed(seed int64) { g.R = rand.New(rand.NewSource(seed)) }

var PromiseIds = []string{"p0", "p1", "p2", "P1", "a:b", "b:c", "x/y", "p0.1", "pé", "%", "p_"}
var Patterns = []string{"*", "p*", "*1", "p_", "P*", "*:*", "a:b", "p0", "*é", "%", "p0.1", "*.*", "\\*", "x/*"}
var ProcIds = []string{"w0", "w1", "w2", "Worker-A"} // process ids are case-sensitive
var ExecIds = []string{"e0", "e1", "e2", "e0 "} // ids are compared as given: "e0 " is another execution than "e0"
var ResIds = []string{"r0", "r1", "R0"}
var SchedIds = []string{"s0", "s1", "S0", "s:x"}
var TagKeys = []string{"k", "a.b", "resonate:timeout", "resonate:invoke", "x y"}
var TagVals = []string{"true", "v", "", "poll://g/i"}
var Keys = []string{"i0", "i1"}
var SearchTagKeys = []string{"k", "resonate:timeout"}
var SchedPatterns = []string{"*", "s*", "*0", "s:x", "s_"}

// DialectSafe restricts the pools to the documented common ground of the two SQL dialects
// (no ASCII upper-case letters, no backslash, plain tag keys).
func DialectSafe() {
	PromiseIds = []string{"p0", "p1", "p2", "a:b", "b:c", "x/y", "p_", "%"}
	Patterns = []string{"*", "p*", "*1", "p_", "*:*", "a:b", "p0", "x/*", "%"}
	SchedIds = []string{"s0", "s1", "s:x"}
	TagKeys = []string{"kk", "resonate:timeout", "resonate:invoke"}
	SearchTagKeys = []string{"kk", "resonate:timeout"}
}

func (g *G) pick(xs []string) string { return xs[g.R.Intn(len(xs))] }
func (g *G) time() int64             { return int64(g.R.Intn(40)) }
func (g *G) pid() string             { return g.pick(PromiseIds) }

func (g *G) key() *idempotency.Key {
	if g.R.Intn(3) == 0 {
		return nil
	}
	k := idempotency.Key(g.pick(Keys))
	return &k
}

func (g *G) smap(keys []string) map[string]string {
	m := map[string]string{}
	n := g.R.Intn(3)
	for i := 0; i < n; i++ {
		m[g.pick(keys)] = g.pick(TagVals)
	}
	// sqlite >= 3.45 reads an 8-byte BLOB starting with '{' (0x7b = "array, 7 payload bytes") as JSONB,
	// so json_extract on the text blob {"k":""} yields NULL; recorded in DESIGN §7 (observation O2) and kept
	// out of the generic stream.
	if len(m) == 1 {
		for k, v := range m {
			if len(k)+len(v) == 1 {
				m[k] = "vv"
			}
		}
	}
	return m
}

func (g *G) data() []byte {
	switch g.R.Intn(4) {
	case 0:
		return []byte{}
	case 1:
		return []byte("x")
	case 2:
		return []byte("<a&b>\"é\n")
	default:
		return []byte("data")
	}
}

func (g *G) value() promise.Value {
	return promise.Value{Headers: g.smap([]string{"h", "Content-Type", "<&>"}), Data: g.data()}
}

func (g *G) mesg() *message.Mesg {
	switch g.R.Intn(3) {
	case 0:
		return &message.Mesg{Type: message.Invoke, Root: g.pid(), Leaf: g.pid()}
	case 1:
		return &message.Mesg{Type: message.Resume, Root: g.pid(), Leaf: g.pid()}
	default:
		return &message.Mesg{Type: message.Notify, Root: g.pid()}
	}
}

func (g *G) recv() []byte {
	switch g.R.Intn(3) {
	case 0:
		return []byte(`"default"`)
	case 1:
		return []byte(`{"type":"poll","data":{"group":"g","id":"i"}}`)
	default:
		return []byte(`"http://h/x"`)
	}
}

func (g *G) pstates() []promise.State {
	all := []promise.State{promise.Pending, promise.Resolved, promise.Rejected, promise.Canceled, promise.Timedout}
	out := []promise.State{}
	for _, s := range all {
		if g.R.Intn(2) == 0 {
			out = append(out, s)
		}
	}
	if len(out) == 0 {
		out = append(out, all[g.R.Intn(5)])
	}
	return out
}

func (g *G) tstates() []task.State {
	all := []task.State{task.Init, task.Enqueued, task.Claimed, task.Completed, task.Timedout}
	out := []task.State{}
	for _, s := range all {
		if g.R.Intn(2) == 0 {
			out = append(out, s)
		}
	}
	if len(out) == 0 {
		out = append(out, all[g.R.Intn(5)])
	}
	return out
}

func (g *G) taskId() string {
	switch g.R.Intn(4) {
	case 0:
		return "__invoke:" + g.pid()
	case 1:
		return "__resume:" + g.pid() + ":" + g.pid()
	case 2:
		return "__notify:" + g.pid() + ":" + g.pick([]string{"n0", "n1", "b:c"})
	default:
		return g.pick([]string{"t0", "t1", "T0"})
	}
}

func (g *G) optSort() *int64 {
	if g.R.Intn(2) == 0 {
		return nil
	}
	v := int64(g.R.Intn(12))
	return &v
}

func (g *G) limit() int {
	if g.R.Intn(4) == 0 {
		return 1 + g.R.Intn(100)
	}
	return 1 + g.R.Intn(4)
}

func (g *G) createPromise() *t_aio.CreatePromiseCommand {
	return &t_aio.CreatePromiseCommand{Id: g.pid(), Param: g.value(), Timeout: g.time(), IdempotencyKey: g.key(), Tags: g.smap(TagKeys), CreatedOn: g.time()}
}

func (g *G) createTask() *t_aio.CreateTaskCommand {
	c := &t_aio.CreateTaskCommand{Id: g.taskId(), Recv: g.recv(), Mesg: g.mesg(), Timeout: g.time(), State: task.Init, Ttl: g.R.Intn(5), ExpiresAt: g.time(), CreatedOn: g.time()}
	if g.R.Intn(2) == 0 {
		c.State = task.Claimed
		p := g.pick(ProcIds)
		c.ProcessId = &p
	} else if g.R.Intn(3) == 0 {
		p := g.pick(ProcIds)
		c.ProcessId = &p
	}
	return c
}

// Command draws one command of a uniformly chosen kind (all 27).
func (g *G) Command() *t_aio.Command {
	k := t_aio.StoreKind(g.R.Intn(27))
	return g.CommandOf(k)
}

func (g *G) CommandOf(k t_aio.StoreKind) *t_aio.Command {
	g.Kinds[k.String()]++
	c := &t_aio.Command{Kind: k}
	switch k {
	case t_aio.ReadPromise:
		c.ReadPromise = &t_aio.ReadPromiseCommand{Id: g.pid()}
	case t_aio.ReadPromises:
		c.ReadPromises = &t_aio.ReadPromisesCommand{Time: g.time(), Limit: g.limit()}
	case t_aio.SearchPromises:
		tags := map[string]string{}
		if g.R.Intn(3) == 0 {
			tags = g.smap(SearchTagKeys)
		}
		c.SearchPromises = &t_aio.SearchPromisesCommand{Id: g.pick(Patterns), States: g.pstates(), Tags: tags, Limit: g.limit(), SortId: g.optSort()}
	case t_aio.CreatePromise:
		c.CreatePromise = g.createPromise()
	case t_aio.UpdatePromise:
		st := []promise.State{promise.Resolved, promise.Rejected, promise.Canceled, promise.Timedout}[g.R.Intn(4)]
		c.UpdatePromise = &t_aio.UpdatePromiseCommand{Id: g.pid(), State: st, Value: g.value(), IdempotencyKey: g.key(), CompletedOn: g.time()}
	case t_aio.CreateCallback:
		m := g.mesg()
		id := "__resume:" + m.Root + ":" + m.Leaf
		if g.R.Intn(3) == 0 {
			id = g.taskId()
		}
		c.CreateCallback = &t_aio.CreateCallbackCommand{Id: id, PromiseId: g.pid(), Recv: g.recv(), Mesg: m, Timeout: g.time(), CreatedOn: g.time()}
	case t_aio.DeleteCallbacks:
		c.DeleteCallbacks = &t_aio.DeleteCallbacksCommand{PromiseId: g.pid()}
	case t_aio.ReadSchedule:
		c.ReadSchedule = &t_aio.ReadScheduleCommand{Id: g.pick(SchedIds)}
	case t_aio.ReadSchedules:
		c.ReadSchedules = &t_aio.ReadSchedulesCommand{NextRunTime: g.time(), Limit: g.limit()}
	case t_aio.SearchSchedules:
		tags := map[string]string{}
		if g.R.Intn(3) == 0 {
			tags = g.smap(SearchTagKeys[:1])
		}
		c.SearchSchedules = &t_aio.SearchSchedulesCommand{Id: g.pick(SchedPatterns), Tags: tags, Limit: g.limit(), SortId: g.optSort()}
	case t_aio.CreateSchedule:
		c.CreateSchedule = &t_aio.CreateScheduleCommand{Id: g.pick(SchedIds), Description: g.pick([]string{"", "d"}), Cron: g.pick([]string{"* * * * *", "0 0 1 1 *"}),
			Tags: g.smap(TagKeys), PromiseId: g.pick([]string{"{{.id}}.{{.timestamp}}", "fixed"}), PromiseTimeout: g.time(), PromiseParam: g.value(),
			PromiseTags: g.smap(TagKeys), NextRunTime: g.time(), IdempotencyKey: g.key(), CreatedOn: g.time()}
	case t_aio.UpdateSchedule:
		var last *int64
		if g.R.Intn(5) != 0 {
			v := g.time()
			last = &v
		}
		c.UpdateSchedule = &t_aio.UpdateScheduleCommand{Id: g.pick(SchedIds), LastRunTime: last, NextRunTime: g.time()}
	case t_aio.DeleteSchedule:
		c.DeleteSchedule = &t_aio.DeleteScheduleCommand{Id: g.pick(SchedIds)}
	case t_aio.ReadTask:
		c.ReadTask = &t_aio.ReadTaskCommand{Id: g.taskId()}
	case t_aio.ReadTasks:
		c.ReadTasks = &t_aio.ReadTasksCommand{States: g.tstates(), Time: g.time(), Limit: g.limit()}
	case t_aio.ReadEnqueueableTasks:
		c.ReadEnquableTasks = &t_aio.ReadEnqueueableTasksCommand{Time: g.time(), Limit: g.limit()}
	case t_aio.CreateTask:
		c.CreateTask = g.createTask()
	case t_aio.CreateTasks:
		c.CreateTasks = &t_aio.CreateTasksCommand{PromiseId: g.pid(), CreatedOn: g.time()}
	case t_aio.CompleteTasks:
		c.CompleteTasks = &t_aio.CompleteTasksCommand{RootPromiseId: g.pid(), CompletedOn: g.time()}
	case t_aio.UpdateTask:
		var pid *string
		if g.R.Intn(2) == 0 {
			p := g.pick(ProcIds)
			pid = &p
		}
		var co *int64
		if g.R.Intn(2) == 0 {
			v := g.time()
			co = &v
		}
		st := []task.State{task.Init, task.Enqueued, task.Claimed, task.Completed, task.Timedout}[g.R.Intn(5)]
		c.UpdateTask = &t_aio.UpdateTaskCommand{Id: g.taskId(), ProcessId: pid, State: st, Counter: 1 + g.R.Intn(3), Attempt: g.R.Intn(3), Ttl: g.R.Intn(5),
			ExpiresAt: g.time(), CompletedOn: co, CurrentStates: g.tstates(), CurrentCounter: 1 + g.R.Intn(3)}
	case t_aio.HeartbeatTasks:
		c.HeartbeatTasks = &t_aio.HeartbeatTasksCommand{ProcessId: g.pick(ProcIds), Time: g.time()}
	case t_aio.CreatePromiseAndTask:
		pc := g.createPromise()
		tc := g.createTask()
		if g.R.Intn(4) != 0 {
			tc.Id = "__invoke:" + pc.Id
			tc.Mesg = &message.Mesg{Type: message.Invoke, Root: pc.Id, Leaf: pc.Id}
		}
		c.CreatePromiseAndTask = &t_aio.CreatePromiseAndTaskCommand{PromiseCommand: pc, TaskCommand: tc}
	case t_aio.ReadLock:
		c.ReadLock = &t_aio.ReadLockCommand{ResourceId: g.pick(ResIds)}
	case t_aio.AcquireLock:
		c.AcquireLock = &t_aio.AcquireLockCommand{ResourceId: g.pick(ResIds), ProcessId: g.pick(ProcIds), ExecutionId: g.pick(ExecIds), Ttl: int64(g.R.Intn(6)), ExpiresAt: g.time()}
	case t_aio.ReleaseLock:
		c.ReleaseLock = &t_aio.ReleaseLockCommand{ResourceId: g.pick(ResIds), ExecutionId: g.pick(ExecIds)}
	case t_aio.HeartbeatLocks:
		c.HeartbeatLocks = &t_aio.HeartbeatLocksCommand{ProcessId: g.pick(ProcIds), Time: g.time()}
	case t_aio.TimeoutLocks:
		c.TimeoutLocks = &t_aio.TimeoutLocksCommand{Timeout: g.time()}
	}
	return c
}

// Batch draws 1..4 transactions of 1..5 commands.
func (g *G) Batch() [][]*t_aio.Command {
	nt := 1 + g.R.Intn(4)
	out := make([][]*t_aio.Command, nt)
	for i := range out {
		nc := 1 + g.R.Intn(5)
		for j := 0; j < nc; j++ {
			out[i] = append(out[i], g.Command())
		}
	}
	return out
}

// Pick is the exported form of pick (scenario generators in the harnesses)
func (g *G) Pick(xs []string) string { return g.pick(xs) }
