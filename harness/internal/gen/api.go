package gen

import (
	"fmt"

	"github.com/resonatehq/resonate/internal/kernel/t_api"
	"github.com/resonatehq/resonate/pkg/promise"
)

// API-level request generation: small shared id pools, timeouts placed around the harness clock.

var ApiPromiseIds = []string{"p0", "p1", "a:b", "b:c"}

// subscription ids; "b:c" on promise "a" and (hostile) "c" on promise "a:b" both spell __notify:a:b:c
var SubIds = []string{"n0", "n1", "b:c"}
var CronExprs = []string{"* * * * * *", "*/2 * * * * *", "*/5 * * * * *", "bad cron"}
var IdTemplates = []string{"{{.id}}.{{.timestamp}}", "fixed", "x-{{.timestamp}}"}
var RouteTags = []string{"poll://g/i", "http://h/x", `{"type":"poll","data":{"group":"g","id":"i"}}`, "default", "true", "17", `{"a":1}`}

// Hostile extends the pools with values that used to crash or corrupt the server (markup characters in
// schedule ids, unclosed template actions, JSON literals as routing tags).
func Hostile() {
	SchedIds = append(SchedIds, "s&<", " s pad ")
	// ids are whitespace-sensitive: templates and schedule ids with leading / trailing blanks render to ids with those blanks
	IdTemplates = append(IdTemplates, "x.{{.timestamp", " {{.id}}.{{.timestamp}} ", "{{.timestamp}}-{{.id}}", "{{.id.x}}")
	RouteTags = append(RouteTags, "null")
	// ids whose derived callback ids collide: (root a, promise b:c) and (root a:b, promise c) both give __resume:a:b:c
	ApiPromiseIds = append(ApiPromiseIds, "a", "c")
	// look-alikes: "P1" equals "p1" up to case, "p_" matches "p0" and "p1" as a LIKE pattern — ids are compared exactly
	ApiPromiseIds = append(ApiPromiseIds, "P1", "p_")
	// ids are opaque: path-looking ids with empty or dot segments are not "cleaned" anywhere
	ApiPromiseIds = append(ApiPromiseIds, "x//y", "x/./y")
	SubIds = append(SubIds, "c")
}

type ApiOpts struct {
	Kinds []t_api.Kind // kinds to draw from
	Now   int64
}

var focus bool
var savedPromiseIds []string

// Focus narrows the generator to two promise ids and deadlines close to the clock, so that requests collide on
// the same rows around their deadlines (used when hunting for a failing history)
func Focus(on bool) {
	if on == focus {
		return
	}
	focus = on
	if on {
		savedPromiseIds = ApiPromiseIds
		ApiPromiseIds = ApiPromiseIds[:2]
	} else {
		ApiPromiseIds = savedPromiseIds
	}
}

func (g *G) apiTimeout(now int64) int64 {
	if focus {
		return now + []int64{1, 500, 1000, 1000, 2000, 2000, 3000, 100000}[g.R.Intn(8)]
	}
	switch g.R.Intn(7) {
	case 0:
		return now - 1000
	case 1:
		return now
	case 2:
		return now + 1
	case 3:
		return now + 1000
	case 4:
		return now + 2000
	default:
		return now + 100000
	}
}

func (g *G) apiTags(routed bool) map[string]string {
	m := map[string]string{}
	if g.R.Intn(3) == 0 {
		m["resonate:timeout"] = g.pick([]string{"true", "false"})
	}
	if g.R.Intn(3) == 0 {
		m["kk"] = g.pick([]string{"v", "w"})
	}
	if routed {
		m["resonate:invoke"] = g.pick(RouteTags)
	}
	return m
}

func (g *G) apiValue() promise.Value {
	v := promise.Value{}
	if g.R.Intn(2) == 0 {
		v.Headers = map[string]string{"h": g.pick([]string{"1", "<&>"})}
	}
	switch g.R.Intn(3) {
	case 0:
		v.Data = []byte("d")
	case 1:
		v.Data = []byte("<a&b>é")
	}
	return v
}

var AllApiKinds = []t_api.Kind{
	t_api.ReadPromise, t_api.SearchPromises, t_api.CreatePromise, t_api.CreatePromiseAndTask, t_api.CompletePromise,
	t_api.CreateCallback, t_api.CreateSubscription, t_api.ReadSchedule, t_api.SearchSchedules, t_api.CreateSchedule,
	t_api.DeleteSchedule, t_api.AcquireLock, t_api.ReleaseLock, t_api.HeartbeatLocks, t_api.ClaimTask, t_api.CompleteTask,
	t_api.HeartbeatTasks,
}

// KnownTasks lets the harness bias claim/complete requests to tasks that exist (id, counter).
type KnownTask struct {
	Pid string // holder, when claimed
	Id      string
	Counter int
}

func (g *G) Request(tid string, now int64, kinds []t_api.Kind, tasks []KnownTask, routedPct int) *t_api.Request {
	k := g.weightedKind(kinds)
	g.Kinds["api:"+k.String()]++
	r := &t_api.Request{Kind: k, Tags: map[string]string{"id": tid, "name": k.String(), "protocol": "dst"}}
	pid := func() string { return g.pick(ApiPromiseIds) }
	taskRef := func() (string, int) {
		if len(tasks) > 0 && g.R.Intn(5) != 0 {
			t := tasks[g.R.Intn(len(tasks))]
			c := t.Counter
			switch g.R.Intn(6) {
			case 0:
				c--
			case 1:
				c++
			}
			return t.Id, c
		}
		return "__invoke:" + pid(), 1 + g.R.Intn(2)
	}
	switch k {
	case t_api.ReadPromise:
		r.ReadPromise = &t_api.ReadPromiseRequest{Id: pid()}
	case t_api.SearchPromises:
		tags := map[string]string{}
		if g.R.Intn(4) == 0 {
			tags["kk"] = g.pick([]string{"v", "w"})
		}
		r.SearchPromises = &t_api.SearchPromisesRequest{Id: g.pick([]string{"*", "p*", "*:*", "p1", "*/y"}), States: g.pstates(), Tags: tags, Limit: 1 + g.R.Intn(4), SortId: nil}
		if g.R.Intn(3) == 0 {
			v := int64(1 + g.R.Intn(8))
			r.SearchPromises.SortId = &v
		}
	case t_api.CreatePromise:
		r.CreatePromise = &t_api.CreatePromiseRequest{Id: pid(), IdempotencyKey: g.key(), Strict: g.R.Intn(3) == 0, Param: g.apiValue(), Timeout: g.apiTimeout(now), Tags: g.apiTags(g.R.Intn(100) < routedPct)}
	case t_api.CreatePromiseAndTask:
		id := pid()
		to := g.apiTimeout(now)
		r.CreatePromiseAndTask = &t_api.CreatePromiseAndTaskRequest{
			Promise: &t_api.CreatePromiseRequest{Id: id, IdempotencyKey: g.key(), Strict: g.R.Intn(3) == 0, Param: g.apiValue(), Timeout: to, Tags: g.apiTags(g.R.Intn(100) < 70)},
			Task:    &t_api.CreateTaskRequest{PromiseId: id, ProcessId: g.pick(ProcIds), Ttl: g.pickInt([]int{0, 1, 1000, 5000}), Timeout: to},
		}
	case t_api.CompletePromise:
		st := []promise.State{promise.Resolved, promise.Rejected, promise.Canceled}[g.R.Intn(3)]
		r.CompletePromise = &t_api.CompletePromiseRequest{Id: pid(), IdempotencyKey: g.key(), Strict: g.R.Intn(3) == 0, State: st, Value: g.apiValue()}
	case t_api.CreateCallback:
		p, root := pid(), pid()
		if p == root && g.R.Intn(8) != 0 {
			root = "root-" + g.pick([]string{"0", "1"})
		}
		r.CreateCallback = &t_api.CreateCallbackRequest{PromiseId: p, RootPromiseId: root, Timeout: g.apiTimeout(now), Recv: g.recv()}
	case t_api.CreateSubscription:
		r.CreateSubscription = &t_api.CreateSubscriptionRequest{Id: g.pick(SubIds), PromiseId: pid(), Timeout: g.apiTimeout(now), Recv: g.recv()}
	case t_api.ReadSchedule:
		r.ReadSchedule = &t_api.ReadScheduleRequest{Id: g.pick(SchedIds)}
	case t_api.SearchSchedules:
		stags := map[string]string{}
		if g.R.Intn(3) == 0 {
			stags["kk"] = g.pick([]string{"v", "w"})
		}
		r.SearchSchedules = &t_api.SearchSchedulesRequest{Id: g.pick([]string{"*", "s*", "S*"}), Tags: stags, Limit: 1 + g.R.Intn(3)}
	case t_api.CreateSchedule:
		r.CreateSchedule = &t_api.CreateScheduleRequest{Id: g.pick(SchedIds), Description: g.pick([]string{"", "d"}), Cron: g.pick(CronExprs), Tags: g.apiTags(false),
			PromiseId: g.pick(IdTemplates), PromiseTimeout: int64(g.pickInt([]int{0, 500, 3000, 100000})), PromiseParam: g.apiValue(), PromiseTags: g.apiTags(g.R.Intn(100) < routedPct), IdempotencyKey: g.key()}
	case t_api.DeleteSchedule:
		r.DeleteSchedule = &t_api.DeleteScheduleRequest{Id: g.pick(SchedIds)}
	case t_api.AcquireLock:
		r.AcquireLock = &t_api.AcquireLockRequest{ResourceId: g.pick(ResIds), ExecutionId: g.pick(ExecIds), ProcessId: g.pick(ProcIds), Ttl: int64(g.pickInt([]int{0, 1, 1000, 3000}))}
	case t_api.ReleaseLock:
		r.ReleaseLock = &t_api.ReleaseLockRequest{ResourceId: g.pick(ResIds), ExecutionId: g.pick(ExecIds)}
	case t_api.HeartbeatLocks:
		r.HeartbeatLocks = &t_api.HeartbeatLocksRequest{ProcessId: g.pick(ProcIds)}
	case t_api.ClaimTask:
		id, c := taskRef()
		r.ClaimTask = &t_api.ClaimTaskRequest{Id: id, Counter: c, ProcessId: g.pick(ProcIds), Ttl: g.pickInt([]int{0, 1, 1000, 3000})}
	case t_api.CompleteTask:
		id, c := taskRef()
		r.CompleteTask = &t_api.CompleteTaskRequest{Id: id, Counter: c}
	case t_api.HeartbeatTasks:
		pidOf := g.pick(ProcIds)
		// workers heartbeat for what they hold: prefer the holder of a claimed task
		var holders []string
		for _, t := range tasks {
			if t.Pid != "" {
				holders = append(holders, t.Pid)
			}
		}
		if len(holders) > 0 && g.R.Intn(4) != 0 {
			pidOf = holders[g.R.Intn(len(holders))]
		}
		r.HeartbeatTasks = &t_api.HeartbeatTasksRequest{ProcessId: pidOf}
	default:
		panic(fmt.Sprintf("gen: kind %s", k))
	}
	return r
}

func (g *G) pickInt(xs []int) int { return xs[g.R.Intn(len(xs))] }

var kindWeight = map[t_api.Kind]int{
	t_api.ReadPromise: 6, t_api.SearchPromises: 5, t_api.CreatePromise: 20, t_api.CreatePromiseAndTask: 8, t_api.CompletePromise: 12,
	t_api.CreateCallback: 9, t_api.CreateSubscription: 6, t_api.ReadSchedule: 2, t_api.SearchSchedules: 2, t_api.CreateSchedule: 5,
	t_api.DeleteSchedule: 2, t_api.AcquireLock: 5, t_api.ReleaseLock: 3, t_api.HeartbeatLocks: 2, t_api.ClaimTask: 8, t_api.CompleteTask: 5,
	t_api.HeartbeatTasks: 3,
}

func (g *G) weightedKind(kinds []t_api.Kind) t_api.Kind {
	total := 0
	for _, k := range kinds {
		total += kindWeight[k]
	}
	x := g.R.Intn(total)
	for _, k := range kinds {
		x -= kindWeight[k]
		if x < 0 {
			return k
		}
	}
	return kinds[0]
}
