package canon

import (
	"errors"

	"github.com/resonatehq/resonate/internal/kernel/t_aio"
	"github.com/resonatehq/resonate/internal/kernel/t_api"
	"github.com/resonatehq/resonate/pkg/callback"
	"github.com/resonatehq/resonate/pkg/lock"
	"github.com/resonatehq/resonate/pkg/promise"
	"github.com/resonatehq/resonate/pkg/schedule"
	"github.com/resonatehq/resonate/pkg/task"
)

// ---------------------------------------------------------------- API objects (model: Model/Api.lean)

func Promise(p *promise.Promise) any {
	if p == nil {
		return nil
	}
	return M{"id": p.Id, "state": int(p.State), "param": Value(p.Param), "value": Value(p.Value), "timeout": p.Timeout,
		"idempotencyKeyForCreate": Key(p.IdempotencyKeyForCreate), "idempotencyKeyForComplete": Key(p.IdempotencyKeyForComplete),
		"tags": Pairs(p.Tags), "createdOn": OptI64(p.CreatedOn), "completedOn": OptI64(p.CompletedOn)}
}

func Task(t *task.Task) any {
	if t == nil {
		return nil
	}
	return M{"id": t.Id, "counter": t.Counter, "timeout": t.Timeout, "processId": OptS(t.ProcessId), "state": int(t.State),
		"rootPromiseId": t.RootPromiseId, "recv": string(t.Recv), "mesg": Mesg(t.Mesg), "attempt": t.Attempt, "ttl": t.Ttl,
		"expiresAt": t.ExpiresAt, "createdOn": OptI64(t.CreatedOn), "completedOn": OptI64(t.CompletedOn)}
}

func Callback(c *callback.Callback) any {
	if c == nil {
		return nil
	}
	return M{"id": c.Id, "promiseId": c.PromiseId, "recv": string(c.Recv), "mesg": Mesg(c.Mesg), "timeout": c.Timeout, "createdOn": c.CreatedOn}
}

func Schedule(s *schedule.Schedule) any {
	if s == nil {
		return nil
	}
	return M{"id": s.Id, "description": s.Description, "cron": s.Cron, "tags": Pairs(s.Tags), "promiseId": s.PromiseId,
		"promiseTimeout": s.PromiseTimeout, "promiseParam": Value(s.PromiseParam), "promiseTags": Pairs(s.PromiseTags),
		"lastRunTime": OptI64(s.LastRunTime), "nextRunTime": s.NextRunTime, "idempotencyKey": Key(s.IdempotencyKey), "createdOn": s.CreatedOn}
}

func Lock(l *lock.Lock) any {
	if l == nil {
		return nil
	}
	return M{"resourceId": l.ResourceId, "executionId": l.ExecutionId, "processId": l.ProcessId, "ttl": l.Ttl, "expiresAt": l.ExpiresAt}
}

// ---------------------------------------------------------------- requests

func CreatePromiseReq(r *t_api.CreatePromiseRequest) M {
	return M{"id": r.Id, "idempotencyKey": Key(r.IdempotencyKey), "strict": r.Strict, "param": Value(r.Param), "timeout": r.Timeout, "tags": Pairs(r.Tags)}
}

func SearchPromisesReq(r *t_api.SearchPromisesRequest) any {
	if r == nil {
		return nil
	}
	return M{"id": r.Id, "states": States(r.States), "tags": Pairs(r.Tags), "limit": r.Limit, "sortId": OptI64(r.SortId)}
}

func SearchSchedulesReq(r *t_api.SearchSchedulesRequest) any {
	if r == nil {
		return nil
	}
	return M{"id": r.Id, "tags": Pairs(r.Tags), "limit": r.Limit, "sortId": OptI64(r.SortId)}
}

func Req(r *t_api.Request) M {
	var c M
	switch r.Kind {
	case t_api.ReadPromise:
		c = M{"id": r.ReadPromise.Id}
	case t_api.SearchPromises:
		c = SearchPromisesReq(r.SearchPromises).(M)
	case t_api.CreatePromise:
		c = CreatePromiseReq(r.CreatePromise)
	case t_api.CreatePromiseAndTask:
		t := r.CreatePromiseAndTask.Task
		c = M{"promise": CreatePromiseReq(r.CreatePromiseAndTask.Promise), "task": M{"promiseId": t.PromiseId, "processId": t.ProcessId, "ttl": t.Ttl, "timeout": t.Timeout}}
	case t_api.CompletePromise:
		x := r.CompletePromise
		c = M{"id": x.Id, "idempotencyKey": Key(x.IdempotencyKey), "strict": x.Strict, "state": int(x.State), "value": Value(x.Value)}
	case t_api.CreateCallback:
		x := r.CreateCallback
		c = M{"promiseId": x.PromiseId, "rootPromiseId": x.RootPromiseId, "timeout": x.Timeout, "recv": string(x.Recv)}
	case t_api.CreateSubscription:
		x := r.CreateSubscription
		c = M{"id": x.Id, "promiseId": x.PromiseId, "timeout": x.Timeout, "recv": string(x.Recv)}
	case t_api.ReadSchedule:
		c = M{"id": r.ReadSchedule.Id}
	case t_api.SearchSchedules:
		c = SearchSchedulesReq(r.SearchSchedules).(M)
	case t_api.CreateSchedule:
		x := r.CreateSchedule
		c = M{"id": x.Id, "description": x.Description, "cron": x.Cron, "tags": Pairs(x.Tags), "promiseId": x.PromiseId, "promiseTimeout": x.PromiseTimeout,
			"promiseParam": Value(x.PromiseParam), "promiseTags": Pairs(x.PromiseTags), "idempotencyKey": Key(x.IdempotencyKey)}
	case t_api.DeleteSchedule:
		c = M{"id": r.DeleteSchedule.Id}
	case t_api.AcquireLock:
		x := r.AcquireLock
		c = M{"resourceId": x.ResourceId, "executionId": x.ExecutionId, "processId": x.ProcessId, "ttl": x.Ttl}
	case t_api.ReleaseLock:
		c = M{"resourceId": r.ReleaseLock.ResourceId, "executionId": r.ReleaseLock.ExecutionId}
	case t_api.HeartbeatLocks:
		c = M{"processId": r.HeartbeatLocks.ProcessId}
	case t_api.ClaimTask:
		x := r.ClaimTask
		c = M{"id": x.Id, "counter": x.Counter, "processId": x.ProcessId, "ttl": x.Ttl}
	case t_api.CompleteTask:
		c = M{"id": r.CompleteTask.Id, "counter": r.CompleteTask.Counter}
	case t_api.HeartbeatTasks:
		c = M{"processId": r.HeartbeatTasks.ProcessId}
	default:
		panic("canon: unsupported request kind")
	}
	return M{"k": r.Kind.String(), "c": c}
}

// ---------------------------------------------------------------- responses

func Resp(res *t_api.Response, err error) M {
	if err != nil {
		var e *t_api.Error
		if errors.As(err, &e) {
			return M{"k": "error", "status": int(e.Code())}
		}
		return M{"k": "error", "status": -1, "text": err.Error()}
	}
	if res == nil {
		return M{"k": "nil"}
	}
	switch res.Kind {
	case t_api.ReadPromise:
		return M{"k": "promise", "status": int(res.ReadPromise.Status), "promise": Promise(res.ReadPromise.Promise)}
	case t_api.CreatePromise:
		return M{"k": "promise", "status": int(res.CreatePromise.Status), "promise": Promise(res.CreatePromise.Promise)}
	case t_api.CompletePromise:
		return M{"k": "promise", "status": int(res.CompletePromise.Status), "promise": Promise(res.CompletePromise.Promise)}
	case t_api.CreatePromiseAndTask:
		x := res.CreatePromiseAndTask
		return M{"k": "promiseTask", "status": int(x.Status), "promise": Promise(x.Promise), "task": Task(x.Task)}
	case t_api.SearchPromises:
		x := res.SearchPromises
		ps := []any{}
		for _, p := range x.Promises {
			ps = append(ps, Promise(p))
		}
		var cur any
		if x.Cursor != nil {
			cur = SearchPromisesReq(x.Cursor.Next)
		}
		return M{"k": "searchPromises", "status": int(x.Status), "promises": ps, "cursor": cur}
	case t_api.CreateCallback:
		x := res.CreateCallback
		return M{"k": "callback", "status": int(x.Status), "promise": Promise(x.Promise), "callback": Callback(x.Callback)}
	case t_api.CreateSubscription:
		x := res.CreateSubscription
		return M{"k": "callback", "status": int(x.Status), "promise": Promise(x.Promise), "callback": Callback(x.Callback)}
	case t_api.ReadSchedule:
		return M{"k": "schedule", "status": int(res.ReadSchedule.Status), "schedule": Schedule(res.ReadSchedule.Schedule)}
	case t_api.CreateSchedule:
		return M{"k": "schedule", "status": int(res.CreateSchedule.Status), "schedule": Schedule(res.CreateSchedule.Schedule)}
	case t_api.SearchSchedules:
		x := res.SearchSchedules
		ss := []any{}
		for _, s := range x.Schedules {
			ss = append(ss, Schedule(s))
		}
		var cur any
		if x.Cursor != nil {
			cur = SearchSchedulesReq(x.Cursor.Next)
		}
		return M{"k": "searchSchedules", "status": int(x.Status), "schedules": ss, "cursor": cur}
	case t_api.DeleteSchedule:
		return M{"k": "status", "status": int(res.DeleteSchedule.Status)}
	case t_api.ReleaseLock:
		return M{"k": "status", "status": int(res.ReleaseLock.Status)}
	case t_api.AcquireLock:
		return M{"k": "lock", "status": int(res.AcquireLock.Status), "lock": Lock(res.AcquireLock.Lock)}
	case t_api.HeartbeatLocks:
		return M{"k": "count", "status": int(res.HeartbeatLocks.Status), "n": res.HeartbeatLocks.LocksAffected}
	case t_api.HeartbeatTasks:
		return M{"k": "count", "status": int(res.HeartbeatTasks.Status), "n": res.HeartbeatTasks.TasksAffected}
	case t_api.ClaimTask:
		x := res.ClaimTask
		return M{"k": "claim", "status": int(x.Status), "task": Task(x.Task), "rootPromise": Promise(x.RootPromise), "leafPromise": Promise(x.LeafPromise),
			"rootPromiseHref": x.RootPromiseHref, "leafPromiseHref": x.LeafPromiseHref}
	case t_api.CompleteTask:
		return M{"k": "task", "status": int(res.CompleteTask.Status), "task": Task(res.CompleteTask.Task)}
	}
	return M{"k": "unknown"}
}

// ---------------------------------------------------------------- submissions

func Subm(s *t_aio.Submission) M {
	switch s.Kind {
	case t_aio.Store:
		tx := []any{}
		for _, c := range s.Store.Transaction.Commands {
			tx = append(tx, Cmd(c))
		}
		return M{"k": "store", "tx": tx}
	case t_aio.Router:
		return M{"k": "router", "promise": Promise(s.Router.Promise)}
	case t_aio.Sender:
		x := s.Sender
		return M{"k": "sender", "sender": M{"task": Task(x.Task), "promise": Promise(x.Promise), "claimHref": x.ClaimHref, "completeHref": x.CompleteHref, "heartbeatHref": x.HeartbeatHref}}
	}
	return M{"k": "other"}
}
