// Package canon converts resonate's store commands, results and records into the canonical JSON
// shapes of the Lean model's line protocol (maps as key-sorted [k,v] pair arrays, nil as null).
package canon

import (
	"encoding/json"
	"fmt"
	"sort"

	"github.com/resonatehq/resonate/internal/kernel/t_aio"
	"github.com/resonatehq/resonate/pkg/idempotency"
	"github.com/resonatehq/resonate/pkg/lock"
	"github.com/resonatehq/resonate/pkg/message"
	"github.com/resonatehq/resonate/pkg/promise"
	"github.com/resonatehq/resonate/pkg/schedule"
	"github.com/resonatehq/resonate/pkg/task"
)

type M = map[string]any

func Pairs(m map[string]string) []any {
	keys := make([]string, 0, len(m))
	for k := range m {
		keys = append(keys, k)
	}
	sort.Strings(keys)
	out := make([]any, 0, len(keys))
	for _, k := range keys {
		out = append(out, []any{k, m[k]})
	}
	return out
}

// BytesMap: a JSON blob holding a flat string map; nil blob -> nil.
func BytesMap(b []byte) any {
	if b == nil {
		return nil
	}
	m := map[string]string{}
	if err := json.Unmarshal(b, &m); err != nil {
		return fmt.Sprintf("!!unparseable map: %s", b)
	}
	return Pairs(m)
}

// BytesMapNN: like BytesMap but NULL is rendered as the empty map (non-nullable model columns).
func BytesMapNN(b []byte) any {
	if b == nil {
		return []any{}
	}
	return BytesMap(b)
}

func Str(b []byte) string { return string(b) }

func OptStr(b []byte) any {
	if b == nil {
		return nil
	}
	return string(b)
}

func Key(k *idempotency.Key) any {
	if k == nil {
		return nil
	}
	return string(*k)
}

func OptI64(p *int64) any {
	if p == nil {
		return nil
	}
	return *p
}

func OptS(p *string) any {
	if p == nil {
		return nil
	}
	return *p
}

func Mesg(m *message.Mesg) any {
	if m == nil {
		return nil
	}
	return M{"type": string(m.Type), "root": m.Root, "leaf": m.Leaf}
}

func MesgBytes(b []byte) any {
	var m *message.Mesg
	if err := json.Unmarshal(b, &m); err != nil || m == nil {
		return fmt.Sprintf("!!unparseable mesg: %s", b)
	}
	return Mesg(m)
}

func Value(v promise.Value) any {
	return M{"headers": Pairs(v.Headers), "data": string(v.Data)}
}

func States[T ~int](s []T) []any {
	out := make([]any, 0, len(s))
	for _, x := range s {
		out = append(out, int(x))
	}
	return out
}

// ---------------------------------------------------------------- records

func PromiseRecord(r *promise.PromiseRecord) M {
	return M{
		"id": r.Id, "sortId": r.SortId, "state": int(r.State),
		"paramHeaders": BytesMapNN(r.ParamHeaders), "paramData": Str(r.ParamData),
		"valueHeaders": BytesMap(r.ValueHeaders), "valueData": OptStr(r.ValueData),
		"timeout": r.Timeout, "idempotencyKeyForCreate": Key(r.IdempotencyKeyForCreate),
		"idempotencyKeyForComplete": Key(r.IdempotencyKeyForComplete), "tags": BytesMapNN(r.Tags),
		"createdOn": OptI64(r.CreatedOn), "completedOn": OptI64(r.CompletedOn),
	}
}

func ScheduleRecord(r *schedule.ScheduleRecord) M {
	return M{
		"id": r.Id, "sortId": r.SortId, "description": r.Description, "cron": r.Cron, "tags": BytesMapNN(r.Tags),
		"promiseId": r.PromiseId, "promiseTimeout": r.PromiseTimeout,
		"promiseParamHeaders": BytesMapNN(r.PromiseParamHeaders), "promiseParamData": Str(r.PromiseParamData),
		"promiseTags": BytesMapNN(r.PromiseTags), "lastRunTime": OptI64(r.LastRunTime), "nextRunTime": r.NextRunTime,
		"idempotencyKey": Key(r.IdempotencyKey), "createdOn": r.CreatedOn,
	}
}

func TaskRecord(r *task.TaskRecord, sortId int64) M {
	return M{
		"id": r.Id, "sortId": sortId, "processId": OptS(r.ProcessId), "state": int(r.State),
		"rootPromiseId": r.RootPromiseId, "recv": Str(r.Recv), "mesg": MesgBytes(r.Mesg), "timeout": r.Timeout,
		"counter": r.Counter, "attempt": r.Attempt, "ttl": r.Ttl, "expiresAt": r.ExpiresAt,
		"createdOn": OptI64(r.CreatedOn), "completedOn": OptI64(r.CompletedOn),
	}
}

func LockRecord(r *lock.LockRecord) M {
	return M{"resourceId": r.ResourceId, "executionId": r.ExecutionId, "processId": r.ProcessId, "ttl": r.Ttl, "expiresAt": r.ExpiresAt}
}

// ---------------------------------------------------------------- commands

func CreatePromiseCmd(c *t_aio.CreatePromiseCommand) M {
	return M{"id": c.Id, "param": Value(c.Param), "timeout": c.Timeout, "idempotencyKey": Key(c.IdempotencyKey), "tags": Pairs(c.Tags), "createdOn": c.CreatedOn}
}

func CreateTaskCmd(c *t_aio.CreateTaskCommand) M {
	return M{"id": c.Id, "recv": Str(c.Recv), "mesg": Mesg(c.Mesg), "timeout": c.Timeout, "processId": OptS(c.ProcessId), "state": int(c.State), "ttl": c.Ttl, "expiresAt": c.ExpiresAt, "createdOn": c.CreatedOn}
}

func Cmd(c *t_aio.Command) M {
	k := c.Kind.String()
	var b M
	switch c.Kind {
	case t_aio.ReadPromise:
		b = M{"id": c.ReadPromise.Id}
	case t_aio.ReadPromises:
		b = M{"time": c.ReadPromises.Time, "limit": c.ReadPromises.Limit}
	case t_aio.SearchPromises:
		x := c.SearchPromises
		b = M{"id": x.Id, "states": States(x.States), "tags": Pairs(x.Tags), "limit": x.Limit, "sortId": OptI64(x.SortId)}
	case t_aio.CreatePromise:
		b = CreatePromiseCmd(c.CreatePromise)
	case t_aio.UpdatePromise:
		x := c.UpdatePromise
		b = M{"id": x.Id, "state": int(x.State), "value": Value(x.Value), "idempotencyKey": Key(x.IdempotencyKey), "completedOn": x.CompletedOn}
	case t_aio.CreateCallback:
		x := c.CreateCallback
		b = M{"id": x.Id, "promiseId": x.PromiseId, "recv": Str(x.Recv), "mesg": Mesg(x.Mesg), "timeout": x.Timeout, "createdOn": x.CreatedOn}
	case t_aio.DeleteCallbacks:
		b = M{"promiseId": c.DeleteCallbacks.PromiseId}
	case t_aio.ReadSchedule:
		b = M{"id": c.ReadSchedule.Id}
	case t_aio.ReadSchedules:
		b = M{"nextRunTime": c.ReadSchedules.NextRunTime, "limit": c.ReadSchedules.Limit}
	case t_aio.SearchSchedules:
		x := c.SearchSchedules
		b = M{"id": x.Id, "tags": Pairs(x.Tags), "limit": x.Limit, "sortId": OptI64(x.SortId)}
	case t_aio.CreateSchedule:
		x := c.CreateSchedule
		b = M{"id": x.Id, "description": x.Description, "cron": x.Cron, "tags": Pairs(x.Tags), "promiseId": x.PromiseId,
			"promiseTimeout": x.PromiseTimeout, "promiseParam": Value(x.PromiseParam), "promiseTags": Pairs(x.PromiseTags),
			"nextRunTime": x.NextRunTime, "idempotencyKey": Key(x.IdempotencyKey), "createdOn": x.CreatedOn}
	case t_aio.UpdateSchedule:
		x := c.UpdateSchedule
		b = M{"id": x.Id, "lastRunTime": OptI64(x.LastRunTime), "nextRunTime": x.NextRunTime}
	case t_aio.DeleteSchedule:
		b = M{"id": c.DeleteSchedule.Id}
	case t_aio.ReadTask:
		b = M{"id": c.ReadTask.Id}
	case t_aio.ReadTasks:
		x := c.ReadTasks
		b = M{"states": States(x.States), "time": x.Time, "limit": x.Limit}
	case t_aio.ReadEnqueueableTasks:
		x := c.ReadEnquableTasks
		b = M{"time": x.Time, "limit": x.Limit}
	case t_aio.CreateTask:
		b = CreateTaskCmd(c.CreateTask)
	case t_aio.CreateTasks:
		b = M{"promiseId": c.CreateTasks.PromiseId, "createdOn": c.CreateTasks.CreatedOn}
	case t_aio.CompleteTasks:
		b = M{"rootPromiseId": c.CompleteTasks.RootPromiseId, "completedOn": c.CompleteTasks.CompletedOn}
	case t_aio.UpdateTask:
		x := c.UpdateTask
		b = M{"id": x.Id, "processId": OptS(x.ProcessId), "state": int(x.State), "counter": x.Counter, "attempt": x.Attempt, "ttl": x.Ttl,
			"expiresAt": x.ExpiresAt, "completedOn": OptI64(x.CompletedOn), "currentStates": States(x.CurrentStates), "currentCounter": x.CurrentCounter}
	case t_aio.HeartbeatTasks:
		b = M{"processId": c.HeartbeatTasks.ProcessId, "time": c.HeartbeatTasks.Time}
	case t_aio.CreatePromiseAndTask:
		b = M{"promiseCommand": CreatePromiseCmd(c.CreatePromiseAndTask.PromiseCommand), "taskCommand": CreateTaskCmd(c.CreatePromiseAndTask.TaskCommand)}
	case t_aio.ReadLock:
		b = M{"resourceId": c.ReadLock.ResourceId}
	case t_aio.AcquireLock:
		x := c.AcquireLock
		b = M{"resourceId": x.ResourceId, "processId": x.ProcessId, "executionId": x.ExecutionId, "ttl": x.Ttl, "expiresAt": x.ExpiresAt}
	case t_aio.ReleaseLock:
		b = M{"resourceId": c.ReleaseLock.ResourceId, "executionId": c.ReleaseLock.ExecutionId}
	case t_aio.HeartbeatLocks:
		b = M{"processId": c.HeartbeatLocks.ProcessId, "time": c.HeartbeatLocks.Time}
	case t_aio.TimeoutLocks:
		b = M{"timeout": c.TimeoutLocks.Timeout}
	default:
		panic("canon: unknown command kind")
	}
	return M{"k": k, "c": b}
}

// ---------------------------------------------------------------- results

func promiseRows(q *t_aio.QueryPromisesResult) (M, error) {
	rows := []any{}
	for _, r := range q.Records {
		rows = append(rows, PromiseRecord(r))
	}
	if q.RowsReturned != int64(len(q.Records)) {
		return nil, fmt.Errorf("RowsReturned %d != %d records", q.RowsReturned, len(q.Records))
	}
	if len(q.Records) > 0 && q.LastSortId != q.Records[len(q.Records)-1].SortId {
		return nil, fmt.Errorf("LastSortId %d != last record sort id %d", q.LastSortId, q.Records[len(q.Records)-1].SortId)
	}
	return M{"t": "promises", "rows": rows}, nil
}

func scheduleRows(q *t_aio.QuerySchedulesResult, checkLast bool) (M, error) {
	rows := []any{}
	for _, r := range q.Records {
		rows = append(rows, ScheduleRecord(r))
	}
	if q.RowsReturned != int64(len(q.Records)) {
		return nil, fmt.Errorf("RowsReturned %d != %d records", q.RowsReturned, len(q.Records))
	}
	if checkLast && len(q.Records) > 0 && q.LastSortId != q.Records[len(q.Records)-1].SortId {
		return nil, fmt.Errorf("LastSortId mismatch")
	}
	return M{"t": "schedules", "rows": rows}, nil
}

func taskRows(q *t_aio.QueryTasksResult) (M, error) {
	rows := []any{}
	for _, r := range q.Records {
		rows = append(rows, TaskRecord(r, 0))
	}
	if q.RowsReturned != int64(len(q.Records)) {
		return nil, fmt.Errorf("RowsReturned %d != %d records", q.RowsReturned, len(q.Records))
	}
	return M{"t": "tasks", "rows": rows}, nil
}

func lockRows(q *t_aio.QueryLocksResult) (M, error) {
	rows := []any{}
	for _, r := range q.Records {
		rows = append(rows, LockRecord(r))
	}
	if q.RowsReturned != int64(len(q.Records)) {
		return nil, fmt.Errorf("RowsReturned %d != %d records", q.RowsReturned, len(q.Records))
	}
	return M{"t": "locks", "rows": rows}, nil
}

func n(x int64) M { return M{"t": "rows", "n": x} }

// Res renders a store result; it also checks that the result carries the payload of its own kind.
func Res(kind t_aio.StoreKind, r *t_aio.Result) (M, error) {
	if r == nil {
		return nil, fmt.Errorf("nil result")
	}
	if r.Kind != kind {
		return nil, fmt.Errorf("result kind %s for command %s", r.Kind, kind)
	}
	switch r.Kind {
	case t_aio.ReadPromise:
		return promiseRows(r.ReadPromise)
	case t_aio.ReadPromises:
		return promiseRows(r.ReadPromises)
	case t_aio.SearchPromises:
		return promiseRows(r.SearchPromises)
	case t_aio.CreatePromise:
		return n(r.CreatePromise.RowsAffected), nil
	case t_aio.UpdatePromise:
		return n(r.UpdatePromise.RowsAffected), nil
	case t_aio.CreateCallback:
		return n(r.CreateCallback.RowsAffected), nil
	case t_aio.DeleteCallbacks:
		return n(r.DeleteCallbacks.RowsAffected), nil
	case t_aio.ReadSchedule:
		return scheduleRows(r.ReadSchedule, false)
	case t_aio.ReadSchedules:
		return scheduleRows(r.ReadSchedules, false)
	case t_aio.SearchSchedules:
		return scheduleRows(r.SearchSchedules, true)
	case t_aio.CreateSchedule:
		return n(r.CreateSchedule.RowsAffected), nil
	case t_aio.UpdateSchedule:
		return n(r.UpdateSchedule.RowsAffected), nil
	case t_aio.DeleteSchedule:
		return n(r.DeleteSchedule.RowsAffected), nil
	case t_aio.ReadTask:
		return taskRows(r.ReadTask)
	case t_aio.ReadTasks:
		return taskRows(r.ReadTasks)
	case t_aio.ReadEnqueueableTasks:
		return taskRows(r.ReadEnqueueableTasks)
	case t_aio.CreateTask:
		return n(r.CreateTask.RowsAffected), nil
	case t_aio.CreateTasks:
		return n(r.CreateTasks.RowsAffected), nil
	case t_aio.CompleteTasks:
		return n(r.CompleteTasks.RowsAffected), nil
	case t_aio.UpdateTask:
		return n(r.UpdateTask.RowsAffected), nil
	case t_aio.HeartbeatTasks:
		return n(r.HeartbeatTasks.RowsAffected), nil
	case t_aio.CreatePromiseAndTask:
		return M{"t": "rows2", "p": r.CreatePromiseAndTask.PromiseRowsAffected, "n": r.CreatePromiseAndTask.TaskRowsAffected}, nil
	case t_aio.ReadLock:
		return lockRows(r.ReadLock)
	case t_aio.AcquireLock:
		return n(r.AcquireLock.RowsAffected), nil
	case t_aio.ReleaseLock:
		return n(r.ReleaseLock.RowsAffected), nil
	case t_aio.HeartbeatLocks:
		return n(r.HeartbeatLocks.RowsAffected), nil
	case t_aio.TimeoutLocks:
		return n(r.TimeoutLocks.RowsAffected), nil
	}
	return nil, fmt.Errorf("unknown result kind")
}
