package canon

import (
	"sort"
	"encoding/json"
	"fmt"

	"github.com/resonatehq/resonate/internal/kernel/t_aio"
	"github.com/resonatehq/resonate/pkg/idempotency"
	"github.com/resonatehq/resonate/pkg/message"
	"github.com/resonatehq/resonate/pkg/promise"
	"github.com/resonatehq/resonate/pkg/task"
)

// ParseCmd is the inverse of Cmd (input decoded with json.Number).

type obj map[string]any

func (o obj) s(k string) string {
	v, _ := o[k].(string)
	return v
}
func (o obj) i(k string) int64 {
	switch v := o[k].(type) {
	case json.Number:
		n, _ := v.Int64()
		return n
	case float64:
		return int64(v)
	case int:
		return int64(v)
	case int64:
		return v
	}
	return 0
}
func (o obj) oi(k string) *int64 {
	if o[k] == nil {
		return nil
	}
	v := o.i(k)
	return &v
}
func (o obj) os(k string) *string {
	if o[k] == nil {
		return nil
	}
	v := o.s(k)
	return &v
}
func (o obj) key(k string) *idempotency.Key {
	if o[k] == nil {
		return nil
	}
	v := idempotency.Key(o.s(k))
	return &v
}
func (o obj) o(k string) obj {
	m, _ := o[k].(map[string]any)
	return obj(m)
}
func (o obj) smap(k string) map[string]string {
	m := map[string]string{}
	l, _ := o[k].([]any)
	for _, p := range l {
		kv, _ := p.([]any)
		if len(kv) == 2 {
			a, _ := kv[0].(string)
			b, _ := kv[1].(string)
			m[a] = b
		}
	}
	return m
}
func (o obj) ints(k string) []int {
	l, _ := o[k].([]any)
	out := []int{}
	for _, x := range l {
		switch v := x.(type) {
		case json.Number:
			n, _ := v.Int64()
			out = append(out, int(n))
		case float64:
			out = append(out, int(v))
		case int:
			out = append(out, v)
		}
	}
	return out
}
func (o obj) value(k string) promise.Value {
	v := o.o(k)
	return promise.Value{Headers: v.smap("headers"), Data: []byte(v.s("data"))}
}
func (o obj) mesg(k string) *message.Mesg {
	v := o.o(k)
	return &message.Mesg{Type: message.Type(v.s("type")), Root: v.s("root"), Leaf: v.s("leaf")}
}

func parseCreatePromise(o obj) *t_aio.CreatePromiseCommand {
	return &t_aio.CreatePromiseCommand{Id: o.s("id"), Param: o.value("param"), Timeout: o.i("timeout"), IdempotencyKey: o.key("idempotencyKey"), Tags: o.smap("tags"), CreatedOn: o.i("createdOn")}
}

func parseCreateTask(o obj) *t_aio.CreateTaskCommand {
	return &t_aio.CreateTaskCommand{Id: o.s("id"), Recv: []byte(o.s("recv")), Mesg: o.mesg("mesg"), Timeout: o.i("timeout"), ProcessId: o.os("processId"),
		State: task.State(o.i("state")), Ttl: int(o.i("ttl")), ExpiresAt: o.i("expiresAt"), CreatedOn: o.i("createdOn")}
}

var kindByName = func() map[string]t_aio.StoreKind {
	m := map[string]t_aio.StoreKind{}
	for k := t_aio.StoreKind(0); k <= t_aio.TimeoutLocks; k++ {
		m[k.String()] = k
	}
	return m
}()

func KindByName(n string) (t_aio.StoreKind, bool) { k, ok := kindByName[n]; return k, ok }

// KindNames lists every store command kind by name (sorted)
func KindNames() []string {
	out := []string{}
	for n := range kindByName {
		out = append(out, n)
	}
	sort.Strings(out)
	return out
}

func ParseCmd(m map[string]any) (*t_aio.Command, error) {
	name, _ := m["k"].(string)
	k, ok := kindByName[name]
	if !ok {
		return nil, fmt.Errorf("unknown kind %q", name)
	}
	o := obj(m).o("c")
	c := &t_aio.Command{Kind: k}
	switch k {
	case t_aio.ReadPromise:
		c.ReadPromise = &t_aio.ReadPromiseCommand{Id: o.s("id")}
	case t_aio.ReadPromises:
		c.ReadPromises = &t_aio.ReadPromisesCommand{Time: o.i("time"), Limit: int(o.i("limit"))}
	case t_aio.SearchPromises:
		st := []promise.State{}
		for _, x := range o.ints("states") {
			st = append(st, promise.State(x))
		}
		c.SearchPromises = &t_aio.SearchPromisesCommand{Id: o.s("id"), States: st, Tags: o.smap("tags"), Limit: int(o.i("limit")), SortId: o.oi("sortId")}
	case t_aio.CreatePromise:
		c.CreatePromise = parseCreatePromise(o)
	case t_aio.UpdatePromise:
		c.UpdatePromise = &t_aio.UpdatePromiseCommand{Id: o.s("id"), State: promise.State(o.i("state")), Value: o.value("value"), IdempotencyKey: o.key("idempotencyKey"), CompletedOn: o.i("completedOn")}
	case t_aio.CreateCallback:
		c.CreateCallback = &t_aio.CreateCallbackCommand{Id: o.s("id"), PromiseId: o.s("promiseId"), Recv: []byte(o.s("recv")), Mesg: o.mesg("mesg"), Timeout: o.i("timeout"), CreatedOn: o.i("createdOn")}
	case t_aio.DeleteCallbacks:
		c.DeleteCallbacks = &t_aio.DeleteCallbacksCommand{PromiseId: o.s("promiseId")}
	case t_aio.ReadSchedule:
		c.ReadSchedule = &t_aio.ReadScheduleCommand{Id: o.s("id")}
	case t_aio.ReadSchedules:
		c.ReadSchedules = &t_aio.ReadSchedulesCommand{NextRunTime: o.i("nextRunTime"), Limit: int(o.i("limit"))}
	case t_aio.SearchSchedules:
		c.SearchSchedules = &t_aio.SearchSchedulesCommand{Id: o.s("id"), Tags: o.smap("tags"), Limit: int(o.i("limit")), SortId: o.oi("sortId")}
	case t_aio.CreateSchedule:
		c.CreateSchedule = &t_aio.CreateScheduleCommand{Id: o.s("id"), Description: o.s("description"), Cron: o.s("cron"), Tags: o.smap("tags"), PromiseId: o.s("promiseId"),
			PromiseTimeout: o.i("promiseTimeout"), PromiseParam: o.value("promiseParam"), PromiseTags: o.smap("promiseTags"), NextRunTime: o.i("nextRunTime"),
			IdempotencyKey: o.key("idempotencyKey"), CreatedOn: o.i("createdOn")}
	case t_aio.UpdateSchedule:
		c.UpdateSchedule = &t_aio.UpdateScheduleCommand{Id: o.s("id"), LastRunTime: o.oi("lastRunTime"), NextRunTime: o.i("nextRunTime")}
	case t_aio.DeleteSchedule:
		c.DeleteSchedule = &t_aio.DeleteScheduleCommand{Id: o.s("id")}
	case t_aio.ReadTask:
		c.ReadTask = &t_aio.ReadTaskCommand{Id: o.s("id")}
	case t_aio.ReadTasks:
		st := []task.State{}
		for _, x := range o.ints("states") {
			st = append(st, task.State(x))
		}
		c.ReadTasks = &t_aio.ReadTasksCommand{States: st, Time: o.i("time"), Limit: int(o.i("limit"))}
	case t_aio.ReadEnqueueableTasks:
		c.ReadEnquableTasks = &t_aio.ReadEnqueueableTasksCommand{Time: o.i("time"), Limit: int(o.i("limit"))}
	case t_aio.CreateTask:
		c.CreateTask = parseCreateTask(o)
	case t_aio.CreateTasks:
		c.CreateTasks = &t_aio.CreateTasksCommand{PromiseId: o.s("promiseId"), CreatedOn: o.i("createdOn")}
	case t_aio.CompleteTasks:
		c.CompleteTasks = &t_aio.CompleteTasksCommand{RootPromiseId: o.s("rootPromiseId"), CompletedOn: o.i("completedOn")}
	case t_aio.UpdateTask:
		st := []task.State{}
		for _, x := range o.ints("currentStates") {
			st = append(st, task.State(x))
		}
		c.UpdateTask = &t_aio.UpdateTaskCommand{Id: o.s("id"), ProcessId: o.os("processId"), State: task.State(o.i("state")), Counter: int(o.i("counter")), Attempt: int(o.i("attempt")),
			Ttl: int(o.i("ttl")), ExpiresAt: o.i("expiresAt"), CompletedOn: o.oi("completedOn"), CurrentStates: st, CurrentCounter: int(o.i("currentCounter"))}
	case t_aio.HeartbeatTasks:
		c.HeartbeatTasks = &t_aio.HeartbeatTasksCommand{ProcessId: o.s("processId"), Time: o.i("time")}
	case t_aio.CreatePromiseAndTask:
		c.CreatePromiseAndTask = &t_aio.CreatePromiseAndTaskCommand{PromiseCommand: parseCreatePromise(o.o("promiseCommand")), TaskCommand: parseCreateTask(o.o("taskCommand"))}
	case t_aio.ReadLock:
		c.ReadLock = &t_aio.ReadLockCommand{ResourceId: o.s("resourceId")}
	case t_aio.AcquireLock:
		c.AcquireLock = &t_aio.AcquireLockCommand{ResourceId: o.s("resourceId"), ProcessId: o.s("processId"), ExecutionId: o.s("executionId"), Ttl: o.i("ttl"), ExpiresAt: o.i("expiresAt")}
	case t_aio.ReleaseLock:
		c.ReleaseLock = &t_aio.ReleaseLockCommand{ResourceId: o.s("resourceId"), ExecutionId: o.s("executionId")}
	case t_aio.HeartbeatLocks:
		c.HeartbeatLocks = &t_aio.HeartbeatLocksCommand{ProcessId: o.s("processId"), Time: o.i("time")}
	case t_aio.TimeoutLocks:
		c.TimeoutLocks = &t_aio.TimeoutLocksCommand{Timeout: o.i("timeout")}
	}
	return c, nil
}
