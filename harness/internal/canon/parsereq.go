package canon

import (
	"fmt"

	"github.com/resonatehq/resonate/internal/kernel/t_api"
	"github.com/resonatehq/resonate/pkg/promise"
)

func parseCreatePromiseReq(o obj) *t_api.CreatePromiseRequest {
	return &t_api.CreatePromiseRequest{Id: o.s("id"), IdempotencyKey: o.key("idempotencyKey"), Strict: o.b("strict"), Param: o.apiValue("param"), Timeout: o.i("timeout"), Tags: o.smapNil("tags")}
}

func (o obj) b(k string) bool { v, _ := o[k].(bool); return v }

// apiValue keeps nil for empty headers/data the way API front ends produce them
func (o obj) apiValue(k string) promise.Value {
	v := o.o(k)
	out := promise.Value{}
	if m := v.smap("headers"); len(m) > 0 {
		out.Headers = m
	}
	if d := v.s("data"); d != "" {
		out.Data = []byte(d)
	}
	return out
}

func (o obj) smapNil(k string) map[string]string {
	m := o.smap(k)
	if len(m) == 0 {
		return nil
	}
	return m
}

var apiKindByName = func() map[string]t_api.Kind {
	m := map[string]t_api.Kind{}
	for k := t_api.ReadPromise; k <= t_api.HeartbeatTasks; k++ {
		m[k.String()] = k
	}
	return m
}()

func ApiKindByName(n string) (t_api.Kind, bool) { k, ok := apiKindByName[n]; return k, ok }

// ParseReq is the inverse of Req.
func ParseReq(m map[string]any, tid string) (*t_api.Request, error) {
	name, _ := m["k"].(string)
	k, ok := apiKindByName[name]
	if !ok {
		return nil, fmt.Errorf("unknown request kind %q", name)
	}
	o := obj(m).o("c")
	r := &t_api.Request{Kind: k, Tags: map[string]string{"id": tid, "name": name, "protocol": "dst"}}
	switch k {
	case t_api.ReadPromise:
		r.ReadPromise = &t_api.ReadPromiseRequest{Id: o.s("id")}
	case t_api.SearchPromises:
		st := []promise.State{}
		for _, x := range o.ints("states") {
			st = append(st, promise.State(x))
		}
		r.SearchPromises = &t_api.SearchPromisesRequest{Id: o.s("id"), States: st, Tags: o.smap("tags"), Limit: int(o.i("limit")), SortId: o.oi("sortId")}
	case t_api.CreatePromise:
		r.CreatePromise = parseCreatePromiseReq(o)
	case t_api.CreatePromiseAndTask:
		t := o.o("task")
		r.CreatePromiseAndTask = &t_api.CreatePromiseAndTaskRequest{Promise: parseCreatePromiseReq(o.o("promise")),
			Task: &t_api.CreateTaskRequest{PromiseId: t.s("promiseId"), ProcessId: t.s("processId"), Ttl: int(t.i("ttl")), Timeout: t.i("timeout")}}
	case t_api.CompletePromise:
		r.CompletePromise = &t_api.CompletePromiseRequest{Id: o.s("id"), IdempotencyKey: o.key("idempotencyKey"), Strict: o.b("strict"), State: promise.State(o.i("state")), Value: o.apiValue("value")}
	case t_api.CreateCallback:
		r.CreateCallback = &t_api.CreateCallbackRequest{PromiseId: o.s("promiseId"), RootPromiseId: o.s("rootPromiseId"), Timeout: o.i("timeout"), Recv: []byte(o.s("recv"))}
	case t_api.CreateSubscription:
		r.CreateSubscription = &t_api.CreateSubscriptionRequest{Id: o.s("id"), PromiseId: o.s("promiseId"), Timeout: o.i("timeout"), Recv: []byte(o.s("recv"))}
	case t_api.ReadSchedule:
		r.ReadSchedule = &t_api.ReadScheduleRequest{Id: o.s("id")}
	case t_api.SearchSchedules:
		r.SearchSchedules = &t_api.SearchSchedulesRequest{Id: o.s("id"), Tags: o.smap("tags"), Limit: int(o.i("limit")), SortId: o.oi("sortId")}
	case t_api.CreateSchedule:
		r.CreateSchedule = &t_api.CreateScheduleRequest{Id: o.s("id"), Description: o.s("description"), Cron: o.s("cron"), Tags: o.smapNil("tags"), PromiseId: o.s("promiseId"),
			PromiseTimeout: o.i("promiseTimeout"), PromiseParam: o.apiValue("promiseParam"), PromiseTags: o.smapNil("promiseTags"), IdempotencyKey: o.key("idempotencyKey")}
	case t_api.DeleteSchedule:
		r.DeleteSchedule = &t_api.DeleteScheduleRequest{Id: o.s("id")}
	case t_api.AcquireLock:
		r.AcquireLock = &t_api.AcquireLockRequest{ResourceId: o.s("resourceId"), ExecutionId: o.s("executionId"), ProcessId: o.s("processId"), Ttl: o.i("ttl")}
	case t_api.ReleaseLock:
		r.ReleaseLock = &t_api.ReleaseLockRequest{ResourceId: o.s("resourceId"), ExecutionId: o.s("executionId")}
	case t_api.HeartbeatLocks:
		r.HeartbeatLocks = &t_api.HeartbeatLocksRequest{ProcessId: o.s("processId")}
	case t_api.ClaimTask:
		r.ClaimTask = &t_api.ClaimTaskRequest{Id: o.s("id"), Counter: int(o.i("counter")), ProcessId: o.s("processId"), Ttl: int(o.i("ttl"))}
	case t_api.CompleteTask:
		r.CompleteTask = &t_api.CompleteTaskRequest{Id: o.s("id"), Counter: int(o.i("counter"))}
	case t_api.HeartbeatTasks:
		r.HeartbeatTasks = &t_api.HeartbeatTasksRequest{ProcessId: o.s("processId")}
	}
	return r, nil
}
