// Package monitor evaluates the properties themselves, as decidable predicates, on IMPLEMENTATION
// observations (table dumps before/after every committed store batch).  It is independent of the
// model: a monitor failure is a concrete input on which the real code violates the property.
package monitor

import (
	"encoding/json"
	"fmt"
	"reflect"
	"strings"
)

type M = map[string]any

func rows(db M, table string) []M {
	out := []M{}
	l, _ := db[table].([]any)
	for _, x := range l {
		if m, ok := x.(map[string]any); ok {
			out = append(out, m)
		}
	}
	return out
}

func num(v any) int64 {
	switch x := v.(type) {
	case json.Number:
		n, _ := x.Int64()
		return n
	case int64:
		return x
	case int:
		return int64(x)
	case float64:
		return int64(x)
	}
	return -1
}

func str(v any) string { s, _ := v.(string); return s }

func byKey(rs []M, key string) map[string]M {
	out := map[string]M{}
	for _, r := range rs {
		out[str(r[key])] = r
	}
	return out
}

// Check runs the monitors selected by `props` on one committed transition prev -> cur.
// It returns the id of the violated property and a description, or "".
func Check(props map[string]bool, prev, cur M) (string, string) {
	if prev == nil || cur == nil {
		return "", ""
	}
	if props["C01"] {
		if d := promMono(prev, cur); d != "" {
			return "C01", d
		}
	}
	if props["C05"] {
		if d := cbInv(prev, cur); d != "" {
			return "C05", d
		}
	}
	if props["C07"] {
		if d := taskMono(prev, cur); d != "" {
			return "C07", d
		}
	}
	if props["C08"] {
		if d := taskWithPromise(prev, cur); d != "" {
			return "C08", d
		}
		if d := routedHasTask(prev, cur); d != "" {
			return "C08", d
		}
		// a notification is finished after its first recorded hand-off attempt: it is never put back for another one
		for _, t := range rows(cur, "tasks") {
			if m, _ := t["mesg"].(map[string]any); m != nil && str(m["type"]) == "notify" && num(t["attempt"]) > 0 {
				return "C08", fmt.Sprintf("notification task %q was handed off again (attempt %d, state %d)", str(t["id"]), num(t["attempt"]), num(t["state"]))
			}
		}
	}
	if props["C10"] {
		if d := scheduleFiring(prev, cur); d != "" {
			return "C10", d
		}
		if d := scheduledPromiseAdvances(prev, cur); d != "" {
			return "C10", d
		}
	}
	if props["C09"] {
		if d := lockUnique(cur); d != "" {
			return "C09", d
		}
	}
	return "", ""
}

var creationFields = []string{"id", "sortId", "paramHeaders", "paramData", "timeout", "idempotencyKeyForCreate", "tags", "createdOn"}

// C01: no promise disappears; creation fields immutable; non-pending rows identical; pending -> one of 2,4,8,16
func promMono(prev, cur M) string {
	now := byKey(rows(cur, "promises"), "id")
	for _, p := range rows(prev, "promises") {
		id := str(p["id"])
		q, ok := now[id]
		if !ok {
			return fmt.Sprintf("promise %q disappeared", id)
		}
		for _, f := range creationFields {
			if !reflect.DeepEqual(p[f], q[f]) {
				return fmt.Sprintf("promise %q: creation field %s changed from %v to %v", id, f, p[f], q[f])
			}
		}
		if num(p["state"]) != 1 {
			if !reflect.DeepEqual(p, q) {
				return fmt.Sprintf("completed promise %q changed: %v -> %v", id, p, q)
			}
		} else if !reflect.DeepEqual(p, q) {
			s := num(q["state"])
			if s != 2 && s != 4 && s != 8 && s != 16 {
				return fmt.Sprintf("pending promise %q changed without completing: %v -> %v", id, p, q)
			}
		}
	}
	seen := map[string]bool{}
	for _, q := range rows(cur, "promises") {
		if seen[str(q["id"])] {
			return fmt.Sprintf("two promise rows with id %q", str(q["id"]))
		}
		seen[str(q["id"])] = true
	}
	return ""
}

// C05: every registration awaits an existing pending promise; a promise that completed in this step had
// every registration turned into exactly one task (same id / recv / mesg / timeout / root) and removed
func cbInv(prev, cur M) string {
	ps := byKey(rows(cur, "promises"), "id")
	for _, cb := range rows(cur, "callbacks") {
		p, ok := ps[str(cb["promiseId"])]
		if !ok || num(p["state"]) != 1 {
			return fmt.Sprintf("registration %q awaits promise %q which is not pending", str(cb["id"]), str(cb["promiseId"]))
		}
	}
	before := byKey(rows(prev, "promises"), "id")
	tasks := byKey(rows(cur, "tasks"), "id")
	prevTasks := byKey(rows(prev, "tasks"), "id")
	for _, cb := range rows(prev, "callbacks") {
		pid := str(cb["promiseId"])
		was, okb := before[pid]
		nowp, okn := ps[pid]
		if okb && okn && num(was["state"]) == 1 && num(nowp["state"]) != 1 {
			t, ok := tasks[str(cb["id"])]
			if !ok {
				return fmt.Sprintf("promise %q completed but registration %q did not become a task", pid, str(cb["id"]))
			}
			if _, existed := prevTasks[str(cb["id"])]; existed {
				return fmt.Sprintf("registration %q: a task with that id already existed", str(cb["id"]))
			}
			for _, f := range []string{"recv", "mesg", "timeout", "rootPromiseId"} {
				if !reflect.DeepEqual(cb[f], t[f]) {
					return fmt.Sprintf("task %q: field %s differs from its registration", str(cb["id"]), f)
				}
			}
		}
	}
	return ""
}

// FinishedAtBirth (C05): a registration converted in this batch is a wake-up still to be delivered — the task is live after
// the batch, unless it is a resume task whose own root promise (another promise) was completed later in the same batch.
// Returns the promise id, the task id and a description of the first such task that is already finished.
func FinishedAtBirth(prev, cur M) (string, string, string) {
	ps := byKey(rows(cur, "promises"), "id")
	before := byKey(rows(prev, "promises"), "id")
	tasks := byKey(rows(cur, "tasks"), "id")
	for _, cb := range rows(prev, "callbacks") {
		pid := str(cb["promiseId"])
		was, okb := before[pid]
		nowp, okn := ps[pid]
		if !(okb && okn && num(was["state"]) == 1 && num(nowp["state"]) != 1) {
			continue
		}
		t, ok := tasks[str(cb["id"])]
		if !ok || num(t["state"]) == 1 {
			continue
		}
		root := str(t["rootPromiseId"])
		rp, okr := ps[root]
		if root == pid || !okr || num(rp["state"]) == 1 {
			return pid, str(cb["id"]), fmt.Sprintf("registration %q on promise %q became a task that is already in state %d when the completion commits (root promise %q): the wake-up is never delivered", str(cb["id"]), pid, num(t["state"]), root)
		}
	}
	return "", "", ""
}

// C07: counters never decrease; completed / timed-out tasks never change; no task disappears
func taskMono(prev, cur M) string {
	now := byKey(rows(cur, "tasks"), "id")
	for _, t := range rows(prev, "tasks") {
		id := str(t["id"])
		u, ok := now[id]
		if !ok {
			return fmt.Sprintf("task %q disappeared", id)
		}
		if num(u["counter"]) < num(t["counter"]) {
			return fmt.Sprintf("task %q: counter decreased %d -> %d", id, num(t["counter"]), num(u["counter"]))
		}
		s := num(t["state"])
		if (s == 8 || s == 16) && !reflect.DeepEqual(t, u) {
			return fmt.Sprintf("finished task %q changed: %v -> %v", id, t, u)
		}
		// a claimed task changes hands only through init (counter bump) or its own completion
		if s == 4 && num(u["state"]) == 4 && num(u["counter"]) == num(t["counter"]) && !reflect.DeepEqual(t["processId"], u["processId"]) {
			return fmt.Sprintf("claimed task %q changed holder without a counter bump", id)
		}
	}
	return ""
}

// C08: a routed promise is created together with its invocation task; a completed promise has no live task
func taskWithPromise(prev, cur M) string {
	before := byKey(rows(prev, "promises"), "id")
	ps := byKey(rows(cur, "promises"), "id")
	for _, t := range rows(cur, "tasks") {
		root := str(t["rootPromiseId"])
		was, okb := before[root]
		nowp, okn := ps[root]
		s := num(t["state"])
		if okb && okn && num(was["state"]) == 1 && num(nowp["state"]) != 1 && (s == 1 || s == 2 || s == 4) {
			// tasks created by this very completion (resume tasks for awaiting roots) have another root
			if _, existed := byKey(rows(prev, "tasks"), "id")[str(t["id"])]; existed {
				return fmt.Sprintf("promise %q completed but its task %q is still live (state %d)", root, str(t["id"]), s)
			}
		}
	}
	return ""
}

// C08 (second half): a promise whose routing tag is a plain string (not JSON) is always matched by the
// router, so it must have been created together with its invocation task
func routedHasTask(prev, cur M) string {
	before := byKey(rows(prev, "promises"), "id")
	tasks := byKey(rows(cur, "tasks"), "id")
	for _, p := range rows(cur, "promises") {
		id := str(p["id"])
		if _, existed := before[id]; existed {
			continue
		}
		tag, ok := pairs(p["tags"])["resonate:invoke"]
		if !ok || json.Valid([]byte(tag)) {
			continue
		}
		if _, has := tasks["__invoke:"+id]; !has {
			return fmt.Sprintf("promise %q is routed (resonate:invoke=%q) but was created without its invocation task", id, tag)
		}
	}
	return ""
}

var cronGrid = map[string]int64{"* * * * * *": 1000, "*/2 * * * * *": 2000, "*/5 * * * * *": 5000, "*/30 * * * * *": 30000, "* * * * *": 60000, "0 * * * * *": 60000}

// C10: a schedule row changes only by one firing: last_run_time := the occurrence (its previous next_run_time),
// next_run_time := the next occurrence after it, and the promise of that occurrence exists afterwards with
// id = template(id, occurrence) and timeout = occurrence + promise_timeout (unless it existed before)
func scheduleFiring(prev, cur M) string {
	now := byKey(rows(cur, "schedules"), "id")
	proms := byKey(rows(cur, "promises"), "id")
	old := byKey(rows(prev, "promises"), "id")
	for _, s := range rows(prev, "schedules") {
		id := str(s["id"])
		n, ok := now[id]
		if !ok || num(n["sortId"]) != num(s["sortId"]) {
			continue // deleted (or deleted and re-created)
		}
		if reflect.DeepEqual(s, n) {
			continue
		}
		occ := num(s["nextRunTime"])
		if n["lastRunTime"] == nil || num(n["lastRunTime"]) != occ {
			return fmt.Sprintf("schedule %q changed without recording the fired occurrence %d: %v -> %v", id, occ, s, n)
		}
		if g, ok := cronGrid[str(s["cron"])]; ok {
			if want := (occ/g + 1) * g; num(n["nextRunTime"]) != want {
				return fmt.Sprintf("schedule %q advanced from %d to %d, the next occurrence is %d", id, occ, num(n["nextRunTime"]), want)
			}
		} else if num(n["nextRunTime"]) <= occ {
			return fmt.Sprintf("schedule %q did not advance past %d", id, occ)
		}
		for _, f := range []string{"cron", "promiseId", "promiseTimeout", "promiseParamData", "promiseTags", "createdOn", "idempotencyKey", "tags"} {
			if !reflect.DeepEqual(s[f], n[f]) {
				return fmt.Sprintf("schedule %q: field %s changed by a firing", id, f)
			}
		}
		tmpl := str(s["promiseId"])
		pid := strings.ReplaceAll(strings.ReplaceAll(tmpl, "{{.id}}", id), "{{.timestamp}}", fmt.Sprint(occ))
		if strings.Contains(pid, "{{") {
			continue
		}
		p, ok := proms[pid]
		if !ok {
			return fmt.Sprintf("schedule %q fired occurrence %d but promise %q does not exist", id, occ, pid)
		}
		// the promise may have existed before, or may have been created in the same batch by another firing
		// (another schedule / occurrence producing the same id): its fields are this firing's only if it carries this schedule's marker
		if _, existed := old[pid]; !existed && pairs(p["tags"])["resonate:schedule"] == id && num(p["timeout"]) == occ+num(s["promiseTimeout"]) {
			if num(p["timeout"]) != occ+num(s["promiseTimeout"]) {
				return fmt.Sprintf("scheduled promise %q has timeout %d, want occurrence %d + %d", pid, num(p["timeout"]), occ, num(s["promiseTimeout"]))
			}
			tags := pairs(p["tags"])
			if tags["resonate:schedule"] != id || tags["resonate:invocation"] != "true" {
				return fmt.Sprintf("scheduled promise %q lacks the schedule marker tags: %v", pid, p["tags"])
			}
			if !reflect.DeepEqual(p["paramData"], s["promiseParamData"]) {
				return fmt.Sprintf("scheduled promise %q does not carry the configured parameter", pid)
			}
			if !reflect.DeepEqual(pairs(p["paramHeaders"]), pairs(s["promiseParamHeaders"])) {
				return fmt.Sprintf("scheduled promise %q carries parameter headers %v, configured are %v", pid, p["paramHeaders"], s["promiseParamHeaders"])
			}
			wantTags := map[string]string{}
			for k, v := range pairs(s["promiseTags"]) {
				wantTags[k] = v
			}
			wantTags["resonate:schedule"], wantTags["resonate:invocation"] = id, "true"
			if !reflect.DeepEqual(tags, wantTags) {
				return fmt.Sprintf("scheduled promise %q carries tags %v, configured tags plus the schedule markers are %v", pid, tags, wantTags)
			}
		}
	}
	return ""
}

// C10 (atomic step): a promise carrying a schedule's marker that appears in a batch was created in the same step that
// advanced that schedule: afterwards the schedule's last run time is at least the promise's occurrence
func scheduledPromiseAdvances(prev, cur M) string {
	old := byKey(rows(prev, "promises"), "id")
	before := byKey(rows(prev, "schedules"), "id")
	now := byKey(rows(cur, "schedules"), "id")
	for _, p := range rows(cur, "promises") {
		if _, existed := old[str(p["id"])]; existed {
			continue
		}
		tags := pairs(p["tags"])
		sid, ok := tags["resonate:schedule"]
		if !ok || tags["resonate:invocation"] != "true" {
			continue
		}
		s, ok1 := now[sid]
		b, ok2 := before[sid]
		if !ok1 || !ok2 || num(s["sortId"]) != num(b["sortId"]) {
			continue // the schedule was deleted (or re-created) meanwhile
		}
		occ := num(p["timeout"]) - num(s["promiseTimeout"])
		if occ != num(b["nextRunTime"]) && (b["lastRunTime"] == nil || occ <= num(b["lastRunTime"])) {
			continue // not an occurrence of this schedule as it stood (a client created a look-alike)
		}
		if s["lastRunTime"] == nil || num(s["lastRunTime"]) < occ {
			return fmt.Sprintf("promise %q of occurrence %d of schedule %q was created, but the schedule was not advanced in the same step (last run time %v, next run time %d)",
				str(p["id"]), occ, sid, s["lastRunTime"], num(s["nextRunTime"]))
		}
	}
	return ""
}

// C09: at most one lock row per resource
func lockUnique(cur M) string {
	seen := map[string]bool{}
	for _, l := range rows(cur, "locks") {
		r := str(l["resourceId"])
		if seen[r] {
			return fmt.Sprintf("two lock rows for resource %q", r)
		}
		seen[r] = true
	}
	return ""
}

// ---------------------------------------------------------------- C14: search oracle

// sqlite LIKE: % any sequence, _ any char, ASCII case-insensitive, no escape
func like(pat, s []rune) bool {
	if len(pat) == 0 {
		return len(s) == 0
	}
	switch pat[0] {
	case '%':
		if like(pat[1:], s) {
			return true
		}
		return len(s) > 0 && like(pat, s[1:])
	case '_':
		return len(s) > 0 && like(pat[1:], s[1:])
	}
	if len(s) == 0 {
		return false
	}
	lower := func(r rune) rune {
		if r >= 'A' && r <= 'Z' {
			return r + 32
		}
		return r
	}
	return lower(pat[0]) == lower(s[0]) && like(pat[1:], s[1:])
}

func pairs(v any) map[string]string {
	out := map[string]string{}
	l, _ := v.([]any)
	for _, p := range l {
		kv, _ := p.([]any)
		if len(kv) == 2 {
			out[str(kv[0])] = str(kv[1])
		}
	}
	return out
}

// SearchPromises checks one promise search against the property, evaluated independently on the dump
// taken before the batch (valid when the batch contains no write before the search): the result is
// exactly the rows whose id matches the pattern, whose state is in the set, whose tags CONTAIN every
// requested pair, below the cursor, newest first, first `limit`.
func SearchPromises(db M, cmd M, got []M) string {
	pat := []rune{}
	for _, r := range str(cmd["id"]) {
		if r == '*' {
			r = '%'
		}
		pat = append(pat, r)
	}
	mask := int64(0)
	sl, _ := cmd["states"].([]any)
	for _, x := range sl {
		mask |= num(x)
	}
	want := pairs(cmd["tags"])
	limit := num(cmd["limit"])
	var cursor *int64
	if cmd["sortId"] != nil {
		c := num(cmd["sortId"])
		cursor = &c
	}
	all := rows(db, "promises")
	exp := []M{}
	for i := len(all) - 1; i >= 0; i-- {
		r := all[i]
		if cursor != nil && !(num(r["sortId"]) < *cursor) {
			continue
		}
		if !like(pat, []rune(str(r["id"]))) || num(r["state"])&mask == 0 {
			continue
		}
		have := pairs(r["tags"])
		ok := true
		for k, v := range want {
			if hv, present := have[k]; !present || hv != v {
				ok = false
			}
		}
		if ok {
			exp = append(exp, r)
		}
	}
	if limit >= 0 && int64(len(exp)) > limit {
		exp = exp[:limit]
	}
	if len(exp) != len(got) {
		return fmt.Sprintf("search %v returned %d rows, the matching set (first %d, newest first) has %d", cmd, len(got), limit, len(exp))
	}
	for i := range exp {
		if str(exp[i]["id"]) != str(got[i]["id"]) {
			return fmt.Sprintf("search %v: row %d is %q, expected %q", cmd, i, str(got[i]["id"]), str(exp[i]["id"]))
		}
	}
	return ""
}

// SearchSchedules: the same oracle for schedules (id pattern, tag containment, cursor, newest first, first `limit`)
func SearchSchedules(db M, cmd M, got []M) string {
	pat := []rune{}
	for _, r := range str(cmd["id"]) {
		if r == '*' {
			r = '%'
		}
		pat = append(pat, r)
	}
	want := pairs(cmd["tags"])
	limit := num(cmd["limit"])
	var cursor *int64
	if cmd["sortId"] != nil {
		c := num(cmd["sortId"])
		cursor = &c
	}
	all := rows(db, "schedules") // dumped ORDER BY sort_id
	exp := []M{}
	for i := len(all) - 1; i >= 0; i-- {
		r := all[i]
		if cursor != nil && !(num(r["sortId"]) < *cursor) {
			continue
		}
		if !like(pat, []rune(str(r["id"]))) {
			continue
		}
		have := pairs(r["tags"])
		ok := true
		for k, v := range want {
			if hv, present := have[k]; !present || hv != v {
				ok = false
			}
		}
		if ok {
			exp = append(exp, r)
		}
	}
	if limit >= 0 && int64(len(exp)) > limit {
		exp = exp[:limit]
	}
	if len(exp) != len(got) {
		return fmt.Sprintf("schedule search %v returned %d rows, the matching set (first %d, newest first) has %d", cmd, len(got), limit, len(exp))
	}
	for i := range exp {
		if str(exp[i]["id"]) != str(got[i]["id"]) {
			return fmt.Sprintf("schedule search %v: row %d is %q, expected %q", cmd, i, str(got[i]["id"]), str(exp[i]["id"]))
		}
	}
	return ""
}
