// Package lean talks to the Lean model driver over its line protocol.
package lean

import (
	"bufio"
	"bytes"
	"encoding/json"
	"fmt"
	"io"
	"os/exec"
)

type Driver struct {
	cmd *exec.Cmd
	in  io.WriteCloser
	out *bufio.Reader
	Log io.Writer // optional transcript
}

func Start(path string) (*Driver, error) {
	cmd := exec.Command(path)
	in, err := cmd.StdinPipe()
	if err != nil {
		return nil, err
	}
	out, err := cmd.StdoutPipe()
	if err != nil {
		return nil, err
	}
	if err := cmd.Start(); err != nil {
		return nil, err
	}
	return &Driver{cmd: cmd, in: in, out: bufio.NewReaderSize(out, 1<<20)}, nil
}

// Marshal without HTML escaping so that hostile strings travel verbatim.
func Marshal(v any) ([]byte, error) {
	var buf bytes.Buffer
	enc := json.NewEncoder(&buf)
	enc.SetEscapeHTML(false)
	if err := enc.Encode(v); err != nil {
		return nil, err
	}
	return bytes.TrimRight(buf.Bytes(), "\n"), nil
}

// Call sends one JSON line and returns the decoded (UseNumber) reply.
func (d *Driver) Call(req any) (map[string]any, string, error) {
	b, err := Marshal(req)
	if err != nil {
		return nil, "", err
	}
	if d.Log != nil {
		fmt.Fprintf(d.Log, "> %s\n", b)
	}
	if _, err := d.in.Write(append(b, '\n')); err != nil {
		return nil, "", err
	}
	line, err := d.out.ReadString('\n')
	if err != nil {
		return nil, "", fmt.Errorf("driver read: %w", err)
	}
	if d.Log != nil {
		fmt.Fprintf(d.Log, "< %s", line)
	}
	v, err := Normalize([]byte(line))
	if err != nil {
		return nil, line, err
	}
	m, ok := v.(map[string]any)
	if !ok {
		return nil, line, fmt.Errorf("driver reply is not an object: %s", line)
	}
	if f, ok := m["fatal"]; ok {
		return nil, line, fmt.Errorf("driver fatal: %v", f)
	}
	return m, line, nil
}

func (d *Driver) Close() {
	d.in.Close()
	_ = d.cmd.Wait()
}

// Normalize decodes JSON with json.Number so that both sides compare structurally.
func Normalize(b []byte) (any, error) {
	dec := json.NewDecoder(bytes.NewReader(b))
	dec.UseNumber()
	var v any
	if err := dec.Decode(&v); err != nil {
		return nil, err
	}
	return v, nil
}

// NormalizeValue round-trips a Go value through JSON.
func NormalizeValue(v any) (any, error) {
	b, err := Marshal(v)
	if err != nil {
		return nil, err
	}
	return Normalize(b)
}
