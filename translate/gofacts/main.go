// gofacts — extracts facts from /repo's Go source with go/ast and emits them as Lean definitions
// (Generated/Status.lean, Generated/Sites.lean) plus gofacts.json.
//
//	usage: gofacts <repo> <outdir>
//
// Facts: the StatusCode universe; which statuses String() and the gRPC code() switch cover and what
// they map to; the divisor of the HTTP code(); for every gRPC outcome flag the status it is compared
// with; the inventory of util.Assert / panic / template.Must sites of the request path; struct-tag
// defaults that the properties rely on (Reset, batch sizes).  Part of the trusted base.
package main

import (
	"encoding/json"
	"fmt"
	"go/ast"
	"go/parser"
	"go/printer"
	"go/token"
	"os"
	"path/filepath"
	"reflect"
	"sort"
	"strconv"
	"strings"
)

var fset = token.NewFileSet()
var broken []string

func tie(format string, a ...any) { broken = append(broken, fmt.Sprintf(format, a...)) }

func parse(path string) *ast.File {
	f, err := parser.ParseFile(fset, path, nil, parser.ParseComments)
	if err != nil {
		tie("cannot parse %s: %v", path, err)
		return nil
	}
	return f
}

func src(n ast.Node) string {
	var sb strings.Builder
	printer.Fprint(&sb, fset, n)
	return strings.Join(strings.Fields(sb.String()), " ")
}

func funcDecl(f *ast.File, recv, name string) *ast.FuncDecl {
	for _, d := range f.Decls {
		fd, ok := d.(*ast.FuncDecl)
		if !ok || fd.Name.Name != name {
			continue
		}
		if recv == "" && fd.Recv == nil {
			return fd
		}
		if recv != "" && fd.Recv != nil && strings.Contains(src(fd.Recv.List[0].Type), recv) {
			return fd
		}
	}
	return nil
}

func selName(e ast.Expr) string {
	switch x := e.(type) {
	case *ast.SelectorExpr:
		return x.Sel.Name
	case *ast.Ident:
		return x.Name
	}
	return ""
}

type Facts struct {
	Statuses    [][2]any            `json:"statuses"`
	StringCases []string            `json:"stringCases"`
	GrpcCode    [][2]string         `json:"grpcCode"`
	HttpDivisor int                 `json:"httpDivisor"`
	GrpcFlags   [][3]string         `json:"grpcFlags"`
	Sites       map[string][]string `json:"sites"`
	AwaitLoops  [][3]string         `json:"awaitLoops"`
	CoCmds      [][3]string         `json:"coroutineCmds"`
	TaskGuards  [][3]string         `json:"taskGuards"`
	TickCalls   []string            `json:"tickCalls"`
	TickConds   []string            `json:"tickConds"`
	QueueShapes [][4]string         `json:"queueShapes"`
	StoreOpen   [][3]string         `json:"storeOpen"`
	Defaults    map[string]string   `json:"defaults"`
}

func main() {
	repo, out := os.Args[1], os.Args[2]
	facts := Facts{Sites: map[string][]string{}, Defaults: map[string]string{}}

	// 1. status constants
	if f := parse(filepath.Join(repo, "internal/kernel/t_api/status.go")); f != nil {
		for _, d := range f.Decls {
			gd, ok := d.(*ast.GenDecl)
			if !ok || gd.Tok != token.CONST {
				continue
			}
			for _, s := range gd.Specs {
				vs := s.(*ast.ValueSpec)
				if len(vs.Names) == 1 && len(vs.Values) == 1 && strings.HasPrefix(vs.Names[0].Name, "Status") {
					if lit, ok := vs.Values[0].(*ast.BasicLit); ok {
						n, _ := strconv.Atoi(lit.Value)
						facts.Statuses = append(facts.Statuses, [2]any{vs.Names[0].Name, n})
					}
				}
			}
		}
		if fd := funcDecl(f, "StatusCode", "String"); fd != nil {
			ast.Inspect(fd, func(n ast.Node) bool {
				if cc, ok := n.(*ast.CaseClause); ok {
					for _, e := range cc.List {
						facts.StringCases = append(facts.StringCases, selName(e))
					}
				}
				return true
			})
		} else {
			tie("StatusCode.String not found")
		}
	}
	if len(facts.Statuses) == 0 {
		tie("no status constants found")
	}

	// 2. gRPC code() switch
	if f := parse(filepath.Join(repo, "internal/app/subsystems/api/grpc/grpc.go")); f != nil {
		if fd := funcDecl(f, "server", "code"); fd != nil {
			ast.Inspect(fd, func(n ast.Node) bool {
				cc, ok := n.(*ast.CaseClause)
				if !ok || len(cc.List) == 0 {
					return true
				}
				code := ""
				for _, st := range cc.Body {
					if r, ok := st.(*ast.ReturnStmt); ok && len(r.Results) == 1 {
						code = selName(r.Results[0])
					}
				}
				for _, e := range cc.List {
					facts.GrpcCode = append(facts.GrpcCode, [2]string{selName(e), code})
				}
				return true
			})
		} else {
			tie("grpc server.code not found")
		}
	}

	// 3. HTTP code(): int(status) / N
	if f := parse(filepath.Join(repo, "internal/app/subsystems/api/http/http.go")); f != nil {
		if fd := funcDecl(f, "server", "code"); fd != nil && len(fd.Body.List) == 1 {
			if r, ok := fd.Body.List[0].(*ast.ReturnStmt); ok && len(r.Results) == 1 {
				if b, ok := r.Results[0].(*ast.BinaryExpr); ok && b.Op == token.QUO && src(b.X) == "int(status)" {
					if lit, ok := b.Y.(*ast.BasicLit); ok {
						facts.HttpDivisor, _ = strconv.Atoi(lit.Value)
					}
				}
			}
		}
		if facts.HttpDivisor == 0 {
			tie("http server.code is not `return int(status) / <literal>`")
		}
	}

	// 4. gRPC outcome flags: Field: res.X.Status == t_api.StatusY
	gfiles, _ := filepath.Glob(filepath.Join(repo, "internal/app/subsystems/api/grpc/*.go"))
	sort.Strings(gfiles)
	for _, p := range gfiles {
		if strings.HasSuffix(p, "_test.go") {
			continue
		}
		f := parse(p)
		if f == nil {
			continue
		}
		for _, d := range f.Decls {
			fd, ok := d.(*ast.FuncDecl)
			if !ok || fd.Body == nil {
				continue
			}
			ast.Inspect(fd.Body, func(n ast.Node) bool {
				kv, ok := n.(*ast.KeyValueExpr)
				if !ok {
					return true
				}
				b, ok := kv.Value.(*ast.BinaryExpr)
				if !ok || b.Op != token.EQL || selName(b.X) != "Status" {
					return true
				}
				facts.GrpcFlags = append(facts.GrpcFlags, [3]string{fd.Name.Name, selName(kv.Key), selName(b.Y)})
				return true
			})
		}
	}

	// 5. assert / panic / Must inventory of the request path
	for _, dir := range []string{"internal/app/coroutines", "internal/app/subsystems/aio/router", "internal/app/subsystems/aio/sender",
		"internal/app/plugins/poll", "internal/app/plugins/http", "internal/app/subsystems/api", "internal/app/subsystems/api/http",
		"internal/app/subsystems/api/grpc", "internal/kernel/t_api", "internal/kernel/system", "internal/api", "internal/aio"} {
		files, _ := filepath.Glob(filepath.Join(repo, dir, "*.go"))
		sort.Strings(files)
		for _, p := range files {
			if strings.HasSuffix(p, "_test.go") {
				continue
			}
			f := parse(p)
			if f == nil {
				continue
			}
			rel, _ := filepath.Rel(repo, p)
			for _, d := range f.Decls {
				fd, ok := d.(*ast.FuncDecl)
				if !ok || fd.Body == nil {
					continue
				}
				ast.Inspect(fd.Body, func(n ast.Node) bool {
					ce, ok := n.(*ast.CallExpr)
					if !ok {
						return true
					}
					fn := src(ce.Fun)
					switch {
					case fn == "util.Assert" && len(ce.Args) >= 1:
						facts.Sites[rel] = append(facts.Sites[rel], fd.Name.Name+": assert "+src(ce.Args[0]))
					case fn == "panic":
						facts.Sites[rel] = append(facts.Sites[rel], fd.Name.Name+": panic")
					case strings.HasSuffix(fn, ".Must"):
						facts.Sites[rel] = append(facts.Sites[rel], fd.Name.Name+": "+fn)
					}
					return true
				})
			}
		}
	}

	// 5b. loops that await spawned children: does the loop return on the first error (the coroutine then finishes while
	// later children are still in flight) or does it keep awaiting (every child is waited for)?
	{
		files, _ := filepath.Glob(filepath.Join(repo, "internal/app/coroutines", "*.go"))
		sort.Strings(files)
		for _, p := range files {
			if strings.HasSuffix(p, "_test.go") {
				continue
			}
			f := parse(p)
			if f == nil {
				continue
			}
			rel, _ := filepath.Rel(repo, p)
			for _, d := range f.Decls {
				fd, ok := d.(*ast.FuncDecl)
				if !ok || fd.Body == nil {
					continue
				}
				ast.Inspect(fd.Body, func(n ast.Node) bool {
					var body *ast.BlockStmt
					switch l := n.(type) {
					case *ast.ForStmt:
						body = l.Body
					case *ast.RangeStmt:
						body = l.Body
					default:
						return true
					}
					awaits, returns := false, false
					ast.Inspect(body, func(m ast.Node) bool {
						switch x := m.(type) {
						case *ast.FuncLit:
							return false
						case *ast.CallExpr:
							if src(x.Fun) == "gocoro.Await" {
								awaits = true
							}
						case *ast.ReturnStmt:
							returns = true
						}
						return true
					})
					if awaits {
						how := "awaits-all"
						if returns {
							how = "returns-on-error"
						}
						facts.AwaitLoops = append(facts.AwaitLoops, [3]string{rel, fd.Name.Name, how})
					}
					return true
				})
			}
		}
	}

	// 5c. what every coroutine submits, in source order: the t_aio command kinds it builds, and the state guards of the
	// task updates it writes (`CurrentStates`) — the hand-written coroutine models are written against exactly these
	{
		files, _ := filepath.Glob(filepath.Join(repo, "internal/app/coroutines", "*.go"))
		sort.Strings(files)
		for _, p := range files {
			if strings.HasSuffix(p, "_test.go") {
				continue
			}
			f := parse(p)
			if f == nil {
				continue
			}
			rel, _ := filepath.Rel(repo, p)
			for _, d := range f.Decls {
				fd, ok := d.(*ast.FuncDecl)
				if !ok || fd.Body == nil {
					continue
				}
				kinds := []string{}
				ast.Inspect(fd.Body, func(n ast.Node) bool {
					kv, ok := n.(*ast.KeyValueExpr)
					if !ok {
						return true
					}
					switch selName(kv.Key) {
					case "Kind":
						if v := src(kv.Value); strings.HasPrefix(v, "t_aio.") {
							kinds = append(kinds, strings.TrimPrefix(v, "t_aio."))
						}
					case "CurrentStates":
						facts.TaskGuards = append(facts.TaskGuards, [3]string{rel, fd.Name.Name, src(kv.Value)})
					}
					return true
				})
				if len(kinds) > 0 {
					facts.CoCmds = append(facts.CoCmds, [3]string{rel, fd.Name.Name, strings.Join(kinds, " ")})
				}
			}
		}
	}

	// 5d. the kernel's Tick: the calls it makes, in source order, and the conditions it branches on — Model/System.lean
	// (`Sys.tick`: deliver completions, gate the background coroutines, rotate on refusal, admit requests, run, flush) is
	// written against exactly this sequence
	if f := parse(filepath.Join(repo, "internal/kernel/system/system.go")); f != nil {
		if fd := funcDecl(f, "System", "Tick"); fd != nil && fd.Body != nil {
			ast.Inspect(fd.Body, func(n ast.Node) bool {
				switch x := n.(type) {
				case *ast.CallExpr:
					facts.TickCalls = append(facts.TickCalls, src(x.Fun))
				case *ast.IfStmt:
					facts.TickConds = append(facts.TickConds, src(x.Cond))
				}
				return true
			})
		} else {
			tie("system.go: func (s *System) Tick not found")
		}
	}

	// 5e. the queues between clients, kernel and subsystems: per function, the calls it makes and the conditions it branches on
	for _, spec := range [][3]string{
		{"internal/api/api.go", "api", "EnqueueSQE"}, {"internal/api/api.go", "api", "DequeueSQE"}, {"internal/api/api.go", "api", "EnqueueCQE"},
		{"internal/api/api.go", "api", "Shutdown"}, {"internal/api/api.go", "api", "Done"},
		{"internal/kernel/system/system.go", "System", "Loop"}, {"internal/kernel/system/system.go", "System", "Done"}, {"internal/kernel/system/system.go", "System", "Shutdown"},
		{"internal/aio/aio.go", "aio", "EnqueueCQE"}, {"internal/aio/aio.go", "aio", "DequeueCQE"}, {"internal/aio/aio.go", "aio", "Dispatch"}, {"internal/aio/aio.go", "aio", "Flush"},
	} {
		f := parse(filepath.Join(repo, spec[0]))
		if f == nil {
			continue
		}
		fd := funcDecl(f, spec[1], spec[2])
		if fd == nil || fd.Body == nil {
			tie("%s: func (%s) %s not found", spec[0], spec[1], spec[2])
			continue
		}
		calls, conds := []string{}, []string{}
		ast.Inspect(fd.Body, func(n ast.Node) bool {
			switch x := n.(type) {
			case *ast.CallExpr:
				if c := src(x.Fun); !strings.HasPrefix(c, "slog.") && !strings.Contains(c, "metrics") {
					calls = append(calls, c)
				}
			case *ast.IfStmt:
				conds = append(conds, src(x.Cond))
			case *ast.CommClause:
				if x.Comm == nil {
					conds = append(conds, "select-default")
				} else {
					conds = append(conds, "select: "+src(x.Comm))
				}
			}
			return true
		})
		facts.QueueShapes = append(facts.QueueShapes, [4]string{spec[0], spec[2], strings.Join(calls, " "), strings.Join(conds, " ;; ")})
	}

	// 5f. how the stores open their database: driver name and data source expression of every sql.Open (journal mode, busy
	// time-out and the like are part of the data source: durability across a kill depends on them)
	for _, fpath := range []string{"internal/app/subsystems/aio/store/sqlite/sqlite.go", "internal/app/subsystems/aio/store/postgres/postgres.go"} {
		f := parse(filepath.Join(repo, fpath))
		if f == nil {
			continue
		}
		ast.Inspect(f, func(n ast.Node) bool {
			ce, ok := n.(*ast.CallExpr)
			if ok && src(ce.Fun) == "sql.Open" && len(ce.Args) == 2 {
				facts.StoreOpen = append(facts.StoreOpen, [3]string{fpath, src(ce.Args[0]), src(ce.Args[1])})
			}
			return true
		})
	}

	// 6. struct-tag defaults
	for _, spec := range [][3]string{
		{"internal/app/subsystems/aio/store/sqlite/sqlite.go", "Config", "sqlite"},
		{"internal/app/subsystems/aio/store/postgres/postgres.go", "Config", "postgres"},
		{"internal/kernel/system/system.go", "Config", "system"},
	} {
		f := parse(filepath.Join(repo, spec[0]))
		if f == nil {
			continue
		}
		ast.Inspect(f, func(n ast.Node) bool {
			ts, ok := n.(*ast.TypeSpec)
			if !ok || ts.Name.Name != spec[1] {
				return true
			}
			st, ok := ts.Type.(*ast.StructType)
			if !ok {
				return true
			}
			for _, fl := range st.Fields.List {
				if fl.Tag == nil || len(fl.Names) == 0 {
					continue
				}
				tag := reflect.StructTag(strings.Trim(fl.Tag.Value, "`"))
				if v, ok := tag.Lookup("default"); ok {
					facts.Defaults[spec[2]+"."+fl.Names[0].Name] = v
				}
			}
			return false
		})
	}

	b, _ := json.MarshalIndent(facts, "", " ")
	os.WriteFile(filepath.Join(out, "gofacts.json"), b, 0o644)

	// Lean emission
	q := func(s string) string { return strconv.Quote(s) }
	var sb strings.Builder
	sb.WriteString("-- GENERATED by translate/gofacts from /repo — do not edit.\nnamespace Resonate.Gen\n\n")
	sb.WriteString("/-- every `StatusCode` constant of t_api/status.go -/\ndef allStatuses : List (String × Nat) := [\n")
	for i, s := range facts.Statuses {
		sep := ","
		if i == len(facts.Statuses)-1 {
			sep = ""
		}
		fmt.Fprintf(&sb, "  (%s, %d)%s\n", q(s[0].(string)), s[1].(int), sep)
	}
	sb.WriteString("]\n\n/-- statuses with a case in `StatusCode.String()` (its default panics) -/\ndef stringCases : List String := [")
	for i, s := range facts.StringCases {
		if i > 0 {
			sb.WriteString(", ")
		}
		sb.WriteString(q(s))
	}
	sb.WriteString("]\n\n/-- the gRPC `code()` switch (its default panics) -/\ndef grpcCode : List (String × String) := [\n")
	for i, s := range facts.GrpcCode {
		sep := ","
		if i == len(facts.GrpcCode)-1 {
			sep = ""
		}
		fmt.Fprintf(&sb, "  (%s, %s)%s\n", q(s[0]), q(s[1]), sep)
	}
	fmt.Fprintf(&sb, "]\n\n/-- HTTP `code()` is `int(status) / httpDivisor` -/\ndef httpDivisor : Nat := %d\n\n", facts.HttpDivisor)
	sb.WriteString("/-- gRPC outcome flags: (handler, field, status the kernel status is compared with) -/\ndef grpcFlags : List (String × String × String) := [\n")
	for i, s := range facts.GrpcFlags {
		sep := ","
		if i == len(facts.GrpcFlags)-1 {
			sep = ""
		}
		fmt.Fprintf(&sb, "  (%s, %s, %s)%s\n", q(s[0]), q(s[1]), q(s[2]), sep)
	}
	sb.WriteString("]\n\n/-- struct-tag defaults -/\ndef defaults : List (String × String) := [\n")
	keys := []string{}
	for k := range facts.Defaults {
		keys = append(keys, k)
	}
	sort.Strings(keys)
	for i, k := range keys {
		sep := ","
		if i == len(keys)-1 {
			sep = ""
		}
		fmt.Fprintf(&sb, "  (%s, %s)%s\n", q(k), q(facts.Defaults[k]), sep)
	}
	sb.WriteString("]\n\nend Resonate.Gen\n")
	os.WriteFile(filepath.Join(out, "Status.lean"), []byte(sb.String()), 0o644)

	// sites
	var ss strings.Builder
	ss.WriteString("-- GENERATED by translate/gofacts from /repo — do not edit.\nnamespace Resonate.Gen\n\n/-- every util.Assert / panic / Must site of the request path: (file, function: what) -/\ndef sites : List (String × String) := [\n")
	files := []string{}
	for k := range facts.Sites {
		files = append(files, k)
	}
	sort.Strings(files)
	first := true
	for _, k := range files {
		for _, s := range facts.Sites[k] {
			if !first {
				ss.WriteString(",\n")
			}
			first = false
			fmt.Fprintf(&ss, "  (%s, %s)", q(k), q(s))
		}
	}
	ss.WriteString("\n]\n\n/-- every loop of a coroutine that awaits spawned children: (file, function, what it does when a child fails) -/\ndef awaitLoops : List (String × String × String) := [\n")
	for i, a := range facts.AwaitLoops {
		sep := ","
		if i == len(facts.AwaitLoops)-1 {
			sep = ""
		}
		fmt.Fprintf(&ss, "  (%s, %s, %s)%s\n", q(a[0]), q(a[1]), q(a[2]), sep)
	}
	ss.WriteString("]\n\n/-- the t_aio submission / command kinds every coroutine function builds, in source order: (file, function, kinds) -/\ndef coroutineCmds : List (String × String × String) := [\n")
	for i, a := range facts.CoCmds {
		sep := ","
		if i == len(facts.CoCmds)-1 {
			sep = ""
		}
		fmt.Fprintf(&ss, "  (%s, %s, %s)%s\n", q(a[0]), q(a[1]), q(a[2]), sep)
	}
	ss.WriteString("]\n\n/-- the state guard (`CurrentStates`) of every task update a coroutine writes: (file, function, expression) -/\ndef taskGuards : List (String × String × String) := [\n")
	for i, a := range facts.TaskGuards {
		sep := ","
		if i == len(facts.TaskGuards)-1 {
			sep = ""
		}
		fmt.Fprintf(&ss, "  (%s, %s, %s)%s\n", q(a[0]), q(a[1]), q(a[2]), sep)
	}
	ss.WriteString("]\n\n/-- the calls `System.Tick` makes, in source order -/\ndef tickCalls : List String := [")
	for i, a := range facts.TickCalls {
		if i > 0 {
			ss.WriteString(", ")
		}
		ss.WriteString(q(a))
	}
	ss.WriteString("]\n\n/-- the conditions `System.Tick` branches on, in source order -/\ndef tickConds : List String := [\n")
	for i, a := range facts.TickConds {
		sep := ","
		if i == len(facts.TickConds)-1 {
			sep = ""
		}
		fmt.Fprintf(&ss, "  %s%s\n", q(a), sep)
	}
	ss.WriteString("]\n\n/-- the queue functions between clients, kernel and subsystems: (file, function, calls, conditions) -/\ndef queueShapes : List (String × String × String × String) := [\n")
	for i, a := range facts.QueueShapes {
		sep := ","
		if i == len(facts.QueueShapes)-1 {
			sep = ""
		}
		fmt.Fprintf(&ss, "  (%s, %s, %s, %s)%s\n", q(a[0]), q(a[1]), q(a[2]), q(a[3]), sep)
	}
	ss.WriteString("]\n\n/-- every sql.Open of the two stores: (file, driver, data source expression) -/\ndef storeOpen : List (String × String × String) := [\n")
	for i, a := range facts.StoreOpen {
		sep := ","
		if i == len(facts.StoreOpen)-1 {
			sep = ""
		}
		fmt.Fprintf(&ss, "  (%s, %s, %s)%s\n", q(a[0]), q(a[1]), q(a[2]), sep)
	}
	ss.WriteString("]\n\nend Resonate.Gen\n")
	os.WriteFile(filepath.Join(out, "Sites.lean"), []byte(ss.String()), 0o644)

	if len(broken) > 0 {
		for _, b := range broken {
			fmt.Println("TIE-BROKEN gofacts:", b)
		}
		os.Exit(2)
	}
}
