module gofacts

go 1.23.0
