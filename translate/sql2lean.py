#!/usr/bin/env python3
"""
sql2lean.py — translate the SQL statements and handler argument lists of resonate's two store
back ends (store/sqlite/sqlite.go, store/postgres/postgres.go) into shallow Lean 4 definitions.

  usage: sql2lean.py <repo> <Types.lean> <out.lean> [--facts facts.json]

For every statement constant it parses the SQL (a recursive-descent parser for the subset that
is actually used), binds every placeholder to the Go expression the handler passes at that
position (resolved to a field path of the command structure), type-checks the expression against
the Lean row / command structures declared in Model/Types.lean and emits

    <stmt>_where / _set / _row / _proj / _limit / _guard ...   (namespace Resonate.Gen.<Dialect>)

plus `shape`, a list of (statement, canonical text of everything that is *not* translated into a
function: statement kind, table, column list, conflict target, ORDER BY / GROUP BY / DISTINCT ON /
LIMIT shape).  Model/Store.lean defines the store semantics *in terms of* these functions and pins
`shape` by `decide`, so the theorems are re-checked against what the code says now.

Anything outside the subset raises `Tie` — a broken tie, never a silent skip.
This file is part of the trusted base (DESIGN §9).
"""
import json
import re
import sys


class Tie(Exception):
    pass


# ----------------------------------------------------------------------------- Lean types
def parse_lean_structs(path):
    """structure name -> ordered {field: type} from Model/Types.lean"""
    txt = open(path).read()
    structs = {}
    for m in re.finditer(r'^structure (\w+) where\n((?:  .*\n)+)', txt, re.M):
        fields = {}
        for line in m.group(2).splitlines():
            line = line.split('--')[0].strip()
            fm = re.match(r'(\w+) : ([^:=]+?)(?:\s*:=.*)?$', line)
            if fm:
                fields[fm.group(1)] = fm.group(2).strip()
        structs[m.group(1)] = fields
    return structs


def camel(snake):
    parts = snake.split('_')
    return parts[0] + ''.join(p.capitalize() for p in parts[1:])


def lower_first(s):
    return s[0].lower() + s[1:]


TABLE_ROW = {'promises': 'PromiseRow', 'callbacks': 'CallbackRow', 'schedules': 'ScheduleRow',
             'locks': 'LockRow', 'tasks': 'TaskRow'}
TABLE_FIELD = {'promises': 'promises', 'callbacks': 'callbacks', 'schedules': 'schedules',
               'locks': 'locks', 'tasks': 'tasks'}

ZERO = {'String': '""', 'Int': '0', 'Nat': '0', 'SMap': '[]', 'Mesg': 'default'}


def zero_of(ty):
    if ty.startswith('Option'):
        return 'none'
    return ZERO[ty]


# ----------------------------------------------------------------------------- Go extraction
def split_top(s):
    """split on top-level commas"""
    out, depth, cur, in_str = [], 0, '', None
    i = 0
    while i < len(s):
        ch = s[i]
        if in_str:
            cur += ch
            if ch == '\\':
                cur += s[i + 1]
                i += 1
            elif ch == in_str:
                in_str = None
        elif ch in '"`':
            in_str = ch
            cur += ch
        elif ch in '([{':
            depth += 1
            cur += ch
        elif ch in ')]}':
            depth -= 1
            cur += ch
        elif ch == ',' and depth == 0:
            out.append(cur.strip())
            cur = ''
        else:
            cur += ch
        i += 1
    if cur.strip():
        out.append(cur.strip())
    return out


def call_args(body, start):
    """body[start] is '(' — return (argstring, end index)"""
    depth, i, in_str = 0, start, None
    while i < len(body):
        ch = body[i]
        if in_str:
            if ch == '\\':
                i += 1
            elif ch == in_str:
                in_str = None
        elif ch in '"`':
            in_str = ch
        elif ch == '(':
            depth += 1
        elif ch == ')':
            depth -= 1
            if depth == 0:
                return body[start + 1:i], i
        i += 1
    raise Tie('unbalanced call')


def go_funcs(src, recv_type):
    """method name -> body text for methods of *recv_type"""
    funcs = {}
    for m in re.finditer(r'^func \(w \*%s\) (\w+)\(' % recv_type, src, re.M):
        nxt = re.search(r'^func ', src[m.end():], re.M)
        end = m.end() + nxt.start() if nxt else len(src)
        funcs[m.group(1)] = src[m.start():end]
    return funcs


def go_consts(src):
    return {m.group(1): m.group(2) for m in re.finditer(r'^\t(\w+_STATEMENT) = `([^`]*)`', src, re.M)}


CMD_STRUCT = {  # handler name -> Lean command structure
    'readPromise': 'ReadPromiseCmd', 'readPromises': 'ReadPromisesCmd', 'searchPromises': 'SearchPromisesCmd',
    'createPromise': 'CreatePromiseCmd', 'updatePromise': 'UpdatePromiseCmd',
    'createCallback': 'CreateCallbackCmd', 'deleteCallbacks': 'DeleteCallbacksCmd',
    'readSchedule': 'ReadScheduleCmd', 'readSchedules': 'ReadSchedulesCmd', 'searchSchedules': 'SearchSchedulesCmd',
    'createSchedule': 'CreateScheduleCmd', 'updateSchedule': 'UpdateScheduleCmd', 'deleteSchedule': 'DeleteScheduleCmd',
    'readLock': 'ReadLockCmd', 'acquireLock': 'AcquireLockCmd', 'releaseLock': 'ReleaseLockCmd',
    'hearbeatLocks': 'HeartbeatLocksCmd', 'timeoutLocks': 'TimeoutLocksCmd',
    'readTask': 'ReadTaskCmd', 'readTasks': 'ReadTasksCmd', 'readEnqueueableTasks': 'ReadEnqueueableTasksCmd',
    'createTask': 'CreateTaskCmd', 'createTasks': 'CreateTasksCmd', 'completeTasks': 'CompleteTasksCmd',
    'updateTask': 'UpdateTaskCmd', 'heartbeatTasks': 'HeartbeatTasksCmd',
}

# statement constant -> (short lean name, handler)
STMT = {
    'PROMISE_SELECT_STATEMENT': ('promiseSelect', 'readPromise'),
    'PROMISE_SELECT_ALL_STATEMENT': ('promiseSelectAll', 'readPromises'),
    'PROMISE_SEARCH_STATEMENT': ('promiseSearch', 'searchPromises'),
    'PROMISE_INSERT_STATEMENT': ('promiseInsert', 'createPromise'),
    'PROMISE_UPDATE_STATEMENT': ('promiseUpdate', 'updatePromise'),
    'CALLBACK_INSERT_STATEMENT': ('callbackInsert', 'createCallback'),
    'CALLBACK_DELETE_STATEMENT': ('callbackDelete', 'deleteCallbacks'),
    'SCHEDULE_SELECT_STATEMENT': ('scheduleSelect', 'readSchedule'),
    'SCHEDULE_SELECT_ALL_STATEMENT': ('scheduleSelectAll', 'readSchedules'),
    'SCHEDULE_SEARCH_STATEMENT': ('scheduleSearch', 'searchSchedules'),
    'SCHEDULE_INSERT_STATEMENT': ('scheduleInsert', 'createSchedule'),
    'SCHEDULE_UPDATE_STATEMENT': ('scheduleUpdate', 'updateSchedule'),
    'SCHEDULE_DELETE_STATEMENT': ('scheduleDelete', 'deleteSchedule'),
    'LOCK_READ_STATEMENT': ('lockRead', 'readLock'),
    'LOCK_ACQUIRE_STATEMENT': ('lockAcquire', 'acquireLock'),
    'LOCK_RELEASE_STATEMENT': ('lockRelease', 'releaseLock'),
    'LOCK_HEARTBEAT_STATEMENT': ('lockHeartbeat', 'hearbeatLocks'),
    'LOCK_TIMEOUT_STATEMENT': ('lockTimeout', 'timeoutLocks'),
    'TASK_SELECT_STATEMENT': ('taskSelect', 'readTask'),
    'TASK_SELECT_ALL_STATEMENT': ('taskSelectAll', 'readTasks'),
    'TASK_SELECT_ENQUEUEABLE_STATEMENT': ('taskSelectEnqueueable', 'readEnqueueableTasks'),
    'TASK_INSERT_STATEMENT': ('taskInsert', 'createTask'),
    'TASK_INSERT_ALL_STATEMENT': ('taskInsertAll', 'createTasks'),
    'TASK_UPDATE_STATEMENT': ('taskUpdate', 'updateTask'),
    'TASK_COMPLETE_BY_ROOT_ID_STATEMENT': ('taskCompleteByRootId', 'completeTasks'),
    'TASK_HEARTBEAT_STATEMENT': ('taskHeartbeat', 'heartbeatTasks'),
}


class GoExpr:
    """resolved Go argument: Lean text + Lean type"""

    def __init__(self, lean, ty, src):
        self.lean, self.ty, self.src = lean, ty, src


def resolve_go_expr(expr, handler, body, structs, dialect):
    """map a Go argument expression to (lean, type)"""
    expr = expr.strip()
    cs = CMD_STRUCT[handler]
    m = re.fullmatch(r'cmd((?:\.\w+)+)', expr)
    if m:
        path = [lower_first(p) for p in m.group(1).strip('.').split('.')]
        ty = cs
        lean = 'c'
        for p in path:
            if ty not in structs or p not in structs[ty]:
                raise Tie(f'{handler}: unknown field path {expr}')
            ty = structs[ty][p]
            lean += '.' + p
        return GoExpr(lean, ty, expr)
    if re.fullmatch(r'\w+', expr):
        # a local variable: find its definition in the handler body
        v = expr
        m = re.search(r'\b%s, err :?= json\.Marshal\((cmd(?:\.\w+)+)\)' % v, body)
        if m:
            g = resolve_go_expr(m.group(1), handler, body, structs, dialect)
            return GoExpr(g.lean, g.ty, f'json.Marshal({m.group(1)})')
        m = re.search(r'\b%s := strings\.ReplaceAll\((cmd(?:\.\w+)+), "\*", "%%"\)' % v, body)
        if m:
            g = resolve_go_expr(m.group(1), handler, body, structs, dialect)
            return GoExpr(f'(starToPercent {g.lean})', 'String', f'strings.ReplaceAll({m.group(1)}, "*", "%")')
        # bit-mask fold:  for _, state := range cmd.X { v = v | int(state) }  /  v |= state
        m = re.search(r'for _, state := range (cmd(?:\.\w+)+) \{\s*(?:%s = %s \| int\(state\)|%s \|= state)\s*\}' % (v, v, v), body)
        if m:
            g = resolve_go_expr(m.group(1), handler, body, structs, dialect)
            return GoExpr(f'(maskOf {g.lean})', 'Nat', f'mask({m.group(1)})')
        # postgres optional tags:  var tags *string ; if len(cmd.Tags) > 0 { t, err := json.Marshal(cmd.Tags) ... tags = util.ToPointer(string(t)) }
        m = re.search(r'var %s \*string\s*if len\((cmd(?:\.\w+)+)\) > 0 \{\s*t, err := json\.Marshal\(\1\)\s*if err != nil \{\s*return nil, err\s*\}\s*%s = util\.ToPointer\(string\(t\)\)\s*\}' % (v, v), body)
        if m:
            g = resolve_go_expr(m.group(1), handler, body, structs, dialect)
            return GoExpr(f'(optJsonMap {g.lean})', 'Option SMap', f'optJson({m.group(1)})')
    raise Tie(f'{handler}: cannot resolve Go argument expression `{expr}`')


def handler_args(handler, body, const_name, structs, dialect):
    """ordered argument list bound to the statement's placeholders; entries are GoExpr or '<TAGS>'"""
    # sqlite search handlers build `args`/`vars` slices
    m = re.search(r'\b(args|vars) := \[\]any\{([^}]*)\}', body)
    if m and ('args...' in body or 'vars...' in body):
        name = m.group(1)
        items = split_top(m.group(2))
        for am in re.finditer(r'%s = append\(%s, ([^)]*)\)' % (name, name), body):
            items.append(am.group(1).strip())
        out = []
        for it in items:
            if it.endswith('...'):
                # the dynamic tag placeholders of the sqlite search handlers
                check_sqlite_tags_clause(handler, body)
                out.append('<TAGS>')
            else:
                out.append(resolve_go_expr(it, handler, body, structs, dialect))
        return out
    # direct call:  stmt.Exec(a, b, ...)  /  tx.Query(CONST, a, b)  / tx.QueryRow(CONST, a)
    calls = []
    for cm in re.finditer(r'\b(?:\w*[sS]tmt\.Exec|tx\.Query|tx\.QueryRow)\(', body):
        args, _ = call_args(body, cm.end() - 1)
        calls.append((cm.group(0), split_top(args)))
    if len(calls) != 1:
        raise Tie(f'{handler}: expected exactly one Exec/Query call, found {len(calls)}')
    fn, items = calls[0]
    if fn.startswith('tx.'):
        first = items[0]
        if const_name not in first:
            raise Tie(f'{handler}: query uses {first}, expected {const_name}')
        items = items[1:]
    return [resolve_go_expr(it, handler, body, structs, dialect) for it in items]


def norm_ws(s):
    return re.sub(r'\s+', ' ', s).strip()


def check_sqlite_tags_clause(handler, body):
    """the sqlite search handlers splice `AND json_extract(tags, ?) = ? AND ...` built in Go; pin that code"""
    need = [
        r'for k, v := range cmd\.Tags \{\s*placeholders = append\(placeholders, "json_extract\(tags, \?\) = \?"\)\s*placeholder(?:Args|Vars) = append\(placeholder(?:Args|Vars), "\$\."\+k, v\)\s*\}',
        r'if len\(placeholders\) > 0 \{\s*placeholder = "AND " \+ strings\.Join\(placeholders, " AND "\)\s*\}',
        r'fmt\.Sprintf\(\w+_SEARCH_STATEMENT, placeholder\)',
    ]
    for pat in need:
        if not re.search(pat, body):
            raise Tie(f'{handler}: dynamic tag clause construction changed (pattern {pat[:40]}… not found)')


# ----------------------------------------------------------------------------- SQL tokenizer / parser
TOKEN = re.compile(r"""
    (?P<ws>\s+|--[^\n]*)
  | (?P<num>\d+)
  | (?P<pgparam>\$\d+)
  | (?P<fmt>%s)
  | (?P<op>::|<=|>=|!=|<>|@>|[=<>&+(),.*?])
  | (?P<id>[A-Za-z_][A-Za-z_0-9]*)
""", re.X)

KEYWORDS = {'SELECT', 'FROM', 'WHERE', 'AND', 'OR', 'NOT', 'IS', 'NULL', 'LIKE', 'IN', 'EXISTS', 'ORDER', 'BY', 'ASC',
            'DESC', 'LIMIT', 'INSERT', 'INTO', 'VALUES', 'ON', 'CONFLICT', 'DO', 'NOTHING', 'UPDATE', 'SET', 'DELETE',
            'GROUP', 'DISTINCT', 'EXCLUDED'}


def tokenize(sql):
    toks, pos = [], 0
    while pos < len(sql):
        m = TOKEN.match(sql, pos)
        if not m:
            raise Tie(f'cannot tokenize SQL at: {sql[pos:pos+30]!r}')
        pos = m.end()
        if m.lastgroup == 'ws':
            continue
        v = m.group(m.lastgroup)
        if m.lastgroup == 'id' and v.upper() in KEYWORDS:
            toks.append(('kw', v.upper()))
        else:
            toks.append((m.lastgroup, v))
    return toks


class Parser:
    def __init__(self, toks):
        self.t, self.i, self.qcount = toks, 0, 0

    def peek(self, k=0):
        return self.t[self.i + k] if self.i + k < len(self.t) else ('eof', '')

    def next(self):
        tok = self.peek()
        self.i += 1
        return tok

    def at_kw(self, *kws):
        return self.peek()[0] == 'kw' and self.peek()[1] in kws

    def accept_kw(self, kw):
        if self.at_kw(kw):
            self.i += 1
            return True
        return False

    def expect_kw(self, kw):
        if not self.accept_kw(kw):
            raise Tie(f'expected {kw}, got {self.peek()}')

    def accept_op(self, op):
        if self.peek() == ('op', op):
            self.i += 1
            return True
        return False

    def expect_op(self, op):
        if not self.accept_op(op):
            raise Tie(f'expected {op!r}, got {self.peek()}')

    def ident(self):
        k, v = self.next()
        if k != 'id':
            raise Tie(f'expected identifier, got {(k, v)}')
        return v

    # --- expressions (precedence: OR < AND < NOT < comparison/IS/LIKE/IN < & < + < primary)
    def expr(self):
        e = self.and_expr()
        while self.accept_kw('OR'):
            e = ('or', e, self.and_expr())
        return e

    def and_expr(self):
        e = self.not_expr()
        while True:
            if self.peek() == ('fmt', '%s'):
                # sqlite: Go splices "AND json_extract(tags, ?) = ? AND ..." here
                self.i += 1
                e = ('and', e, ('tagsclause',))
                continue
            if self.at_kw('AND'):
                self.i += 1
                e = ('and', e, self.not_expr())
                continue
            return e

    def not_expr(self):
        if self.at_kw('NOT') and not (self.peek(1) == ('kw', 'EXISTS')):
            self.i += 1
            return ('not', self.not_expr())
        return self.cmp_expr()

    def cmp_expr(self):
        if self.at_kw('NOT') and self.peek(1) == ('kw', 'EXISTS'):
            self.i += 2
            return ('not', ('exists', self.subselect()))
        if self.accept_kw('EXISTS'):
            return ('exists', self.subselect())
        e = self.bit_expr()
        while True:
            k, v = self.peek()
            if k == 'op' and v in ('=', '!=', '<>', '<', '<=', '>', '>=', '@>'):
                self.i += 1
                e = ('cmp', '!=' if v == '<>' else v, e, self.bit_expr())
            elif self.at_kw('IS'):
                self.i += 1
                neg = self.accept_kw('NOT')
                self.expect_kw('NULL')
                e = ('isnull', e) if not neg else ('not', ('isnull', e))
            elif self.at_kw('LIKE'):
                self.i += 1
                e = ('like', e, self.bit_expr())
            elif self.at_kw('IN'):
                self.i += 1
                self.expect_op('(')
                items = [self.bit_expr()]
                while self.accept_op(','):
                    items.append(self.bit_expr())
                self.expect_op(')')
                e = ('in', e, items)
            else:
                return e

    def bit_expr(self):
        e = self.add_expr()
        while self.accept_op('&'):
            e = ('bitand', e, self.add_expr())
        return e

    def add_expr(self):
        e = self.primary()
        while self.accept_op('+'):
            e = ('add', e, self.primary())
        return e

    def primary(self):
        k, v = self.peek()
        if k == 'num':
            self.i += 1
            e = ('lit', int(v))
        elif k == 'op' and v == '?':
            self.i += 1
            e = ('param', self.qcount)
            self.qcount += 1
        elif k == 'pgparam':
            self.i += 1
            e = ('param', int(v[1:]) - 1)
        elif k == 'op' and v == '(':
            self.i += 1
            e = self.expr()
            self.expect_op(')')
        elif k == 'kw' and v == 'NULL':
            self.i += 1
            e = ('null',)
        elif k == 'kw' and v == 'EXCLUDED':
            self.i += 1
            self.expect_op('.')
            e = ('col', 'excluded', self.ident())
        elif k == 'id':
            self.i += 1
            if self.peek() == ('op', '(') and v.lower() == 'json_extract':
                self.i += 1
                a = self.expr()
                self.expect_op(',')
                b = self.expr()
                self.expect_op(')')
                e = ('json_extract', a, b)
            elif self.accept_op('.'):
                e = ('col', v, self.ident())
            else:
                e = ('col', None, v)
        else:
            raise Tie(f'unexpected token in expression: {(k, v)}')
        while self.accept_op('::'):
            e = ('cast', self.ident().lower(), e)
        return e

    def subselect(self):
        self.expect_op('(')
        self.expect_kw('SELECT')
        k, v = self.next()
        if (k, v) != ('num', '1'):
            raise Tie('subselect must be SELECT 1')
        self.expect_kw('FROM')
        table = self.ident()
        alias = None
        if self.peek()[0] == 'id':
            alias = self.ident()
        self.expect_kw('WHERE')
        w = self.expr()
        self.expect_op(')')
        return (table, alias, w)

    def order_by(self):
        keys = []
        if self.accept_kw('ORDER'):
            self.expect_kw('BY')
            while True:
                c = self.ident()
                d = 'ASC'
                if self.accept_kw('ASC'):
                    d = 'ASC'
                elif self.accept_kw('DESC'):
                    d = 'DESC'
                keys.append((c, d))
                if not self.accept_op(','):
                    break
        return keys

    def col_list(self):
        self.expect_op('(')
        cols = [self.ident()]
        while self.accept_op(','):
            cols.append(self.ident())
        self.expect_op(')')
        return cols

    def statement(self):
        if self.accept_kw('SELECT'):
            distinct = None
            if self.accept_kw('DISTINCT'):
                self.expect_kw('ON')
                distinct = self.col_list()
            cols = [self.ident()]
            while self.accept_op(','):
                cols.append(self.ident())
            self.expect_kw('FROM')
            table = self.ident()
            alias = self.ident() if self.peek()[0] == 'id' else None
            self.expect_kw('WHERE')
            w = self.expr()
            group = None
            if self.accept_kw('GROUP'):
                self.expect_kw('BY')
                group = [self.ident()]
            order = self.order_by()
            limit = None
            if self.accept_kw('LIMIT'):
                limit = self.primary()
            st = dict(kind='select', table=table, alias=alias, cols=cols, where=w, distinct=distinct, group=group,
                      order=order, limit=limit)
        elif self.accept_kw('INSERT'):
            self.expect_kw('INTO')
            table = self.ident()
            cols = self.col_list()
            if self.accept_kw('VALUES'):
                self.expect_op('(')
                vals = [self.expr()]
                while self.accept_op(','):
                    vals.append(self.expr())
                self.expect_op(')')
                conflict = None
                if self.accept_kw('ON'):
                    self.expect_kw('CONFLICT')
                    target = self.col_list()
                    self.expect_kw('DO')
                    if self.accept_kw('NOTHING'):
                        conflict = dict(target=target, action='nothing')
                    else:
                        self.expect_kw('UPDATE')
                        self.expect_kw('SET')
                        sets = self.assignments()
                        self.expect_kw('WHERE')
                        cw = self.expr()
                        conflict = dict(target=target, action='update', sets=sets, where=cw)
                st = dict(kind='insert_values', table=table, cols=cols, vals=vals, conflict=conflict)
            else:
                self.expect_kw('SELECT')
                vals = [self.expr()]
                while self.accept_op(','):
                    vals.append(self.expr())
                src = None
                if self.accept_kw('FROM'):
                    src = self.ident()
                self.expect_kw('WHERE')
                w = self.expr()
                order = self.order_by()
                st = dict(kind='insert_select', table=table, cols=cols, vals=vals, src=src, where=w, order=order)
        elif self.accept_kw('UPDATE'):
            table = self.ident()
            self.expect_kw('SET')
            sets = self.assignments()
            self.expect_kw('WHERE')
            w = self.expr()
            st = dict(kind='update', table=table, sets=sets, where=w)
        elif self.accept_kw('DELETE'):
            self.expect_kw('FROM')
            table = self.ident()
            self.expect_kw('WHERE')
            w = self.expr()
            st = dict(kind='delete', table=table, where=w)
        else:
            raise Tie(f'unsupported statement start {self.peek()}')
        if self.peek()[0] != 'eof':
            raise Tie(f'trailing tokens: {self.t[self.i:self.i+5]}')
        return st

    def assignments(self):
        sets = []
        while True:
            c = self.ident()
            self.expect_op('=')
            sets.append((c, self.bit_expr()))
            if not self.accept_op(','):
                break
        return sets


# ----------------------------------------------------------------------------- Lean emission
class Emitter:
    def __init__(self, structs, dialect, args, handler):
        self.s, self.dialect, self.args, self.handler = structs, dialect, args, handler
        self.used = set()
        self.tags_used = False

    def col_type(self, row_struct, col):
        f = camel(col)
        if f not in self.s[row_struct]:
            raise Tie(f'{self.handler}: column {col} not in {row_struct}')
        return f, self.s[row_struct][f]

    def param(self, idx):
        real = [a for a in self.args if a != '<TAGS>'] if self.dialect == 'sqlite' else self.args
        # sqlite: positional `?`; the <TAGS> pseudo-argument is consumed by the %s splice, not by a `?`
        if self.dialect == 'sqlite':
            # positions before the splice map 1:1; after the splice skip the pseudo-arg
            seq = []
            for j, a in enumerate(self.args):
                if a != '<TAGS>':
                    seq.append(j)
            if idx >= len(seq):
                raise Tie(f'{self.handler}: placeholder #{idx+1} has no argument')
            j = seq[idx]
        else:
            if idx >= len(self.args):
                raise Tie(f'{self.handler}: placeholder ${idx+1} has no argument')
            j = idx
        self.used.add(j)
        return self.args[j]

    # scope: list of (alias or table name, table, rowvar, row_struct) innermost first
    def e(self, x, scope):
        """returns (lean, type) ; type 'Bool' for predicates, 'lit' for int literals, 'null'"""
        k = x[0]
        if k == 'lit':
            return str(x[1]), 'lit'
        if k == 'null':
            return 'none', 'null'
        if k == 'param':
            g = self.param(x[1])
            return g.lean, g.ty
        if k == 'cast':
            lean, ty = self.e(x[2], scope)
            if x[1] == 'int':
                return f'(pgInt4 {lean})', ty
            if x[1] == 'jsonb':
                return lean, ty
            raise Tie(f'{self.handler}: unsupported cast ::{x[1]}')
        if k == 'col':
            qual, col = x[1], x[2]
            for (names, table, var, rs) in scope:
                if qual is None or qual in names:
                    f = camel(col)
                    if f in self.s[rs]:
                        return f'{var}.{f}', self.s[rs][f]
                    if qual is not None:
                        raise Tie(f'{self.handler}: column {qual}.{col} not found')
            raise Tie(f'{self.handler}: cannot resolve column {qual}.{col}')
        if k in ('and', 'or'):
            a, ta = self.e(x[1], scope)
            b, tb = self.e(x[2], scope)
            if ta != 'Bool' or tb != 'Bool':
                raise Tie(f'{self.handler}: non-boolean operand of {k}')
            return f'({a} {"&&" if k == "and" else "||"} {b})', 'Bool'
        if k == 'tagsclause':
            self.tags_used = True
            j = self.args.index('<TAGS>') if '<TAGS>' in self.args else None
            if j is None:
                raise Tie(f'{self.handler}: %s splice without spread arguments')
            self.used.add(j)
            (names, table, var, rs) = scope[0]
            if 'tags' not in self.s[rs] or 'tags' not in self.s[CMD_STRUCT[self.handler]]:
                raise Tie(f'{self.handler}: tags clause on a table without tags')
            return f'(sqliteTagsMatch {var}.tags c.tags)', 'Bool'
        if k == 'not':
            if x[1][0] not in ('exists', 'isnull'):
                raise Tie(f'{self.handler}: NOT over a possibly-NULL expression is outside the subset')
            a, ta = self.e(x[1], scope)
            return f'(!{a})', 'Bool'
        if k == 'exists':
            table, alias, w = x[1]
            rs = TABLE_ROW[table]
            var = f'r{len(scope)+1}'
            names = {table} | ({alias} if alias else set())
            inner, ti = self.e(w, [(names, table, var, rs)] + scope)
            if ti != 'Bool':
                raise Tie('subselect WHERE not boolean')
            return f'(db.{TABLE_FIELD[table]}.any fun {var} => {inner})', 'Bool'
        if k == 'isnull':
            a, ta = self.e(x[1], scope)
            if not ta.startswith('Option'):
                raise Tie(f'{self.handler}: IS NULL on non-nullable {a} : {ta}')
            return f'({a}).isNone', 'Bool'
        if k == 'like':
            a, ta = self.e(x[1], scope)
            b, tb = self.e(x[2], scope)
            if ta != 'String' or tb != 'String':
                raise Tie('LIKE on non-strings')
            fn = 'sqliteLike' if self.dialect == 'sqlite' else 'pgLike'
            return f'({fn} {a} {b})', 'Bool'
        if k == 'in':
            a, ta = self.e(x[1], scope)
            parts = []
            for it in x[2]:
                b, tb = self.e(it, scope)
                parts.append(f'{a} == {b}')
            return '(' + ' || '.join(parts) + ')', 'Bool'
        if k == 'bitand':
            a, ta = self.e(x[1], scope)
            b, tb = self.e(x[2], scope)
            if ta != 'Nat' or tb not in ('Nat', 'lit'):
                raise Tie(f'{self.handler}: & on {ta},{tb}')
            return f'({a} &&& {b})', 'Nat'
        if k == 'add':
            a, ta = self.e(x[1], scope)
            b, tb = self.e(x[2], scope)
            if {ta, tb} - {'Int', 'lit'}:
                raise Tie(f'{self.handler}: + on {ta},{tb}')
            return f'({a} + {b})', 'Int'
        if k == 'json_extract':
            raise Tie('json_extract only supported through the Go-built tag clause')
        if k == 'cmp':
            op = x[1]
            a, ta = self.e(x[2], scope)
            b, tb = self.e(x[3], scope)
            if op == '@>':
                if ta != 'SMap' or tb != 'Option SMap':
                    raise Tie(f'{self.handler}: @> on {ta},{tb}')
                return f'(match {b} with | some q => jsonContains {a} q | none => false)', 'Bool'
            na, nb = ta.startswith('Option'), tb.startswith('Option')
            base_a = ta[7:] if na else ta
            base_b = tb[7:] if nb else tb
            if not (base_a == base_b or 'lit' in (base_a, base_b) or {base_a, base_b} == {'Nat', 'Int'}):
                raise Tie(f'{self.handler}: comparing {ta} with {tb}')
            if {base_a, base_b} == {'Nat', 'Int'}:
                if base_a == 'Nat':
                    a = f'(Int.ofNat {a})'
                else:
                    b = f'(Int.ofNat {b})'
            if not na and not nb:
                if op == '=':
                    return f'({a} == {b})', 'Bool'
                if op == '!=':
                    return f'({a} != {b})', 'Bool'
                lop = {'<': '<', '<=': '≤', '>': '>', '>=': '≥'}[op]
                return f'(decide ({a} {lop} {b}))', 'Bool'
            if op == '=':
                aa = a if na else f'(some {a})'
                bb = b if nb else f'(some {b})'
                return f'(sqlEqO {aa} {bb})', 'Bool'
            if op == '<' and not na and nb:
                return f'(sqlLtO {a} {b})', 'Bool'
            raise Tie(f'{self.handler}: comparison {op} with NULLable operand outside the subset')
        raise Tie(f'{self.handler}: unsupported expression node {k}')

    def assign(self, row_struct, col, x, scope):
        f, fty = self.col_type(row_struct, col)
        v, vty = self.e(x, scope)
        if vty == 'lit':
            return f, (f'(some {v})' if fty.startswith('Option') else v)
        if fty == vty:
            return f, v
        if fty == f'Option {vty}':
            return f, f'(some {v})'
        raise Tie(f'{self.handler}: assigning {vty} to column {col} : {fty}')


def shape_of(st):
    def ord_s(o):
        return ','.join(f'{c} {d}' for c, d in o)
    k = st['kind']
    if k == 'select':
        lim = 'none' if st['limit'] is None else 'param'
        return (f"select {st['table']} distinct={','.join(st['distinct']) if st['distinct'] else '-'} "
                f"group={','.join(st['group']) if st['group'] else '-'} order=[{ord_s(st['order'])}] limit={lim}")
    if k == 'insert_values':
        c = st['conflict']
        cs = '-' if c is None else f"{','.join(c['target'])}:{c['action']}"
        return f"insert {st['table']} conflict={cs}"
    if k == 'insert_select':
        return f"insert-select {st['table']} from={st['src'] or '-'} order=[{ord_s(st['order'])}]"
    return f"{k} {st['table']}"


def emit_statement(name, st, handler, args, structs, dialect, facts):
    out = []
    em = Emitter(structs, dialect, args, handler)
    cs = CMD_STRUCT[handler]
    k = st['kind']
    table = st['table']
    rs = TABLE_ROW[table]

    def scope0(var='r'):
        names = {table} | ({st.get('alias')} if st.get('alias') else set())
        return [(names, table, var, rs)]

    if k == 'select':
        w, tw = em.e(st['where'], scope0())
        needs_db = 'db.' in w
        dbarg = ' (db : Db)' if needs_db else ''
        out.append(f'def {name}_where (c : {cs}){dbarg} (r : {rs}) : Bool :=\n  {w}')
        sel = {camel(c) for c in st['cols']}
        for c in st['cols']:
            em.col_type(rs, c)
        fields = []
        for f, ty in structs[rs].items():
            fields.append(f'{f} := r.{f}' if f in sel else f'{f} := {zero_of(ty)}')
        out.append(f'def {name}_proj (r : {rs}) : {rs} :=\n  {{ ' + ', '.join(fields) + ' }')
        if st['limit'] is not None:
            l, tl = em.e(st['limit'], scope0())
            if tl != 'Int':
                raise Tie(f'{handler}: LIMIT of type {tl}')
            out.append(f'def {name}_limit (c : {cs}) : Int :=\n  {l}')
    elif k == 'update':
        w, tw = em.e(st['where'], scope0())
        out.append(f'def {name}_where (c : {cs}) (r : {rs}) : Bool :=\n  {w}')
        sets = [em.assign(rs, c, x, scope0()) for c, x in st['sets']]
        out.append(f'def {name}_set (c : {cs}) (r : {rs}) : {rs} :=\n  {{ r with ' + ', '.join(f'{f} := {v}' for f, v in sets) + ' }')
    elif k == 'delete':
        w, tw = em.e(st['where'], scope0())
        out.append(f'def {name}_where (c : {cs}) (r : {rs}) : Bool :=\n  {w}')
    elif k in ('insert_values', 'insert_select'):
        src = st.get('src')
        if len(st['cols']) != len(st['vals']):
            raise Tie(f'{handler}: {len(st["cols"])} columns but {len(st["vals"])} values')
        if src:
            srs = TABLE_ROW[src]
            vscope = [({src}, src, 's', srs)]
        else:
            vscope = []
        given = dict(em.assign(rs, c, x, vscope) for c, x in zip(st['cols'], st['vals']))
        has_sort = 'sortId' in structs[rs]
        fields = []
        for f, ty in structs[rs].items():
            if f in given:
                fields.append(f'{f} := {given[f]}')
            elif f == 'sortId':
                fields.append('sortId := sortId')
            else:
                d = facts['defaults'][dialect].get(table, {}).get(f)
                if d is not None:
                    fields.append(f'{f} := {("(some %s)" % d) if ty.startswith("Option") else d}')
                elif ty.startswith('Option'):
                    fields.append(f'{f} := none')
                else:
                    raise Tie(f'{handler}: column {f} of {table} neither inserted, defaulted nor nullable')
        sargs = f' (s : {TABLE_ROW[src]})' if src else ''
        sortarg = ' (sortId : Nat)' if has_sort else ''
        out.append(f'def {name}_row (c : {cs}){sargs}{sortarg} : {rs} :=\n  {{ ' + ', '.join(fields) + ' }')
        if k == 'insert_select':
            if src:
                w, tw = em.e(st['where'], vscope)
                out.append(f'def {name}_where (c : {cs}) (s : {TABLE_ROW[src]}) : Bool :=\n  {w}')
            else:
                w, tw = em.e(st['where'], [])
                out.append(f'def {name}_guard (c : {cs}) (db : Db) : Bool :=\n  {w}')
        else:
            c = st['conflict']
            if c and c['action'] == 'update':
                sc = [({table}, table, 'r', rs), ({'excluded'}, table, 'x', rs)]
                w, tw = em.e(c['where'], sc)
                out.append(f'def {name}_conflictWhere (r x : {rs}) : Bool :=\n  {w}')
                sets = [em.assign(rs, cc, xx, sc) for cc, xx in c['sets']]
                out.append(f'def {name}_conflictSet (r x : {rs}) : {rs} :=\n  {{ r with ' + ', '.join(f'{f} := {v}' for f, v in sets) + ' }')
    else:
        raise Tie(f'unknown statement kind {k}')
    unused = [j for j in range(len(args)) if j not in em.used]
    if unused:
        raise Tie(f'{handler}: Go arguments at positions {unused} are bound to no placeholder')
    return out


def parse_defaults(create_sql):
    """table -> {leanField: default literal} from CREATE TABLE ... DEFAULT n"""
    d = {}
    for m in re.finditer(r'CREATE TABLE IF NOT EXISTS (\w+) \((.*?)\);', create_sql, re.S):
        cols = {}
        for line in m.group(2).splitlines():
            dm = re.match(r'\s*(\w+)\s+\w+.*?\bDEFAULT\s+(\d+)', line)
            if dm:
                cols[camel(dm.group(1))] = dm.group(2)
        d[m.group(1)] = cols
    return d


def parse_uniques(create_sql):
    """table -> sorted list of unique / primary-key columns"""
    u = {}
    for m in re.finditer(r'CREATE TABLE IF NOT EXISTS (\w+) \((.*?)\);', create_sql, re.S):
        cols = set()
        for line in m.group(2).splitlines():
            um = re.match(r'\s*(\w+)\s+\w+.*\b(UNIQUE|PRIMARY KEY)', line)
            if um:
                cols.add(um.group(1))
            pm = re.match(r'\s*PRIMARY KEY\((\w+)\)', line)
            if pm:
                cols.add(pm.group(1))
        u[m.group(1)] = sorted(cols)
    return u


def perform_commands_facts(body):
    """kind -> (handler, [stmt consts]) from performCommands' switch"""
    prepares = dict(re.findall(r'(\w+), err = tx\.Prepare\((\w+)\)', body))
    facts = {}
    for m in re.finditer(r'case t_aio\.(\w+):(.*?)(?=\n\t\t\tcase |\n\t\t\tdefault:)', body, re.S):
        kind, blk = m.group(1), m.group(2)
        cm = re.search(r'results\[i\]\[j\], err = w\.(\w+)\(tx(?:, (\w+))?(?:, (\w+))?, command\.(\w+)\)', blk)
        if not cm:
            raise Tie(f'performCommands: cannot find handler call for {kind}')
        stmts = [prepares[v] for v in (cm.group(2), cm.group(3)) if v]
        facts[kind] = dict(handler=cm.group(1), stmts=stmts, field=cm.group(4))
    return facts


def translate_dialect(src, dialect, structs, facts):
    recv = 'SqliteStoreWorker' if dialect == 'sqlite' else 'PostgresStoreWorker'
    consts = go_consts(src)
    funcs = go_funcs(src, recv)
    facts['defaults'][dialect] = parse_defaults(consts['CREATE_TABLE_STATEMENT'])
    facts['uniques'][dialect] = parse_uniques(consts['CREATE_TABLE_STATEMENT'])
    pc = perform_commands_facts(funcs['performCommands'])
    facts['dispatch'][dialect] = pc
    lines, shapes = [], []
    for const, (name, handler) in STMT.items():
        if const not in consts:
            raise Tie(f'{dialect}: statement constant {const} missing')
        if handler not in funcs:
            raise Tie(f'{dialect}: handler {handler} missing')
        body = funcs[handler]
        # prepared statements: check that performCommands prepares this constant for this handler
        toks = tokenize(consts[const])
        st = Parser(toks).statement()
        args = handler_args(handler, body, const, structs, dialect)
        facts['statements'].append(dict(dialect=dialect, const=const, handler=handler,
                                        args=[a if isinstance(a, str) else a.src for a in args], shape=shape_of(st)))
        lines += emit_statement(name, st, handler, args, structs, dialect, facts)
        shapes.append((name, shape_of(st)))
    # prepared-statement wiring
    wiring = []
    for kind in sorted(pc):
        wiring.append((kind, pc[kind]['handler'] + '(' + ','.join(pc[kind]['stmts']) + ')'))
    return lines, shapes, wiring


SQLDEFS_FIELDS = None


def main():
    repo, types_path, out_path = sys.argv[1], sys.argv[2], sys.argv[3]
    facts_path = sys.argv[sys.argv.index('--facts') + 1] if '--facts' in sys.argv else None
    structs = parse_lean_structs(types_path)
    facts = dict(defaults={}, uniques={}, dispatch={}, statements=[])
    out = ['-- GENERATED by translate/sql2lean.py from /repo — do not edit.',
           'import Resonate.Model.SqlDefs',
           'set_option linter.unusedVariables false',
           'namespace Resonate.Gen', '']
    errors = []
    for dialect, rel, ns in (('sqlite', 'internal/app/subsystems/aio/store/sqlite/sqlite.go', 'Sqlite'),
                             ('pg', 'internal/app/subsystems/aio/store/postgres/postgres.go', 'Pg')):
        src = open(f'{repo}/{rel}').read()
        try:
            lines, shapes, wiring = translate_dialect(src, dialect, structs, facts)
        except Tie as e:
            errors.append(f'{dialect}: {e}')
            continue
        out.append(f'namespace {ns}')
        out += lines
        out.append('def shape : List (String × String) := [')
        out.append(',\n'.join(f'  ("{n}", "{s}")' for n, s in shapes))
        out.append(']')
        out.append('def wiring : List (String × String) := [')
        out.append(',\n'.join(f'  ("{n}", "{s}")' for n, s in wiring))
        out.append(']')
        u = facts['uniques'][dialect]
        out.append('def uniques : List (String × List String) := [')
        out.append(',\n'.join('  ("%s", [%s])' % (t, ', '.join(f'"{c}"' for c in u[t])) for t in sorted(u)))
        out.append(']')
        names = [m.group(1) for l in lines for m in [re.match(r'def (\w+) ', l)] if m] + ['shape', 'wiring', 'uniques']
        out.append('def defs : SqlDefs := {')
        out.append(',\n'.join(f'  {n} := {n}' for n in names))
        out.append('}')
        out.append(f'end {ns}')
        out.append('')
    out.append('end Resonate.Gen')
    if facts_path:
        json.dump(dict(errors=errors, **facts), open(facts_path, 'w'), indent=1, sort_keys=True)
    if errors:
        for e in errors:
            print('TIE-BROKEN sql2lean:', e)
        sys.exit(2)
    open(out_path, 'w').write('\n'.join(out) + '\n')


if __name__ == '__main__':
    main()
