#!/usr/bin/env python3
"""Writes MANIFEST.json from checklib/props.py + manifest_meta.json (level texts, hooks)."""
import json, os, sys
ROOT = os.path.dirname(os.path.abspath(__file__))
sys.path.insert(0, os.path.join(ROOT, 'checklib'))
from props import PROPS
meta = json.load(open(os.path.join(ROOT, 'manifest_meta.json')))
ids = [json.loads(l)['id'] for l in open(os.path.join(ROOT, 'properties.jsonl'))]
checks, na = [], []
for pid in ids:
    if pid in PROPS and pid in meta['checks']:
        m = meta['checks'][pid]
        checks.append(dict(property_id=pid, quick_cmd=f'./check {pid} quick', thorough_cmd=f'./check {pid} thorough',
                           evidence_file=f'/verif/evidence/{pid}.json', replay_cmd_template=f'./check {pid} --replay {{path}}',
                           engine='lean-proof+correspondence',
                           level_claimed=dict(category='proof', text=m['text'], design_ref=m.get('design_ref', 'DESIGN.md §6')),
                           level_note=m['note'], technique=m['technique']))
    else:
        na.append(dict(property_id=pid, reason=meta['not_applicable'].get(pid, 'check not built yet in this session; no claim made')))
man = dict(version=1, setup_cmd='./check setup', hooks=meta['hooks'],
           engines=[dict(name='lean-proof+correspondence', path='/verif/check', serves_properties=[c['property_id'] for c in checks],
                         kind_free_text='Lean 4 theorems over a model regenerated from /repo (sql2lean, gofacts) + Go correspondence harnesses driving the real code and the model driver on the same inputs')],
           checks=checks, notes=meta['notes'], not_applicable=na)
json.dump(man, open(os.path.join(ROOT, 'MANIFEST.json'), 'w'), indent=1)
print(f'{len(checks)} checks, {len(na)} not claimed')
