#!/bin/bash
# usage: tools_commit.sh "<message>"  — commits /verif only if /repo is clean, the manifest and every evidence file validate and no evidence file records a violation
set -e
cd /verif
test -z "$(git -C /repo status --short)" || { echo "/repo is not clean"; exit 1; }
python3 gen_manifest.py >/dev/null
python3-vt - <<'PY'
import json,jsonschema,glob
s=json.load(open('/root/.vp/EVIDENCE.schema.json'))
for f in sorted(glob.glob('/verif/evidence/*.json')):
    e=json.load(open(f)); jsonschema.validate(e,s); assert e['violations']==0,(f,e['violations'])
jsonschema.validate(json.load(open('/verif/MANIFEST.json')),json.load(open('/root/.vp/MANIFEST.schema.json')))
PY
git add -A
git commit -qm "$1" && echo committed
