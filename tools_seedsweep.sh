#!/bin/bash
# usage: tools_seedsweep.sh <seeds...>   runs every quick check on the unchanged tree under each VERIF_SEED; one line per (seed, id)
for seed in "$@"; do
  for id in C01 C02 C03 C04 C05 C06 C07 C08 C09 C10 C11 C12 C13 C14 C15 C16 C17 C18 C19 C20; do
    VERIF_SEED=$seed timeout 3000 ./check $id quick > /tmp/sw-$seed-$id.log 2>&1
    echo "seed=$seed $id rc=$? $(grep -c VIOLATION /tmp/sw-$seed-$id.log)" >> /tmp/sweep-summary.log
  done
done
