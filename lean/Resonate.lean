import Resonate.Model.Types
import Resonate.Model.SqlPrims
import Resonate.Model.SqlDefs
import Resonate.Generated.Sql
import Resonate.Model.Store
