/-
  Proofs/ResolveLemmas.lean — the scanner accepts what the encoder writes (strings), so that the sender reads
  back the logical name the router stored.
-/
import Resonate.Model.Resolve
import Resonate.Proofs.JsonRoundTrip
namespace Resonate.JsonScan
open Resonate.Json

theorem isHex_hexDigit (d : Nat) (h : d < 16) : isHex (hexDigit d) = true := by
  have := hexVal_hexDigit ⟨d, h⟩
  simp only at this
  simp [isHex, this]

theorem strRest_encChar (c : Char) (rest : List Char) : strRest (encChar c ++ rest) = strRest rest := by
  unfold encChar
  split
  · simp [strRest]
  · split
    · simp [strRest]
    · split
      · simp [strRest]
      · split
        · simp [strRest]
        · split
          · simp [strRest]
          · split
            · simp [strRest]
            · split
              · simp [strRest]
              · split
                · simp only [hex4, List.cons_append, List.nil_append, strRest,
                    isHex_hexDigit _ (Nat.mod_lt _ (by decide : 16 > 0)), Bool.and_self, if_true]
                · rename_i h1 h2 h3 h4 h5 h6 h7 h8
                  have hq : c ≠ '"' := by simpa using h1
                  have hb : c ≠ '\\' := by simpa using h2
                  have hge : ¬ c.toNat < 0x20 := by
                    intro hlt; apply h8; simp [needsU]; left; left; left; left; left; exact hlt
                  simp only [List.singleton_append]
                  rw [strRest.eq_def]
                  split
                  · rename_i heq; cases heq
                  · rename_i r heq; injection heq with hh _; exact absurd hh hq
                  · rename_i a b cc dd r heq; injection heq with hh _; exact absurd hh hb
                  · rename_i e r _ heq; injection heq with hh _; exact absurd hh hb
                  · rename_i c' r' _ _ _ heq
                    injection heq with hh ht; subst hh; subst ht
                    simp [hge]

theorem strRest_encBody (cs rest : List Char) : strRest (encBody cs ++ '"' :: rest) = some rest := by
  induction cs with
  | nil => simp [encBody, strRest]
  | cons c cs ih =>
    have : encBody (c :: cs) ++ '"' :: rest = encChar c ++ (encBody cs ++ '"' :: rest) := by simp [encBody]
    rw [this, strRest_encChar, ih]

/-- an encoded string is one valid JSON value of kind string -/
theorem topKind_encStr (s : List Char) : topKind (encStr s) = some .str := by
  have h : strRest (encBody s ++ ['"']) = some [] := strRest_encBody s []
  simp [topKind, encStr, skipWs, isWs, scanValue, h]

end Resonate.JsonScan
