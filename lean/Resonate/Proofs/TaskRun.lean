/-
  Proofs/TaskRun.lean — the task discipline of C07 in EVERY reachable state (Proofs/TaskInv.lean proves it per well-formed
  transaction; this file lifts it to the kernel model through Proofs/WInv.lean).

  Invariant carried along every run: every stored task has a state the store writes (`LegalTasks`), and the task table
  has only moved forward since the start (`TaskMono`: tasks never disappear, counters never decrease, a finished task
  never changes, a claimed task changes holder only through a counter bump).  The lease sweep is the one coroutine whose
  update is disciplined only because of what it READ (it guards by the state it read), so completions are tracked as
  well (`LegalCpl`: every task row in a store result has a legal state).
-/
import Resonate.Proofs.AllYieldsT
import Resonate.Properties.C08
namespace Resonate
open SqlSpec WInv

def LegalTasks (db : Db) : Prop := ∀ r ∈ db.tasks, legalTask r.state = true

theorem legal_of_wfUpdate (c : UpdateTaskCmd) (h : wfUpdateTask c = true) : legalTask c.state = true := by
  simp only [wfUpdateTask, Bool.and_eq_true, Bool.or_eq_true, beq_iff_eq] at h
  simp only [legalTask, Bool.or_eq_true, beq_iff_eq]
  rcases h.2 with h1 | h1
  · simp [h1.2]
  · rcases h1.2 with (h2 | h2) | h2
    · simp [h2]
    · simp [h2]
    · rcases h2.1 with (h3 | h3) | h3 <;> simp [h3]

theorem legalTasks_updateWhere (p : TaskRow → Bool) (f : TaskRow → TaskRow) (l : List TaskRow)
    (hf : ∀ r, legalTask r.state = true → p r = true → legalTask (f r).state = true)
    (h : ∀ r ∈ l, legalTask r.state = true) : ∀ r ∈ updateWhere p f l, legalTask r.state = true := by
  intro r hr
  rw [mem_updateWhere] at hr
  obtain ⟨x, hx, h1 | h1⟩ := hr
  · rw [h1.2]; exact hf x (h x hx) h1.1
  · rw [h1.2]; exact h x hx

variable (d : Dialect)

/-- one command of the shape the coroutines emit, on a database with legal task states: the states stay legal and every
    task row it returns has a legal state -/
theorem exec_legal (db db' : Db) (c : Cmd) (r : Res) (hl : LegalTasks db) (hc : cmdUOk c)
    (h : db.exec (defs d) c = .ok (db', r)) : LegalTasks db' ∧ LegalRes r := by
  by_cases hw : c.wT = false
  · -- the task table is not written
    have ht : db'.tasks = db.tasks := ((exec_frame _ _ _ _ _ h).2.2.2.2 hw).1
    refine ⟨by intro x hx; rw [ht] at hx; exact hl x hx, ?_⟩
    cases c <;> simp only [Db.exec] at h <;> (try (simp [Cmd.wT] at hw))
    case readTask c =>
      injection h with h; injection h with _ h; subst h
      intro x hx
      simp only [List.mem_map] at hx
      obtain ⟨y, hy, rfl⟩ := hx
      have := hl y (List.mem_filter.mp (List.mem_of_mem_take hy)).1
      simpa [defs, taskSelect_proj] using this
    case readTasks c =>
      split at h
      · cases h
      · injection h with h; injection h with _ h; subst h
        intro x hx
        simp only [List.mem_map] at hx
        obtain ⟨y, hy, rfl⟩ := hx
        have hy2 := (List.mem_filter.mp (List.mem_mergeSort.mp (mem_takeLimit _ _ _ hy))).1
        simpa [defs, taskSelectAll_proj] using hl y hy2
    case readEnqueueableTasks c =>
      injection h with h; injection h with _ h; subst h
      intro x hx
      simp only [List.mem_map] at hx
      obtain ⟨y, hy, rfl⟩ := hx
      have hy1 := mem_takeLimit _ _ _ hy
      have hy2 := (C08.firstPerRoot_one_per_root _ _ (Nat.le_refl _)).2 y hy1
      have hy3 := (List.mem_filter.mp (List.mem_mergeSort.mp hy2)).1
      simpa [defs, taskSelectEnqueueable_proj] using hl y hy3
    all_goals (first
      | (split at h <;> (first | cases h | (injection h with h; injection h with _ h; subst h; trivial)))
      | (injection h with h; injection h with _ h; subst h; trivial)
      | skip)
    all_goals (try trivial)
  · -- the six commands that write tasks
    have hw' : c.wT = true := by simpa using hw
    cases c <;> simp [Cmd.wT] at hw'
    case createTask c =>
      simp only [Db.exec] at h
      cases hct : db.createTask (defs d) c with
      | error e => simp [hct] at h
      | ok p =>
        obtain ⟨db2, n⟩ := p
        simp only [hct] at h
        injection h with h; injection h with h1 h2; subst h1; subst h2
        refine ⟨?_, trivial⟩
        unfold Db.createTask at hct
        split at hct
        · cases hct
        · rename_i hst
          split at hct
          · cases hct
          · split at hct
            · injection hct with hct; injection hct with hct _; subst hct; exact hl
            · injection hct with hct; injection hct with hct _; subst hct
              intro x hx
              simp only [List.mem_append, List.mem_singleton] at hx
              rcases hx with hx | rfl
              · exact hl x hx
              · simp only [Bool.not_eq_true', Bool.not_eq_false, Bool.or_eq_true, beq_iff_eq] at hst
                rcases hst with hs | hs <;> simp [defs, taskInsert_row, legalTask, hs]
    case createTasks c =>
      simp only [Db.exec] at h
      split at h
      · rename_i ts s n hins
        injection h with h; injection h with h1 h2; subst h1; subst h2
        refine ⟨?_, trivial⟩
        obtain ⟨_, rows, hts, hf⟩ := C05.insertTasksFrom_ok _ _ _ _ _ _ _ _ hins
        intro x hx
        rw [hts] at hx
        rcases List.mem_append.mp hx with hx | hx
        · exact hl x hx
        · -- a new row is `taskInsertAll_row …`: state init
          have : ∀ (cbs : List CallbackRow) (rows : List TaskRow),
              Forall2 (fun cb row => ∃ k, row = (defs d).taskInsertAll_row c cb k) cbs rows → ∀ y ∈ rows, legalTask y.state = true := by
            intro cbs rows hf
            induction hf with
            | nil => intro y hy; cases hy
            | cons hab _ ih =>
              intro y hy
              rcases List.mem_cons.mp hy with rfl | hy
              · obtain ⟨k, rfl⟩ := hab; simp [defs, taskInsertAll_row, legalTask]
              · exact ih y hy
          exact this _ _ hf x hx
      · cases h
    case completeTasks c =>
      simp only [Db.exec] at h
      injection h with h; injection h with h1 h2; subst h1; subst h2
      exact ⟨legalTasks_updateWhere _ _ _ (by intro r _ _; simp [defs, taskCompleteByRootId_set, legalTask]) hl, trivial⟩
    case updateTask c =>
      simp only [Db.exec] at h
      split at h
      · cases h
      · injection h with h; injection h with h1 h2; subst h1; subst h2
        have hs := legal_of_wfUpdate c hc
        exact ⟨legalTasks_updateWhere _ _ _ (by intro r _ _; simpa [defs, taskUpdate_set] using hs) hl, trivial⟩
    case heartbeatTasks c =>
      simp only [Db.exec] at h
      injection h with h; injection h with h1 h2; subst h1; subst h2
      exact ⟨legalTasks_updateWhere _ _ _ (by intro r hr _; simpa [defs, taskHeartbeat_set] using hr) hl, trivial⟩
    case createPromiseAndTask c =>
      simp only [Db.exec] at h
      have f1 := createPromise_frame (defs d) db c.promiseCommand
      split at h
      · injection h with h; injection h with h1 h2; subst h1; subst h2
        exact ⟨by intro x hx; rw [f1.2.2.2.1] at hx; exact hl x hx, trivial⟩
      · cases hct : (db.createPromise (defs d) c.promiseCommand).1.createTask (defs d) c.taskCommand with
        | error e => simp [hct] at h
        | ok p =>
          obtain ⟨db2, m⟩ := p
          simp only [hct] at h
          injection h with h; injection h with h1 h2; subst h1; subst h2
          refine ⟨?_, trivial⟩
          unfold Db.createTask at hct
          split at hct
          · cases hct
          · rename_i hst
            split at hct
            · cases hct
            · split at hct
              · injection hct with hct; injection hct with hct _; subst hct
                intro x hx; rw [f1.2.2.2.1] at hx; exact hl x hx
              · injection hct with hct; injection hct with hct _; subst hct
                intro x hx
                simp only [List.mem_append, List.mem_singleton] at hx
                rcases hx with hx | rfl
                · rw [f1.2.2.2.1] at hx; exact hl x hx
                · simp only [Bool.not_eq_true', Bool.not_eq_false, Bool.or_eq_true, beq_iff_eq] at hst
                  rcases hst with hs | hs <;> simp [defs, taskInsert_row, legalTask, hs]

theorem execTx_legal : ∀ (cs : List Cmd) (db db' : Db) (rs : List Res), LegalTasks db → UOk cs →
    db.execTx (defs d) cs = .ok (db', rs) → LegalTasks db' ∧ ∀ r ∈ rs, LegalRes r := by
  intro cs
  induction cs with
  | nil => intro db db' rs hl _ h; simp [Db.execTx] at h; obtain ⟨h1, h2⟩ := h; subst h1; subst h2; exact ⟨hl, by intro r hr; cases hr⟩
  | cons c cs ih =>
    intro db db' rs hl hu h
    obtain ⟨db1, r1, rs1, e1, x1, hr⟩ := execTx_cons_ok _ _ _ _ _ _ h
    have h1 := exec_legal d db db1 c r1 hl (hu c (List.mem_cons_self ..)) e1
    have h2 := ih db1 db' rs1 h1.1 (fun x hx => hu x (List.mem_cons_of_mem _ hx)) x1
    refine ⟨h2.1, ?_⟩
    rw [hr]
    intro r hrm
    rcases List.mem_cons.mp hrm with rfl | hm
    · exact h1.2
    · exact h2.2 r hm

/-- block structure + disciplined task updates = the full well-formedness `TaskMono` was proved for -/
theorem wfCmds_of_core_uok : ∀ (cs : List Cmd), wfCore cs = true → UOk cs → wfCmds cs = true := by
  intro cs
  induction cs using wfCmdsP.induct with
  | case1 => intro _ _; rfl
  | case2 c ct cr dc rest ih =>
    intro h hu
    simp only [wfCmds, wfCore, wfCmdsP, Bool.and_eq_true] at *
    exact ⟨h.1, ih h.2 (fun x hx => hu x (by simp [hx]))⟩
  | case3 c tail hne => intro h; simp [wfCore, wfCmdsP] at h
  | case4 | case5 | case6 | case7 => intro h; simp [wfCore, wfCmdsP] at h
  | case8 c rest ih =>
    intro h hu
    simp only [wfCmds, wfCore, wfCmdsP, Bool.and_eq_true, true_and] at *
    exact ⟨hu (.updateTask c) (List.mem_cons_self ..), ih h (fun x hx => hu x (List.mem_cons_of_mem _ hx))⟩
  | case9 c rest ih =>
    intro h hu
    simp only [wfCmds, wfCore, wfCmdsP, Bool.and_eq_true] at *
    exact ⟨h.1, ih h.2 (fun x hx => hu x (List.mem_cons_of_mem _ hx))⟩
  | case10 c rest h0 h1 h2 h3 h4 h5 h6 h7 ih =>
    intro h hu
    have hw : wfCmdsP (fun _ => true) rest = true := by cases c <;> simp_all [wfCore, wfCmdsP]
    have : wfCmdsP wfUpdateTask (c :: rest) = wfCmdsP wfUpdateTask rest := by cases c <;> simp_all [wfCmdsP]
    simp only [wfCmds, this]
    exact ih hw (fun x hx => hu x (List.mem_cons_of_mem _ hx))

/-- the shape of every transaction the coroutines yield, and the invariant carried along every run -/
def WT (tx : List Cmd) : Prop := WfC tx ∧ UOk tx
def TI (db0 db : Db) : Prop := LegalTasks db ∧ TaskMono db0 db

theorem ti_step (db0 db db' : Db) (tx : List Cmd) (rs : List Res) (hi : TI db0 db) (hw : WT tx)
    (h : db.execTx (defs d) tx = .ok (db', rs)) : TI db0 db' ∧ LegalCpl (.store rs) := by
  have hl := execTx_legal d tx db db' rs hi.1 hw.2 h
  exact ⟨⟨hl.1, hi.2.trans (taskMono_wfCmds d tx db db' rs (wfCmds_of_core_uok tx hw.1.1 hw.2) h)⟩, hl.2⟩

theorem wt_bg (env : Env) (k : BgKind) (t : Time) : AllYieldsL WT LegalCpl (k.body env t) :=
  AllYieldsL.and (AllYields.toL (ay_bg env k t)) (au_bg env k t)

theorem wt_req (env : Env) (r : Req) (t0 t : Time) (h : r.StateOk) : AllYieldsL WT LegalCpl (r.body env t0 t) :=
  AllYieldsL.and (AllYields.toL (ay_req env r t0 t h)) (AllYields.toL (au_req env r t0 t))

/-- **every reachable state**: from a server booted over a database with legal task states, along ANY run in which
    submitted requests passed the front ends' state validation (router / sender completions are always legal: they
    carry no task rows), the task table has legal states and has only moved forward since the start -/
theorem task_discipline_every_run (env : Env) (db0 : Db) (h0 : LegalTasks db0) (cs : List Choice)
    (hcs : ∀ c ∈ cs, ChoiceOk LegalCpl c) :
    WInv.SysInv WT LegalCpl (TI db0) ((Sys.boot env d (defs d) db0).run cs) := by
  refine WInv.sysInv_run (TI db0) (by trivial) wt_bg wt_req cs _ (WInv.sysInv_boot (TI db0) env d (defs d) db0 ⟨h0, TaskMono.refl db0⟩) hcs ?_
  intro db db' tx rs hi hw hx
  exact ti_step d db0 db db' tx rs hi hw hx

/-- … and between ANY two states along the run -/
theorem task_discipline_between (env : Env) (db0 : Db) (h0 : LegalTasks db0) (cs1 cs2 : List Choice)
    (h1 : ∀ c ∈ cs1, ChoiceOk LegalCpl c) (h2 : ∀ c ∈ cs2, ChoiceOk LegalCpl c) :
    TaskMono ((Sys.boot env d (defs d) db0).run cs1).db ((Sys.boot env d (defs d) db0).run (cs1 ++ cs2)).db := by
  have hs1 := task_discipline_every_run d env db0 h0 cs1 h1
  rw [run_append]
  have hg : ((Sys.boot env d (defs d) db0).run cs1).g = defs d := by rw [run_g]; rfl
  have hs1' : WInv.SysInv WT LegalCpl (TI ((Sys.boot env d (defs d) db0).run cs1).db) ((Sys.boot env d (defs d) db0).run cs1) :=
    ⟨⟨hs1.db.1, TaskMono.refl _⟩, hs1.pending, hs1.threads, hs1.apiQ, hs1.cq⟩
  have := WInv.sysInv_run (TI ((Sys.boot env d (defs d) db0).run cs1).db) (by trivial) wt_bg wt_req cs2 _ hs1' h2
    (by intro db db' tx rs hi hw hx; rw [hg] at hx; exact ti_step d _ db db' tx rs hi hw hx)
  exact this.db.2

end Resonate
