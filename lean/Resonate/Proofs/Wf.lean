/-
  Proofs/Wf.lean — the shape of the transactions the coroutines yield (the *guarantee* side of the
  rely/guarantee argument, DESIGN §3.4).  `wfTx` is a decidable, executable predicate; that every
  transaction any coroutine can ever yield satisfies it is proved in Proofs/AllYields.lean, and the
  correspondence harness compares every transaction the real coroutines dispatch with the model's.
-/
import Resonate.Proofs.Lift
import Resonate.Proofs.StoreBasics
namespace Resonate

def taskStateActive (s : Nat) : Bool := s == 1 || s == 2 || s == 4

/-- an `UpdateTask` as the coroutines build it: guarded on live states only; either the counter is
    bumped by one (lease expiry → back to init), or it is kept and the task does not move backwards:
    it finishes (8/16), or it is (re)dispatched / claimed from an unclaimed state (4 ∉ guard). -/
def wfUpdateTask (c : UpdateTaskCmd) : Bool :=
  !c.currentStates.isEmpty && c.currentStates.all taskStateActive &&
  ((c.counter == c.currentCounter + 1 && c.state == 1) ||
   (c.counter == c.currentCounter &&
     (c.state == 8 || c.state == 16 || ((c.state == 1 || c.state == 2 || c.state == 4) && !c.currentStates.contains 4))))

def wfPromiseAndTask (c : CreatePromiseAndTaskCmd) : Bool :=
  c.taskCommand.mesg.root == c.promiseCommand.id &&
  (c.taskCommand.state == 1 || (c.taskCommand.state == 4 && c.taskCommand.processId.isSome))

/-- well-formed command list: `UpdatePromise id` only as the head of the completion block
    `[UpdatePromise id, CompleteTasks id, CreateTasks id, DeleteCallbacks id]`; the three followers and
    a bare `CreateTask` never on their own. -/
def wfCmdsP (pU : UpdateTaskCmd → Bool) : List Cmd → Bool
  | [] => true
  | .updatePromise c :: .completeTasks ct :: .createTasks cr :: .deleteCallbacks dc :: rest =>
      promiseStateOk c.state && ct.rootPromiseId == c.id && cr.promiseId == c.id && dc.promiseId == c.id && wfCmdsP pU rest
  | .updatePromise _ :: _ => false
  | .completeTasks _ :: _ => false
  | .createTasks _ :: _ => false
  | .deleteCallbacks _ :: _ => false
  | .createTask _ :: _ => false
  | .updateTask c :: rest => pU c && wfCmdsP pU rest
  | .createPromiseAndTask c :: rest => wfPromiseAndTask c && wfCmdsP pU rest
  | _ :: rest => wfCmdsP pU rest

/-- full well-formedness (block structure + disciplined task updates) -/
abbrev wfCmds : List Cmd → Bool := wfCmdsP wfUpdateTask
/-- block structure only (what the promise / callback invariants need) -/
abbrev wfCore : List Cmd → Bool := wfCmdsP (fun _ => true)

def wfTx (tx : List Cmd) : Bool := !tx.isEmpty && wfCmds tx

theorem wfCore_of_wfCmds : ∀ cs, wfCmds cs = true → wfCore cs = true := by
  intro cs
  induction cs using wfCmdsP.induct with
  | case1 => intro _; rfl
  | case2 c ct cr dc rest ih => intro h; simp only [wfCmds, wfCore, wfCmdsP, Bool.and_eq_true] at *; exact ⟨h.1, ih h.2⟩
  | case3 c tail hne => intro h; simp [wfCmds, wfCmdsP] at h
  | case4 | case5 | case6 | case7 => intro h; simp [wfCmds, wfCmdsP] at h
  | case8 c rest ih => intro h; simp only [wfCmds, wfCore, wfCmdsP, Bool.and_eq_true] at *; exact ⟨trivial, ih h.2⟩
  | case9 c rest ih => intro h; simp only [wfCmds, wfCore, wfCmdsP, Bool.and_eq_true] at *; exact ⟨h.1, ih h.2⟩
  | case10 c rest h0 h1 h2 h3 h4 h5 h6 h7 ih =>
    intro h
    have hw : wfCmdsP wfUpdateTask rest = true := by cases c <;> simp_all [wfCmds, wfCmdsP]
    have : wfCmdsP (fun _ => true) (c :: rest) = wfCmdsP (fun _ => true) rest := by cases c <;> simp_all [wfCmdsP]
    simp only [wfCore, this]; exact ih hw

/-- command kinds that may appear anywhere in a well-formed transaction -/
def Cmd.free : Cmd → Bool
  | .updatePromise _ | .completeTasks _ | .createTasks _ | .deleteCallbacks _ | .createTask _
  | .updateTask _ | .createPromiseAndTask _ => false
  | _ => true

theorem execTx_cons_ok (g : SqlDefs) (db db' : Db) (c : Cmd) (cs : List Cmd) (rs : List Res)
    (h : db.execTx g (c :: cs) = .ok (db', rs)) :
    ∃ db1 r rs', db.exec g c = .ok (db1, r) ∧ db1.execTx g cs = .ok (db', rs') ∧ rs = r :: rs' := by
  simp only [Db.execTx] at h
  cases h1 : db.exec g c with
  | error e => simp [h1] at h
  | ok p =>
    obtain ⟨db1, r⟩ := p
    simp only [h1] at h
    cases h2 : db1.execTx g cs with
    | error e => simp [h2] at h
    | ok q =>
      obtain ⟨db2, rs2⟩ := q
      simp only [h2] at h
      injection h with h; injection h with hd hr
      subst hd; subst hr
      exact ⟨db1, r, rs2, rfl, h2, rfl⟩

/-- **Schema.**  An invariant `I` is preserved by every well-formed transaction as soon as it is
    preserved (a) by the completion block as a unit, (b) by a well-formed `UpdateTask`, (c) by a
    well-formed `CreatePromiseAndTask`, (d) by every free command. -/
theorem wfCmdsP_inv (pU : UpdateTaskCmd → Bool) (g : SqlDefs) (I : Db → Prop)
    (hblock : ∀ db db' (c : UpdatePromiseCmd) (t1 t2 : Int) (rs : List Res), I db → promiseStateOk c.state = true →
        db.execTx g [.updatePromise c, .completeTasks ⟨c.id, t1⟩, .createTasks ⟨c.id, t2⟩, .deleteCallbacks ⟨c.id⟩] = .ok (db', rs) → I db')
    (hupd : ∀ db db' (c : UpdateTaskCmd) r, I db → pU c = true → db.exec g (.updateTask c) = .ok (db', r) → I db')
    (hpt : ∀ db db' (c : CreatePromiseAndTaskCmd) r, I db → wfPromiseAndTask c = true → db.exec g (.createPromiseAndTask c) = .ok (db', r) → I db')
    (hfree : ∀ db db' (c : Cmd) r, I db → c.free = true → db.exec g c = .ok (db', r) → I db') :
    ∀ (cs : List Cmd) (db db' : Db) (rs : List Res), I db → wfCmdsP pU cs = true → db.execTx g cs = .ok (db', rs) → I db' := by
  intro cs
  induction cs using wfCmdsP.induct with
  | case1 => intro db db' rs hi _ h; simp [Db.execTx] at h; rw [← h.1]; exact hi
  | case2 c ct cr dc rest ih =>
    intro db db' rs hi hw h
    simp only [wfCmdsP, Bool.and_eq_true, beq_iff_eq] at hw
    obtain ⟨⟨⟨⟨hs, h1⟩, h2⟩, h3⟩, hrest⟩ := hw
    obtain ⟨db1, r1, rs1, e1, x1, _⟩ := execTx_cons_ok g _ _ _ _ _ h
    obtain ⟨db2, r2, rs2, e2, x2, _⟩ := execTx_cons_ok g _ _ _ _ _ x1
    obtain ⟨db3, r3, rs3, e3, x3, _⟩ := execTx_cons_ok g _ _ _ _ _ x2
    obtain ⟨db4, r4, rs4, e4, x4, _⟩ := execTx_cons_ok g _ _ _ _ _ x3
    have hb : db.execTx g [.updatePromise c, .completeTasks ⟨c.id, ct.completedOn⟩, .createTasks ⟨c.id, cr.createdOn⟩, .deleteCallbacks ⟨c.id⟩]
        = .ok (db4, [r1, r2, r3, r4]) := by
      have ect : (⟨c.id, ct.completedOn⟩ : CompleteTasksCmd) = ct := by cases ct; simp_all
      have ecr : (⟨c.id, cr.createdOn⟩ : CreateTasksCmd) = cr := by cases cr; simp_all
      have edc : (⟨c.id⟩ : DeleteCallbacksCmd) = dc := by cases dc; simp_all
      rw [ect, ecr, edc]
      simp [Db.execTx, e1, e2, e3, e4]
    exact ih db4 db' rs4 (hblock db db4 c _ _ _ hi hs hb) hrest x4
  | case3 c tail hne =>
    intro db db' rs hi hw h
    exfalso
    rcases tail with _ | ⟨a, tail⟩
    · simp [wfCmdsP] at hw
    · cases a <;> try (simp [wfCmdsP] at hw; done)
  | case4 | case5 | case6 | case7 => intro db db' rs hi hw h; simp [wfCmdsP] at hw
  | case8 c rest ih =>
    intro db db' rs hi hw h
    simp only [wfCmdsP, Bool.and_eq_true] at hw
    obtain ⟨db1, r1, rs1, e1, x1, _⟩ := execTx_cons_ok g _ _ _ _ _ h
    exact ih db1 db' rs1 (hupd db db1 c r1 hi hw.1 e1) hw.2 x1
  | case9 c rest ih =>
    intro db db' rs hi hw h
    simp only [wfCmdsP, Bool.and_eq_true] at hw
    obtain ⟨db1, r1, rs1, e1, x1, _⟩ := execTx_cons_ok g _ _ _ _ _ h
    exact ih db1 db' rs1 (hpt db db1 c r1 hi hw.1 e1) hw.2 x1
  | case10 c rest h0 h1 h2 h3 h4 h5 h6 h7 ih =>
    intro db db' rs hi hw h
    have hf : c.free = true := by
      cases c <;> simp_all [Cmd.free]
    have hw' : wfCmdsP pU rest = true := by
      cases c <;> simp_all [wfCmdsP]
    obtain ⟨db1, r1, rs1, e1, x1, _⟩ := execTx_cons_ok g _ _ _ _ _ h
    exact ih db1 db' rs1 (hfree db db1 c r1 hi hf e1) hw' x1

end Resonate
