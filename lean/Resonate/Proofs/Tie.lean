/-
  Proofs/Tie.lean — THE REGENERATED TIE.  One theorem per generated definition and dialect:
  what translate/sql2lean.py produced from /repo's SQL text and handler argument lists on this run
  equals the hand-stated specification in Model/SqlSpec.lean.  A change to a guard, an assignment,
  a column list, a default, an argument order or a conflict clause in either back end changes
  Generated/Sql.lean and the corresponding theorem stops checking.
-/
import Resonate.Model.SqlSpec
import Resonate.Generated.Sql
namespace Resonate.Tie
open Resonate

/-- closes `generated = specified`: by definitional unfolding when the texts agree, otherwise by
    extensionality + boolean/arith normalisation (harmless reorderings of conjuncts and the like). -/
macro "tie_tac" : tactic =>
  `(tactic| first
    | rfl
    | (funext a b; simp (config := {decide := true}) [Bool.and_comm, Bool.and_assoc, Bool.and_left_comm, Bool.or_comm]; done)
    | (funext a b c; simp (config := {decide := true}) [Bool.and_comm, Bool.and_assoc, Bool.and_left_comm, Bool.or_comm]; done)
    | (funext a; simp (config := {decide := true}); done))

theorem sqlite_promiseSelect_where : Gen.Sqlite.promiseSelect_where = (SqlSpec.defs .sqlite).promiseSelect_where := by tie_tac
theorem sqlite_promiseSelect_proj : Gen.Sqlite.promiseSelect_proj = (SqlSpec.defs .sqlite).promiseSelect_proj := by tie_tac
theorem sqlite_promiseSelectAll_where : Gen.Sqlite.promiseSelectAll_where = (SqlSpec.defs .sqlite).promiseSelectAll_where := by tie_tac
theorem sqlite_promiseSelectAll_proj : Gen.Sqlite.promiseSelectAll_proj = (SqlSpec.defs .sqlite).promiseSelectAll_proj := by tie_tac
theorem sqlite_promiseSelectAll_limit : Gen.Sqlite.promiseSelectAll_limit = (SqlSpec.defs .sqlite).promiseSelectAll_limit := by tie_tac
theorem sqlite_promiseSearch_where : Gen.Sqlite.promiseSearch_where = (SqlSpec.defs .sqlite).promiseSearch_where := by tie_tac
theorem sqlite_promiseSearch_proj : Gen.Sqlite.promiseSearch_proj = (SqlSpec.defs .sqlite).promiseSearch_proj := by tie_tac
theorem sqlite_promiseSearch_limit : Gen.Sqlite.promiseSearch_limit = (SqlSpec.defs .sqlite).promiseSearch_limit := by tie_tac
theorem sqlite_promiseInsert_row : Gen.Sqlite.promiseInsert_row = (SqlSpec.defs .sqlite).promiseInsert_row := by tie_tac
theorem sqlite_promiseUpdate_where : Gen.Sqlite.promiseUpdate_where = (SqlSpec.defs .sqlite).promiseUpdate_where := by tie_tac
theorem sqlite_promiseUpdate_set : Gen.Sqlite.promiseUpdate_set = (SqlSpec.defs .sqlite).promiseUpdate_set := by tie_tac
theorem sqlite_callbackInsert_row : Gen.Sqlite.callbackInsert_row = (SqlSpec.defs .sqlite).callbackInsert_row := by tie_tac
theorem sqlite_callbackInsert_guard : Gen.Sqlite.callbackInsert_guard = (SqlSpec.defs .sqlite).callbackInsert_guard := by tie_tac
theorem sqlite_callbackDelete_where : Gen.Sqlite.callbackDelete_where = (SqlSpec.defs .sqlite).callbackDelete_where := by tie_tac
theorem sqlite_scheduleSelect_where : Gen.Sqlite.scheduleSelect_where = (SqlSpec.defs .sqlite).scheduleSelect_where := by tie_tac
theorem sqlite_scheduleSelect_proj : Gen.Sqlite.scheduleSelect_proj = (SqlSpec.defs .sqlite).scheduleSelect_proj := by tie_tac
theorem sqlite_scheduleSelectAll_where : Gen.Sqlite.scheduleSelectAll_where = (SqlSpec.defs .sqlite).scheduleSelectAll_where := by tie_tac
theorem sqlite_scheduleSelectAll_proj : Gen.Sqlite.scheduleSelectAll_proj = (SqlSpec.defs .sqlite).scheduleSelectAll_proj := by tie_tac
theorem sqlite_scheduleSelectAll_limit : Gen.Sqlite.scheduleSelectAll_limit = (SqlSpec.defs .sqlite).scheduleSelectAll_limit := by tie_tac
theorem sqlite_scheduleSearch_where : Gen.Sqlite.scheduleSearch_where = (SqlSpec.defs .sqlite).scheduleSearch_where := by tie_tac
theorem sqlite_scheduleSearch_proj : Gen.Sqlite.scheduleSearch_proj = (SqlSpec.defs .sqlite).scheduleSearch_proj := by tie_tac
theorem sqlite_scheduleSearch_limit : Gen.Sqlite.scheduleSearch_limit = (SqlSpec.defs .sqlite).scheduleSearch_limit := by tie_tac
theorem sqlite_scheduleInsert_row : Gen.Sqlite.scheduleInsert_row = (SqlSpec.defs .sqlite).scheduleInsert_row := by tie_tac
theorem sqlite_scheduleUpdate_where : Gen.Sqlite.scheduleUpdate_where = (SqlSpec.defs .sqlite).scheduleUpdate_where := by tie_tac
theorem sqlite_scheduleUpdate_set : Gen.Sqlite.scheduleUpdate_set = (SqlSpec.defs .sqlite).scheduleUpdate_set := by tie_tac
theorem sqlite_scheduleDelete_where : Gen.Sqlite.scheduleDelete_where = (SqlSpec.defs .sqlite).scheduleDelete_where := by tie_tac
theorem sqlite_lockRead_where : Gen.Sqlite.lockRead_where = (SqlSpec.defs .sqlite).lockRead_where := by tie_tac
theorem sqlite_lockRead_proj : Gen.Sqlite.lockRead_proj = (SqlSpec.defs .sqlite).lockRead_proj := by tie_tac
theorem sqlite_lockAcquire_row : Gen.Sqlite.lockAcquire_row = (SqlSpec.defs .sqlite).lockAcquire_row := by tie_tac
theorem sqlite_lockAcquire_conflictWhere : Gen.Sqlite.lockAcquire_conflictWhere = (SqlSpec.defs .sqlite).lockAcquire_conflictWhere := by tie_tac
theorem sqlite_lockAcquire_conflictSet : Gen.Sqlite.lockAcquire_conflictSet = (SqlSpec.defs .sqlite).lockAcquire_conflictSet := by tie_tac
theorem sqlite_lockRelease_where : Gen.Sqlite.lockRelease_where = (SqlSpec.defs .sqlite).lockRelease_where := by tie_tac
theorem sqlite_lockHeartbeat_where : Gen.Sqlite.lockHeartbeat_where = (SqlSpec.defs .sqlite).lockHeartbeat_where := by tie_tac
theorem sqlite_lockHeartbeat_set : Gen.Sqlite.lockHeartbeat_set = (SqlSpec.defs .sqlite).lockHeartbeat_set := by tie_tac
theorem sqlite_lockTimeout_where : Gen.Sqlite.lockTimeout_where = (SqlSpec.defs .sqlite).lockTimeout_where := by tie_tac
theorem sqlite_taskSelect_where : Gen.Sqlite.taskSelect_where = (SqlSpec.defs .sqlite).taskSelect_where := by tie_tac
theorem sqlite_taskSelect_proj : Gen.Sqlite.taskSelect_proj = (SqlSpec.defs .sqlite).taskSelect_proj := by tie_tac
theorem sqlite_taskSelectAll_where : Gen.Sqlite.taskSelectAll_where = (SqlSpec.defs .sqlite).taskSelectAll_where := by tie_tac
theorem sqlite_taskSelectAll_proj : Gen.Sqlite.taskSelectAll_proj = (SqlSpec.defs .sqlite).taskSelectAll_proj := by tie_tac
theorem sqlite_taskSelectAll_limit : Gen.Sqlite.taskSelectAll_limit = (SqlSpec.defs .sqlite).taskSelectAll_limit := by tie_tac
theorem sqlite_taskSelectEnqueueable_where : Gen.Sqlite.taskSelectEnqueueable_where = (SqlSpec.defs .sqlite).taskSelectEnqueueable_where := by tie_tac
theorem sqlite_taskSelectEnqueueable_proj : Gen.Sqlite.taskSelectEnqueueable_proj = (SqlSpec.defs .sqlite).taskSelectEnqueueable_proj := by tie_tac
theorem sqlite_taskSelectEnqueueable_limit : Gen.Sqlite.taskSelectEnqueueable_limit = (SqlSpec.defs .sqlite).taskSelectEnqueueable_limit := by tie_tac
theorem sqlite_taskInsert_row : Gen.Sqlite.taskInsert_row = (SqlSpec.defs .sqlite).taskInsert_row := by tie_tac
theorem sqlite_taskInsertAll_row : Gen.Sqlite.taskInsertAll_row = (SqlSpec.defs .sqlite).taskInsertAll_row := by tie_tac
theorem sqlite_taskInsertAll_where : Gen.Sqlite.taskInsertAll_where = (SqlSpec.defs .sqlite).taskInsertAll_where := by tie_tac
theorem sqlite_taskUpdate_where : Gen.Sqlite.taskUpdate_where = (SqlSpec.defs .sqlite).taskUpdate_where := by tie_tac
theorem sqlite_taskUpdate_set : Gen.Sqlite.taskUpdate_set = (SqlSpec.defs .sqlite).taskUpdate_set := by tie_tac
theorem sqlite_taskCompleteByRootId_where : Gen.Sqlite.taskCompleteByRootId_where = (SqlSpec.defs .sqlite).taskCompleteByRootId_where := by tie_tac
theorem sqlite_taskCompleteByRootId_set : Gen.Sqlite.taskCompleteByRootId_set = (SqlSpec.defs .sqlite).taskCompleteByRootId_set := by tie_tac
theorem sqlite_taskHeartbeat_where : Gen.Sqlite.taskHeartbeat_where = (SqlSpec.defs .sqlite).taskHeartbeat_where := by tie_tac
theorem sqlite_taskHeartbeat_set : Gen.Sqlite.taskHeartbeat_set = (SqlSpec.defs .sqlite).taskHeartbeat_set := by tie_tac
theorem sqlite_shape : Gen.Sqlite.shape = (SqlSpec.defs .sqlite).shape := by decide
theorem sqlite_wiring : Gen.Sqlite.wiring = (SqlSpec.defs .sqlite).wiring := by decide
theorem sqlite_uniques : Gen.Sqlite.uniques = (SqlSpec.defs .sqlite).uniques := by decide
theorem pg_promiseSelect_where : Gen.Pg.promiseSelect_where = (SqlSpec.defs .pg).promiseSelect_where := by tie_tac
theorem pg_promiseSelect_proj : Gen.Pg.promiseSelect_proj = (SqlSpec.defs .pg).promiseSelect_proj := by tie_tac
theorem pg_promiseSelectAll_where : Gen.Pg.promiseSelectAll_where = (SqlSpec.defs .pg).promiseSelectAll_where := by tie_tac
theorem pg_promiseSelectAll_proj : Gen.Pg.promiseSelectAll_proj = (SqlSpec.defs .pg).promiseSelectAll_proj := by tie_tac
theorem pg_promiseSelectAll_limit : Gen.Pg.promiseSelectAll_limit = (SqlSpec.defs .pg).promiseSelectAll_limit := by tie_tac
theorem pg_promiseSearch_where : Gen.Pg.promiseSearch_where = (SqlSpec.defs .pg).promiseSearch_where := by tie_tac
theorem pg_promiseSearch_proj : Gen.Pg.promiseSearch_proj = (SqlSpec.defs .pg).promiseSearch_proj := by tie_tac
theorem pg_promiseSearch_limit : Gen.Pg.promiseSearch_limit = (SqlSpec.defs .pg).promiseSearch_limit := by tie_tac
theorem pg_promiseInsert_row : Gen.Pg.promiseInsert_row = (SqlSpec.defs .pg).promiseInsert_row := by tie_tac
theorem pg_promiseUpdate_where : Gen.Pg.promiseUpdate_where = (SqlSpec.defs .pg).promiseUpdate_where := by tie_tac
theorem pg_promiseUpdate_set : Gen.Pg.promiseUpdate_set = (SqlSpec.defs .pg).promiseUpdate_set := by tie_tac
theorem pg_callbackInsert_row : Gen.Pg.callbackInsert_row = (SqlSpec.defs .pg).callbackInsert_row := by tie_tac
theorem pg_callbackInsert_guard : Gen.Pg.callbackInsert_guard = (SqlSpec.defs .pg).callbackInsert_guard := by tie_tac
theorem pg_callbackDelete_where : Gen.Pg.callbackDelete_where = (SqlSpec.defs .pg).callbackDelete_where := by tie_tac
theorem pg_scheduleSelect_where : Gen.Pg.scheduleSelect_where = (SqlSpec.defs .pg).scheduleSelect_where := by tie_tac
theorem pg_scheduleSelect_proj : Gen.Pg.scheduleSelect_proj = (SqlSpec.defs .pg).scheduleSelect_proj := by tie_tac
theorem pg_scheduleSelectAll_where : Gen.Pg.scheduleSelectAll_where = (SqlSpec.defs .pg).scheduleSelectAll_where := by tie_tac
theorem pg_scheduleSelectAll_proj : Gen.Pg.scheduleSelectAll_proj = (SqlSpec.defs .pg).scheduleSelectAll_proj := by tie_tac
theorem pg_scheduleSelectAll_limit : Gen.Pg.scheduleSelectAll_limit = (SqlSpec.defs .pg).scheduleSelectAll_limit := by tie_tac
theorem pg_scheduleSearch_where : Gen.Pg.scheduleSearch_where = (SqlSpec.defs .pg).scheduleSearch_where := by tie_tac
theorem pg_scheduleSearch_proj : Gen.Pg.scheduleSearch_proj = (SqlSpec.defs .pg).scheduleSearch_proj := by tie_tac
theorem pg_scheduleSearch_limit : Gen.Pg.scheduleSearch_limit = (SqlSpec.defs .pg).scheduleSearch_limit := by tie_tac
theorem pg_scheduleInsert_row : Gen.Pg.scheduleInsert_row = (SqlSpec.defs .pg).scheduleInsert_row := by tie_tac
theorem pg_scheduleUpdate_where : Gen.Pg.scheduleUpdate_where = (SqlSpec.defs .pg).scheduleUpdate_where := by tie_tac
theorem pg_scheduleUpdate_set : Gen.Pg.scheduleUpdate_set = (SqlSpec.defs .pg).scheduleUpdate_set := by tie_tac
theorem pg_scheduleDelete_where : Gen.Pg.scheduleDelete_where = (SqlSpec.defs .pg).scheduleDelete_where := by tie_tac
theorem pg_lockRead_where : Gen.Pg.lockRead_where = (SqlSpec.defs .pg).lockRead_where := by tie_tac
theorem pg_lockRead_proj : Gen.Pg.lockRead_proj = (SqlSpec.defs .pg).lockRead_proj := by tie_tac
theorem pg_lockAcquire_row : Gen.Pg.lockAcquire_row = (SqlSpec.defs .pg).lockAcquire_row := by tie_tac
theorem pg_lockAcquire_conflictWhere : Gen.Pg.lockAcquire_conflictWhere = (SqlSpec.defs .pg).lockAcquire_conflictWhere := by tie_tac
theorem pg_lockAcquire_conflictSet : Gen.Pg.lockAcquire_conflictSet = (SqlSpec.defs .pg).lockAcquire_conflictSet := by tie_tac
theorem pg_lockRelease_where : Gen.Pg.lockRelease_where = (SqlSpec.defs .pg).lockRelease_where := by tie_tac
theorem pg_lockHeartbeat_where : Gen.Pg.lockHeartbeat_where = (SqlSpec.defs .pg).lockHeartbeat_where := by tie_tac
theorem pg_lockHeartbeat_set : Gen.Pg.lockHeartbeat_set = (SqlSpec.defs .pg).lockHeartbeat_set := by tie_tac
theorem pg_lockTimeout_where : Gen.Pg.lockTimeout_where = (SqlSpec.defs .pg).lockTimeout_where := by tie_tac
theorem pg_taskSelect_where : Gen.Pg.taskSelect_where = (SqlSpec.defs .pg).taskSelect_where := by tie_tac
theorem pg_taskSelect_proj : Gen.Pg.taskSelect_proj = (SqlSpec.defs .pg).taskSelect_proj := by tie_tac
theorem pg_taskSelectAll_where : Gen.Pg.taskSelectAll_where = (SqlSpec.defs .pg).taskSelectAll_where := by tie_tac
theorem pg_taskSelectAll_proj : Gen.Pg.taskSelectAll_proj = (SqlSpec.defs .pg).taskSelectAll_proj := by tie_tac
theorem pg_taskSelectAll_limit : Gen.Pg.taskSelectAll_limit = (SqlSpec.defs .pg).taskSelectAll_limit := by tie_tac
theorem pg_taskSelectEnqueueable_where : Gen.Pg.taskSelectEnqueueable_where = (SqlSpec.defs .pg).taskSelectEnqueueable_where := by tie_tac
theorem pg_taskSelectEnqueueable_proj : Gen.Pg.taskSelectEnqueueable_proj = (SqlSpec.defs .pg).taskSelectEnqueueable_proj := by tie_tac
theorem pg_taskSelectEnqueueable_limit : Gen.Pg.taskSelectEnqueueable_limit = (SqlSpec.defs .pg).taskSelectEnqueueable_limit := by tie_tac
theorem pg_taskInsert_row : Gen.Pg.taskInsert_row = (SqlSpec.defs .pg).taskInsert_row := by tie_tac
theorem pg_taskInsertAll_row : Gen.Pg.taskInsertAll_row = (SqlSpec.defs .pg).taskInsertAll_row := by tie_tac
theorem pg_taskInsertAll_where : Gen.Pg.taskInsertAll_where = (SqlSpec.defs .pg).taskInsertAll_where := by tie_tac
theorem pg_taskUpdate_where : Gen.Pg.taskUpdate_where = (SqlSpec.defs .pg).taskUpdate_where := by tie_tac
theorem pg_taskUpdate_set : Gen.Pg.taskUpdate_set = (SqlSpec.defs .pg).taskUpdate_set := by tie_tac
theorem pg_taskCompleteByRootId_where : Gen.Pg.taskCompleteByRootId_where = (SqlSpec.defs .pg).taskCompleteByRootId_where := by tie_tac
theorem pg_taskCompleteByRootId_set : Gen.Pg.taskCompleteByRootId_set = (SqlSpec.defs .pg).taskCompleteByRootId_set := by tie_tac
theorem pg_taskHeartbeat_where : Gen.Pg.taskHeartbeat_where = (SqlSpec.defs .pg).taskHeartbeat_where := by tie_tac
theorem pg_taskHeartbeat_set : Gen.Pg.taskHeartbeat_set = (SqlSpec.defs .pg).taskHeartbeat_set := by tie_tac
theorem pg_shape : Gen.Pg.shape = (SqlSpec.defs .pg).shape := by decide
theorem pg_wiring : Gen.Pg.wiring = (SqlSpec.defs .pg).wiring := by decide
theorem pg_uniques : Gen.Pg.uniques = (SqlSpec.defs .pg).uniques := by decide

end Resonate.Tie
