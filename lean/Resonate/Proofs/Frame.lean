/-
  Proofs/Frame.lean — which tables a store command can change (for every SqlDefs instance).
-/
import Resonate.Model.Store
namespace Resonate

def Cmd.wP : Cmd → Bool
  | .createPromise _ | .updatePromise _ | .createPromiseAndTask _ => true
  | _ => false
def Cmd.wC : Cmd → Bool
  | .createCallback _ | .deleteCallbacks _ => true
  | _ => false
def Cmd.wS : Cmd → Bool
  | .createSchedule _ | .updateSchedule _ | .deleteSchedule _ => true
  | _ => false
def Cmd.wL : Cmd → Bool
  | .acquireLock _ | .releaseLock _ | .heartbeatLocks _ | .timeoutLocks _ => true
  | _ => false
def Cmd.wT : Cmd → Bool
  | .createTask _ | .createTasks _ | .completeTasks _ | .updateTask _ | .heartbeatTasks _ | .createPromiseAndTask _ => true
  | _ => false

theorem createPromise_frame (g : SqlDefs) (db : Db) (c : CreatePromiseCmd) :
    let db' := (db.createPromise g c).1
    db'.callbacks = db.callbacks ∧ db'.schedules = db.schedules ∧ db'.locks = db.locks ∧ db'.tasks = db.tasks ∧
    db'.seqS = db.seqS ∧ db'.seqT = db.seqT := by
  unfold Db.createPromise; split <;> simp

theorem createTask_frame (g : SqlDefs) (db db' : Db) (c : CreateTaskCmd) (n : Nat) (h : db.createTask g c = .ok (db', n)) :
    db'.promises = db.promises ∧ db'.callbacks = db.callbacks ∧ db'.schedules = db.schedules ∧ db'.locks = db.locks ∧
    db'.seqP = db.seqP ∧ db'.seqS = db.seqS := by
  unfold Db.createTask at h
  split at h
  · cases h
  · split at h
    · cases h
    · split at h <;> (injection h with h; injection h with h _; subst h; simp)

theorem exec_frame (g : SqlDefs) (db db' : Db) (cmd : Cmd) (r : Res) (h : db.exec g cmd = .ok (db', r)) :
    (cmd.wP = false → db'.promises = db.promises ∧ db'.seqP = db.seqP) ∧
    (cmd.wC = false → db'.callbacks = db.callbacks) ∧
    (cmd.wS = false → db'.schedules = db.schedules ∧ db'.seqS = db.seqS) ∧
    (cmd.wL = false → db'.locks = db.locks) ∧
    (cmd.wT = false → db'.tasks = db.tasks ∧ db'.seqT = db.seqT) := by
  cases cmd with
  | createPromise c =>
    simp only [Db.exec] at h
    injection h with h; injection h with h _; subst h
    have := createPromise_frame g db c
    simp [Cmd.wP, Cmd.wC, Cmd.wS, Cmd.wL, Cmd.wT, this]
  | createPromiseAndTask c =>
    simp only [Db.exec] at h
    have f1 := createPromise_frame g db c.promiseCommand
    split at h
    · injection h with h; injection h with h _; subst h
      simp [Cmd.wP, Cmd.wC, Cmd.wS, Cmd.wL, Cmd.wT, f1]
    · split at h
      · rename_i db2 m hct
        injection h with h; injection h with h _; subst h
        have f2 := createTask_frame g _ _ _ _ hct
        simp [Cmd.wP, Cmd.wC, Cmd.wS, Cmd.wL, Cmd.wT, f1, f2]
      · cases h
  | createTask c =>
    simp only [Db.exec] at h
    split at h
    · rename_i db2 n hct
      injection h with h; injection h with h _; subst h
      have f2 := createTask_frame g _ _ _ _ hct
      simp [Cmd.wP, Cmd.wC, Cmd.wS, Cmd.wL, Cmd.wT, f2]
    · cases h
  | createTasks c =>
    simp only [Db.exec] at h
    split at h
    · injection h with h; injection h with h _; subst h
      simp [Cmd.wP, Cmd.wC, Cmd.wS, Cmd.wL, Cmd.wT]
    · cases h
  | readPromise c | readPromises c | readSchedule c | readSchedules c | readTask c | readEnqueueableTasks c | readLock c
  | deleteCallbacks c | updateSchedule c | deleteSchedule c | completeTasks c | heartbeatTasks c
  | releaseLock c | heartbeatLocks c | timeoutLocks c =>
    simp only [Db.exec] at h
    injection h with h; injection h with h _; subst h
    simp [Cmd.wP, Cmd.wC, Cmd.wS, Cmd.wL, Cmd.wT]
  | searchPromises c | searchSchedules c | readTasks c | updatePromise c | updateTask c =>
    simp only [Db.exec] at h
    split at h
    · cases h
    · injection h with h; injection h with h _; subst h
      simp [Cmd.wP, Cmd.wC, Cmd.wS, Cmd.wL, Cmd.wT]
  | createCallback c | createSchedule c | acquireLock c =>
    simp only [Db.exec] at h
    split at h <;> (injection h with h; injection h with h _; subst h; simp [Cmd.wP, Cmd.wC, Cmd.wS, Cmd.wL, Cmd.wT])

end Resonate
