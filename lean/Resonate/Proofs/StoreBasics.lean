/-
  Proofs/StoreBasics.lean — generic lemmas about
  the store model's list combinators.
-/
import Resonate.Model.Store
namespace Resonate

/-! ### list combinators -/

@[simp] theorem updateWhere_length {α} (p : α → Bool) (f : α → α) (l : List α) :
    (updateWhere p f l).length = l.length := by simp [updateWhere]

theorem countP_le {α} (p : α → Bool) (l : List α) : countP p l ≤ l.length := by
  simp [countP]; exact List.length_filter_le _ _

theorem countP_eq_zero {α} (p : α → Bool) (l : List α) : countP p l = 0 ↔ ∀ x ∈ l, p x = false := by
  simp [countP, List.filter_eq_nil_iff]

theorem updateWhere_of_none {α} (p : α → Bool) (f : α → α) (l : List α) (h : ∀ x ∈ l, p x = false) :
    updateWhere p f l = l := by
  unfold updateWhere
  conv => rhs; rw [← List.map_id l]
  apply List.map_congr_left
  intro x hx
  simp [h x hx]

theorem mem_updateWhere {α} (p : α → Bool) (f : α → α) (l : List α) (y : α) :
    y ∈ updateWhere p f l ↔ ∃ x ∈ l, (p x = true ∧ y = f x) ∨ (p x = false ∧ y = x) := by
  simp only [updateWhere, List.mem_map]
  constructor
  · rintro ⟨x, hx, rfl⟩
    refine ⟨x, hx, ?_⟩
    cases h : p x <;> simp
  · rintro ⟨x, hx, h⟩
    refine ⟨x, hx, ?_⟩
    rcases h with ⟨hp, rfl⟩ | ⟨hp, rfl⟩ <;> simp [hp]

theorem mem_takeLimit {α} (n : Int) (l : List α) (x : α) (h : x ∈ takeLimit n l) : x ∈ l := by
  unfold takeLimit at h
  split at h
  · exact h
  · exact List.mem_of_mem_take h

/-! ### pointwise relation between two lists (core has no `Forall₂`) -/

inductive Forall2 {α β : Type} (R : α → β → Prop) : List α → List β → Prop
  | nil : Forall2 R [] []
  | cons {a b l1 l2} : R a b → Forall2 R l1 l2 → Forall2 R (a :: l1) (b :: l2)

theorem forall2_refl {α} {R : α → α → Prop} (hr : ∀ a, R a a) : ∀ l : List α, Forall2 R l l
  | [] => .nil
  | a :: l => .cons (hr a) (forall2_refl hr l)

theorem forall2_trans {α} {R : α → α → Prop} (ht : ∀ a b c, R a b → R b c → R a c) :
    ∀ {l1 l2 l3 : List α}, Forall2 R l1 l2 → Forall2 R l2 l3 → Forall2 R l1 l3
  | [], _, _, .nil, .nil => .nil
  | _ :: _, _, _, .cons h1 t1, .cons h2 t2 => .cons (ht _ _ _ h1 h2) (forall2_trans ht t1 t2)

theorem forall2_length {α β} {R : α → β → Prop} : ∀ {l1 : List α} {l2 : List β}, Forall2 R l1 l2 → l1.length = l2.length
  | [], [], .nil => rfl
  | _ :: _, _ :: _, .cons _ t => by simp [forall2_length t]

theorem forall2_split {α} {R : α → α → Prop} :
    ∀ {l1 : List α} {m : List α} {l2 : List α}, Forall2 R (l1 ++ l2) m →
      ∃ m1 m2, m = m1 ++ m2 ∧ Forall2 R l1 m1 ∧ Forall2 R l2 m2
  | [], m, l2, h => ⟨[], m, rfl, .nil, h⟩
  | a :: l1, m, l2, h => by
    cases h with
    | cons hab ht =>
      obtain ⟨m1, m2, rfl, h1, h2⟩ := forall2_split ht
      exact ⟨_ :: m1, m2, rfl, .cons hab h1, h2⟩

theorem forall2_get {α β} {R : α → β → Prop} : ∀ {l1 : List α} {l2 : List β}, Forall2 R l1 l2 →
    ∀ (i : Nat) (a : α), l1[i]? = some a → ∃ b, l2[i]? = some b ∧ R a b
  | _, _, .nil, i, a, h => by simp at h
  | _, _, .cons hab ht, 0, a, h => by simp at h; subst h; exact ⟨_, by simp, hab⟩
  | _, _, .cons hab ht, i + 1, a, h => by
    simp at h
    obtain ⟨b, hb, hr⟩ := forall2_get ht i a h
    exact ⟨b, by simpa using hb, hr⟩

end Resonate
