/-
  Proofs/StoreBasics.lean — generic lemmas about
  the store model's list combinators.
-/
import Resonate.Model.Store
namespace Resonate

/-! ### list combinators -/

@[simp] theorem updateWhere_length {α} (p : α → Bool) (f : α → α) (l : List α) :
    (updateWhere p f l).length = l.length := by simp [updateWhere]

theorem countP_le {α} (p : α → Bool) (l : List α) : countP p l ≤ l.length := by
  simp [countP]; exact List.length_filter_le _ _

theorem countP_eq_zero {α} (p : α → Bool) (l : List α) : countP p l = 0 ↔ ∀ x ∈ l, p x = false := by
  simp [countP, List.filter_eq_nil_iff]

theorem updateWhere_of_none {α} (p : α → Bool) (f : α → α) (l : List α) (h : ∀ x ∈ l, p x = false) :
    updateWhere p f l = l := by
  unfold updateWhere
  conv => rhs; rw [← List.map_id l]
  apply List.map_congr_left
  intro x hx
  simp [h x hx]

theorem mem_updateWhere {α} (p : α → Bool) (f : α → α) (l : List α) (y : α) :
    y ∈ updateWhere p f l ↔ ∃ x ∈ l, (p x = true ∧ y = f x) ∨ (p x = false ∧ y = x) := by
  simp only [updateWhere, List.mem_map]
  constructor
  · rintro ⟨x, hx, rfl⟩
    refine ⟨x, hx, ?_⟩
    cases h : p x <;> simp
  · rintro ⟨x, hx, h⟩
    refine ⟨x, hx, ?_⟩
    rcases h with ⟨hp, rfl⟩ | ⟨hp, rfl⟩ <;> simp [hp]

end Resonate
