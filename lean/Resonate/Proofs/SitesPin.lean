/-
  Proofs/SitesPin.lean — inventory of every util.Assert / panic / Must site on the request path
  (front ends, kernel, coroutines, router, sender, plugins), pinned against what translate/gofacts
  extracts from /repo on this run.  A new assertion or panic in the code changes `Gen.sites` and this
  pin stops checking, so no new crash site can appear unnoticed (C13).  `expectedSites` is the
  inventory the model's `panic` leaves and the C13 exclusions were written against.
-/
import Resonate.Generated.Sites
namespace Resonate
open Gen

def expectedSites : List (String × String) := [
  ("internal/aio/aio.go", "Signal: assert a.buffer == nil"),
  ("internal/aio/aio.go", "Dispatch: assert submission.Tags != nil"),
  ("internal/aio/aio.go", "Dispatch: assert submission.Tags[\"id\"] != \"\""),
  ("internal/aio/aio.go", "EnqueueSQE: panic"),
  ("internal/aio/aio.go", "EnqueueSQE: assert completion != nil && err == nil || completion == nil && err != nil"),
  ("internal/aio/aio.go", "EnqueueCQE: assert cqe != nil"),
  ("internal/aio/aio_dst.go", "Signal: panic"),
  ("internal/aio/aio_dst.go", "Flush: panic"),
  ("internal/aio/aio_dst.go", "Dispatch: assert submission.Tags != nil"),
  ("internal/aio/aio_dst.go", "Dispatch: assert submission.Tags[\"id\"] != \"\""),
  ("internal/aio/aio_dst.go", "EnqueueSQE: assert completion != nil && err == nil || completion == nil && err != nil"),
  ("internal/api/api.go", "Signal: assert a.buffer == nil"),
  ("internal/api/api.go", "EnqueueSQE: assert sqe.Submission != nil"),
  ("internal/api/api.go", "EnqueueSQE: assert sqe.Submission.Tags != nil"),
  ("internal/api/api.go", "EnqueueSQE: assert (res != nil) != (err != nil)"),
  ("internal/api/api.go", "EnqueueSQE: assert errors.As(err, &error)"),
  ("internal/api/api.go", "EnqueueCQE: assert cqe.Callback != nil"),
  ("internal/api/api.go", "EnqueueCQE: assert (cqe.Completion != nil) != (cqe.Error != nil)"),
  ("internal/app/coroutines/acquireLock.go", "AcquireLock: assert completion.Store != nil"),
  ("internal/app/coroutines/acquireLock.go", "AcquireLock: assert result.RowsAffected == 0 || result.RowsAffected == 1"),
  ("internal/app/coroutines/acquireLock.go", "AcquireLock: assert res != nil"),
  ("internal/app/coroutines/claimTask.go", "ClaimTask: assert r.ClaimTask.ProcessId != \"\""),
  ("internal/app/coroutines/claimTask.go", "ClaimTask: assert r.ClaimTask.Ttl >= 0"),
  ("internal/app/coroutines/claimTask.go", "ClaimTask: panic"),
  ("internal/app/coroutines/claimTask.go", "ClaimTask: assert completion.Store != nil"),
  ("internal/app/coroutines/claimTask.go", "ClaimTask: assert result.RowsReturned == 0 || result.RowsReturned == 1"),
  ("internal/app/coroutines/claimTask.go", "ClaimTask: assert completion.Store != nil"),
  ("internal/app/coroutines/claimTask.go", "ClaimTask: assert result.RowsAffected == 0 || result.RowsAffected == 1"),
  ("internal/app/coroutines/claimTask.go", "ClaimTask: assert completion.Store != nil"),
  ("internal/app/coroutines/claimTask.go", "ClaimTask: assert len(completion.Store.Results) == len(commands)"),
  ("internal/app/coroutines/claimTask.go", "ClaimTask: assert completion.Store.Results[0].ReadPromise != nil"),
  ("internal/app/coroutines/claimTask.go", "ClaimTask: assert t.Mesg.Type != message.Resume || completion.Store.Results[1].ReadPromise != nil"),
  ("internal/app/coroutines/claimTask.go", "ClaimTask: assert status != 0"),
  ("internal/app/coroutines/claimTask.go", "ClaimTask: assert status != t_api.StatusCreated || t != nil"),
  ("internal/app/coroutines/completePromise.go", "CompletePromise: assert completion.Store != nil"),
  ("internal/app/coroutines/completePromise.go", "CompletePromise: assert result.RowsReturned == 0 || result.RowsReturned == 1"),
  ("internal/app/coroutines/completePromise.go", "CompletePromise: assert res != nil"),
  ("internal/app/coroutines/completePromise.go", "completePromise: assert completion.Store != nil"),
  ("internal/app/coroutines/completePromise.go", "completePromise: assert len(completion.Store.Results) == len(commands)"),
  ("internal/app/coroutines/completePromise.go", "completePromise: assert completion.Store.Results[0].UpdatePromise != nil"),
  ("internal/app/coroutines/completePromise.go", "completePromise: assert completion.Store.Results[0].UpdatePromise.RowsAffected == 0 || completion.Store.Results[0].UpdatePromise.RowsAffected == 1"),
  ("internal/app/coroutines/completePromise.go", "completePromise: assert completion.Store.Results[1].CompleteTasks != nil"),
  ("internal/app/coroutines/completePromise.go", "completePromise: assert completion.Store.Results[2].CreateTasks != nil"),
  ("internal/app/coroutines/completePromise.go", "completePromise: assert completion.Store.Results[3].DeleteCallbacks != nil"),
  ("internal/app/coroutines/completePromise.go", "completePromise: assert completion.Store.Results[2].CreateTasks.RowsAffected == completion.Store.Results[3].DeleteCallbacks.RowsAffected"),
  ("internal/app/coroutines/completePromise.go", "alreadyCompletedStatus: panic"),
  ("internal/app/coroutines/completeTask.go", "CompleteTask: assert completion.Store != nil"),
  ("internal/app/coroutines/completeTask.go", "CompleteTask: assert result.RowsReturned == 0 || result.RowsReturned == 1"),
  ("internal/app/coroutines/completeTask.go", "CompleteTask: assert completion.Store != nil"),
  ("internal/app/coroutines/completeTask.go", "CompleteTask: assert result.RowsAffected == 0 || result.RowsAffected == 1"),
  ("internal/app/coroutines/completeTask.go", "CompleteTask: assert status != 0"),
  ("internal/app/coroutines/completeTask.go", "CompleteTask: assert status != t_api.StatusCreated || t != nil"),
  ("internal/app/coroutines/createCallback.go", "CreateCallback: assert completion.Store != nil"),
  ("internal/app/coroutines/createCallback.go", "CreateCallback: assert len(completion.Store.Results) == 1"),
  ("internal/app/coroutines/createCallback.go", "CreateCallback: assert result != nil"),
  ("internal/app/coroutines/createCallback.go", "CreateCallback: assert result.RowsReturned == 0 || result.RowsReturned == 1"),
  ("internal/app/coroutines/createCallback.go", "CreateCallback: assert completion.Store != nil"),
  ("internal/app/coroutines/createCallback.go", "CreateCallback: assert len(completion.Store.Results) == 1"),
  ("internal/app/coroutines/createCallback.go", "CreateCallback: assert result != nil"),
  ("internal/app/coroutines/createCallback.go", "CreateCallback: assert result.RowsAffected == 0 || result.RowsAffected == 1"),
  ("internal/app/coroutines/createCallback.go", "CreateCallback: assert completion.Store != nil"),
  ("internal/app/coroutines/createCallback.go", "CreateCallback: assert len(completion.Store.Results) == 1"),
  ("internal/app/coroutines/createCallback.go", "CreateCallback: assert result != nil"),
  ("internal/app/coroutines/createCallback.go", "CreateCallback: assert result.RowsReturned == 1"),
  ("internal/app/coroutines/createCallback.go", "CreateCallback: assert res != nil"),
  ("internal/app/coroutines/createPromise.go", "CreatePromise: assert r.Kind == t_api.CreatePromise"),
  ("internal/app/coroutines/createPromise.go", "CreatePromiseAndTask: assert r.Kind == t_api.CreatePromiseAndTask"),
  ("internal/app/coroutines/createPromise.go", "CreatePromiseAndTask: assert r.CreatePromiseAndTask.Promise.Id == r.CreatePromiseAndTask.Task.PromiseId"),
  ("internal/app/coroutines/createPromise.go", "CreatePromiseAndTask: assert r.CreatePromiseAndTask.Promise.Timeout == r.CreatePromiseAndTask.Task.Timeout"),
  ("internal/app/coroutines/createPromise.go", "createPromiseAndTask: assert r.Kind == t_api.CreatePromise || r.Kind == t_api.CreatePromiseAndTask"),
  ("internal/app/coroutines/createPromise.go", "createPromiseAndTask: assert completion.Store != nil"),
  ("internal/app/coroutines/createPromise.go", "createPromiseAndTask: assert result.RowsReturned == 0 || result.RowsReturned == 1"),
  ("internal/app/coroutines/createPromise.go", "createPromiseAndTask: assert promiseRowsAffected == completion.Store.Results[0].CreatePromiseAndTask.TaskRowsAffected"),
  ("internal/app/coroutines/createPromise.go", "createPromiseAndTask: assert taskCmd != nil"),
  ("internal/app/coroutines/createPromise.go", "createPromiseAndTask: assert completion.Store.Results[0].Kind == t_aio.CreatePromiseAndTask"),
  ("internal/app/coroutines/createPromise.go", "createPromise: assert completion.Router.Recv != nil"),
  ("internal/app/coroutines/createPromise.go", "createPromise: assert completion.Store != nil"),
  ("internal/app/coroutines/createPromise.go", "createPromise: assert len(completion.Store.Results) == len(commands)"),
  ("internal/app/coroutines/createPromise.go", "createPromise: assert promiseAndTaskResult.PromiseRowsAffected == 0 || promiseAndTaskResult.PromiseRowsAffected == 1"),
  ("internal/app/coroutines/createPromise.go", "createPromise: assert promiseAndTaskResult.TaskRowsAffected == promiseAndTaskResult.PromiseRowsAffected"),
  ("internal/app/coroutines/createPromise.go", "createPromise: assert createPromiseResult.RowsAffected == 0 || createPromiseResult.RowsAffected == 1"),
  ("internal/app/coroutines/createPromise.go", "createPromise: panic"),
  ("internal/app/coroutines/createSchedule.go", "CreateSchedule: assert completion.Store != nil"),
  ("internal/app/coroutines/createSchedule.go", "CreateSchedule: assert result.RowsReturned == 0 || result.RowsReturned == 1"),
  ("internal/app/coroutines/createSchedule.go", "CreateSchedule: assert completion.Store != nil"),
  ("internal/app/coroutines/createSchedule.go", "CreateSchedule: assert result.RowsAffected == 0 || result.RowsAffected == 1"),
  ("internal/app/coroutines/createSchedule.go", "CreateSchedule: assert res != nil"),
  ("internal/app/coroutines/createSubscription.go", "CreateSubscription: assert r.Kind == t_api.CreateSubscription"),
  ("internal/app/coroutines/createSubscription.go", "CreateSubscription: assert completion.Store != nil"),
  ("internal/app/coroutines/createSubscription.go", "CreateSubscription: assert len(completion.Store.Results) == 1"),
  ("internal/app/coroutines/createSubscription.go", "CreateSubscription: assert result != nil"),
  ("internal/app/coroutines/createSubscription.go", "CreateSubscription: assert result.RowsReturned == 0 || result.RowsReturned == 1"),
  ("internal/app/coroutines/createSubscription.go", "CreateSubscription: assert completion.Store != nil"),
  ("internal/app/coroutines/createSubscription.go", "CreateSubscription: assert len(completion.Store.Results) == 1"),
  ("internal/app/coroutines/createSubscription.go", "CreateSubscription: assert result != nil"),
  ("internal/app/coroutines/createSubscription.go", "CreateSubscription: assert result.RowsAffected == 0 || result.RowsAffected == 1"),
  ("internal/app/coroutines/createSubscription.go", "CreateSubscription: assert completion.Store != nil"),
  ("internal/app/coroutines/createSubscription.go", "CreateSubscription: assert len(completion.Store.Results) == 1"),
  ("internal/app/coroutines/createSubscription.go", "CreateSubscription: assert result != nil"),
  ("internal/app/coroutines/createSubscription.go", "CreateSubscription: assert result.RowsReturned == 1"),
  ("internal/app/coroutines/createSubscription.go", "CreateSubscription: assert res != nil"),
  ("internal/app/coroutines/deleteSchedule.go", "DeleteSchedule: assert completion.Store != nil"),
  ("internal/app/coroutines/deleteSchedule.go", "DeleteSchedule: assert result.RowsAffected == 0 || result.RowsAffected == 1"),
  ("internal/app/coroutines/enqueueTasks.go", "EnqueueTasks: assert tags != nil"),
  ("internal/app/coroutines/enqueueTasks.go", "EnqueueTasks: assert tasksCompletion.Store != nil"),
  ("internal/app/coroutines/enqueueTasks.go", "EnqueueTasks: assert len(tasksCompletion.Store.Results) == 1"),
  ("internal/app/coroutines/enqueueTasks.go", "EnqueueTasks: assert tasksResult != nil"),
  ("internal/app/coroutines/enqueueTasks.go", "EnqueueTasks: assert len(promiseCmds) > 0"),
  ("internal/app/coroutines/enqueueTasks.go", "EnqueueTasks: assert promisesCompletion.Store != nil"),
  ("internal/app/coroutines/enqueueTasks.go", "EnqueueTasks: assert len(promisesCompletion.Store.Results) == len(promiseCmds)"),
  ("internal/app/coroutines/enqueueTasks.go", "EnqueueTasks: assert promisesResults[i].ReadPromise != nil"),
  ("internal/app/coroutines/heartbeatLocks.go", "HeartbeatLocks: assert completion.Store != nil"),
  ("internal/app/coroutines/heartbeatTasks.go", "HeartbeatTasks: assert completion.Store != nil"),
  ("internal/app/coroutines/heartbeatTasks.go", "HeartbeatTasks: assert result != nil"),
  ("internal/app/coroutines/readPromise.go", "ReadPromise: assert completion.Store != nil"),
  ("internal/app/coroutines/readPromise.go", "ReadPromise: assert result.RowsReturned == 0 || result.RowsReturned == 1"),
  ("internal/app/coroutines/readPromise.go", "ReadPromise: assert res != nil"),
  ("internal/app/coroutines/readSchedule.go", "ReadSchedule: assert completion.Store != nil"),
  ("internal/app/coroutines/readSchedule.go", "ReadSchedule: assert result.RowsReturned == 0 || result.RowsReturned == 1"),
  ("internal/app/coroutines/readSchedule.go", "ReadSchedule: assert res != nil"),
  ("internal/app/coroutines/releaseLock.go", "ReleaseLock: assert completion.Store != nil"),
  ("internal/app/coroutines/releaseLock.go", "ReleaseLock: assert result.RowsAffected == 0 || result.RowsAffected == 1"),
  ("internal/app/coroutines/releaseLock.go", "ReleaseLock: assert res != nil"),
  ("internal/app/coroutines/schedulePromises.go", "SchedulePromises: assert tags != nil"),
  ("internal/app/coroutines/schedulePromises.go", "SchedulePromises: assert completion.Store != nil"),
  ("internal/app/coroutines/schedulePromises.go", "SchedulePromises: assert len(completion.Store.Results) == 1"),
  ("internal/app/coroutines/schedulePromises.go", "SchedulePromises: assert result != nil"),
  ("internal/app/coroutines/schedulePromises.go", "SchedulePromises: assert r.NextRunTime <= c.Time()"),
  ("internal/app/coroutines/searchPromises.go", "SearchPromises: assert r.SearchPromises.Id != \"\""),
  ("internal/app/coroutines/searchPromises.go", "SearchPromises: assert r.SearchPromises.Limit > 0"),
  ("internal/app/coroutines/searchPromises.go", "SearchPromises: assert completion.Store != nil"),
  ("internal/app/coroutines/searchPromises.go", "SearchPromises: assert len(completion.Store.Results) == 1"),
  ("internal/app/coroutines/searchSchedules.go", "SearchSchedules: assert r.SearchSchedules.Id != \"\""),
  ("internal/app/coroutines/searchSchedules.go", "SearchSchedules: assert r.SearchSchedules.Limit > 0"),
  ("internal/app/coroutines/searchSchedules.go", "SearchSchedules: assert completion.Store != nil"),
  ("internal/app/coroutines/timeoutLocks.go", "TimeoutLocks: assert tags != nil"),
  ("internal/app/coroutines/timeoutLocks.go", "TimeoutLocks: assert completion.Store != nil"),
  ("internal/app/coroutines/timeoutLocks.go", "TimeoutLocks: assert len(completion.Store.Results) == 1"),
  ("internal/app/coroutines/timeoutPromises.go", "TimeoutPromises: assert tags != nil"),
  ("internal/app/coroutines/timeoutPromises.go", "TimeoutPromises: assert completion.Store != nil"),
  ("internal/app/coroutines/timeoutPromises.go", "TimeoutPromises: assert len(completion.Store.Results) == 1"),
  ("internal/app/coroutines/timeoutPromises.go", "TimeoutPromises: assert result != nil"),
  ("internal/app/coroutines/timeoutPromises.go", "TimeoutPromises: assert r.State == promise.Pending"),
  ("internal/app/coroutines/timeoutPromises.go", "TimeoutPromises: assert r.Timeout <= c.Time()"),
  ("internal/app/coroutines/timeoutTasks.go", "TimeoutTasks: assert tags != nil"),
  ("internal/app/coroutines/timeoutTasks.go", "TimeoutTasks: assert completion.Store != nil"),
  ("internal/app/coroutines/timeoutTasks.go", "TimeoutTasks: assert len(completion.Store.Results) == 1"),
  ("internal/app/coroutines/timeoutTasks.go", "TimeoutTasks: assert result != nil"),
  ("internal/app/coroutines/timeoutTasks.go", "TimeoutTasks: assert t.State.In((task.Init | task.Enqueued) | task.Claimed)"),
  ("internal/app/plugins/poll/poll.go", "add: assert conn.ch != nil"),
  ("internal/app/plugins/poll/poll.go", "rmv: assert conn.ch != nil"),
  ("internal/app/plugins/poll/poll.go", "Disconnect: panic"),
  ("internal/app/subsystems/aio/router/router.go", "Process: assert len(r.workers) > 0"),
  ("internal/app/subsystems/aio/router/router.go", "Process: assert sqe.Submission != nil"),
  ("internal/app/subsystems/aio/router/router.go", "Process: assert sqe.Submission.Router != nil"),
  ("internal/app/subsystems/aio/router/router.go", "Process: assert sqe.Submission.Router.Promise != nil"),
  ("internal/app/subsystems/aio/router/router.go", "TagSource: assert p.Tags != nil"),
  ("internal/app/subsystems/aio/sender/sender.go", "Process: assert sqe.Submission.Sender != nil"),
  ("internal/app/subsystems/aio/sender/sender.go", "Process: assert sqe.Submission.Sender.Task != nil"),
  ("internal/app/subsystems/aio/sender/sender.go", "Process: assert (logicalRecv != nil) != (physicalRecv != nil)"),
  ("internal/app/subsystems/aio/sender/sender.go", "Process: assert sqe.Submission.Sender.Promise != nil"),
  ("internal/app/subsystems/api/api.go", "Process: panic"),
  ("internal/app/subsystems/api/error.go", "ServerError: assert errors.As(err, &error)"),
  ("internal/app/subsystems/api/grpc/callback.go", "CreateCallback: assert res.CreateCallback != nil"),
  ("internal/app/subsystems/api/grpc/grpc.go", "code: panic"),
  ("internal/app/subsystems/api/grpc/lock.go", "AcquireLock: assert res.AcquireLock != nil"),
  ("internal/app/subsystems/api/grpc/lock.go", "ReleaseLock: assert res.ReleaseLock != nil"),
  ("internal/app/subsystems/api/grpc/lock.go", "HeartbeatLocks: assert res.HeartbeatLocks != nil"),
  ("internal/app/subsystems/api/grpc/promise.go", "ReadPromise: assert res.ReadPromise != nil"),
  ("internal/app/subsystems/api/grpc/promise.go", "SearchPromises: assert res.SearchPromises != nil"),
  ("internal/app/subsystems/api/grpc/promise.go", "CreatePromise: assert res.CreatePromise != nil"),
  ("internal/app/subsystems/api/grpc/promise.go", "CreatePromiseAndTask: assert res.CreatePromiseAndTask != nil"),
  ("internal/app/subsystems/api/grpc/promise.go", "ResolvePromise: assert res.CompletePromise != nil"),
  ("internal/app/subsystems/api/grpc/promise.go", "RejectPromise: assert res.CompletePromise != nil"),
  ("internal/app/subsystems/api/grpc/promise.go", "CancelPromise: assert res.CompletePromise != nil"),
  ("internal/app/subsystems/api/grpc/promise.go", "protoState: panic"),
  ("internal/app/subsystems/api/grpc/schedule.go", "ReadSchedule: assert res.ReadSchedule != nil"),
  ("internal/app/subsystems/api/grpc/schedule.go", "SearchSchedules: assert res.SearchSchedules != nil"),
  ("internal/app/subsystems/api/grpc/schedule.go", "CreateSchedule: assert res.CreateSchedule != nil"),
  ("internal/app/subsystems/api/grpc/schedule.go", "DeleteSchedule: assert res.DeleteSchedule != nil"),
  ("internal/app/subsystems/api/grpc/subscription.go", "CreateSubscription: assert res.CreateSubscription != nil"),
  ("internal/app/subsystems/api/grpc/task.go", "ClaimTask: assert res.ClaimTask != nil"),
  ("internal/app/subsystems/api/grpc/task.go", "ClaimTask: assert res.ClaimTask.Status != t_api.StatusCreated || (res.ClaimTask.Task != nil && res.ClaimTask.Task.Mesg != nil)"),
  ("internal/app/subsystems/api/grpc/task.go", "CompleteTask: assert res.CompleteTask != nil"),
  ("internal/app/subsystems/api/grpc/task.go", "HeartbeatTasks: assert res.HeartbeatTasks != nil"),
  ("internal/app/subsystems/api/http/callback.go", "createCallback: assert res.CreateCallback != nil"),
  ("internal/app/subsystems/api/http/lock.go", "acquireLock: assert res.AcquireLock != nil"),
  ("internal/app/subsystems/api/http/lock.go", "releaseLock: assert res.ReleaseLock != nil"),
  ("internal/app/subsystems/api/http/lock.go", "heartbeatLocks: assert res.HeartbeatLocks != nil"),
  ("internal/app/subsystems/api/http/promise.go", "readPromise: assert res.ReadPromise != nil"),
  ("internal/app/subsystems/api/http/promise.go", "searchPromises: assert res.SearchPromises != nil"),
  ("internal/app/subsystems/api/http/promise.go", "createPromise: assert res.CreatePromise != nil"),
  ("internal/app/subsystems/api/http/promise.go", "createPromiseAndTask: assert res.CreatePromiseAndTask != nil"),
  ("internal/app/subsystems/api/http/promise.go", "completePromise: assert res.CompletePromise != nil"),
  ("internal/app/subsystems/api/http/schedule.go", "readSchedule: assert res.ReadSchedule != nil"),
  ("internal/app/subsystems/api/http/schedule.go", "searchSchedules: assert res.SearchSchedules != nil"),
  ("internal/app/subsystems/api/http/schedule.go", "createSchedule: assert res.CreateSchedule != nil"),
  ("internal/app/subsystems/api/http/schedule.go", "deleteSchedule: assert res.DeleteSchedule != nil"),
  ("internal/app/subsystems/api/http/subscription.go", "createSubscription: assert res.CreateSubscription != nil"),
  ("internal/app/subsystems/api/http/task.go", "claimTask: assert res.ClaimTask != nil"),
  ("internal/app/subsystems/api/http/task.go", "claimTask: assert res.ClaimTask.Status != t_api.StatusCreated || (res.ClaimTask.Task != nil && res.ClaimTask.Task.Mesg != nil)"),
  ("internal/app/subsystems/api/http/task.go", "completeTask: assert res.CompleteTask != nil"),
  ("internal/app/subsystems/api/http/task.go", "heartbeatTasks: assert res.HeartbeatTasks != nil"),
  ("internal/app/subsystems/api/http/util.go", "extractId: assert len(id) > 0 && id[0] == '/'"),
  ("internal/kernel/system/system.go", "Tick: assert s.config.SubmissionBatchSize > 0"),
  ("internal/kernel/system/system.go", "Tick: assert s.config.CompletionBatchSize > 0"),
  ("internal/kernel/system/system.go", "Tick: assert i < s.config.CompletionBatchSize"),
  ("internal/kernel/system/system.go", "Tick: assert i < s.config.SubmissionBatchSize"),
  ("internal/kernel/system/system.go", "Tick: assert ok"),
  ("internal/kernel/system/system.go", "AddOnRequest: assert req.Tags != nil"),
  ("internal/kernel/system/system.go", "AddOnRequest: assert req.Tags[\"id\"] != \"\""),
  ("internal/kernel/system/system.go", "coroutineMetrics: assert tags != nil"),
  ("internal/kernel/t_api/api.go", "String: panic"),
  ("internal/kernel/t_api/response.go", "Status: panic"),
  ("internal/kernel/t_api/status.go", "String: panic")
]


theorem sites_pin : Gen.sites = expectedSites := by rfl

/-- how each coroutine awaits the children it spawned.  `Thread.resume?` (Model/System.lean) is written against exactly
    this: the one request coroutine with several children (searchPromises.go) returns on its first failed child, in
    order, while later children may still be in flight; the background coroutines log the error and await every child. -/
def expectedAwaitLoops : List (String × String × String) := [
  ("internal/app/coroutines/enqueueTasks.go", "EnqueueTasks", "awaits-all"),
  ("internal/app/coroutines/schedulePromises.go", "SchedulePromises", "awaits-all"),
  ("internal/app/coroutines/searchPromises.go", "SearchPromises", "returns-on-error"),
  ("internal/app/coroutines/timeoutPromises.go", "TimeoutPromises", "awaits-all")
]

theorem awaitLoops_pin : Gen.awaitLoops = expectedAwaitLoops := by rfl

/-- what every coroutine function submits, in source order (submission kinds `Store` / `Router` / `Sender` / `Echo` and the
    command kinds inside the transactions).  The hand-written models in Model/Coroutines.lean were written against exactly
    these lists — e.g. `CompleteTask`: a `ReadTask` transaction, then an `UpdateTask` transaction (`Coro.completeTask`);
    `completePromise`: ONE transaction `[UpdatePromise, CompleteTasks, CreateTasks, DeleteCallbacks]` (`completeTx`);
    `createPromise`: a router submission, then `CreatePromise` or `CreatePromiseAndTask` in one store transaction
    (`createPromiseChild` / `childStore`).  A coroutine that starts submitting something else changes the regenerated list
    and this pin stops checking, whether or not the harness generators reach the new path. -/
def expectedCoroutineCmds : List (String × String × String) := [
  ("internal/app/coroutines/acquireLock.go", "AcquireLock", "Store AcquireLock"),
  ("internal/app/coroutines/claimTask.go", "ClaimTask", "Store ReadTask Store UpdateTask ReadPromise ReadPromise Store"),
  ("internal/app/coroutines/completePromise.go", "CompletePromise", "Store ReadPromise"),
  ("internal/app/coroutines/completePromise.go", "completePromise", "UpdatePromise CompleteTasks CreateTasks DeleteCallbacks Store"),
  ("internal/app/coroutines/completeTask.go", "CompleteTask", "Store ReadTask Store UpdateTask"),
  ("internal/app/coroutines/createCallback.go", "CreateCallback", "Store ReadPromise Store CreateCallback Store ReadPromise"),
  ("internal/app/coroutines/createPromise.go", "createPromiseAndTask", "Store ReadPromise"),
  ("internal/app/coroutines/createPromise.go", "createPromise", "Router CreatePromise CreatePromiseAndTask Store"),
  ("internal/app/coroutines/createSchedule.go", "CreateSchedule", "Store ReadSchedule Store CreateSchedule"),
  ("internal/app/coroutines/createSubscription.go", "CreateSubscription", "Store ReadPromise Store CreateCallback Store ReadPromise"),
  ("internal/app/coroutines/deleteSchedule.go", "DeleteSchedule", "Store DeleteSchedule"),
  ("internal/app/coroutines/echo.go", "Echo", "Echo"),
  ("internal/app/coroutines/enqueueTasks.go", "EnqueueTasks", "Store ReadEnqueueableTasks ReadPromise Store Sender UpdateTask UpdateTask UpdateTask UpdateTask Store"),
  ("internal/app/coroutines/heartbeatLocks.go", "HeartbeatLocks", "Store HeartbeatLocks"),
  ("internal/app/coroutines/heartbeatTasks.go", "HeartbeatTasks", "Store HeartbeatTasks"),
  ("internal/app/coroutines/readPromise.go", "ReadPromise", "Store ReadPromise"),
  ("internal/app/coroutines/readSchedule.go", "ReadSchedule", "Store ReadSchedule"),
  ("internal/app/coroutines/releaseLock.go", "ReleaseLock", "Store ReleaseLock"),
  ("internal/app/coroutines/schedulePromises.go", "SchedulePromises", "Store ReadSchedules UpdateSchedule"),
  ("internal/app/coroutines/searchPromises.go", "SearchPromises", "Store SearchPromises"),
  ("internal/app/coroutines/searchSchedules.go", "SearchSchedules", "Store SearchSchedules"),
  ("internal/app/coroutines/timeoutLocks.go", "TimeoutLocks", "Store TimeoutLocks"),
  ("internal/app/coroutines/timeoutPromises.go", "TimeoutPromises", "Store ReadPromises"),
  ("internal/app/coroutines/timeoutTasks.go", "TimeoutTasks", "Store ReadTasks UpdateTask UpdateTask Store")
]

theorem coroutineCmds_pin : Gen.coroutineCmds = expectedCoroutineCmds := by rfl

/-- the state guards of the task updates (C07): a claim expects `init` or `enqueued`, a completion `claimed`, the four hand-off
    outcomes `init`, and the lease sweep the state it read (`AllYieldsT.au_timeoutTasks` is where that matters) -/
def expectedTaskGuards : List (String × String × String) := [
  ("internal/app/coroutines/claimTask.go", "ClaimTask", "[]task.State{task.Init, task.Enqueued}"),
  ("internal/app/coroutines/completeTask.go", "CompleteTask", "[]task.State{task.Claimed}"),
  ("internal/app/coroutines/enqueueTasks.go", "EnqueueTasks", "[]task.State{task.Init}"),
  ("internal/app/coroutines/enqueueTasks.go", "EnqueueTasks", "[]task.State{task.Init}"),
  ("internal/app/coroutines/enqueueTasks.go", "EnqueueTasks", "[]task.State{task.Init}"),
  ("internal/app/coroutines/enqueueTasks.go", "EnqueueTasks", "[]task.State{task.Init}"),
  ("internal/app/coroutines/timeoutTasks.go", "TimeoutTasks", "[]task.State{t.State}"),
  ("internal/app/coroutines/timeoutTasks.go", "TimeoutTasks", "[]task.State{t.State}")
]

theorem taskGuards_pin : Gen.taskGuards = expectedTaskGuards := by rfl

/-- the kernel's tick, as `Sys.tick` (Model/System.lean) models it step by step: (1) dequeue up to `CompletionBatchSize`
    completions and hand each to its coroutine (`deliverAll`), (2) offer every background coroutine whose signal timeout has
    passed and whose previous instance has finished to the scheduler, recording `last = t` whether or not it was admitted
    (`startBg`), (3) rotate the registry by one when a due coroutine was refused (`bgRefused` / `rotate1`, the fix of F17),
    (4) dequeue API submissions and start their coroutines, answering "scheduler queue full" for those that do not fit
    (`startReqs`), (5) run until blocked (`runAll`), (6) flush the submissions (`pending ++ disp`). -/
def expectedTickCalls : List String := ["util.Assert", "util.Assert", "s.aio.DequeueCQE", "util.Assert", "cqe.Callback", "s.api.Done", "int64", "s.config.SignalTimeout.Milliseconds", "bg.promise.Completed", "fmt.Sprintf", "gocoro.Add", "bg.coroutine", "s.coroutineMetrics", "slog.Warn", "len", "append", "s.api.DequeueSQE", "util.Assert", "util.Assert", "fmt.Sprintf", "gocoro.Add", "coroutine", "s.coroutineMetrics", "slog.Warn", "sqe.Callback", "t_api.NewError", "s.scheduler.RunUntilBlocked", "s.aio.Flush"]

theorem tickCalls_pin : Gen.tickCalls = expectedTickCalls := by rfl

def expectedTickConds : List String := [
  "!s.api.Done() && (t-bg.last) >= int64(s.config.SignalTimeout.Milliseconds()) && (bg.promise == nil || bg.promise.Completed())",
  "ok",
  "full && len(s.background) > 1",
  "ok"
]

theorem tickConds_pin : Gen.tickConds = expectedTickConds := by rfl

/-- the queues around the kernel, as `Sys.step` models them: `EnqueueSQE` answers "shutting down" once shutdown was requested,
    else enqueues when there is room, else answers "queue full" (`Choice.submit`); `Done` = shutdown requested and queue empty
    (`apiDone && apiQ.isEmpty`); `DequeueSQE` / `DequeueCQE` take the buffered entry first, then what the channel holds
    (`dequeueCount`, `cq.take`); `Dispatch` hands a submission to its subsystem and `Flush` flushes every subsystem; `Loop` reads the wall clock afresh
    before every `Tick`, whichever signal woke it (C02: a request is handled at an instant between its submission and its response). -/
def expectedQueueShapes : List (String × String × String × String) := [
  ("internal/api/api.go", "EnqueueSQE", "util.Assert util.Assert sqe.Submission.Kind.String util.Assert util.Assert errors.As error.Code res.Status sqe.Submission.Kind.String strconv.Itoa int sqe.Submission.Kind.String callback sqe.Callback t_api.NewError sqe.Callback t_api.NewError", "err != nil ;; a.done ;; select: a.sq <- sqe ;; select-default"),
  ("internal/api/api.go", "DequeueSQE", "append len append", "a.buffer != nil ;; select: sqe, ok := <-a.sq ;; !ok ;; select-default"),
  ("internal/api/api.go", "EnqueueCQE", "util.Assert util.Assert cqe.Callback", ""),
  ("internal/api/api.go", "Shutdown", "", ""),
  ("internal/api/api.go", "Done", "len", ""),
  ("internal/kernel/system/system.go", "Loop", "close s.Tick time.Now().UnixMilli time.Now s.Done s.aio.Shutdown s.scheduler.Shutdown make s.api.Signal s.aio.Signal time.After close", "s.Done() ;; select: <-apiSignal ;; select: <-aioSignal ;; select: <-s.shortCircuit ;; select: <-time.After(s.config.SignalTimeout)"),
  ("internal/kernel/system/system.go", "Done", "s.api.Done s.scheduler.Size", ""),
  ("internal/kernel/system/system.go", "Shutdown", "s.api.Shutdown close", ""),
  ("internal/aio/aio.go", "EnqueueCQE", "util.Assert", ""),
  ("internal/aio/aio.go", "DequeueCQE", "append len append", "a.buffer != nil ;; select: cqe, ok := <-a.cq ;; !ok ;; select-default"),
  ("internal/aio/aio.go", "Dispatch", "util.Assert util.Assert a.EnqueueSQE", ""),
  ("internal/aio/aio.go", "Flush", "util.OrderedRange subsystem.Flush", "")
]

theorem queueShapes_pin : Gen.queueShapes = expectedQueueShapes := by rfl

/-- how the stores open their database.  The sqlite store opens the configured path as it is: the journal mode is sqlite's
    default (a rollback journal on disk), which is what "an acknowledged write survives a kill, a write in flight is all or
    nothing" (C06) rests on below the model; a data source that sets a journal mode, a synchronous level or the like changes
    that and has to be looked at. -/
def expectedStoreOpen : List (String × String × String) := [
  ("internal/app/subsystems/aio/store/sqlite/sqlite.go", "\"sqlite3\"", "config.Path"),
  ("internal/app/subsystems/aio/store/postgres/postgres.go", "\"postgres\"", "dbUrl.String()")
]

theorem storeOpen_pin : Gen.storeOpen = expectedStoreOpen := by rfl

end Resonate
