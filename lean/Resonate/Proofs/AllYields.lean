/-
  Proofs/AllYields.lean — the guarantee side: every store transaction that any coroutine can ever
  yield, whatever completions it is resumed with and at whatever ticks, is non-empty and has the
  block structure `wfCore` (an `UpdatePromise` only as the head of the four-command completion block,
  no bare `CompleteTasks` / `CreateTasks` / `DeleteCallbacks` / `CreateTask`).
-/
import Resonate.Model.Coroutines
import Resonate.Proofs.Wf
namespace Resonate
open Coro

inductive AllYields (P : List Cmd → Prop) : Co → Prop
  | done (o : Option Resp) : AllYields P (.done o)
  | retry : AllYields P .retry
  | panic (s : String) : AllYields P (.panic s)
  | yield (subs : List Subm) (k : Time → List Cpl → Co) :
      (∀ tx, Subm.store tx ∈ subs → P tx) → (∀ t cpls, AllYields P (k t cpls)) → AllYields P (.yield subs k)

def WfC (tx : List Cmd) : Prop := wfCore tx = true ∧ tx ≠ []

theorem promiseStateOk_timedoutState (tags : SMap) : promiseStateOk (timedoutState tags) = true := by
  unfold timedoutState; split <;> decide

theorem wfC_completeTx (cmd : UpdatePromiseCmd) (t : Time) (h : promiseStateOk cmd.state = true) : WfC (completeTx cmd t) := by
  simp [WfC, completeTx, wfCore, wfCmdsP, h]

theorem wfC_timeoutTx (id : String) (p : Promise) (t : Time) : WfC (completeTx (timeoutCmd id p) t) :=
  wfC_completeTx _ _ (by simp [timeoutCmd, promiseStateOk_timedoutState])

/-- a transaction made of free commands only -/
theorem wfC_free (tx : List Cmd) (hne : tx ≠ []) (h : ∀ c ∈ tx, c.free = true) : WfC tx := by
  refine ⟨?_, hne⟩
  induction tx with
  | nil => rfl
  | cons c cs ih =>
    have hc := h c (List.mem_cons_self ..)
    have : wfCore (c :: cs) = wfCore cs := by cases c <;> simp_all [wfCore, wfCmdsP, Cmd.free]
    rw [this]
    cases cs with
    | nil => rfl
    | cons c' cs' => exact ih (by simp) (fun x hx => h x (List.mem_cons_of_mem _ hx))

theorem wfC_updateTasks (cs : List UpdateTaskCmd) (hne : cs ≠ []) : WfC (cs.map Cmd.updateTask) := by
  refine ⟨?_, by simpa using hne⟩
  induction cs with
  | nil => rfl
  | cons c cs ih =>
    cases cs with
    | nil => simp [wfCore, wfCmdsP]
    | cons c' cs' => simp only [List.map_cons, wfCore, wfCmdsP, Bool.true_and]; exact ih (by simp)

/-- single-submission yield -/
theorem ay1 {P : List Cmd → Prop} (tx : List Cmd) (k : Time → List Cpl → Co) (h : P tx)
    (hk : ∀ t cpls, AllYields P (k t cpls)) : AllYields P (.yield [.store tx] k) :=
  AllYields.yield _ _ (by intro tx' hm; simp at hm; subst hm; exact h) hk

/-- a yield without store submissions (router / sender) -/
theorem ay0 {P : List Cmd → Prop} (subs : List Subm) (k : Time → List Cpl → Co)
    (h : ∀ tx, Subm.store tx ∉ subs) (hk : ∀ t cpls, AllYields P (k t cpls)) : AllYields P (.yield subs k) :=
  AllYields.yield _ _ (fun tx hm => absurd hm (h tx)) hk

macro "ay_leaf" : tactic =>
  `(tactic| first | exact AllYields.done _ | exact AllYields.retry | exact AllYields.panic _)

/-- unfold the branch structure down to the leaves -/
macro "ay_branches" : tactic =>
  `(tactic| repeat' (first | ay_leaf | split | (dsimp only)))

/-- commands that may stand anywhere in a `wfCore` transaction -/
def Cmd.loose : Cmd → Bool
  | .updateTask _ => true
  | c => c.free

theorem wfC_loose (tx : List Cmd) (hne : tx ≠ []) (h : ∀ c ∈ tx, c.loose = true) : WfC tx := by
  refine ⟨?_, hne⟩
  clear hne
  induction tx with
  | nil => rfl
  | cons c cs ih =>
    have hc := h c (List.mem_cons_self ..)
    have : wfCore (c :: cs) = wfCore cs := by cases c <;> simp_all [wfCore, wfCmdsP, Cmd.free, Cmd.loose]
    rw [this]
    exact ih (fun x hx => h x (List.mem_cons_of_mem _ hx))

macro "ay_wf" : tactic =>
  `(tactic| first
    | exact wfC_timeoutTx _ _ _
    | (apply wfC_loose <;> simp [Cmd.loose, Cmd.free]; done)
    | (apply wfC_completeTx; simp_all [promiseStateOk]; done))

/-- walks the whole interaction tree: leaves, single-store yields (side goal `WfC tx`), branches -/
macro "ay_go" : tactic =>
  `(tactic| repeat' (first
    | ay_leaf
    | (refine ay1 _ _ ?_ ?_)
    | (intro (_ : Time) (_ : List Cpl))
    | ay_wf
    | split
    | (dsimp only)))

theorem ay_readPromise (id : String) (t0 : Time) : AllYields WfC (readPromise id t0) := by
  unfold readPromise; ay_go

/-- hypothesis on the task command carried by a CreatePromiseAndTask request -/
def TaskCmdOk (id : String) (tc : Option CreateTaskCmd) : Prop :=
  ∀ c, tc = some c → c.mesg.root = id ∧ (c.state = 1 ∨ (c.state = 4 ∧ c.processId.isSome = true))

theorem wfC_childCmd (pc : CreatePromiseCmd) (tc : Option CreateTaskCmd) (routed : Option String)
    (htc : TaskCmdOk pc.id tc) : WfC [childCmd pc (childTask pc tc routed)] := by
  refine ⟨?_, by simp⟩
  cases routed with
  | none => simp [childTask, childCmd, wfCore, wfCmdsP]
  | some recv =>
    cases tc with
    | none => simp [childTask, childCmd, wfCore, wfCmdsP, wfPromiseAndTask, T_INIT]
    | some c =>
      obtain ⟨hr, hs⟩ := htc c rfl
      simp only [childTask, childCmd, wfCore, wfCmdsP, wfPromiseAndTask, Bool.and_true, Bool.and_eq_true, Bool.or_eq_true, beq_iff_eq]
      exact ⟨hr, hs⟩

theorem ay_childStore (pc : CreatePromiseCmd) (ft : Option CreateTaskCmd) (k : ChildOut → Co)
    (hw : WfC [childCmd pc ft]) (hk : ∀ o, AllYields WfC (k o)) : AllYields WfC (childStore pc ft [] k) := by
  unfold childStore
  refine ay1 _ _ hw ?_
  intro t cpls
  repeat' (first | ay_leaf | exact hk _ | split | (dsimp only))

theorem ay_createPromiseChild (pc : CreatePromiseCmd) (tc : Option CreateTaskCmd) (k : ChildOut → Co)
    (htc : TaskCmdOk pc.id tc) (hk : ∀ o, AllYields WfC (k o)) : AllYields WfC (createPromiseChild pc tc [] k) := by
  unfold createPromiseChild
  refine ay0 _ _ (by simp) ?_
  intro t cpls
  split
  · split
    · exact hk _
    · split
      · exact hk _
      · exact ay_childStore _ _ _ (wfC_childCmd pc tc _ htc) hk
  · exact AllYields.panic _

theorem ay_createPromiseInner (req : CreatePromiseReq) (tc : Option CreateTaskCmd) (wt : Bool) (t0 : Time)
    (htc : TaskCmdOk req.id tc) : AllYields WfC (createPromiseInner req tc wt t0) := by
  unfold createPromiseInner
  dsimp only
  refine ay1 _ _ (by ay_wf) ?_
  intro t cpls
  split
  · ay_go
  · ay_go
  · apply ay_createPromiseChild _ _ _ htc
    intro o
    ay_go
  · ay_go

theorem ay_completePromise (req : CompletePromiseReq) (t0 : Time) (hs : promiseStateOk req.state = true) :
    AllYields WfC (completePromise req t0) := by
  unfold completePromise
  refine ay1 _ _ (by ay_wf) ?_
  intro t cpls
  split
  · ay_go
  · ay_go
  · ay_go
  · dsimp only
    split
    · refine ay1 _ _ ?_ ?_
      · split
        · exact wfC_completeTx _ _ hs
        · exact wfC_timeoutTx _ _ _
      · ay_go
    · ay_go

theorem ay_multiTimeout {α} (l : List α) (f : α → String × Promise) (t : Time) (k : Time → List Cpl → Co)
    (hk : ∀ t cpls, AllYields WfC (k t cpls)) :
    AllYields WfC (.yield (l.map fun x => .store (completeTx (timeoutCmd (f x).1 (f x).2) t)) k) := by
  refine AllYields.yield _ _ ?_ hk
  intro tx hm
  simp only [List.mem_map] at hm
  obtain ⟨x, _, hx⟩ := hm
  injection hx with hx; subst hx
  exact wfC_timeoutTx _ _ _

theorem ay_searchPromises (req : SearchPromisesReq) (t0 : Time) : AllYields WfC (searchPromises req t0) := by
  unfold searchPromises
  split
  · ay_leaf
  · split
    · ay_leaf
    · refine ay1 _ _ (by ay_wf) ?_
      intro t cpls
      split
      · ay_go
      · dsimp only
        split
        · ay_go
        · refine AllYields.yield _ _ ?_ (by intro t2 c2; ay_go)
          intro tx hm
          simp only [List.mem_map] at hm
          obtain ⟨x, _, hx⟩ := hm
          injection hx with hx; subst hx
          exact wfC_timeoutTx _ _ _
      · ay_go

theorem ay_registerCallback (pid cb recv : String) (m : Mesg) (to : Int) : AllYields WfC (registerCallback pid cb recv m to) := by
  unfold registerCallback; ay_go

theorem ay_createCallback (req : CreateCallbackReq) (t0 : Time) : AllYields WfC (createCallback req t0) := by
  unfold createCallback; split
  · ay_leaf
  · exact ay_registerCallback _ _ _ _ _

theorem ay_createSubscription (req : CreateSubscriptionReq) (t0 : Time) : AllYields WfC (createSubscription req t0) := by
  unfold createSubscription; exact ay_registerCallback _ _ _ _ _

theorem ay_readSchedule (id : String) (t0 : Time) : AllYields WfC (readSchedule id t0) := by
  unfold readSchedule; ay_go
theorem ay_createSchedule (env : Env) (req : CreateScheduleReq) (t0 : Time) : AllYields WfC (createSchedule env req t0) := by
  unfold createSchedule; ay_go
theorem ay_deleteSchedule (id : String) (t0 : Time) : AllYields WfC (deleteSchedule id t0) := by
  unfold deleteSchedule; ay_go
theorem ay_searchSchedules (req : SearchSchedulesReq) (t0 : Time) : AllYields WfC (searchSchedules req t0) := by
  unfold searchSchedules; ay_go
theorem ay_acquireLock (req : AcquireLockReq) (t0 : Time) : AllYields WfC (acquireLock req t0) := by
  unfold acquireLock; ay_go
theorem ay_releaseLock (a b : String) (t0 : Time) : AllYields WfC (releaseLock a b t0) := by
  unfold releaseLock; ay_go
theorem ay_heartbeatLocks (p : String) (t0 : Time) : AllYields WfC (heartbeatLocks p t0) := by
  unfold heartbeatLocks; ay_go
theorem ay_claimTask (env : Env) (req : ClaimTaskReq) (t0 : Time) : AllYields WfC (claimTask env req t0) := by
  unfold claimTask; ay_go
theorem ay_completeTask (id : String) (c : Int) (t0 : Time) : AllYields WfC (completeTask id c t0) := by
  unfold completeTask; ay_go
theorem ay_heartbeatTasks (p : String) (t0 : Time) : AllYields WfC (heartbeatTasks p t0) := by
  unfold heartbeatTasks; ay_go

/-! ### background coroutines -/

theorem ay_timeoutPromises (env : Env) (t0 : Time) : AllYields WfC (timeoutPromises env t0) := by
  unfold timeoutPromises
  refine ay1 _ _ (by ay_wf) ?_
  intro t cpls
  split
  · ay_go
  · split
    · ay_leaf
    · split
      · ay_leaf
      · split
        · ay_leaf
        · refine AllYields.yield _ _ ?_ (by intro t2 c2; ay_go)
          intro tx hm
          simp only [List.mem_map] at hm
          obtain ⟨x, _, hx⟩ := hm
          injection hx with hx; subst hx
          exact wfC_timeoutTx _ _ _
  · ay_go

theorem ay_timeoutLocks (t0 : Time) : AllYields WfC (timeoutLocks t0) := by
  unfold timeoutLocks; ay_go

theorem wfC_mapLoose {α} (l : List α) (f : α → Cmd) (hne : (l.map f).isEmpty = false) (h : ∀ x, (f x).loose = true) : WfC (l.map f) :=
  wfC_loose _ (by intro h0; simp [h0] at hne) (by intro c hc; simp only [List.mem_map] at hc; obtain ⟨x, _, rfl⟩ := hc; exact h x)

theorem ay_timeoutTasks (env : Env) (t0 : Time) : AllYields WfC (timeoutTasks env t0) := by
  unfold timeoutTasks
  refine ay1 _ _ (by ay_wf) ?_
  intro t cpls
  split
  · ay_go
  · split
    · ay_leaf
    · split
      · ay_leaf
      · dsimp only
        split
        · ay_leaf
        · rename_i hne
          refine ay1 _ _ ?_ (by intro _ _; ay_leaf)
          exact wfC_mapLoose _ _ (by simpa using hne) (by intro r; split <;> rfl)
  · ay_go

theorem enqueueOutcomeCmd_loose (e : Int) (r : TaskRow) (o : Cpl) : (enqueueOutcomeCmd e r o).loose = true := by
  unfold enqueueOutcomeCmd; split
  · rfl
  · split <;> rfl

theorem ay_enqueueFinish (dead : List Cmd) (live : List TaskRow) (e : Int) (outs : List Cpl)
    (hd : ∀ c ∈ dead, c.loose = true) : AllYields WfC (enqueueFinish dead live e outs) := by
  unfold enqueueFinish
  dsimp only
  split
  · ay_leaf
  · rename_i hne
    refine ay1 _ _ ?_ (by intro _ _; ay_leaf)
    refine wfC_loose _ (by intro h0; simp [h0] at hne) ?_
    intro c hc
    simp only [List.mem_append, List.mem_map] at hc
    rcases hc with hc | ⟨x, _, rfl⟩
    · exact hd c hc
    · exact enqueueOutcomeCmd_loose _ _ _

theorem ay_enqueueTasks (env : Env) (t0 : Time) : AllYields WfC (enqueueTasks env t0) := by
  unfold enqueueTasks
  refine ay1 _ _ (by ay_wf) ?_
  intro t cpls
  split
  · ay_go
  · split
    · ay_leaf
    · refine ay1 _ _ ?_ ?_
      · exact wfC_mapLoose _ _ (by rename_i h; simpa using h) (by intro r; rfl)
      · intro t2 cpls2
        have hdead : ∀ (l : List (TaskRow × Res)) (c : Cmd),
            c ∈ l.map (fun (x : TaskRow × Res) => Cmd.updateTask { id := x.1.id, processId := none, state := T_TIMEDOUT, counter := x.1.counter, attempt := x.1.attempt, ttl := 0, expiresAt := 0, completedOn := some x.1.timeout, currentStates := [T_INIT], currentCounter := x.1.counter }) → c.loose = true := by
          intro l c hc
          simp only [List.mem_map] at hc
          obtain ⟨x, _, rfl⟩ := hc
          rfl
        split
        · ay_go
        · split
          · ay_leaf
          · dsimp only
            split
            · ay_leaf
            · split
              · exact ay_enqueueFinish _ _ _ _ (hdead _)
              · refine ay0 _ _ ?_ ?_
                · intro tx hm
                  simp only [List.mem_map] at hm
                  obtain ⟨x, _, hx⟩ := hm
                  cases hx
                · intro t3 outs
                  exact ay_enqueueFinish _ _ _ _ (hdead _)
        · ay_go
  · ay_go

theorem ay_schedulePromises (env : Env) (t0 : Time) : AllYields WfC (schedulePromises env t0) := by
  unfold schedulePromises
  refine ay1 _ _ (by ay_wf) ?_
  intro t cpls
  split
  · ay_go
  · split
    · ay_leaf
    · dsimp only
      split
      · ay_leaf
      · refine ay0 _ _ ?_ ?_
        · intro tx hm
          simp only [List.mem_map] at hm
          obtain ⟨x, _, hx⟩ := hm
          cases hx
        · intro t2 rcs
          split
          · ay_leaf
          · split
            · ay_leaf
            · refine AllYields.yield _ _ ?_ (by intro t3 c3; ay_go)
              intro tx hm
              simp only [List.mem_map] at hm
              obtain ⟨⟨⟨pc, upd⟩, rc⟩, hmem0, hx⟩ := hm
              have hmem := (List.mem_filter.mp hmem0).1
              -- `upd` is the UpdateSchedule built for this item
              have hupd : upd.loose = true := by
                have h1 := List.of_mem_zip hmem
                have h2 := h1.1
                simp only [List.mem_filterMap] at h2
                obtain ⟨r, _, hr⟩ := h2
                split at hr
                · injection hr with hr; injection hr with _ hr; subst hr; rfl
                · cases hr
              split at hx
              · injection hx with hx; subst hx
                refine ⟨?_, by simp⟩
                cases upd <;> simp_all [wfCore, wfCmdsP, wfPromiseAndTask, Cmd.loose, Cmd.free, T_INIT]
              · injection hx with hx; subst hx
                exact wfC_loose _ (by simp) (by intro c hc; simp at hc; rcases hc with rfl | rfl <;> first | rfl | exact hupd)
  · ay_go

/-! ### every registered coroutine -/

/-- what front-end validation guarantees about a request, as far as the block structure needs it -/
def Req.StateOk : Req → Prop
  | .completePromise q => promiseStateOk q.state = true
  | _ => True

theorem ay_req (env : Env) (r : Req) (t0 t : Time) (h : r.StateOk) : AllYields WfC (r.body env t0 t) := by
  cases r with
  | readPromise id => exact ay_readPromise id t
  | searchPromises q => exact ay_searchPromises q t
  | createPromise q => exact ay_createPromiseInner q none false t (by intro c hc; cases hc)
  | createPromiseAndTask p tr =>
    simp only [Req.body]
    split
    · ay_leaf
    · split
      · ay_leaf
      · rename_i h1 h2
        refine ay_createPromiseInner _ _ _ _ ?_
        intro c hc
        injection hc with hc; subst hc
        refine ⟨?_, Or.inr ⟨rfl, rfl⟩⟩
        simp only [taskCmdOf]
        simpa using (by simpa using h1 : p.id = tr.promiseId).symm
  | completePromise q => exact ay_completePromise q t h
  | createCallback q => exact ay_createCallback q t
  | createSubscription q => exact ay_createSubscription q t
  | readSchedule id => exact ay_readSchedule id t
  | searchSchedules q => exact ay_searchSchedules q t
  | createSchedule q => exact ay_createSchedule env q t
  | deleteSchedule id => exact ay_deleteSchedule id t
  | acquireLock q => exact ay_acquireLock q t
  | releaseLock a b => exact ay_releaseLock a b t
  | heartbeatLocks p => exact ay_heartbeatLocks p t
  | claimTask q => exact ay_claimTask env q t
  | completeTask id c => exact ay_completeTask id c t
  | heartbeatTasks p => exact ay_heartbeatTasks p t

theorem ay_bg (env : Env) (k : BgKind) (t : Time) : AllYields WfC (k.body env t) := by
  cases k with
  | timeoutPromises => exact ay_timeoutPromises env t
  | schedulePromises => exact ay_schedulePromises env t
  | timeoutLocks => exact ay_timeoutLocks t
  | timeoutTasks => exact ay_timeoutTasks env t
  | enqueueTasks => exact ay_enqueueTasks env t

end Resonate
