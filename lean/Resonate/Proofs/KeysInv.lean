/-
  Proofs/KeysInv.lean — the key invariants the coroutines' assertions rely on (`Keys`, Proofs/NoPanic.lean)
  hold in every database the store can reach by commands of the shape the coroutines emit.

  `KeysX db` = `Keys db` + "no registration carries an invocation-shaped id" (registrations become tasks with the
  same id, and an invocation task must have its promise).  `cmdKOk` is the (syntactic) condition on one command:
  no bare `CreateTask`; a `CreateCallback` id is not of the form `__invoke:…`; the task of a
  `CreatePromiseAndTask` is the invocation task of that very promise.  Every command any coroutine yields
  satisfies it (Proofs/AllYieldsK.lean), and every successful command that satisfies it preserves `KeysX`.
-/
import Resonate.Proofs.NoPanic
namespace Resonate
open Coro SqlSpec

/-- not of the form `__invoke:<id>` -/
def NotInvoke (s : String) : Prop := ∀ id, s ≠ invokeId id

theorem invokeId_inj {a b : String} (h : invokeId a = invokeId b) : a = b := by
  unfold invokeId at h
  have := congrArg String.toList h
  simp only [String.toList_append] at this
  exact String.toList_injective (List.append_cancel_left this)

theorem notInvoke_callbackId (root leaf : String) : NotInvoke (callbackId root leaf) := by
  intro id h
  unfold callbackId invokeId at h
  have := congrArg String.toList h
  simp only [String.toList_append] at this
  have h1 : "__resume:".toList = ['_','_','r','e','s','u','m','e',':'] := by decide
  have h2 : "__invoke:".toList = ['_','_','i','n','v','o','k','e',':'] := by decide
  rw [h1, h2] at this
  simp at this

theorem notInvoke_subscriptionId (pid id : String) : NotInvoke (subscriptionId pid id) := by
  intro x h
  unfold subscriptionId invokeId at h
  have := congrArg String.toList h
  simp only [String.toList_append] at this
  have h1 : "__notify:".toList = ['_','_','n','o','t','i','f','y',':'] := by decide
  have h2 : "__invoke:".toList = ['_','_','i','n','v','o','k','e',':'] := by decide
  rw [h1, h2] at this
  simp at this

structure KeysX (db : Db) : Prop where
  keys : Keys db
  cbs : ∀ cb ∈ db.callbacks, NotInvoke cb.id

/-- the shape of one command as the coroutines emit it -/
def cmdKOk : Cmd → Prop
  | .createTask _ => False
  | .createCallback c => NotInvoke c.id
  | .createPromiseAndTask c => c.taskCommand.id = invokeId c.promiseCommand.id
  | _ => True

def KOk (tx : List Cmd) : Prop := ∀ c ∈ tx, cmdKOk c

/-! ### generic list facts -/

theorem pairwise_updateWhere {α κ} (key : α → κ) (p : α → Bool) (f : α → α) (l : List α)
    (hf : ∀ r, key (f r) = key r) (h : List.Pairwise (fun a b => key a ≠ key b) l) :
    List.Pairwise (fun a b => key a ≠ key b) (updateWhere p f l) := by
  unfold updateWhere
  rw [List.pairwise_map]
  refine h.imp ?_
  intro a b hab
  have ha : key (if p a = true then f a else a) = key a := by split <;> simp [hf]
  have hb : key (if p b = true then f b else b) = key b := by split <;> simp [hf]
  rw [ha, hb]; exact hab

theorem pairwise_snoc {α κ} (key : α → κ) (l : List α) (x : α)
    (h : List.Pairwise (fun a b => key a ≠ key b) l) (hx : ∀ a ∈ l, key a ≠ key x) :
    List.Pairwise (fun a b => key a ≠ key b) (l ++ [x]) := by
  rw [List.pairwise_append]
  refine ⟨h, List.pairwise_singleton _ _, ?_⟩
  intro a ha b hb
  simp only [List.mem_singleton] at hb
  subst hb
  exact hx a ha

theorem updateWhere_key {α κ} (key : α → κ) (p : α → Bool) (f : α → α) (l : List α) (hf : ∀ r, key (f r) = key r)
    (y : α) (hy : y ∈ updateWhere p f l) : ∃ x ∈ l, key x = key y := by
  rw [mem_updateWhere] at hy
  obtain ⟨x, hx, h | h⟩ := hy
  · exact ⟨x, hx, by rw [h.2, hf]⟩
  · exact ⟨x, hx, by rw [h.2]⟩

/-! ### tasks made from registrations -/

theorem insertTasksFrom_spec (d : Dialect) (c : CreateTasksCmd) :
    ∀ (cbs : List CallbackRow) (tasks : List TaskRow) (seq : Nat) (ts : List TaskRow) (s n : Nat),
      insertTasksFrom (defs d) c cbs tasks seq = .ok (ts, s, n) →
      List.Pairwise (fun a b : TaskRow => a.id ≠ b.id) tasks →
      List.Pairwise (fun a b : TaskRow => a.id ≠ b.id) ts ∧
      ∀ t ∈ ts, t ∈ tasks ∨ ∃ cb ∈ cbs, t.id = cb.id := by
  intro cbs
  induction cbs with
  | nil =>
    intro tasks seq ts s n h hp
    simp only [insertTasksFrom] at h
    injection h with h; injection h with h _; subst h
    exact ⟨hp, fun t ht => .inl ht⟩
  | cons cb rest ih =>
    intro tasks seq ts s n h hp
    simp only [insertTasksFrom] at h
    split at h
    · cases h
    · rename_i hany
      cases hr : insertTasksFrom (defs d) c rest (tasks ++ [(defs d).taskInsertAll_row c cb (seq + 1)]) (seq + 1) with
      | error e => simp [hr] at h
      | ok q =>
        obtain ⟨ts2, s2, n2⟩ := q
        simp only [hr] at h
        injection h with h; injection h with h1 h2; subst h1
        have hany' : tasks.any (fun t => t.id == ((defs d).taskInsertAll_row c cb (seq + 1)).id) = false := by simpa using hany
        rw [List.any_eq_false] at hany'
        have hp' := pairwise_snoc (fun t : TaskRow => t.id) tasks ((defs d).taskInsertAll_row c cb (seq + 1)) hp
          (by intro a ha; simpa using hany' a ha)
        obtain ⟨h1, h2⟩ := ih _ _ _ _ _ hr hp'
        refine ⟨h1, ?_⟩
        intro t ht
        rcases h2 t ht with hm | ⟨cb', hcb', he⟩
        · rw [List.mem_append, List.mem_singleton] at hm
          rcases hm with hm | hm
          · exact .inl hm
          · right; exact ⟨cb, List.mem_cons_self .., by rw [hm]; rfl⟩
        · right; exact ⟨cb', List.mem_cons_of_mem _ hcb', he⟩

/-! ### one command -/

theorem createPromise_ids (d : Dialect) (db : Db) (c : CreatePromiseCmd) :
    (∀ p ∈ db.promises, p ∈ (db.createPromise (defs d) c).1.promises) ∧
    (∀ p ∈ (db.createPromise (defs d) c).1.promises, p ∈ db.promises ∨ (p.id = c.id ∧ p.state = 1)) ∧
    ((db.createPromise (defs d) c).2 ≠ 0 → ∃ p ∈ (db.createPromise (defs d) c).1.promises, p.id = c.id) := by
  unfold Db.createPromise
  split
  · exact ⟨fun p hp => hp, fun p hp => .inl hp, fun h => absurd rfl h⟩
  · refine ⟨fun p hp => List.mem_append_left _ hp, ?_, ?_⟩
    · intro p hp
      rw [List.mem_append, List.mem_singleton] at hp
      rcases hp with hp | hp
      · exact .inl hp
      · right; rw [hp]; exact ⟨rfl, rfl⟩
    · intro _
      exact ⟨_, List.mem_append_right _ (List.mem_singleton_self _), rfl⟩

theorem createTask_spec (d : Dialect) (db db' : Db) (c : CreateTaskCmd) (n : Nat) (h : db.createTask (defs d) c = .ok (db', n))
    (hp : List.Pairwise (fun a b : TaskRow => a.id ≠ b.id) db.tasks) :
    List.Pairwise (fun a b : TaskRow => a.id ≠ b.id) db'.tasks ∧ ∀ t ∈ db'.tasks, t ∈ db.tasks ∨ t.id = c.id := by
  unfold Db.createTask at h
  split at h
  · cases h
  · split at h
    · cases h
    · split at h
      · injection h with h; injection h with h _; subst h
        exact ⟨hp, fun t ht => .inl ht⟩
      · rename_i hany
        injection h with h; injection h with h _; subst h
        have hany' : db.tasks.any (fun r => r.id == c.id) = false := by simpa using hany
        rw [List.any_eq_false] at hany'
        refine ⟨pairwise_snoc (fun t : TaskRow => t.id) _ _ hp (by intro a ha; simpa [defs, taskInsert_row] using hany' a ha), ?_⟩
        intro t ht
        simp only [List.mem_append, List.mem_singleton] at ht
        rcases ht with ht | ht
        · exact .inl ht
        · right; rw [ht]; rfl

theorem keysX_exec (d : Dialect) (db db' : Db) (cmd : Cmd) (r : Res) (hk : KeysX db) (hc : cmdKOk cmd)
    (h : db.exec (defs d) cmd = .ok (db', r)) : KeysX db' := by
  have fr := exec_frame _ _ _ _ _ h
  obtain ⟨⟨kp, ks, kl, kt, kst, kinv⟩, kcb⟩ := hk
  -- a command that writes neither promises nor tasks nor callbacks keeps the three cross-table facts
  have keep : db'.promises = db.promises → db'.tasks = db.tasks → db'.callbacks = db.callbacks →
      List.Pairwise (fun a b : ScheduleRow => a.id ≠ b.id) db'.schedules →
      List.Pairwise (fun a b : LockRow => a.resourceId ≠ b.resourceId) db'.locks → KeysX db' := by
    intro e1 e2 e3 hs hl
    refine ⟨⟨by unfold PromIds; rw [e1]; exact kp, hs, hl, by rw [e2]; exact kt, by rw [e1]; exact kst, ?_⟩, by rw [e3]; exact kcb⟩
    rw [e1, e2]; exact kinv
  cases cmd with
  | readPromise c | readPromises c | readSchedule c | readSchedules c | readTask c | readEnqueueableTasks c | readLock c
  | searchPromises c | searchSchedules c | readTasks c =>
    have f1 := fr.1 rfl; have f2 := fr.2.1 rfl; have f3 := fr.2.2.1 rfl; have f4 := fr.2.2.2.1 rfl; have f5 := fr.2.2.2.2 rfl
    exact keep f1.1 f5.1 f2 (by rw [f3.1]; exact ks) (by rw [f4]; exact kl)
  | createSchedule c =>
    have f1 := fr.1 rfl; have f2 := fr.2.1 rfl; have f4 := fr.2.2.2.1 rfl; have f5 := fr.2.2.2.2 rfl
    refine keep f1.1 f5.1 f2 ?_ (by rw [f4]; exact kl)
    simp only [Db.exec] at h
    split at h
    · injection h with h; injection h with h _; subst h; exact ks
    · rename_i hany
      injection h with h; injection h with h _; subst h
      have hany' : db.schedules.any (fun r => r.id == c.id) = false := by simpa using hany
      rw [List.any_eq_false] at hany'
      exact pairwise_snoc (fun s : ScheduleRow => s.id) _ _ ks (by intro a ha; simpa [defs, scheduleInsert_row] using hany' a ha)
  | updateSchedule c =>
    have f1 := fr.1 rfl; have f2 := fr.2.1 rfl; have f4 := fr.2.2.2.1 rfl; have f5 := fr.2.2.2.2 rfl
    refine keep f1.1 f5.1 f2 ?_ (by rw [f4]; exact kl)
    simp only [Db.exec] at h
    injection h with h; injection h with h _; subst h
    exact pairwise_updateWhere (fun s : ScheduleRow => s.id) _ _ _ (by intro r; rfl) ks
  | deleteSchedule c =>
    have f1 := fr.1 rfl; have f2 := fr.2.1 rfl; have f4 := fr.2.2.2.1 rfl; have f5 := fr.2.2.2.2 rfl
    refine keep f1.1 f5.1 f2 ?_ (by rw [f4]; exact kl)
    simp only [Db.exec] at h
    injection h with h; injection h with h _; subst h
    exact ks.filter _
  | acquireLock c =>
    have f1 := fr.1 rfl; have f2 := fr.2.1 rfl; have f3 := fr.2.2.1 rfl; have f5 := fr.2.2.2.2 rfl
    refine keep f1.1 f5.1 f2 (by rw [f3.1]; exact ks) ?_
    simp only [Db.exec] at h
    split at h
    · injection h with h; injection h with h _; subst h
      exact pairwise_updateWhere (fun s : LockRow => s.resourceId) _ _ _ (by intro r; rfl) kl
    · rename_i hany
      injection h with h; injection h with h _; subst h
      have hany' : db.locks.any (fun r => r.resourceId == ((defs d).lockAcquire_row c).resourceId) = false := by simpa using hany
      rw [List.any_eq_false] at hany'
      exact pairwise_snoc (fun s : LockRow => s.resourceId) _ _ kl (by intro a ha; simpa using hany' a ha)
  | releaseLock c | timeoutLocks c =>
    have f1 := fr.1 rfl; have f2 := fr.2.1 rfl; have f3 := fr.2.2.1 rfl; have f5 := fr.2.2.2.2 rfl
    refine keep f1.1 f5.1 f2 (by rw [f3.1]; exact ks) ?_
    simp only [Db.exec] at h
    injection h with h; injection h with h _; subst h
    exact kl.filter _
  | heartbeatLocks c =>
    have f1 := fr.1 rfl; have f2 := fr.2.1 rfl; have f3 := fr.2.2.1 rfl; have f5 := fr.2.2.2.2 rfl
    refine keep f1.1 f5.1 f2 (by rw [f3.1]; exact ks) ?_
    simp only [Db.exec] at h
    injection h with h; injection h with h _; subst h
    exact pairwise_updateWhere (fun s : LockRow => s.resourceId) _ _ _ (by intro r; rfl) kl
  | createCallback c =>
    have f1 := fr.1 rfl; have f3 := fr.2.2.1 rfl; have f4 := fr.2.2.2.1 rfl; have f5 := fr.2.2.2.2 rfl
    refine ⟨⟨by unfold PromIds; rw [f1.1]; exact kp, by rw [f3.1]; exact ks, by rw [f4]; exact kl, by rw [f5.1]; exact kt,
      by rw [f1.1]; exact kst, by rw [f1.1, f5.1]; exact kinv⟩, ?_⟩
    simp only [Db.exec] at h
    split at h
    · injection h with h; injection h with h _; subst h
      intro cb hcb
      simp only [List.mem_append, List.mem_singleton] at hcb
      rcases hcb with hcb | hcb
      · exact kcb cb hcb
      · rw [hcb]; exact hc
    · injection h with h; injection h with h _; subst h; exact kcb
  | deleteCallbacks c =>
    have f1 := fr.1 rfl; have f3 := fr.2.2.1 rfl; have f4 := fr.2.2.2.1 rfl; have f5 := fr.2.2.2.2 rfl
    refine ⟨⟨by unfold PromIds; rw [f1.1]; exact kp, by rw [f3.1]; exact ks, by rw [f4]; exact kl, by rw [f5.1]; exact kt,
      by rw [f1.1]; exact kst, by rw [f1.1, f5.1]; exact kinv⟩, ?_⟩
    simp only [Db.exec] at h
    injection h with h; injection h with h _; subst h
    intro cb hcb
    exact kcb cb (List.mem_filter.mp hcb).1
  | createTask c => exact absurd hc (by simp [cmdKOk])
  | completeTasks c | heartbeatTasks c =>
    have f1 := fr.1 rfl; have f2 := fr.2.1 rfl; have f3 := fr.2.2.1 rfl; have f4 := fr.2.2.2.1 rfl
    simp only [Db.exec] at h
    injection h with h; injection h with h _; subst h
    refine ⟨⟨kp, ks, kl, pairwise_updateWhere (fun s : TaskRow => s.id) _ _ _ (by intro r; rfl) kt, kst, ?_⟩, kcb⟩
    intro t ht id hid
    obtain ⟨t0, ht0, he⟩ := updateWhere_key (fun s : TaskRow => s.id) _ _ _ (by intro r; rfl) t ht
    exact kinv t0 ht0 id (by rw [he]; exact hid)
  | updateTask c =>
    simp only [Db.exec] at h
    split at h
    · cases h
    · injection h with h; injection h with h _; subst h
      refine ⟨⟨kp, ks, kl, pairwise_updateWhere (fun s : TaskRow => s.id) _ _ _ (by intro r; rfl) kt, kst, ?_⟩, kcb⟩
      intro t ht id hid
      obtain ⟨t0, ht0, he⟩ := updateWhere_key (fun s : TaskRow => s.id) _ _ _ (by intro r; rfl) t ht
      exact kinv t0 ht0 id (by rw [he]; exact hid)
  | createTasks c =>
    simp only [Db.exec] at h
    split at h
    · rename_i ts s n hins
      injection h with h; injection h with h _; subst h
      obtain ⟨h1, h2⟩ := insertTasksFrom_spec d c _ _ _ _ _ _ hins kt
      refine ⟨⟨kp, ks, kl, h1, kst, ?_⟩, kcb⟩
      intro t ht id hid
      rcases h2 t ht with hm | ⟨cb, hcb, he⟩
      · exact kinv t hm id hid
      · have hcb' : cb ∈ db.callbacks := by
          have := List.mem_mergeSort.mp hcb
          exact (List.mem_filter.mp this).1
        exact absurd (by rw [← he]; exact hid) (kcb cb hcb' id)
    · cases h
  | createPromise c =>
    have f := createPromise_frame (defs d) db c
    have hi := createPromise_ids d db c
    simp only [Db.exec] at h
    injection h with h; injection h with h _; subst h
    refine ⟨⟨promIds_createPromise d db c kp, by rw [f.2.1]; exact ks, by rw [f.2.2.1]; exact kl, by rw [f.2.2.2.1]; exact kt, ?_, ?_⟩,
      by rw [f.1]; exact kcb⟩
    · intro p hp
      rcases hi.2.1 p hp with hp | hp
      · exact kst p hp
      · exact .inl hp.2
    · rw [f.2.2.2.1]
      intro t ht id hid
      obtain ⟨p, hp, hpid⟩ := kinv t ht id hid
      exact ⟨p, hi.1 p hp, hpid⟩
  | updatePromise c =>
    simp only [Db.exec] at h
    split at h
    · cases h
    · rename_i hok
      injection h with h; injection h with h _; subst h
      refine ⟨⟨promIds_update _ _ _ (by intro r; rfl) kp, ks, kl, kt, ?_, ?_⟩, kcb⟩
      · intro p hp
        rw [mem_updateWhere] at hp
        obtain ⟨p0, hp0, h | h⟩ := hp
        · have hs : p.state = c.state := by rw [h.2]; rfl
          have hok' : promiseStateOk c.state = true := by simpa using hok
          rw [hs]
          simp only [promiseStateOk, Bool.or_eq_true, beq_iff_eq] at hok'
          rcases hok' with ((h2 | h4) | h8) | h16
          · exact .inr (.inl h2)
          · exact .inr (.inr (.inl h4))
          · exact .inr (.inr (.inr (.inl h8)))
          · exact .inr (.inr (.inr (.inr h16)))
        · rw [h.2]; exact kst p0 hp0
      · intro t ht id hid
        obtain ⟨p, hp, hpid⟩ := kinv t ht id hid
        by_cases hm : (defs d).promiseUpdate_where c p = true
        · exact ⟨(defs d).promiseUpdate_set c p, (mem_updateWhere _ _ _ _).mpr ⟨p, hp, .inl ⟨hm, rfl⟩⟩, hpid⟩
        · exact ⟨p, (mem_updateWhere _ _ _ _).mpr ⟨p, hp, .inr ⟨by simpa using hm, rfl⟩⟩, hpid⟩
  | createPromiseAndTask c =>
    have f := createPromise_frame (defs d) db c.promiseCommand
    have hi := createPromise_ids d db c.promiseCommand
    have kp1 := promIds_createPromise d db c.promiseCommand kp
    have kst1 : ∀ p ∈ (db.createPromise (defs d) c.promiseCommand).1.promises, p.state = 1 ∨ p.state = 2 ∨ p.state = 4 ∨ p.state = 8 ∨ p.state = 16 := by
      intro p hp
      rcases hi.2.1 p hp with hp | hp
      · exact kst p hp
      · exact .inl hp.2
    simp only [Db.exec] at h
    split at h
    · injection h with h; injection h with h _; subst h
      refine ⟨⟨kp1, by rw [f.2.1]; exact ks, by rw [f.2.2.1]; exact kl, by rw [f.2.2.2.1]; exact kt, kst1, ?_⟩, by rw [f.1]; exact kcb⟩
      rw [f.2.2.2.1]
      intro t ht id hid
      obtain ⟨p, hp, hpid⟩ := kinv t ht id hid
      exact ⟨p, hi.1 p hp, hpid⟩
    · rename_i hn
      split at h
      · rename_i db2 m hct
        injection h with h; injection h with h _; subst h
        have f2 := createTask_frame _ _ _ _ _ hct
        obtain ⟨t1, t2⟩ := createTask_spec d _ _ _ _ hct (by rw [f.2.2.2.1]; exact kt)
        refine ⟨⟨by unfold PromIds; rw [f2.1]; exact kp1, by rw [f2.2.2.1, f.2.1]; exact ks, by rw [f2.2.2.2.1, f.2.2.1]; exact kl,
          t1, by rw [f2.1]; exact kst1, ?_⟩, by rw [f2.2.1, f.1]; exact kcb⟩
        rw [f2.1]
        intro t ht id hid
        rcases t2 t ht with hm | hm
        · rw [f.2.2.2.1] at hm
          obtain ⟨p, hp, hpid⟩ := kinv t hm id hid
          exact ⟨p, hi.1 p hp, hpid⟩
        · have hcid : c.taskCommand.id = invokeId c.promiseCommand.id := hc
          have : id = c.promiseCommand.id := invokeId_inj (by rw [← hid, hm, hcid])
          rw [this]
          exact hi.2.2 (by intro h0; simp [h0] at hn)
      · cases h

theorem keysX_execTx (d : Dialect) : ∀ (tx : List Cmd) (db db' : Db) (rs : List Res), KeysX db → KOk tx →
    db.execTx (defs d) tx = .ok (db', rs) → KeysX db' := by
  intro tx
  induction tx with
  | nil => intro db db' rs hk _ h; simp [Db.execTx] at h; rw [← h.1]; exact hk
  | cons c cs ih =>
    intro db db' rs hk hok h
    obtain ⟨db1, r1, rs1, e1, x1, _⟩ := execTx_cons_ok _ _ _ _ _ _ h
    exact ih db1 db' rs1 (keysX_exec d db db1 c r1 hk (hok c (List.mem_cons_self ..)) e1)
      (fun x hx => hok x (List.mem_cons_of_mem _ hx)) x1

theorem keysX_empty : KeysX ({} : Db) :=
  ⟨⟨by simp [PromIds], by simp, by simp, by simp, by simp, by simp⟩, by simp⟩

end Resonate
