/-
  Proofs/Converge.lean — progress measures of the background sweeps: one complete successful cycle of a sweep
  strictly decreases the number of items it is responsible for, by the batch size or to zero.
-/
import Resonate.Model.Coroutines
import Resonate.Model.SqlSpec
import Resonate.Proofs.PromIds
import Resonate.Proofs.StoreBasics
import Resonate.Proofs.Frame
import Resonate.Proofs.Wf
import Resonate.Proofs.Lift
import Resonate.Properties.C10
namespace Resonate
open SqlSpec Coro

/-! ### promises past their timeout -/

def overdueP (t : Time) (r : PromiseRow) : Bool := r.state == 1 && decide (r.timeout ≤ t)

/-- promises still pending although their timeout has passed at clock `t` -/
def overdue (t : Time) (db : Db) : Nat := countP (overdueP t) db.promises

/-- the completion block touches the promises table only through its guarded update -/
theorem completeTx_promises (d : Dialect) (db db' : Db) (cmd : UpdatePromiseCmd) (t1 : Time) (rs : List Res)
    (h : db.execTx (defs d) (completeTx cmd t1) = .ok (db', rs)) :
    db'.promises = updateWhere ((defs d).promiseUpdate_where cmd) ((defs d).promiseUpdate_set cmd) db.promises := by
  obtain ⟨db1, r1, rs1, e1, x1, _⟩ := execTx_cons_ok _ _ _ _ _ _ h
  obtain ⟨db2, r2, rs2, e2, x2, _⟩ := execTx_cons_ok _ _ _ _ _ _ x1
  obtain ⟨db3, r3, rs3, e3, x3, _⟩ := execTx_cons_ok _ _ _ _ _ _ x2
  obtain ⟨db4, r4, rs4, e4, x4, _⟩ := execTx_cons_ok _ _ _ _ _ _ x3
  simp [Db.execTx] at x4
  obtain ⟨hdb, _⟩ := x4
  subst hdb
  have f2 := (exec_frame _ _ _ _ _ e2).1 rfl
  have f3 := (exec_frame _ _ _ _ _ e3).1 rfl
  have f4 := (exec_frame _ _ _ _ _ e4).1 rfl
  rw [f4.1, f3.1, f2.1]
  simp only [Db.exec] at e1
  split at e1
  · cases e1
  · injection e1 with e1; injection e1 with hd _; subst hd; rfl

theorem map_eq_self {α : Type} (f : α → α) : ∀ (l : List α), (∀ x ∈ l, f x = x) → l.map f = l := by
  intro l
  induction l with
  | nil => intro _; rfl
  | cons a l ih => intro h; rw [List.map_cons, h a (by simp), ih (fun x hx => h x (by simp [hx]))]

/-- timing out one overdue pending promise removes exactly that one from the overdue set -/
theorem overdue_update (t : Time) (cmd : UpdatePromiseCmd) (hs : cmd.state ≠ 1) :
    ∀ (l : List PromiseRow), List.Pairwise (fun a b : PromiseRow => a.id ≠ b.id) l →
    (∃ x ∈ l, x.id = cmd.id ∧ overdueP t x = true) →
    countP (overdueP t) (updateWhere (promiseUpdate_where cmd) (promiseUpdate_set cmd) l) + 1 = countP (overdueP t) l := by
  intro l
  induction l with
  | nil => intro _ ⟨x, hx, _⟩; cases hx
  | cons a l ih =>
    intro hp ⟨x, hx, hid, hov⟩
    rw [List.pairwise_cons] at hp
    simp only [updateWhere, List.map_cons, countP, List.filter_cons]
    simp only [List.mem_cons] at hx
    rcases hx with rfl | hx
    · -- the head is the promise: it leaves the set, the tail is untouched
      have hw : promiseUpdate_where cmd x = true := by
        simp only [overdueP, Bool.and_eq_true, beq_iff_eq] at hov
        simp [promiseUpdate_where, hid, hov.1]
      have hset : overdueP t (promiseUpdate_set cmd x) = false := by
        simp [overdueP, promiseUpdate_set, hs]
      have htail : l.map (fun r => if promiseUpdate_where cmd r = true then promiseUpdate_set cmd r else r) = l := by
        apply map_eq_self
        intro r hr
        have : promiseUpdate_where cmd r = false := by
          have hne := hp.1 r hr
          simp only [promiseUpdate_where, Bool.and_eq_false_iff, beq_eq_false_iff_ne]
          left; intro h; exact hne (hid.trans h.symm)
        simp [this]
      simp only [hw, if_true, hset, Bool.false_eq_true, if_false, hov, htail, List.length_cons]
    · -- the promise is in the tail: the head is another promise, untouched
      have hne : a.id ≠ cmd.id := fun h => hp.1 x hx (h.trans hid.symm)
      have hwa : promiseUpdate_where cmd a = false := by
        simp only [promiseUpdate_where, Bool.and_eq_false_iff, beq_eq_false_iff_ne]; left; exact hne
      have := ih hp.2 ⟨x, hx, hid, hov⟩
      simp only [updateWhere, countP] at this
      simp only [hwa, Bool.false_eq_true, if_false]
      by_cases ho : overdueP t a = true
      · simp only [ho, if_true, List.length_cons]; omega
      · simp only [ho, Bool.false_eq_true, if_false]; omega

/-- the transactions one time-out sweep submits for the rows it read -/
def sweepTxs (rows : List PromiseRow) (t : Time) : List (List Cmd) :=
  rows.map fun r => completeTx (timeoutCmd r.id r.toPromise) t

theorem timedoutState_ne_one (tags : SMap) : timedoutState tags ≠ 1 := by
  unfold timedoutState; split <;> decide

/-- **one sweep, executed completely**: every row it read leaves the overdue set, nothing enters it -/
theorem sweep_progress (d : Dialect) (t : Time) : ∀ (rows : List PromiseRow) (db db' : Db) (rss : List (List Res)),
    PromIds db → List.Pairwise (fun a b : PromiseRow => a.id ≠ b.id) rows →
    (∀ r ∈ rows, ∃ x ∈ db.promises, x.id = r.id ∧ overdueP t x = true) →
    db.execTxs (defs d) (sweepTxs rows t) = .ok (db', rss) →
    overdue t db' + rows.length = overdue t db := by
  intro rows
  induction rows with
  | nil =>
    intro db db' rss _ _ _ h
    simp [sweepTxs, Db.execTxs] at h
    simp [h.1]
  | cons r rows ih =>
    intro db db' rss hk hp hall h
    rw [List.pairwise_cons] at hp
    simp only [sweepTxs, List.map_cons, Db.execTxs] at h
    split at h
    · cases h
    · cases h1 : db.execTx (defs d) (completeTx (timeoutCmd r.id r.toPromise) t) with
      | error e => simp [h1] at h
      | ok p =>
        obtain ⟨db1, rs1⟩ := p
        simp only [h1] at h
        cases h2 : db1.execTxs (defs d) (rows.map fun r => completeTx (timeoutCmd r.id r.toPromise) t) with
        | error e => simp [h2] at h
        | ok q =>
          obtain ⟨db2, rss2⟩ := q
          simp only [h2] at h
          injection h with h; injection h with hd _
          subst hd
          have hprom := completeTx_promises d db db1 _ t rs1 h1
          have hstep : overdue t db1 + 1 = overdue t db := by
            unfold overdue
            rw [hprom]
            exact overdue_update t (timeoutCmd r.id r.toPromise) (by simp [timeoutCmd, timedoutState_ne_one]) db.promises hk
              (by obtain ⟨x, hx, hid, hov⟩ := hall r (by simp); exact ⟨x, hx, by simpa [timeoutCmd] using hid, hov⟩)
          have hk1 : PromIds db1 := by
            unfold PromIds; rw [hprom]
            exact promIds_update _ _ _ (by intro r; rfl) hk
          have hall1 : ∀ r' ∈ rows, ∃ x ∈ db1.promises, x.id = r'.id ∧ overdueP t x = true := by
            intro r' hr'
            obtain ⟨x, hx, hid, hov⟩ := hall r' (by simp [hr'])
            refine ⟨x, ?_, hid, hov⟩
            rw [hprom]
            refine List.mem_map.mpr ⟨x, hx, ?_⟩
            have : promiseUpdate_where (timeoutCmd r.id r.toPromise) x = false := by
              simp only [promiseUpdate_where, Bool.and_eq_false_iff, beq_eq_false_iff_ne]
              left; intro h; exact hp.1 r' hr' (by simpa [timeoutCmd] using (hid.symm.trans h).symm)
            simp [defs, this]
          have := ih db1 db2 rss2 hk1 hp.2 hall1 h2
          simp only [List.length_cons]
          omega

/-- the rows a sweep reads at clock `t` with batch size `b` -/
def sweepRows (d : Dialect) (db : Db) (t : Time) (b : Nat) : List PromiseRow :=
  (takeLimit ((defs d).promiseSelectAll_limit { time := t, limit := b }) (db.promises.filter ((defs d).promiseSelectAll_where { time := t, limit := b }))).map
    (defs d).promiseSelectAll_proj

theorem sweepRows_spec (d : Dialect) (db : Db) (t : Time) (b : Nat) (hk : PromIds db) :
    (sweepRows d db t b).length = min b (overdue t db) ∧
    List.Pairwise (fun a b : PromiseRow => a.id ≠ b.id) (sweepRows d db t b) ∧
    ∀ r ∈ sweepRows d db t b, ∃ x ∈ db.promises, x.id = r.id ∧ overdueP t x = true := by
  have hw : (defs d).promiseSelectAll_where { time := t, limit := b } = overdueP t := by
    funext r; simp [defs, promiseSelectAll_where, overdueP]
  have hlim : (defs d).promiseSelectAll_limit { time := t, limit := (b : Int) } = (b : Int) := rfl
  have htl : takeLimit (b : Int) (db.promises.filter (overdueP t)) = (db.promises.filter (overdueP t)).take b := by
    have : ¬ ((b : Int) < 0) := by omega
    simp [takeLimit, this]
  unfold sweepRows
  rw [hw, hlim, htl]
  refine ⟨by simp [overdue, countP, List.length_take], ?_, ?_⟩
  · rw [List.pairwise_map]
    have hsub : ((db.promises.filter (overdueP t)).take b).Sublist db.promises :=
      (List.take_sublist _ _).trans List.filter_sublist
    exact (List.Pairwise.sublist hsub hk).imp (fun h => by simpa [defs, promiseSelectAll_proj] using h)
  · intro r hr
    obtain ⟨x, hx, rfl⟩ := List.mem_map.mp hr
    have hxf := List.mem_filter.mp (List.mem_of_mem_take hx)
    exact ⟨x, hxf.1, by simp [defs, promiseSelectAll_proj], hxf.2⟩

/-- **C11, time-out sweep**: one complete successful cycle at clock `t` with batch size `b` leaves
    `overdue - min b overdue` promises pending past their timeout -/
theorem timeout_cycle (d : Dialect) (db db' : Db) (t : Time) (b : Nat) (rss : List (List Res)) (hk : PromIds db)
    (hx : db.execTxs (defs d) (sweepTxs (sweepRows d db t b) t) = .ok (db', rss)) :
    overdue t db' = overdue t db - min b (overdue t db) := by
  obtain ⟨hlen, hp, hall⟩ := sweepRows_spec d db t b hk
  have := sweep_progress d t _ db db' rss hk hp hall hx
  omega

/-- one complete successful time-out cycle of the idle server at clock `t` with batch size `b` -/
def TimeoutCycle (d : Dialect) (t : Time) (b : Nat) (db db' : Db) : Prop :=
  ∃ rss, db.execTxs (defs d) (sweepTxs (sweepRows d db t b) t) = .ok (db', rss)

theorem promIds_execTxs (d : Dialect) (txs : List (List Cmd)) (db db' : Db) (rss : List (List Res))
    (h : db.execTxs (defs d) txs = .ok (db', rss)) (hk : PromIds db) : PromIds db' := by
  have := execTxs_lift (defs d) (fun a b => PromIds a → PromIds b) (fun _ h => h) (fun _ _ _ h1 h2 h => h2 (h1 h))
    (fun a b cs rs hx => execTx_lift (defs d) (fun a b => PromIds a → PromIds b) (fun _ h => h) (fun _ _ _ h1 h2 h => h2 (h1 h))
      (fun a b c r hx hi => promIds_exec d a b c r hi hx) cs a b rs hx) txs db db' rss h
  exact this hk

/-- **C11, bound**: after `k` complete cycles of the idle server at clock `t` with batch size `b`, at most
    `overdue - k·b` promises are still pending past their timeout; none once `k·b ≥ overdue` (i.e. after ⌈overdue / b⌉ cycles) -/
theorem timeout_cycles (d : Dialect) (t : Time) (b : Nat) : ∀ (k : Nat) (dbs : Nat → Db),
    PromIds (dbs 0) → (∀ i, i < k → TimeoutCycle d t b (dbs i) (dbs (i + 1))) →
    PromIds (dbs k) ∧ overdue t (dbs k) = overdue t (dbs 0) - k * b := by
  intro k
  induction k with
  | zero => intro dbs hk _; exact ⟨hk, by simp⟩
  | succ k ih =>
    intro dbs hk hc
    obtain ⟨hkk, hov⟩ := ih dbs hk (fun i hi => hc i (Nat.lt_succ_of_lt hi))
    obtain ⟨rss, hx⟩ := hc k (Nat.lt_succ_self k)
    refine ⟨promIds_execTxs d _ _ _ rss hx hkk, ?_⟩
    rw [timeout_cycle d _ _ t b rss hkk hx, hov]
    have : (k + 1) * b = k * b + b := by rw [Nat.add_mul, Nat.one_mul]
    omega

theorem timeout_converges (d : Dialect) (t : Time) (b : Nat) (k : Nat) (dbs : Nat → Db)
    (hk : PromIds (dbs 0)) (hc : ∀ i, i < k → TimeoutCycle d t b (dbs i) (dbs (i + 1))) (hkb : overdue t (dbs 0) ≤ k * b) :
    overdue t (dbs k) = 0 := by
  have := (timeout_cycles d t b k dbs hk hc).2
  omega

/-! ### locks past their lease: one sweep removes all of them -/

def expiredLocks (t : Time) (db : Db) : Nat := countP (fun r : LockRow => decide (r.expiresAt ≤ t)) db.locks

theorem lock_sweep (d : Dialect) (db db' : Db) (t : Time) (r : Res)
    (h : db.exec (defs d) (.timeoutLocks { timeout := t }) = .ok (db', r)) : expiredLocks t db' = 0 := by
  simp only [Db.exec] at h
  injection h with h; injection h with hd _
  subst hd
  simp only [expiredLocks, countP, defs, lockTimeout_where, List.length_eq_zero_iff, List.filter_filter]
  rw [List.filter_eq_nil_iff]
  intro a _
  simp

/-! ### tasks past their lease or timeout -/

def lateT (t : Time) (r : TaskRow) : Bool := (r.state == 2 || r.state == 4) && (decide (r.expiresAt ≤ t) || decide (r.timeout ≤ t))

/-- enqueued or claimed tasks whose lease or own timeout has passed at clock `t` -/
def lateTasks (t : Time) (db : Db) : Nat := countP (lateT t) db.tasks

def TaskIds (db : Db) : Prop := List.Pairwise (fun a b : TaskRow => a.id ≠ b.id) db.tasks

/-- the update the lease sweep writes for one row it read -/
def sweepTaskCmd (t : Time) (r : TaskRow) : UpdateTaskCmd :=
  if t < r.timeout then
    { id := r.id, processId := none, state := T_INIT, counter := r.counter + 1, attempt := 0, ttl := 0, expiresAt := 0, completedOn := none, currentStates := [r.state], currentCounter := r.counter }
  else
    { id := r.id, processId := none, state := T_TIMEDOUT, counter := r.counter, attempt := r.attempt, ttl := 0, expiresAt := 0, completedOn := some r.timeout, currentStates := [r.state], currentCounter := r.counter }

theorem sweepTaskCmd_id (t : Time) (r : TaskRow) : (sweepTaskCmd t r).id = r.id := by unfold sweepTaskCmd; split <;> rfl
theorem sweepTaskCmd_state (t : Time) (r : TaskRow) : (sweepTaskCmd t r).state = 1 ∨ (sweepTaskCmd t r).state = 16 := by
  unfold sweepTaskCmd; split
  · left; rfl
  · right; rfl

theorem exec_updateTask_tasks (d : Dialect) (db db' : Db) (c : UpdateTaskCmd) (r : Res)
    (h : db.exec (defs d) (.updateTask c) = .ok (db', r)) :
    db'.tasks = updateWhere (taskUpdate_where c) (taskUpdate_set c) db.tasks := by
  simp only [Db.exec] at h
  split at h
  · cases h
  · injection h with h; injection h with hd _; subst hd; rfl

theorem late_update (t : Time) (c : UpdateTaskCmd) (hs : c.state = 1 ∨ c.state = 16) :
    ∀ (l : List TaskRow), List.Pairwise (fun a b : TaskRow => a.id ≠ b.id) l →
    (∃ x ∈ l, x.id = c.id ∧ lateT t x = true ∧ taskUpdate_where c x = true) →
    countP (lateT t) (updateWhere (taskUpdate_where c) (taskUpdate_set c) l) + 1 = countP (lateT t) l := by
  intro l
  induction l with
  | nil => intro _ ⟨x, hx, _⟩; cases hx
  | cons a l ih =>
    intro hp ⟨x, hx, hid, hlate, hwx⟩
    rw [List.pairwise_cons] at hp
    simp only [updateWhere, List.map_cons, countP, List.filter_cons]
    simp only [List.mem_cons] at hx
    rcases hx with rfl | hx
    · have hset : lateT t (taskUpdate_set c x) = false := by
        rcases hs with h | h <;> simp [lateT, taskUpdate_set, h]
      have htail : l.map (fun r => if taskUpdate_where c r = true then taskUpdate_set c r else r) = l := by
        apply map_eq_self
        intro r hr
        have : taskUpdate_where c r = false := by
          have hne := hp.1 r hr
          simp only [taskUpdate_where, Bool.and_eq_false_iff, beq_eq_false_iff_ne]
          left; left; intro h; exact hne (hid.trans h.symm)
        simp [this]
      simp only [hwx, if_true, hset, Bool.false_eq_true, if_false, hlate, htail, List.length_cons]
    · have hne : a.id ≠ c.id := fun h => hp.1 x hx (h.trans hid.symm)
      have hwa : taskUpdate_where c a = false := by
        simp only [taskUpdate_where, Bool.and_eq_false_iff, beq_eq_false_iff_ne]; left; left; exact hne
      have := ih hp.2 ⟨x, hx, hid, hlate, hwx⟩
      simp only [updateWhere, countP] at this
      simp only [hwa, Bool.false_eq_true, if_false]
      by_cases ho : lateT t a = true
      · simp only [ho, if_true, List.length_cons]; omega
      · simp only [ho, Bool.false_eq_true, if_false]; omega

/-- **one lease sweep, executed completely** (its updates form ONE transaction): every row it read leaves the late set -/
theorem task_sweep_progress (d : Dialect) (t : Time) : ∀ (rows : List TaskRow) (db db' : Db) (rs : List Res),
    TaskIds db → List.Pairwise (fun a b : TaskRow => a.id ≠ b.id) rows →
    (∀ r ∈ rows, ∃ x ∈ db.tasks, x.id = r.id ∧ x.state = r.state ∧ x.counter = r.counter ∧ lateT t x = true) →
    db.execTx (defs d) (rows.map fun r => .updateTask (sweepTaskCmd t r)) = .ok (db', rs) →
    lateTasks t db' + rows.length = lateTasks t db := by
  intro rows
  induction rows with
  | nil => intro db db' rs _ _ _ h; simp [Db.execTx] at h; simp [h.1]
  | cons r rows ih =>
    intro db db' rs hk hp hall h
    rw [List.pairwise_cons] at hp
    obtain ⟨db1, r1, rs1, e1, x1, _⟩ := execTx_cons_ok _ _ _ _ _ _ h
    have htasks := exec_updateTask_tasks d db db1 _ r1 e1
    obtain ⟨x, hx, hid, hst, hcnt, hlate⟩ := hall r (by simp)
    have hwx : taskUpdate_where (sweepTaskCmd t r) x = true := by
      have h24 : x.state = 2 ∨ x.state = 4 := by
        simp only [lateT, Bool.and_eq_true, Bool.or_eq_true, beq_iff_eq] at hlate; exact hlate.1
      have hcs : (sweepTaskCmd t r).currentStates = [r.state] := by unfold sweepTaskCmd; split <;> rfl
      have hcc : (sweepTaskCmd t r).currentCounter = r.counter := by unfold sweepTaskCmd; split <;> rfl
      simp only [taskUpdate_where, sweepTaskCmd_id, hcs, hcc, hid, hcnt, beq_self_eq_true, Bool.true_and, Bool.and_true, bne_iff_ne]
      rw [← hst]
      rcases h24 with h | h <;> rw [h] <;> decide
    have hstep : lateTasks t db1 + 1 = lateTasks t db := by
      unfold lateTasks; rw [htasks]
      exact late_update t _ (sweepTaskCmd_state t r) db.tasks hk ⟨x, hx, by rw [sweepTaskCmd_id]; exact hid, hlate, hwx⟩
    have hk1 : TaskIds db1 := by
      unfold TaskIds; rw [htasks]; unfold updateWhere
      rw [List.pairwise_map]
      refine hk.imp ?_
      intro a b hab
      have ha : (if taskUpdate_where (sweepTaskCmd t r) a = true then taskUpdate_set (sweepTaskCmd t r) a else a).id = a.id := by split <;> rfl
      have hb : (if taskUpdate_where (sweepTaskCmd t r) b = true then taskUpdate_set (sweepTaskCmd t r) b else b).id = b.id := by split <;> rfl
      rw [ha, hb]; exact hab
    have hall1 : ∀ r' ∈ rows, ∃ x ∈ db1.tasks, x.id = r'.id ∧ x.state = r'.state ∧ x.counter = r'.counter ∧ lateT t x = true := by
      intro r' hr'
      obtain ⟨y, hy, hyid, hyst, hycnt, hylate⟩ := hall r' (by simp [hr'])
      refine ⟨y, ?_, hyid, hyst, hycnt, hylate⟩
      rw [htasks]
      refine List.mem_map.mpr ⟨y, hy, ?_⟩
      have : taskUpdate_where (sweepTaskCmd t r) y = false := by
        simp only [taskUpdate_where, Bool.and_eq_false_iff, beq_eq_false_iff_ne]
        left; left; rw [sweepTaskCmd_id]; intro h; exact hp.1 r' hr' (by rw [← hyid, h])
      simp [this]
    have := ih db1 db' rs1 hk1 hp.2 hall1 x1
    simp only [List.length_cons]
    omega

def LegalTaskStates (db : Db) : Prop := ∀ r ∈ db.tasks, r.state = 1 ∨ r.state = 2 ∨ r.state = 4 ∨ r.state = 8 ∨ r.state = 16

/-- the rows a lease sweep reads at clock `t` with batch size `b` -/
def sweepTaskRows (d : Dialect) (db : Db) (t : Time) (b : Nat) : List TaskRow :=
  (takeLimit ((defs d).taskSelectAll_limit { states := [T_ENQUEUED, T_CLAIMED], time := t, limit := b })
    ((db.tasks.filter ((defs d).taskSelectAll_where { states := [T_ENQUEUED, T_CLAIMED], time := t, limit := b })).mergeSort taskOrdLe)).map
    (defs d).taskSelectAll_proj

theorem sweepTaskRows_spec (d : Dialect) (db : Db) (t : Time) (b : Nat) (hk : TaskIds db) (hl : LegalTaskStates db) :
    (sweepTaskRows d db t b).length = min b (lateTasks t db) ∧
    List.Pairwise (fun a b : TaskRow => a.id ≠ b.id) (sweepTaskRows d db t b) ∧
    ∀ r ∈ sweepTaskRows d db t b, ∃ x ∈ db.tasks, x.id = r.id ∧ x.state = r.state ∧ x.counter = r.counter ∧ lateT t x = true := by
  have hw : ∀ r ∈ db.tasks, (defs d).taskSelectAll_where { states := [T_ENQUEUED, T_CLAIMED], time := t, limit := b } r = lateT t r := by
    intro r hr
    have h6 : maskOf [T_ENQUEUED, T_CLAIMED] = 6 := rfl
    simp only [defs, taskSelectAll_where, lateT, h6]
    rcases hl r hr with h | h | h | h | h <;> rw [h] <;> simp
  have hfilt : db.tasks.filter ((defs d).taskSelectAll_where { states := [T_ENQUEUED, T_CLAIMED], time := t, limit := b }) = db.tasks.filter (lateT t) :=
    List.filter_congr hw
  have hlim : (defs d).taskSelectAll_limit { states := [T_ENQUEUED, T_CLAIMED], time := t, limit := (b : Int) } = (b : Int) := rfl
  have hnn : ¬ ((b : Int) < 0) := by omega
  unfold sweepTaskRows
  rw [hfilt, hlim]
  simp only [takeLimit, hnn, if_false, Int.toNat_natCast]
  have hperm := List.mergeSort_perm (db.tasks.filter (lateT t)) taskOrdLe
  refine ⟨by simp [lateTasks, countP, List.length_take], ?_, ?_⟩
  · rw [List.pairwise_map]
    have hsorted : List.Pairwise (fun a b : TaskRow => a.id ≠ b.id) ((db.tasks.filter (lateT t)).mergeSort taskOrdLe) :=
      (List.Perm.pairwise_iff (fun h => Ne.symm h) hperm).mpr (List.Pairwise.sublist List.filter_sublist hk)
    exact (List.Pairwise.sublist (List.take_sublist _ _) hsorted).imp (fun h => by simpa [defs, taskSelectAll_proj] using h)
  · intro r hr
    obtain ⟨x, hx, rfl⟩ := List.mem_map.mp hr
    have hxf := List.mem_filter.mp ((List.Perm.mem_iff hperm).mp (List.mem_of_mem_take hx))
    exact ⟨x, hxf.1, by simp [defs, taskSelectAll_proj], by simp [defs, taskSelectAll_proj], by simp [defs, taskSelectAll_proj], hxf.2⟩

/-- **C11, lease sweep**: one complete successful cycle at clock `t` with batch size `b` leaves
    `late - min b late` tasks enqueued or claimed past their lease / timeout -/
theorem task_cycle (d : Dialect) (db db' : Db) (t : Time) (b : Nat) (rs : List Res) (hk : TaskIds db) (hl : LegalTaskStates db)
    (hx : db.execTx (defs d) ((sweepTaskRows d db t b).map fun r => .updateTask (sweepTaskCmd t r)) = .ok (db', rs)) :
    lateTasks t db' = lateTasks t db - min b (lateTasks t db) := by
  obtain ⟨hlen, hp, hall⟩ := sweepTaskRows_spec d db t b hk hl
  have := task_sweep_progress d t _ db db' rs hk hp hall hx
  omega

/-! ### schedules whose next run time is in the past -/

/-- how far a schedule is behind the clock (0 when its next run time is in the future) -/
def lagOf (t : Time) (r : ScheduleRow) : Nat := (t + 1 - r.nextRunTime).toNat

def lag (t : Time) (db : Db) : Nat := (db.schedules.map (lagOf t)).sum

theorem sum_map_lt {α : Type} (g : α → Nat) (f : α → α) : ∀ (l : List α), (∀ x, g (f x) ≤ g x) → (∃ x ∈ l, g (f x) < g x) →
    ((l.map f).map g).sum < (l.map g).sum := by
  intro l
  induction l with
  | nil => intro _ ⟨x, hx, _⟩; cases hx
  | cons a l ih =>
    intro hle ⟨x, hx, hlt⟩
    simp only [List.map_cons, List.sum_cons]
    have hall : ((l.map f).map g).sum ≤ (l.map g).sum := by
      clear ih hx
      induction l with
      | nil => simp
      | cons b l ih2 => simp only [List.map_cons, List.sum_cons]; have := hle b; omega
    simp only [List.mem_cons] at hx
    rcases hx with rfl | hx
    · omega
    · have := ih hle ⟨x, hx, hlt⟩; have := hle a; omega

/-- **C11, schedules**: firing a due occurrence (`occ ≤ t`) of a schedule whose cron yields a later next time strictly
    reduces the total lag; every other schedule is untouched — so a schedule behind by any amount catches up in a number of
    firings bounded by its lag, one occurrence per cycle, none skipped (C10) -/
theorem firing_reduces_lag (d : Dialect) (t : Time) (db : Db) (c : UpdateScheduleCmd) (occ : Int) (hl : c.lastRunTime = some occ)
    (hlt : occ < c.nextRunTime) (hdue : occ ≤ t) (hex : ∃ r ∈ db.schedules, r.id = c.id ∧ r.nextRunTime = occ) :
    ∃ db' r', db.exec (defs d) (.updateSchedule c) = .ok (db', r') ∧ lag t db' < lag t db := by
  refine ⟨_, _, C10.update_schedule_spec (d := d) db c occ hl, ?_⟩
  unfold lag
  simp only
  apply sum_map_lt (lagOf t)
  · intro x
    split
    · rename_i hm
      simp only [Bool.and_eq_true, beq_iff_eq] at hm
      simp only [lagOf]
      have : x.nextRunTime = occ := hm.2
      omega
    · exact Nat.le_refl _
  · obtain ⟨r, hr, hid, hn⟩ := hex
    refine ⟨r, hr, ?_⟩
    have hm : (r.id == c.id && r.nextRunTime == occ) = true := by simp [hid, hn]
    simp only [hm, if_true, lagOf]
    omega

/-! ### tasks waiting to be dispatched -/

def isInit (r : TaskRow) : Bool := r.state == 1

/-- tasks still in state init -/
def initTasks (db : Db) : Nat := countP isInit db.tasks

theorem init_update (c : UpdateTaskCmd) (hs : c.state ≠ 1) :
    ∀ (l : List TaskRow), List.Pairwise (fun a b : TaskRow => a.id ≠ b.id) l →
    (∃ x ∈ l, x.id = c.id ∧ isInit x = true ∧ taskUpdate_where c x = true) →
    countP isInit (updateWhere (taskUpdate_where c) (taskUpdate_set c) l) + 1 = countP isInit l := by
  intro l
  induction l with
  | nil => intro _ ⟨x, hx, _⟩; cases hx
  | cons a l ih =>
    intro hp ⟨x, hx, hid, hinit, hwx⟩
    rw [List.pairwise_cons] at hp
    simp only [updateWhere, List.map_cons, countP, List.filter_cons]
    simp only [List.mem_cons] at hx
    rcases hx with rfl | hx
    · have hset : isInit (taskUpdate_set c x) = false := by simp [isInit, taskUpdate_set, hs]
      have htail : l.map (fun r => if taskUpdate_where c r = true then taskUpdate_set c r else r) = l := by
        apply map_eq_self
        intro r hr
        have : taskUpdate_where c r = false := by
          have hne := hp.1 r hr
          simp only [taskUpdate_where, Bool.and_eq_false_iff, beq_eq_false_iff_ne]
          left; left; intro h; exact hne (hid.trans h.symm)
        simp [this]
      simp only [hwx, if_true, hset, Bool.false_eq_true, if_false, hinit, htail, List.length_cons]
    · have hne : a.id ≠ c.id := fun h => hp.1 x hx (h.trans hid.symm)
      have hwa : taskUpdate_where c a = false := by
        simp only [taskUpdate_where, Bool.and_eq_false_iff, beq_eq_false_iff_ne]; left; left; exact hne
      have := ih hp.2 ⟨x, hx, hid, hinit, hwx⟩
      simp only [updateWhere, countP] at this
      simp only [hwa, Bool.false_eq_true, if_false]
      by_cases ho : isInit a = true
      · simp only [ho, if_true, List.length_cons]; omega
      · simp only [ho, Bool.false_eq_true, if_false]; omega

/-- the update written for a dispatched task is guarded by `init` and the counter read, and — when the hand-off
    succeeded (or the task is a notification, or its timeout has passed) — moves it out of `init` -/
theorem outcome_leaves_init (e : Int) (r : TaskRow) :
    ∃ u, enqueueOutcomeCmd e r (.sender true) = .updateTask u ∧ u.id = r.id ∧ u.currentStates = [T_INIT] ∧ u.currentCounter = r.counter ∧ u.state ≠ 1 := by
  unfold enqueueOutcomeCmd
  split
  · exact ⟨_, rfl, rfl, rfl, rfl, by simp [T_COMPLETED]⟩
  · exact ⟨_, rfl, rfl, rfl, rfl, by simp [T_ENQUEUED]⟩

/-- **one dispatch cycle whose hand-offs all succeed**, executed completely (its updates form ONE transaction): every task
    it selected leaves `init` -/
theorem dispatch_progress (d : Dialect) (e : Int) : ∀ (rows : List TaskRow) (db db' : Db) (rs : List Res),
    TaskIds db → List.Pairwise (fun a b : TaskRow => a.id ≠ b.id) rows →
    (∀ r ∈ rows, ∃ x ∈ db.tasks, x.id = r.id ∧ x.counter = r.counter ∧ isInit x = true) →
    db.execTx (defs d) (rows.map fun r => enqueueOutcomeCmd e r (.sender true)) = .ok (db', rs) →
    initTasks db' + rows.length = initTasks db := by
  intro rows
  induction rows with
  | nil => intro db db' rs _ _ _ h; simp [Db.execTx] at h; simp [h.1]
  | cons r rows ih =>
    intro db db' rs hk hp hall h
    rw [List.pairwise_cons] at hp
    obtain ⟨u, hu, huid, hucs, hucc, hust⟩ := outcome_leaves_init e r
    simp only [List.map_cons, hu] at h
    obtain ⟨db1, r1, rs1, e1, x1, _⟩ := execTx_cons_ok _ _ _ _ _ _ h
    have htasks := exec_updateTask_tasks d db db1 _ r1 e1
    obtain ⟨x, hx, hid, hcnt, hinit⟩ := hall r (by simp)
    have hwx : taskUpdate_where u x = true := by
      have h1 : x.state = 1 := by simpa [isInit] using hinit
      simp only [taskUpdate_where, huid, hucs, hucc, hid, hcnt, h1, beq_self_eq_true, Bool.true_and, Bool.and_true, bne_iff_ne]
      decide
    have hstep : initTasks db1 + 1 = initTasks db := by
      unfold initTasks; rw [htasks]
      exact init_update u hust db.tasks hk ⟨x, hx, by rw [huid]; exact hid, hinit, hwx⟩
    have hk1 : TaskIds db1 := by
      unfold TaskIds; rw [htasks]; unfold updateWhere
      rw [List.pairwise_map]
      refine hk.imp ?_
      intro a b hab
      have ha : (if taskUpdate_where u a = true then taskUpdate_set u a else a).id = a.id := by split <;> rfl
      have hb : (if taskUpdate_where u b = true then taskUpdate_set u b else b).id = b.id := by split <;> rfl
      rw [ha, hb]; exact hab
    have hall1 : ∀ r' ∈ rows, ∃ x ∈ db1.tasks, x.id = r'.id ∧ x.counter = r'.counter ∧ isInit x = true := by
      intro r' hr'
      obtain ⟨y, hy, hyid, hycnt, hyinit⟩ := hall r' (by simp [hr'])
      refine ⟨y, ?_, hyid, hycnt, hyinit⟩
      rw [htasks]
      refine List.mem_map.mpr ⟨y, hy, ?_⟩
      have : taskUpdate_where u y = false := by
        simp only [taskUpdate_where, Bool.and_eq_false_iff, beq_eq_false_iff_ne]
        left; left; rw [huid]; intro h; exact hp.1 r' hr' (by rw [← hyid, h])
      simp [this]
    have := ih db1 db' rs1 hk1 hp.2 hall1 x1
    simp only [List.length_cons]
    omega

end Resonate
