/-
  Proofs/TaskInv.lean — the tasks table under well-formed transactions (C07):
  `TaskMono`: no task disappears, its identity fields never change, its (counter, phase) rank never
  decreases (phase: unclaimed 0 < claimed 1 < finished 2), and a finished task never changes at all.
-/
import Resonate.Model.SqlSpec
import Resonate.Proofs.Wf
import Resonate.Proofs.Frame
namespace Resonate
open SqlSpec

def taskPhase (s : Nat) : Nat := if s == 8 || s == 16 then 2 else if s == 4 then 1 else 0

/-- lexicographic `(counter, phase)` -/
def rankLe (a b : TaskRow) : Prop := a.counter < b.counter ∨ (a.counter = b.counter ∧ taskPhase a.state ≤ taskPhase b.state)

def TaskRowLe (a b : TaskRow) : Prop :=
  a.id = b.id ∧ a.sortId = b.sortId ∧ a.rootPromiseId = b.rootPromiseId ∧ a.recv = b.recv ∧ a.mesg = b.mesg ∧
  a.timeout = b.timeout ∧ a.createdOn = b.createdOn ∧ rankLe a b ∧ (taskPhase a.state = 2 → b = a)

theorem TaskRowLe.refl (a : TaskRow) : TaskRowLe a a := by
  refine ⟨rfl, rfl, rfl, rfl, rfl, rfl, rfl, Or.inr ⟨rfl, Nat.le_refl _⟩, fun _ => rfl⟩

theorem rankLe_trans {a b c : TaskRow} (h1 : rankLe a b) (h2 : rankLe b c) : rankLe a c := by
  unfold rankLe at *
  rcases h1 with h1 | ⟨h1, p1⟩ <;> rcases h2 with h2 | ⟨h2, p2⟩
  · left; omega
  · left; omega
  · left; omega
  · right; exact ⟨by omega, Nat.le_trans p1 p2⟩

theorem TaskRowLe.trans {a b c : TaskRow} (h1 : TaskRowLe a b) (h2 : TaskRowLe b c) : TaskRowLe a c := by
  obtain ⟨a1, a2, a3, a4, a5, a6, a7, r1, f1⟩ := h1
  obtain ⟨b1, b2, b3, b4, b5, b6, b7, r2, f2⟩ := h2
  refine ⟨a1.trans b1, a2.trans b2, a3.trans b3, a4.trans b4, a5.trans b5, a6.trans b6, a7.trans b7, rankLe_trans r1 r2, ?_⟩
  intro h
  have hb := f1 h
  subst hb
  exact f2 h

def TaskListLe (l l' : List TaskRow) : Prop := ∃ l1 l2, l' = l1 ++ l2 ∧ Forall2 TaskRowLe l l1
def TaskMono (db db' : Db) : Prop := TaskListLe db.tasks db'.tasks

theorem TaskListLe.refl (l : List TaskRow) : TaskListLe l l := ⟨l, [], by simp, forall2_refl TaskRowLe.refl l⟩
theorem TaskListLe.append (l extra : List TaskRow) : TaskListLe l (l ++ extra) := ⟨l, extra, rfl, forall2_refl TaskRowLe.refl l⟩
theorem TaskListLe.trans {a b c : List TaskRow} (h1 : TaskListLe a b) (h2 : TaskListLe b c) : TaskListLe a c := by
  obtain ⟨b1, b2, rfl, hab⟩ := h1
  obtain ⟨c1, c2, rfl, hbc⟩ := h2
  obtain ⟨m1, m2, rfl, hm1, _⟩ := forall2_split hbc
  exact ⟨m1, m2 ++ c2, by simp, forall2_trans (R := TaskRowLe) (fun _ _ _ h1 h2 => TaskRowLe.trans h1 h2) hab hm1⟩

theorem TaskMono.refl (db : Db) : TaskMono db db := TaskListLe.refl _
theorem TaskMono.trans {a b c : Db} (h1 : TaskMono a b) (h2 : TaskMono b c) : TaskMono a c := TaskListLe.trans h1 h2
theorem TaskMono.of_eq {db db' : Db} (h : db'.tasks = db.tasks) : TaskMono db db' := by unfold TaskMono; rw [h]; exact TaskListLe.refl _

/-- an UPDATE on tasks that respects `TaskRowLe` row by row -/
theorem taskListLe_update (l : List TaskRow) (p : TaskRow → Bool) (f : TaskRow → TaskRow)
    (h : ∀ r, p r = true → TaskRowLe r (f r)) : TaskListLe l (updateWhere p f l) := by
  refine ⟨updateWhere p f l, [], by simp, ?_⟩
  induction l with
  | nil => exact Forall2.nil
  | cons a l ih =>
    simp only [updateWhere, List.map_cons]
    refine Forall2.cons ?_ ih
    by_cases hp : p a = true
    · simp only [hp, if_true]; exact h a hp
    · simp only [hp]; exact TaskRowLe.refl a

/-! ### bit masks over live states -/

theorem and_small8 : ∀ m : Fin 8, 8 &&& m.val = 0 ∧ 16 &&& m.val = 0 := by decide

theorem maskOf_lt8 : ∀ (cs : List Nat) (acc : Nat), acc < 8 → cs.all taskStateActive = true → cs.foldl (· ||| ·) acc < 8 := by
  intro cs
  induction cs with
  | nil => intro acc h _; simpa using h
  | cons s cs ih =>
    intro acc h hall
    simp only [List.all_cons, Bool.and_eq_true] at hall
    simp only [List.foldl_cons]
    apply ih _ _ hall.2
    have hs : s < 8 := by
      have := hall.1
      simp only [taskStateActive, Bool.or_eq_true, beq_iff_eq] at this
      omega
    exact Nat.or_lt_two_pow (n := 3) h hs

/-- a guard over live states never matches a finished task -/
theorem finished_not_matched (cs : List Nat) (s : Nat) (hall : cs.all taskStateActive = true) (hs : taskPhase s = 2) :
    s &&& maskOf cs = 0 := by
  have hm := maskOf_lt8 cs 0 (by omega) hall
  have := and_small8 ⟨maskOf cs, hm⟩
  unfold taskPhase at hs
  split at hs
  · rename_i h8
    simp only [Bool.or_eq_true, beq_iff_eq] at h8
    rcases h8 with h8 | h8 <;> (subst h8; simp [this])
  · split at hs <;> omega

theorem or_no4 : ∀ a s : Fin 8, a.val &&& 4 = 0 → (s.val = 1 ∨ s.val = 2) → (a.val ||| s.val) &&& 4 = 0 ∧ (a.val ||| s.val) < 8 := by decide

/-- does the live-state mask contain `claimed`? -/
theorem mask_no4 : ∀ (cs : List Nat) (acc : Nat), acc < 8 → acc &&& 4 = 0 → cs.all taskStateActive = true → cs.contains 4 = false →
    (cs.foldl (· ||| ·) acc) &&& 4 = 0 := by
  intro cs
  induction cs with
  | nil => intro acc _ h _ _; simpa using h
  | cons s cs ih =>
    intro acc hlt h hall hc
    simp only [List.all_cons, Bool.and_eq_true] at hall
    simp only [List.contains_cons, Bool.or_eq_false_iff, beq_eq_false_iff_ne, ne_eq] at hc
    simp only [List.foldl_cons]
    have hs := hall.1
    simp only [taskStateActive, Bool.or_eq_true, beq_iff_eq] at hs
    have hne : s ≠ 4 := fun h4 => hc.1 h4.symm
    have hs12 : s = 1 ∨ s = 2 := by rcases hs with (hs | hs) | hs <;> first | (left; exact hs) | (right; exact hs) | exact absurd hs hne
    have hs8 : s < 8 := by omega
    have := or_no4 ⟨acc, hlt⟩ ⟨s, hs8⟩ h hs12
    exact ih _ this.2 this.1 hall.2 hc.2

theorem claimed_not_matched (cs : List Nat) (hall : cs.all taskStateActive = true) (hc : cs.contains 4 = false) :
    4 &&& maskOf cs = 0 := by
  have := mask_no4 cs 0 (by omega) (by decide) hall hc
  rw [Nat.and_comm]; exact this

theorem taskPhase_eq_zero (s : Nat) (h2 : taskPhase s ≠ 2) (h4 : s ≠ 4) : taskPhase s = 0 := by
  unfold taskPhase at *
  split
  · rename_i hx; simp [hx] at h2
  · split
    · rename_i hx; exact absurd (by simpa using hx) h4
    · rfl

variable (d : Dialect)

/-- a well-formed `UpdateTask` never moves a task backwards -/
theorem taskMono_updateTask (db db' : Db) (c : UpdateTaskCmd) (r : Res) (hw : wfUpdateTask c = true)
    (h : db.exec (defs d) (.updateTask c) = .ok (db', r)) : TaskMono db db' := by
  simp only [Db.exec] at h
  split at h
  · cases h
  · injection h with h; injection h with h _; subst h
    apply taskListLe_update
    intro row hp
    simp only [defs, taskUpdate_where, Bool.and_eq_true, beq_iff_eq, bne_iff_ne, ne_eq] at hp
    obtain ⟨⟨hid, hmask⟩, hcnt⟩ := hp
    simp only [wfUpdateTask, Bool.and_eq_true, Bool.or_eq_true, Bool.not_eq_true', beq_iff_eq] at hw
    obtain ⟨⟨hne, hall⟩, hshape⟩ := hw
    have hnotfin : taskPhase row.state ≠ 2 := fun hf => hmask (finished_not_matched _ _ hall hf)
    refine ⟨rfl, rfl, rfl, rfl, rfl, rfl, rfl, ?_, fun hf => absurd hf hnotfin⟩
    simp only [defs, taskUpdate_set, rankLe]
    rcases hshape with ⟨hc, _⟩ | ⟨hc, hst⟩
    · left; rw [hc, hcnt]; omega
    · right
      refine ⟨by rw [hc, hcnt], ?_⟩
      rcases hst with (h8 | h16) | ⟨hlive, hno4⟩
      · rw [h8]; unfold taskPhase; simp; split <;> (try split) <;> omega
      · rw [h16]; unfold taskPhase; simp; split <;> (try split) <;> omega
      · -- the row is not claimed (4 is not in the guard), so its phase is 0
        have hrow4 : row.state ≠ 4 := by
          intro h4; rw [h4] at hmask; exact hmask (claimed_not_matched _ hall hno4)
        have : taskPhase row.state = 0 := taskPhase_eq_zero _ hnotfin hrow4
        rw [this]; exact Nat.zero_le _

theorem taskMono_completeTasks (db db' : Db) (c : CompleteTasksCmd) (r : Res)
    (h : db.exec (defs d) (.completeTasks c) = .ok (db', r)) : TaskMono db db' := by
  simp only [Db.exec] at h
  injection h with h; injection h with h _; subst h
  apply taskListLe_update
  intro row hp
  simp only [defs, taskCompleteByRootId_where, Bool.and_eq_true, Bool.or_eq_true, beq_iff_eq] at hp
  have hnf : taskPhase row.state ≠ 2 := by
    unfold taskPhase; rcases hp.2 with (h | h) | h <;> simp [h]
  refine ⟨rfl, rfl, rfl, rfl, rfl, rfl, rfl, Or.inr ⟨rfl, ?_⟩, fun hf => absurd hf hnf⟩
  simp only [defs, taskCompleteByRootId_set]
  unfold taskPhase; simp; split <;> (try split) <;> omega

theorem taskMono_heartbeat (db db' : Db) (c : HeartbeatTasksCmd) (r : Res)
    (h : db.exec (defs d) (.heartbeatTasks c) = .ok (db', r)) : TaskMono db db' := by
  simp only [Db.exec] at h
  injection h with h; injection h with h _; subst h
  apply taskListLe_update
  intro row hp
  simp only [defs, taskHeartbeat_where, Bool.and_eq_true, beq_iff_eq] at hp
  have hnf : taskPhase row.state ≠ 2 := by unfold taskPhase; simp [hp.2]
  exact ⟨rfl, rfl, rfl, rfl, rfl, rfl, rfl, Or.inr ⟨rfl, Nat.le_refl _⟩, fun hf => absurd hf hnf⟩

theorem createTask_tasks (g : SqlDefs) (db db' : Db) (c : CreateTaskCmd) (n : Nat) (h : db.createTask g c = .ok (db', n)) :
    ∃ extra, db'.tasks = db.tasks ++ extra := by
  unfold Db.createTask at h
  split at h
  · cases h
  · split at h
    · cases h
    · split at h <;> (injection h with h; injection h with h _; subst h)
      · exact ⟨[], by simp⟩
      · exact ⟨[_], rfl⟩

theorem insertTasksFrom_append (g : SqlDefs) (c : CreateTasksCmd) :
    ∀ (cbs : List CallbackRow) (tasks : List TaskRow) (seq : Nat) (ts : List TaskRow) (s n : Nat),
      insertTasksFrom g c cbs tasks seq = .ok (ts, s, n) → ∃ extra, ts = tasks ++ extra := by
  intro cbs
  induction cbs with
  | nil => intro tasks seq ts s n h; simp [insertTasksFrom] at h; exact ⟨[], by simp [h.1]⟩
  | cons cb rest ih =>
    intro tasks seq ts s n h
    simp only [insertTasksFrom] at h
    split at h
    · cases h
    · cases h2 : insertTasksFrom g c rest (tasks ++ [g.taskInsertAll_row c cb (seq + 1)]) (seq + 1) with
      | error e => simp [h2] at h
      | ok p =>
        obtain ⟨ts2, s2, n2⟩ := p
        simp only [h2, Except.ok.injEq, Prod.mk.injEq] at h
        obtain ⟨h1, _, _⟩ := h
        subst h1
        obtain ⟨extra, he⟩ := ih _ _ _ _ _ h2
        exact ⟨_ :: extra, by rw [he, List.append_assoc]; rfl⟩

/-- **C07 (store).** Every well-formed transaction respects `TaskMono`. -/
theorem taskMono_wfCmds (cs : List Cmd) (db db' : Db) (rs : List Res) (hw : wfCmds cs = true)
    (h : db.execTx (defs d) cs = .ok (db', rs)) : TaskMono db db' := by
  refine wfCmdsP_inv wfUpdateTask (defs d) (fun x => TaskMono db x) ?_ ?_ ?_ ?_ cs db db' rs (TaskMono.refl db) hw h
  · -- completion block
    intro x x' c t1 t2 rs hi _ hb
    obtain ⟨db1, r1, rs1, e1, x1, _⟩ := execTx_cons_ok _ _ _ _ _ _ hb
    obtain ⟨db2, r2, rs2, e2, x2, _⟩ := execTx_cons_ok _ _ _ _ _ _ x1
    obtain ⟨db3, r3, rs3, e3, x3, _⟩ := execTx_cons_ok _ _ _ _ _ _ x2
    obtain ⟨db4, r4, rs4, e4, x4, _⟩ := execTx_cons_ok _ _ _ _ _ _ x3
    simp [Db.execTx] at x4
    rw [← x4.1]
    have f1 := exec_frame _ _ _ _ _ e1
    have f4 := exec_frame _ _ _ _ _ e4
    have m1 : TaskMono x db1 := TaskMono.of_eq (f1.2.2.2.2 rfl).1
    have m2 := taskMono_completeTasks d db1 db2 _ r2 e2
    have m3 : TaskMono db2 db3 := by
      simp only [Db.exec] at e3
      split at e3
      · rename_i ts s n hins
        injection e3 with e3; injection e3 with e3 _; subst e3
        obtain ⟨extra, he⟩ := insertTasksFrom_append _ _ _ _ _ _ _ _ hins
        unfold TaskMono; rw [he]; exact TaskListLe.append _ _
      · cases e3
    have m4 : TaskMono db3 db4 := TaskMono.of_eq (f4.2.2.2.2 rfl).1
    exact hi.trans (m1.trans (m2.trans (m3.trans m4)))
  · intro x x' c r hi hwf hx; exact hi.trans (taskMono_updateTask d x x' c r hwf hx)
  · intro x x' c r hi _ hx
    refine hi.trans ?_
    simp only [Db.exec] at hx
    have f1 := createPromise_frame (defs d) x c.promiseCommand
    split at hx
    · injection hx with hx; injection hx with hx _; subst hx; exact TaskMono.of_eq f1.2.2.2.1
    · split at hx
      · rename_i db2 m hct
        injection hx with hx; injection hx with hx _; subst hx
        obtain ⟨extra, he⟩ := createTask_tasks _ _ _ _ _ hct
        unfold TaskMono; rw [he, f1.2.2.2.1]; exact TaskListLe.append _ _
      · cases hx
  · intro x x' c r hi hf hx
    refine hi.trans ?_
    have fr := exec_frame _ _ _ _ _ hx
    by_cases hwt : c.wT = false
    · exact TaskMono.of_eq (fr.2.2.2.2 hwt).1
    · cases c with
      | heartbeatTasks c => exact taskMono_heartbeat d x x' c r hx
      | _ => first | (simp [Cmd.free] at hf; done) | (simp [Cmd.wT] at hwt; done)

end Resonate
