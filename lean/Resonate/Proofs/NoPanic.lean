/-
  Proofs/NoPanic.lean — no coroutine reaches an assertion (`.panic`) when it is resumed with completions
  that ANSWER its submissions: one completion per submission, each either an error or — for a store
  transaction — the results of executing that transaction on some database with unique keys and valid
  promise states.  (The kernel delivers exactly such completions: C06.store_completion_is_truthful.)
-/
import Resonate.Model.Coroutines
import Resonate.Model.SqlSpec
import Resonate.Proofs.PromIds
import Resonate.Proofs.PromiseInv
import Resonate.Proofs.StoreBasics
import Resonate.Proofs.Frame
import Resonate.Proofs.Wf
import Resonate.Properties.C05
import Resonate.Properties.C01
namespace Resonate
open SqlSpec Coro

/-- keys are unique in every table that is updated by key, and stored promise states are the five legal ones -/
structure Keys (db : Db) : Prop where
  prom : PromIds db
  sched : List.Pairwise (fun a b : ScheduleRow => a.id ≠ b.id) db.schedules
  lock : List.Pairwise (fun a b : LockRow => a.resourceId ≠ b.resourceId) db.locks
  task : List.Pairwise (fun a b : TaskRow => a.id ≠ b.id) db.tasks
  states : ∀ r ∈ db.promises, r.state = 1 ∨ r.state = 2 ∨ r.state = 4 ∨ r.state = 8 ∨ r.state = 16

/-- `lo` = a database the coroutine's history has already seen (everything later only accumulates promises: `PromMono`);
    `hi` = a database at or after every transaction of this round of completions -/
def AnswerOne (d : Dialect) (lo hi : Db) : Subm → Cpl → Prop
  | _, .err => True
  | .store tx, .store rs => ∃ db db', PromMono lo db ∧ Keys db ∧ db.execTx (defs d) tx = .ok (db', rs) ∧ PromMono db' hi
  | .router _, .router _ _ => True
  | .sender _, .sender _ => True
  | _, _ => False

def Answers (d : Dialect) (lo hi : Db) : List Subm → List Cpl → Prop
  | [], [] => True
  | s :: ss, c :: cs => AnswerOne d lo hi s c ∧ Answers d lo hi ss cs
  | _, _ => False

inductive NoPanic (d : Dialect) : Db → Co → Prop
  | done (lo : Db) (o : Option Resp) : NoPanic d lo (.done o)
  | retry (lo : Db) : NoPanic d lo .retry
  | yield (lo : Db) (subs : List Subm) (k : Time → List Cpl → Co) :
      (∀ t cpls hi, PromMono lo hi → Answers d lo hi subs cpls → NoPanic d hi (k t cpls)) → NoPanic d lo (.yield subs k)

theorem answers_single {d : Dialect} {lo hi : Db} {s : Subm} {cpls : List Cpl} (h : Answers d lo hi [s] cpls) :
    ∃ c, cpls = [c] ∧ AnswerOne d lo hi s c := by
  cases cpls with
  | nil => simp [Answers] at h
  | cons c cs =>
    cases cs with
    | nil => exact ⟨c, rfl, h.1⟩
    | cons c2 cs2 => simp [Answers] at h

/-- a single store transaction is answered by an error or by the results of running it -/
theorem answers_store {d : Dialect} {lo hi : Db} {tx : List Cmd} {cpls : List Cpl} (h : Answers d lo hi [.store tx] cpls) :
    cpls = [.err] ∨ ∃ rs db db', cpls = [.store rs] ∧ Keys db ∧ db.execTx (defs d) tx = .ok (db', rs) ∧ PromMono lo db ∧ PromMono db' hi := by
  obtain ⟨c, rfl, hc⟩ := answers_single h
  cases c with
  | err => exact .inl rfl
  | store rs => obtain ⟨db, db', hlo, hk, hx, hhi⟩ := hc; exact .inr ⟨rs, db, db', rfl, hk, hx, hlo, hhi⟩
  | router m r => simp [AnswerOne] at hc
  | sender b => simp [AnswerOne] at hc

theorem execTx_one {g : SqlDefs} {db db' : Db} {c : Cmd} {rs : List Res} (h : db.execTx g [c] = .ok (db', rs)) :
    ∃ r, db.exec g c = .ok (db', r) ∧ rs = [r] := by
  simp only [Db.execTx] at h
  cases h1 : db.exec g c with
  | error e => simp [h1] at h
  | ok p =>
    obtain ⟨db1, r⟩ := p
    simp only [h1] at h
    injection h with h; injection h with hd hr
    subst hd; exact ⟨r, rfl, hr.symm⟩

theorem countP_le_one {α : Type} (key : α → String) (p : α → Bool) (k : String) :
    ∀ (l : List α), List.Pairwise (fun a b => key a ≠ key b) l → (∀ a, p a = true → key a = k) → countP p l ≤ 1 := by
  intro l
  induction l with
  | nil => intro _ _; simp [countP]
  | cons a l ih =>
    intro hp hk
    rw [List.pairwise_cons] at hp
    by_cases ha : p a = true
    · have hz : countP p l = 0 := by
        unfold countP
        rw [List.length_eq_zero_iff, List.filter_eq_nil_iff]
        intro b hb hpb
        exact hp.1 b hb ((hk a ha).trans (hk b hpb).symm)
      simp only [countP, List.filter_cons, ha, if_true, List.length_cons] at hz ⊢
      omega
    · have := ih hp.2 hk
      simp only [countP, List.filter_cons, ha, Bool.false_eq_true, if_false] at this ⊢
      exact this

/-! ### what single commands answer -/

theorem take_one_cases {α : Type} (l : List α) : l.take 1 = [] ∨ ∃ a, l.take 1 = [a] := by
  cases l with
  | nil => exact .inl rfl
  | cons a l => exact .inr ⟨a, by simp⟩

theorem ans_readSchedule {d : Dialect} {c : ReadScheduleCmd} {cpls : List Cpl} {lo hi : Db} (h : Answers d lo hi [.store [.readSchedule c]] cpls) :
    readScheduleRow cpls = .err ∨ readScheduleRow cpls = .none ∨ ∃ r, readScheduleRow cpls = .one r := by
  rcases answers_store h with rfl | ⟨rs, db, db', rfl, _, hx, _, _⟩
  · exact .inl rfl
  · obtain ⟨r, he, rfl⟩ := execTx_one hx
    simp only [Db.exec] at he
    injection he with he; injection he with _ hr
    subst hr
    rcases take_one_cases (db.schedules.filter ((defs d).scheduleSelect_where c)) with hl | ⟨a, hl⟩
    · right; left; simp [readScheduleRow, hl]
    · right; right; exact ⟨(defs d).scheduleSelect_proj a, by simp [readScheduleRow, hl]⟩

theorem ans_rows {d : Dialect} {c : Cmd} {cpls : List Cpl} {lo hi : Db} (h : Answers d lo hi [.store [c]] cpls)
    (hshape : ∀ (db db' : Db) (r : Res), Keys db → db.exec (defs d) c = .ok (db', r) → ∃ n, r = Res.rows n ∧ n ≤ 1) :
    cpls = [.err] ∨ ∃ n, cpls = [.store [.rows n]] ∧ n ≤ 1 := by
  rcases answers_store h with rfl | ⟨rs, db, db', rfl, hk, hx, hlo, hhi⟩
  · exact .inl rfl
  · obtain ⟨r, he, rfl⟩ := execTx_one hx
    obtain ⟨n, rfl, hn⟩ := hshape db db' r hk he
    exact .inr ⟨n, rfl, hn⟩

theorem ans_rows_any {d : Dialect} {c : Cmd} {cpls : List Cpl} {lo hi : Db} (h : Answers d lo hi [.store [c]] cpls)
    (hshape : ∀ (db db' : Db) (r : Res), db.exec (defs d) c = .ok (db', r) → ∃ n, r = Res.rows n) :
    cpls = [.err] ∨ ∃ n, cpls = [.store [.rows n]] := by
  rcases answers_store h with rfl | ⟨rs, db, db', rfl, _, hx, _, _⟩
  · exact .inl rfl
  · obtain ⟨r, he, rfl⟩ := execTx_one hx
    obtain ⟨n, rfl⟩ := hshape db db' r he
    exact .inr ⟨n, rfl⟩

theorem shape_deleteSchedule (d : Dialect) (c : DeleteScheduleCmd) (db db' : Db) (r : Res) (hk : Keys db)
    (h : db.exec (defs d) (.deleteSchedule c) = .ok (db', r)) : ∃ n, r = .rows n ∧ n ≤ 1 := by
  simp only [Db.exec] at h
  injection h with h; injection h with _ hr
  refine ⟨_, hr.symm, ?_⟩
  exact countP_le_one (fun r : ScheduleRow => r.id) _ c.id db.schedules hk.sched
    (by intro a ha; simpa [defs, scheduleDelete_where] using ha)

theorem shape_releaseLock (d : Dialect) (c : ReleaseLockCmd) (db db' : Db) (r : Res) (hk : Keys db)
    (h : db.exec (defs d) (.releaseLock c) = .ok (db', r)) : ∃ n, r = .rows n ∧ n ≤ 1 := by
  simp only [Db.exec] at h
  injection h with h; injection h with _ hr
  refine ⟨_, hr.symm, ?_⟩
  exact countP_le_one (fun r : LockRow => r.resourceId) _ c.resourceId db.locks hk.lock
    (by intro a ha; simp [defs, lockRelease_where] at ha; exact ha.1)

theorem shape_acquireLock (d : Dialect) (c : AcquireLockCmd) (db db' : Db) (r : Res) (hk : Keys db)
    (h : db.exec (defs d) (.acquireLock c) = .ok (db', r)) : ∃ n, r = .rows n ∧ n ≤ 1 := by
  simp only [Db.exec] at h
  split at h
  · injection h with h; injection h with _ hr
    refine ⟨_, hr.symm, ?_⟩
    exact countP_le_one (fun r : LockRow => r.resourceId) _ c.resourceId db.locks hk.lock
      (by intro a ha; simp [defs, lockAcquire_row] at ha; exact ha.1)
  · injection h with h; injection h with _ hr
    exact ⟨1, hr.symm, Nat.le_refl _⟩

theorem shape_updateTask (d : Dialect) (c : UpdateTaskCmd) (db db' : Db) (r : Res) (hk : Keys db)
    (h : db.exec (defs d) (.updateTask c) = .ok (db', r)) : ∃ n, r = .rows n ∧ n ≤ 1 := by
  simp only [Db.exec] at h
  split at h
  · cases h
  · injection h with h; injection h with _ hr
    refine ⟨_, hr.symm, ?_⟩
    exact countP_le_one (fun r : TaskRow => r.id) _ c.id db.tasks hk.task
      (by intro a ha; simp [defs, taskUpdate_where] at ha; exact ha.1.1)

/-! ### the single-yield coroutines -/

macro "np_leaf" : tactic => `(tactic| first | exact NoPanic.done _ _ | exact NoPanic.retry _)

theorem np_readSchedule (d : Dialect) (id : String) (t0 : Time)  (lo : Db) : NoPanic d lo (readSchedule id t0) := by
  unfold readSchedule
  refine NoPanic.yield _ _ _ ?_
  intro t cpls hi _ h
  rcases ans_readSchedule h with h1 | h1 | ⟨r, h1⟩ <;> simp only [h1] <;> first | np_leaf | exact NoPanic.done _ _ _

theorem np_errResp (d : Dialect) (lo : Db) (n : Nat) : NoPanic d lo (errResp n) := NoPanic.done _ _

theorem np_deleteSchedule (d : Dialect) (id : String) (t0 : Time)  (lo : Db) : NoPanic d lo (deleteSchedule id t0) := by
  unfold deleteSchedule
  refine NoPanic.yield _ _ _ ?_
  intro t cpls hi _ h
  rcases ans_rows h (fun db db' r hk hx => shape_deleteSchedule d _ db db' r hk hx) with rfl | ⟨n, rfl, hn⟩
  · exact np_errResp d _ _
  · simp only
    have : ¬ n > 1 := by omega
    simp only [this, if_false]
    exact NoPanic.done _ _

theorem np_releaseLock (d : Dialect) (res ex : String) (t0 : Time)  (lo : Db) : NoPanic d lo (releaseLock res ex t0) := by
  unfold releaseLock
  refine NoPanic.yield _ _ _ ?_
  intro t cpls hi _ h
  rcases ans_rows h (fun db db' r hk hx => shape_releaseLock d _ db db' r hk hx) with rfl | ⟨n, rfl, hn⟩
  · exact np_errResp d _ _
  · simp only
    have : ¬ n > 1 := by omega
    simp only [this, if_false]
    exact NoPanic.done _ _

theorem np_acquireLock (d : Dialect) (req : AcquireLockReq) (t0 : Time)  (lo : Db) : NoPanic d lo (acquireLock req t0) := by
  unfold acquireLock
  refine NoPanic.yield _ _ _ ?_
  intro t cpls hi _ h
  rcases ans_rows h (fun db db' r hk hx => shape_acquireLock d _ db db' r hk hx) with rfl | ⟨n, rfl, hn⟩
  · exact np_errResp d _ _
  · simp only
    have : ¬ n > 1 := by omega
    simp only [this, if_false]
    split <;> exact NoPanic.done _ _

theorem np_heartbeatLocks (d : Dialect) (pid : String) (t0 : Time)  (lo : Db) : NoPanic d lo (heartbeatLocks pid t0) := by
  unfold heartbeatLocks
  refine NoPanic.yield _ _ _ ?_
  intro t cpls hi _ h
  rcases ans_rows_any h (by intro db db' r hx; simp only [Db.exec] at hx; injection hx with hx; injection hx with _ hr; exact ⟨_, hr.symm⟩) with rfl | ⟨n, rfl⟩
  · exact np_errResp d _ _
  · exact NoPanic.done _ _

theorem np_heartbeatTasks (d : Dialect) (pid : String) (t0 : Time)  (lo : Db) : NoPanic d lo (heartbeatTasks pid t0) := by
  unfold heartbeatTasks
  refine NoPanic.yield _ _ _ ?_
  intro t cpls hi _ h
  rcases ans_rows_any h (by intro db db' r hx; simp only [Db.exec] at hx; injection hx with hx; injection hx with _ hr; exact ⟨_, hr.symm⟩) with rfl | ⟨n, rfl⟩
  · exact np_errResp d _ _
  · exact NoPanic.done _ _

theorem np_timeoutLocks (d : Dialect) (t0 : Time)  (lo : Db) : NoPanic d lo (timeoutLocks t0) := by
  unfold timeoutLocks
  refine NoPanic.yield _ _ _ ?_
  intro t cpls hi _ h
  rcases ans_rows_any h (by intro db db' r hx; simp only [Db.exec] at hx; injection hx with hx; injection hx with _ hr; exact ⟨_, hr.symm⟩) with rfl | ⟨n, rfl⟩
  · exact NoPanic.done _ _
  · exact NoPanic.done _ _

/-! ### reading one promise; the completion block -/

def validState (n : Nat) : Prop := n = 1 ∨ n = 2 ∨ n = 4 ∨ n = 8 ∨ n = 16

/-- a stored promise id is stored in every later database -/
theorem promMono_has {a b : Db} (h : PromMono a b) {id : String} (ha : ∃ r ∈ a.promises, r.id = id) : ∃ r ∈ b.promises, r.id = id := by
  obtain ⟨r, hr, hid⟩ := ha
  obtain ⟨i, hi⟩ := List.getElem?_of_mem hr
  obtain ⟨r', hr', hid', _⟩ := C01.never_disappears h i r hi
  exact ⟨r', List.mem_of_getElem? hr', hid'.trans hid⟩

theorem ans_readPromise {d : Dialect} {c : ReadPromiseCmd} {cpls : List Cpl} {lo hi : Db} (h : Answers d lo hi [.store [.readPromise c]] cpls) :
    readPromiseRow cpls = .err ∨ readPromiseRow cpls = .none ∨
      ∃ r, readPromiseRow cpls = .one r ∧ validState r.state ∧ ∃ x ∈ hi.promises, x.id = c.id := by
  rcases answers_store h with rfl | ⟨rs, db, db', rfl, hk, hx, hlo, hhi⟩
  · exact .inl rfl
  · obtain ⟨r, he, rfl⟩ := execTx_one hx
    simp only [Db.exec] at he
    injection he with he; injection he with hdb hr
    subst hr
    rcases take_one_cases (db.promises.filter ((defs d).promiseSelect_where c)) with hl | ⟨a, hl⟩
    · right; left; simp [readPromiseRow, hl]
    · right; right
      have ham : a ∈ db.promises.filter ((defs d).promiseSelect_where c) := by
        have : a ∈ (db.promises.filter ((defs d).promiseSelect_where c)).take 1 := by rw [hl]; simp
        exact List.mem_of_mem_take this
      have ha : a ∈ db.promises := (List.mem_filter.mp ham).1
      have hid : a.id = c.id := by simpa [defs, promiseSelect_where] using (List.mem_filter.mp ham).2
      refine ⟨(defs d).promiseSelect_proj a, by simp [readPromiseRow, hl], hk.states a ha, ?_⟩
      exact promMono_has (hdb ▸ hhi) ⟨a, ha, hid⟩

/-- a promise that a database of the coroutine's past holds is found by every later read -/
theorem ans_readPromise_exists {d : Dialect} {c : ReadPromiseCmd} {cpls : List Cpl} {lo hi : Db} (h : Answers d lo hi [.store [.readPromise c]] cpls)
    (hex : ∃ x ∈ lo.promises, x.id = c.id) : readPromiseRow cpls = .err ∨ ∃ r, readPromiseRow cpls = .one r := by
  rcases answers_store h with rfl | ⟨rs, db, db', rfl, hk, hx, hlo, hhi⟩
  · exact .inl rfl
  · obtain ⟨r, he, rfl⟩ := execTx_one hx
    simp only [Db.exec] at he
    injection he with he; injection he with hdb hr
    subst hr
    obtain ⟨x, hxm, hxid⟩ := promMono_has hlo hex
    rcases take_one_cases (db.promises.filter ((defs d).promiseSelect_where c)) with hl | ⟨a, hl⟩
    · exfalso
      have hne : x ∈ db.promises.filter ((defs d).promiseSelect_where c) :=
        List.mem_filter.mpr ⟨hxm, by simp [defs, promiseSelect_where, hxid]⟩
      cases hf : db.promises.filter ((defs d).promiseSelect_where c) with
      | nil => rw [hf] at hne; cases hne
      | cons y ys => rw [hf] at hl; simp at hl
    · right; exact ⟨(defs d).promiseSelect_proj a, by simp [readPromiseRow, hl]⟩

/-- the completion block answers with an error or with `[rows n0, rows _, rows k, rows k]`, `n0 ≤ 1`: `completeOut` never panics -/
theorem ans_completeTx {d : Dialect} {lo hi : Db} {cmd : UpdatePromiseCmd} {t : Time} {c : Cpl}
    (h : AnswerOne d lo hi (.store (completeTx cmd t)) c) : completeOut c = .err ∨ ∃ b, completeOut c = .ok b := by
  cases c with
  | err => exact .inl rfl
  | router m r => simp [AnswerOne] at h
  | sender b => simp [AnswerOne] at h
  | store rs =>
    obtain ⟨db, db', _, hk, hx, _⟩ := h
    obtain ⟨n0, n1, k, hrs, _⟩ := (C05.conversion (d := d) db db' cmd t t rs hx).2.2
    obtain ⟨db1, r1, rs1, e1, _, hr1⟩ := execTx_cons_ok _ _ _ _ _ _ hx
    have hn0 : n0 ≤ 1 := by
      simp only [Db.exec] at e1
      split at e1
      · cases e1
      · injection e1 with e1; injection e1 with _ hr
        rw [hrs] at hr1
        injection hr1 with hh _
        rw [← hh] at hr
        injection hr with hr
        rw [← hr]
        exact countP_le_one (fun r : PromiseRow => r.id) _ cmd.id db.promises hk.prom
          (by intro a ha; simp [defs, promiseUpdate_where] at ha; exact ha.1)
    right
    subst hrs
    refine ⟨n0 == 1, ?_⟩
    simp only [completeOut]
    have h1 : ¬ n0 > 1 := by omega
    simp [h1]

theorem np_completeCont (d : Dialect) (lo : Db) (cmd : UpdatePromiseCmd) (t : Time) (onTrue : Co) (hT : ∀ hi, NoPanic d hi onTrue) (site : String) :
    NoPanic d lo (.yield [.store (completeTx cmd t)] fun _ cpls2 =>
      match cpls2 with
      | [c] =>
        match completeOut c with
        | .err => errResp S_AIO_STORE
        | .panic s => .panic s
        | .ok false => .retry
        | .ok true => onTrue
      | _ => .panic site) := by
  refine NoPanic.yield _ _ _ ?_
  intro t' cpls hi _ h
  obtain ⟨c, rfl, hc⟩ := answers_single h
  simp only
  rcases ans_completeTx hc with h1 | ⟨b, h1⟩
  · rw [h1]; exact np_errResp d _ _
  · rw [h1]; cases b <;> first | exact NoPanic.retry _ | exact hT _

theorem np_readPromise (d : Dialect) (id : String) (t0 : Time)  (lo : Db) : NoPanic d lo (readPromise id t0) := by
  unfold readPromise
  refine NoPanic.yield _ _ _ ?_
  intro t cpls hi _ h
  rcases ans_readPromise h with h1 | h1 | ⟨r, h1, _, hex⟩ <;> simp only [h1]
  · exact np_errResp d _ _
  · exact NoPanic.done _ _
  · split
    · exact np_completeCont d _ _ _ _ (fun _ => NoPanic.done _ _) _
    · exact NoPanic.done _ _

theorem alreadyCompleted_some (n : Nat) (hv : validState n) (hp : (n == P_PENDING) = false) : ∃ st, alreadyCompletedStatus n = some st := by
  unfold alreadyCompletedStatus
  rcases hv with h | h | h | h | h <;> subst h <;> simp_all [P_PENDING, P_RESOLVED, P_REJECTED, P_CANCELED, P_TIMEDOUT]

theorem np_completePromise (d : Dialect) (req : CompletePromiseReq) (t0 : Time)  (lo : Db) : NoPanic d lo (completePromise req t0) := by
  unfold completePromise
  refine NoPanic.yield _ _ _ ?_
  intro t cpls hi _ h
  rcases ans_readPromise h with h1 | h1 | ⟨r, h1, hv, _⟩ <;> simp only [h1]
  · exact np_errResp d _ _
  · exact NoPanic.done _ _
  · split
    · exact np_completeCont d _ _ _ _ (fun _ => NoPanic.done _ _) _
    · rename_i hp
      have hp' : (r.toPromise.state == P_PENDING) = false := by simpa using hp
      obtain ⟨st, hst⟩ := alreadyCompleted_some r.toPromise.state (by simpa [PromiseRow.toPromise] using hv) hp'
      simp only [hst]
      exact NoPanic.done _ _

/-! ### searches (the front ends guarantee a non-empty pattern and a positive limit) -/

theorem np_searchSchedules (d : Dialect) (req : SearchSchedulesReq) (t0 : Time) (hid : req.id ≠ "") (hl : 0 < req.limit) (lo : Db) :
    NoPanic d lo (searchSchedules req t0) := by
  unfold searchSchedules
  have h1 : (req.id == "") = false := by simpa using hid
  have h2 : ¬ req.limit ≤ 0 := by omega
  simp only [h1, h2, Bool.false_eq_true, if_false]
  refine NoPanic.yield _ _ _ ?_
  intro t cpls hi _ h
  rcases answers_store h with rfl | ⟨rs, db, db', rfl, _, hx, _, _⟩
  · exact np_errResp d _ _
  · obtain ⟨r, he, rfl⟩ := execTx_one hx
    simp only [Db.exec] at he
    split at he
    · cases he
    · injection he with he; injection he with _ hr
      subst hr
      exact NoPanic.done _ _

theorem answers_map {d : Dialect} {lo hi : Db} {α : Type} (f : α → List Cmd) : ∀ (l : List α) (cpls : List Cpl),
    Answers d lo hi (l.map fun x => .store (f x)) cpls → ∀ c ∈ cpls, ∃ x ∈ l, AnswerOne d lo hi (.store (f x)) c := by
  intro l
  induction l with
  | nil => intro cpls h c hc; cases cpls with | nil => cases hc | cons _ _ => simp [Answers] at h
  | cons a l ih =>
    intro cpls h c hc
    cases cpls with
    | nil => cases hc
    | cons c0 cs =>
      simp only [List.map_cons, Answers] at h
      simp only [List.mem_cons] at hc
      rcases hc with rfl | hc
      · exact ⟨a, by simp, h.1⟩
      · obtain ⟨x, hx, hxa⟩ := ih cs h.2 c hc
        exact ⟨x, by simp [hx], hxa⟩

/-- none of the completion blocks of a multi-promise time-out yields a panic -/
theorem no_panic_outs {d : Dialect} {lo hi : Db} {α : Type} (f : α → UpdatePromiseCmd) (t : Time) (l : List α) (cpls : List Cpl)
    (h : Answers d lo hi (l.map fun x => .store (completeTx (f x) t)) cpls) :
    ∀ o ∈ cpls.map completeOut, ∀ s, o ≠ .panic s := by
  intro o ho s
  obtain ⟨c, hc, rfl⟩ := List.mem_map.mp ho
  obtain ⟨x, _, hx⟩ := answers_map (fun x => completeTx (f x) t) l cpls h c hc
  rcases ans_completeTx hx with h1 | ⟨b, h1⟩ <;> simp [h1]

theorem np_searchPromises (d : Dialect) (req : SearchPromisesReq) (t0 : Time) (hid : req.id ≠ "") (hl : 0 < req.limit) (lo : Db) :
    NoPanic d lo (searchPromises req t0) := by
  unfold searchPromises
  have h1 : (req.id == "") = false := by simpa using hid
  have h2 : ¬ req.limit ≤ 0 := by omega
  simp only [h1, h2, Bool.false_eq_true, if_false]
  refine NoPanic.yield _ _ _ ?_
  intro t cpls hi _ h
  rcases answers_store h with rfl | ⟨rs, db, db', rfl, _, hx, _, _⟩
  · exact np_errResp d _ _
  · obtain ⟨r, he, rfl⟩ := execTx_one hx
    simp only [Db.exec] at he
    split at he
    · cases he
    · injection he with he; injection he with _ hr
      subst hr
      simp only
      split
      · exact NoPanic.done _ _
      · refine NoPanic.yield _ _ _ ?_
        intro t2 cpls2 hi2 _ h2'
        have hn := no_panic_outs (fun p : Promise => timeoutCmd p.id p) t _ cpls2 h2'
        split
        · rename_i s heq
          exact absurd rfl (hn _ (List.mem_of_find?_eq_some heq) s)
        · split <;> first | exact np_errResp d _ _ | exact NoPanic.retry _

/-! ### registrations -/

theorem shape_createCallback (d : Dialect) (c : CreateCallbackCmd) (db db' : Db) (r : Res) (_hk : Keys db)
    (h : db.exec (defs d) (.createCallback c) = .ok (db', r)) : ∃ n, r = .rows n ∧ n ≤ 1 := by
  simp only [Db.exec] at h
  split at h <;> (injection h with h; injection h with _ hr)
  · exact ⟨1, hr.symm, Nat.le_refl _⟩
  · exact ⟨0, hr.symm, Nat.zero_le _⟩

theorem np_registerCallback (d : Dialect) (pid cbId recv : String) (mesg : Mesg) (timeout : Int) (lo : Db) :
    NoPanic d lo (registerCallback pid cbId recv mesg timeout) := by
  unfold registerCallback
  refine NoPanic.yield _ _ _ ?_
  intro t cpls hi _ h
  rcases ans_readPromise h with h1 | h1 | ⟨r, h1, _, hex⟩ <;> simp only [h1]
  · exact np_errResp d _ _
  · exact NoPanic.done _ _
  · split
    · refine NoPanic.yield _ _ _ ?_
      intro t2 cpls2 hi2 hm2 h2
      rcases ans_rows h2 (fun db db' r hk hx => shape_createCallback d _ db db' r hk hx) with rfl | ⟨n, rfl, hn⟩
      · exact np_errResp d _ _
      · simp only
        have : ¬ n > 1 := by omega
        simp only [this, if_false]
        split
        · exact NoPanic.done _ _
        · refine NoPanic.yield _ _ _ ?_
          intro t3 cpls3 hi3 _ h3
          have hex2 : ∃ x ∈ hi2.promises, x.id = pid := promMono_has ‹PromMono hi hi2› hex
          rcases ans_readPromise_exists h3 hex2 with h4 | ⟨r4, h4⟩ <;> simp only [h4]
          · exact np_errResp d _ _
          · exact NoPanic.done _ _
    · exact NoPanic.done _ _

end Resonate
