/-
  Proofs/NoPanic.lean — no coroutine reaches an assertion (`.panic`) when it is resumed with completions
  that ANSWER its submissions: one completion per submission, each either an error or — for a store
  transaction — the results of executing that transaction on some database with unique keys and valid
  promise states.  (The kernel delivers exactly such completions: C06.store_completion_is_truthful.)
-/
import Resonate.Model.Coroutines
import Resonate.Model.SqlSpec
import Resonate.Proofs.PromIds
import Resonate.Proofs.PromiseInv
import Resonate.Proofs.StoreBasics
import Resonate.Proofs.Frame
import Resonate.Proofs.Wf
import Resonate.Properties.C05
import Resonate.Properties.C01
namespace Resonate
open SqlSpec Coro

/-- keys are unique in every table that is updated by key, and stored promise states are the five legal ones -/
structure Keys (db : Db) : Prop where
  prom : PromIds db
  sched : List.Pairwise (fun a b : ScheduleRow => a.id ≠ b.id) db.schedules
  lock : List.Pairwise (fun a b : LockRow => a.resourceId ≠ b.resourceId) db.locks
  task : List.Pairwise (fun a b : TaskRow => a.id ≠ b.id) db.tasks
  states : ∀ r ∈ db.promises, r.state = 1 ∨ r.state = 2 ∨ r.state = 4 ∨ r.state = 8 ∨ r.state = 16
  /-- an invocation task exists only together with its promise (they are born in one command, promises never disappear) -/
  invoke : ∀ t ∈ db.tasks, ∀ id, t.id = invokeId id → ∃ p ∈ db.promises, p.id = id

/-- `lo` = a database the coroutine's history has already seen (everything later only accumulates promises: `PromMono`);
    `hi` = a database at or after every transaction of this round of completions -/
def AnswerOne (d : Dialect) (lo hi : Db) : Subm → Cpl → Prop
  | _, .err => True
  | .store tx, .store rs => ∃ db db', PromMono lo db ∧ Keys db ∧ db.execTx (defs d) tx = .ok (db', rs) ∧ PromMono db' hi
  | .router _, .router _ _ => True
  | .sender _, .sender _ => True
  | _, _ => False

def Answers (d : Dialect) (lo hi : Db) : List Subm → List Cpl → Prop
  | [], [] => True
  | s :: ss, c :: cs => AnswerOne d lo hi s c ∧ Answers d lo hi ss cs
  | _, _ => False

/-- `now` = the clock when the coroutine last ran: it is resumed at a clock that is not earlier (ticks are non-decreasing) -/
inductive NoPanic (d : Dialect) : Db → Time → Co → Prop
  | done (lo : Db) (now : Time) (o : Option Resp) : NoPanic d lo now (.done o)
  | retry (lo : Db) (now : Time) : NoPanic d lo now .retry
  | yield (lo : Db) (now : Time) (subs : List Subm) (k : Time → List Cpl → Co) :
      (∀ t cpls hi, now ≤ t → PromMono lo hi → Answers d lo hi subs cpls → NoPanic d hi t (k t cpls)) → NoPanic d lo now (.yield subs k)

theorem answers_single {d : Dialect} {lo hi : Db} {s : Subm} {cpls : List Cpl} (h : Answers d lo hi [s] cpls) :
    ∃ c, cpls = [c] ∧ AnswerOne d lo hi s c := by
  cases cpls with
  | nil => simp [Answers] at h
  | cons c cs =>
    cases cs with
    | nil => exact ⟨c, rfl, h.1⟩
    | cons c2 cs2 => simp [Answers] at h

/-- a single store transaction is answered by an error or by the results of running it -/
theorem answers_store {d : Dialect} {lo hi : Db} {tx : List Cmd} {cpls : List Cpl} (h : Answers d lo hi [.store tx] cpls) :
    cpls = [.err] ∨ ∃ rs db db', cpls = [.store rs] ∧ Keys db ∧ db.execTx (defs d) tx = .ok (db', rs) ∧ PromMono lo db ∧ PromMono db' hi := by
  obtain ⟨c, rfl, hc⟩ := answers_single h
  cases c with
  | err => exact .inl rfl
  | store rs => obtain ⟨db, db', hlo, hk, hx, hhi⟩ := hc; exact .inr ⟨rs, db, db', rfl, hk, hx, hlo, hhi⟩
  | router m r => simp [AnswerOne] at hc
  | sender b => simp [AnswerOne] at hc

theorem execTx_one {g : SqlDefs} {db db' : Db} {c : Cmd} {rs : List Res} (h : db.execTx g [c] = .ok (db', rs)) :
    ∃ r, db.exec g c = .ok (db', r) ∧ rs = [r] := by
  simp only [Db.execTx] at h
  cases h1 : db.exec g c with
  | error e => simp [h1] at h
  | ok p =>
    obtain ⟨db1, r⟩ := p
    simp only [h1] at h
    injection h with h; injection h with hd hr
    subst hd; exact ⟨r, rfl, hr.symm⟩

theorem countP_le_one {α : Type} (key : α → String) (p : α → Bool) (k : String) :
    ∀ (l : List α), List.Pairwise (fun a b => key a ≠ key b) l → (∀ a, p a = true → key a = k) → countP p l ≤ 1 := by
  intro l
  induction l with
  | nil => intro _ _; simp [countP]
  | cons a l ih =>
    intro hp hk
    rw [List.pairwise_cons] at hp
    by_cases ha : p a = true
    · have hz : countP p l = 0 := by
        unfold countP
        rw [List.length_eq_zero_iff, List.filter_eq_nil_iff]
        intro b hb hpb
        exact hp.1 b hb ((hk a ha).trans (hk b hpb).symm)
      simp only [countP, List.filter_cons, ha, if_true, List.length_cons] at hz ⊢
      omega
    · have := ih hp.2 hk
      simp only [countP, List.filter_cons, ha, Bool.false_eq_true, if_false] at this ⊢
      exact this

/-! ### what single commands answer -/

theorem take_one_cases {α : Type} (l : List α) : l.take 1 = [] ∨ ∃ a, l.take 1 = [a] := by
  cases l with
  | nil => exact .inl rfl
  | cons a l => exact .inr ⟨a, by simp⟩

theorem ans_readSchedule {d : Dialect} {c : ReadScheduleCmd} {cpls : List Cpl} {lo hi : Db} (h : Answers d lo hi [.store [.readSchedule c]] cpls) :
    readScheduleRow cpls = .err ∨ readScheduleRow cpls = .none ∨ ∃ r, readScheduleRow cpls = .one r := by
  rcases answers_store h with rfl | ⟨rs, db, db', rfl, _, hx, _, _⟩
  · exact .inl rfl
  · obtain ⟨r, he, rfl⟩ := execTx_one hx
    simp only [Db.exec] at he
    injection he with he; injection he with _ hr
    subst hr
    rcases take_one_cases (db.schedules.filter ((defs d).scheduleSelect_where c)) with hl | ⟨a, hl⟩
    · right; left; simp [readScheduleRow, hl]
    · right; right; exact ⟨(defs d).scheduleSelect_proj a, by simp [readScheduleRow, hl]⟩

theorem ans_rows {d : Dialect} {c : Cmd} {cpls : List Cpl} {lo hi : Db} (h : Answers d lo hi [.store [c]] cpls)
    (hshape : ∀ (db db' : Db) (r : Res), Keys db → db.exec (defs d) c = .ok (db', r) → ∃ n, r = Res.rows n ∧ n ≤ 1) :
    cpls = [.err] ∨ ∃ n, cpls = [.store [.rows n]] ∧ n ≤ 1 := by
  rcases answers_store h with rfl | ⟨rs, db, db', rfl, hk, hx, hlo, hhi⟩
  · exact .inl rfl
  · obtain ⟨r, he, rfl⟩ := execTx_one hx
    obtain ⟨n, rfl, hn⟩ := hshape db db' r hk he
    exact .inr ⟨n, rfl, hn⟩

theorem ans_rows_any {d : Dialect} {c : Cmd} {cpls : List Cpl} {lo hi : Db} (h : Answers d lo hi [.store [c]] cpls)
    (hshape : ∀ (db db' : Db) (r : Res), db.exec (defs d) c = .ok (db', r) → ∃ n, r = Res.rows n) :
    cpls = [.err] ∨ ∃ n, cpls = [.store [.rows n]] := by
  rcases answers_store h with rfl | ⟨rs, db, db', rfl, _, hx, _, _⟩
  · exact .inl rfl
  · obtain ⟨r, he, rfl⟩ := execTx_one hx
    obtain ⟨n, rfl⟩ := hshape db db' r he
    exact .inr ⟨n, rfl⟩

theorem shape_deleteSchedule (d : Dialect) (c : DeleteScheduleCmd) (db db' : Db) (r : Res) (hk : Keys db)
    (h : db.exec (defs d) (.deleteSchedule c) = .ok (db', r)) : ∃ n, r = .rows n ∧ n ≤ 1 := by
  simp only [Db.exec] at h
  injection h with h; injection h with _ hr
  refine ⟨_, hr.symm, ?_⟩
  exact countP_le_one (fun r : ScheduleRow => r.id) _ c.id db.schedules hk.sched
    (by intro a ha; simpa [defs, scheduleDelete_where] using ha)

theorem shape_releaseLock (d : Dialect) (c : ReleaseLockCmd) (db db' : Db) (r : Res) (hk : Keys db)
    (h : db.exec (defs d) (.releaseLock c) = .ok (db', r)) : ∃ n, r = .rows n ∧ n ≤ 1 := by
  simp only [Db.exec] at h
  injection h with h; injection h with _ hr
  refine ⟨_, hr.symm, ?_⟩
  exact countP_le_one (fun r : LockRow => r.resourceId) _ c.resourceId db.locks hk.lock
    (by intro a ha; simp [defs, lockRelease_where] at ha; exact ha.1)

theorem shape_acquireLock (d : Dialect) (c : AcquireLockCmd) (db db' : Db) (r : Res) (hk : Keys db)
    (h : db.exec (defs d) (.acquireLock c) = .ok (db', r)) : ∃ n, r = .rows n ∧ n ≤ 1 := by
  simp only [Db.exec] at h
  split at h
  · injection h with h; injection h with _ hr
    refine ⟨_, hr.symm, ?_⟩
    exact countP_le_one (fun r : LockRow => r.resourceId) _ c.resourceId db.locks hk.lock
      (by intro a ha; simp [defs, lockAcquire_row] at ha; exact ha.1)
  · injection h with h; injection h with _ hr
    exact ⟨1, hr.symm, Nat.le_refl _⟩

theorem shape_updateTask (d : Dialect) (c : UpdateTaskCmd) (db db' : Db) (r : Res) (hk : Keys db)
    (h : db.exec (defs d) (.updateTask c) = .ok (db', r)) : ∃ n, r = .rows n ∧ n ≤ 1 := by
  simp only [Db.exec] at h
  split at h
  · cases h
  · injection h with h; injection h with _ hr
    refine ⟨_, hr.symm, ?_⟩
    exact countP_le_one (fun r : TaskRow => r.id) _ c.id db.tasks hk.task
      (by intro a ha; simp [defs, taskUpdate_where] at ha; exact ha.1.1)

/-! ### the single-yield coroutines -/

macro "np_leaf" : tactic => `(tactic| first | exact NoPanic.done _ _ _ | exact NoPanic.retry _ _)

theorem np_readSchedule (d : Dialect) (id : String) (t0 : Time)  (lo : Db) (now : Time) : NoPanic d lo now (readSchedule id t0) := by
  unfold readSchedule
  refine NoPanic.yield _ _ _ _ ?_
  intro t cpls hi _ _ h
  rcases ans_readSchedule h with h1 | h1 | ⟨r, h1⟩ <;> simp only [h1] <;> first | np_leaf | exact NoPanic.done _ _ _ _

theorem np_errResp (d : Dialect) (lo : Db) (now : Time) (n : Nat) : NoPanic d lo now (errResp n) := NoPanic.done _ _ _

theorem np_deleteSchedule (d : Dialect) (id : String) (t0 : Time)  (lo : Db) (now : Time) : NoPanic d lo now (deleteSchedule id t0) := by
  unfold deleteSchedule
  refine NoPanic.yield _ _ _ _ ?_
  intro t cpls hi _ _ h
  rcases ans_rows h (fun db db' r hk hx => shape_deleteSchedule d _ db db' r hk hx) with rfl | ⟨n, rfl, hn⟩
  · exact np_errResp d _ _ _
  · simp only
    have : ¬ n > 1 := by omega
    simp only [this, if_false]
    exact NoPanic.done _ _ _

theorem np_releaseLock (d : Dialect) (res ex : String) (t0 : Time)  (lo : Db) (now : Time) : NoPanic d lo now (releaseLock res ex t0) := by
  unfold releaseLock
  refine NoPanic.yield _ _ _ _ ?_
  intro t cpls hi _ _ h
  rcases ans_rows h (fun db db' r hk hx => shape_releaseLock d _ db db' r hk hx) with rfl | ⟨n, rfl, hn⟩
  · exact np_errResp d _ _ _
  · simp only
    have : ¬ n > 1 := by omega
    simp only [this, if_false]
    exact NoPanic.done _ _ _

theorem np_acquireLock (d : Dialect) (req : AcquireLockReq) (t0 : Time)  (lo : Db) (now : Time) : NoPanic d lo now (acquireLock req t0) := by
  unfold acquireLock
  refine NoPanic.yield _ _ _ _ ?_
  intro t cpls hi _ _ h
  rcases ans_rows h (fun db db' r hk hx => shape_acquireLock d _ db db' r hk hx) with rfl | ⟨n, rfl, hn⟩
  · exact np_errResp d _ _ _
  · simp only
    have : ¬ n > 1 := by omega
    simp only [this, if_false]
    split <;> exact NoPanic.done _ _ _

theorem np_heartbeatLocks (d : Dialect) (pid : String) (t0 : Time)  (lo : Db) (now : Time) : NoPanic d lo now (heartbeatLocks pid t0) := by
  unfold heartbeatLocks
  refine NoPanic.yield _ _ _ _ ?_
  intro t cpls hi _ _ h
  rcases ans_rows_any h (by intro db db' r hx; simp only [Db.exec] at hx; injection hx with hx; injection hx with _ hr; exact ⟨_, hr.symm⟩) with rfl | ⟨n, rfl⟩
  · exact np_errResp d _ _ _
  · exact NoPanic.done _ _ _

theorem np_heartbeatTasks (d : Dialect) (pid : String) (t0 : Time)  (lo : Db) (now : Time) : NoPanic d lo now (heartbeatTasks pid t0) := by
  unfold heartbeatTasks
  refine NoPanic.yield _ _ _ _ ?_
  intro t cpls hi _ _ h
  rcases ans_rows_any h (by intro db db' r hx; simp only [Db.exec] at hx; injection hx with hx; injection hx with _ hr; exact ⟨_, hr.symm⟩) with rfl | ⟨n, rfl⟩
  · exact np_errResp d _ _ _
  · exact NoPanic.done _ _ _

theorem np_timeoutLocks (d : Dialect) (t0 : Time)  (lo : Db) (now : Time) : NoPanic d lo now (timeoutLocks t0) := by
  unfold timeoutLocks
  refine NoPanic.yield _ _ _ _ ?_
  intro t cpls hi _ _ h
  rcases ans_rows_any h (by intro db db' r hx; simp only [Db.exec] at hx; injection hx with hx; injection hx with _ hr; exact ⟨_, hr.symm⟩) with rfl | ⟨n, rfl⟩
  · exact NoPanic.done _ _ _
  · exact NoPanic.done _ _ _

/-! ### reading one promise; the completion block -/

def validState (n : Nat) : Prop := n = 1 ∨ n = 2 ∨ n = 4 ∨ n = 8 ∨ n = 16

/-- a stored promise id is stored in every later database -/
theorem promMono_has {a b : Db} (h : PromMono a b) {id : String} (ha : ∃ r ∈ a.promises, r.id = id) : ∃ r ∈ b.promises, r.id = id := by
  obtain ⟨r, hr, hid⟩ := ha
  obtain ⟨i, hi⟩ := List.getElem?_of_mem hr
  obtain ⟨r', hr', hid', _⟩ := C01.never_disappears h i r hi
  exact ⟨r', List.mem_of_getElem? hr', hid'.trans hid⟩

theorem ans_readPromise {d : Dialect} {c : ReadPromiseCmd} {cpls : List Cpl} {lo hi : Db} (h : Answers d lo hi [.store [.readPromise c]] cpls) :
    readPromiseRow cpls = .err ∨ readPromiseRow cpls = .none ∨
      ∃ r, readPromiseRow cpls = .one r ∧ validState r.state ∧ ∃ x ∈ hi.promises, x.id = c.id := by
  rcases answers_store h with rfl | ⟨rs, db, db', rfl, hk, hx, hlo, hhi⟩
  · exact .inl rfl
  · obtain ⟨r, he, rfl⟩ := execTx_one hx
    simp only [Db.exec] at he
    injection he with he; injection he with hdb hr
    subst hr
    rcases take_one_cases (db.promises.filter ((defs d).promiseSelect_where c)) with hl | ⟨a, hl⟩
    · right; left; simp [readPromiseRow, hl]
    · right; right
      have ham : a ∈ db.promises.filter ((defs d).promiseSelect_where c) := by
        have : a ∈ (db.promises.filter ((defs d).promiseSelect_where c)).take 1 := by rw [hl]; simp
        exact List.mem_of_mem_take this
      have ha : a ∈ db.promises := (List.mem_filter.mp ham).1
      have hid : a.id = c.id := by simpa [defs, promiseSelect_where] using (List.mem_filter.mp ham).2
      refine ⟨(defs d).promiseSelect_proj a, by simp [readPromiseRow, hl], hk.states a ha, ?_⟩
      exact promMono_has (hdb ▸ hhi) ⟨a, ha, hid⟩

/-- a promise that a database of the coroutine's past holds is found by every later read -/
theorem ans_readPromise_exists {d : Dialect} {c : ReadPromiseCmd} {cpls : List Cpl} {lo hi : Db} (h : Answers d lo hi [.store [.readPromise c]] cpls)
    (hex : ∃ x ∈ lo.promises, x.id = c.id) : readPromiseRow cpls = .err ∨ ∃ r, readPromiseRow cpls = .one r := by
  rcases answers_store h with rfl | ⟨rs, db, db', rfl, hk, hx, hlo, hhi⟩
  · exact .inl rfl
  · obtain ⟨r, he, rfl⟩ := execTx_one hx
    simp only [Db.exec] at he
    injection he with he; injection he with hdb hr
    subst hr
    obtain ⟨x, hxm, hxid⟩ := promMono_has hlo hex
    rcases take_one_cases (db.promises.filter ((defs d).promiseSelect_where c)) with hl | ⟨a, hl⟩
    · exfalso
      have hne : x ∈ db.promises.filter ((defs d).promiseSelect_where c) :=
        List.mem_filter.mpr ⟨hxm, by simp [defs, promiseSelect_where, hxid]⟩
      cases hf : db.promises.filter ((defs d).promiseSelect_where c) with
      | nil => rw [hf] at hne; cases hne
      | cons y ys => rw [hf] at hl; simp at hl
    · right; exact ⟨(defs d).promiseSelect_proj a, by simp [readPromiseRow, hl]⟩

/-- the completion block answers with an error or with `[rows n0, rows _, rows k, rows k]`, `n0 ≤ 1`: `completeOut` never panics -/
theorem ans_completeTx {d : Dialect} {lo hi : Db} {cmd : UpdatePromiseCmd} {t : Time} {c : Cpl}
    (h : AnswerOne d lo hi (.store (completeTx cmd t)) c) : completeOut c = .err ∨ ∃ b, completeOut c = .ok b := by
  cases c with
  | err => exact .inl rfl
  | router m r => simp [AnswerOne] at h
  | sender b => simp [AnswerOne] at h
  | store rs =>
    obtain ⟨db, db', _, hk, hx, _⟩ := h
    obtain ⟨n0, n1, k, hrs, _⟩ := (C05.conversion (d := d) db db' cmd t t rs hx).2.2
    obtain ⟨db1, r1, rs1, e1, _, hr1⟩ := execTx_cons_ok _ _ _ _ _ _ hx
    have hn0 : n0 ≤ 1 := by
      simp only [Db.exec] at e1
      split at e1
      · cases e1
      · injection e1 with e1; injection e1 with _ hr
        rw [hrs] at hr1
        injection hr1 with hh _
        rw [← hh] at hr
        injection hr with hr
        rw [← hr]
        exact countP_le_one (fun r : PromiseRow => r.id) _ cmd.id db.promises hk.prom
          (by intro a ha; simp [defs, promiseUpdate_where] at ha; exact ha.1)
    right
    subst hrs
    refine ⟨n0 == 1, ?_⟩
    simp only [completeOut]
    have h1 : ¬ n0 > 1 := by omega
    simp [h1]

theorem np_completeCont (d : Dialect) (lo : Db) (now : Time) (cmd : UpdatePromiseCmd) (t : Time) (onTrue : Co) (hT : ∀ hi t', NoPanic d hi t' onTrue) (site : String) :
    NoPanic d lo now (.yield [.store (completeTx cmd t)] fun _ cpls2 =>
      match cpls2 with
      | [c] =>
        match completeOut c with
        | .err => errResp S_AIO_STORE
        | .panic s => .panic s
        | .ok false => .retry
        | .ok true => onTrue
      | _ => .panic site) := by
  refine NoPanic.yield _ _ _ _ ?_
  intro t' cpls hi _ _ h
  obtain ⟨c, rfl, hc⟩ := answers_single h
  simp only
  rcases ans_completeTx hc with h1 | ⟨b, h1⟩
  · rw [h1]; exact np_errResp d _ _ _
  · rw [h1]; cases b <;> first | exact NoPanic.retry _ _ | exact hT _ _

theorem np_readPromise (d : Dialect) (id : String) (t0 : Time)  (lo : Db) (now : Time) : NoPanic d lo now (readPromise id t0) := by
  unfold readPromise
  refine NoPanic.yield _ _ _ _ ?_
  intro t cpls hi _ _ h
  rcases ans_readPromise h with h1 | h1 | ⟨r, h1, _, hex⟩ <;> simp only [h1]
  · exact np_errResp d _ _ _
  · exact NoPanic.done _ _ _
  · split
    · exact np_completeCont d _ _ _ _ _ (fun _ _ => NoPanic.done _ _ _) _
    · exact NoPanic.done _ _ _

theorem alreadyCompleted_some (n : Nat) (hv : validState n) (hp : (n == P_PENDING) = false) : ∃ st, alreadyCompletedStatus n = some st := by
  unfold alreadyCompletedStatus
  rcases hv with h | h | h | h | h <;> subst h <;> simp_all [P_PENDING, P_RESOLVED, P_REJECTED, P_CANCELED, P_TIMEDOUT]

theorem np_completePromise (d : Dialect) (req : CompletePromiseReq) (t0 : Time)  (lo : Db) (now : Time) : NoPanic d lo now (completePromise req t0) := by
  unfold completePromise
  refine NoPanic.yield _ _ _ _ ?_
  intro t cpls hi _ _ h
  rcases ans_readPromise h with h1 | h1 | ⟨r, h1, hv, _⟩ <;> simp only [h1]
  · exact np_errResp d _ _ _
  · exact NoPanic.done _ _ _
  · split
    · exact np_completeCont d _ _ _ _ _ (fun _ _ => NoPanic.done _ _ _) _
    · rename_i hp
      have hp' : (r.toPromise.state == P_PENDING) = false := by simpa using hp
      obtain ⟨st, hst⟩ := alreadyCompleted_some r.toPromise.state (by simpa [PromiseRow.toPromise] using hv) hp'
      simp only [hst]
      exact NoPanic.done _ _ _

/-! ### searches (the front ends guarantee a non-empty pattern and a positive limit) -/

theorem np_searchSchedules (d : Dialect) (req : SearchSchedulesReq) (t0 : Time) (hid : req.id ≠ "") (hl : 0 < req.limit) (lo : Db) (now : Time) :
    NoPanic d lo now (searchSchedules req t0) := by
  unfold searchSchedules
  have h1 : (req.id == "") = false := by simpa using hid
  have h2 : ¬ req.limit ≤ 0 := by omega
  simp only [h1, h2, Bool.false_eq_true, if_false]
  refine NoPanic.yield _ _ _ _ ?_
  intro t cpls hi _ _ h
  rcases answers_store h with rfl | ⟨rs, db, db', rfl, _, hx, _, _⟩
  · exact np_errResp d _ _ _
  · obtain ⟨r, he, rfl⟩ := execTx_one hx
    simp only [Db.exec] at he
    split at he
    · cases he
    · injection he with he; injection he with _ hr
      subst hr
      exact NoPanic.done _ _ _

theorem answers_map {d : Dialect} {lo hi : Db} {α : Type} (f : α → List Cmd) : ∀ (l : List α) (cpls : List Cpl),
    Answers d lo hi (l.map fun x => .store (f x)) cpls → ∀ c ∈ cpls, ∃ x ∈ l, AnswerOne d lo hi (.store (f x)) c := by
  intro l
  induction l with
  | nil => intro cpls h c hc; cases cpls with | nil => cases hc | cons _ _ => simp [Answers] at h
  | cons a l ih =>
    intro cpls h c hc
    cases cpls with
    | nil => cases hc
    | cons c0 cs =>
      simp only [List.map_cons, Answers] at h
      simp only [List.mem_cons] at hc
      rcases hc with rfl | hc
      · exact ⟨a, by simp, h.1⟩
      · obtain ⟨x, hx, hxa⟩ := ih cs h.2 c hc
        exact ⟨x, by simp [hx], hxa⟩

/-- none of the completion blocks of a multi-promise time-out yields a panic -/
theorem no_panic_outs {d : Dialect} {lo hi : Db} {α : Type} (f : α → UpdatePromiseCmd) (t : Time) (l : List α) (cpls : List Cpl)
    (h : Answers d lo hi (l.map fun x => .store (completeTx (f x) t)) cpls) :
    ∀ o ∈ cpls.map completeOut, ∀ s, o ≠ .panic s := by
  intro o ho s
  obtain ⟨c, hc, rfl⟩ := List.mem_map.mp ho
  obtain ⟨x, _, hx⟩ := answers_map (fun x => completeTx (f x) t) l cpls h c hc
  rcases ans_completeTx hx with h1 | ⟨b, h1⟩ <;> simp [h1]

theorem np_searchPromises (d : Dialect) (req : SearchPromisesReq) (t0 : Time) (hid : req.id ≠ "") (hl : 0 < req.limit) (lo : Db) (now : Time) :
    NoPanic d lo now (searchPromises req t0) := by
  unfold searchPromises
  have h1 : (req.id == "") = false := by simpa using hid
  have h2 : ¬ req.limit ≤ 0 := by omega
  simp only [h1, h2, Bool.false_eq_true, if_false]
  refine NoPanic.yield _ _ _ _ ?_
  intro t cpls hi _ _ h
  rcases answers_store h with rfl | ⟨rs, db, db', rfl, _, hx, _, _⟩
  · exact np_errResp d _ _ _
  · obtain ⟨r, he, rfl⟩ := execTx_one hx
    simp only [Db.exec] at he
    split at he
    · cases he
    · injection he with he; injection he with _ hr
      subst hr
      simp only
      split
      · exact NoPanic.done _ _ _
      · refine NoPanic.yield _ _ _ _ ?_
        intro t2 cpls2 hi2 _ _ h2'
        have hn := no_panic_outs (fun p : Promise => timeoutCmd p.id p) t _ cpls2 h2'
        split
        · rename_i s heq
          exact absurd rfl (hn _ (List.mem_of_find?_eq_some heq) s)
        · split <;> first | exact np_errResp d _ _ _ | exact NoPanic.retry _ _

/-! ### registrations -/

theorem shape_createCallback (d : Dialect) (c : CreateCallbackCmd) (db db' : Db) (r : Res) (_hk : Keys db)
    (h : db.exec (defs d) (.createCallback c) = .ok (db', r)) : ∃ n, r = .rows n ∧ n ≤ 1 := by
  simp only [Db.exec] at h
  split at h <;> (injection h with h; injection h with _ hr)
  · exact ⟨1, hr.symm, Nat.le_refl _⟩
  · exact ⟨0, hr.symm, Nat.zero_le _⟩

theorem np_registerCallback (d : Dialect) (pid cbId recv : String) (mesg : Mesg) (timeout : Int) (lo : Db) (now : Time) :
    NoPanic d lo now (registerCallback pid cbId recv mesg timeout) := by
  unfold registerCallback
  refine NoPanic.yield _ _ _ _ ?_
  intro t cpls hi _ _ h
  rcases ans_readPromise h with h1 | h1 | ⟨r, h1, _, hex⟩ <;> simp only [h1]
  · exact np_errResp d _ _ _
  · exact NoPanic.done _ _ _
  · split
    · refine NoPanic.yield _ _ _ _ ?_
      intro t2 cpls2 hi2 _ hm2 h2
      rcases ans_rows h2 (fun db db' r hk hx => shape_createCallback d _ db db' r hk hx) with rfl | ⟨n, rfl, hn⟩
      · exact np_errResp d _ _ _
      · simp only
        have : ¬ n > 1 := by omega
        simp only [this, if_false]
        split
        · exact NoPanic.done _ _ _
        · refine NoPanic.yield _ _ _ _ ?_
          intro t3 cpls3 hi3 _ _ h3
          have hex2 : ∃ x ∈ hi2.promises, x.id = pid := promMono_has ‹PromMono hi hi2› hex
          rcases ans_readPromise_exists h3 hex2 with h4 | ⟨r4, h4⟩ <;> simp only [h4]
          · exact np_errResp d _ _ _
          · exact NoPanic.done _ _ _
    · exact NoPanic.done _ _ _

theorem np_createCallback (d : Dialect) (req : CreateCallbackReq) (t0 : Time) (lo : Db) (now : Time) : NoPanic d lo now (createCallback req t0) := by
  unfold createCallback
  split
  · exact NoPanic.done _ _ _
  · exact np_registerCallback d _ _ _ _ _ lo now

theorem np_createSubscription (d : Dialect) (req : CreateSubscriptionReq) (t0 : Time) (lo : Db) (now : Time) : NoPanic d lo now (createSubscription req t0) := by
  unfold createSubscription
  exact np_registerCallback d _ _ _ _ _ lo now

/-! ### schedules, tasks -/

theorem shape_createSchedule (d : Dialect) (c : CreateScheduleCmd) (db db' : Db) (r : Res) (_hk : Keys db)
    (h : db.exec (defs d) (.createSchedule c) = .ok (db', r)) : ∃ n, r = .rows n ∧ n ≤ 1 := by
  simp only [Db.exec] at h
  split at h <;> (injection h with h; injection h with _ hr)
  · exact ⟨0, hr.symm, Nat.zero_le _⟩
  · exact ⟨1, hr.symm, Nat.le_refl _⟩

theorem np_createSchedule (d : Dialect) (env : Env) (req : CreateScheduleReq) (t0 : Time) (lo : Db) (now : Time) :
    NoPanic d lo now (createSchedule env req t0) := by
  unfold createSchedule
  refine NoPanic.yield _ _ _ _ ?_
  intro t cpls hi _ _ h
  rcases ans_readSchedule h with h1 | h1 | ⟨r, h1⟩ <;> simp only [h1]
  · exact np_errResp d _ _ _
  · split
    · exact np_errResp d _ _ _
    · refine NoPanic.yield _ _ _ _ ?_
      intro t2 cpls2 hi2 _ _ h2
      rcases ans_rows h2 (fun db db' r hk hx => shape_createSchedule d _ db db' r hk hx) with rfl | ⟨n, rfl, hn⟩
      · exact np_errResp d _ _ _
      · simp only
        have : ¬ n > 1 := by omega
        simp only [this, if_false]
        split <;> first | exact NoPanic.done _ _ _ | exact NoPanic.retry _ _
  · exact NoPanic.done _ _ _

theorem ans_readTask {d : Dialect} {c : ReadTaskCmd} {cpls : List Cpl} {lo hi : Db} (h : Answers d lo hi [.store [.readTask c]] cpls) :
    readTaskRow cpls = .err ∨ readTaskRow cpls = .none ∨ ∃ r, readTaskRow cpls = .one r := by
  rcases answers_store h with rfl | ⟨rs, db, db', rfl, _, hx, _, _⟩
  · exact .inl rfl
  · obtain ⟨r, he, rfl⟩ := execTx_one hx
    simp only [Db.exec] at he
    injection he with he; injection he with _ hr
    subst hr
    rcases take_one_cases (db.tasks.filter ((defs d).taskSelect_where c)) with hl | ⟨a, hl⟩
    · right; left; simp [readTaskRow, hl]
    · right; right; exact ⟨(defs d).taskSelect_proj a, by simp [readTaskRow, hl]⟩

theorem np_completeTask (d : Dialect) (id : String) (counter : Int) (t0 : Time) (lo : Db) (now : Time) :
    NoPanic d lo now (completeTask id counter t0) := by
  unfold completeTask
  refine NoPanic.yield _ _ _ _ ?_
  intro t cpls hi _ _ h
  rcases ans_readTask h with h1 | h1 | ⟨r, h1⟩ <;> simp only [h1]
  · exact np_errResp d _ _ _
  · exact NoPanic.done _ _ _
  · split
    · exact NoPanic.done _ _ _
    · split
      · exact NoPanic.done _ _ _
      · split
        · exact NoPanic.done _ _ _
        · refine NoPanic.yield _ _ _ _ ?_
          intro t2 cpls2 hi2 _ _ h2
          rcases ans_rows h2 (fun db db' r hk hx => shape_updateTask d _ db db' r hk hx) with rfl | ⟨n, rfl, hn⟩
          · exact np_errResp d _ _ _
          · simp only
            have : ¬ n > 1 := by omega
            simp only [this, if_false]
            split <;> first | exact NoPanic.done _ _ _ | exact NoPanic.retry _ _

/-- one or two promise reads answer with as many `promises` results -/
theorem ans_reads {d : Dialect} {lo hi : Db} (c1 : ReadPromiseCmd) (more : Option ReadPromiseCmd) {cpls : List Cpl}
    (h : Answers d lo hi [.store (.readPromise c1 :: (match more with | some c2 => [.readPromise c2] | none => []))] cpls) :
    cpls = [.err] ∨ ∃ rows1, (more = none ∧ cpls = [.store [.promises rows1]]) ∨ ∃ c2 rows2, more = some c2 ∧ cpls = [.store [.promises rows1, .promises rows2]] := by
  rcases answers_store h with rfl | ⟨rs, db, db', rfl, _, hx, _, _⟩
  · exact .inl rfl
  · right
    obtain ⟨db1, r1, rs1, e1, x1, hr1⟩ := execTx_cons_ok _ _ _ _ _ _ hx
    simp only [Db.exec] at e1
    injection e1 with e1; injection e1 with hd1 hr
    subst hr
    cases more with
    | none =>
      simp only [Db.execTx] at x1
      injection x1 with x1; injection x1 with _ hrs
      subst hrs; subst hr1
      exact ⟨_, .inl ⟨rfl, rfl⟩⟩
    | some c2 =>
      obtain ⟨r2, e2, hrs⟩ := execTx_one x1
      simp only [Db.exec] at e2
      injection e2 with e2; injection e2 with _ hr2
      subst hr2; subst hrs; subst hr1
      exact ⟨_, .inr ⟨c2, _, rfl, rfl⟩⟩

theorem np_claimTask (d : Dialect) (env : Env) (req : ClaimTaskReq) (t0 : Time) (lo : Db) (now : Time)
    (hp : req.processId ≠ "") (httl : 0 ≤ req.ttl) : NoPanic d lo now (claimTask env req t0) := by
  unfold claimTask
  have h1 : (req.processId == "") = false := by simpa using hp
  have h2 : ¬ req.ttl < 0 := by omega
  simp only [h1, h2, Bool.false_eq_true, if_false]
  refine NoPanic.yield _ _ _ _ ?_
  intro t cpls hi _ _ h
  rcases ans_readTask h with h1 | h1 | ⟨r, h1⟩ <;> simp only [h1]
  · exact np_errResp d _ _ _
  · exact NoPanic.done _ _ _
  · split
    · exact NoPanic.done _ _ _
    · split
      · exact NoPanic.done _ _ _
      · split
        · exact NoPanic.done _ _ _
        · refine NoPanic.yield _ _ _ _ ?_
          intro t2 cpls2 hi2 _ _ h2
          rcases ans_rows h2 (fun db db' r hk hx => shape_updateTask d _ db db' r hk hx) with rfl | ⟨n, rfl, hn⟩
          · exact np_errResp d _ _ _
          · simp only
            have : ¬ n > 1 := by omega
            simp only [this, if_false]
            split
            · exact NoPanic.retry _ _
            · refine NoPanic.yield _ _ _ _ ?_
              intro t3 cpls3 hi3 _ _ h3
              by_cases hres : (r.toTask.mesg.type == "resume") = true
              · simp only [hres, if_true] at h3 ⊢
                rcases ans_reads (d := d) { id := r.toTask.mesg.root } (some { id := r.toTask.mesg.leaf }) h3 with rfl | ⟨rows1, ⟨hm, _⟩ | ⟨c2, rows2, _, rfl⟩⟩
                · exact np_errResp d _ _ _
                · cases hm
                · simp
                  exact NoPanic.done _ _ _
              · have hres' : (r.toTask.mesg.type == "resume") = false := by simpa using hres
                simp only [hres', Bool.false_eq_true, if_false] at h3 ⊢
                rcases ans_reads (d := d) { id := r.toTask.mesg.root } none h3 with rfl | ⟨rows1, ⟨_, rfl⟩ | ⟨c2, rows2, hm, _⟩⟩
                · exact np_errResp d _ _ _
                · simp
                  exact NoPanic.done _ _ _
                · cases hm

/-! ### creating a promise (with or without its task) -/

/-- what the create command answers: one result; `rows n`, `n ≤ 1` for a bare create; `rows2 n n`, `n ≤ 1` for a
    create-with-task whose task is the promise's invocation task -/
theorem createTask_fresh (g : SqlDefs) (db : Db) (c : CreateTaskCmd) (h : db.tasks.any (fun r => r.id == c.id) = false) :
    (∃ e, db.createTask g c = .error e) ∨ ∃ db2, db.createTask g c = .ok (db2, 1) := by
  unfold Db.createTask
  split
  · exact .inl ⟨_, rfl⟩
  · split
    · exact .inl ⟨_, rfl⟩
    · simp only [h, Bool.false_eq_true, if_false]
      exact .inr ⟨_, rfl⟩

theorem exec_childCmd_shape {d : Dialect} (pc : CreatePromiseCmd) (ft : Option CreateTaskCmd)
    (hft : ∀ tc, ft = some tc → tc.id = invokeId pc.id) (db db' : Db) (r : Res) (hk : Keys db)
    (he : db.exec (defs d) (childCmd pc ft) = .ok (db', r)) :
    (ft = none ∧ ∃ n, r = .rows n ∧ n ≤ 1) ∨ (∃ tc, ft = some tc ∧ ∃ n, r = .rows2 n n ∧ n ≤ 1) := by
  cases ft with
  | none =>
    left
    simp only [childCmd, Db.exec] at he
    injection he with he; injection he with _ hr
    refine ⟨rfl, _, hr.symm, ?_⟩
    unfold Db.createPromise; split <;> simp
  | some tc =>
    right
    have hid := hft tc rfl
    simp only [childCmd, Db.exec] at he
    by_cases hex : db.promises.any (fun r => r.id == pc.id) = true
    · have h0 : (db.createPromise (defs d) pc).2 = 0 := by unfold Db.createPromise; simp [hex]
      simp only [h0] at he
      simp at he
      exact ⟨tc, rfl, 0, he.2.symm, Nat.zero_le _⟩
    · have hex' : db.promises.any (fun r => r.id == pc.id) = false := by simpa using hex
      have h1 : db.createPromise (defs d) pc = ({ db with promises := db.promises ++ [(defs d).promiseInsert_row pc (db.seqP + 1)], seqP := db.seqP + 1 }, 1) := by
        unfold Db.createPromise; simp [hex']
      rw [h1] at he
      simp only at he
      have hnot : ({ db with promises := db.promises ++ [(defs d).promiseInsert_row pc (db.seqP + 1)], seqP := db.seqP + 1 } : Db).tasks.any (fun r => r.id == tc.id) = false := by
        rw [List.any_eq_false]
        intro t ht hte
        have hte' : t.id = invokeId pc.id := by rw [← hid]; simpa using hte
        obtain ⟨p, hp, hpid⟩ := hk.invoke t ht pc.id hte'
        rw [List.any_eq_false] at hex'
        exact hex' p hp (by simp [hpid])
      have hct := createTask_fresh (defs d) _ tc hnot
      have h10 : ((1 : Nat) == 0) = false := rfl
      simp only [h10, Bool.false_eq_true, if_false] at he
      rcases hct with ⟨e, hce⟩ | ⟨db2, hce⟩
      · rw [hce] at he; cases he
      · rw [hce] at he
        injection he with he; injection he with _ hr
        exact ⟨tc, rfl, 1, hr.symm, Nat.le_refl _⟩

theorem ans_childStore {d : Dialect} {lo hi : Db} (pc : CreatePromiseCmd) (ft : Option CreateTaskCmd)
    (hft : ∀ tc, ft = some tc → tc.id = invokeId pc.id) {cpls : List Cpl}
    (h : Answers d lo hi [.store [childCmd pc ft]] cpls) :
    cpls = [.err] ∨ (∃ n, ft = none ∧ cpls = [.store [.rows n]] ∧ n ≤ 1) ∨ (∃ n tc, ft = some tc ∧ cpls = [.store [.rows2 n n]] ∧ n ≤ 1) := by
  rcases answers_store h with rfl | ⟨rs, db, db', rfl, hk, hx, _, _⟩
  · exact .inl rfl
  · right
    obtain ⟨r, he, rfl⟩ := execTx_one hx
    rcases exec_childCmd_shape pc ft hft db db' r hk he with ⟨hn, n, rfl, hn1⟩ | ⟨tc, hs, n, rfl, hn1⟩
    · exact .inl ⟨n, hn, rfl, hn1⟩
    · exact .inr ⟨n, tc, hs, rfl, hn1⟩

theorem np_createPromiseInner (d : Dialect) (req : CreatePromiseReq) (taskCmd : Option CreateTaskCmd) (withTask : Bool) (t0 : Time)
    (hw : withTask = taskCmd.isSome) (hid : ∀ tc, taskCmd = some tc → tc.id = invokeId req.id) (lo : Db) (now : Time) :
    NoPanic d lo now (createPromiseInner req taskCmd withTask t0) := by
  unfold createPromiseInner
  refine NoPanic.yield _ _ _ _ ?_
  intro t cpls hi _ _ h
  rcases ans_readPromise h with h1 | h1 | ⟨r, h1, _, _⟩ <;> simp only [h1]
  · exact np_errResp d _ _ _
  · -- not there: route, then create
    unfold createPromiseChild
    refine NoPanic.yield _ _ _ _ ?_
    intro t2 cpls2 hi2 _ _ h2
    obtain ⟨rc, rfl, hrc⟩ := answers_single h2
    simp only
    split
    · exact np_errResp d _ _ _
    · split
      · exact np_errResp d _ _ _
      · rename_i hnf hroute
        unfold childStore
        refine NoPanic.yield _ _ _ _ ?_
        intro t3 cpls3 hi3 _ _ h3
        have hft : ∀ tc, childTask { id := req.id, param := req.param, timeout := req.timeout, idempotencyKey := req.idempotencyKey, tags := req.tags, createdOn := t } taskCmd (routeOf rc) = some tc →
            tc.id = invokeId req.id := by
          intro tc htc
          unfold childTask at htc
          split at htc
          · cases htc
          · injection htc with htc
            subst htc
            split
            · rename_i tc0; exact hid tc0 rfl
            · rfl
        rcases ans_childStore _ _ hft h3 with rfl | ⟨n, hnone, rfl, hn⟩ | ⟨n, tc, hsome, rfl, hn⟩
        · exact np_errResp d _ _ _
        · -- bare create
          have hn1 : ¬ n > 1 := by omega
          simp [hn1]
          split
          · exact NoPanic.retry _ _
          · -- withTask would need a task: but then the router matched (hroute) and ft is some
            cases hwt : withTask with
            | false => simp; exact NoPanic.done _ _ _
            | true =>
              exfalso
              rw [hwt] at hw
              have hts : taskCmd.isSome = true := hw.symm
              cases htc : taskCmd with
              | none => simp [htc] at hts
              | some tc0 =>
                -- the router matched (else the S_PROMISE_RECV_NOT_FOUND branch), so childTask is some
                cases hro : routeOf rc with
                | none => simp [htc, hro] at hroute
                | some recv => simp [childTask, hro] at hnone
        · have hn1 : ¬ n > 1 := by omega
          simp [hn1, hsome]
          split
          · exact NoPanic.retry _ _
          · cases hwt : withTask <;> simp <;> exact NoPanic.done _ _ _
  · split
    · refine np_completeCont d _ _ _ _ _ (fun _ _ => ?_) _
      cases withTask <;> exact NoPanic.done _ _ _
    · split <;> (cases withTask <;> exact NoPanic.done _ _ _)

/-! ### background coroutines -/

theorem answers_mem {d : Dialect} {lo hi : Db} : ∀ (subs : List Subm) (cpls : List Cpl),
    Answers d lo hi subs cpls → cpls.length = subs.length ∧ ∀ c ∈ cpls, ∃ s ∈ subs, AnswerOne d lo hi s c := by
  intro subs
  induction subs with
  | nil => intro cpls h; cases cpls with | nil => exact ⟨rfl, by intro c hc; cases hc⟩ | cons _ _ => simp [Answers] at h
  | cons a l ih =>
    intro cpls h
    cases cpls with
    | nil => simp [Answers] at h
    | cons c0 cs =>
      simp only [Answers] at h
      obtain ⟨hl, hm⟩ := ih cs h.2
      refine ⟨by simp [hl], ?_⟩
      intro c hc
      simp only [List.mem_cons] at hc
      rcases hc with rfl | hc
      · exact ⟨a, by simp, h.1⟩
      · obtain ⟨x, hx, hxa⟩ := hm c hc
        exact ⟨x, by simp [hx], hxa⟩

theorem np_timeoutPromises (d : Dialect) (env : Env) (t0 : Time) (lo : Db) (now : Time) (hnow : t0 ≤ now) :
    NoPanic d lo now (timeoutPromises env t0) := by
  unfold timeoutPromises
  refine NoPanic.yield _ _ _ _ ?_
  intro t cpls hi ht _ h
  rcases answers_store h with rfl | ⟨rs, db, db', rfl, _, hx, _, _⟩
  · exact NoPanic.done _ _ _
  · obtain ⟨r, he, rfl⟩ := execTx_one hx
    simp only [Db.exec] at he
    injection he with he; injection he with _ hr
    subst hr
    have hrows : ∀ x ∈ (takeLimit ((defs d).promiseSelectAll_limit { time := t0, limit := env.cfg.promiseBatchSize })
        (db.promises.filter ((defs d).promiseSelectAll_where { time := t0, limit := env.cfg.promiseBatchSize }))).map (defs d).promiseSelectAll_proj,
        x.state = P_PENDING ∧ x.timeout ≤ t := by
      intro x hx
      obtain ⟨y, hy, rfl⟩ := List.mem_map.mp hx
      have hyf := (List.mem_filter.mp (mem_takeLimit _ _ _ hy)).2
      simp only [defs, promiseSelectAll_where, Bool.and_eq_true, beq_iff_eq, decide_eq_true_eq] at hyf
      have htt : y.timeout ≤ t := Int.le_trans hyf.2 (Int.le_trans hnow ht)
      exact ⟨by simp [defs, promiseSelectAll_proj, P_PENDING, hyf.1], by simpa [defs, promiseSelectAll_proj] using htt⟩
    simp only
    generalize (takeLimit ((defs d).promiseSelectAll_limit { time := t0, limit := env.cfg.promiseBatchSize })
        (db.promises.filter ((defs d).promiseSelectAll_where { time := t0, limit := env.cfg.promiseBatchSize }))).map (defs d).promiseSelectAll_proj = rows at hrows ⊢
    have h1 : (rows.any fun r : PromiseRow => r.state != P_PENDING) = false := by
      rw [List.any_eq_false]; intro x hx; simp [(hrows x hx).1]
    have h2 : (rows.any fun r : PromiseRow => !(decide (r.timeout ≤ t))) = false := by
      rw [List.any_eq_false]; intro x hx; simp [(hrows x hx).2]
    rw [h1, h2]
    simp only [Bool.false_eq_true, if_false]
    split
    · exact NoPanic.done _ _ _
    · refine NoPanic.yield _ _ _ _ ?_
      intro t2 cpls2 hi2 _ _ h2'
      have hn := no_panic_outs (fun r : PromiseRow => timeoutCmd r.id r.toPromise) t _ cpls2 h2'
      split
      · rename_i s heq
        exact absurd rfl (hn _ (List.mem_of_find?_eq_some heq) s)
      · exact NoPanic.done _ _ _

theorem and7_of_and6 (s : Nat) (h : (s &&& 6) ≠ 0) : (s &&& 7) ≠ 0 := by
  intro h7
  apply h
  have h76 : (7 &&& 6 : Nat) = 6 := by decide
  have : s &&& 6 = (s &&& 7) &&& 6 := by rw [Nat.and_assoc, h76]
  rw [this, h7]; rfl

theorem np_timeoutTasks (d : Dialect) (env : Env) (t0 : Time) (lo : Db) (now : Time) : NoPanic d lo now (timeoutTasks env t0) := by
  unfold timeoutTasks
  refine NoPanic.yield _ _ _ _ ?_
  intro t cpls hi _ _ h
  rcases answers_store h with rfl | ⟨rs, db, db', rfl, _, hx, _, _⟩
  · exact NoPanic.done _ _ _
  · obtain ⟨r, he, rfl⟩ := execTx_one hx
    simp only [Db.exec] at he
    split at he
    · cases he
    · injection he with he; injection he with _ hr
      subst hr
      simp only
      have hrows : ∀ x ∈ (takeLimit ((defs d).taskSelectAll_limit { states := [T_ENQUEUED, T_CLAIMED], time := t0, limit := env.cfg.taskBatchSize })
          ((db.tasks.filter ((defs d).taskSelectAll_where { states := [T_ENQUEUED, T_CLAIMED], time := t0, limit := env.cfg.taskBatchSize })).mergeSort taskOrdLe)).map (defs d).taskSelectAll_proj,
          ((x.state &&& (T_INIT ||| T_ENQUEUED ||| T_CLAIMED)) == 0) = false := by
        intro x hx
        obtain ⟨y, hy, rfl⟩ := List.mem_map.mp hx
        have hyf : (defs d).taskSelectAll_where { states := [T_ENQUEUED, T_CLAIMED], time := t0, limit := env.cfg.taskBatchSize } y = true := by
          have hm := mem_takeLimit _ _ _ hy
          have := (List.Perm.mem_iff (List.mergeSort_perm _ _)).mp hm
          exact (List.mem_filter.mp this).2
        simp only [defs, taskSelectAll_where, Bool.and_eq_true, bne_iff_ne] at hyf
        have h6 : maskOf [T_ENQUEUED, T_CLAIMED] = 6 := rfl
        rw [h6] at hyf
        have := and7_of_and6 y.state hyf.1
        simpa [defs, taskSelectAll_proj, T_INIT, T_ENQUEUED, T_CLAIMED] using this
      generalize (takeLimit ((defs d).taskSelectAll_limit { states := [T_ENQUEUED, T_CLAIMED], time := t0, limit := env.cfg.taskBatchSize })
          ((db.tasks.filter ((defs d).taskSelectAll_where { states := [T_ENQUEUED, T_CLAIMED], time := t0, limit := env.cfg.taskBatchSize })).mergeSort taskOrdLe)).map (defs d).taskSelectAll_proj = rows at hrows ⊢
      have h1 : (rows.any fun r : TaskRow => (r.state &&& (T_INIT ||| T_ENQUEUED ||| T_CLAIMED)) == 0) = false := by
        rw [List.any_eq_false]; intro x hx; simp [hrows x hx]
      rw [h1]
      simp only [Bool.false_eq_true, if_false]
      split
      · exact NoPanic.done _ _ _
      · split
        · exact NoPanic.done _ _ _
        · refine NoPanic.yield _ _ _ _ ?_
          intro _ _ _ _ _ _
          exact NoPanic.done _ _ _

theorem execTx_reads {g : SqlDefs} {α : Type} (f : α → ReadPromiseCmd) : ∀ (l : List α) (db db' : Db) (rs : List Res),
    db.execTx g (l.map fun x => .readPromise (f x)) = .ok (db', rs) →
    rs.length = l.length ∧ ∀ r ∈ rs, ∃ rows, r = .promises rows := by
  intro l
  induction l with
  | nil => intro db db' rs h; simp [Db.execTx] at h; obtain ⟨_, rfl⟩ := h; simp
  | cons a l ih =>
    intro db db' rs h
    obtain ⟨db1, r1, rs1, e1, x1, hr⟩ := execTx_cons_ok _ _ _ _ _ _ h
    simp only [Db.exec] at e1
    injection e1 with e1; injection e1 with _ hr1
    obtain ⟨hl, hall⟩ := ih db1 db' rs1 x1
    subst hr
    refine ⟨by simp [hl], ?_⟩
    intro r hrm
    simp only [List.mem_cons] at hrm
    rcases hrm with rfl | hrm
    · exact ⟨_, hr1.symm⟩
    · exact hall r hrm

theorem np_enqueueFinish (d : Dialect) (deadCmds : List Cmd) (live : List TaskRow) (e : Int) (outs : List Cpl) (lo : Db) (now : Time) :
    NoPanic d lo now (enqueueFinish deadCmds live e outs) := by
  unfold enqueueFinish
  simp only
  split
  · exact NoPanic.done _ _ _
  · refine NoPanic.yield _ _ _ _ ?_
    intro _ _ _ _ _ _
    exact NoPanic.done _ _ _

theorem np_enqueueTasks (d : Dialect) (env : Env) (t0 : Time) (lo : Db) (now : Time) : NoPanic d lo now (enqueueTasks env t0) := by
  unfold enqueueTasks
  refine NoPanic.yield _ _ _ _ ?_
  intro t cpls hi _ _ h
  rcases answers_store h with rfl | ⟨rs, db, db', rfl, _, hx, _, _⟩
  · exact NoPanic.done _ _ _
  · obtain ⟨r, he, rfl⟩ := execTx_one hx
    simp only [Db.exec] at he
    injection he with he; injection he with _ hr
    subst hr
    simp only
    generalize List.map (defs d).taskSelectEnqueueable_proj _ = rows
    split
    · exact NoPanic.done _ _ _
    · refine NoPanic.yield _ _ _ _ ?_
      intro t2 cpls2 hi2 _ _ h2
      rcases answers_store h2 with rfl | ⟨prs, db2, db2', rfl, _, hx2, _, _⟩
      · exact NoPanic.done _ _ _
      · obtain ⟨hlen, hall⟩ := execTx_reads (fun r : TaskRow => ({ id := r.rootPromiseId } : ReadPromiseCmd)) _ _ _ _ hx2
        simp only
        have h1 : (prs.length != rows.length) = false := by simp [hlen]
        simp only [h1, Bool.false_eq_true, if_false]
        split
        · rename_i hany
          exfalso
          rw [List.any_eq_true] at hany
          obtain ⟨⟨rr, pr⟩, hm, hbad⟩ := hany
          have hpr : pr ∈ prs := by
            have := (List.mem_filter.mp hm).1
            exact (List.of_mem_zip this).2
          obtain ⟨rows, rfl⟩ := hall pr hpr
          simp at hbad
        · split
          · exact np_enqueueFinish d _ _ _ _ _ _
          · refine NoPanic.yield _ _ _ _ ?_
            intro _ outs _ _ _ _
            exact np_enqueueFinish d _ _ _ _ _ _

/-- the answer to a `(create…, updateSchedule)` transaction is an error or passes the parent's shape check -/
theorem ans_fire {d : Dialect} {lo hi : Db} (pc : CreatePromiseCmd) (ft : Option CreateTaskCmd)
    (hft : ∀ tc, ft = some tc → tc.id = invokeId pc.id) (u : UpdateScheduleCmd) {c : Cpl}
    (h : AnswerOne d lo hi (.store [childCmd pc ft, .updateSchedule u]) c) :
    c = .err ∨ (∃ n k, c = .store [.rows n, .rows k] ∧ n ≤ 1) ∨ (∃ n k, c = .store [.rows2 n n, .rows k] ∧ n ≤ 1) := by
  cases c with
  | err => exact .inl rfl
  | router m r => simp [AnswerOne] at h
  | sender b => simp [AnswerOne] at h
  | store rs =>
    right
    obtain ⟨db, db', _, hk, hx, _⟩ := h
    obtain ⟨db1, r1, rs1, e1, x1, hr⟩ := execTx_cons_ok _ _ _ _ _ _ hx
    obtain ⟨r2, e2, hrs1⟩ := execTx_one x1
    simp only [Db.exec] at e2
    injection e2 with e2; injection e2 with _ hr2
    subst hr; subst hrs1
    rcases exec_childCmd_shape pc ft hft db db1 r1 hk e1 with ⟨_, n, rfl, hn1⟩ | ⟨tc, _, n, rfl, hn1⟩
    · exact .inl ⟨n, _, by rw [← hr2], hn1⟩
    · exact .inr ⟨n, _, by rw [← hr2], hn1⟩

theorem np_schedulePromises (d : Dialect) (env : Env) (t0 : Time) (lo : Db) (now : Time) (hnow : t0 ≤ now) :
    NoPanic d lo now (schedulePromises env t0) := by
  unfold schedulePromises
  refine NoPanic.yield _ _ _ _ ?_
  intro t cpls hi ht _ h
  rcases answers_store h with rfl | ⟨rs, db, db', rfl, _, hx, _, _⟩
  · exact NoPanic.done _ _ _
  · obtain ⟨r, he, rfl⟩ := execTx_one hx
    simp only [Db.exec] at he
    injection he with he; injection he with _ hr
    subst hr
    have hrows : ∀ x ∈ (takeLimit ((defs d).scheduleSelectAll_limit { nextRunTime := t0, limit := env.cfg.scheduleBatchSize })
        ((db.schedules.filter ((defs d).scheduleSelectAll_where { nextRunTime := t0, limit := env.cfg.scheduleBatchSize })).mergeSort schedOrdLe)).map (defs d).scheduleSelectAll_proj,
        x.nextRunTime ≤ t := by
      intro x hx
      obtain ⟨y, hy, rfl⟩ := List.mem_map.mp hx
      have hm := mem_takeLimit _ _ _ hy
      have hyf := (List.mem_filter.mp ((List.Perm.mem_iff (List.mergeSort_perm _ _)).mp hm)).2
      simp only [defs, scheduleSelectAll_where, decide_eq_true_eq] at hyf
      have : y.nextRunTime ≤ t := Int.le_trans hyf (Int.le_trans hnow ht)
      simpa [defs, scheduleSelectAll_proj] using this
    simp only
    generalize (takeLimit ((defs d).scheduleSelectAll_limit { nextRunTime := t0, limit := env.cfg.scheduleBatchSize })
        ((db.schedules.filter ((defs d).scheduleSelectAll_where { nextRunTime := t0, limit := env.cfg.scheduleBatchSize })).mergeSort schedOrdLe)).map (defs d).scheduleSelectAll_proj = rows at hrows ⊢
    have h1 : (rows.any fun r : ScheduleRow => !(decide (r.nextRunTime ≤ t))) = false := by
      rw [List.any_eq_false]; intro x hx; simp [hrows x hx]
    rw [h1]
    simp only [Bool.false_eq_true, if_false]
    -- every item pairs a create command with an `updateSchedule`
    generalize hitems : (rows.filterMap fun r =>
        match env.cronNext r.toSchedule.cron r.toSchedule.nextRunTime, env.genId r.toSchedule.promiseId r.toSchedule.id r.toSchedule.nextRunTime with
        | some next, some id =>
          some (({ id := id, param := r.toSchedule.promiseParam, timeout := r.toSchedule.promiseTimeout + r.toSchedule.nextRunTime, idempotencyKey := none,
                   tags := (r.toSchedule.promiseTags.set "resonate:schedule" r.toSchedule.id).set "resonate:invocation" "true", createdOn := t } : CreatePromiseCmd),
                Cmd.updateSchedule { id := r.toSchedule.id, lastRunTime := some r.toSchedule.nextRunTime, nextRunTime := next })
        | _, _ => none) = items
    have hupd : ∀ it ∈ items, ∃ u, it.2 = Cmd.updateSchedule u := by
      intro it hit
      rw [← hitems] at hit
      obtain ⟨r, _, hr⟩ := List.mem_filterMap.mp hit
      split at hr
      · injection hr with hr; subst hr; exact ⟨_, rfl⟩
      · cases hr
    split
    · exact NoPanic.done _ _ _
    · refine NoPanic.yield _ _ _ _ ?_
      intro t2 rcs hi2 _ _ h2
      obtain ⟨hlen, _⟩ := answers_mem _ _ h2
      have hl : (rcs.length != items.length) = false := by simp [hlen]
      simp only [hl, Bool.false_eq_true, if_false]
      split
      · exact NoPanic.done _ _ _
      · refine NoPanic.yield _ _ _ _ ?_
        intro t3 scs hi3 _ _ h3
        obtain ⟨_, hmem⟩ := answers_mem _ _ h3
        split
        · rename_i hany
          exfalso
          rw [List.any_eq_true] at hany
          obtain ⟨c, hc, hbad⟩ := hany
          obtain ⟨sub, hsub, hans⟩ := hmem c hc
          obtain ⟨⟨⟨pc, upd⟩, rc⟩, hz, rfl⟩ := List.mem_map.mp hsub
          have hit : (pc, upd) ∈ items := (List.of_mem_zip (List.mem_filter.mp hz).1).1
          obtain ⟨u, hu⟩ := hupd _ hit
          simp only at hu
          subst hu
          have key : c = .err ∨ (∃ n k, c = .store [.rows n, .rows k] ∧ n ≤ 1) ∨ (∃ n k, c = .store [.rows2 n n, .rows k] ∧ n ≤ 1) := by
            split at hans
            · rename_i recv _
              exact ans_fire pc (some { id := invokeId pc.id, recv := recv, mesg := { type := "invoke", root := pc.id, leaf := pc.id }, timeout := pc.timeout, processId := none, state := T_INIT, ttl := 0, expiresAt := 0, createdOn := pc.createdOn })
                (by intro tc htc; injection htc with htc; subst htc; rfl) u hans
            · exact ans_fire pc none (by intro tc htc; cases htc) u hans
          rcases key with rfl | ⟨n, k, rfl, hn⟩ | ⟨n, k, rfl, hn⟩
          · simp at hbad
          · have : ¬ n > 1 := by omega
            simp [this] at hbad
          · have : ¬ n > 1 := by omega
            simp [this] at hbad
        · exact NoPanic.done _ _ _

end Resonate
