/-
  Proofs/Lin.lean — the linearisation point of a two-step request (read, then guarded write) is its write:
  when the guarded write is applied, the row the coroutine had read is — at that very instant — still exactly what
  it read, so reading and writing at that instant (what a single-threaded server would do) gives the same answer
  and the same effect.
-/
import Resonate.Model.SqlSpec
import Resonate.Model.Store
import Resonate.Proofs.PromiseInv
import Resonate.Proofs.PromIds
import Resonate.Properties.C01
import Resonate.Properties.C16
namespace Resonate
open SqlSpec

/-- with unique ids, selecting by id finds exactly the row -/
theorem filter_id_unique : ∀ (l : List PromiseRow), List.Pairwise (fun a b : PromiseRow => a.id ≠ b.id) l →
    ∀ y ∈ l, l.filter (fun r => r.id == y.id) = [y] := by
  intro l
  induction l with
  | nil => intro _ y hy; cases hy
  | cons a l ih =>
    intro hp y hy
    rw [List.pairwise_cons] at hp
    simp only [List.mem_cons] at hy
    rcases hy with rfl | hy
    · have : l.filter (fun r => r.id == y.id) = [] := by
        rw [List.filter_eq_nil_iff]
        intro b hb hbe
        have hbe' : b.id = y.id := by simpa using hbe
        exact hp.1 b hb hbe'.symm
      simp [List.filter_cons, this]
    · have hne : (a.id == y.id) = false := by
        simp only [beq_eq_false_iff_ne]; exact hp.1 y hy
      simp only [List.filter_cons, hne, Bool.false_eq_true, if_false]
      exact ih hp.2 y hy

/-- what a read by id answers -/
theorem read_by_id (d : Dialect) (db : Db) (id : String) :
    db.exec (defs d) (.readPromise { id := id }) =
      .ok (db, .promises (((db.promises.filter fun r => r.id == id).take 1).map promiseSelect_proj)) := rfl

theorem read_finds (d : Dialect) (db : Db) (hk : PromIds db) (y : PromiseRow) (hy : y ∈ db.promises) :
    db.exec (defs d) (.readPromise { id := y.id }) = .ok (db, .promises [promiseSelect_proj y]) := by
  rw [read_by_id, filter_id_unique db.promises hk y hy]; rfl

theorem read_misses (d : Dialect) (db : Db) (id : String) (h : ∀ r ∈ db.promises, r.id ≠ id) :
    db.exec (defs d) (.readPromise { id := id }) = .ok (db, .promises []) := by
  rw [read_by_id]
  have : db.promises.filter (fun r => r.id == id) = [] := by
    rw [List.filter_eq_nil_iff]; intro r hr he; exact h r hr (by simpa using he)
  simp [this]

/-- **a pending row is what it was.** If a promise was stored in `db1` and is pending in a later database `db2`,
    its row in `db2` is identical to its row in `db1` (a pending promise has no history) -/
theorem pending_row_unchanged {db1 db2 : Db} (hm : PromMono db1 db2) (hk2 : PromIds db2)
    {x y : PromiseRow} (hx : x ∈ db1.promises) (hy : y ∈ db2.promises) (hid : y.id = x.id) (hpend : y.state = 1) : y = x := by
  obtain ⟨i, hi⟩ := List.getElem?_of_mem hx
  obtain ⟨l1, l2, he, hf⟩ := hm
  obtain ⟨b, hb, hle⟩ := forall2_get hf i x hi
  have hbm : b ∈ db2.promises := by
    rw [he]; exact List.mem_append_left _ (List.mem_of_getElem? hb)
  have hyb : y = b := promIds_unique hk2 hy hbm (hid.trans hle.1)
  subst hyb
  by_cases hs : x.state = 1
  · rcases hle.2.2.2.2.2.2.2.2.2 hs with h | h
    · exact h
    · exact absurd hpend (promiseStateOk_ne_one h)
  · exact hle.2.2.2.2.2.2.2.2.1 hs

/-- **completion (explicit or lazy time-out): the write is the linearisation point.** The coroutine read row `x` in
    `db1`; anything may have happened since (`PromMono db1 db2`); its guarded update is applied in `db2` (one row).
    Then a read at `db2` — the instant of the write — answers exactly what the coroutine had read. -/
theorem read_stable_until_completion (d : Dialect) (db1 db2 db3 : Db) (hm : PromMono db1 db2) (hk2 : PromIds db2)
    (x : PromiseRow) (hx : x ∈ db1.promises) (cmd : UpdatePromiseCmd) (hid : cmd.id = x.id)
    (hw : db2.exec (defs d) (.updatePromise cmd) = .ok (db3, .rows 1)) :
    db2.exec (defs d) (.readPromise { id := x.id }) = .ok (db2, .promises [promiseSelect_proj x]) := by
  -- one row matched the guard: it has the id and is pending
  simp only [Db.exec] at hw
  split at hw
  · cases hw
  · injection hw with hw; injection hw with _ hres
    have hcount : countP ((defs d).promiseUpdate_where cmd) db2.promises = 1 := by injection hres
    have hne : db2.promises.filter ((defs d).promiseUpdate_where cmd) ≠ [] := by
      intro h0; simp [countP, h0] at hcount
    obtain ⟨y, hyf⟩ := List.exists_mem_of_ne_nil _ hne
    have hy := (List.mem_filter.mp hyf).1
    have hyw := (List.mem_filter.mp hyf).2
    simp only [defs, promiseUpdate_where, Bool.and_eq_true, beq_iff_eq] at hyw
    have hyx : y = x := pending_row_unchanged hm hk2 hx hy (hyw.1.trans hid) hyw.2
    subst hyx
    exact read_finds d db2 hk2 y hy

/-- **creation: the insert is the linearisation point.** The insert is applied in `db2` (one row) only if no promise
    with that id is stored there; hence a read at that instant finds none — what the coroutine had found earlier. -/
theorem read_stable_until_creation (d : Dialect) (db2 db3 : Db) (c : CreatePromiseCmd) (n : Nat) (hn : n ≠ 0)
    (hw : db2.exec (defs d) (.createPromise c) = .ok (db3, .rows n)) :
    db2.exec (defs d) (.readPromise { id := c.id }) = .ok (db2, .promises []) := by
  apply read_misses
  intro r hr he
  have hex : ∃ r ∈ db2.promises, r.id = c.id := ⟨r, hr, he⟩
  have := C16.createPromise_present (d := d) db2 c hex
  rw [this] at hw
  injection hw with hw; injection hw with _ h; injection h with h
  exact hn h.symm

/-- … and the earlier read that found nothing was truthful about every earlier database: a promise never disappears -/
theorem absent_now_absent_before {db1 db2 : Db} (hm : PromMono db1 db2) (id : String) (h2 : ∀ r ∈ db2.promises, r.id ≠ id) :
    ∀ r ∈ db1.promises, r.id ≠ id := by
  intro r hr he
  obtain ⟨i, hi⟩ := List.getElem?_of_mem hr
  obtain ⟨r', hr', hid', _⟩ := C01.never_disappears hm i r hi
  exact h2 r' (List.mem_of_getElem? hr') (hid'.trans he)

/-- **registration: the guarded insert is the linearisation point.** A registration is inserted in `db2` only if the
    awaited promise is pending there; the promise the coroutine had read in `db1` and returns with the registration is
    therefore exactly the promise as it stands at the instant of the insert. -/
theorem registration_sees_current_promise (d : Dialect) (db1 db2 db3 : Db) (hm : PromMono db1 db2) (hk2 : PromIds db2)
    (x : PromiseRow) (hx : x ∈ db1.promises) (c : CreateCallbackCmd) (hid : c.promiseId = x.id)
    (hw : db2.exec (defs d) (.createCallback c) = .ok (db3, .rows 1)) :
    db2.exec (defs d) (.readPromise { id := x.id }) = .ok (db2, .promises [promiseSelect_proj x]) := by
  simp only [Db.exec] at hw
  split at hw
  · rename_i hg
    simp only [defs, callbackInsert_guard, Bool.and_eq_true, List.any_eq_true, beq_iff_eq] at hg
    obtain ⟨⟨y, hy, hyid, hyst⟩, _⟩ := hg
    have hyx : y = x := pending_row_unchanged hm hk2 hx hy (hyid.trans hid) hyst
    subst hyx
    exact read_finds d db2 hk2 y hy
  · injection hw with hw; injection hw with _ h; injection h with h; cases h

end Resonate
