/-
  Proofs/PromiseInv.lean — the promises table under arbitrary store commands (no well-formedness
  assumption on the commands at all):
  * `PromMono`  — write-once completion, immutable creation fields, no promise ever disappears (C01)
  * `PromIds`   — ids unique, sort ids strictly increasing and bounded by the sequence (C14, C16)
-/
import Resonate.Model.SqlSpec
import Resonate.Proofs.StoreBasics
namespace Resonate
open SqlSpec

/-- `b` is a legal later version of promise row `a` -/
def PromRowLe (a b : PromiseRow) : Prop :=
  a.id = b.id ∧ a.sortId = b.sortId ∧ a.paramHeaders = b.paramHeaders ∧ a.paramData = b.paramData ∧
  a.timeout = b.timeout ∧ a.idempotencyKeyForCreate = b.idempotencyKeyForCreate ∧ a.tags = b.tags ∧
  a.createdOn = b.createdOn ∧
  (a.state ≠ 1 → b = a) ∧
  (a.state = 1 → b = a ∨ promiseStateOk b.state = true)

theorem PromRowLe.refl (a : PromiseRow) : PromRowLe a a := by
  simp [PromRowLe]

theorem promiseStateOk_ne_one {s : Nat} (h : promiseStateOk s = true) : s ≠ 1 := by
  intro h1; subst h1; simp [promiseStateOk] at h

theorem PromRowLe.trans {a b c : PromiseRow} (h1 : PromRowLe a b) (h2 : PromRowLe b c) : PromRowLe a c := by
  obtain ⟨i1, s1, ph1, pd1, t1, k1, g1, c1, n1, p1⟩ := h1
  obtain ⟨i2, s2, ph2, pd2, t2, k2, g2, c2, n2, p2⟩ := h2
  refine ⟨i1.trans i2, s1.trans s2, ph1.trans ph2, pd1.trans pd2, t1.trans t2, k1.trans k2, g1.trans g2, c1.trans c2, ?_, ?_⟩
  · intro h
    have hb := n1 h
    subst hb
    exact n2 h
  · intro h
    rcases p1 h with hb | hb
    · subst hb; exact p2 h
    · right
      have := n2 (promiseStateOk_ne_one hb)
      subst this; exact hb

/-- every promise of `l` is still there, at the same position, as a legal later version -/
def PromListLe (l l' : List PromiseRow) : Prop :=
  ∃ l1 l2, l' = l1 ++ l2 ∧ Forall2 PromRowLe l l1

theorem PromListLe.refl (l : List PromiseRow) : PromListLe l l :=
  ⟨l, [], by simp, forall2_refl PromRowLe.refl l⟩

theorem PromListLe.trans {a b c : List PromiseRow} (h1 : PromListLe a b) (h2 : PromListLe b c) : PromListLe a c := by
  obtain ⟨b1, b2, rfl, hab⟩ := h1
  obtain ⟨c1, c2, rfl, hbc⟩ := h2
  obtain ⟨m1, m2, rfl, hm1, _⟩ := forall2_split hbc
  exact ⟨m1, m2 ++ c2, by simp, forall2_trans (R := PromRowLe) (fun _ _ _ h1 h2 => PromRowLe.trans h1 h2) hab hm1⟩

theorem PromListLe.append (l extra : List PromiseRow) : PromListLe l (l ++ extra) :=
  ⟨l, extra, rfl, forall2_refl PromRowLe.refl l⟩

/-- `PromMono db db'`: the promises table only ever grows, and existing rows only ever move from
    pending to exactly one completed state, keeping every creation field -/
def PromMono (db db' : Db) : Prop := PromListLe db.promises db'.promises

theorem PromMono.refl (db : Db) : PromMono db db := PromListLe.refl _
theorem PromMono.trans {a b c : Db} (h1 : PromMono a b) (h2 : PromMono b c) : PromMono a c := PromListLe.trans h1 h2

theorem PromMono.of_eq {db db' : Db} (h : db'.promises = db.promises) : PromMono db db' := by
  unfold PromMono; rw [h]; exact PromListLe.refl _

/-- the one UPDATE on promises: pending rows with the addressed id take the command's completed
    state; every other row is untouched -/
theorem promMono_update (l : List PromiseRow) (c : UpdatePromiseCmd) (hs : promiseStateOk c.state = true) :
    PromListLe l (updateWhere (promiseUpdate_where c) (promiseUpdate_set c) l) := by
  refine ⟨updateWhere (promiseUpdate_where c) (promiseUpdate_set c) l, [], by simp, ?_⟩
  induction l with
  | nil => exact Forall2.nil
  | cons a l ih =>
    simp only [updateWhere, List.map_cons]
    refine Forall2.cons ?_ ih
    by_cases hw : promiseUpdate_where c a = true
    · simp only [hw, if_true]
      have hst : a.state = 1 := by
        simp only [promiseUpdate_where, Bool.and_eq_true, beq_iff_eq] at hw; exact hw.2
      refine ⟨rfl, rfl, rfl, rfl, rfl, rfl, rfl, rfl, ?_, ?_⟩
      · intro h; exact absurd hst h
      · intro _; right; simpa [promiseUpdate_set] using hs
    · simp only [hw]; exact PromRowLe.refl a

theorem createPromise_promises (d : Dialect) (db : Db) (c : CreatePromiseCmd) :
    ∃ extra, (db.createPromise (defs d) c).1.promises = db.promises ++ extra := by
  unfold Db.createPromise
  split
  · exact ⟨[], by simp⟩
  · exact ⟨[_], rfl⟩

theorem createTask_promises (d : Dialect) (db db' : Db) (c : CreateTaskCmd) (n : Nat)
    (h : db.createTask (defs d) c = .ok (db', n)) : db'.promises = db.promises := by
  unfold Db.createTask at h
  split at h
  · cases h
  · split at h
    · cases h
    · split at h <;> (injection h with h; injection h with h _; subst h; rfl)

/-- **C01 / T1+T2.** Whatever single store command is executed — any of the 27 kinds, with any
    arguments, on any database — every promise that existed is still there with its creation fields
    intact, and a promise that was not pending is bit-for-bit identical. -/
theorem promMono_exec (d : Dialect) (db db' : Db) (cmd : Cmd) (r : Res)
    (h : db.exec (defs d) cmd = .ok (db', r)) : PromMono db db' := by
  cases cmd with
  | createPromise c =>
    simp only [Db.exec] at h
    injection h with h; injection h with h _
    subst h
    obtain ⟨extra, he⟩ := createPromise_promises d db c
    unfold PromMono; rw [he]; exact PromListLe.append _ _
  | updatePromise c =>
    simp only [Db.exec] at h
    split at h
    · cases h
    · rename_i hs
      injection h with h; injection h with h _
      subst h
      exact promMono_update db.promises c (by simpa using hs)
  | createPromiseAndTask c =>
    simp only [Db.exec] at h
    obtain ⟨extra, he⟩ := createPromise_promises d db c.promiseCommand
    split at h
    · injection h with h; injection h with h _
      subst h
      unfold PromMono; rw [he]; exact PromListLe.append _ _
    · split at h
      · rename_i db2 m hct
        injection h with h; injection h with h _
        subst h
        unfold PromMono
        rw [createTask_promises d _ _ _ _ hct, he]; exact PromListLe.append _ _
      · cases h
  | readPromise c | readPromises c | readSchedule c | readSchedules c | readTask c | readTasks c
  | readEnqueueableTasks c | readLock c =>
    simp only [Db.exec] at h
    first
      | (injection h with h; injection h with h _; subst h; exact PromMono.refl _)
      | (split at h <;> first | (cases h; done) | (injection h with h; injection h with h _; subst h; exact PromMono.refl _))
  | searchPromises c | searchSchedules c =>
    simp only [Db.exec] at h
    split at h
    · cases h
    · injection h with h; injection h with h _; subst h; exact PromMono.refl _
  | createCallback c =>
    simp only [Db.exec] at h
    split at h <;> (injection h with h; injection h with h _; subst h; exact PromMono.of_eq rfl)
  | deleteCallbacks c | updateSchedule c | deleteSchedule c | completeTasks c | heartbeatTasks c
  | releaseLock c | heartbeatLocks c | timeoutLocks c =>
    simp only [Db.exec] at h
    injection h with h; injection h with h _; subst h; exact PromMono.of_eq rfl
  | createSchedule c =>
    simp only [Db.exec] at h
    split at h <;> (injection h with h; injection h with h _; subst h; exact PromMono.of_eq rfl)
  | createTask c =>
    simp only [Db.exec] at h
    split at h
    · rename_i db2 n hct
      injection h with h; injection h with h _; subst h
      exact PromMono.of_eq (createTask_promises d _ _ _ _ hct)
    · cases h
  | createTasks c =>
    simp only [Db.exec] at h
    split at h
    · injection h with h; injection h with h _; subst h; exact PromMono.of_eq rfl
    · cases h
  | updateTask c =>
    simp only [Db.exec] at h
    split at h
    · cases h
    · injection h with h; injection h with h _; subst h; exact PromMono.of_eq rfl
  | acquireLock c =>
    simp only [Db.exec] at h
    split at h <;> (injection h with h; injection h with h _; subst h; exact PromMono.of_eq rfl)

end Resonate
