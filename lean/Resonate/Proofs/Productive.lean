/-
  Proofs/Productive.lean — the coroutines are finite trees: between two blocking yields a coroutine takes a bounded
  number of steps, so the kernel model's per-thread fuel (64 steps per tick) is never exhausted.
  `Depth n co`: the interaction tree of `co` has height ≤ n, whatever completions arrive.
  `Quick n co`: running `co` reaches a blocking yield, a leaf, or a restart within n steps.
-/
import Resonate.Model.Coroutines
namespace Resonate
open Coro

inductive Depth : Nat → Co → Prop
  | done (n : Nat) (o : Option Resp) : Depth (n + 1) (.done o)
  | retry (n : Nat) : Depth (n + 1) .retry
  | panic (n : Nat) (s : String) : Depth (n + 1) (.panic s)
  | yield (n : Nat) (subs : List Subm) (k : Time → List Cpl → Co) : (∀ t cpls, Depth n (k t cpls)) → Depth (n + 1) (.yield subs k)

theorem Depth.mono : ∀ {n : Nat} {co : Co}, Depth n co → ∀ {m : Nat}, n ≤ m → Depth m co := by
  intro n co h
  induction h with
  | done n o => intro m hm; obtain ⟨m', rfl⟩ : ∃ m', m = m' + 1 := ⟨m - 1, by omega⟩; exact .done _ _
  | retry n => intro m hm; obtain ⟨m', rfl⟩ : ∃ m', m = m' + 1 := ⟨m - 1, by omega⟩; exact .retry _
  | panic n s => intro m hm; obtain ⟨m', rfl⟩ : ∃ m', m = m' + 1 := ⟨m - 1, by omega⟩; exact .panic _ _
  | yield n subs k _ ih =>
    intro m hm
    obtain ⟨m', rfl⟩ : ∃ m', m = m' + 1 := ⟨m - 1, by omega⟩
    exact .yield _ _ _ (fun t c => ih t c (by omega))

/-- steps until the coroutine blocks (non-empty yield), finishes, or restarts (a restart costs two) -/
inductive Quick : Nat → Co → Prop
  | done (n : Nat) (o : Option Resp) : Quick (n + 1) (.done o)
  | panic (n : Nat) (s : String) : Quick (n + 1) (.panic s)
  | retry (n : Nat) : Quick (n + 2) .retry
  | block (n : Nat) (subs : List Subm) (k : Time → List Cpl → Co) : subs ≠ [] → Quick (n + 1) (.yield subs k)
  | skip (n : Nat) (subs : List Subm) (k : Time → List Cpl → Co) : (∀ t, Quick n (k t [])) → Quick (n + 1) (.yield subs k)

theorem quick_of_depth : ∀ {n : Nat} {co : Co}, Depth n co → Quick (n + 1) co := by
  intro n co h
  induction h with
  | done n o => exact .done _ _
  | retry n => exact .retry _
  | panic n s => exact .panic _ _
  | yield n subs k _ ih => exact .skip _ _ _ (fun t => ih t [])

macro "dp_leaf" : tactic =>
  `(tactic| first | exact Depth.done _ _ | exact Depth.retry _ | exact Depth.panic _ _)

macro "dp_go" : tactic =>
  `(tactic| repeat' (first
    | dp_leaf
    | (refine Depth.yield _ _ _ ?_)
    | (intro (_ : Time) (_ : List Cpl))
    | split
    | (dsimp only)))

theorem dp_readPromise (id : String) (t0 : Time) : Depth 8 (readPromise id t0) := by unfold readPromise; dp_go

theorem dp_childStore (n : Nat) (pc : CreatePromiseCmd) (ft : Option CreateTaskCmd) (extra : List Cmd) (k : ChildOut → Co)
    (hk : ∀ o, Depth (n + 1) (k o)) : Depth (n + 2) (childStore pc ft extra k) := by
  unfold childStore
  refine Depth.yield _ _ _ ?_
  intro t cpls
  repeat' (first | exact hk _ | dp_leaf | split | (dsimp only))

theorem dp_createPromiseChild (n : Nat) (pc : CreatePromiseCmd) (tc : Option CreateTaskCmd) (extra : List Cmd) (k : ChildOut → Co)
    (hk : ∀ o, Depth (n + 1) (k o)) : Depth (n + 3) (createPromiseChild pc tc extra k) := by
  unfold createPromiseChild
  refine Depth.yield _ _ _ ?_
  intro t cpls
  repeat' (first | exact (hk _).mono (by omega) | exact dp_childStore _ _ _ _ _ hk | dp_leaf | split | (dsimp only))

theorem dp_createPromiseInner (req : CreatePromiseReq) (tc : Option CreateTaskCmd) (wt : Bool) (t0 : Time) :
    Depth 12 (createPromiseInner req tc wt t0) := by
  unfold createPromiseInner
  dsimp only
  refine Depth.yield _ _ _ ?_
  intro t cpls
  split
  · dp_go
  · dp_go
  · apply dp_createPromiseChild 8
    intro o
    dp_go
  · dp_go

theorem dp_completePromise (req : CompletePromiseReq) (t0 : Time) : Depth 8 (completePromise req t0) := by
  unfold completePromise; dp_go
theorem dp_searchPromises (req : SearchPromisesReq) (t0 : Time) : Depth 8 (searchPromises req t0) := by
  unfold searchPromises; dp_go
theorem dp_registerCallback (pid cb recv : String) (m : Mesg) (to : Int) : Depth 8 (registerCallback pid cb recv m to) := by
  unfold registerCallback; dp_go
theorem dp_createCallback (req : CreateCallbackReq) (t0 : Time) : Depth 8 (createCallback req t0) := by
  unfold createCallback; split
  · dp_leaf
  · exact dp_registerCallback _ _ _ _ _
theorem dp_createSubscription (req : CreateSubscriptionReq) (t0 : Time) : Depth 8 (createSubscription req t0) := by
  unfold createSubscription; exact dp_registerCallback _ _ _ _ _
theorem dp_readSchedule (id : String) (t0 : Time) : Depth 8 (readSchedule id t0) := by unfold readSchedule; dp_go
theorem dp_createSchedule (env : Env) (req : CreateScheduleReq) (t0 : Time) : Depth 8 (createSchedule env req t0) := by
  unfold createSchedule; dp_go
theorem dp_deleteSchedule (id : String) (t0 : Time) : Depth 8 (deleteSchedule id t0) := by unfold deleteSchedule; dp_go
theorem dp_searchSchedules (req : SearchSchedulesReq) (t0 : Time) : Depth 8 (searchSchedules req t0) := by
  unfold searchSchedules; dp_go
theorem dp_acquireLock (req : AcquireLockReq) (t0 : Time) : Depth 8 (acquireLock req t0) := by unfold acquireLock; dp_go
theorem dp_releaseLock (a b : String) (t0 : Time) : Depth 8 (releaseLock a b t0) := by unfold releaseLock; dp_go
theorem dp_heartbeatLocks (p : String) (t0 : Time) : Depth 8 (heartbeatLocks p t0) := by unfold heartbeatLocks; dp_go
theorem dp_claimTask (env : Env) (req : ClaimTaskReq) (t0 : Time) : Depth 8 (claimTask env req t0) := by unfold claimTask; dp_go
theorem dp_completeTask (id : String) (c : Int) (t0 : Time) : Depth 8 (completeTask id c t0) := by unfold completeTask; dp_go
theorem dp_heartbeatTasks (p : String) (t0 : Time) : Depth 8 (heartbeatTasks p t0) := by unfold heartbeatTasks; dp_go

theorem dp_timeoutPromises (env : Env) (t0 : Time) : Depth 8 (timeoutPromises env t0) := by unfold timeoutPromises; dp_go
theorem dp_timeoutLocks (t0 : Time) : Depth 8 (timeoutLocks t0) := by unfold timeoutLocks; dp_go
theorem dp_timeoutTasks (env : Env) (t0 : Time) : Depth 8 (timeoutTasks env t0) := by unfold timeoutTasks; dp_go

theorem dp_enqueueFinish (dead : List Cmd) (live : List TaskRow) (e : Int) (outs : List Cpl) : Depth 3 (enqueueFinish dead live e outs) := by
  unfold enqueueFinish; dp_go

theorem dp_enqueueTasks (env : Env) (t0 : Time) : Depth 8 (enqueueTasks env t0) := by
  unfold enqueueTasks
  repeat' (first
    | dp_leaf
    | exact (dp_enqueueFinish _ _ _ _).mono (by omega)
    | (refine Depth.yield _ _ _ ?_)
    | (intro (_ : Time) (_ : List Cpl))
    | split
    | (dsimp only))

theorem dp_schedulePromises (env : Env) (t0 : Time) : Depth 8 (schedulePromises env t0) := by
  unfold schedulePromises; dp_go

/-- height bound used by the kernel proofs -/
def maxDepth : Nat := 12

theorem dp_req (env : Env) (r : Req) (t0 t : Time) : Depth maxDepth (r.body env t0 t) := by
  cases r with
  | readPromise id => exact (dp_readPromise id t).mono (by decide)
  | searchPromises q => exact (dp_searchPromises q t).mono (by decide)
  | createPromise q => exact dp_createPromiseInner q none false t
  | createPromiseAndTask p tr =>
    simp only [Req.body]
    split
    · exact Depth.panic _ _
    · split
      · exact Depth.panic _ _
      · exact dp_createPromiseInner _ _ _ _
  | completePromise q => exact (dp_completePromise q t).mono (by decide)
  | createCallback q => exact (dp_createCallback q t).mono (by decide)
  | createSubscription q => exact (dp_createSubscription q t).mono (by decide)
  | readSchedule id => exact (dp_readSchedule id t).mono (by decide)
  | searchSchedules q => exact (dp_searchSchedules q t).mono (by decide)
  | createSchedule q => exact (dp_createSchedule env q t).mono (by decide)
  | deleteSchedule id => exact (dp_deleteSchedule id t).mono (by decide)
  | acquireLock q => exact (dp_acquireLock q t).mono (by decide)
  | releaseLock a b => exact (dp_releaseLock a b t).mono (by decide)
  | heartbeatLocks p => exact (dp_heartbeatLocks p t).mono (by decide)
  | claimTask q => exact (dp_claimTask env q t).mono (by decide)
  | completeTask id c => exact (dp_completeTask id c t).mono (by decide)
  | heartbeatTasks p => exact (dp_heartbeatTasks p t).mono (by decide)

theorem dp_bg (env : Env) (k : BgKind) (t : Time) : Depth maxDepth (k.body env t) := by
  cases k with
  | timeoutPromises => exact (dp_timeoutPromises env t).mono (by decide)
  | schedulePromises => exact (dp_schedulePromises env t).mono (by decide)
  | timeoutLocks => exact (dp_timeoutLocks t).mono (by decide)
  | timeoutTasks => exact (dp_timeoutTasks env t).mono (by decide)
  | enqueueTasks => exact (dp_enqueueTasks env t).mono (by decide)

/-! a freshly (re)started coroutine blocks, or finishes, at its first step -/

macro "qk_go" : tactic =>
  `(tactic| repeat' (first
    | exact Quick.block 0 _ _ (by simp)
    | exact Quick.done 0 _
    | exact Quick.panic 0 _
    | split
    | (dsimp only)))

theorem qk_req (env : Env) (r : Req) (t0 t : Time) : Quick 1 (r.body env t0 t) := by
  cases r <;> simp only [Req.body]
  case readPromise id => unfold readPromise; qk_go
  case searchPromises q => unfold searchPromises; qk_go
  case createPromise q => unfold Coro.createPromise createPromiseInner; qk_go
  case createPromiseAndTask p tr =>
    split
    · qk_go
    · split
      · qk_go
      · unfold createPromiseInner; qk_go
  case completePromise q => unfold completePromise; qk_go
  case createCallback q => unfold createCallback registerCallback; qk_go
  case createSubscription q => unfold createSubscription registerCallback; qk_go
  case readSchedule id => unfold readSchedule; qk_go
  case searchSchedules q => unfold searchSchedules; qk_go
  case createSchedule q => unfold createSchedule; qk_go
  case deleteSchedule id => unfold deleteSchedule; qk_go
  case acquireLock q => unfold acquireLock; qk_go
  case releaseLock a b => unfold releaseLock; qk_go
  case heartbeatLocks p => unfold heartbeatLocks; qk_go
  case claimTask q => unfold claimTask; qk_go
  case completeTask id c => unfold completeTask; qk_go
  case heartbeatTasks p => unfold heartbeatTasks; qk_go

theorem qk_bg (env : Env) (k : BgKind) (t : Time) : Quick 1 (k.body env t) := by
  cases k <;> simp only [BgKind.body]
  case timeoutPromises => unfold timeoutPromises; qk_go
  case schedulePromises => unfold schedulePromises; qk_go
  case timeoutLocks => unfold timeoutLocks; qk_go
  case timeoutTasks => unfold timeoutTasks; qk_go
  case enqueueTasks => unfold enqueueTasks; qk_go

end Resonate
