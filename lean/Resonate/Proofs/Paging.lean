/-
  Proofs/Paging.lean — one page of a keyset-paginated search, abstractly:
  a table `l` in strictly increasing key order, a match predicate `m`, an optional cursor (only keys
  strictly below it qualify), newest first, at most `n` rows.
-/
import Resonate.Proofs.StoreBasics
namespace Resonate

variable {α : Type}

def below (c : Option Int) (k : Nat) : Bool :=
  match c with
  | none => true
  | some x => decide ((k : Int) < x)

def pageOf (l : List α) (k : α → Nat) (m : α → Bool) (c : Option Int) (n : Nat) : List α :=
  ((l.filter fun r => below c (k r) && m r).reverse).take n

theorem pairwise_reverse_filter (l : List α) (k : α → Nat) (p : α → Bool) (h : l.Pairwise fun a b => k a < k b) :
    ((l.filter p).reverse).Pairwise fun a b => k b < k a := by
  rw [List.pairwise_reverse]
  exact (h.sublist List.filter_sublist)

/-- (1) newest first: keys strictly decrease along the page -/
theorem page_descending (l : List α) (k : α → Nat) (m : α → Bool) (c : Option Int) (n : Nat)
    (h : l.Pairwise fun a b => k a < k b) : (pageOf l k m c n).Pairwise fun a b => k b < k a :=
  (pairwise_reverse_filter l k _ h).sublist (List.take_sublist _ _)

/-- (2) soundness: every returned row is a row of the table that matches and lies below the cursor -/
theorem page_sound (l : List α) (k : α → Nat) (m : α → Bool) (c : Option Int) (n : Nat) (r : α)
    (hr : r ∈ pageOf l k m c n) : r ∈ l ∧ m r = true ∧ below c (k r) = true := by
  have := List.mem_of_mem_take hr
  rw [List.mem_reverse, List.mem_filter] at this
  simp only [Bool.and_eq_true] at this
  exact ⟨this.1, this.2.2, this.2.1⟩

/-- (3) at most the requested page size -/
theorem page_length (l : List α) (k : α → Nat) (m : α → Bool) (c : Option Int) (n : Nat) : (pageOf l k m c n).length ≤ n := by
  simp [pageOf, List.length_take]; exact Nat.min_le_left _ _

/-- (4) completeness: a matching row below the cursor is on the page, unless the page is full and the
    row is older than everything on it (then it is left for a later page) -/
theorem page_complete (l : List α) (k : α → Nat) (m : α → Bool) (c : Option Int) (n : Nat)
    (h : l.Pairwise fun a b => k a < k b) (r : α) (hr : r ∈ l) (hm : m r = true) (hb : below c (k r) = true) :
    r ∈ pageOf l k m c n ∨ ((pageOf l k m c n).length = n ∧ ∀ x ∈ pageOf l k m c n, k r < k x) := by
  have hF : r ∈ (l.filter fun r => below c (k r) && m r).reverse := by
    rw [List.mem_reverse, List.mem_filter]; exact ⟨hr, by simp [hm, hb]⟩
  have hd := pairwise_reverse_filter l k (fun r => below c (k r) && m r) h
  rw [← List.take_append_drop n ((l.filter fun r => below c (k r) && m r).reverse)] at hF hd
  rcases List.mem_append.mp hF with h1 | h2
  · left; exact h1
  · right
    have hlen : n ≤ ((l.filter fun r => below c (k r) && m r).reverse).length := by
      rcases Nat.lt_or_ge ((l.filter fun r => below c (k r) && m r).reverse).length n with hlt | hge
      · have : ((l.filter fun r => below c (k r) && m r).reverse).drop n = [] := List.drop_eq_nil_of_le (by omega)
        rw [this] at h2; cases h2
      · exact hge
    refine ⟨by simp only [pageOf, List.length_take]; simp only [List.length_reverse] at hlen ⊢; omega, ?_⟩
    intro x hx
    exact (List.pairwise_append.mp hd).2.2 x hx r h2

/-- a page is full exactly when there are at least `n` qualifying rows -/
theorem page_full_iff (l : List α) (k : α → Nat) (m : α → Bool) (c : Option Int) (n : Nat) :
    (pageOf l k m c n).length = n ↔ n ≤ (l.filter fun r => below c (k r) && m r).length := by
  simp [pageOf, List.length_take]; omega

end Resonate

namespace Resonate
variable {α : Type}

/-- in a strictly descending list, the elements with a key below that of the element at position `i`
    are exactly the elements after position `i` -/
theorem filter_below_eq_drop (k : α → Nat) : ∀ (G : List α), (G.Pairwise fun a b => k b < k a) →
    ∀ (i : Nat) (x : α), G[i]? = some x → G.filter (fun r => decide (k r < k x)) = G.drop (i + 1) := by
  intro G
  induction G with
  | nil => intro _ i x h; simp at h
  | cons a G ih =>
    intro hp i x hx
    rw [List.pairwise_cons] at hp
    cases i with
    | zero =>
      simp at hx; subst hx
      simp only [List.filter_cons, Nat.lt_irrefl, decide_false, Bool.false_eq_true, if_false, List.drop_succ_cons, List.drop_zero]
      apply List.filter_eq_self.mpr
      intro b hb; simpa using hp.1 b hb
    | succ i =>
      simp at hx
      have hxm : x ∈ G := List.mem_of_getElem? hx
      have : ¬ k a < k x := by have := hp.1 x hxm; omega
      simp only [List.filter_cons, this, decide_false, Bool.false_eq_true, if_false, List.drop_succ_cons]
      exact ih hp.2 i x hx

/-- all qualifying rows, newest first -/
def allBelow (l : List α) (k : α → Nat) (m : α → Bool) (c : Option Int) : List α := (l.filter fun r => below c (k r) && m r).reverse

theorem pageOf_eq_take (l : List α) (k : α → Nat) (m : α → Bool) (c : Option Int) (n : Nat) :
    pageOf l k m c n = (allBelow l k m c).take n := rfl

/-- **Following the cursor.** If a page is full and `x` is its last row, then the qualifying rows below the
    next cursor `x.key` are exactly the rest: nothing is skipped and nothing is returned twice. -/
theorem next_page_is_rest (l : List α) (k : α → Nat) (m : α → Bool) (c : Option Int) (n : Nat) (hn : 0 < n)
    (h : l.Pairwise fun a b => k a < k b) (x : α) (hx : (allBelow l k m c)[n - 1]? = some x) :
    allBelow l k m (some (k x : Int)) = (allBelow l k m c).drop n := by
  have hd := pairwise_reverse_filter l k (fun r => below c (k r) && m r) h
  have key := filter_below_eq_drop k (allBelow l k m c) hd (n - 1) x hx
  have hn' : n - 1 + 1 = n := by omega
  rw [hn'] at key
  rw [← key]
  -- filtering the descending list by `key < x.key` = qualifying below the new cursor
  have hxq : below c (k x) = true := by
    have := List.mem_of_getElem? hx
    simp only [allBelow, List.mem_reverse, List.mem_filter, Bool.and_eq_true] at this
    exact this.2.1
  simp only [allBelow, List.filter_reverse, List.filter_filter]
  congr 1
  apply List.filter_congr
  intro r _
  cases hm : m r <;> simp [below]
  · intro hlt
    cases c with
    | none => simp [below]
    | some cv =>
      simp only [below, decide_eq_true_eq] at hxq ⊢
      omega

/-- **The whole traversal on a fixed table**: pages of size `n` following the cursors, concatenated, are
    exactly all qualifying rows, each once, newest first. -/
theorem traversal (l : List α) (k : α → Nat) (m : α → Bool) (n : Nat) (hn : 0 < n)
    (h : l.Pairwise fun a b => k a < k b) :
    ∀ (fuel : Nat) (c : Option Int), (allBelow l k m c).length ≤ fuel * n →
      ∃ pages : List (List α), pages.flatten = allBelow l k m c ∧ (∀ p ∈ pages, p.length ≤ n) := by
  intro fuel
  induction fuel with
  | zero =>
    intro c hlen
    have : allBelow l k m c = [] := by
      cases hA : allBelow l k m c with
      | nil => rfl
      | cons a t => rw [hA] at hlen; simp at hlen
    exact ⟨[], by simp [this], by intro p hp; cases hp⟩
  | succ fuel ih =>
    intro c hlen
    by_cases hfull : n ≤ (allBelow l k m c).length
    · -- a full page, then the rest from the next cursor
      have hidx : n - 1 < (allBelow l k m c).length := by omega
      obtain ⟨x, hx⟩ : ∃ x, (allBelow l k m c)[n - 1]? = some x := ⟨_, List.getElem?_eq_getElem hidx⟩
      have hrest := next_page_is_rest l k m c n hn h x hx
      obtain ⟨pages, hflat, hsz⟩ := ih (some (k x : Int)) (by
        rw [hrest, List.length_drop]
        have : (fuel + 1) * n = fuel * n + n := by rw [Nat.add_mul]; simp
        omega)
      refine ⟨(allBelow l k m c).take n :: pages, ?_, ?_⟩
      · simp only [List.flatten_cons, hflat, hrest, List.take_append_drop]
      · intro p hp
        simp only [List.mem_cons] at hp
        rcases hp with rfl | hp
        · simp [List.length_take]; exact Nat.min_le_left _ _
        · exact hsz p hp
    · exact ⟨[allBelow l k m c], by simp, by intro p hp; simp at hp; subst hp; omega⟩

end Resonate
