/-
  Proofs/SysDb.lean — the database of a running system changes only through store batches
  (all-or-nothing), so every reflexive-transitive relation that every single command respects holds
  between the databases of any two states along any run — across every interleaving, failure and crash.
-/
import Resonate.Model.System
import Resonate.Proofs.Lift
namespace Resonate

theorem step_db (s : Sys) (c : Choice) :
    (s.step c).1.db = s.db ∨ ∃ txs, (s.step c).1.db = (s.db.execBatch s.g txs).1 := by
  cases c with
  | submit tid r => left; simp only [Sys.step]; split <;> (try split) <;> rfl
  | tick t => left; simp only [Sys.step]; unfold Sys.tick; split <;> rfl
  | execStore items =>
    simp only [Sys.step]
    unfold Sys.execStore
    dsimp only
    split
    · left; rfl
    · right; exact ⟨_, rfl⟩
  | complete id cp => left; simp only [Sys.step]; split <;> rfl
  | shutdown => left; rfl
  | crash => left; rfl

/-- a crash leaves the database exactly as it is -/
theorem crash_db (s : Sys) : (s.step .crash).1.db = s.db := rfl

theorem step_g' (s : Sys) (c : Choice) : (s.step c).1.g = s.g := by
  cases c <;> simp only [Sys.step]
  · split <;> (try split) <;> rfl
  · unfold Sys.tick; split <;> rfl
  · unfold Sys.execStore; rfl
  · split <;> rfl

theorem run_g (cs : List Choice) (s : Sys) : (s.run cs).g = s.g := by
  induction cs generalizing s with
  | nil => rfl
  | cons c cs ih => simp only [Sys.run, List.foldl_cons]; exact (ih _).trans (step_g' s c)

theorem run_rel (R : Db → Db → Prop) (hr : ∀ db, R db db) (ht : ∀ a b c, R a b → R b c → R a c) (s : Sys)
    (hstep : ∀ db db' c r, db.exec s.g c = .ok (db', r) → R db db') :
    ∀ (cs : List Choice), R s.db (s.run cs).db := by
  intro cs
  induction cs generalizing s with
  | nil => exact hr _
  | cons c cs ih =>
    simp only [Sys.run, List.foldl_cons]
    have h1 : R s.db (s.step c).1.db := by
      rcases step_db s c with h | ⟨txs, h⟩
      · rw [h]; exact hr _
      · rw [h]; exact execBatch_lift s.g R hr ht hstep s.db txs
    exact ht _ _ _ h1 (ih (s.step c).1 (by rw [step_g']; exact hstep))

theorem run_append (s : Sys) (a b : List Choice) : s.run (a ++ b) = (s.run a).run b := by
  simp [Sys.run, List.foldl_append]

/-- a freshly booted server over database `db` -/
def Sys.boot (env : Env) (d : Dialect) (g : SqlDefs) (db : Db := {}) : Sys := { env := env, d := d, g := g, db := db }

end Resonate
