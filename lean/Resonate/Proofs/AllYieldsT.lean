/-
  Proofs/AllYieldsT.lean — every `UpdateTask` command any coroutine can ever yield is a disciplined task update
  (`wfUpdateTask`, Proofs/Wf.lean): it names the states it expects, it either moves the task back to `init` under the
  NEXT counter or keeps the counter, and it never takes a task out of `claimed` into another live state.  Together with
  Proofs/AllYields.lean (block structure) every yielded transaction is `wfCmds`, which is what `TaskMono` (C07) needs.
  Same walk over the interaction trees as Proofs/AllYieldsK.lean, with a different side condition.
-/
import Resonate.Proofs.AllYields
import Resonate.Proofs.AllYieldsK
import Resonate.Proofs.TaskInv
import Resonate.Proofs.WInv
namespace Resonate
open Coro

def cmdUOk : Cmd → Prop
  | .updateTask c => wfUpdateTask c = true
  | _ => True

def UOk (tx : List Cmd) : Prop := ∀ c ∈ tx, cmdUOk c

theorem uOk_completeTx (cmd : UpdatePromiseCmd) (t : Time) : UOk (completeTx cmd t) := by
  intro c hc; simp [completeTx] at hc; rcases hc with rfl | rfl | rfl | rfl <;> simp [cmdUOk]

theorem uOk_map {α} (l : List α) (f : α → Cmd) (h : ∀ x, cmdUOk (f x)) : UOk (l.map f) := by
  intro c hc; simp only [List.mem_map] at hc; obtain ⟨x, _, rfl⟩ := hc; exact h x

macro "au_wf" : tactic =>
  `(tactic| first
    | exact uOk_completeTx _ _
    | (intro c hc; simp at hc; subst hc; simp_all [cmdUOk, wfUpdateTask, taskStateActive, T_INIT, T_ENQUEUED, T_CLAIMED, T_COMPLETED, T_TIMEDOUT]; done)
    | (simp [UOk, cmdUOk]; done)
    | (intro c hc; simp at hc; (try subst hc); simp [cmdUOk]; done)
    | (intro c hc; simp at hc; rcases hc with rfl | rfl <;> simp [cmdUOk]; done))

macro "au_go" : tactic =>
  `(tactic| repeat' (first
    | ay_leaf
    | (refine ay1 _ _ ?_ ?_)
    | (intro (_ : Time) (_ : List Cpl))
    | au_wf
    | split
    | (dsimp only)))

theorem au_readPromise (id : String) (t0 : Time) : AllYields UOk (readPromise id t0) := by
  unfold readPromise; au_go

theorem uOk_childCmd (pc : CreatePromiseCmd) (tc : Option CreateTaskCmd) (routed : Option String)
    (htc : TaskIdOk pc.id tc) : UOk [childCmd pc (childTask pc tc routed)] := by
  intro c hc
  simp only [List.mem_singleton] at hc
  subst hc
  cases routed with
  | none => simp [childTask, childCmd, cmdUOk]
  | some recv =>
    cases tc with
    | none => simp [childTask, childCmd, cmdUOk]
    | some c => simpa [childTask, childCmd, cmdUOk] using htc c rfl

theorem au_childStore (pc : CreatePromiseCmd) (ft : Option CreateTaskCmd) (k : ChildOut → Co)
    (hw : UOk [childCmd pc ft]) (hk : ∀ o, AllYields UOk (k o)) : AllYields UOk (childStore pc ft [] k) := by
  unfold childStore
  refine ay1 _ _ hw ?_
  intro t cpls
  repeat' (first | ay_leaf | exact hk _ | split | (dsimp only))

theorem au_createPromiseChild (pc : CreatePromiseCmd) (tc : Option CreateTaskCmd) (k : ChildOut → Co)
    (htc : TaskIdOk pc.id tc) (hk : ∀ o, AllYields UOk (k o)) : AllYields UOk (createPromiseChild pc tc [] k) := by
  unfold createPromiseChild
  refine ay0 _ _ (by simp) ?_
  intro t cpls
  split
  · split
    · exact hk _
    · split
      · exact hk _
      · exact au_childStore _ _ _ (uOk_childCmd pc tc _ htc) hk
  · exact AllYields.panic _

theorem au_createPromiseInner (req : CreatePromiseReq) (tc : Option CreateTaskCmd) (wt : Bool) (t0 : Time)
    (htc : TaskIdOk req.id tc) : AllYields UOk (createPromiseInner req tc wt t0) := by
  unfold createPromiseInner
  dsimp only
  refine ay1 _ _ (by au_wf) ?_
  intro t cpls
  split
  · au_go
  · au_go
  · apply au_createPromiseChild _ _ _ htc
    intro o
    au_go
  · au_go

theorem au_completePromise (req : CompletePromiseReq) (t0 : Time) : AllYields UOk (completePromise req t0) := by
  unfold completePromise
  refine ay1 _ _ (by au_wf) ?_
  intro t cpls
  split
  · au_go
  · au_go
  · au_go
  · dsimp only
    split
    · refine ay1 _ _ ?_ ?_
      · split <;> exact uOk_completeTx _ _
      · au_go
    · au_go

theorem au_searchPromises (req : SearchPromisesReq) (t0 : Time) : AllYields UOk (searchPromises req t0) := by
  unfold searchPromises
  split
  · ay_leaf
  · split
    · ay_leaf
    · refine ay1 _ _ (by au_wf) ?_
      intro t cpls
      split
      · au_go
      · dsimp only
        split
        · au_go
        · refine AllYields.yield _ _ ?_ (by intro t2 c2; au_go)
          intro tx hm
          simp only [List.mem_map] at hm
          obtain ⟨x, _, hx⟩ := hm
          injection hx with hx; subst hx
          exact uOk_completeTx _ _
      · au_go

theorem au_registerCallback (pid cb recv : String) (m : Mesg) (to : Int) (hcb : NotInvoke cb) :
    AllYields UOk (registerCallback pid cb recv m to) := by
  unfold registerCallback
  refine ay1 _ _ (by au_wf) ?_
  intro t cpls
  split
  · au_go
  · au_go
  · au_go
  · dsimp only
    split
    · refine ay1 _ _ ?_ ?_
      · intro c hc
        simp only [List.mem_singleton] at hc
        subst hc
        simp [cmdUOk]
      · au_go
    · au_go

theorem au_createCallback (req : CreateCallbackReq) (t0 : Time) : AllYields UOk (createCallback req t0) := by
  unfold createCallback; split
  · ay_leaf
  · exact au_registerCallback _ _ _ _ _ (notInvoke_callbackId _ _)

theorem au_createSubscription (req : CreateSubscriptionReq) (t0 : Time) : AllYields UOk (createSubscription req t0) := by
  unfold createSubscription; exact au_registerCallback _ _ _ _ _ (notInvoke_subscriptionId _ _)

theorem au_readSchedule (id : String) (t0 : Time) : AllYields UOk (readSchedule id t0) := by
  unfold readSchedule; au_go
theorem au_createSchedule (env : Env) (req : CreateScheduleReq) (t0 : Time) : AllYields UOk (createSchedule env req t0) := by
  unfold createSchedule; au_go
theorem au_deleteSchedule (id : String) (t0 : Time) : AllYields UOk (deleteSchedule id t0) := by
  unfold deleteSchedule; au_go
theorem au_searchSchedules (req : SearchSchedulesReq) (t0 : Time) : AllYields UOk (searchSchedules req t0) := by
  unfold searchSchedules; au_go
theorem au_acquireLock (req : AcquireLockReq) (t0 : Time) : AllYields UOk (acquireLock req t0) := by
  unfold acquireLock; au_go
theorem au_releaseLock (a b : String) (t0 : Time) : AllYields UOk (releaseLock a b t0) := by
  unfold releaseLock; au_go
theorem au_heartbeatLocks (p : String) (t0 : Time) : AllYields UOk (heartbeatLocks p t0) := by
  unfold heartbeatLocks; au_go
theorem au_claimTask (env : Env) (req : ClaimTaskReq) (t0 : Time) : AllYields UOk (claimTask env req t0) := by
  unfold claimTask; au_go
theorem au_completeTask (id : String) (c : Int) (t0 : Time) : AllYields UOk (completeTask id c t0) := by
  unfold completeTask; au_go
theorem au_heartbeatTasks (p : String) (t0 : Time) : AllYields UOk (heartbeatTasks p t0) := by
  unfold heartbeatTasks; au_go

/-! ### background coroutines -/

theorem au_timeoutPromises (env : Env) (t0 : Time) : AllYields UOk (timeoutPromises env t0) := by
  unfold timeoutPromises
  refine ay1 _ _ (by au_wf) ?_
  intro t cpls
  split
  · au_go
  · split
    · ay_leaf
    · split
      · ay_leaf
      · split
        · ay_leaf
        · refine AllYields.yield _ _ ?_ (by intro t2 c2; au_go)
          intro tx hm
          simp only [List.mem_map] at hm
          obtain ⟨x, _, hx⟩ := hm
          injection hx with hx; subst hx
          exact uOk_completeTx _ _
  · au_go

theorem au_timeoutLocks (t0 : Time) : AllYields UOk (timeoutLocks t0) := by
  unfold timeoutLocks; au_go

/-- task states the store ever writes -/
def legalTask (s : Nat) : Bool := s == 1 || s == 2 || s == 4 || s == 8 || s == 16
def LegalRes : Res → Prop
  | .tasks rows => ∀ r ∈ rows, legalTask r.state = true
  | _ => True
/-- a completion whose task rows all carry a legal state (anything that is not a store result is legal) -/
def LegalCpl : Cpl → Prop
  | .store rs => ∀ r ∈ rs, LegalRes r
  | _ => True

open WInv in
/-- the lease sweep guards each update by the state it read (`CurrentStates: []task.State{t.State}`): that is a disciplined
    update only because the state it read is one the store writes — the one place where the walk needs to know something
    about the completions (`AllYieldsL … LegalCpl`) -/
theorem au_timeoutTasks (env : Env) (t0 : Time) : AllYieldsL UOk LegalCpl (timeoutTasks env t0) := by
  unfold timeoutTasks
  refine AllYieldsL.yield _ _ (by intro tx hm; simp at hm; subst hm; intro c hc; simp at hc; subst hc; simp [cmdUOk]) ?_
  intro t cpls hl
  split
  · exact .done _
  · rename_i rows
    have hrows : ∀ r ∈ rows, legalTask r.state = true := by
      have := hl (.store [.tasks rows]) (by simp)
      exact this (.tasks rows) (by simp)
    split
    · exact .panic _
    · rename_i hact
      split
      · exact .done _
      · dsimp only
        split
        · exact .done _
        refine AllYieldsL.yield _ _ ?_ (by intro _ _ _; exact .done _)
        intro tx hm
        simp only [List.mem_singleton, Subm.store.injEq] at hm
        subst hm
        intro c hc
        simp only [List.mem_map] at hc
        obtain ⟨r, hr, rfl⟩ := hc
        have hleg := hrows r hr
        have hact' : (r.state &&& (T_INIT ||| T_ENQUEUED ||| T_CLAIMED) == 0) = false := by
          have h0 : ∀ x ∈ rows, ¬ (x.state &&& (T_INIT ||| T_ENQUEUED ||| T_CLAIMED)) = 0 := by simpa using hact
          simpa using h0 r hr
        -- a legal state with one of the three live bits is a live state
        have hlive : taskStateActive r.state = true := by
          simp only [legalTask, Bool.or_eq_true, beq_iff_eq] at hleg
          rcases hleg with (((h | h) | h) | h) | h <;> simp [h, taskStateActive, T_INIT, T_ENQUEUED, T_CLAIMED] at hact' ⊢
        have hne4 : ∀ s : Nat, taskStateActive s = true → True := fun _ _ => trivial
        split
        · simp [cmdUOk, wfUpdateTask, hlive, T_INIT]
        · simp [cmdUOk, wfUpdateTask, hlive, T_TIMEDOUT]
  · exact .panic _

theorem enqueueOutcomeCmd_uOk (e : Int) (r : TaskRow) (o : Cpl) : cmdUOk (enqueueOutcomeCmd e r o) := by
  unfold enqueueOutcomeCmd; split
  · simp [cmdUOk, wfUpdateTask, taskStateActive, T_INIT, T_ENQUEUED, T_CLAIMED, T_COMPLETED, T_TIMEDOUT]
  · split <;> simp [cmdUOk, wfUpdateTask, taskStateActive, T_INIT, T_ENQUEUED, T_CLAIMED, T_COMPLETED, T_TIMEDOUT]

theorem au_enqueueFinish (dead : List Cmd) (live : List TaskRow) (e : Int) (outs : List Cpl)
    (hd : ∀ c ∈ dead, cmdUOk c) : AllYields UOk (enqueueFinish dead live e outs) := by
  unfold enqueueFinish
  dsimp only
  split
  · ay_leaf
  · refine ay1 _ _ ?_ (by intro _ _; ay_leaf)
    intro c hc
    simp only [List.mem_append, List.mem_map] at hc
    rcases hc with hc | ⟨x, _, rfl⟩
    · exact hd c hc
    · exact enqueueOutcomeCmd_uOk _ _ _

theorem au_enqueueTasks (env : Env) (t0 : Time) : AllYields UOk (enqueueTasks env t0) := by
  unfold enqueueTasks
  refine ay1 _ _ (by au_wf) ?_
  intro t cpls
  split
  · au_go
  · split
    · ay_leaf
    · refine ay1 _ _ ?_ ?_
      · exact uOk_map _ _ (by intro r; simp [cmdUOk])
      · intro t2 cpls2
        have hdead : ∀ (l : List (TaskRow × Res)) (c : Cmd),
            c ∈ l.map (fun (x : TaskRow × Res) => Cmd.updateTask { id := x.1.id, processId := none, state := T_TIMEDOUT, counter := x.1.counter, attempt := x.1.attempt, ttl := 0, expiresAt := 0, completedOn := some x.1.timeout, currentStates := [T_INIT], currentCounter := x.1.counter }) → cmdUOk c := by
          intro l c hc
          simp only [List.mem_map] at hc
          obtain ⟨x, _, rfl⟩ := hc
          simp [cmdUOk, wfUpdateTask, taskStateActive, T_INIT, T_ENQUEUED, T_CLAIMED, T_COMPLETED, T_TIMEDOUT]
        split
        · au_go
        · split
          · ay_leaf
          · dsimp only
            split
            · ay_leaf
            · split
              · exact au_enqueueFinish _ _ _ _ (hdead _)
              · refine ay0 _ _ ?_ ?_
                · intro tx hm
                  simp only [List.mem_map] at hm
                  obtain ⟨x, _, hx⟩ := hm
                  cases hx
                · intro t3 outs
                  exact au_enqueueFinish _ _ _ _ (hdead _)
        · au_go
  · au_go

theorem au_schedulePromises (env : Env) (t0 : Time) : AllYields UOk (schedulePromises env t0) := by
  unfold schedulePromises
  refine ay1 _ _ (by au_wf) ?_
  intro t cpls
  split
  · au_go
  · split
    · ay_leaf
    · dsimp only
      split
      · ay_leaf
      · refine ay0 _ _ ?_ ?_
        · intro tx hm
          simp only [List.mem_map] at hm
          obtain ⟨x, _, hx⟩ := hm
          cases hx
        · intro t2 rcs
          split
          · ay_leaf
          · split
            · ay_leaf
            · refine AllYields.yield _ _ ?_ (by intro t3 c3; au_go)
              intro tx hm
              simp only [List.mem_map] at hm
              obtain ⟨⟨⟨pc, upd⟩, rc⟩, hmem0, hx⟩ := hm
              have hmem := (List.mem_filter.mp hmem0).1
              have hupd : cmdUOk upd := by
                have h1 := List.of_mem_zip hmem
                have h2 := h1.1
                simp only [List.mem_filterMap] at h2
                obtain ⟨r, _, hr⟩ := h2
                split at hr
                · injection hr with hr; injection hr with _ hr; subst hr; simp [cmdUOk]
                · cases hr
              split at hx
              · injection hx with hx; subst hx
                intro c hc
                simp only [List.mem_cons, List.not_mem_nil, or_false] at hc
                rcases hc with rfl | rfl
                · simp [cmdUOk]
                · exact hupd
              · injection hx with hx; subst hx
                intro c hc
                simp only [List.mem_cons, List.not_mem_nil, or_false] at hc
                rcases hc with rfl | rfl
                · simp [cmdUOk]
                · exact hupd
  · au_go

/-! ### every registered coroutine -/

theorem au_req (env : Env) (r : Req) (t0 t : Time) : AllYields UOk (r.body env t0 t) := by
  cases r with
  | readPromise id => exact au_readPromise id t
  | searchPromises q => exact au_searchPromises q t
  | createPromise q => exact au_createPromiseInner q none false t (by intro c hc; cases hc)
  | createPromiseAndTask p tr =>
    simp only [Req.body]
    split
    · ay_leaf
    · split
      · ay_leaf
      · rename_i h1 h2
        refine au_createPromiseInner _ _ _ _ ?_
        intro c hc
        injection hc with hc; subst hc
        simp only [taskCmdOf]
        have : p.id = tr.promiseId := by simpa using h1
        rw [this]
  | completePromise q => exact au_completePromise q t
  | createCallback q => exact au_createCallback q t
  | createSubscription q => exact au_createSubscription q t
  | readSchedule id => exact au_readSchedule id t
  | searchSchedules q => exact au_searchSchedules q t
  | createSchedule q => exact au_createSchedule env q t
  | deleteSchedule id => exact au_deleteSchedule id t
  | acquireLock q => exact au_acquireLock q t
  | releaseLock a b => exact au_releaseLock a b t
  | heartbeatLocks p => exact au_heartbeatLocks p t
  | claimTask q => exact au_claimTask env q t
  | completeTask id c => exact au_completeTask id c t
  | heartbeatTasks p => exact au_heartbeatTasks p t

open WInv in
theorem au_bg (env : Env) (k : BgKind) (t : Time) : AllYieldsL UOk LegalCpl (k.body env t) := by
  cases k with
  | timeoutPromises => exact WInv.AllYields.toL (au_timeoutPromises env t)
  | schedulePromises => exact WInv.AllYields.toL (au_schedulePromises env t)
  | timeoutLocks => exact WInv.AllYields.toL (au_timeoutLocks t)
  | timeoutTasks => exact au_timeoutTasks env t
  | enqueueTasks => exact WInv.AllYields.toL (au_enqueueTasks env t)

end Resonate
