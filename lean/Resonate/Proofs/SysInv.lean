/-
  Proofs/SysInv.lean — from transactions to the whole system (DESIGN §3.4).
  For any database predicate `I` preserved by every well-formed transaction, `I` holds of the
  database of EVERY state reachable by `Sys.step` — i.e. for every workload, every interleaving and
  batching of the store transactions of requests and background coroutines, every injected
  before/after failure, every queue / batch / pool configuration, every crash point and every
  sequence of crashes during recovery.  The only assumption on the choice list is `Req.StateOk` for
  submitted requests (what front-end validation guarantees: a completion state in
  {resolved, rejected, canceled}).
-/
import Resonate.Model.System
import Resonate.Proofs.AllYields
namespace Resonate

def ThreadOk (th : Thread) : Prop := AllYields WfC th.co ∧ ∀ t, AllYields WfC (th.restart t)

def PendingOk (p : List (SubId × Subm)) : Prop := ∀ x ∈ p, ∀ tx, x.2 = .store tx → WfC tx

structure SysInv (I : Db → Prop) (s : Sys) : Prop where
  db : I s.db
  pending : PendingOk s.pending
  threads : ∀ th ∈ s.threads, ThreadOk th
  apiQ : ∀ q ∈ s.apiQ, q.2.StateOk

theorem threadOk_new (tid : String) (isBg : Option BgKind) (body : Time → Co) (h : ∀ t, AllYields WfC (body t)) :
    ThreadOk (newThread tid isBg body) := ⟨AllYields.retry, h⟩

theorem threadOk_fillSlot (th : Thread) (seq : Nat) (c : Cpl) (h : ThreadOk th) : ThreadOk (fillSlot th seq c) := h

theorem threadOk_resume (th th' : Thread) (t : Time) (h : ThreadOk th) (hr : th.resume? t = some th') : ThreadOk th' := by
  unfold Thread.resume? at hr
  split at hr
  · cases hr
  · split at hr
    · split at hr
      · rename_i subs k hco
        injection hr with hr; subst hr
        refine ⟨?_, h.2⟩
        have := h.1
        rw [hco] at this
        cases this with
        | yield _ _ _ hk => exact hk _ _
      · cases hr
    · split at hr
      · split at hr
        · rename_i subs k hco
          injection hr with hr; subst hr
          refine ⟨?_, h.2⟩
          have := h.1
          rw [hco] at this
          cases this with
          | yield _ _ _ hk => exact hk _ _
        · cases hr
      · cases hr

theorem run_ok (t : Time) : ∀ (fuel : Nat) (th : Thread), ThreadOk th →
    (∀ x, (th.run t fuel).1 = some x → ThreadOk x) ∧ PendingOk (th.run t fuel).2.2.1 := by
  intro fuel
  induction fuel with
  | zero => intro th h; exact ⟨by intro x hx; simp [Thread.run] at hx; subst hx; exact h, by intro x hx; simp [Thread.run] at hx⟩
  | succ n ih =>
    intro th h
    unfold Thread.run
    split
    · -- done
      split <;> exact ⟨by intro x hx; simp at hx, by intro x hx; simp at hx⟩
    · exact ⟨by intro x hx; simp at hx, by intro x hx; simp at hx⟩
    · -- retry
      exact ih _ ⟨h.2 t, h.2⟩
    · rename_i subs k hco
      have hy := h.1
      rw [hco] at hy
      cases hy with
      | yield _ _ hs hk =>
        split
        · exact ih _ ⟨hk _ _, h.2⟩
        · refine ⟨?_, ?_⟩
          · intro x hx
            simp only [Option.some.injEq] at hx
            subst hx
            exact ⟨AllYields.yield _ _ hs hk, h.2⟩
          · intro x hx tx htx
            simp only [List.mem_map] at hx
            obtain ⟨⟨i, sb⟩, hmem, rfl⟩ := hx
            have := (List.of_mem_zip hmem).2
            simp only at htx
            subst htx
            exact hs tx this

theorem pendingOk_append {a b : List (SubId × Subm)} (ha : PendingOk a) (hb : PendingOk b) : PendingOk (a ++ b) := by
  intro x hx tx htx
  rcases List.mem_append.mp hx with h | h
  · exact ha x h tx htx
  · exact hb x h tx htx

theorem runAll_ok (t : Time) : ∀ (cands : List (Thread × Bool)), (∀ c ∈ cands, ThreadOk c.1) →
    (∀ th ∈ (runAll t cands).1, ThreadOk th) ∧ PendingOk (runAll t cands).2.2.1 := by
  intro cands
  induction cands with
  | nil => intro _; exact ⟨by intro th h; simp [runAll] at h, by intro x hx; simp [runAll] at hx⟩
  | cons c rest ih =>
    intro h
    obtain ⟨th, b⟩ := c
    have hrest := ih (fun c hc => h c (List.mem_cons_of_mem _ hc))
    have hth : ThreadOk th := h (th, b) (List.mem_cons_self ..)
    cases b with
    | false =>
      simp only [runAll]
      refine ⟨?_, hrest.2⟩
      intro x hx
      simp only [List.mem_cons] at hx
      rcases hx with rfl | hx
      · exact hth
      · exact hrest.1 x hx
    | true =>
      simp only [runAll]
      have hr := run_ok t fuelPerThread th hth
      refine ⟨?_, pendingOk_append hr.2 hrest.2⟩
      intro x hx
      simp only [List.mem_append] at hx
      rcases hx with hx | hx
      · cases hth' : (th.run t fuelPerThread).1 with
        | none => simp [hth'] at hx
        | some y =>
          simp only [hth', List.mem_singleton] at hx
          rw [hx]; exact hr.1 y hth'
      · exact hrest.1 x hx

theorem deliverAll_ok : ∀ (dcs : List (SubId × Cpl)) (ths : List Thread), (∀ th ∈ ths, ThreadOk th) →
    ∀ th ∈ deliverAll ths dcs, ThreadOk th := by
  intro dcs
  induction dcs with
  | nil => intro ths h; simpa [deliverAll] using h
  | cons dc rest ih =>
    intro ths h
    simp only [deliverAll]
    apply ih
    intro th hth
    simp only [List.mem_map] at hth
    obtain ⟨th0, h0, rfl⟩ := hth
    split
    · exact threadOk_fillSlot _ _ _ (h th0 h0)
    · exact h th0 h0

theorem startBg_ok (env : Env) (en dr : Bool) (live : List Thread) (t : Time) :
    ∀ (bs : List BgState) (cnt : Nat), ∀ th ∈ (startBg env en dr live t bs cnt).2.1, ThreadOk th := by
  intro bs
  induction bs with
  | nil => intro cnt th h; simp [startBg] at h
  | cons b rest ih =>
    intro cnt th h
    simp only [startBg] at h
    split at h
    · split at h
      · simp only [List.mem_cons] at h
        rcases h with rfl | h
        · exact threadOk_new _ _ _ (fun t => ay_bg env b.kind t)
        · exact ih _ th h
      · exact ih _ th h
    · exact ih _ th h

theorem startReqs_ok (env : Env) (t : Time) :
    ∀ (qs : List (String × Req)) (cnt : Nat), (∀ q ∈ qs, q.2.StateOk) → ∀ th ∈ (startReqs env t qs cnt).1, ThreadOk th := by
  intro qs
  induction qs with
  | nil => intro cnt _ th h; simp [startReqs] at h
  | cons q rest ih =>
    intro cnt hq th h
    have hrest : ∀ q ∈ rest, q.2.StateOk := fun x hx => hq x (List.mem_cons_of_mem _ hx)
    simp only [startReqs] at h
    split at h
    · simp only [List.mem_cons] at h
      rcases h with rfl | h
      · exact threadOk_new _ _ _ (fun t' => ay_req env q.2 t t' (hq q (List.mem_cons_self ..)))
      · exact ih _ hrest th h
    · exact ih _ hrest th h

variable (I : Db → Prop)

theorem sysInv_tick (s : Sys) (t : Time) (h : SysInv I s) : SysInv I (s.tick t).1 := by
  unfold Sys.tick
  split
  · exact h
  · dsimp only
    have h1 := deliverAll_ok (s.cq.take s.env.cfg.completionBatchSize) s.threads h.threads
    have hbg := startBg_ok s.env s.bgEnabled (s.apiDone && s.apiQ.isEmpty)
      (deliverAll s.threads (s.cq.take s.env.cfg.completionBatchSize)) t s.bg 0
    have hrq := fun cnt => startReqs_ok s.env t (s.apiQ.take (dequeueCount s.env.cfg.submissionBatchSize s.apiQ.length)) cnt
      (fun q hq => h.apiQ q (List.mem_of_mem_take hq))
    have hc := runAll_ok t
      ((deliverAll s.threads (s.cq.take s.env.cfg.completionBatchSize)).map (fun th => match th.resume? t with | some th' => (th', true) | none => (th, false))
        ++ ((startBg s.env s.bgEnabled (s.apiDone && s.apiQ.isEmpty) (deliverAll s.threads (s.cq.take s.env.cfg.completionBatchSize)) t s.bg 0).2.1
            ++ (startReqs s.env t (s.apiQ.take (dequeueCount s.env.cfg.submissionBatchSize s.apiQ.length))
                 (startBg s.env s.bgEnabled (s.apiDone && s.apiQ.isEmpty) (deliverAll s.threads (s.cq.take s.env.cfg.completionBatchSize)) t s.bg 0).2.2).1).map (fun th => (th, true)))
      (by
        intro c hc
        simp only [List.mem_append, List.mem_map] at hc
        rcases hc with ⟨th, hth, rfl⟩ | ⟨th, hth, rfl⟩
        · cases hr : th.resume? t with
          | none => simpa [hr] using h1 th hth
          | some th' => simpa [hr] using threadOk_resume th th' t (h1 th hth) hr
        · rcases hth with hth | hth
          · exact hbg th hth
          · exact hrq _ th hth)
    exact ⟨h.db, pendingOk_append h.pending hc.2, hc.1, fun q hq => h.apiQ q (List.mem_of_mem_drop hq)⟩

theorem execTxs_inv (g : SqlDefs) (hI : ∀ db db' tx rs, I db → WfC tx → db.execTx g tx = .ok (db', rs) → I db') :
    ∀ (txs : List (List Cmd)) (db db' : Db) (rss : List (List Res)), I db → (∀ tx ∈ txs, WfC tx) →
      db.execTxs g txs = .ok (db', rss) → I db' := by
  intro txs
  induction txs with
  | nil => intro db db' rss hi _ h; simp [Db.execTxs] at h; rw [← h.1]; exact hi
  | cons tx txs ih =>
    intro db db' rss hi hw h
    simp only [Db.execTxs] at h
    split at h
    · cases h
    · cases h1 : db.execTx g tx with
      | error e => simp [h1] at h
      | ok p =>
        obtain ⟨db1, rs⟩ := p
        simp only [h1] at h
        cases h2 : db1.execTxs g txs with
        | error e => simp [h2] at h
        | ok q =>
          obtain ⟨db2, rss2⟩ := q
          simp only [h2] at h
          injection h with h; injection h with hd _
          subst hd
          exact ih db1 db2 rss2 (hI db db1 tx rs hi (hw tx (List.mem_cons_self ..)) h1)
            (fun x hx => hw x (List.mem_cons_of_mem _ hx)) h2

theorem execBatch_inv (g : SqlDefs) (hI : ∀ db db' tx rs, I db → WfC tx → db.execTx g tx = .ok (db', rs) → I db')
    (db : Db) (txs : List (List Cmd)) (hi : I db) (hw : ∀ tx ∈ txs, WfC tx) : I (db.execBatch g txs).1 := by
  unfold Db.execBatch
  cases h : db.execTxs g txs with
  | error e => exact hi
  | ok p => obtain ⟨db', rss⟩ := p; exact execTxs_inv I g hI txs db db' rss hi hw h

theorem sysInv_execStore (s : Sys) (items : List (SubId × FailMode)) (h : SysInv I s)
    (hI : ∀ db db' tx rs, I db → WfC tx → db.execTx s.g tx = .ok (db', rs) → I db') : SysInv I (s.execStore items).1 := by
  unfold Sys.execStore
  dsimp only
  refine ⟨?_, ?_, h.threads, h.apiQ⟩
  · -- the new database
    split
    · exact h.db
    · apply execBatch_inv I s.g hI _ _ h.db
      intro tx htx
      simp only [List.mem_filterMap] at htx
      obtain ⟨it, _, hfind⟩ := htx
      -- `tx` was found among the pending store submissions
      split at hfind
      · rename_i id sub hf
        injection hfind with hfind; subst hfind
        have hm := List.mem_of_find?_eq_some hf
        exact h.pending _ hm _ rfl
      · cases hfind
  · intro x hx tx htx
    exact h.pending x ((List.mem_filter.mp hx).1) tx htx

def Choice.Ok : Choice → Prop
  | .submit _ r => r.StateOk
  | _ => True

theorem sysInv_step (s : Sys) (c : Choice) (h : SysInv I s) (hc : c.Ok)
    (hI : ∀ db db' tx rs, I db → WfC tx → db.execTx s.g tx = .ok (db', rs) → I db') : SysInv I (s.step c).1 := by
  cases c with
  | submit tid r =>
    simp only [Sys.step]
    split
    · exact h
    · split
      · refine ⟨h.db, h.pending, h.threads, ?_⟩
        intro q hq
        simp only [List.mem_append, List.mem_singleton] at hq
        rcases hq with hq | rfl
        · exact h.apiQ q hq
        · exact hc
      · exact h
  | tick t => exact sysInv_tick I s t h
  | execStore items => exact sysInv_execStore I s items h hI
  | complete id cp =>
    simp only [Sys.step]
    split
    · exact h
    · exact ⟨h.db, fun x hx tx htx => h.pending x ((List.mem_filter.mp hx).1) tx htx, h.threads, h.apiQ⟩
    · exact h
  | shutdown => exact ⟨h.db, h.pending, h.threads, h.apiQ⟩
  | crash =>
    refine ⟨h.db, ?_, ?_, ?_⟩
    · intro x hx; simp only [Sys.step] at hx; cases hx
    · intro th hth; simp only [Sys.step] at hth; cases hth
    · intro q hq; simp only [Sys.step] at hq; cases hq

theorem step_g (s : Sys) (c : Choice) : (s.step c).1.g = s.g := by
  cases c <;> simp only [Sys.step]
  · split <;> (try split) <;> rfl
  · unfold Sys.tick; split <;> rfl
  · unfold Sys.execStore; rfl
  · split <;> rfl

/-- **every reachable state**: any choice list (requests, ticks at any times, store batches of any
    composition and order with any failures, router/sender completions, shutdown, crashes) -/
theorem sysInv_run (cs : List Choice) (s : Sys) (h : SysInv I s) (hcs : ∀ c ∈ cs, c.Ok)
    (hI : ∀ db db' tx rs, I db → WfC tx → db.execTx s.g tx = .ok (db', rs) → I db') : SysInv I (s.run cs) := by
  induction cs generalizing s with
  | nil => exact h
  | cons c cs ih =>
    simp only [Sys.run, List.foldl_cons]
    have hs := sysInv_step I s c h (hcs c (List.mem_cons_self ..)) hI
    exact ih _ hs (fun x hx => hcs x (List.mem_cons_of_mem _ hx)) (by rw [step_g]; exact hI)

/-- a freshly booted system over a database satisfying `I` -/
theorem sysInv_boot (env : Env) (g : SqlDefs) (db : Db) (hi : I db) :
    SysInv I { env := env, g := g, db := db } :=
  ⟨hi, by intro x hx; simp at hx, by intro th hth; simp at hth, by intro q hq; simp at hq⟩

end Resonate
