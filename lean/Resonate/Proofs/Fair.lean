/-
  Proofs/Fair.lean — every background sweep gets its turn, for every size of the scheduler's in-queue ≥ 1.

  `system.Tick` offers the due background coroutines to the scheduler in registration order; the scheduler's in-queue
  holds `coroutineMaxSize` entries per tick.  Before the fix of finding F17 a queue smaller than five let the first
  entries take the slots on every tick: the later sweeps never ran.  The fix rotates the registration list by one
  whenever a due coroutine was refused.  This file proves that this is enough: over consecutive cycles in which every
  registered sweep is due and its previous instance has finished, the sweep registered at position `i` is started at
  cycle `i` at the latest — so within `len` (= five) cycles every sweep has run, for every in-queue size ≥ 1.
-/
import Resonate.Model.System
namespace Resonate

/-- the sweep `b` is offered to the scheduler at tick `t`: the signal timeout has passed since its last start and its
    previous instance has finished -/
def BgDue (env : Env) (live : List Thread) (t : Time) (b : BgState) : Prop :=
  env.cfg.signalTimeout ≤ t - b.last ∧ bgRunningDone live b = true

/-- kinds of the sweeps a call of `startBg` starts -/
def startedKinds (ths : List Thread) : List (Option BgKind) := ths.map (·.isBg)

theorem startBg_all_due (env : Env) (live : List Thread) (t : Time) :
    ∀ (bgs : List BgState) (cnt : Nat), (∀ b ∈ bgs, BgDue env live t b) →
      startedKinds (startBg env true false live t bgs cnt).2.1 = (bgs.take (env.cfg.coroutineMaxSize - cnt)).map (fun b => some b.kind) ∧
      (startBg env true false live t bgs cnt).1.map (·.kind) = bgs.map (·.kind) ∧
      bgRefused env true false live t bgs cnt = decide (env.cfg.coroutineMaxSize - cnt < bgs.length) := by
  intro bgs
  induction bgs with
  | nil => intro cnt _; simp [startBg, bgRefused, startedKinds]
  | cons b rest ih =>
    intro cnt h
    have hb := h b (List.mem_cons_self)
    have hr : ∀ x ∈ rest, BgDue env live t x := fun x hx => h x (List.mem_cons_of_mem _ hx)
    have hcond : (true && !false && decide (t - b.last ≥ env.cfg.signalTimeout) && bgRunningDone live b) = true := by
      simp [hb.1, hb.2]
    by_cases hc : cnt < env.cfg.coroutineMaxSize
    · obtain ⟨i1, i2, i3⟩ := ih (cnt + 1) hr
      have e : env.cfg.coroutineMaxSize - cnt = (env.cfg.coroutineMaxSize - (cnt + 1)) + 1 := by omega
      refine ⟨?_, ?_, ?_⟩
      · simp only [startBg, hcond, hc, if_true, startedKinds, List.map_cons]
        rw [e, List.take_succ_cons, List.map_cons]
        simp only [startedKinds] at i1
        rw [i1]
        rfl
      · simp only [startBg, hcond, hc, if_true, List.map_cons]
        rw [i2]
      · simp only [bgRefused, hcond, hc, if_true]
        rw [i3]
        simp only [List.length_cons]
        apply decide_eq_decide.mpr
        omega
    · have hz : env.cfg.coroutineMaxSize - cnt = 0 := by omega
      obtain ⟨i1, i2, _⟩ := ih cnt hr
      refine ⟨?_, ?_, ?_⟩
      · simp only [startBg, hcond, hc, if_true, if_false]
        rw [hz] at i1 ⊢
        simpa using i1
      · simp only [startBg, hcond, hc, if_true, if_false, List.map_cons]
        rw [i2]
      · simp only [bgRefused, hcond, hc, if_true, if_false]
        rw [hz]
        simp

/-- the registry after one tick (`Sys.tick`: `bg''`) and the sweeps it started -/
def cycleBg (env : Env) (live : List Thread) (t : Time) (bgs : List BgState) : List BgState × List Thread :=
  let r := startBg env true false live t bgs 0
  (if bgRefused env true false live t bgs 0 then rotate1 r.1 else r.1, r.2.1)

theorem rotate1_map' {α β} (f : α → β) (l : List α) : (rotate1 l).map f = rotate1 (l.map f) := by
  cases l <;> simp [rotate1]

/-- one cycle in which every registered sweep is due: the first `coroutineMaxSize` of the registry are started, and the
    registry is rotated by one exactly when some sweep was refused -/
theorem cycle_all_due (env : Env) (live : List Thread) (t : Time) (bgs : List BgState) (h : ∀ b ∈ bgs, BgDue env live t b) :
    startedKinds (cycleBg env live t bgs).2 = (bgs.take env.cfg.coroutineMaxSize).map (fun b => some b.kind) ∧
    (cycleBg env live t bgs).1.map (·.kind) =
      if env.cfg.coroutineMaxSize < bgs.length then rotate1 (bgs.map (·.kind)) else bgs.map (·.kind) := by
  obtain ⟨i1, i2, i3⟩ := startBg_all_due env live t bgs 0 h
  simp only [Nat.sub_zero] at i1 i3
  refine ⟨i1, ?_⟩
  simp only [cycleBg, i3, decide_eq_true_eq]
  split
  · rw [rotate1_map', i2]
  · exact i2

/-- `rotate1` iterated -/
def rotN {α} : Nat → List α → List α
  | 0, l => l
  | n + 1, l => rotN n (rotate1 l)

theorem rotate1_length {α} (l : List α) : (rotate1 l).length = l.length := by
  cases l <;> simp [rotate1]

theorem rotN_length {α} : ∀ (n : Nat) (l : List α), (rotN n l).length = l.length := by
  intro n
  induction n with
  | zero => intro l; rfl
  | succ n ih => intro l; simp [rotN, ih, rotate1_length]

/-- the element at position `i` is the head after `i` rotations -/
theorem rotN_head {α} : ∀ (i : Nat) (l : List α) (h : i < l.length), (rotN i l).head? = l[i]? := by
  intro i
  induction i with
  | zero => intro l h; cases l <;> simp [rotN]
  | succ i ih =>
    intro l h
    cases l with
    | nil => simp at h
    | cons x xs =>
      simp only [rotN, rotate1]
      rw [ih (xs ++ [x]) (by simp at h ⊢; omega)]
      simp only [List.length_cons] at h
      rw [List.getElem?_append_left (by omega)]
      simp

/-- **every sweep gets its turn.**  Over consecutive cycles `0, 1, 2, …` of the registry (`regs (j+1)` is what the tick of
    cycle `j` leaves) in which every registered sweep is due, with an in-queue of at least one entry, the sweep registered
    at position `i` at cycle 0 is among those started at cycle `i` — whatever the in-queue size, the clock values and the
    live threads.  (With an in-queue of five or more every sweep is started in every cycle.) -/
theorem every_sweep_gets_its_turn (env : Env) (hmax : 0 < env.cfg.coroutineMaxSize)
    (ts : Nat → Time) (lives : Nat → List Thread) (regs : Nat → List BgState)
    (hstep : ∀ j, regs (j + 1) = (cycleBg env (lives j) (ts j) (regs j)).1)
    (hdue : ∀ j, ∀ b ∈ regs j, BgDue env (lives j) (ts j) b)
    (i : Nat) (hi : i < (regs 0).length) :
    some ((regs 0)[i]).kind ∈ startedKinds (cycleBg env (lives i) (ts i) (regs i)).2 := by
  -- the registry's kinds at cycle j: rotated j times (small in-queue) or unchanged
  have hk : ∀ j, (regs j).map (·.kind) =
      if env.cfg.coroutineMaxSize < (regs 0).length then rotN j ((regs 0).map (·.kind)) else (regs 0).map (·.kind) := by
    intro j
    induction j with
    | zero => split <;> rfl
    | succ j ih =>
      rw [hstep j, (cycle_all_due env (lives j) (ts j) (regs j) (hdue j)).2]
      have hl : (regs j).length = (regs 0).length := by
        have := congrArg List.length ih
        simp only [List.length_map] at this
        rw [this]
        split
        · rw [rotN_length, List.length_map]
        · rw [List.length_map]
      rw [hl, ih]
      split
      · -- rotN (j+1) l = rotate1 (rotN j l): rotations commute
        have comm : ∀ (n : Nat) (l : List BgKind), rotN (n + 1) l = rotate1 (rotN n l) := by
          intro n
          induction n with
          | zero => intro l; rfl
          | succ n ihn => intro l; simp only [rotN] at ihn ⊢; rw [← ihn]
        rw [comm]
      · rfl
  rw [(cycle_all_due env (lives i) (ts i) (regs i) (hdue i)).1]
  have hki := hk i
  by_cases hsmall : env.cfg.coroutineMaxSize < (regs 0).length
  · rw [if_pos hsmall] at hki
    -- the head of the registry at cycle i is the sweep registered at position i
    have hh := rotN_head i ((regs 0).map (·.kind)) (by simpa using hi)
    rw [← hki] at hh
    cases hr : regs i with
    | nil =>
      rw [hr] at hh
      simp only [List.map_nil, List.head?_nil] at hh
      rw [List.getElem?_map, List.getElem?_eq_getElem hi] at hh
      simp at hh
    | cons b rest =>
      rw [hr] at hh
      simp only [List.map_cons, List.head?_cons] at hh
      rw [List.getElem?_map, List.getElem?_eq_getElem hi] at hh
      simp only [Option.map_some, Option.some.injEq] at hh
      obtain ⟨m, hm⟩ : ∃ m, env.cfg.coroutineMaxSize = m + 1 := ⟨env.cfg.coroutineMaxSize - 1, by omega⟩
      rw [hm, List.take_succ_cons, List.map_cons, hh]
      exact List.mem_cons_self
  · rw [if_neg hsmall] at hki
    have hl : (regs i).length = (regs 0).length := by
      have := congrArg List.length hki
      simpa using this
    rw [List.take_of_length_le (by omega)]
    have : (regs i).map (fun b => some b.kind) = ((regs i).map (·.kind)).map some := by simp
    rw [this, hki]
    simp only [List.map_map, List.mem_map, Function.comp]
    exact ⟨(regs 0)[i], List.getElem_mem hi, rfl⟩

end Resonate
