/-
  Proofs/JsonRoundTrip.lean — `decMap (encMap m) = some m` for every list of string pairs over all
  Unicode scalar values (C20: header and tag maps survive persistence exactly).
-/
import Resonate.Model.Json
namespace Resonate.Json

theorem hexVal_hexDigit : ∀ d : Fin 16, hexVal (hexDigit d.val) = some d.val := by decide

theorem hexVal4_hex4 (n : Nat) (h : n < 65536) : hexVal4 (hexDigit (n / 4096 % 16)) (hexDigit (n / 256 % 16)) (hexDigit (n / 16 % 16)) (hexDigit (n % 16)) = some n := by
  have h1 := hexVal_hexDigit ⟨n / 4096 % 16, by omega⟩
  have h2 := hexVal_hexDigit ⟨n / 256 % 16, by omega⟩
  have h3 := hexVal_hexDigit ⟨n / 16 % 16, by omega⟩
  have h4 := hexVal_hexDigit ⟨n % 16, by omega⟩
  simp only at h1 h2 h3 h4
  simp only [hexVal4, h1, h2, h3, h4, bind, Option.bind, pure]
  congr 1
  omega

theorem needsU_lt (c : Char) (h : needsU c = true) : c.toNat < 65536 := by
  simp only [needsU, Bool.or_eq_true, decide_eq_true_eq, beq_iff_eq] at h
  rcases h with ((((h | h) | h) | h) | h) | h
  · omega
  · subst h; decide
  · subst h; decide
  · subst h; decide
  · omega
  · omega

/-- decoding what was written for one character gives that character back -/
theorem decBody_encChar (c : Char) (rest : List Char) :
    decBody (encChar c ++ rest) = (decBody rest).map fun p => (c :: p.1, p.2) := by
  unfold encChar
  split
  · rename_i h; have : c = '"' := by simpa using h
    subst this; simp [decBody]; cases decBody rest <;> rfl
  · split
    · rename_i _ h; have : c = '\\' := by simpa using h
      subst this; simp [decBody]; cases decBody rest <;> rfl
    · split
      · rename_i _ _ h; have : c = '\n' := by simpa using h
        subst this; simp [decBody]; cases decBody rest <;> rfl
      · split
        · rename_i _ _ _ h; have : c = '\r' := by simpa using h
          subst this; simp [decBody]; cases decBody rest <;> rfl
        · split
          · rename_i _ _ _ _ h; have : c = '\t' := by simpa using h
            subst this; simp [decBody]; cases decBody rest <;> rfl
          · split
            · rename_i _ _ _ _ _ h
              have hc : c = Char.ofNat 8 := by
                have : c.toNat = 8 := by simpa using h
                rw [← this]; exact (Char.ofNat_toNat c).symm
              subst hc; simp [decBody]; cases decBody rest <;> rfl
            · split
              · rename_i _ _ _ _ _ _ h
                have hc : c = Char.ofNat 12 := by
                  have : c.toNat = 12 := by simpa using h
                  rw [← this]; exact (Char.ofNat_toNat c).symm
                subst hc; simp [decBody]; cases decBody rest <;> rfl
              · split
                · rename_i _ _ _ _ _ _ _ h
                  have hlt := needsU_lt c h
                  simp only [hex4, List.cons_append, List.nil_append, decBody, hexVal4_hex4 c.toNat hlt]
                  cases decBody rest with
                  | none => rfl
                  | some p => simp [Char.ofNat_toNat]
                · rename_i h1 h2 h3 h4 h5 h6 h7 h8
                  have hq : c ≠ '"' := by simpa using h1
                  have hb : c ≠ '\\' := by simpa using h2
                  simp only [List.singleton_append]
                  rw [decBody.eq_def]
                  split
                  · rename_i heq; cases heq
                  · rename_i r heq; injection heq with hh _; exact absurd hh hq
                  · rename_i a b cc dd r heq; injection heq with hh _; exact absurd hh hb
                  · rename_i e r _ heq; injection heq with hh _; exact absurd hh hb
                  · rename_i c' r' _ _ _ heq
                    injection heq with hh ht; subst hh; subst ht
                    cases decBody rest <;> rfl

theorem decBody_encBody (cs rest : List Char) : decBody (encBody cs ++ '"' :: rest) = some (cs, rest) := by
  induction cs with
  | nil => simp [encBody, decBody]
  | cons c cs ih =>
    have : encBody (c :: cs) ++ '"' :: rest = encChar c ++ (encBody cs ++ '"' :: rest) := by simp [encBody]
    rw [this, decBody_encChar, ih]; rfl

/-- **string round trip** -/
theorem decStr_encStr (s rest : List Char) : decStr (encStr s ++ rest) = some (s, rest) := by
  simp only [encStr, List.cons_append, decStr, List.append_assoc, List.singleton_append]
  exact decBody_encBody s rest

theorem decPairs_encPairs : ∀ (m : List (List Char × List Char)) (hne : m ≠ []) (fuel : Nat) (rest : List Char), m.length ≤ fuel →
    decPairs fuel (encPairs m ++ '}' :: rest) = some (m, rest) := by
  intro m
  induction m with
  | nil => intro hne; exact absurd rfl hne
  | cons kv m ih =>
    intro _ fuel rest hf
    obtain ⟨k, v⟩ := kv
    cases fuel with
    | zero => simp at hf
    | succ fuel =>
      cases m with
      | nil =>
        simp only [encPairs, decPairs, List.append_assoc, List.cons_append, decStr_encStr]
      | cons kv2 m2 =>
        have := ih (by simp) fuel rest (by simp at hf ⊢; omega)
        simp only [encPairs, decPairs, List.append_assoc, List.cons_append, decStr_encStr]
        simp only [this]

/-- **map round trip**: every list of (key, value) string pairs — any Unicode content, any length — is
    recovered exactly from what `json.Marshal` writes for it -/
theorem decMap_encMap (m : List (List Char × List Char)) : decMap (encMap m) = some m := by
  cases m with
  | nil => rfl
  | cons kv m =>
    have hlen : (kv :: m).length ≤ (encPairs (kv :: m) ++ ['}']).length + 1 := by
      have : ∀ (l : List (List Char × List Char)), l.length ≤ (encPairs l).length := by
        intro l
        induction l with
        | nil => simp [encPairs]
        | cons a l ih =>
          cases l with
          | nil => simp [encPairs, encStr]
          | cons b l => simp only [encPairs, List.length_append, List.length_cons] at ih ⊢; simp [encStr] at *; omega
      have := this (kv :: m); simp at this ⊢; omega
    have hne : encPairs (kv :: m) ++ ['}'] ≠ ['}'] := by
      obtain ⟨k, v⟩ := kv
      cases m <;> simp [encPairs, encStr]
    have key := decPairs_encPairs (kv :: m) (by simp) ((encPairs (kv :: m) ++ ['}']).length + 1) [] hlen
    unfold decMap encMap
    split
    · rename_i heq; injection heq with _ heq; exact absurd heq hne
    · rename_i rest heq
      injection heq with _ heq; subst heq
      have key' : decPairs (((encPairs (kv :: m)).append ['}']).length + 1) ((encPairs (kv :: m)).append ['}']) = some (kv :: m, []) := key
      rw [key']
    · rename_i h1 h2; exact absurd rfl (h2 _)

end Resonate.Json
