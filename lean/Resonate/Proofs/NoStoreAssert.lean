/-
  Proofs/NoStoreAssert.lean — the store's own assertions (`util.Assert` inside the command handlers: a search without a
  pattern, a completion state that is none of resolved / rejected / canceled / timed out, a task read or update without
  states, a task created in a state other than init / claimed) are never reached: every command of every transaction any
  coroutine can yield satisfies `cmdNA`, and a command that satisfies it never makes `Db.exec` fail with `.assertion`.
  (In the Go code such an assertion panics the store worker goroutine and takes the process down.)
-/
import Resonate.Proofs.AllYields
import Resonate.Proofs.KeysInv
namespace Resonate
open Coro SqlSpec

def taskCmdNA (c : CreateTaskCmd) : Prop := (c.state = 1 ∨ c.state = 4) ∧ (c.state = 4 → c.processId.isSome = true)

def cmdNA : Cmd → Prop
  | .searchPromises c => c.id ≠ ""
  | .searchSchedules c => c.id ≠ ""
  | .updatePromise c => promiseStateOk c.state = true
  | .readTasks c => c.states ≠ []
  | .createTask c => taskCmdNA c
  | .createPromiseAndTask c => taskCmdNA c.taskCommand
  | .updateTask c => c.currentStates ≠ []
  | _ => True

def NA (tx : List Cmd) : Prop := tx ≠ [] ∧ ∀ c ∈ tx, cmdNA c

theorem createTask_no_assert (g : SqlDefs) (db : Db) (c : CreateTaskCmd) (h : taskCmdNA c) (m : String) :
    db.createTask g c ≠ .error (.assertion m) := by
  unfold Db.createTask
  obtain ⟨h1, h2⟩ := h
  split
  · rename_i hbad
    rcases h1 with h1 | h1 <;> simp [h1] at hbad
  · split
    · rename_i hbad
      simp only [Bool.and_eq_true, beq_iff_eq] at hbad
      have := h2 hbad.1
      simp [Option.isNone_iff_eq_none] at hbad
      rw [hbad.2] at this
      cases this
    · split <;> intro hh <;> cases hh

theorem exec_no_assert (g : SqlDefs) (db : Db) (c : Cmd) (h : cmdNA c) (m : String) : db.exec g c ≠ .error (.assertion m) := by
  cases c <;> simp only [Db.exec, cmdNA] at h ⊢
  case searchPromises c => simp [h]
  case searchSchedules c => simp [h]
  case updatePromise c => simp [h]
  case readTasks c => have : c.states.isEmpty = false := by cases hs : c.states <;> simp_all
                      simp [this]
  case updateTask c => have : c.currentStates.isEmpty = false := by cases hs : c.currentStates <;> simp_all
                       simp [this]
  case createTask c =>
    have := createTask_no_assert g db c h m
    cases hx : db.createTask g c with
    | ok p => simp
    | error e => simp only []; intro hh; injection hh with hh; exact this (by rw [hx, hh])
  case createTasks c =>
    cases hx : insertTasksFrom g c ((db.callbacks.filter (g.taskInsertAll_where c)).mergeSort cbOrdLe) db.tasks db.seqT with
    | ok p => simp
    | error e =>
      simp only []
      intro hh; injection hh with hh
      -- the only error of TASK_INSERT_ALL is the UNIQUE violation
      have : ∀ (cbs : List CallbackRow) (ts : List TaskRow) (sq : Nat) (e : StoreErr), insertTasksFrom g c cbs ts sq = .error e → ∃ id, e = .uniqueTaskId id := by
        intro cbs
        induction cbs with
        | nil => intro ts sq e he; simp [insertTasksFrom] at he
        | cons cb rest ih =>
          intro ts sq e he
          simp only [insertTasksFrom] at he
          split at he
          · injection he with he; exact ⟨_, he.symm⟩
          · cases hr : insertTasksFrom g c rest (ts ++ [g.taskInsertAll_row c cb (sq + 1)]) (sq + 1) with
            | ok q => simp [hr] at he
            | error e2 => simp [hr] at he; rw [← he]; exact ih _ _ _ hr
      obtain ⟨id, hid⟩ := this _ _ _ _ hx
      rw [hid] at hh; cases hh
  case createPromiseAndTask c =>
    split
    · simp
    · have := createTask_no_assert g (db.createPromise g c.promiseCommand).1 c.taskCommand h m
      cases hx : (db.createPromise g c.promiseCommand).1.createTask g c.taskCommand with
      | ok p => simp
      | error e => simp only []; intro hh; injection hh with hh; exact this (by rw [hx, hh])
  all_goals (first | (intro hh; cases hh; done) | (split <;> intro hh <;> cases hh))

theorem execTx_no_assert (g : SqlDefs) : ∀ (tx : List Cmd) (db : Db), (∀ c ∈ tx, cmdNA c) → ∀ m, db.execTx g tx ≠ .error (.assertion m) := by
  intro tx
  induction tx with
  | nil => intro db _ m h; simp [Db.execTx] at h
  | cons c cs ih =>
    intro db hc m h
    simp only [Db.execTx] at h
    cases h1 : db.exec g c with
    | error e =>
      simp only [h1] at h
      injection h with h
      exact exec_no_assert g db c (hc c (List.mem_cons_self ..)) m (by rw [h1, h])
    | ok p =>
      obtain ⟨db1, r⟩ := p
      simp only [h1] at h
      cases h2 : db1.execTx g cs with
      | error e =>
        simp only [h2] at h
        injection h with h
        exact ih db1 (fun x hx => hc x (List.mem_cons_of_mem _ hx)) m (by rw [h2, h])
      | ok q => simp [h2] at h

/-- a batch of transactions of the shape the coroutines emit never trips an assertion of the store -/
theorem execTxs_no_assert (g : SqlDefs) : ∀ (txs : List (List Cmd)) (db : Db), (∀ tx ∈ txs, NA tx) → ∀ m, db.execTxs g txs ≠ .error (.assertion m) := by
  intro txs
  induction txs with
  | nil => intro db _ m h; simp [Db.execTxs] at h
  | cons tx txs ih =>
    intro db hc m h
    have htx := hc tx (List.mem_cons_self ..)
    simp only [Db.execTxs] at h
    split at h
    · rename_i hemp
      exact htx.1 (by simpa using hemp)
    · cases h1 : db.execTx g tx with
      | error e =>
        simp only [h1] at h
        injection h with h
        exact execTx_no_assert g tx db htx.2 m (by rw [h1, h])
      | ok p =>
        obtain ⟨db1, rs⟩ := p
        simp only [h1] at h
        cases h2 : db1.execTxs g txs with
        | error e =>
          simp only [h2] at h
          injection h with h
          exact ih db1 (fun x hx => hc x (List.mem_cons_of_mem _ hx)) m (by rw [h2, h])
        | ok q => simp [h2] at h

/-! ### every transaction the coroutines yield -/

theorem nA_completeTx (cmd : UpdatePromiseCmd) (t : Time) (h : promiseStateOk cmd.state = true) : NA (completeTx cmd t) := by
  refine ⟨by simp [completeTx], ?_⟩
  intro c hc; simp [completeTx] at hc; rcases hc with rfl | rfl | rfl | rfl <;> simp [cmdNA, h]

theorem nA_timeoutTx (id : String) (p : Promise) (t : Time) : NA (completeTx (timeoutCmd id p) t) :=
  nA_completeTx _ _ (by simp [timeoutCmd, promiseStateOk_timedoutState])

theorem nA_map {α} (l : List α) (f : α → Cmd) (hne : (l.map f).isEmpty = false) (h : ∀ x, cmdNA (f x)) : NA (l.map f) := by
  refine ⟨by intro h0; simp [h0] at hne, ?_⟩
  intro c hc; simp only [List.mem_map] at hc; obtain ⟨x, _, rfl⟩ := hc; exact h x

macro "na_wf" : tactic =>
  `(tactic| first
    | exact nA_timeoutTx _ _ _
    | (refine ⟨by simp, ?_⟩; simp [cmdNA]; done)
    | (refine ⟨by simp, ?_⟩; simp_all [cmdNA]; done)
    | (refine ⟨by simp, ?_⟩; intro c hc; simp at hc; rcases hc with rfl | rfl <;> simp_all [cmdNA]; done))

macro "na_go" : tactic =>
  `(tactic| repeat' (first
    | ay_leaf
    | (refine ay1 _ _ ?_ ?_)
    | (intro (_ : Time) (_ : List Cpl))
    | na_wf
    | split
    | (dsimp only)))

theorem na_readPromise (id : String) (t0 : Time) : AllYields NA (readPromise id t0) := by
  unfold readPromise; na_go

theorem nA_childCmd (pc : CreatePromiseCmd) (tc : Option CreateTaskCmd) (routed : Option String)
    (htc : TaskCmdOk pc.id tc) : NA [childCmd pc (childTask pc tc routed)] := by
  refine ⟨by simp, ?_⟩
  intro c hc
  simp only [List.mem_singleton] at hc
  subst hc
  cases routed with
  | none => simp [childTask, childCmd, cmdNA]
  | some recv =>
    cases tc with
    | none => simp [childTask, childCmd, cmdNA, taskCmdNA, T_INIT]
    | some c =>
      obtain ⟨_, hs⟩ := htc c rfl
      simp only [childTask, childCmd, cmdNA, taskCmdNA]
      rcases hs with h1 | ⟨h4, hp⟩
      · exact ⟨.inl h1, by intro h; rw [h1] at h; cases h⟩
      · exact ⟨.inr h4, fun _ => hp⟩

theorem na_childStore (pc : CreatePromiseCmd) (ft : Option CreateTaskCmd) (k : ChildOut → Co)
    (hw : NA [childCmd pc ft]) (hk : ∀ o, AllYields NA (k o)) : AllYields NA (childStore pc ft [] k) := by
  unfold childStore
  refine ay1 _ _ hw ?_
  intro t cpls
  repeat' (first | ay_leaf | exact hk _ | split | (dsimp only))

theorem na_createPromiseChild (pc : CreatePromiseCmd) (tc : Option CreateTaskCmd) (k : ChildOut → Co)
    (htc : TaskCmdOk pc.id tc) (hk : ∀ o, AllYields NA (k o)) : AllYields NA (createPromiseChild pc tc [] k) := by
  unfold createPromiseChild
  refine ay0 _ _ (by simp) ?_
  intro t cpls
  split
  · split
    · exact hk _
    · split
      · exact hk _
      · exact na_childStore _ _ _ (nA_childCmd pc tc _ htc) hk
  · exact AllYields.panic _

theorem na_createPromiseInner (req : CreatePromiseReq) (tc : Option CreateTaskCmd) (wt : Bool) (t0 : Time)
    (htc : TaskCmdOk req.id tc) : AllYields NA (createPromiseInner req tc wt t0) := by
  unfold createPromiseInner
  dsimp only
  refine ay1 _ _ (by na_wf) ?_
  intro t cpls
  split
  · na_go
  · na_go
  · apply na_createPromiseChild _ _ _ htc
    intro o
    na_go
  · na_go

theorem na_completePromise (req : CompletePromiseReq) (t0 : Time) (hs : promiseStateOk req.state = true) :
    AllYields NA (completePromise req t0) := by
  unfold completePromise
  refine ay1 _ _ (by na_wf) ?_
  intro t cpls
  split
  · na_go
  · na_go
  · na_go
  · dsimp only
    split
    · refine ay1 _ _ ?_ ?_
      · split
        · exact nA_completeTx _ _ hs
        · exact nA_timeoutTx _ _ _
      · na_go
    · na_go

theorem na_searchPromises (req : SearchPromisesReq) (t0 : Time) : AllYields NA (searchPromises req t0) := by
  unfold searchPromises
  split
  · ay_leaf
  · split
    · ay_leaf
    · rename_i hid _
      refine ay1 _ _ ?_ ?_
      · refine ⟨by simp, ?_⟩
        intro c hc; simp only [List.mem_singleton] at hc; subst hc
        simpa [cmdNA] using hid
      intro t cpls
      split
      · na_go
      · dsimp only
        split
        · na_go
        · refine AllYields.yield _ _ ?_ (by intro t2 c2; na_go)
          intro tx hm
          simp only [List.mem_map] at hm
          obtain ⟨x, _, hx⟩ := hm
          injection hx with hx; subst hx
          exact nA_timeoutTx _ _ _
      · na_go

theorem na_registerCallback (pid cb recv : String) (m : Mesg) (to : Int) : AllYields NA (registerCallback pid cb recv m to) := by
  unfold registerCallback; na_go

theorem na_createCallback (req : CreateCallbackReq) (t0 : Time) : AllYields NA (createCallback req t0) := by
  unfold createCallback; split
  · ay_leaf
  · exact na_registerCallback _ _ _ _ _

theorem na_createSubscription (req : CreateSubscriptionReq) (t0 : Time) : AllYields NA (createSubscription req t0) := by
  unfold createSubscription; exact na_registerCallback _ _ _ _ _

theorem na_readSchedule (id : String) (t0 : Time) : AllYields NA (readSchedule id t0) := by
  unfold readSchedule; na_go
theorem na_createSchedule (env : Env) (req : CreateScheduleReq) (t0 : Time) : AllYields NA (createSchedule env req t0) := by
  unfold createSchedule; na_go
theorem na_deleteSchedule (id : String) (t0 : Time) : AllYields NA (deleteSchedule id t0) := by
  unfold deleteSchedule; na_go
theorem na_searchSchedules (req : SearchSchedulesReq) (t0 : Time) : AllYields NA (searchSchedules req t0) := by
  unfold searchSchedules
  split
  · ay_leaf
  · split
    · ay_leaf
    · rename_i hid _
      refine ay1 _ _ ?_ ?_
      · refine ⟨by simp, ?_⟩
        intro c hc; simp only [List.mem_singleton] at hc; subst hc
        simpa [cmdNA] using hid
      · na_go
theorem na_acquireLock (req : AcquireLockReq) (t0 : Time) : AllYields NA (acquireLock req t0) := by
  unfold acquireLock; na_go
theorem na_releaseLock (a b : String) (t0 : Time) : AllYields NA (releaseLock a b t0) := by
  unfold releaseLock; na_go
theorem na_heartbeatLocks (p : String) (t0 : Time) : AllYields NA (heartbeatLocks p t0) := by
  unfold heartbeatLocks; na_go
theorem na_claimTask (env : Env) (req : ClaimTaskReq) (t0 : Time) : AllYields NA (claimTask env req t0) := by
  unfold claimTask; na_go
theorem na_completeTask (id : String) (c : Int) (t0 : Time) : AllYields NA (completeTask id c t0) := by
  unfold completeTask; na_go
theorem na_heartbeatTasks (p : String) (t0 : Time) : AllYields NA (heartbeatTasks p t0) := by
  unfold heartbeatTasks; na_go

/-! ### background coroutines -/

theorem na_timeoutPromises (env : Env) (t0 : Time) : AllYields NA (timeoutPromises env t0) := by
  unfold timeoutPromises
  refine ay1 _ _ (by na_wf) ?_
  intro t cpls
  split
  · na_go
  · split
    · ay_leaf
    · split
      · ay_leaf
      · split
        · ay_leaf
        · refine AllYields.yield _ _ ?_ (by intro t2 c2; na_go)
          intro tx hm
          simp only [List.mem_map] at hm
          obtain ⟨x, _, hx⟩ := hm
          injection hx with hx; subst hx
          exact nA_timeoutTx _ _ _
  · na_go

theorem na_timeoutLocks (t0 : Time) : AllYields NA (timeoutLocks t0) := by
  unfold timeoutLocks; na_go

theorem na_timeoutTasks (env : Env) (t0 : Time) : AllYields NA (timeoutTasks env t0) := by
  unfold timeoutTasks
  refine ay1 _ _ (by na_wf) ?_
  intro t cpls
  split
  · na_go
  · split
    · ay_leaf
    · split
      · ay_leaf
      · dsimp only
        split
        · ay_leaf
        · rename_i hne
          refine ay1 _ _ ?_ (by intro _ _; ay_leaf)
          exact nA_map _ _ (by simpa using hne) (by intro r; split <;> simp [cmdNA])
  · na_go

theorem enqueueOutcomeCmd_nA (e : Int) (r : TaskRow) (o : Cpl) : cmdNA (enqueueOutcomeCmd e r o) := by
  unfold enqueueOutcomeCmd; split
  · simp [cmdNA]
  · split <;> simp [cmdNA]

theorem na_enqueueFinish (dead : List Cmd) (live : List TaskRow) (e : Int) (outs : List Cpl)
    (hd : ∀ c ∈ dead, cmdNA c) : AllYields NA (enqueueFinish dead live e outs) := by
  unfold enqueueFinish
  dsimp only
  split
  · ay_leaf
  · rename_i hne
    refine ay1 _ _ ?_ (by intro _ _; ay_leaf)
    refine ⟨by intro h0; simp [h0] at hne, ?_⟩
    intro c hc
    simp only [List.mem_append, List.mem_map] at hc
    rcases hc with hc | ⟨x, _, rfl⟩
    · exact hd c hc
    · exact enqueueOutcomeCmd_nA _ _ _

theorem na_enqueueTasks (env : Env) (t0 : Time) : AllYields NA (enqueueTasks env t0) := by
  unfold enqueueTasks
  refine ay1 _ _ (by na_wf) ?_
  intro t cpls
  split
  · na_go
  · split
    · ay_leaf
    · refine ay1 _ _ ?_ ?_
      · exact nA_map _ _ (by rename_i h; simpa using h) (by intro r; simp [cmdNA])
      · intro t2 cpls2
        have hdead : ∀ (l : List (TaskRow × Res)) (c : Cmd),
            c ∈ l.map (fun (x : TaskRow × Res) => Cmd.updateTask { id := x.1.id, processId := none, state := T_TIMEDOUT, counter := x.1.counter, attempt := x.1.attempt, ttl := 0, expiresAt := 0, completedOn := some x.1.timeout, currentStates := [T_INIT], currentCounter := x.1.counter }) → cmdNA c := by
          intro l c hc
          simp only [List.mem_map] at hc
          obtain ⟨x, _, rfl⟩ := hc
          simp [cmdNA]
        split
        · na_go
        · split
          · ay_leaf
          · dsimp only
            split
            · ay_leaf
            · split
              · exact na_enqueueFinish _ _ _ _ (hdead _)
              · refine ay0 _ _ ?_ ?_
                · intro tx hm
                  simp only [List.mem_map] at hm
                  obtain ⟨x, _, hx⟩ := hm
                  cases hx
                · intro t3 outs
                  exact na_enqueueFinish _ _ _ _ (hdead _)
        · na_go
  · na_go

theorem na_schedulePromises (env : Env) (t0 : Time) : AllYields NA (schedulePromises env t0) := by
  unfold schedulePromises
  refine ay1 _ _ (by na_wf) ?_
  intro t cpls
  split
  · na_go
  · split
    · ay_leaf
    · dsimp only
      split
      · ay_leaf
      · refine ay0 _ _ ?_ ?_
        · intro tx hm
          simp only [List.mem_map] at hm
          obtain ⟨x, _, hx⟩ := hm
          cases hx
        · intro t2 rcs
          split
          · ay_leaf
          · split
            · ay_leaf
            · refine AllYields.yield _ _ ?_ (by intro t3 c3; na_go)
              intro tx hm
              simp only [List.mem_map] at hm
              obtain ⟨⟨⟨pc, upd⟩, rc⟩, hmem0, hx⟩ := hm
              have hmem := (List.mem_filter.mp hmem0).1
              have hupd : cmdNA upd := by
                have h1 := List.of_mem_zip hmem
                have h2 := h1.1
                simp only [List.mem_filterMap] at h2
                obtain ⟨r, _, hr⟩ := h2
                split at hr
                · injection hr with hr; injection hr with _ hr; subst hr; simp [cmdNA]
                · cases hr
              split at hx
              · injection hx with hx; subst hx
                refine ⟨by simp, ?_⟩
                intro c hc
                simp only [List.mem_cons, List.not_mem_nil, or_false] at hc
                rcases hc with rfl | rfl
                · simp [cmdNA, taskCmdNA, T_INIT]
                · exact hupd
              · injection hx with hx; subst hx
                refine ⟨by simp, ?_⟩
                intro c hc
                simp only [List.mem_cons, List.not_mem_nil, or_false] at hc
                rcases hc with rfl | rfl
                · simp [cmdNA]
                · exact hupd
  · na_go

/-! ### every registered coroutine -/

theorem na_req (env : Env) (r : Req) (t0 t : Time) (h : r.StateOk) : AllYields NA (r.body env t0 t) := by
  cases r with
  | readPromise id => exact na_readPromise id t
  | searchPromises q => exact na_searchPromises q t
  | createPromise q => exact na_createPromiseInner q none false t (by intro c hc; cases hc)
  | createPromiseAndTask p tr =>
    simp only [Req.body]
    split
    · ay_leaf
    · split
      · ay_leaf
      · rename_i h1 h2
        refine na_createPromiseInner _ _ _ _ ?_
        intro c hc
        injection hc with hc; subst hc
        refine ⟨?_, Or.inr ⟨rfl, rfl⟩⟩
        simp only [taskCmdOf]
        simpa using (by simpa using h1 : p.id = tr.promiseId).symm
  | completePromise q => exact na_completePromise q t h
  | createCallback q => exact na_createCallback q t
  | createSubscription q => exact na_createSubscription q t
  | readSchedule id => exact na_readSchedule id t
  | searchSchedules q => exact na_searchSchedules q t
  | createSchedule q => exact na_createSchedule env q t
  | deleteSchedule id => exact na_deleteSchedule id t
  | acquireLock q => exact na_acquireLock q t
  | releaseLock a b => exact na_releaseLock a b t
  | heartbeatLocks p => exact na_heartbeatLocks p t
  | claimTask q => exact na_claimTask env q t
  | completeTask id c => exact na_completeTask id c t
  | heartbeatTasks p => exact na_heartbeatTasks p t

theorem na_bg (env : Env) (k : BgKind) (t : Time) : AllYields NA (k.body env t) := by
  cases k with
  | timeoutPromises => exact na_timeoutPromises env t
  | schedulePromises => exact na_schedulePromises env t
  | timeoutLocks => exact na_timeoutLocks t
  | timeoutTasks => exact na_timeoutTasks env t
  | enqueueTasks => exact na_enqueueTasks env t

end Resonate
