/-
  Proofs/Kernel.lean — composition: the kernel delivers to every coroutine completions that ANSWER its submissions
  (Proofs/NoPanic.lean: `Answers`), on databases whose keys are unique (Proofs/KeysInv.lean), at clocks that do not
  run backwards — along EVERY run of `Sys.step`.  Hence the `NoPanic` predicate, proved per coroutine, holds of every
  thread of every reachable state, and no run ever emits an assertion event (Properties/C13.lean).

  Names of submissions.  The model names a dispatched submission by (thread id, sequence number); the Go kernel uses
  closures, so a completion can never reach another coroutine.  The model's naming is faithful as long as a thread id
  is not reused while anything of an earlier thread with that id is still around; `TickOk` states exactly that and is
  a hypothesis on runs (evaluated by the driver on every script of the correspondence harness).
-/
import Resonate.Proofs.SysInv
import Resonate.Proofs.SysDb
import Resonate.Proofs.AllYieldsK
import Resonate.Proofs.Responds
import Resonate.Proofs.Productive
import Resonate.Proofs.NoStoreAssert
import Resonate.Properties.C06
namespace Resonate
open Coro SqlSpec

/-! ### slots, completions and submissions aligned with the submission list of a yield -/

/-- slots numbered from `b`, aligned with `subs`; filled ones answer their submission -/
def SlotsOk (A : Subm → Cpl → Prop) : Nat → List Subm → List (Nat × Option Cpl) → Prop
  | _, [], [] => True
  | b, s :: ss, sl :: sls => sl.1 = b ∧ (∀ c, sl.2 = some c → A s c) ∧ SlotsOk A (b + 1) ss sls
  | _, _, _ => False

/-- a completion carrying sequence number `q` answers the submission at that position (if any) -/
def CplOk (A : Subm → Cpl → Prop) : Nat → List Subm → Nat → Cpl → Prop
  | _, [], _, _ => True
  | b, s :: ss, q, c => (q = b → A s c) ∧ CplOk A (b + 1) ss q c

/-- a pending submission carrying sequence number `q` is the submission at that position (if any) -/
def SubOk : Nat → List Subm → Nat → Subm → Prop
  | _, [], _, _ => True
  | b, s :: ss, q, s' => (q = b → s' = s) ∧ SubOk (b + 1) ss q s'

def Answers' (A : Subm → Cpl → Prop) : List Subm → List Cpl → Prop
  | [], [] => True
  | s :: ss, c :: cs => A s c ∧ Answers' A ss cs
  | _, _ => False

theorem answers'_eq (d : Dialect) (lo hi : Db) : ∀ (subs : List Subm) (cpls : List Cpl),
    Answers' (AnswerOne d lo hi) subs cpls → Answers d lo hi subs cpls := by
  intro subs
  induction subs with
  | nil => intro cpls h; cases cpls <;> simp_all [Answers, Answers']
  | cons s ss ih =>
    intro cpls h
    cases cpls with
    | nil => simp [Answers'] at h
    | cons c cs => exact ⟨h.1, ih cs h.2⟩

theorem slotsOk_mono {A B : Subm → Cpl → Prop} (hab : ∀ s c, A s c → B s c) :
    ∀ (subs : List Subm) (b : Nat) (slots : List (Nat × Option Cpl)), SlotsOk A b subs slots → SlotsOk B b subs slots := by
  intro subs
  induction subs with
  | nil => intro b slots h; cases slots <;> simp_all [SlotsOk]
  | cons s ss ih =>
    intro b slots h
    cases slots with
    | nil => simp [SlotsOk] at h
    | cons sl sls => exact ⟨h.1, fun c hc => hab _ _ (h.2.1 c hc), ih _ _ h.2.2⟩

theorem cplOk_mono {A B : Subm → Cpl → Prop} (hab : ∀ s c, A s c → B s c) :
    ∀ (subs : List Subm) (b q : Nat) (c : Cpl), CplOk A b subs q c → CplOk B b subs q c := by
  intro subs
  induction subs with
  | nil => intro b q c _; trivial
  | cons s ss ih => intro b q c h; exact ⟨fun hq => hab _ _ (h.1 hq), ih _ _ _ h.2⟩

theorem cplOk_of_lt (A : Subm → Cpl → Prop) : ∀ (subs : List Subm) (b q : Nat) (c : Cpl), q < b → CplOk A b subs q c := by
  intro subs
  induction subs with
  | nil => intro b q c _; trivial
  | cons s ss ih => intro b q c h; exact ⟨fun hq => by omega, ih _ _ _ (by omega)⟩

theorem subOk_of_lt : ∀ (subs : List Subm) (b q : Nat) (s' : Subm), q < b → SubOk b subs q s' := by
  intro subs
  induction subs with
  | nil => intro b q c _; trivial
  | cons s ss ih => intro b q c h; exact ⟨fun hq => by omega, ih _ _ _ (by omega)⟩

theorem cplOk_of_subOk {A : Subm → Cpl → Prop} : ∀ (subs : List Subm) (b q : Nat) (s' : Subm) (c : Cpl),
    SubOk b subs q s' → A s' c → CplOk A b subs q c := by
  intro subs
  induction subs with
  | nil => intro b q s' c _ _; trivial
  | cons s ss ih => intro b q s' c h ha; exact ⟨fun hq => by rw [← h.1 hq]; exact ha, ih _ _ _ _ h.2 ha⟩

theorem cplOk_all {A : Subm → Cpl → Prop} (c : Cpl) (h : ∀ s, A s c) : ∀ (subs : List Subm) (b q : Nat), CplOk A b subs q c := by
  intro subs
  induction subs with
  | nil => intro b q; trivial
  | cons s ss ih => intro b q; exact ⟨fun _ => h s, ih _ _⟩

/-- filling the slot numbered `q` with a completion that answers at `q` -/
theorem slotsOk_fill {A : Subm → Cpl → Prop} (q : Nat) (c : Cpl) :
    ∀ (subs : List Subm) (b : Nat) (slots : List (Nat × Option Cpl)), SlotsOk A b subs slots → CplOk A b subs q c →
      SlotsOk A b subs (slots.map fun s => if s.1 == q && s.2.isNone then (s.1, some c) else s) := by
  intro subs
  induction subs with
  | nil => intro b slots h _; cases slots <;> simp_all [SlotsOk]
  | cons s ss ih =>
    intro b slots h hc
    cases slots with
    | nil => simp [SlotsOk] at h
    | cons sl sls =>
      simp only [List.map_cons]
      refine ⟨?_, ?_, ih _ _ h.2.2 hc.2⟩
      · split <;> exact h.1
      · intro c' hc'
        split at hc'
        · rename_i hcond
          simp only [Bool.and_eq_true, beq_iff_eq] at hcond
          simp only [Option.some.injEq] at hc'
          subst hc'
          exact hc.1 (by rw [← hcond.1, h.1])
        · exact h.2.1 c' hc'

/-- when every slot is filled, the completions handed to the continuation answer the submissions -/
theorem slotsOk_answers {A : Subm → Cpl → Prop} :
    ∀ (subs : List Subm) (b : Nat) (slots : List (Nat × Option Cpl)), SlotsOk A b subs slots →
      slots.all (fun s => s.2.isSome) = true → Answers' A subs (slots.filterMap (·.2)) := by
  intro subs
  induction subs with
  | nil => intro b slots h _; cases slots <;> simp_all [SlotsOk, Answers']
  | cons s ss ih =>
    intro b slots h hall
    cases slots with
    | nil => simp [SlotsOk] at h
    | cons sl sls =>
      simp only [List.all_cons, Bool.and_eq_true] at hall
      cases hsl : sl.2 with
      | none => simp [hsl] at hall
      | some c =>
        rw [List.filterMap_cons_some hsl]
        exact ⟨h.2.1 c hsl, ih _ _ h.2.2 hall.2⟩

theorem answerOne_err (d : Dialect) (lo hi : Db) (s : Subm) : AnswerOne d lo hi s .err := by
  cases s <;> simp [AnswerOne]

/-- a request coroutine resumed on its first failed child: the children that have not completed count as failed -/
theorem slotsOk_answers_err {A : Subm → Cpl → Prop} (herr : ∀ s, A s .err) :
    ∀ (subs : List Subm) (b : Nat) (slots : List (Nat × Option Cpl)), SlotsOk A b subs slots →
      Answers' A subs (slots.map fun s => s.2.getD .err) := by
  intro subs
  induction subs with
  | nil => intro b slots h; cases slots <;> simp_all [SlotsOk, Answers']
  | cons s ss ih =>
    intro b slots h
    cases slots with
    | nil => simp [SlotsOk] at h
    | cons sl sls =>
      simp only [List.map_cons]
      refine ⟨?_, ih _ _ h.2.2⟩
      cases hsl : sl.2 with
      | none => exact herr s
      | some c => exact h.2.1 c hsl

/-! ### what a yield dispatches -/

def dispOf (tid : String) : Nat → List Subm → List (SubId × Subm)
  | _, [] => []
  | b, s :: ss => (⟨tid, b⟩, s) :: dispOf tid (b + 1) ss

def freshSlots : Nat → List Subm → List (Nat × Option Cpl)
  | _, [] => []
  | b, _ :: ss => (b, none) :: freshSlots (b + 1) ss

theorem range_shift (n b : Nat) : (List.range (n + 1)).map (fun i => b + i) = b :: (List.range n).map (fun i => (b + 1) + i) := by
  rw [List.range_succ_eq_map]
  simp only [List.map_cons, List.map_map, Nat.add_zero]
  congr 1
  apply List.map_congr_left
  intro i _
  simp only [Function.comp]
  omega

theorem disp_eq (tid : String) : ∀ (subs : List Subm) (b : Nat),
    ((((List.range subs.length).map fun i => b + i).zip subs).map fun (x : Nat × Subm) => (({ tid := tid, seq := x.1 } : SubId), x.2))
      = dispOf tid b subs := by
  intro subs
  induction subs with
  | nil => intro b; rfl
  | cons s ss ih =>
    intro b
    simp only [List.length_cons, range_shift, List.zip_cons_cons, List.map_cons, dispOf]
    rw [ih (b + 1)]

theorem slots_eq : ∀ (subs : List Subm) (b : Nat),
    (((List.range subs.length).map fun i => b + i).map fun i => ((i, none) : Nat × Option Cpl)) = freshSlots b subs := by
  intro subs
  induction subs with
  | nil => intro b; rfl
  | cons s ss ih =>
    intro b
    simp only [List.length_cons, range_shift, List.map_cons, freshSlots]
    rw [ih (b + 1)]

theorem freshSlots_ok (A : Subm → Cpl → Prop) : ∀ (subs : List Subm) (b : Nat), SlotsOk A b subs (freshSlots b subs) := by
  intro subs
  induction subs with
  | nil => intro b; trivial
  | cons s ss ih => intro b; exact ⟨rfl, (fun c hc => by cases hc), ih _⟩

theorem dispOf_spec (tid : String) : ∀ (subs : List Subm) (b : Nat) (e : SubId × Subm), e ∈ dispOf tid b subs →
    e.1.tid = tid ∧ b ≤ e.1.seq ∧ e.1.seq < b + subs.length ∧ SubOk b subs e.1.seq e.2 ∧ e.2 ∈ subs := by
  intro subs
  induction subs with
  | nil => intro b e h; simp [dispOf] at h
  | cons s ss ih =>
    intro b e h
    simp only [dispOf, List.mem_cons] at h
    rcases h with rfl | h
    · exact ⟨rfl, Nat.le_refl _, by simp, ⟨fun _ => rfl, subOk_of_lt _ _ _ _ (by simp)⟩, List.mem_cons_self ..⟩
    · obtain ⟨h1, h2, h3, h4, h5⟩ := ih _ _ h
      refine ⟨h1, by omega, by simp only [List.length_cons]; omega, ⟨fun hq => by omega, h4⟩, List.mem_cons_of_mem _ h5⟩

/-- the shape of every transaction the coroutines yield: ids as `KOk` wants them, and no command that trips an
    assertion of the store (`NA`) -/
def KN (tx : List Cmd) : Prop := KOk tx ∧ NA tx

theorem kn_req (env : Env) (r : Req) (t0 t : Time) (h : r.StateOk) : AllYields KN (r.body env t0 t) :=
  AllYields.and (ak_req env r t0 t) (na_req env r t0 t h)

theorem kn_bg (env : Env) (k : BgKind) (t : Time) : AllYields KN (k.body env t) :=
  AllYields.and (ak_bg env k t) (na_bg env k t)

/-! ### threads -/

/-- an assertion event: a `util.Assert` / nil dereference site reached by a coroutine, or a request coroutine that
    finished without a response -/
def Event.isAssert : Event → Bool
  | .panic _ _ => true
  | _ => false

/-- what never changes in the life of a thread: whenever it is restarted it is a coroutine without reachable assertion
    whose transactions have the shape `KOk` -/
structure Static (d : Dialect) (th : Thread) : Prop where
  np : ∀ t lo now, t ≤ now → NoPanic d lo now (th.restart t)
  ak : ∀ t, AllYields KN (th.restart t)
  rs : th.isBg = none → ∀ t, Resp1 (th.restart t)
  dp : ∀ t, Depth maxDepth (th.restart t)
  qk : ∀ t, Quick 1 (th.restart t)

/-- a blocked thread, relative to the database `db`, the pending submissions `P`, the completion queue `Q` and the clock -/
structure TInv (d : Dialect) (db : Db) (P : List (SubId × Subm)) (Q : List (SubId × Cpl)) (clk : Time) (th : Thread) : Prop where
  static : Static d th
  resp : th.isBg = none → Resp1 th.co
  dp : Depth maxDepth th.co
  blocked : ∃ subs k lo now base, th.co = .yield subs k ∧ subs ≠ [] ∧ NoPanic d lo now (.yield subs k) ∧ AllYields KN (.yield subs k) ∧
     PromMono lo db ∧ now ≤ clk ∧ th.nextSeq = base + subs.length ∧ SlotsOk (AnswerOne d lo db) base subs th.slots ∧
     (∀ e ∈ P, e.1.tid = th.tid → SubOk base subs e.1.seq e.2 ∧ e.1.seq < th.nextSeq) ∧
     (∀ e ∈ Q, e.1.tid = th.tid → CplOk (AnswerOne d lo db) base subs e.1.seq e.2 ∧ e.1.seq < th.nextSeq)

/-- a thread about to run at tick `t` on database `db` -/
structure Runnable (d : Dialect) (db : Db) (P : List (SubId × Subm)) (Q : List (SubId × Cpl)) (t : Time) (th : Thread) : Prop where
  static : Static d th
  np : NoPanic d db t th.co
  ak : AllYields KN th.co
  pend : ∀ e ∈ P, e.1.tid = th.tid → e.1.seq < th.nextSeq
  cq : ∀ e ∈ Q, e.1.tid = th.tid → e.1.seq < th.nextSeq
  rs : th.isBg = none → Resp1 th.co
  dp : Depth maxDepth th.co

theorem run_spec (d : Dialect) (db : Db) (P : List (SubId × Subm)) (Q : List (SubId × Cpl)) (t : Time) :
    ∀ (fuel : Nat) (th : Thread), Runnable d db P Q t th →
      (∀ e ∈ (th.run t fuel).2.1, e.isAssert = false) ∧
      (∀ e ∈ (th.run t fuel).2.2.1, e.1.tid = th.tid ∧ ∀ tx, e.2 = .store tx → KN tx) ∧
      ((th.run t fuel).2.2.2 = none → ∀ x, (th.run t fuel).1 = some x → x.tid = th.tid ∧ TInv d db (P ++ (th.run t fuel).2.2.1) Q t x) ∧
      (∀ n, Quick n th.co → n + 1 ≤ fuel → (th.run t fuel).2.2.2 = none) := by
  intro fuel
  induction fuel with
  | zero =>
    intro th _
    refine ⟨by intro e he; simp [Thread.run] at he, by intro e he; simp [Thread.run] at he, by intro h; simp [Thread.run] at h, by intro n _ hn; omega⟩
  | succ n ih =>
    intro th h
    unfold Thread.run
    split
    · -- done
      split
      · refine ⟨?_, by intro e he; simp at he, by intro _ x hx; simp at hx, by intro _ _ _; rfl⟩
        intro e he; simp only [List.mem_singleton] at he; subst he; rfl
      · -- a request coroutine finished without a response: excluded
        rename_i hbg hco
        have := h.rs hbg
        rw [hco] at this
        cases this
      · refine ⟨?_, by intro e he; simp at he, by intro _ x hx; simp at hx, by intro _ _ _; rfl⟩
        intro e he; simp only [List.mem_singleton] at he; subst he; rfl
    · -- panic: excluded
      rename_i site hco
      have := h.np
      rw [hco] at this
      cases this
    · -- retry
      rename_i hco
      have hr : Runnable d db P Q t { th with co := th.restart t } :=
        ⟨⟨h.static.np, h.static.ak, h.static.rs, h.static.dp, h.static.qk⟩, h.static.np t db t (Int.le_refl _), h.static.ak t, h.pend, h.cq, fun hb => h.static.rs hb t, h.static.dp t⟩
      obtain ⟨i1, i2, i3, i4⟩ := ih _ hr
      refine ⟨i1, i2, i3, ?_⟩
      intro m hq hm
      rw [hco] at hq
      cases hq with
      | retry m' => exact i4 1 (h.static.qk t) (by omega)
    · rename_i subs k hco
      have hnp := h.np
      have hak := h.ak
      have hrs := h.rs
      have hdp := h.dp
      rw [hco] at hnp hak hrs hdp
      split
      · -- empty yield: continue at once
        rename_i hemp
        have hs : subs = [] := by simpa using hemp
        have hr : Runnable d db P Q t { th with co := k t [] } := by
          refine ⟨⟨h.static.np, h.static.ak, h.static.rs, h.static.dp, h.static.qk⟩, ?_, ?_, h.pend, h.cq, ?_, ?_⟩
          · cases hnp with
            | yield _ _ _ _ hk => exact hk t [] db (Int.le_refl _) (PromMono.refl _) (by rw [hs]; trivial)
          · cases hak with
            | yield _ _ _ hk => exact hk t []
          · intro hb
            cases hrs hb with
            | yield _ _ hk => exact hk t []
          · cases hdp with
            | yield _ _ _ hk => exact (hk t []).mono (by unfold maxDepth; omega)
        obtain ⟨i1, i2, i3, i4⟩ := ih _ hr
        refine ⟨i1, i2, i3, ?_⟩
        intro m hq hm
        rw [hco] at hq
        cases hq with
        | block _ _ _ hne' => exact absurd hs hne'
        | skip m' _ _ hk => exact i4 m' (hk t) (by omega)
      · rename_i hne
        have hs : subs ≠ [] := by intro h0; simp [h0] at hne
        dsimp only
        rw [disp_eq th.tid subs th.nextSeq, slots_eq subs th.nextSeq]
        refine ⟨?_, ?_, ?_, by intro _ _ _; rfl⟩
        · intro e he
          simp only [List.mem_map] at he
          obtain ⟨x, _, rfl⟩ := he
          rfl
        · intro e he
          obtain ⟨h1, _, _, _, h5⟩ := dispOf_spec th.tid subs th.nextSeq e he
          refine ⟨h1, ?_⟩
          intro tx htx
          cases hak with
          | yield _ _ hs' _ => exact hs' tx (by rw [← htx]; exact h5)
        · intro _ x hx
          simp only [Option.some.injEq] at hx
          subst hx
          refine ⟨rfl, ⟨h.static.np, h.static.ak, h.static.rs, h.static.dp, h.static.qk⟩, hrs, hdp, subs, k, db, t, th.nextSeq, rfl, hs, hnp, hak, PromMono.refl _, Int.le_refl _, rfl,
            freshSlots_ok _ _ _, ?_, ?_⟩
          · intro e he htid
            rcases List.mem_append.mp he with he | he
            · have := h.pend e he htid
              exact ⟨subOk_of_lt _ _ _ _ this, by simp only; omega⟩
            · obtain ⟨_, _, h3, h4, _⟩ := dispOf_spec th.tid subs th.nextSeq e he
              exact ⟨h4, h3⟩
          · intro e he htid
            have := h.cq e he htid
            exact ⟨cplOk_of_lt _ _ _ _ _ this, by simp only; omega⟩

/-- the thread id never changes while running -/
theorem run_tid (t : Time) : ∀ (fuel : Nat) (th : Thread) (x : Thread), (th.run t fuel).1 = some x → x.tid = th.tid := by
  intro fuel
  induction fuel with
  | zero => intro th x h; simp [Thread.run] at h; rw [← h]
  | succ n ihn =>
    intro th x h
    unfold Thread.run at h
    split at h
    · split at h <;> simp at h
    · simp at h
    · have := ihn _ x h; exact this
    · split at h
      · have := ihn _ x h; exact this
      · simp only [Option.some.injEq] at h; rw [← h]

theorem tinv_pending {d : Dialect} {db : Db} {P P' : List (SubId × Subm)} {Q : List (SubId × Cpl)} {clk : Time} {th : Thread}
    (h : TInv d db P Q clk th) (hp : ∀ e ∈ P', e ∈ P ∨ e.1.tid ≠ th.tid) : TInv d db P' Q clk th := by
  obtain ⟨hs, hrs, hdp, subs, k, lo, now, base, h1, h2, h3, h4, h5, h6, h7, h8, h9, h10⟩ := h
  refine ⟨hs, hrs, hdp, subs, k, lo, now, base, h1, h2, h3, h4, h5, h6, h7, h8, ?_, h10⟩
  intro e he htid
  rcases hp e he with h | h
  · exact h9 e h htid
  · exact absurd htid h

def TidsDistinct (l : List String) : Prop := l.Pairwise (fun a b => a ≠ b)

theorem runAll_spec (d : Dialect) (db : Db) (Q : List (SubId × Cpl)) (t : Time) (P : List (SubId × Subm)) :
    ∀ (cands : List (Thread × Bool)), TidsDistinct (cands.map (·.1.tid)) →
      (∀ c ∈ cands, c.2 = false → TInv d db P Q t c.1) → (∀ c ∈ cands, c.2 = true → Runnable d db P Q t c.1) →
      (∀ e ∈ (runAll t cands).2.1, e.isAssert = false) ∧
      (∀ e ∈ (runAll t cands).2.2.1, (∃ c ∈ cands, e.1.tid = c.1.tid) ∧ ∀ tx, e.2 = .store tx → KN tx) ∧
      (∀ x ∈ (runAll t cands).1, ∃ c ∈ cands, x.tid = c.1.tid) ∧
      TidsDistinct ((runAll t cands).1.map (·.tid)) ∧
      ((runAll t cands).2.2.2 = none → ∀ x ∈ (runAll t cands).1, TInv d db (P ++ (runAll t cands).2.2.1) Q t x) ∧
      (runAll t cands).2.2.2 = none := by
  intro cands
  induction cands with
  | nil =>
    intro _ _ _
    simp only [runAll]
    refine ⟨?_, ?_, ?_, List.Pairwise.nil, ?_, ?_⟩
    · intro e he; cases he
    · intro e he; cases he
    · intro x hx; cases hx
    · intro _ x hx; cases hx
    · trivial
  | cons c rest ih =>
    intro hd hf ht
    obtain ⟨th, b⟩ := c
    simp only [List.map_cons, TidsDistinct, List.pairwise_cons] at hd
    obtain ⟨hd1, hd2⟩ := hd
    obtain ⟨i1, i2, i3, i4, i5, i6⟩ := ih hd2 (fun c hc => hf c (List.mem_cons_of_mem _ hc)) (fun c hc => ht c (List.mem_cons_of_mem _ hc))
    -- a thread of the rest has a thread id different from the head's
    have hrest : ∀ x ∈ (runAll t rest).1, x.tid ≠ th.tid := by
      intro x hx
      obtain ⟨c, hc, he⟩ := i3 x hx
      rw [he]
      exact fun h => hd1 c.1.tid (List.mem_map.mpr ⟨c, hc, rfl⟩) h.symm
    have hrestd : ∀ e ∈ (runAll t rest).2.2.1, e.1.tid ≠ th.tid := by
      intro e he
      obtain ⟨c, hc, he'⟩ := (i2 e he).1
      rw [he']
      exact fun h => hd1 c.1.tid (List.mem_map.mpr ⟨c, hc, rfl⟩) h.symm
    cases b with
    | false =>
      simp only [runAll]
      have hth := hf (th, false) (List.mem_cons_self ..) rfl
      refine ⟨i1, ?_, ?_, ?_, ?_, i6⟩
      · intro e he
        obtain ⟨⟨c, hc, h1⟩, h2⟩ := i2 e he
        exact ⟨⟨c, List.mem_cons_of_mem _ hc, h1⟩, h2⟩
      · intro x hx
        simp only [List.mem_cons] at hx
        rcases hx with rfl | hx
        · exact ⟨(x, false), List.mem_cons_self .., rfl⟩
        · obtain ⟨c, hc, h1⟩ := i3 x hx
          exact ⟨c, List.mem_cons_of_mem _ hc, h1⟩
      · simp only [List.map_cons, TidsDistinct, List.pairwise_cons]
        refine ⟨?_, i4⟩
        intro a ha
        simp only [List.mem_map] at ha
        obtain ⟨x, hx, rfl⟩ := ha
        exact fun h => hrest x hx h.symm
      · intro hh x hx
        simp only [List.mem_cons] at hx
        rcases hx with rfl | hx
        · refine tinv_pending hth ?_
          intro e he
          rcases List.mem_append.mp he with he | he
          · exact .inl he
          · exact .inr (hrestd e he)
        · exact i5 hh x hx
    | true =>
      simp only [runAll]
      have hth := ht (th, true) (List.mem_cons_self ..) rfl
      obtain ⟨r1, r2, r3, r4⟩ := run_spec d db P Q t fuelPerThread th hth
      have hhead : ∀ x ∈ (match (th.run t fuelPerThread).1 with | some x => [x] | none => []), (th.run t fuelPerThread).1 = some x := by
        intro x hx
        cases hr : (th.run t fuelPerThread).1 with
        | none => simp [hr] at hx
        | some y => simp only [hr, List.mem_singleton] at hx; rw [hx]
      have hnofuel : (th.run t fuelPerThread).2.2.2 = none :=
        r4 (maxDepth + 1) (quick_of_depth hth.dp) (by decide)
      refine ⟨?_, ?_, ?_, ?_, ?_, by simp [hnofuel, i6]⟩
      · intro e he
        rcases List.mem_append.mp he with he | he
        · exact r1 e he
        · exact i1 e he
      · intro e he
        rcases List.mem_append.mp he with he | he
        · exact ⟨⟨(th, true), List.mem_cons_self .., (r2 e he).1⟩, (r2 e he).2⟩
        · obtain ⟨⟨c, hc, h1⟩, h2⟩ := i2 e he
          exact ⟨⟨c, List.mem_cons_of_mem _ hc, h1⟩, h2⟩
      · intro x hx
        rcases List.mem_append.mp hx with hx | hx
        · refine ⟨(th, true), List.mem_cons_self .., ?_⟩
          have hsome := hhead x hx
          exact run_tid t _ _ _ hsome
        · obtain ⟨c, hc, h1⟩ := i3 x hx
          exact ⟨c, List.mem_cons_of_mem _ hc, h1⟩
      · simp only [List.map_append, TidsDistinct, List.pairwise_append]
        refine ⟨?_, i4, ?_⟩
        · cases (th.run t fuelPerThread).1 <;> simp
        · intro a ha b hb
          simp only [List.mem_map] at ha hb
          obtain ⟨x, hx, rfl⟩ := ha
          obtain ⟨y, hy, rfl⟩ := hb
          have hsome := hhead x hx
          have hxt : x.tid = th.tid := by
            cases hr : (th.run t fuelPerThread).2.2.2 with
            | none => exact (r3 hr x hsome).1
            | some site =>
              exact run_tid t _ _ _ hsome
          rw [hxt]
          exact fun h => hrest y hy h.symm
      · intro hh x hx
        have hh1 : (th.run t fuelPerThread).2.2.2 = none := by
          cases hr : (th.run t fuelPerThread).2.2.2 with
          | none => rfl
          | some s => simp [hr] at hh
        have hh2 : (runAll t rest).2.2.2 = none := by simpa [hh1] using hh
        rcases List.mem_append.mp hx with hx | hx
        · have hsome := hhead x hx
          obtain ⟨_, hti⟩ := r3 hh1 x hsome
          refine tinv_pending hti ?_
          intro e he
          rcases List.mem_append.mp he with he | he
          · exact .inl (List.mem_append_left _ he)
          · rcases List.mem_append.mp he with he | he
            · exact .inl (List.mem_append_right _ he)
            · right
              rw [(r3 hh1 x hsome).1]
              exact hrestd e he
        · refine tinv_pending (i5 hh2 x hx) ?_
          intro e he
          rcases List.mem_append.mp he with he | he
          · exact .inl (List.mem_append_left _ he)
          · rcases List.mem_append.mp he with he | he
            · right
              rw [(r2 e he).1]
              exact fun h => hrest x hx h.symm
            · exact .inl (List.mem_append_right _ he)

/-! ### delivery and resumption -/

theorem tinv_weaken {d : Dialect} {db : Db} {P : List (SubId × Subm)} {Q Q' : List (SubId × Cpl)} {clk clk' : Time} {th : Thread}
    (h : TInv d db P Q clk th) (hq : ∀ e ∈ Q', e ∈ Q) (hc : clk ≤ clk') : TInv d db P Q' clk' th := by
  obtain ⟨hs, hrs, hdp, subs, k, lo, now, base, h1, h2, h3, h4, h5, h6, h7, h8, h9, h10⟩ := h
  exact ⟨hs, hrs, hdp, subs, k, lo, now, base, h1, h2, h3, h4, h5, Int.le_trans h6 hc, h7, h8, h9, fun e he => h10 e (hq e he)⟩

theorem tinv_fill {d : Dialect} {db : Db} {P : List (SubId × Subm)} {Q : List (SubId × Cpl)} {clk : Time} {th : Thread}
    (h : TInv d db P Q clk th) (dc : SubId × Cpl) (hdc : dc ∈ Q) :
    TInv d db P Q clk (if th.tid == dc.1.tid then fillSlot th dc.1.seq dc.2 else th) := by
  split
  · rename_i htid
    have htid' : dc.1.tid = th.tid := by simpa using (beq_iff_eq.mp htid).symm
    obtain ⟨hs, hrs, hdp, subs, k, lo, now, base, h1, h2, h3, h4, h5, h6, h7, h8, h9, h10⟩ := h
    refine ⟨⟨hs.np, hs.ak, hs.rs, hs.dp, hs.qk⟩, hrs, hdp, subs, k, lo, now, base, h1, h2, h3, h4, h5, h6, h7, ?_, h9, h10⟩
    exact slotsOk_fill dc.1.seq dc.2 subs base th.slots h8 (h10 dc hdc htid').1
  · exact h

theorem deliverAll_spec (d : Dialect) (db : Db) (P : List (SubId × Subm)) (Q : List (SubId × Cpl)) (clk : Time) :
    ∀ (dcs : List (SubId × Cpl)) (ths : List Thread), (∀ dc ∈ dcs, dc ∈ Q) → (∀ th ∈ ths, TInv d db P Q clk th) →
      (∀ th ∈ deliverAll ths dcs, TInv d db P Q clk th) ∧ (deliverAll ths dcs).map (·.tid) = ths.map (·.tid) := by
  intro dcs
  induction dcs with
  | nil => intro ths _ h; exact ⟨h, rfl⟩
  | cons dc rest ih =>
    intro ths hq h
    simp only [deliverAll]
    have h1 := ih (ths.map fun th => if th.tid == dc.1.tid then fillSlot th dc.1.seq dc.2 else th)
      (fun x hx => hq x (List.mem_cons_of_mem _ hx))
      (by
        intro th hth
        simp only [List.mem_map] at hth
        obtain ⟨th0, h0, rfl⟩ := hth
        exact tinv_fill (h th0 h0) dc (hq dc (List.mem_cons_self ..)))
    refine ⟨h1.1, ?_⟩
    rw [h1.2, List.map_map]
    apply List.map_congr_left
    intro th _
    simp only [Function.comp]
    split <;> rfl

theorem resume_tid (th th' : Thread) (t : Time) (h : th.resume? t = some th') : th'.tid = th.tid := by
  unfold Thread.resume? at h
  split at h
  · cases h
  · split at h
    · split at h
      · injection h with h; rw [← h]
      · cases h
    · split at h
      · split at h
        · injection h with h; rw [← h]
        · cases h
      · cases h

theorem resume_runnable {d : Dialect} {db : Db} {P : List (SubId × Subm)} {Q : List (SubId × Cpl)} {clk t : Time} {th th' : Thread}
    (h : TInv d db P Q clk th) (hc : clk ≤ t) (hr : th.resume? t = some th') : Runnable d db P Q t th' := by
  obtain ⟨hs, hrs, hdp, subs, k, lo, now, base, h1, h2, h3, h4, h5, h6, h7, h8, h9, h10⟩ := h
  unfold Thread.resume? at hr
  split at hr
  · cases hr
  · split at hr
    · rename_i hall
      split at hr
      · rename_i subs' k' hco
        injection hr with hr
        subst hr
        rw [h1] at hco
        injection hco with e1 e2
        subst e1; subst e2
        refine ⟨⟨hs.np, hs.ak, hs.rs, hs.dp, hs.qk⟩, ?_, ?_, fun e he ht => (h9 e he ht).2, fun e he ht => (h10 e he ht).2, ?_, ?_⟩
        · cases h3 with
          | yield _ _ _ _ hk =>
            exact hk t _ db (Int.le_trans h6 hc) h5 (answers'_eq d lo db _ _ (slotsOk_answers subs base th.slots h8 hall))
        · cases h4 with
          | yield _ _ _ hk => exact hk t _
        · intro hb
          have := hrs hb
          rw [h1] at this
          cases this with
          | yield _ _ hk => exact hk t _
        · rw [h1] at hdp
          cases hdp with
          | yield _ _ _ hk => exact (hk t _).mono (by unfold maxDepth; omega)
      · cases hr
    · split at hr
      · split at hr
        · rename_i subs' k' hco
          injection hr with hr
          subst hr
          rw [h1] at hco
          injection hco with e1 e2
          subst e1; subst e2
          refine ⟨⟨hs.np, hs.ak, hs.rs, hs.dp, hs.qk⟩, ?_, ?_, fun e he ht => (h9 e he ht).2, fun e he ht => (h10 e he ht).2, ?_, ?_⟩
          · cases h3 with
            | yield _ _ _ _ hk =>
              exact hk t _ db (Int.le_trans h6 hc) h5 (answers'_eq d lo db _ _
                (slotsOk_answers_err (fun s => answerOne_err d lo db s) subs base th.slots h8))
          · cases h4 with
            | yield _ _ _ hk => exact hk t _
          · intro hb
            have := hrs hb
            rw [h1] at this
            cases this with
            | yield _ _ hk => exact hk t _
          · rw [h1] at hdp
            cases hdp with
            | yield _ _ _ hk => exact (hk t _).mono (by unfold maxDepth; omega)
        · cases hr
      · cases hr

/-! ### one tick -/

def Sys.threads1 (s : Sys) : List Thread := deliverAll s.threads (s.cq.take s.env.cfg.completionBatchSize)
def Sys.sb (s : Sys) (t : Time) := startBg s.env s.bgEnabled (s.apiDone && s.apiQ.isEmpty) s.threads1 t s.bg 0
def Sys.sr (s : Sys) (t : Time) :=
  startReqs s.env t (s.apiQ.take (dequeueCount s.env.cfg.submissionBatchSize s.apiQ.length)) (s.sb t).2.2
/-- the coroutines started by this tick -/
def Sys.newThreads (s : Sys) (t : Time) : List Thread := (s.sb t).2.1 ++ (s.sr t).1
def Sys.cands (s : Sys) (t : Time) : List (Thread × Bool) :=
  s.threads1.map (fun th => match th.resume? t with | some th' => (th', true) | none => (th, false))
    ++ (s.newThreads t).map (fun th => (th, true))

theorem tick_eq2 (s : Sys) (t : Time) :
    s.tick t =
      if s.halted.isSome then (s, []) else
      ({ s with threads := (runAll t (s.cands t)).1,
                apiQ := s.apiQ.drop (dequeueCount s.env.cfg.submissionBatchSize s.apiQ.length),
                cq := s.cq.drop s.env.cfg.completionBatchSize,
                bg := (if bgRefused s.env s.bgEnabled (s.apiDone && s.apiQ.isEmpty) s.threads1 t s.bg 0 then rotate1 (s.sb t).1 else (s.sb t).1),
                pending := s.pending ++ (runAll t (s.cands t)).2.2.1, halted := (runAll t (s.cands t)).2.2.2 },
       (s.sr t).2 ++ (runAll t (s.cands t)).2.1) := rfl

/-- a request whose coroutine reaches no assertion (what `C13.request_never_panics` proves of every validated request) -/
def ReqOk (d : Dialect) (env : Env) (r : Req) : Prop := ∀ t0 t lo now, NoPanic d lo now ((r.body env t0) t)
/-- the background coroutines reach no assertion (`C13.background_never_panics`) -/
def BgOk (d : Dialect) (env : Env) : Prop := ∀ (k : BgKind) t0 lo now, t0 ≤ now → NoPanic d lo now (k.body env t0)

/-- thread ids started by this tick are not in use: not by a live thread, a pending submission or a queued completion -/
def TickOk (clk : Time) (s : Sys) (t : Time) : Prop :=
  clk ≤ t ∧ TidsDistinct ((s.newThreads t).map (·.tid)) ∧
  ∀ x ∈ (s.newThreads t).map (·.tid), (∀ th ∈ s.threads, th.tid ≠ x) ∧ (∀ e ∈ s.pending, e.1.tid ≠ x) ∧ (∀ e ∈ s.cq, e.1.tid ≠ x)

structure KInv (d : Dialect) (clk : Time) (s : Sys) : Prop where
  g : s.g = defs d
  keys : KeysX s.db
  pendK : ∀ e ∈ s.pending, ∀ tx, e.2 = .store tx → KN tx
  halted : s.halted = none
  threads : s.halted = none → ∀ th ∈ s.threads, TInv d s.db s.pending s.cq clk th
  distinct : s.halted = none → TidsDistinct (s.threads.map (·.tid))
  apiQ : ∀ q ∈ s.apiQ, ReqOk d s.env q.2 ∧ q.2.StateOk

theorem startBg_new (env : Env) (en dr : Bool) (live : List Thread) (t : Time) :
    ∀ (bs : List BgState) (cnt : Nat), ∀ th ∈ (startBg env en dr live t bs cnt).2.1,
      ∃ tid k, th = newThread tid (some k) (k.body env) := by
  intro bs
  induction bs with
  | nil => intro cnt th h; simp [startBg] at h
  | cons b rest ih =>
    intro cnt th h
    simp only [startBg] at h
    split at h
    · split at h
      · simp only [List.mem_cons] at h
        rcases h with rfl | h
        · exact ⟨_, _, rfl⟩
        · exact ih _ th h
      · exact ih _ th h
    · exact ih _ th h

theorem startReqs_new (env : Env) (t : Time) :
    ∀ (qs : List (String × Req)) (cnt : Nat), (∀ th ∈ (startReqs env t qs cnt).1, ∃ q ∈ qs, th = newThread q.1 none (q.2.body env t)) ∧
      (∀ e ∈ (startReqs env t qs cnt).2, e.isAssert = false) := by
  intro qs
  induction qs with
  | nil => intro cnt; simp [startReqs]
  | cons q rest ih =>
    intro cnt
    simp only [startReqs]
    split
    · refine ⟨?_, (ih _).2⟩
      intro th h
      simp only [List.mem_cons] at h
      rcases h with rfl | h
      · exact ⟨q, List.mem_cons_self .., rfl⟩
      · obtain ⟨q', hq', he⟩ := (ih _).1 th h
        exact ⟨q', List.mem_cons_of_mem _ hq', he⟩
    · refine ⟨?_, ?_⟩
      · intro th h
        obtain ⟨q', hq', he⟩ := (ih _).1 th h
        exact ⟨q', List.mem_cons_of_mem _ hq', he⟩
      · intro e he
        simp only [List.mem_cons] at he
        rcases he with rfl | he
        · rfl
        · exact (ih _).2 e he

theorem kinv_tick (d : Dialect) (s : Sys) (clk t : Time) (hbg : BgOk d s.env) (h : KInv d clk s) (hok : TickOk clk s t) :
    KInv d t (s.tick t).1 ∧ ∀ e ∈ (s.tick t).2, e.isAssert = false := by
  rw [tick_eq2]
  split
  · rename_i hh
    rw [h.halted] at hh
    cases hh
  · rename_i hh
    have hnone : s.halted = none := by cases hs : s.halted <;> simp_all
    obtain ⟨hclk, hnew1, hnew2⟩ := hok
    -- 1. delivery
    have hd := deliverAll_spec d s.db s.pending s.cq clk (s.cq.take s.env.cfg.completionBatchSize) s.threads
      (fun dc hdc => List.mem_of_mem_take hdc) (h.threads hnone)
    have hdrop : ∀ e ∈ s.cq.drop s.env.cfg.completionBatchSize, e ∈ s.cq := fun e he => List.mem_of_mem_drop he
    -- 2. the new threads are runnable
    have hnewR : ∀ th ∈ s.newThreads t, Runnable d s.db s.pending (s.cq.drop s.env.cfg.completionBatchSize) t th := by
      intro th hth
      have hfresh := hnew2 th.tid (List.mem_map.mpr ⟨th, hth, rfl⟩)
      have hst : Static d th := by
        rcases List.mem_append.mp hth with hb | hr
        · obtain ⟨tid, k, rfl⟩ := startBg_new _ _ _ _ _ _ _ th hb
          exact ⟨fun t' lo now hle => hbg k t' lo now hle, fun t' => kn_bg s.env k t', (fun hb => by cases hb), fun t' => dp_bg s.env k t', fun t' => qk_bg s.env k t'⟩
        · obtain ⟨q, hq, rfl⟩ := (startReqs_new _ _ _ _).1 th hr
          exact ⟨fun t' lo now _ => (h.apiQ q (List.mem_of_mem_take hq)).1 t t' lo now, fun t' => kn_req s.env q.2 t t' (h.apiQ q (List.mem_of_mem_take hq)).2, fun _ t' => rs_req s.env q.2 t t', fun t' => dp_req s.env q.2 t t', fun t' => qk_req s.env q.2 t t'⟩
      have hco : th.co = .retry ∧ True := by
        rcases List.mem_append.mp hth with hb | hr
        · obtain ⟨tid, k, rfl⟩ := startBg_new _ _ _ _ _ _ _ th hb; exact ⟨rfl, trivial⟩
        · obtain ⟨q, hq, rfl⟩ := (startReqs_new _ _ _ _).1 th hr; exact ⟨rfl, trivial⟩
      refine ⟨hst, by rw [hco.1]; exact .retry _ _, by rw [hco.1]; exact .retry, ?_, ?_, by intro _; rw [hco.1]; exact .retry, by rw [hco.1]; exact Depth.retry _⟩
      · intro e he htid; exact absurd htid (hfresh.2.1 e he)
      · intro e he htid; exact absurd htid (hfresh.2.2 e (hdrop e he))
    -- 3. candidates
    have hcf : ∀ c ∈ s.cands t, c.2 = false → TInv d s.db s.pending (s.cq.drop s.env.cfg.completionBatchSize) t c.1 := by
      intro c hc hfalse
      rcases List.mem_append.mp hc with hc | hc
      · simp only [List.mem_map] at hc
        obtain ⟨th, hth, rfl⟩ := hc
        cases hr : th.resume? t with
        | none => simp only [hr]; exact tinv_weaken (hd.1 th hth) hdrop hclk
        | some th' => simp [hr] at hfalse
      · simp only [List.mem_map] at hc
        obtain ⟨th, _, rfl⟩ := hc
        cases hfalse
    have hct : ∀ c ∈ s.cands t, c.2 = true → Runnable d s.db s.pending (s.cq.drop s.env.cfg.completionBatchSize) t c.1 := by
      intro c hc htrue
      rcases List.mem_append.mp hc with hc | hc
      · simp only [List.mem_map] at hc
        obtain ⟨th, hth, rfl⟩ := hc
        cases hr : th.resume? t with
        | none => simp [hr] at htrue
        | some th' =>
          simp only [hr]
          have := resume_runnable (hd.1 th hth) hclk hr
          exact ⟨this.static, this.np, this.ak, this.pend, fun e he => this.cq e (hdrop e he), this.rs, this.dp⟩
      · simp only [List.mem_map] at hc
        obtain ⟨th, hth, rfl⟩ := hc
        exact hnewR th hth
    have hcd : TidsDistinct ((s.cands t).map (·.1.tid)) := by
      have e1 : (s.cands t).map (·.1.tid) = s.threads.map (·.tid) ++ (s.newThreads t).map (·.tid) := by
        simp only [Sys.cands, List.map_append, List.map_map]
        congr 1
        · rw [← hd.2]
          simp only [Sys.threads1]
          apply List.map_congr_left
          intro th _
          simp only [Function.comp]
          cases hr : th.resume? t with
          | none => rfl
          | some th' => exact resume_tid th th' t hr
      rw [e1]
      simp only [TidsDistinct, List.pairwise_append]
      refine ⟨h.distinct hnone, hnew1, ?_⟩
      intro a ha b hb
      simp only [List.mem_map] at ha
      obtain ⟨th, hth, rfl⟩ := ha
      exact (hnew2 b hb).1 th hth
    obtain ⟨r1, r2, _, r4, r5, r6⟩ := runAll_spec d s.db (s.cq.drop s.env.cfg.completionBatchSize) t s.pending (s.cands t) hcd hcf hct
    refine ⟨⟨h.g, h.keys, ?_, r6, r5, fun _ => r4, ?_⟩, ?_⟩
    · intro e he tx htx
      rcases List.mem_append.mp he with he | he
      · exact h.pendK e he tx htx
      · exact (r2 e he).2 tx htx
    · intro q hq
      exact h.apiQ q (List.mem_of_mem_drop hq)
    · intro e he
      rcases List.mem_append.mp he with he | he
      · exact (startReqs_new _ _ _ _).2 e he
      · exact r1 e he

/-! ### one store batch -/

theorem answerOne_mono {d : Dialect} {lo hi hi' : Db} (hm : PromMono hi hi') {s : Subm} {c : Cpl}
    (h : AnswerOne d lo hi s c) : AnswerOne d lo hi' s c := by
  cases s <;> cases c <;> simp only [AnswerOne] at h ⊢
  case store.store tx rs =>
    obtain ⟨db, db', h1, h2, h3, h4⟩ := h
    exact ⟨db, db', h1, h2, h3, h4.trans hm⟩

/-- the thread invariant across a step that may grow the database, drop pending submissions and queue completions
    that answer the pending submission of the same name -/
theorem tinv_step_db {d : Dialect} {db db' : Db} {P P' : List (SubId × Subm)} {Q Q' : List (SubId × Cpl)} {clk : Time} {th : Thread}
    (h : TInv d db P Q clk th) (hm : PromMono db db') (hp : ∀ e ∈ P', e ∈ P)
    (hq : ∀ e ∈ Q', e ∈ Q ∨ ∃ sub, (e.1, sub) ∈ P ∧ ∀ lo, PromMono lo db → AnswerOne d lo db' sub e.2) :
    TInv d db' P' Q' clk th := by
  obtain ⟨hs, hrs, hdp, subs, k, lo, now, base, h1, h2, h3, h4, h5, h6, h7, h8, h9, h10⟩ := h
  refine ⟨hs, hrs, hdp, subs, k, lo, now, base, h1, h2, h3, h4, h5.trans hm, h6, h7,
    slotsOk_mono (fun s c hsc => answerOne_mono hm hsc) _ _ _ h8, fun e he => h9 e (hp e he), ?_⟩
  intro e he htid
  rcases hq e he with hold | ⟨sub, hsub, hans⟩
  · obtain ⟨a, b⟩ := h10 e hold htid
    exact ⟨cplOk_mono (fun s c hsc => answerOne_mono hm hsc) _ _ _ _ a, b⟩
  · obtain ⟨a, b⟩ := h9 (e.1, sub) hsub htid
    exact ⟨cplOk_of_subOk _ _ _ _ _ a (hans lo h5), b⟩

theorem execTxs_each_inv (g : SqlDefs) (R : Db → Db → Prop) (hr : ∀ db, R db db) (ht : ∀ a b c, R a b → R b c → R a c)
    (I : Db → Prop) (Pt : List Cmd → Prop)
    (htx : ∀ db db' cs rs, db.execTx g cs = .ok (db', rs) → R db db')
    (hI : ∀ db db' cs rs, I db → Pt cs → db.execTx g cs = .ok (db', rs) → I db') :
    ∀ (txs : List (List Cmd)) (db db' : Db) (rss : List (List Res)), I db → (∀ tx ∈ txs, Pt tx) → db.execTxs g txs = .ok (db', rss) →
      I db' ∧ ∀ (i : Nat) tx rs, txs[i]? = some tx → rss[i]? = some rs →
        ∃ dbi dbi', R db dbi ∧ I dbi ∧ dbi.execTx g tx = .ok (dbi', rs) ∧ R dbi' db' := by
  intro txs
  induction txs with
  | nil =>
    intro db db' rss hi _ h
    simp [Db.execTxs] at h
    refine ⟨by rw [← h.1]; exact hi, ?_⟩
    intro i tx rs h1; simp at h1
  | cons t txs ih =>
    intro db db' rss hi hp h
    simp only [Db.execTxs] at h
    split at h
    · cases h
    · cases h1 : db.execTx g t with
      | error e => simp [h1] at h
      | ok p =>
        obtain ⟨db1, rs1⟩ := p
        simp only [h1] at h
        cases h2 : db1.execTxs g txs with
        | error e => simp [h2] at h
        | ok q =>
          obtain ⟨db2, rss2⟩ := q
          simp only [h2] at h
          injection h with h; injection h with hd hres
          subst hd; subst hres
          have hi1 := hI db db1 t rs1 hi (hp t (List.mem_cons_self ..)) h1
          obtain ⟨ihI, ihE⟩ := ih db1 db2 rss2 hi1 (fun x hx => hp x (List.mem_cons_of_mem _ hx)) h2
          refine ⟨ihI, ?_⟩
          intro i tx rs htx' hrs
          cases i with
          | zero =>
            simp only [List.getElem?_cons_zero, Option.some.injEq] at htx' hrs
            subst htx'; subst hrs
            exact ⟨db, db1, hr _, hi, h1, execTxs_lift g R hr ht htx txs db1 db2 rss2 h2⟩
          | succ i =>
            simp only [List.getElem?_cons_succ] at htx' hrs
            obtain ⟨dbi, dbi', ha, hb, hc, hd⟩ := ihE i tx rs htx' hrs
            exact ⟨dbi, dbi', ht _ _ _ (htx _ _ _ _ h1) ha, hb, hc, hd⟩

theorem pendingTx_mem (s : Sys) (id : SubId) (tx : List Cmd) (h : C06.pendingTx s id = some tx) : (id, Subm.store tx) ∈ s.pending := by
  unfold C06.pendingTx at h
  split at h
  · rename_i sid tx' hfp
    injection h with h; subst h
    have hm := List.mem_of_find?_eq_some hfp
    have he := List.find?_some hfp
    simp only [beq_iff_eq] at he
    rw [← he]; exact hm
  · cases h

theorem promMono_execTx (d : Dialect) (db db' : Db) (cs : List Cmd) (rs : List Res) (h : db.execTx (defs d) cs = .ok (db', rs)) :
    PromMono db db' :=
  execTx_lift (defs d) PromMono PromMono.refl (fun _ _ _ => PromMono.trans) (fun db db' c r hx => promMono_exec d db db' c r hx) cs db db' rs h

theorem completions_spec (d : Dialect) (s : Sys) (hg : s.g = defs d) (hk : KeysX s.db)
    (hp : ∀ e ∈ s.pending, ∀ tx, e.2 = .store tx → KN tx) (items : List (SubId × FailMode)) :
    KeysX (C06.batchOf s items).1 ∧ PromMono s.db (C06.batchOf s items).1 ∧
    ∀ e ∈ C06.completionsOf s items, (∃ tx, (e.1, Subm.store tx) ∈ s.pending) ∧
      (e.2 = .err ∨ ∃ rs tx, e.2 = .store rs ∧ (e.1, Subm.store tx) ∈ s.pending ∧
        ∃ dbi dbi', PromMono s.db dbi ∧ KeysX dbi ∧ dbi.execTx (defs d) tx = .ok (dbi', rs) ∧ PromMono dbi' (C06.batchOf s items).1) := by
  have hallsome : ∀ it ∈ C06.processedOf s items, (C06.pendingTx s it.1).isSome = true := by
    intro it hit
    have := (List.mem_filter.mp hit).1
    exact (List.mem_filter.mp this).2
  have hvalid : ∀ it ∈ C06.validOf s items, ∃ tx, (it.1, Subm.store tx) ∈ s.pending := by
    intro it hit
    have h1 := (List.mem_filter.mp hit).2
    cases hf : C06.pendingTx s it.1 with
    | none => simp [hf] at h1
    | some tx => exact ⟨tx, pendingTx_mem s it.1 tx hf⟩
  have htxK : ∀ tx ∈ C06.txsOf s items, KN tx := by
    intro tx htx
    unfold C06.txsOf at htx
    simp only [List.mem_filterMap] at htx
    obtain ⟨it, _, hf⟩ := htx
    exact hp _ (pendingTx_mem s it.1 tx hf) tx rfl
  -- the batch
  have hbatch : ∀ db2 rss2, s.db.execTxs (defs d) (C06.txsOf s items) = .ok (db2, rss2) →
      KeysX db2 ∧ ∀ (i : Nat) tx rs, (C06.txsOf s items)[i]? = some tx → rss2[i]? = some rs →
        ∃ dbi dbi', PromMono s.db dbi ∧ KeysX dbi ∧ dbi.execTx (defs d) tx = .ok (dbi', rs) ∧ PromMono dbi' db2 :=
    fun db2 rss2 hx => execTxs_each_inv (defs d) PromMono PromMono.refl (fun _ _ _ => PromMono.trans) KeysX KN
      (promMono_execTx d) (fun db db' cs rs hi hc hx => keysX_execTx d cs db db' rs hi hc.1 hx) _ _ _ _ hk htxK hx
  unfold C06.completionsOf
  cases hb : C06.batchOf s items with
  | mk db' r =>
    -- what the batch did to the database
    have hdb : KeysX db' ∧ PromMono s.db db' ∧ ∀ rss, r = .ok rss → (C06.txsOf s items).isEmpty = false →
        s.db.execTxs (defs d) (C06.txsOf s items) = .ok (db', rss) := by
      unfold C06.batchOf at hb
      split at hb
      · injection hb with h1 h2; subst h1; subst h2
        exact ⟨hk, PromMono.refl _, by intro rss _ hne; simp_all⟩
      · unfold Db.execBatch at hb
        rw [hg] at hb
        cases hx2 : s.db.execTxs (defs d) (C06.txsOf s items) with
        | error e =>
          simp only [hx2] at hb
          injection hb with h1 h2; subst h1; subst h2
          exact ⟨hk, PromMono.refl _, by intro rss h; cases h⟩
        | ok q =>
          obtain ⟨db2, rss2⟩ := q
          simp only [hx2] at hb
          injection hb with h1 h2; subst h1; subst h2
          refine ⟨(hbatch db2 rss2 hx2).1, ?_, ?_⟩
          · exact execTxs_lift (defs d) PromMono PromMono.refl (fun _ _ _ => PromMono.trans) (promMono_execTx d) _ _ _ _ hx2
          · intro rss h _; injection h with h; subst h; rfl
    refine ⟨hdb.1, hdb.2.1, ?_⟩
    cases r with
    | error e =>
      intro e' he'
      simp only [List.mem_map] at he'
      obtain ⟨it, hit, rfl⟩ := he'
      exact ⟨hvalid it hit, .inl rfl⟩
    | ok rss =>
      intro e' he'
      simp only [List.mem_map] at he'
      obtain ⟨it, hit, rfl⟩ := he'
      split
      · exact ⟨hvalid it hit, .inl rfl⟩
      · split
        · rename_i x hx
          have hxid : x.1 = it.1 := by simpa using List.find?_some hx
          have hxm := List.mem_of_find?_eq_some hx
          unfold C06.okResOf at hxm
          simp only [List.mem_map] at hxm
          obtain ⟨⟨it', rs'⟩, hz, hx'⟩ := hxm
          simp only at hx'
          refine ⟨by rw [hxid]; exact hvalid it hit, ?_⟩
          rw [← hx']
          simp only
          split
          · exact .inl rfl
          · right
            obtain ⟨i, hi⟩ := List.getElem?_of_mem hz
            rw [List.getElem?_zip_eq_some] at hi
            obtain ⟨hpi, hrss⟩ := hi
            have htxi : (C06.txsOf s items)[i]? = C06.pendingTx s it'.1 := by
              unfold C06.txsOf
              rw [C06.filterMap_all_some _ (C06.processedOf s items) hallsome i, hpi]; rfl
            have hsome := hallsome it' (List.mem_of_getElem? hpi)
            cases hf : C06.pendingTx s it'.1 with
            | none => simp [hf] at hsome
            | some tx =>
              rw [hf] at htxi
              have hne : (C06.txsOf s items).isEmpty = false := by
                cases hx3 : C06.txsOf s items with
                | nil => simp [hx3] at htxi
                | cons _ _ => rfl
              have hx2 := hdb.2.2 rss rfl hne
              obtain ⟨dbi, dbi', a, b, c, e⟩ := (hbatch db' rss hx2).2 i tx rs' htxi hrss
              exact ⟨rs', tx, rfl, pendingTx_mem s it'.1 tx hf, dbi, dbi', a, b, c, e⟩
        · exact ⟨hvalid it hit, .inl rfl⟩

theorem kinv_execStore (d : Dialect) (s : Sys) (clk : Time) (items : List (SubId × FailMode)) (h : KInv d clk s) :
    KInv d clk (s.execStore items).1 := by
  rw [C06.execStore_eq]
  obtain ⟨c1, c2, c3⟩ := completions_spec d s h.g h.keys h.pendK items
  refine ⟨h.g, c1, ?_, h.halted, ?_, h.distinct, h.apiQ⟩
  · intro e he tx htx
    exact h.pendK e (List.mem_filter.mp he).1 tx htx
  · intro hn th hth
    refine tinv_step_db (h.threads hn th hth) c2 (fun e he => (List.mem_filter.mp he).1) ?_
    intro e he
    rcases List.mem_append.mp he with he | he
    · exact .inl he
    · right
      obtain ⟨⟨tx0, hmem0⟩, hc⟩ := c3 e he
      rcases hc with herr | ⟨rs, tx, hst, hmem, dbi, dbi', a, b, c, e'⟩
      · exact ⟨_, hmem0, fun lo _ => by rw [herr]; exact answerOne_err d lo _ _⟩
      · refine ⟨_, hmem, fun lo hlo => ?_⟩
        rw [hst]
        exact ⟨dbi, dbi', hlo.trans a, b.keys, c, e'⟩

/-! ### router / sender completions -/

def KindOk : Subm → Cpl → Prop
  | _, .err => True
  | .router _, .router _ _ => True
  | .sender _, .sender _ => True
  | _, _ => False

theorem answerOne_of_kindOk (d : Dialect) (lo hi : Db) {s : Subm} {c : Cpl} (h : KindOk s c) : AnswerOne d lo hi s c := by
  cases s <;> cases c <;> simp_all [KindOk, AnswerOne]

theorem kinv_complete (d : Dialect) (s : Sys) (clk : Time) (id : SubId) (c : Cpl) (h : KInv d clk s)
    (hok : ∀ e ∈ s.pending, e.1 = id → KindOk e.2 c) : KInv d clk (s.step (.complete id c)).1 := by
  simp only [Sys.step]
  split
  · exact h
  · rename_i x hns hfind
    have hm := List.mem_of_find?_eq_some hfind
    have hid : x.1 = id := by simpa using List.find?_some hfind
    refine ⟨h.g, h.keys, fun e he tx htx => h.pendK e (List.mem_filter.mp he).1 tx htx, h.halted, ?_, h.distinct, h.apiQ⟩
    intro hn th hth
    refine tinv_step_db (h.threads hn th hth) (PromMono.refl _) (fun e he => (List.mem_filter.mp he).1) ?_
    intro e he
    rcases List.mem_append.mp he with he | he
    · exact .inl he
    · right
      simp only [List.mem_singleton] at he
      subst he
      refine ⟨x.2, by rw [← hid]; exact hm, fun lo _ => answerOne_of_kindOk d lo _ (hok x hm hid)⟩
  · exact h

/-! ### every run -/

theorem step_env (s : Sys) (c : Choice) : (s.step c).1.env = s.env := by
  cases c <;> simp only [Sys.step]
  · split <;> (try split) <;> rfl
  · unfold Sys.tick; split <;> rfl
  · unfold Sys.execStore; rfl
  · split <;> rfl

/-- what a run must respect for the model's naming of submissions to be faithful and for the front ends' validation
    to have happened: submitted requests are ones whose coroutine reaches no assertion (`ReqOk`, discharged for every
    validated request in Properties/C13.lean); the clock does not step back; thread ids started by a tick are fresh;
    a router / sender completion is one of that subsystem (the harness feeds what the real subsystem answered) -/
def StepOk (d : Dialect) (clk : Time) (s : Sys) : Choice → Prop
  | .submit _ r => ReqOk d s.env r ∧ r.StateOk
  | .tick t => TickOk clk s t
  | .complete id c => ∀ e ∈ s.pending, e.1 = id → KindOk e.2 c
  | _ => True

def clkAfter (clk : Time) : Choice → Time
  | .tick t => t
  | _ => clk

def RunOk (d : Dialect) : Time → Sys → List Choice → Prop
  | _, _, [] => True
  | clk, s, c :: cs => StepOk d clk s c ∧ RunOk d (clkAfter clk c) (s.step c).1 cs

/-- everything the system emits along a run -/
def Sys.runEvents : Sys → List Choice → List Event
  | _, [] => []
  | s, c :: cs => (s.step c).2 ++ Sys.runEvents (s.step c).1 cs

theorem kinv_step (d : Dialect) (s : Sys) (clk : Time) (c : Choice) (hbg : BgOk d s.env) (h : KInv d clk s) (hok : StepOk d clk s c) :
    KInv d (clkAfter clk c) (s.step c).1 ∧ ∀ e ∈ (s.step c).2, e.isAssert = false := by
  cases c with
  | submit tid r =>
    simp only [Sys.step, clkAfter]
    split
    · exact ⟨h, by intro e he; simp only [List.mem_singleton] at he; subst he; rfl⟩
    · split
      · refine ⟨⟨h.g, h.keys, h.pendK, h.halted, h.threads, h.distinct, ?_⟩, by intro e he; cases he⟩
        intro q hq
        simp only [List.mem_append, List.mem_singleton] at hq
        rcases hq with hq | rfl
        · exact h.apiQ q hq
        · exact hok
      · exact ⟨h, by intro e he; simp only [List.mem_singleton] at he; subst he; rfl⟩
  | tick t => exact kinv_tick d s clk t hbg h hok
  | execStore items => exact ⟨kinv_execStore d s clk items h, by intro e he; cases he⟩
  | complete id cp =>
    refine ⟨kinv_complete d s clk id cp h hok, ?_⟩
    intro e he
    simp only [Sys.step] at he
    split at he <;> cases he
  | shutdown => exact ⟨⟨h.g, h.keys, h.pendK, h.halted, h.threads, h.distinct, h.apiQ⟩, by intro e he; cases he⟩
  | crash =>
    refine ⟨⟨h.g, h.keys, ?_, rfl, ?_, ?_, ?_⟩, by intro e he; cases he⟩
    · intro e he; cases he
    · intro _ th hth; cases hth
    · intro _; exact List.Pairwise.nil
    · intro q hq; cases hq

/-- **no run ever emits an assertion event.** -/
theorem run_no_assert (d : Dialect) : ∀ (cs : List Choice) (s : Sys) (clk : Time), BgOk d s.env → KInv d clk s → RunOk d clk s cs →
    (∀ e ∈ s.runEvents cs, e.isAssert = false) ∧ ∃ clk', KInv d clk' (s.run cs) := by
  intro cs
  induction cs with
  | nil => intro s clk _ h _; exact ⟨(by intro e he; cases he), clk, h⟩
  | cons c cs ih =>
    intro s clk hbg h hok
    obtain ⟨h1, h2⟩ := kinv_step d s clk c hbg h hok.1
    obtain ⟨i1, i2⟩ := ih (s.step c).1 (clkAfter clk c) (by rw [step_env]; exact hbg) h1 hok.2
    refine ⟨?_, by simpa [Sys.run] using i2⟩
    intro e he
    simp only [Sys.runEvents, List.mem_append] at he
    rcases he with he | he
    · exact h2 e he
    · exact i1 e he

/-- a store batch of the kernel never trips an assertion of the store (which, in the Go code, would panic the store's
    worker goroutine): every pending transaction has the shape `NA` -/
theorem execStore_no_assert (d : Dialect) (s : Sys) (clk : Time) (items : List (SubId × FailMode)) (h : KInv d clk s) (m : String) :
    (s.execStore items).2 ≠ some (.assertion m) := by
  rw [C06.execStore_eq]
  simp only
  have htx : ∀ tx ∈ C06.txsOf s items, NA tx := by
    intro tx htx
    unfold C06.txsOf at htx
    simp only [List.mem_filterMap] at htx
    obtain ⟨it, _, hf⟩ := htx
    exact (h.pendK _ (pendingTx_mem s it.1 tx hf) tx rfl).2
  have hb : ∀ e, (C06.batchOf s items).2 = .error e → e ≠ .assertion m := by
    intro e he
    unfold C06.batchOf at he
    split at he
    · cases he
    · unfold Db.execBatch at he
      rw [h.g] at he
      cases hx : s.db.execTxs (defs d) (C06.txsOf s items) with
      | ok p => simp [hx] at he
      | error e' =>
        simp only [hx] at he
        injection he with he
        intro hh
        exact execTxs_no_assert (defs d) _ s.db htx m (by rw [hx, he, hh])
  cases hr : (C06.batchOf s items).2 with
  | ok rss => simp
  | error e =>
    simp only
    intro hh
    injection hh with hh
    exact hb e hr hh

/-- the store errors reported along a run -/
def Sys.runErrs : Sys → List Choice → List StoreErr
  | _, [] => []
  | s, c :: cs =>
    (match c with
      | .execStore items => (match (s.execStore items).2 with | some e => [e] | none => [])
      | _ => []) ++ Sys.runErrs (s.step c).1 cs

theorem run_store_no_assert (d : Dialect) : ∀ (cs : List Choice) (s : Sys) (clk : Time), BgOk d s.env → KInv d clk s → RunOk d clk s cs →
    ∀ e ∈ s.runErrs cs, ∀ m, e ≠ .assertion m := by
  intro cs
  induction cs with
  | nil => intro s clk _ _ _ e he; cases he
  | cons c cs ih =>
    intro s clk hbg h hok e he m
    obtain ⟨h1, _⟩ := kinv_step d s clk c hbg h hok.1
    simp only [Sys.runErrs, List.mem_append] at he
    rcases he with he | he
    · cases c with
      | execStore items =>
        simp only at he
        cases hx : (s.execStore items).2 with
        | none => simp [hx] at he
        | some e' =>
          simp only [hx, List.mem_singleton] at he
          subst he
          intro hh
          exact execStore_no_assert d s clk items h m (by rw [hx, hh])
      | _ => simp at he
    · exact ih (s.step c).1 (clkAfter clk c) (by rw [step_env]; exact hbg) h1 hok.2 e he m

/-- **no run ever halts**: neither on an assertion nor by exhausting the per-thread fuel of the model -/
theorem run_never_halts (d : Dialect) (cs : List Choice) (s : Sys) (clk : Time) (hbg : BgOk d s.env) (h : KInv d clk s)
    (hok : RunOk d clk s cs) : (s.run cs).halted = none := by
  obtain ⟨_, clk', h'⟩ := run_no_assert d cs s clk hbg h hok
  exact h'.halted

/-- a freshly booted system over a database with unique keys -/
theorem kinv_boot (d : Dialect) (env : Env) (db : Db) (clk : Time) (hk : KeysX db) : KInv d clk (Sys.boot env d (defs d) db) :=
  ⟨rfl, hk, (by intro e he; cases he), rfl, (by intro _ th hth; cases hth), (by intro _; exact List.Pairwise.nil), (by intro q hq; cases hq)⟩

end Resonate
