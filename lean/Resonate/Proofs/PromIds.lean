/-
  Proofs/PromIds.lean — promise ids are unique, under arbitrary store commands.
-/
import Resonate.Model.SqlSpec
import Resonate.Proofs.Frame
import Resonate.Proofs.Lift
namespace Resonate
open SqlSpec

def PromIds (db : Db) : Prop := List.Pairwise (fun a b : PromiseRow => a.id ≠ b.id) db.promises

theorem promIds_createPromise (d : Dialect) (db : Db) (c : CreatePromiseCmd) (h : PromIds db) :
    PromIds (db.createPromise (defs d) c).1 := by
  unfold Db.createPromise
  split
  · exact h
  · rename_i hany
    simp only [PromIds, List.pairwise_append]
    refine ⟨h, List.pairwise_singleton _ _, ?_⟩
    intro a ha b hb
    simp only [List.mem_singleton] at hb
    subst hb
    have : db.promises.any (fun r => r.id == c.id) = false := by simpa using hany
    simp only [List.any_eq_false, beq_iff_eq] at this
    simpa [defs, promiseInsert_row] using this a ha

theorem promIds_update (l : List PromiseRow) (p : PromiseRow → Bool) (f : PromiseRow → PromiseRow)
    (hf : ∀ r, (f r).id = r.id) (h : List.Pairwise (fun a b : PromiseRow => a.id ≠ b.id) l) :
    List.Pairwise (fun a b : PromiseRow => a.id ≠ b.id) (updateWhere p f l) := by
  unfold updateWhere
  rw [List.pairwise_map]
  refine h.imp ?_
  intro a b hab
  have ha : (if p a = true then f a else a).id = a.id := by split <;> simp [hf]
  have hb : (if p b = true then f b else b).id = b.id := by split <;> simp [hf]
  rw [ha, hb]; exact hab

theorem promIds_exec (d : Dialect) (db db' : Db) (cmd : Cmd) (r : Res) (hi : PromIds db)
    (h : db.exec (defs d) cmd = .ok (db', r)) : PromIds db' := by
  have fr := exec_frame _ _ _ _ _ h
  by_cases hw : cmd.wP = false
  · unfold PromIds; rw [(fr.1 hw).1]; exact hi
  · cases cmd with
    | createPromise c =>
      simp only [Db.exec] at h
      injection h with h; injection h with h _; subst h
      exact promIds_createPromise d db c hi
    | updatePromise c =>
      simp only [Db.exec] at h
      split at h
      · cases h
      · injection h with h; injection h with h _; subst h
        exact promIds_update _ _ _ (by intro r; rfl) hi
    | createPromiseAndTask c =>
      simp only [Db.exec] at h
      have h1 := promIds_createPromise d db c.promiseCommand hi
      split at h
      · injection h with h; injection h with h _; subst h; exact h1
      · split at h
        · rename_i db2 m hct
          injection h with h; injection h with h _; subst h
          unfold PromIds; rw [(createTask_frame _ _ _ _ _ hct).1]; exact h1
        · cases h
    | _ => simp [Cmd.wP] at hw

theorem promIds_execBatches (d : Dialect) (bs : List (List (List Cmd))) (db : Db) (h : PromIds db) :
    PromIds (db.execBatches (defs d) bs) :=
  execBatches_inv (defs d) PromIds (fun db db' c r hi hx => promIds_exec d db db' c r hi hx) bs db h

/-- with unique ids, a row is determined by its id -/
theorem pairwise_unique : ∀ (l : List PromiseRow), List.Pairwise (fun a b : PromiseRow => a.id ≠ b.id) l →
    ∀ a b, a ∈ l → b ∈ l → a.id = b.id → a = b := by
  intro l
  induction l with
  | nil => intro _ a b ha; cases ha
  | cons x l ih =>
    intro h a b ha hb hid
    rw [List.pairwise_cons] at h
    simp only [List.mem_cons] at ha hb
    rcases ha with rfl | ha <;> rcases hb with rfl | hb
    · rfl
    · exact absurd hid (h.1 b hb)
    · exact absurd hid.symm (h.1 a ha)
    · exact ih h.2 a b ha hb hid

/-- with unique ids, a row is determined by its id -/
theorem promIds_unique {db : Db} (h : PromIds db) {a b : PromiseRow} (ha : a ∈ db.promises) (hb : b ∈ db.promises)
    (hid : a.id = b.id) : a = b := pairwise_unique _ h a b ha hb hid

end Resonate
