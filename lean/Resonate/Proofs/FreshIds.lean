/-
  Proofs/FreshIds.lean — the naming hypothesis of the kernel theorems (`TickOk`: a thread id started by a tick is not in
  use) follows from two plain conditions on a run: every submitted request carries an id that was not submitted before
  and is not of the form `<BackgroundName>:<n>`, and the signal timeout is positive (so that a background coroutine is
  never started twice at the same clock).  Background thread ids are `<Name>:<clock>`; the registry remembers per kind
  the clock of its last start, and a new start needs `clock − last ≥ signalTimeout > 0`.
-/
import Resonate.Proofs.Kernel
import Std.Data.String.ToInt
namespace Resonate
open Coro

def bgTid (k : BgKind) (t : Time) : String := bgName k ++ ":" ++ toString t

/-- not of the form `<BackgroundName>:…` -/
def NotBg (tid : String) : Prop := ∀ k x, tid ≠ bgName k ++ ":" ++ x

theorem bgName_sep (k k' : BgKind) (x y : String) (h : bgName k ++ ":" ++ x = bgName k' ++ ":" ++ y) : k = k' ∧ x = y := by
  have := congrArg String.toList h
  simp only [String.toList_append] at this
  cases k <;> cases k' <;> simp [bgName] at this <;> first | (refine ⟨rfl, String.toList_injective ?_⟩; simpa using this) | skip

theorem bgTid_inj {k k' : BgKind} {t t' : Time} (h : bgTid k t = bgTid k' t') : k = k' ∧ t = t' := by
  obtain ⟨h1, h2⟩ := bgName_sep k k' _ _ h
  exact ⟨h1, Int.repr_injective h2⟩

/-- background names start with `T`, `S` or `E`: an id starting with another character is not background-shaped -/
theorem notBg_of_first (tid : String) (c : Char) (cs : List Char) (h : tid.toList = c :: cs) (h1 : c ≠ 'T') (h2 : c ≠ 'S') (h3 : c ≠ 'E') :
    NotBg tid := by
  intro k x he
  have := congrArg String.toList he
  rw [h] at this
  simp only [String.toList_append] at this
  cases k <;> simp [bgName] at this <;> simp_all

/-- where an id in use comes from: a submitted request (no longer queued), or a background start not later than the
    registry's record for that kind -/
def TidOk (used : List String) (apiQ : List (String × Req)) (bg : List BgState) (tid : String) : Prop :=
  (tid ∈ used ∧ NotBg tid ∧ ∀ q ∈ apiQ, q.1 ≠ tid) ∨ (∃ b ∈ bg, ∃ t', tid = bgTid b.kind t' ∧ t' ≤ b.last)

structure FInv (used : List String) (s : Sys) : Prop where
  apiUsed : ∀ q ∈ s.apiQ, q.1 ∈ used ∧ NotBg q.1
  apiNodup : (s.apiQ.map (·.1)).Pairwise (· ≠ ·)
  threads : ∀ th ∈ s.threads, TidOk used s.apiQ s.bg th.tid
  pending : ∀ e ∈ s.pending, TidOk used s.apiQ s.bg e.1.tid
  cq : ∀ e ∈ s.cq, TidOk used s.apiQ s.bg e.1.tid
  kinds : (s.bg.map (·.kind)).Pairwise (· ≠ ·)

/-! ### ids never change while a thread runs, is delivered to, or resumed -/

theorem run_disp_tid (t : Time) : ∀ (fuel : Nat) (th : Thread), ∀ e ∈ (th.run t fuel).2.2.1, e.1.tid = th.tid := by
  intro fuel
  induction fuel with
  | zero => intro th e he; simp [Thread.run] at he
  | succ n ih =>
    intro th e he
    unfold Thread.run at he
    split at he
    · split at he <;> simp at he
    · simp at he
    · have := ih _ e he; exact this
    · split at he
      · have := ih _ e he; exact this
      · simp only at he
        rw [disp_eq th.tid _ th.nextSeq] at he
        exact (dispOf_spec th.tid _ th.nextSeq e he).1

theorem runAll_tids (t : Time) : ∀ (cands : List (Thread × Bool)),
    (∀ e ∈ (runAll t cands).2.2.1, ∃ c ∈ cands, e.1.tid = c.1.tid) ∧ (∀ x ∈ (runAll t cands).1, ∃ c ∈ cands, x.tid = c.1.tid) := by
  intro cands
  induction cands with
  | nil => simp [runAll]
  | cons c rest ih =>
    obtain ⟨th, b⟩ := c
    cases b with
    | false =>
      simp only [runAll]
      refine ⟨?_, ?_⟩
      · intro e he
        obtain ⟨c, hc, h⟩ := ih.1 e he
        exact ⟨c, List.mem_cons_of_mem _ hc, h⟩
      · intro x hx
        simp only [List.mem_cons] at hx
        rcases hx with rfl | hx
        · exact ⟨(x, false), List.mem_cons_self .., rfl⟩
        · obtain ⟨c, hc, h⟩ := ih.2 x hx
          exact ⟨c, List.mem_cons_of_mem _ hc, h⟩
    | true =>
      simp only [runAll]
      refine ⟨?_, ?_⟩
      · intro e he
        rcases List.mem_append.mp he with he | he
        · exact ⟨(th, true), List.mem_cons_self .., run_disp_tid t _ th e he⟩
        · obtain ⟨c, hc, h⟩ := ih.1 e he
          exact ⟨c, List.mem_cons_of_mem _ hc, h⟩
      · intro x hx
        rcases List.mem_append.mp hx with hx | hx
        · refine ⟨(th, true), List.mem_cons_self .., ?_⟩
          cases hr : (th.run t fuelPerThread).1 with
          | none => simp [hr] at hx
          | some y =>
            simp only [hr, List.mem_singleton] at hx
            rw [hx]; exact run_tid t _ _ _ hr
        · obtain ⟨c, hc, h⟩ := ih.2 x hx
          exact ⟨c, List.mem_cons_of_mem _ hc, h⟩

theorem deliverAll_tids : ∀ (dcs : List (SubId × Cpl)) (ths : List Thread), (deliverAll ths dcs).map (·.tid) = ths.map (·.tid) := by
  intro dcs
  induction dcs with
  | nil => intro ths; rfl
  | cons dc rest ih =>
    intro ths
    simp only [deliverAll]
    rw [ih, List.map_map]
    apply List.map_congr_left
    intro th _
    simp only [Function.comp]
    split <;> rfl

/-! ### the background registry -/

theorem startBg_registry (env : Env) (en dr : Bool) (live : List Thread) (t : Time) (h0 : 0 ≤ env.cfg.signalTimeout) :
    ∀ (bs : List BgState) (cnt : Nat),
      ((startBg env en dr live t bs cnt).1.map (·.kind) = bs.map (·.kind)) ∧
      (∀ b ∈ bs, ∃ b' ∈ (startBg env en dr live t bs cnt).1, b'.kind = b.kind ∧ b.last ≤ b'.last) ∧
      (∀ th ∈ (startBg env en dr live t bs cnt).2.1, ∃ b ∈ bs, th.tid = bgTid b.kind t ∧ env.cfg.signalTimeout ≤ t - b.last ∧
          ∃ b' ∈ (startBg env en dr live t bs cnt).1, b'.kind = b.kind ∧ b'.last = t) := by
  intro bs
  induction bs with
  | nil => intro cnt; simp [startBg]
  | cons b rest ih =>
    intro cnt
    simp only [startBg]
    split
    · rename_i hcond
      have hdue : env.cfg.signalTimeout ≤ t - b.last := by
        simp only [Bool.and_eq_true, decide_eq_true_eq] at hcond
        exact hcond.1.2
      split
      · obtain ⟨i1, i2, i3⟩ := ih (cnt + 1)
        refine ⟨by simp [i1], ?_, ?_⟩
        · intro x hx
          simp only [List.mem_cons] at hx
          rcases hx with rfl | hx
          · exact ⟨_, List.mem_cons_self .., rfl, by simp only; omega⟩
          · obtain ⟨b', hb', h⟩ := i2 x hx
            exact ⟨b', List.mem_cons_of_mem _ hb', h⟩
        · intro th hth
          simp only [List.mem_cons] at hth
          rcases hth with rfl | hth
          · exact ⟨b, List.mem_cons_self .., rfl, hdue, _, List.mem_cons_self .., rfl, rfl⟩
          · obtain ⟨x, hx, h1, h2, b', hb', h3⟩ := i3 th hth
            exact ⟨x, List.mem_cons_of_mem _ hx, h1, h2, b', List.mem_cons_of_mem _ hb', h3⟩
      · obtain ⟨i1, i2, i3⟩ := ih cnt
        refine ⟨by simp [i1], ?_, ?_⟩
        · intro x hx
          simp only [List.mem_cons] at hx
          rcases hx with rfl | hx
          · exact ⟨_, List.mem_cons_self .., rfl, by simp only; omega⟩
          · obtain ⟨b', hb', h⟩ := i2 x hx
            exact ⟨b', List.mem_cons_of_mem _ hb', h⟩
        · intro th hth
          obtain ⟨x, hx, h1, h2, b', hb', h3⟩ := i3 th hth
          exact ⟨x, List.mem_cons_of_mem _ hx, h1, h2, b', List.mem_cons_of_mem _ hb', h3⟩
    · obtain ⟨i1, i2, i3⟩ := ih cnt
      refine ⟨by simp [i1], ?_, ?_⟩
      · intro x hx
        simp only [List.mem_cons] at hx
        rcases hx with rfl | hx
        · exact ⟨_, List.mem_cons_self .., rfl, Int.le_refl _⟩
        · obtain ⟨b', hb', h⟩ := i2 x hx
          exact ⟨b', List.mem_cons_of_mem _ hb', h⟩
      · intro th hth
        obtain ⟨x, hx, h1, h2, b', hb', h3⟩ := i3 th hth
        exact ⟨x, List.mem_cons_of_mem _ hx, h1, h2, b', List.mem_cons_of_mem _ hb', h3⟩

theorem rotate1_mem {α} (l : List α) (x : α) : x ∈ rotate1 l ↔ x ∈ l := by
  cases l with
  | nil => simp [rotate1]
  | cons a as => simp [rotate1, or_comm]

theorem rotate1_pairwise {α} {R : α → α → Prop} (hs : ∀ a b, R a b → R b a) (l : List α) (h : l.Pairwise R) : (rotate1 l).Pairwise R := by
  cases l with
  | nil => exact h
  | cons a as =>
    simp only [rotate1, List.pairwise_append, List.pairwise_cons] at h ⊢
    exact ⟨h.2, by simp, fun x hx y hy => by simp at hy; subst hy; exact hs _ _ (h.1 x hx)⟩

theorem rotate1_map {α β} (f : α → β) (l : List α) : (rotate1 l).map f = rotate1 (l.map f) := by
  cases l <;> simp [rotate1]

/-- same kind, same entry -/
theorem bg_unique {bg : List BgState} (h : (bg.map (·.kind)).Pairwise (· ≠ ·)) {a b : BgState} (ha : a ∈ bg) (hb : b ∈ bg)
    (hk : a.kind = b.kind) : a = b := by
  induction bg with
  | nil => cases ha
  | cons x xs ih =>
    simp only [List.map_cons, List.pairwise_cons] at h
    simp only [List.mem_cons] at ha hb
    rcases ha with rfl | ha <;> rcases hb with rfl | hb
    · rfl
    · exact absurd hk (h.1 b.kind (List.mem_map.mpr ⟨b, hb, rfl⟩))
    · exact absurd hk.symm (h.1 a.kind (List.mem_map.mpr ⟨a, ha, rfl⟩))
    · exact ih h.2 ha hb

/-! ### the invariant along a run -/

theorem tidOk_mono {used used' : List String} {apiQ apiQ' : List (String × Req)} {bg bg' : List BgState} {tid : String}
    (h : TidOk used apiQ bg tid) (hu : ∀ x ∈ used, x ∈ used') (hq : ∀ q ∈ apiQ', q ∈ apiQ ∨ (q.1 ∉ used))
    (hb : ∀ b ∈ bg, ∃ b' ∈ bg', b'.kind = b.kind ∧ b.last ≤ b'.last) : TidOk used' apiQ' bg' tid := by
  rcases h with ⟨h1, h2, h3⟩ | ⟨b, hb1, t', h1, h2⟩
  · left
    refine ⟨hu _ h1, h2, ?_⟩
    intro q hq'
    rcases hq q hq' with hin | hnot
    · exact h3 q hin
    · exact fun he => hnot (he ▸ h1)
  · right
    obtain ⟨b', hb', hk, hl⟩ := hb b hb1
    exact ⟨b', hb', t', by rw [hk]; exact h1, Int.le_trans h2 hl⟩

theorem take_drop_distinct {α β} (f : α → β) (l : List α) (n : Nat) (h : (l.map f).Pairwise (· ≠ ·)) :
    ∀ a ∈ l.take n, ∀ b ∈ l.drop n, f a ≠ f b := by
  intro a ha b hb
  have : l.map f = (l.take n).map f ++ (l.drop n).map f := by rw [← List.map_append, List.take_append_drop]
  rw [this, List.pairwise_append] at h
  exact h.2.2 (f a) (List.mem_map.mpr ⟨a, ha, rfl⟩) (f b) (List.mem_map.mpr ⟨b, hb, rfl⟩)

/-- the registry after a tick: same kinds, records not earlier -/
theorem tick_registry (s : Sys) (t : Time) (h0 : 0 ≤ s.env.cfg.signalTimeout) :
    let bg'' := (if bgRefused s.env s.bgEnabled (s.apiDone && s.apiQ.isEmpty) s.threads1 t s.bg 0 then rotate1 (s.sb t).1 else (s.sb t).1)
    (∀ b ∈ s.bg, ∃ b' ∈ bg'', b'.kind = b.kind ∧ b.last ≤ b'.last) ∧ (∀ b' ∈ (s.sb t).1, b' ∈ bg'') ∧
    ((s.bg.map (·.kind)).Pairwise (· ≠ ·) → (bg''.map (·.kind)).Pairwise (· ≠ ·)) := by
  intro bg''
  obtain ⟨r1, r2, _⟩ := startBg_registry s.env s.bgEnabled (s.apiDone && s.apiQ.isEmpty) s.threads1 t h0 s.bg 0
  have hmem : ∀ b' ∈ (s.sb t).1, b' ∈ bg'' := by
    intro b' hb'
    show b' ∈ (if _ then _ else _)
    split
    · exact (rotate1_mem _ _).mpr hb'
    · exact hb'
  refine ⟨?_, hmem, ?_⟩
  · intro b hb
    obtain ⟨b', hb', h⟩ := r2 b hb
    exact ⟨b', hmem b' hb', h⟩
  · intro hk
    show ((if _ then _ else _ : List BgState).map (·.kind)).Pairwise (· ≠ ·)
    split
    · rw [rotate1_map]
      apply rotate1_pairwise (fun a b h => Ne.symm h)
      show ((s.sb t).1.map (·.kind)).Pairwise (· ≠ ·)
      unfold Sys.sb; rw [r1]; exact hk
    · show ((s.sb t).1.map (·.kind)).Pairwise (· ≠ ·)
      unfold Sys.sb; rw [r1]; exact hk

/-- every candidate of a tick carries an id that is accounted for in the state after the tick -/
theorem cand_tidOk (used : List String) (s : Sys) (t : Time) (h : FInv used s) (h0 : 0 ≤ s.env.cfg.signalTimeout) :
    let bg'' := (if bgRefused s.env s.bgEnabled (s.apiDone && s.apiQ.isEmpty) s.threads1 t s.bg 0 then rotate1 (s.sb t).1 else (s.sb t).1)
    ∀ c ∈ s.cands t, TidOk used (s.apiQ.drop (dequeueCount s.env.cfg.submissionBatchSize s.apiQ.length)) bg'' c.1.tid := by
  intro bg'' c hc
  obtain ⟨g1, g2, _⟩ := tick_registry s t h0
  have old : ∀ tid, TidOk used s.apiQ s.bg tid → TidOk used (s.apiQ.drop (dequeueCount s.env.cfg.submissionBatchSize s.apiQ.length)) bg'' tid :=
    fun tid htid => tidOk_mono htid (fun x hx => hx) (fun q hq => .inl (List.mem_of_mem_drop hq)) g1
  rcases List.mem_append.mp hc with hc | hc
  · simp only [List.mem_map] at hc
    obtain ⟨th, hth, rfl⟩ := hc
    have htid : ∃ th0 ∈ s.threads, th0.tid = th.tid := by
      have : th.tid ∈ s.threads1.map (·.tid) := List.mem_map.mpr ⟨th, hth, rfl⟩
      unfold Sys.threads1 at this
      rw [deliverAll_tids] at this
      obtain ⟨th0, h0', he⟩ := List.mem_map.mp this
      exact ⟨th0, h0', he⟩
    obtain ⟨th0, hth0, he⟩ := htid
    have hok := old _ (h.threads th0 hth0)
    cases hr : th.resume? t with
    | none => simp only [hr]; rw [← he]; exact hok
    | some th' => simp only [hr]; rw [resume_tid th th' t hr, ← he]; exact hok
  · simp only [List.mem_map] at hc
    obtain ⟨th, hth, rfl⟩ := hc
    rcases List.mem_append.mp hth with hb | hr
    · obtain ⟨_, _, r3⟩ := startBg_registry s.env s.bgEnabled (s.apiDone && s.apiQ.isEmpty) s.threads1 t h0 s.bg 0
      obtain ⟨b, _, htid, _, b', hb', hk, hl⟩ := r3 th hb
      right
      exact ⟨b', g2 b' hb', t, by rw [hk]; exact htid, by rw [hl]; exact Int.le_refl _⟩
    · obtain ⟨q, hq, rfl⟩ := (startReqs_new _ _ _ _).1 th hr
      left
      have hq' := List.mem_of_mem_take hq
      refine ⟨(h.apiUsed q hq').1, (h.apiUsed q hq').2, ?_⟩
      intro q2 hq2
      exact fun he => take_drop_distinct (·.1) s.apiQ _ h.apiNodup q hq q2 hq2 he.symm

theorem finv_tick (used : List String) (s : Sys) (t : Time) (h : FInv used s) (h0 : 0 ≤ s.env.cfg.signalTimeout) :
    FInv used (s.tick t).1 := by
  rw [tick_eq2]
  split
  · exact h
  · obtain ⟨g1, _, g3⟩ := tick_registry s t h0
    have hc := cand_tidOk used s t h h0
    obtain ⟨rt1, rt2⟩ := runAll_tids t (s.cands t)
    have old : ∀ tid, TidOk used s.apiQ s.bg tid → TidOk used (s.apiQ.drop (dequeueCount s.env.cfg.submissionBatchSize s.apiQ.length)) _ tid :=
      fun tid htid => tidOk_mono htid (fun x hx => hx) (fun q hq => .inl (List.mem_of_mem_drop hq)) g1
    refine ⟨?_, ?_, ?_, ?_, ?_, g3 h.kinds⟩
    · intro q hq; exact h.apiUsed q (List.mem_of_mem_drop hq)
    · exact List.Pairwise.sublist ((List.drop_sublist _ _).map _) h.apiNodup
    · intro x hx
      obtain ⟨c, hcm, he⟩ := rt2 x hx
      rw [he]; exact hc c hcm
    · intro e he
      rcases List.mem_append.mp he with he | he
      · exact old _ (h.pending e he)
      · obtain ⟨c, hcm, he'⟩ := rt1 e he
        rw [he']; exact hc c hcm
    · intro e he
      exact old _ (h.cq e (List.mem_of_mem_drop he))

/-! ### freshness -/

theorem startBg_new_distinct (env : Env) (en dr : Bool) (live : List Thread) (t : Time) (h0 : 0 ≤ env.cfg.signalTimeout) :
    ∀ (bs : List BgState) (cnt : Nat), (bs.map (·.kind)).Pairwise (· ≠ ·) →
      TidsDistinct ((startBg env en dr live t bs cnt).2.1.map (·.tid)) := by
  intro bs
  induction bs with
  | nil => intro cnt _; simp [startBg, TidsDistinct]
  | cons b rest ih =>
    intro cnt hk
    simp only [List.map_cons, List.pairwise_cons] at hk
    simp only [startBg]
    split
    · split
      · simp only [List.map_cons, TidsDistinct, List.pairwise_cons]
        refine ⟨?_, ih _ hk.2⟩
        intro x hx
        simp only [List.mem_map] at hx
        obtain ⟨th, hth, rfl⟩ := hx
        obtain ⟨_, _, r3⟩ := startBg_registry env en dr live t h0 rest (cnt + 1)
        obtain ⟨b2, hb2, htid, _⟩ := r3 th hth
        rw [htid]
        intro he
        have he' : bgTid b.kind t = bgTid b2.kind t := he
        have := (bgTid_inj he').1
        exact hk.1 b2.kind (List.mem_map.mpr ⟨b2, hb2, rfl⟩) this
      · exact ih _ hk.2
    · exact ih _ hk.2

theorem startReqs_distinct (env : Env) (t : Time) : ∀ (qs : List (String × Req)) (cnt : Nat), (qs.map (·.1)).Pairwise (· ≠ ·) →
    TidsDistinct ((startReqs env t qs cnt).1.map (·.tid)) := by
  intro qs
  induction qs with
  | nil => intro cnt _; simp [startReqs, TidsDistinct]
  | cons q rest ih =>
    intro cnt hk
    simp only [List.map_cons, List.pairwise_cons] at hk
    simp only [startReqs]
    split
    · simp only [List.map_cons, TidsDistinct, List.pairwise_cons]
      refine ⟨?_, ih _ hk.2⟩
      intro x hx
      simp only [List.mem_map] at hx
      obtain ⟨th, hth, rfl⟩ := hx
      obtain ⟨q2, hq2, rfl⟩ := (startReqs_new env t rest (cnt + 1)).1 th hth
      exact hk.1 q2.1 (List.mem_map.mpr ⟨q2, hq2, rfl⟩)
    · exact ih _ hk.2

/-- **freshness**: with unique request ids that are not background-shaped and a positive signal timeout, the ids
    started by any tick are not in use -/
theorem finv_tickOk (used : List String) (s : Sys) (clk t : Time) (h : FInv used s) (hpos : 0 < s.env.cfg.signalTimeout)
    (hclk : clk ≤ t) : TickOk clk s t := by
  have h0 : 0 ≤ s.env.cfg.signalTimeout := Int.le_of_lt hpos
  obtain ⟨_, _, r3⟩ := startBg_registry s.env s.bgEnabled (s.apiDone && s.apiQ.isEmpty) s.threads1 t h0 s.bg 0
  have hnodupTake : ((s.apiQ.take (dequeueCount s.env.cfg.submissionBatchSize s.apiQ.length)).map (·.1)).Pairwise (· ≠ ·) :=
    List.Pairwise.sublist ((List.take_sublist _ _).map _) h.apiNodup
  -- what a new id looks like
  have hnew : ∀ th ∈ s.newThreads t,
      (∃ b ∈ s.bg, th.tid = bgTid b.kind t ∧ b.last < t) ∨
      (∃ q ∈ s.apiQ.take (dequeueCount s.env.cfg.submissionBatchSize s.apiQ.length), th.tid = q.1) := by
    intro th hth
    rcases List.mem_append.mp hth with hb | hr
    · obtain ⟨b, hb', htid, hdue, _⟩ := r3 th hb
      exact .inl ⟨b, hb', htid, by omega⟩
    · obtain ⟨q, hq, rfl⟩ := (startReqs_new _ _ _ _).1 th hr
      exact .inr ⟨q, hq, rfl⟩
  -- an id in use is none of them
  have hfresh : ∀ th ∈ s.newThreads t, ∀ tid, TidOk used s.apiQ s.bg tid → tid ≠ th.tid := by
    intro th hth tid hok he
    rcases hnew th hth with ⟨b, hb, htid, hlt⟩ | ⟨q, hq, htid⟩
    · rcases hok with ⟨_, hnb, _⟩ | ⟨b2, hb2, t2, h1, h2⟩
      · exact hnb b.kind (toString t) (by rw [he, htid]; rfl)
      · rw [he, htid] at h1
        obtain ⟨hk, ht⟩ := bgTid_inj h1
        have e2 : b = b2 := bg_unique h.kinds hb hb2 hk
        rw [← e2, ← ht] at h2
        exact absurd (Int.lt_of_le_of_lt h2 hlt) (Int.lt_irrefl _)
    · rcases hok with ⟨_, _, hq3⟩ | ⟨b2, _, t2, h1, _⟩
      · exact hq3 q (List.mem_of_mem_take hq) (by rw [he, htid])
      · exact (h.apiUsed q (List.mem_of_mem_take hq)).2 b2.kind (toString t2) (by rw [← htid, ← he, h1]; rfl)
  refine ⟨hclk, ?_, ?_⟩
  · unfold Sys.newThreads
    simp only [List.map_append, TidsDistinct, List.pairwise_append]
    refine ⟨startBg_new_distinct _ _ _ _ _ h0 _ _ h.kinds, startReqs_distinct _ _ _ _ hnodupTake, ?_⟩
    intro a ha b hb
    simp only [List.mem_map] at ha hb
    obtain ⟨tha, htha, rfl⟩ := ha
    obtain ⟨thb, hthb, rfl⟩ := hb
    obtain ⟨b0, _, htid, _⟩ := r3 tha htha
    obtain ⟨q, hq, rfl⟩ := (startReqs_new _ _ _ _).1 thb hthb
    intro he
    have e1 : q.1 = tha.tid := he.symm
    exact (h.apiUsed q (List.mem_of_mem_take hq)).2 b0.kind (toString t) (by rw [e1, htid]; rfl)
  · intro x hx
    simp only [List.mem_map] at hx
    obtain ⟨th, hth, rfl⟩ := hx
    exact ⟨fun th0 h0' => hfresh th hth _ (h.threads th0 h0'), fun e he => hfresh th hth _ (h.pending e he), fun e he => hfresh th hth _ (h.cq e he)⟩

/-! ### the other steps -/

theorem completionsOf_ids (s : Sys) (items : List (SubId × FailMode)) :
    ∀ e ∈ C06.completionsOf s items, ∃ p ∈ s.pending, p.1 = e.1 := by
  have hvalid : ∀ it ∈ C06.validOf s items, ∃ p ∈ s.pending, p.1 = it.1 := by
    intro it hit
    have h1 := (List.mem_filter.mp hit).2
    cases hf : C06.pendingTx s it.1 with
    | none => simp [hf] at h1
    | some tx => exact ⟨_, pendingTx_mem s it.1 tx hf, rfl⟩
  intro e he
  unfold C06.completionsOf at he
  split at he
  · simp only [List.mem_map] at he
    obtain ⟨it, hit, rfl⟩ := he
    exact hvalid it hit
  · simp only [List.mem_map] at he
    obtain ⟨it, hit, rfl⟩ := he
    split
    · exact hvalid it hit
    · split
      · rename_i x hx
        have hxid : x.1 = it.1 := by simpa using List.find?_some hx
        rw [hxid]; exact hvalid it hit
      · exact hvalid it hit

def usedAfter (used : List String) : Choice → List String
  | .submit tid _ => tid :: used
  | _ => used

theorem finv_step (used : List String) (s : Sys) (c : Choice) (h : FInv used s) (h0 : 0 ≤ s.env.cfg.signalTimeout)
    (hsub : ∀ tid r, c = .submit tid r → tid ∉ used ∧ NotBg tid) : FInv (usedAfter used c) (s.step c).1 := by
  have same : ∀ (u' : List String), (∀ x ∈ used, x ∈ u') → FInv u' s := by
    intro u' hu
    exact ⟨fun q hq => ⟨hu _ (h.apiUsed q hq).1, (h.apiUsed q hq).2⟩, h.apiNodup,
      fun th hth => tidOk_mono (h.threads th hth) hu (fun q hq => .inl hq) (fun b hb => ⟨b, hb, rfl, Int.le_refl _⟩),
      fun e he => tidOk_mono (h.pending e he) hu (fun q hq => .inl hq) (fun b hb => ⟨b, hb, rfl, Int.le_refl _⟩),
      fun e he => tidOk_mono (h.cq e he) hu (fun q hq => .inl hq) (fun b hb => ⟨b, hb, rfl, Int.le_refl _⟩), h.kinds⟩
  cases c with
  | submit tid r =>
    obtain ⟨hnew, hnb⟩ := hsub tid r rfl
    simp only [Sys.step, usedAfter]
    split
    · exact same _ (fun x hx => List.mem_cons_of_mem _ hx)
    · split
      · have mono : ∀ x, TidOk used s.apiQ s.bg x → TidOk (tid :: used) (s.apiQ ++ [(tid, r)]) s.bg x := by
          intro x hx
          refine tidOk_mono hx (fun y hy => List.mem_cons_of_mem _ hy) ?_ (fun b hb => ⟨b, hb, rfl, Int.le_refl _⟩)
          intro q hq
          rcases List.mem_append.mp hq with hq | hq
          · exact .inl hq
          · simp only [List.mem_singleton] at hq; subst hq; exact .inr hnew
        refine ⟨?_, ?_, fun th hth => mono _ (h.threads th hth), fun e he => mono _ (h.pending e he), fun e he => mono _ (h.cq e he), h.kinds⟩
        · intro q hq
          rcases List.mem_append.mp hq with hq | hq
          · exact ⟨List.mem_cons_of_mem _ (h.apiUsed q hq).1, (h.apiUsed q hq).2⟩
          · simp only [List.mem_singleton] at hq; subst hq; exact ⟨List.mem_cons_self .., hnb⟩
        · simp only [List.map_append, List.map_cons, List.map_nil, List.pairwise_append]
          refine ⟨h.apiNodup, by simp, ?_⟩
          intro a ha b hb
          simp only [List.mem_singleton] at hb
          subst hb
          simp only [List.mem_map] at ha
          obtain ⟨q, hq, rfl⟩ := ha
          exact fun he => hnew (he ▸ (h.apiUsed q hq).1)
      · exact same _ (fun x hx => List.mem_cons_of_mem _ hx)
  | tick t => exact finv_tick used s t h h0
  | execStore items =>
    simp only [Sys.step, usedAfter]
    rw [C06.execStore_eq]
    refine ⟨h.apiUsed, h.apiNodup, h.threads, fun e he => h.pending e (List.mem_filter.mp he).1, ?_, h.kinds⟩
    intro e he
    rcases List.mem_append.mp he with he | he
    · exact h.cq e he
    · obtain ⟨p, hp, hid⟩ := completionsOf_ids s items e he
      rw [← hid]; exact h.pending p hp
  | complete id cp =>
    simp only [Sys.step, usedAfter]
    split
    · exact h
    · rename_i x _ hfind
      have hm := List.mem_of_find?_eq_some hfind
      have hid : x.1 = id := by simpa using List.find?_some hfind
      refine ⟨h.apiUsed, h.apiNodup, h.threads, fun e he => h.pending e (List.mem_filter.mp he).1, ?_, h.kinds⟩
      intro e he
      rcases List.mem_append.mp he with he | he
      · exact h.cq e he
      · simp only [List.mem_singleton] at he
        subst he
        rw [← hid]; exact h.pending x hm
    · exact h
  | shutdown => exact ⟨h.apiUsed, h.apiNodup, h.threads, h.pending, h.cq, h.kinds⟩
  | crash =>
    refine ⟨?_, ?_, ?_, ?_, ?_, ?_⟩
    · intro q hq; cases hq
    · exact List.Pairwise.nil
    · intro th hth; cases hth
    · intro e he; cases he
    · intro e he; cases he
    · simp only [Sys.step]; decide

theorem finv_boot (env : Env) (d : Dialect) (g : SqlDefs) (db : Db) : FInv [] (Sys.boot env d g db) :=
  ⟨(by intro q hq; cases hq), List.Pairwise.nil, (by intro th hth; cases hth), (by intro e he; cases he), (by intro e he; cases he), (by show ((bgOrder.map fun k => ({ kind := k } : BgState)).map (·.kind)).Pairwise (· ≠ ·); decide)⟩

end Resonate
