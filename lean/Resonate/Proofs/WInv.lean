/-
  Proofs/WInv.lean — Proofs/SysInv.lean once more, generic in two directions, so that invariants which need to know
  something about the COMPLETIONS a coroutine is resumed with can be lifted to every run as well:

  * `W` — the shape of the transactions the coroutines yield (SysInv.lean fixes `WfC`);
  * `L` — a predicate on completions ("legal") which every completion produced by a store batch on a database satisfying
    the invariant has; a coroutine's continuation only has to keep yielding `W`-transactions when it is resumed with
    legal completions (`AllYieldsL`).

  Result (`sysInv_run`): for any database predicate `I` such that every `W`-transaction executed on an `I`-database leaves
  an `I`-database and returns legal results, `I` holds of the database of EVERY state reachable by `Sys.step` — every
  workload, interleaving, batching, injected failure, queue / batch / pool configuration and crash point.
  Used by Properties/C07.lean (task-state legality + `TaskMono`).
-/
import Resonate.Model.System
import Resonate.Proofs.AllYields
import Resonate.Proofs.SysInv
import Resonate.Proofs.Kernel
namespace Resonate.WInv

/-- like `AllYields`, but the continuation is only followed for completions that satisfy `L` -/
inductive AllYieldsL (P : List Cmd → Prop) (L : Cpl → Prop) : Co → Prop
  | done (o : Option Resp) : AllYieldsL P L (.done o)
  | retry : AllYieldsL P L .retry
  | panic (s : String) : AllYieldsL P L (.panic s)
  | yield (subs : List Subm) (k : Time → List Cpl → Co) :
      (∀ tx, Subm.store tx ∈ subs → P tx) → (∀ t cpls, (∀ c ∈ cpls, L c) → AllYieldsL P L (k t cpls)) → AllYieldsL P L (.yield subs k)

theorem AllYields.toL {P : List Cmd → Prop} {L : Cpl → Prop} : ∀ {co : Co}, AllYields P co → AllYieldsL P L co := by
  intro co h
  induction h with
  | done o => exact .done o
  | retry => exact .retry
  | panic s => exact .panic s
  | yield subs k hs _ ih => exact .yield _ _ hs (fun t c _ => ih t c)

theorem AllYieldsL.and {P Q : List Cmd → Prop} {L : Cpl → Prop} :
    ∀ {co : Co}, AllYieldsL P L co → AllYieldsL Q L co → AllYieldsL (fun tx => P tx ∧ Q tx) L co := by
  intro co hp
  induction hp with
  | done o => intro _; exact .done o
  | retry => intro _; exact .retry
  | panic s => intro _; exact .panic s
  | yield subs k hs _ ih =>
    intro hq
    cases hq with
    | yield _ _ hs' hk' => exact .yield _ _ (fun tx hm => ⟨hs tx hm, hs' tx hm⟩) (fun t c hl => ih t c hl (hk' t c hl))

variable {W : List Cmd → Prop} {L : Cpl → Prop}

def ThreadOk (W : List Cmd → Prop) (L : Cpl → Prop) (th : Thread) : Prop :=
  AllYieldsL W L th.co ∧ (∀ t, AllYieldsL W L (th.restart t)) ∧ ∀ s ∈ th.slots, ∀ c, s.2 = some c → L c

def PendingOk (W : List Cmd → Prop) (p : List (SubId × Subm)) : Prop := ∀ x ∈ p, ∀ tx, x.2 = .store tx → W tx

structure SysInv (W : List Cmd → Prop) (L : Cpl → Prop) (I : Db → Prop) (s : Sys) : Prop where
  db : I s.db
  pending : PendingOk W s.pending
  threads : ∀ th ∈ s.threads, ThreadOk W L th
  apiQ : ∀ q ∈ s.apiQ, q.2.StateOk
  cq : ∀ e ∈ s.cq, L e.2

theorem threadOk_new (tid : String) (isBg : Option BgKind) (body : Time → Co) (h : ∀ t, AllYieldsL W L (body t)) :
    ThreadOk W L (newThread tid isBg body) := ⟨AllYieldsL.retry, h, by intro s hs; simp [newThread] at hs⟩

theorem threadOk_fillSlot (th : Thread) (seq : Nat) (c : Cpl) (hc : L c) (h : ThreadOk W L th) : ThreadOk W L (fillSlot th seq c) := by
  refine ⟨h.1, h.2.1, ?_⟩
  intro s hs c' hc'
  simp only [fillSlot, List.mem_map] at hs
  obtain ⟨s0, hs0, rfl⟩ := hs
  split at hc'
  · simp only [Option.some.injEq] at hc'; subst hc'; exact hc
  · exact h.2.2 s0 hs0 c' hc'

theorem threadOk_resume (hLerr : L .err) (th th' : Thread) (t : Time) (h : ThreadOk W L th) (hr : th.resume? t = some th') : ThreadOk W L th' := by
  unfold Thread.resume? at hr
  split at hr
  · cases hr
  · split at hr
    · split at hr
      · rename_i subs k hco
        injection hr with hr; subst hr
        refine ⟨?_, h.2.1, by intro s hs; cases hs⟩
        have := h.1
        rw [hco] at this
        cases this with
        | yield _ _ _ hk =>
          apply hk
          intro c hc
          simp only [List.mem_filterMap] at hc
          obtain ⟨s, hs, hsc⟩ := hc
          exact h.2.2 s hs c hsc
      · cases hr
    · split at hr
      · split at hr
        · rename_i subs k hco
          injection hr with hr; subst hr
          refine ⟨?_, h.2.1, by intro s hs; cases hs⟩
          have := h.1
          rw [hco] at this
          cases this with
          | yield _ _ _ hk =>
            apply hk
            intro c hc
            simp only [List.mem_map] at hc
            obtain ⟨s, hs, rfl⟩ := hc
            cases hsc : s.2 with
            | none => exact hLerr
            | some c' => exact h.2.2 s hs c' hsc
        · cases hr
      · cases hr

theorem run_ok (t : Time) : ∀ (fuel : Nat) (th : Thread), ThreadOk W L th →
    (∀ x, (th.run t fuel).1 = some x → ThreadOk W L x) ∧ PendingOk W (th.run t fuel).2.2.1 := by
  intro fuel
  induction fuel with
  | zero => intro th h; exact ⟨by intro x hx; simp [Thread.run] at hx; subst hx; exact h, by intro x hx; simp [Thread.run] at hx⟩
  | succ n ih =>
    intro th h
    unfold Thread.run
    split
    · -- done
      split <;> exact ⟨by intro x hx; simp at hx, by intro x hx; simp at hx⟩
    · exact ⟨by intro x hx; simp at hx, by intro x hx; simp at hx⟩
    · -- retry
      exact ih _ ⟨h.2.1 t, h.2.1, h.2.2⟩
    · rename_i subs k hco
      have hy := h.1
      rw [hco] at hy
      cases hy with
      | yield _ _ hs hk =>
        split
        · exact ih _ ⟨hk _ _ (by intro c hc; cases hc), h.2.1, h.2.2⟩
        · refine ⟨?_, ?_⟩
          · intro x hx
            simp only [Option.some.injEq] at hx
            subst hx
            refine ⟨AllYieldsL.yield _ _ hs hk, h.2.1, ?_⟩
            intro s hs' c hc
            simp only [List.mem_map] at hs'
            obtain ⟨i, _, rfl⟩ := hs'
            cases hc
          · intro x hx tx htx
            simp only [List.mem_map] at hx
            obtain ⟨⟨i, sb⟩, hmem, rfl⟩ := hx
            have := (List.of_mem_zip hmem).2
            simp only at htx
            subst htx
            exact hs tx this

theorem pendingOk_append {a b : List (SubId × Subm)} (ha : PendingOk W a) (hb : PendingOk W b) : PendingOk W (a ++ b) := by
  intro x hx tx htx
  rcases List.mem_append.mp hx with h | h
  · exact ha x h tx htx
  · exact hb x h tx htx

theorem runAll_ok (t : Time) : ∀ (cands : List (Thread × Bool)), (∀ c ∈ cands, ThreadOk W L c.1) →
    (∀ th ∈ (runAll t cands).1, ThreadOk W L th) ∧ PendingOk W (runAll t cands).2.2.1 := by
  intro cands
  induction cands with
  | nil => intro _; exact ⟨by intro th h; simp [runAll] at h, by intro x hx; simp [runAll] at hx⟩
  | cons c rest ih =>
    intro h
    obtain ⟨th, b⟩ := c
    have hrest := ih (fun c hc => h c (List.mem_cons_of_mem _ hc))
    have hth : ThreadOk W L th := h (th, b) (List.mem_cons_self ..)
    cases b with
    | false =>
      simp only [runAll]
      refine ⟨?_, hrest.2⟩
      intro x hx
      simp only [List.mem_cons] at hx
      rcases hx with rfl | hx
      · exact hth
      · exact hrest.1 x hx
    | true =>
      simp only [runAll]
      have hr := run_ok t fuelPerThread th hth
      refine ⟨?_, pendingOk_append hr.2 hrest.2⟩
      intro x hx
      simp only [List.mem_append] at hx
      rcases hx with hx | hx
      · cases hth' : (th.run t fuelPerThread).1 with
        | none => simp [hth'] at hx
        | some y =>
          simp only [hth', List.mem_singleton] at hx
          rw [hx]; exact hr.1 y hth'
      · exact hrest.1 x hx

theorem deliverAll_ok : ∀ (dcs : List (SubId × Cpl)) (ths : List Thread), (∀ e ∈ dcs, L e.2) → (∀ th ∈ ths, ThreadOk W L th) →
    ∀ th ∈ deliverAll ths dcs, ThreadOk W L th := by
  intro dcs
  induction dcs with
  | nil => intro ths _ h; simpa [deliverAll] using h
  | cons dc rest ih =>
    intro ths hl h
    simp only [deliverAll]
    apply ih _ (fun e he => hl e (List.mem_cons_of_mem _ he))
    intro th hth
    simp only [List.mem_map] at hth
    obtain ⟨th0, h0, rfl⟩ := hth
    split
    · exact threadOk_fillSlot _ _ _ (hl dc (List.mem_cons_self ..)) (h th0 h0)
    · exact h th0 h0

theorem startBg_ok (hbg : ∀ env (k : BgKind) t, AllYieldsL W L (k.body env t)) (env : Env) (en dr : Bool) (live : List Thread) (t : Time) :
    ∀ (bs : List BgState) (cnt : Nat), ∀ th ∈ (startBg env en dr live t bs cnt).2.1, ThreadOk W L th := by
  intro bs
  induction bs with
  | nil => intro cnt th h; simp [startBg] at h
  | cons b rest ih =>
    intro cnt th h
    simp only [startBg] at h
    split at h
    · split at h
      · simp only [List.mem_cons] at h
        rcases h with rfl | h
        · exact threadOk_new _ _ _ (fun t => hbg env b.kind t)
        · exact ih _ th h
      · exact ih _ th h
    · exact ih _ th h

theorem startReqs_ok (hrq : ∀ env (r : Req) t0 t, r.StateOk → AllYieldsL W L (r.body env t0 t)) (env : Env) (t : Time) :
    ∀ (qs : List (String × Req)) (cnt : Nat), (∀ q ∈ qs, q.2.StateOk) → ∀ th ∈ (startReqs env t qs cnt).1, ThreadOk W L th := by
  intro qs
  induction qs with
  | nil => intro cnt _ th h; simp [startReqs] at h
  | cons q rest ih =>
    intro cnt hq th h
    have hrest : ∀ q ∈ rest, q.2.StateOk := fun x hx => hq x (List.mem_cons_of_mem _ hx)
    simp only [startReqs] at h
    split at h
    · simp only [List.mem_cons] at h
      rcases h with rfl | h
      · exact threadOk_new _ _ _ (fun t' => hrq env q.2 t t' (hq q (List.mem_cons_self ..)))
      · exact ih _ hrest th h
    · exact ih _ hrest th h

variable (I : Db → Prop)

theorem sysInv_tick (hLerr : L .err) (hbg : ∀ env (k : BgKind) t, AllYieldsL W L (k.body env t))
    (hrq : ∀ env (r : Req) t0 t, r.StateOk → AllYieldsL W L (r.body env t0 t))
    (s : Sys) (t : Time) (h : SysInv W L I s) : SysInv W L I (s.tick t).1 := by
  unfold Sys.tick
  split
  · exact h
  · dsimp only
    have h1 := deliverAll_ok (s.cq.take s.env.cfg.completionBatchSize) s.threads
      (fun e he => h.cq e (List.mem_of_mem_take he)) h.threads
    have hbg := startBg_ok hbg s.env s.bgEnabled (s.apiDone && s.apiQ.isEmpty)
      (deliverAll s.threads (s.cq.take s.env.cfg.completionBatchSize)) t s.bg 0
    have hrq := fun cnt => startReqs_ok hrq s.env t (s.apiQ.take (dequeueCount s.env.cfg.submissionBatchSize s.apiQ.length)) cnt
      (fun q hq => h.apiQ q (List.mem_of_mem_take hq))
    have hc := runAll_ok t
      ((deliverAll s.threads (s.cq.take s.env.cfg.completionBatchSize)).map (fun th => match th.resume? t with | some th' => (th', true) | none => (th, false))
        ++ ((startBg s.env s.bgEnabled (s.apiDone && s.apiQ.isEmpty) (deliverAll s.threads (s.cq.take s.env.cfg.completionBatchSize)) t s.bg 0).2.1
            ++ (startReqs s.env t (s.apiQ.take (dequeueCount s.env.cfg.submissionBatchSize s.apiQ.length))
                 (startBg s.env s.bgEnabled (s.apiDone && s.apiQ.isEmpty) (deliverAll s.threads (s.cq.take s.env.cfg.completionBatchSize)) t s.bg 0).2.2).1).map (fun th => (th, true)))
      (by
        intro c hc
        simp only [List.mem_append, List.mem_map] at hc
        rcases hc with ⟨th, hth, rfl⟩ | ⟨th, hth, rfl⟩
        · cases hr : th.resume? t with
          | none => simpa [hr] using h1 th hth
          | some th' => simpa [hr] using threadOk_resume hLerr th th' t (h1 th hth) hr
        · rcases hth with hth | hth
          · exact hbg th hth
          · exact hrq _ th hth)
    exact ⟨h.db, pendingOk_append h.pending hc.2, hc.1, fun q hq => h.apiQ q (List.mem_of_mem_drop hq),
      fun e he => h.cq e (List.mem_of_mem_drop he)⟩

/-- every result list of a batch of `W`-transactions on an `I`-database is legal, and the final database satisfies `I` -/
theorem execTxs_inv (g : SqlDefs) (hI : ∀ db db' tx rs, I db → W tx → db.execTx g tx = .ok (db', rs) → I db' ∧ L (.store rs)) :
    ∀ (txs : List (List Cmd)) (db db' : Db) (rss : List (List Res)), I db → (∀ tx ∈ txs, W tx) →
      db.execTxs g txs = .ok (db', rss) → I db' ∧ ∀ rs ∈ rss, L (.store rs) := by
  intro txs
  induction txs with
  | nil =>
    intro db db' rss hi _ h
    simp [Db.execTxs] at h
    obtain ⟨h1, h2⟩ := h
    subst h1; subst h2
    exact ⟨hi, by intro rs hrs; cases hrs⟩
  | cons tx txs ih =>
    intro db db' rss hi hw h
    simp only [Db.execTxs] at h
    split at h
    · cases h
    · cases h1 : db.execTx g tx with
      | error e => simp [h1] at h
      | ok p =>
        obtain ⟨db1, rs⟩ := p
        simp only [h1] at h
        cases h2 : db1.execTxs g txs with
        | error e => simp [h2] at h
        | ok q =>
          obtain ⟨db2, rss2⟩ := q
          simp only [h2] at h
          injection h with h; injection h with hd hr
          subst hd; subst hr
          have hstep := hI db db1 tx rs hi (hw tx (List.mem_cons_self ..)) h1
          have hrest := ih db1 db2 rss2 hstep.1 (fun x hx => hw x (List.mem_cons_of_mem _ hx)) h2
          refine ⟨hrest.1, ?_⟩
          intro rs' hrs'
          rcases List.mem_cons.mp hrs' with rfl | hm
          · exact hstep.2
          · exact hrest.2 rs' hm

theorem sysInv_execStore (hLerr : L .err) (s : Sys) (items : List (SubId × FailMode)) (h : SysInv W L I s)
    (hI : ∀ db db' tx rs, I db → W tx → db.execTx s.g tx = .ok (db', rs) → I db' ∧ L (.store rs)) : SysInv W L I (s.execStore items).1 := by
  -- the transactions of the batch were all found among the pending store submissions
  have hw : ∀ tx ∈ C06.txsOf s items, W tx := by
    intro tx htx
    simp only [C06.txsOf, List.mem_filterMap] at htx
    obtain ⟨it, _, hfind⟩ := htx
    exact h.pending _ (pendingTx_mem s it.1 tx hfind) _ rfl
  -- the batch: new database and result lists
  have hb : I (C06.batchOf s items).1 ∧ ∀ rss, (C06.batchOf s items).2 = .ok rss → ∀ rs ∈ rss, L (.store rs) := by
    unfold C06.batchOf
    split
    · exact ⟨h.db, by intro rss hr rs hrs; injection hr with hr; subst hr; cases hrs⟩
    · unfold Db.execBatch
      cases hx : s.db.execTxs s.g (C06.txsOf s items) with
      | error e => exact ⟨h.db, by intro rss hr; cases hr⟩
      | ok p =>
        obtain ⟨db', rss⟩ := p
        have := execTxs_inv I s.g hI _ _ _ _ h.db hw hx
        exact ⟨this.1, by intro rss' hr rs hrs; injection hr with hr; subst hr; exact this.2 rs hrs⟩
  rw [C06.execStore_eq]
  refine ⟨hb.1, ?_, h.threads, h.apiQ, ?_⟩
  · intro x hx tx htx
    exact h.pending x ((List.mem_filter.mp hx).1) tx htx
  · intro e he
    rcases List.mem_append.mp he with he | he
    · exact h.cq e he
    · unfold C06.completionsOf at he
      split at he
      · simp only [List.mem_map] at he
        obtain ⟨it, _, rfl⟩ := he
        exact hLerr
      · rename_i rss hr
        simp only [List.mem_map] at he
        obtain ⟨it, _, rfl⟩ := he
        split
        · exact hLerr
        · split
          · rename_i x hfx
            have hxm := List.mem_of_find?_eq_some hfx
            simp only [C06.okResOf, List.mem_map] at hxm
            obtain ⟨⟨it2, rs⟩, hz, rfl⟩ := hxm
            dsimp only
            split
            · exact hLerr
            · exact hb.2 rss hr rs (List.of_mem_zip hz).2
          · exact hLerr

/-- what the run may do: requests pass the front ends' state validation, and a router / sender completion handed to the
    kernel is legal -/
def ChoiceOk (L : Cpl → Prop) : Choice → Prop
  | .submit _ r => r.StateOk
  | .complete _ c => L c
  | _ => True

theorem sysInv_step (hLerr : L .err) (hbg : ∀ env (k : BgKind) t, AllYieldsL W L (k.body env t))
    (hrq : ∀ env (r : Req) t0 t, r.StateOk → AllYieldsL W L (r.body env t0 t))
    (s : Sys) (c : Choice) (h : SysInv W L I s) (hc : ChoiceOk L c)
    (hI : ∀ db db' tx rs, I db → W tx → db.execTx s.g tx = .ok (db', rs) → I db' ∧ L (.store rs)) : SysInv W L I (s.step c).1 := by
  cases c with
  | submit tid r =>
    simp only [Sys.step]
    split
    · exact h
    · split
      · refine ⟨h.db, h.pending, h.threads, ?_, h.cq⟩
        intro q hq
        simp only [List.mem_append, List.mem_singleton] at hq
        rcases hq with hq | rfl
        · exact h.apiQ q hq
        · exact hc
      · exact h
  | tick t => exact sysInv_tick I hLerr hbg hrq s t h
  | execStore items => exact sysInv_execStore I hLerr s items h hI
  | complete id cp =>
    simp only [Sys.step]
    split
    · exact h
    · refine ⟨h.db, fun x hx tx htx => h.pending x ((List.mem_filter.mp hx).1) tx htx, h.threads, h.apiQ, ?_⟩
      intro e he
      rcases List.mem_append.mp he with he | he
      · exact h.cq e he
      · simp only [List.mem_singleton] at he; subst he; exact hc
    · exact h
  | shutdown => exact ⟨h.db, h.pending, h.threads, h.apiQ, h.cq⟩
  | crash =>
    refine ⟨h.db, ?_, ?_, ?_, ?_⟩
    · intro x hx; simp only [Sys.step] at hx; cases hx
    · intro th hth; simp only [Sys.step] at hth; cases hth
    · intro q hq; simp only [Sys.step] at hq; cases hq
    · intro e he; simp only [Sys.step] at he; cases he

/-- **every reachable state** -/
theorem sysInv_run (hLerr : L .err) (hbg : ∀ env (k : BgKind) t, AllYieldsL W L (k.body env t))
    (hrq : ∀ env (r : Req) t0 t, r.StateOk → AllYieldsL W L (r.body env t0 t))
    (cs : List Choice) (s : Sys) (h : SysInv W L I s) (hcs : ∀ c ∈ cs, ChoiceOk L c)
    (hI : ∀ db db' tx rs, I db → W tx → db.execTx s.g tx = .ok (db', rs) → I db' ∧ L (.store rs)) : SysInv W L I (s.run cs) := by
  induction cs generalizing s with
  | nil => exact h
  | cons c cs ih =>
    simp only [Sys.run, List.foldl_cons]
    have hs := sysInv_step I hLerr hbg hrq s c h (hcs c (List.mem_cons_self ..)) hI
    exact ih _ hs (fun x hx => hcs x (List.mem_cons_of_mem _ hx)) (by rw [step_g]; exact hI)

/-- a freshly booted system over a database satisfying `I` -/
theorem sysInv_boot (env : Env) (d : Dialect) (g : SqlDefs) (db : Db) (hi : I db) :
    SysInv W L I { env := env, d := d, g := g, db := db } :=
  ⟨hi, by intro x hx; simp at hx, by intro th hth; simp at hth, by intro q hq; simp at hq, by intro e he; simp at he⟩

end Resonate.WInv
