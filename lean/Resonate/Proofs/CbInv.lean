/-
  Proofs/CbInv.lean — no lost wake-ups at the store level (C05):
  `CbInv`: every registration (callbacks row) awaits a promise that exists and is still pending.
  It is an invariant of every well-formed transaction (hence of every batch, every sequence, and —
  a crash leaving the database as it is — every crash point).
-/
import Resonate.Model.SqlSpec
import Resonate.Proofs.Wf
import Resonate.Proofs.Frame
namespace Resonate
open SqlSpec

def CbInv (db : Db) : Prop :=
  ∀ cb ∈ db.callbacks, ∃ p ∈ db.promises, p.id = cb.promiseId ∧ p.state = 1

/-- the invariant for all registrations except those on `id` (holds between the first and the last
    command of the completion block) -/
def CbInvExcept (id : String) (db : Db) : Prop :=
  ∀ cb ∈ db.callbacks, cb.promiseId ≠ id → ∃ p ∈ db.promises, p.id = cb.promiseId ∧ p.state = 1

variable (d : Dialect)

theorem cbInv_updatePromise (db db' : Db) (c : UpdatePromiseCmd) (r : Res) (hi : CbInv db)
    (h : db.exec (defs d) (.updatePromise c) = .ok (db', r)) : CbInvExcept c.id db' := by
  simp only [Db.exec] at h
  split at h
  · cases h
  · injection h with h; injection h with h _; subst h
    intro cb hcb hne
    obtain ⟨p, hp, hid, hst⟩ := hi cb hcb
    refine ⟨p, ?_, hid, hst⟩
    simp only
    rw [mem_updateWhere]
    refine ⟨p, hp, Or.inr ⟨?_, rfl⟩⟩
    simp only [defs, promiseUpdate_where]
    have : (p.id == c.id) = false := by
      rw [hid]; simpa using hne
    simp [this]

theorem cbInvExcept_frame (id : String) (db db' : Db) (hp : db'.promises = db.promises) (hc : db'.callbacks = db.callbacks)
    (hi : CbInvExcept id db) : CbInvExcept id db' := by
  intro cb hcb hne
  rw [hc] at hcb; rw [hp]; exact hi cb hcb hne

theorem cbInv_frame (db db' : Db) (hp : db'.promises = db.promises) (hc : db'.callbacks = db.callbacks)
    (hi : CbInv db) : CbInv db' := by
  intro cb hcb
  rw [hc] at hcb; rw [hp]; exact hi cb hcb

theorem cbInv_deleteCallbacks (id : String) (db db' : Db) (r : Res) (hi : CbInvExcept id db)
    (h : db.exec (defs d) (.deleteCallbacks ⟨id⟩) = .ok (db', r)) : CbInv db' := by
  simp only [Db.exec] at h
  injection h with h; injection h with h _; subst h
  intro cb hcb
  simp only [List.mem_filter, defs, callbackDelete_where] at hcb
  obtain ⟨hm, hne⟩ := hcb
  exact hi cb hm (by simpa using hne)

/-- **the completion block as a unit**: whatever the state of the promise, after
    `[UpdatePromise id, CompleteTasks id, CreateTasks id, DeleteCallbacks id]` no registration is left
    on a promise that is not pending -/
theorem cbInv_block (db db' : Db) (c : UpdatePromiseCmd) (t1 t2 : Int) (rs : List Res) (hi : CbInv db)
    (h : db.execTx (defs d) [.updatePromise c, .completeTasks ⟨c.id, t1⟩, .createTasks ⟨c.id, t2⟩, .deleteCallbacks ⟨c.id⟩] = .ok (db', rs)) :
    CbInv db' := by
  obtain ⟨db1, r1, rs1, e1, x1, _⟩ := execTx_cons_ok _ _ _ _ _ _ h
  obtain ⟨db2, r2, rs2, e2, x2, _⟩ := execTx_cons_ok _ _ _ _ _ _ x1
  obtain ⟨db3, r3, rs3, e3, x3, _⟩ := execTx_cons_ok _ _ _ _ _ _ x2
  obtain ⟨db4, r4, rs4, e4, x4, _⟩ := execTx_cons_ok _ _ _ _ _ _ x3
  simp [Db.execTx] at x4
  rw [← x4.1]
  have i1 := cbInv_updatePromise d db db1 c r1 hi e1
  have f2 := exec_frame _ _ _ _ _ e2
  have i2 := cbInvExcept_frame c.id db1 db2 (f2.1 rfl).1 (f2.2.1 rfl) i1
  have f3 := exec_frame _ _ _ _ _ e3
  have i3 := cbInvExcept_frame c.id db2 db3 (f3.1 rfl).1 (f3.2.1 rfl) i2
  exact cbInv_deleteCallbacks d c.id db3 db4 r4 i3 e4

theorem cbInv_promises_append (db db' : Db) (extra : List PromiseRow) (hp : db'.promises = db.promises ++ extra)
    (hc : db'.callbacks = db.callbacks) (hi : CbInv db) : CbInv db' := by
  intro cb hcb
  rw [hc] at hcb
  obtain ⟨p, hp', h⟩ := hi cb hcb
  exact ⟨p, by rw [hp]; exact List.mem_append_left _ hp', h⟩

theorem createPromise_append (g : SqlDefs) (db : Db) (c : CreatePromiseCmd) :
    ∃ extra, (db.createPromise g c).1.promises = db.promises ++ extra := by
  unfold Db.createPromise; split
  · exact ⟨[], by simp⟩
  · exact ⟨[_], rfl⟩

theorem cbInv_free (db db' : Db) (cmd : Cmd) (r : Res) (hi : CbInv db) (hf : cmd.free = true)
    (h : db.exec (defs d) cmd = .ok (db', r)) : CbInv db' := by
  have fr := exec_frame _ _ _ _ _ h
  cases cmd with
  | createPromise c =>
    simp only [Db.exec] at h
    injection h with h; injection h with h _; subst h
    obtain ⟨extra, he⟩ := createPromise_append (defs d) db c
    exact cbInv_promises_append db _ extra he (createPromise_frame _ db c).1 hi
  | createCallback c =>
    simp only [Db.exec] at h
    split at h
    · rename_i hg
      injection h with h; injection h with h _; subst h
      intro cb hcb
      simp only [List.mem_append, List.mem_singleton] at hcb
      rcases hcb with hcb | hcb
      · exact hi cb hcb
      · subst hcb
        simp only [defs, callbackInsert_guard, Bool.and_eq_true, List.any_eq_true, beq_iff_eq] at hg
        obtain ⟨⟨p, hp, hid, hst⟩, _⟩ := hg
        exact ⟨p, hp, by simpa [defs, callbackInsert_row] using hid, hst⟩
    · injection h with h; injection h with h _; subst h; exact hi
  | updatePromise c | completeTasks c | createTasks c | deleteCallbacks c | createTask c | updateTask c
  | createPromiseAndTask c => simp [Cmd.free] at hf
  | readPromise c | readPromises c | searchPromises c | readSchedule c | readSchedules c | searchSchedules c
  | createSchedule c | updateSchedule c | deleteSchedule c | readTask c | readEnqueueableTasks c | readTasks c
  | heartbeatTasks c | readLock c | acquireLock c | releaseLock c | heartbeatLocks c | timeoutLocks c =>
    exact cbInv_frame db db' (fr.1 rfl).1 (fr.2.1 rfl) hi

theorem cbInv_createPromiseAndTask (db db' : Db) (c : CreatePromiseAndTaskCmd) (r : Res) (hi : CbInv db)
    (h : db.exec (defs d) (.createPromiseAndTask c) = .ok (db', r)) : CbInv db' := by
  have fr := exec_frame _ _ _ _ _ h
  simp only [Db.exec] at h
  obtain ⟨extra, he⟩ := createPromise_append (defs d) db c.promiseCommand
  split at h
  · injection h with h; injection h with h _; subst h
    exact cbInv_promises_append db _ extra he (createPromise_frame _ db _).1 hi
  · split at h
    · rename_i db2 m hct
      injection h with h; injection h with h _; subst h
      have f2 := createTask_frame _ _ _ _ _ hct
      exact cbInv_promises_append db _ extra (by rw [f2.1, he]) (by rw [f2.2.1, (createPromise_frame _ db _).1]) hi
    · cases h

/-- **C05 (invariant).** Every well-formed transaction preserves `CbInv`. -/
theorem cbInv_wfCore (cs : List Cmd) (db db' : Db) (rs : List Res) (hi : CbInv db) (hw : wfCore cs = true)
    (h : db.execTx (defs d) cs = .ok (db', rs)) : CbInv db' :=
  wfCmdsP_inv (fun _ => true) (defs d) CbInv
    (fun db db' c t1 t2 rs hi _ h => cbInv_block d db db' c t1 t2 rs hi h)
    (fun db db' c r hi _ h => by
      have fr := exec_frame _ _ _ _ _ h
      exact cbInv_frame db db' (fr.1 rfl).1 (fr.2.1 rfl) hi)
    (fun db db' c r hi _ h => cbInv_createPromiseAndTask d db db' c r hi h)
    (fun db db' c r hi hf h => cbInv_free d db db' c r hi hf h)
    cs db db' rs hi hw h

end Resonate
