/-
  Proofs/Responds.lean — a request coroutine never finishes without a response: every `.done` leaf of the 17 request
  coroutines carries `some` response (whatever completions arrive).  In the Go kernel a request coroutine that returned
  (nil, nil) would hand a nil response to the front end; the model marks that leaf as an assertion event.
-/
import Resonate.Model.Coroutines
namespace Resonate
open Coro

inductive Resp1 : Co → Prop
  | done (r : Resp) : Resp1 (.done (some r))
  | retry : Resp1 .retry
  | panic (s : String) : Resp1 (.panic s)
  | yield (subs : List Subm) (k : Time → List Cpl → Co) : (∀ t cpls, Resp1 (k t cpls)) → Resp1 (.yield subs k)

macro "rs_leaf" : tactic =>
  `(tactic| first | exact Resp1.done _ | exact Resp1.retry | exact Resp1.panic _)

macro "rs_go" : tactic =>
  `(tactic| repeat' (first
    | rs_leaf
    | (refine Resp1.yield _ _ ?_)
    | (intro (_ : Time) (_ : List Cpl))
    | split
    | (dsimp only)))

theorem rs_readPromise (id : String) (t0 : Time) : Resp1 (readPromise id t0) := by unfold readPromise; rs_go

theorem rs_childStore (pc : CreatePromiseCmd) (ft : Option CreateTaskCmd) (extra : List Cmd) (k : ChildOut → Co)
    (hk : ∀ o, Resp1 (k o)) : Resp1 (childStore pc ft extra k) := by
  unfold childStore
  refine Resp1.yield _ _ ?_
  intro t cpls
  repeat' (first | rs_leaf | exact hk _ | split | (dsimp only))

theorem rs_createPromiseChild (pc : CreatePromiseCmd) (tc : Option CreateTaskCmd) (extra : List Cmd) (k : ChildOut → Co)
    (hk : ∀ o, Resp1 (k o)) : Resp1 (createPromiseChild pc tc extra k) := by
  unfold createPromiseChild
  refine Resp1.yield _ _ ?_
  intro t cpls
  repeat' (first | rs_leaf | exact hk _ | exact rs_childStore _ _ _ _ hk | split | (dsimp only))

theorem rs_createPromiseInner (req : CreatePromiseReq) (tc : Option CreateTaskCmd) (wt : Bool) (t0 : Time) :
    Resp1 (createPromiseInner req tc wt t0) := by
  unfold createPromiseInner
  dsimp only
  refine Resp1.yield _ _ ?_
  intro t cpls
  split
  · rs_go
  · rs_go
  · apply rs_createPromiseChild
    intro o
    rs_go
  · rs_go

theorem rs_completePromise (req : CompletePromiseReq) (t0 : Time) : Resp1 (completePromise req t0) := by
  unfold completePromise; rs_go
theorem rs_searchPromises (req : SearchPromisesReq) (t0 : Time) : Resp1 (searchPromises req t0) := by
  unfold searchPromises; rs_go
theorem rs_registerCallback (pid cb recv : String) (m : Mesg) (to : Int) : Resp1 (registerCallback pid cb recv m to) := by
  unfold registerCallback; rs_go
theorem rs_createCallback (req : CreateCallbackReq) (t0 : Time) : Resp1 (createCallback req t0) := by
  unfold createCallback; split
  · rs_leaf
  · exact rs_registerCallback _ _ _ _ _
theorem rs_createSubscription (req : CreateSubscriptionReq) (t0 : Time) : Resp1 (createSubscription req t0) := by
  unfold createSubscription; exact rs_registerCallback _ _ _ _ _
theorem rs_readSchedule (id : String) (t0 : Time) : Resp1 (readSchedule id t0) := by unfold readSchedule; rs_go
theorem rs_createSchedule (env : Env) (req : CreateScheduleReq) (t0 : Time) : Resp1 (createSchedule env req t0) := by
  unfold createSchedule; rs_go
theorem rs_deleteSchedule (id : String) (t0 : Time) : Resp1 (deleteSchedule id t0) := by unfold deleteSchedule; rs_go
theorem rs_searchSchedules (req : SearchSchedulesReq) (t0 : Time) : Resp1 (searchSchedules req t0) := by
  unfold searchSchedules; rs_go
theorem rs_acquireLock (req : AcquireLockReq) (t0 : Time) : Resp1 (acquireLock req t0) := by unfold acquireLock; rs_go
theorem rs_releaseLock (a b : String) (t0 : Time) : Resp1 (releaseLock a b t0) := by unfold releaseLock; rs_go
theorem rs_heartbeatLocks (p : String) (t0 : Time) : Resp1 (heartbeatLocks p t0) := by unfold heartbeatLocks; rs_go
theorem rs_claimTask (env : Env) (req : ClaimTaskReq) (t0 : Time) : Resp1 (claimTask env req t0) := by unfold claimTask; rs_go
theorem rs_completeTask (id : String) (c : Int) (t0 : Time) : Resp1 (completeTask id c t0) := by unfold completeTask; rs_go
theorem rs_heartbeatTasks (p : String) (t0 : Time) : Resp1 (heartbeatTasks p t0) := by unfold heartbeatTasks; rs_go

/-- every request coroutine, whatever the request -/
theorem rs_req (env : Env) (r : Req) (t0 t : Time) : Resp1 (r.body env t0 t) := by
  cases r with
  | readPromise id => exact rs_readPromise id t
  | searchPromises q => exact rs_searchPromises q t
  | createPromise q => exact rs_createPromiseInner q none false t
  | createPromiseAndTask p tr =>
    simp only [Req.body]
    split
    · rs_leaf
    · split
      · rs_leaf
      · exact rs_createPromiseInner _ _ _ _
  | completePromise q => exact rs_completePromise q t
  | createCallback q => exact rs_createCallback q t
  | createSubscription q => exact rs_createSubscription q t
  | readSchedule id => exact rs_readSchedule id t
  | searchSchedules q => exact rs_searchSchedules q t
  | createSchedule q => exact rs_createSchedule env q t
  | deleteSchedule id => exact rs_deleteSchedule id t
  | acquireLock q => exact rs_acquireLock q t
  | releaseLock a b => exact rs_releaseLock a b t
  | heartbeatLocks p => exact rs_heartbeatLocks p t
  | claimTask q => exact rs_claimTask env q t
  | completeTask id c => exact rs_completeTask id c t
  | heartbeatTasks p => exact rs_heartbeatTasks p t

end Resonate
