/-
  Proofs/AllYieldsK.lean — every store transaction any coroutine can ever yield consists of commands of the shape
  `cmdKOk` (Proofs/KeysInv.lean): no bare `CreateTask`; registration ids are `__resume:…` / `__notify:…`, never
  `__invoke:…`; the task written together with a promise is that promise's invocation task.
  Same walk over the interaction trees as Proofs/AllYields.lean, with a different side condition.
-/
import Resonate.Proofs.AllYields
import Resonate.Proofs.KeysInv
namespace Resonate
open Coro

theorem AllYields.and {P Q : List Cmd → Prop} : ∀ {co : Co}, AllYields P co → AllYields Q co → AllYields (fun tx => P tx ∧ Q tx) co := by
  intro co hp
  induction hp with
  | done o => intro _; exact .done o
  | retry => intro _; exact .retry
  | panic s => intro _; exact .panic s
  | yield subs k hs _ ih =>
    intro hq
    cases hq with
    | yield _ _ hs' hk' => exact .yield _ _ (fun tx hm => ⟨hs tx hm, hs' tx hm⟩) (fun t c => ih t c (hk' t c))

theorem kOk_completeTx (cmd : UpdatePromiseCmd) (t : Time) : KOk (completeTx cmd t) := by
  intro c hc; simp [completeTx] at hc; rcases hc with rfl | rfl | rfl | rfl <;> simp [cmdKOk]

theorem kOk_map {α} (l : List α) (f : α → Cmd) (h : ∀ x, cmdKOk (f x)) : KOk (l.map f) := by
  intro c hc; simp only [List.mem_map] at hc; obtain ⟨x, _, rfl⟩ := hc; exact h x

macro "ak_wf" : tactic =>
  `(tactic| first
    | exact kOk_completeTx _ _
    | (simp [KOk, cmdKOk]; done)
    | (intro c hc; simp at hc; (try subst hc); simp [cmdKOk]; done)
    | (intro c hc; simp at hc; rcases hc with rfl | rfl <;> simp [cmdKOk]; done))

macro "ak_go" : tactic =>
  `(tactic| repeat' (first
    | ay_leaf
    | (refine ay1 _ _ ?_ ?_)
    | (intro (_ : Time) (_ : List Cpl))
    | ak_wf
    | split
    | (dsimp only)))

theorem ak_readPromise (id : String) (t0 : Time) : AllYields KOk (readPromise id t0) := by
  unfold readPromise; ak_go

/-- the task command carried by a CreatePromiseAndTask request is the invocation task of the promise -/
def TaskIdOk (id : String) (tc : Option CreateTaskCmd) : Prop := ∀ c, tc = some c → c.id = invokeId id

theorem kOk_childCmd (pc : CreatePromiseCmd) (tc : Option CreateTaskCmd) (routed : Option String)
    (htc : TaskIdOk pc.id tc) : KOk [childCmd pc (childTask pc tc routed)] := by
  intro c hc
  simp only [List.mem_singleton] at hc
  subst hc
  cases routed with
  | none => simp [childTask, childCmd, cmdKOk]
  | some recv =>
    cases tc with
    | none => simp [childTask, childCmd, cmdKOk]
    | some c => simpa [childTask, childCmd, cmdKOk] using htc c rfl

theorem ak_childStore (pc : CreatePromiseCmd) (ft : Option CreateTaskCmd) (k : ChildOut → Co)
    (hw : KOk [childCmd pc ft]) (hk : ∀ o, AllYields KOk (k o)) : AllYields KOk (childStore pc ft [] k) := by
  unfold childStore
  refine ay1 _ _ hw ?_
  intro t cpls
  repeat' (first | ay_leaf | exact hk _ | split | (dsimp only))

theorem ak_createPromiseChild (pc : CreatePromiseCmd) (tc : Option CreateTaskCmd) (k : ChildOut → Co)
    (htc : TaskIdOk pc.id tc) (hk : ∀ o, AllYields KOk (k o)) : AllYields KOk (createPromiseChild pc tc [] k) := by
  unfold createPromiseChild
  refine ay0 _ _ (by simp) ?_
  intro t cpls
  split
  · split
    · exact hk _
    · split
      · exact hk _
      · exact ak_childStore _ _ _ (kOk_childCmd pc tc _ htc) hk
  · exact AllYields.panic _

theorem ak_createPromiseInner (req : CreatePromiseReq) (tc : Option CreateTaskCmd) (wt : Bool) (t0 : Time)
    (htc : TaskIdOk req.id tc) : AllYields KOk (createPromiseInner req tc wt t0) := by
  unfold createPromiseInner
  dsimp only
  refine ay1 _ _ (by ak_wf) ?_
  intro t cpls
  split
  · ak_go
  · ak_go
  · apply ak_createPromiseChild _ _ _ htc
    intro o
    ak_go
  · ak_go

theorem ak_completePromise (req : CompletePromiseReq) (t0 : Time) : AllYields KOk (completePromise req t0) := by
  unfold completePromise
  refine ay1 _ _ (by ak_wf) ?_
  intro t cpls
  split
  · ak_go
  · ak_go
  · ak_go
  · dsimp only
    split
    · refine ay1 _ _ ?_ ?_
      · split <;> exact kOk_completeTx _ _
      · ak_go
    · ak_go

theorem ak_searchPromises (req : SearchPromisesReq) (t0 : Time) : AllYields KOk (searchPromises req t0) := by
  unfold searchPromises
  split
  · ay_leaf
  · split
    · ay_leaf
    · refine ay1 _ _ (by ak_wf) ?_
      intro t cpls
      split
      · ak_go
      · dsimp only
        split
        · ak_go
        · refine AllYields.yield _ _ ?_ (by intro t2 c2; ak_go)
          intro tx hm
          simp only [List.mem_map] at hm
          obtain ⟨x, _, hx⟩ := hm
          injection hx with hx; subst hx
          exact kOk_completeTx _ _
      · ak_go

theorem ak_registerCallback (pid cb recv : String) (m : Mesg) (to : Int) (hcb : NotInvoke cb) :
    AllYields KOk (registerCallback pid cb recv m to) := by
  unfold registerCallback
  refine ay1 _ _ (by ak_wf) ?_
  intro t cpls
  split
  · ak_go
  · ak_go
  · ak_go
  · dsimp only
    split
    · refine ay1 _ _ ?_ ?_
      · intro c hc
        simp only [List.mem_singleton] at hc
        subst hc
        exact hcb
      · ak_go
    · ak_go

theorem ak_createCallback (req : CreateCallbackReq) (t0 : Time) : AllYields KOk (createCallback req t0) := by
  unfold createCallback; split
  · ay_leaf
  · exact ak_registerCallback _ _ _ _ _ (notInvoke_callbackId _ _)

theorem ak_createSubscription (req : CreateSubscriptionReq) (t0 : Time) : AllYields KOk (createSubscription req t0) := by
  unfold createSubscription; exact ak_registerCallback _ _ _ _ _ (notInvoke_subscriptionId _ _)

theorem ak_readSchedule (id : String) (t0 : Time) : AllYields KOk (readSchedule id t0) := by
  unfold readSchedule; ak_go
theorem ak_createSchedule (env : Env) (req : CreateScheduleReq) (t0 : Time) : AllYields KOk (createSchedule env req t0) := by
  unfold createSchedule; ak_go
theorem ak_deleteSchedule (id : String) (t0 : Time) : AllYields KOk (deleteSchedule id t0) := by
  unfold deleteSchedule; ak_go
theorem ak_searchSchedules (req : SearchSchedulesReq) (t0 : Time) : AllYields KOk (searchSchedules req t0) := by
  unfold searchSchedules; ak_go
theorem ak_acquireLock (req : AcquireLockReq) (t0 : Time) : AllYields KOk (acquireLock req t0) := by
  unfold acquireLock; ak_go
theorem ak_releaseLock (a b : String) (t0 : Time) : AllYields KOk (releaseLock a b t0) := by
  unfold releaseLock; ak_go
theorem ak_heartbeatLocks (p : String) (t0 : Time) : AllYields KOk (heartbeatLocks p t0) := by
  unfold heartbeatLocks; ak_go
theorem ak_claimTask (env : Env) (req : ClaimTaskReq) (t0 : Time) : AllYields KOk (claimTask env req t0) := by
  unfold claimTask; ak_go
theorem ak_completeTask (id : String) (c : Int) (t0 : Time) : AllYields KOk (completeTask id c t0) := by
  unfold completeTask; ak_go
theorem ak_heartbeatTasks (p : String) (t0 : Time) : AllYields KOk (heartbeatTasks p t0) := by
  unfold heartbeatTasks; ak_go

/-! ### background coroutines -/

theorem ak_timeoutPromises (env : Env) (t0 : Time) : AllYields KOk (timeoutPromises env t0) := by
  unfold timeoutPromises
  refine ay1 _ _ (by ak_wf) ?_
  intro t cpls
  split
  · ak_go
  · split
    · ay_leaf
    · split
      · ay_leaf
      · split
        · ay_leaf
        · refine AllYields.yield _ _ ?_ (by intro t2 c2; ak_go)
          intro tx hm
          simp only [List.mem_map] at hm
          obtain ⟨x, _, hx⟩ := hm
          injection hx with hx; subst hx
          exact kOk_completeTx _ _
  · ak_go

theorem ak_timeoutLocks (t0 : Time) : AllYields KOk (timeoutLocks t0) := by
  unfold timeoutLocks; ak_go

theorem ak_timeoutTasks (env : Env) (t0 : Time) : AllYields KOk (timeoutTasks env t0) := by
  unfold timeoutTasks
  refine ay1 _ _ (by ak_wf) ?_
  intro t cpls
  split
  · ak_go
  · split
    · ay_leaf
    · split
      · ay_leaf
      · dsimp only
        split
        · ay_leaf
        · refine ay1 _ _ ?_ (by intro _ _; ay_leaf)
          exact kOk_map _ _ (by intro r; split <;> simp [cmdKOk])
  · ak_go

theorem enqueueOutcomeCmd_kOk (e : Int) (r : TaskRow) (o : Cpl) : cmdKOk (enqueueOutcomeCmd e r o) := by
  unfold enqueueOutcomeCmd; split
  · simp [cmdKOk]
  · split <;> simp [cmdKOk]

theorem ak_enqueueFinish (dead : List Cmd) (live : List TaskRow) (e : Int) (outs : List Cpl)
    (hd : ∀ c ∈ dead, cmdKOk c) : AllYields KOk (enqueueFinish dead live e outs) := by
  unfold enqueueFinish
  dsimp only
  split
  · ay_leaf
  · refine ay1 _ _ ?_ (by intro _ _; ay_leaf)
    intro c hc
    simp only [List.mem_append, List.mem_map] at hc
    rcases hc with hc | ⟨x, _, rfl⟩
    · exact hd c hc
    · exact enqueueOutcomeCmd_kOk _ _ _

theorem ak_enqueueTasks (env : Env) (t0 : Time) : AllYields KOk (enqueueTasks env t0) := by
  unfold enqueueTasks
  refine ay1 _ _ (by ak_wf) ?_
  intro t cpls
  split
  · ak_go
  · split
    · ay_leaf
    · refine ay1 _ _ ?_ ?_
      · exact kOk_map _ _ (by intro r; simp [cmdKOk])
      · intro t2 cpls2
        have hdead : ∀ (l : List (TaskRow × Res)) (c : Cmd),
            c ∈ l.map (fun (x : TaskRow × Res) => Cmd.updateTask { id := x.1.id, processId := none, state := T_TIMEDOUT, counter := x.1.counter, attempt := x.1.attempt, ttl := 0, expiresAt := 0, completedOn := some x.1.timeout, currentStates := [T_INIT], currentCounter := x.1.counter }) → cmdKOk c := by
          intro l c hc
          simp only [List.mem_map] at hc
          obtain ⟨x, _, rfl⟩ := hc
          simp [cmdKOk]
        split
        · ak_go
        · split
          · ay_leaf
          · dsimp only
            split
            · ay_leaf
            · split
              · exact ak_enqueueFinish _ _ _ _ (hdead _)
              · refine ay0 _ _ ?_ ?_
                · intro tx hm
                  simp only [List.mem_map] at hm
                  obtain ⟨x, _, hx⟩ := hm
                  cases hx
                · intro t3 outs
                  exact ak_enqueueFinish _ _ _ _ (hdead _)
        · ak_go
  · ak_go

theorem ak_schedulePromises (env : Env) (t0 : Time) : AllYields KOk (schedulePromises env t0) := by
  unfold schedulePromises
  refine ay1 _ _ (by ak_wf) ?_
  intro t cpls
  split
  · ak_go
  · split
    · ay_leaf
    · dsimp only
      split
      · ay_leaf
      · refine ay0 _ _ ?_ ?_
        · intro tx hm
          simp only [List.mem_map] at hm
          obtain ⟨x, _, hx⟩ := hm
          cases hx
        · intro t2 rcs
          split
          · ay_leaf
          · split
            · ay_leaf
            · refine AllYields.yield _ _ ?_ (by intro t3 c3; ak_go)
              intro tx hm
              simp only [List.mem_map] at hm
              obtain ⟨⟨⟨pc, upd⟩, rc⟩, hmem0, hx⟩ := hm
              have hmem := (List.mem_filter.mp hmem0).1
              have hupd : cmdKOk upd := by
                have h1 := List.of_mem_zip hmem
                have h2 := h1.1
                simp only [List.mem_filterMap] at h2
                obtain ⟨r, _, hr⟩ := h2
                split at hr
                · injection hr with hr; injection hr with _ hr; subst hr; simp [cmdKOk]
                · cases hr
              split at hx
              · injection hx with hx; subst hx
                intro c hc
                simp only [List.mem_cons, List.not_mem_nil, or_false] at hc
                rcases hc with rfl | rfl
                · simp [cmdKOk]
                · exact hupd
              · injection hx with hx; subst hx
                intro c hc
                simp only [List.mem_cons, List.not_mem_nil, or_false] at hc
                rcases hc with rfl | rfl
                · simp [cmdKOk]
                · exact hupd
  · ak_go

/-! ### every registered coroutine -/

theorem ak_req (env : Env) (r : Req) (t0 t : Time) : AllYields KOk (r.body env t0 t) := by
  cases r with
  | readPromise id => exact ak_readPromise id t
  | searchPromises q => exact ak_searchPromises q t
  | createPromise q => exact ak_createPromiseInner q none false t (by intro c hc; cases hc)
  | createPromiseAndTask p tr =>
    simp only [Req.body]
    split
    · ay_leaf
    · split
      · ay_leaf
      · rename_i h1 h2
        refine ak_createPromiseInner _ _ _ _ ?_
        intro c hc
        injection hc with hc; subst hc
        simp only [taskCmdOf]
        have : p.id = tr.promiseId := by simpa using h1
        rw [this]
  | completePromise q => exact ak_completePromise q t
  | createCallback q => exact ak_createCallback q t
  | createSubscription q => exact ak_createSubscription q t
  | readSchedule id => exact ak_readSchedule id t
  | searchSchedules q => exact ak_searchSchedules q t
  | createSchedule q => exact ak_createSchedule env q t
  | deleteSchedule id => exact ak_deleteSchedule id t
  | acquireLock q => exact ak_acquireLock q t
  | releaseLock a b => exact ak_releaseLock a b t
  | heartbeatLocks p => exact ak_heartbeatLocks p t
  | claimTask q => exact ak_claimTask env q t
  | completeTask id c => exact ak_completeTask id c t
  | heartbeatTasks p => exact ak_heartbeatTasks p t

theorem ak_bg (env : Env) (k : BgKind) (t : Time) : AllYields KOk (k.body env t) := by
  cases k with
  | timeoutPromises => exact ak_timeoutPromises env t
  | schedulePromises => exact ak_schedulePromises env t
  | timeoutLocks => exact ak_timeoutLocks t
  | timeoutTasks => exact ak_timeoutTasks env t
  | enqueueTasks => exact ak_enqueueTasks env t

end Resonate
