/-
  Proofs/CoBasics.lean — accessors for talking about the continuation of a coroutine's first yield.
-/
import Resonate.Model.Coroutines
namespace Resonate

/-- submissions of the first yield -/
def Co.subs : Co → List Subm
  | .yield s _ => s
  | _ => []

/-- continuation of the first yield -/
def Co.next : Co → Time → List Cpl → Co
  | .yield _ k => k
  | c => fun _ _ => c

/-- a completion carrying exactly one promise row / no row for a single `ReadPromise` -/
def gotRow (r : PromiseRow) : List Cpl := [.store [.promises [r]]]
def gotNone : List Cpl := [.store [.promises []]]

/-- the completion of a completion block whose guarded update affected `n` rows and converted `k` registrations -/
def blockDone (n t k : Nat) : List Cpl := [.store [.rows n, .rows t, .rows k, .rows k]]

end Resonate
