/-
  Proofs/PollInv.lean — helper lemmas about the poll registry model (Model/Poll.lean)
-/
import Resonate.Model.Poll
namespace Resonate.Poll

theorem rmvFirst_sublist (l : List Conn) (g i : String) (h : Option Nat) : (rmvFirst l g i h).1.Sublist l := by
  induction l with
  | nil => simp [rmvFirst]
  | cons c rest ih =>
    by_cases hm : hit c g i h = true
    · simp [rmvFirst, hm]
    · simp [rmvFirst, hm, ih]

theorem rmvFirst_length (l : List Conn) (g i : String) (h : Option Nat) : (rmvFirst l g i h).1.length ≤ l.length :=
  (rmvFirst_sublist l g i h).length_le

theorem rmvFirst_mem {l : List Conn} {g i : String} {h : Option Nat} {a : Conn} (ha : a ∈ (rmvFirst l g i h).1) : a ∈ l :=
  (rmvFirst_sublist l g i h).subset ha

/-- the closed handle was registered and, handles being distinct, is no longer -/
theorem rmvFirst_closed {l : List Conn} {g i : String} {h : Option Nat} {x : Nat}
    (hx : (rmvFirst l g i h).2 = some x) (hnd : (l.map (·.handle)).Nodup) :
    x ∈ l.map (·.handle) ∧ x ∉ (rmvFirst l g i h).1.map (·.handle) := by
  induction l with
  | nil => simp [rmvFirst] at hx
  | cons c rest ih =>
    simp only [List.map_cons, List.nodup_cons] at hnd
    by_cases hm : hit c g i h = true
    · simp only [rmvFirst, hm, if_true] at hx ⊢
      have : x = c.handle := by simpa using hx.symm
      subst this
      exact ⟨by simp, hnd.1⟩
    · simp only [rmvFirst, hm] at hx ⊢
      have ih' := ih (by simpa using hx) hnd.2
      refine ⟨by simp [ih'.1], ?_⟩
      show x ∉ List.map (·.handle) (c :: (rmvFirst rest g i h).1)
      rw [List.map_cons, List.mem_cons, not_or]
      refine ⟨?_, ih'.2⟩
      intro hxc
      exact hnd.1 (hxc ▸ ih'.1)

/-- nothing is closed when nothing is removed -/
theorem rmvFirst_none {l : List Conn} {g i : String} {h : Option Nat} (hx : (rmvFirst l g i h).2 = none) :
    (rmvFirst l g i h).1 = l := by
  induction l with
  | nil => simp [rmvFirst]
  | cons c rest ih =>
    by_cases hm : hit c g i h = true
    · simp [rmvFirst, hm] at hx
    · simp only [rmvFirst, hm] at hx ⊢
      simp [ih (by simpa using hx)]

def SameAddr (a b : Conn) : Prop := a.group = b.group ∧ a.id = b.id

/-- after removing the first connection of an address from a registry with pairwise distinct addresses, none is left -/
theorem rmvFirst_gone {l : List Conn} {g i : String} (hd : l.Pairwise (fun a b => ¬ SameAddr a b)) :
    ∀ a ∈ (rmvFirst l g i none).1, ¬ (a.group = g ∧ a.id = i) := by
  induction l with
  | nil => simp [rmvFirst]
  | cons c rest ih =>
    rw [List.pairwise_cons] at hd
    by_cases hm : hit c g i none = true
    · simp only [rmvFirst, hm, if_true]
      simp only [hit, Bool.and_true, Bool.and_eq_true, beq_iff_eq] at hm
      intro a ha ⟨h1, h2⟩
      exact hd.1 a ha ⟨hm.1.trans h1.symm, hm.2.trans h2.symm⟩
    · simp only [rmvFirst, hm]
      simp only [hit, Bool.and_true, Bool.and_eq_true, beq_iff_eq] at hm
      intro a ha
      simp only [Bool.false_eq_true, if_false, List.mem_cons] at ha
      rcases ha with rfl | ha
      · exact hm
      · exact ih hd.2 a ha

theorem nodup_map_inj {α β} {f : α → β} {l : List α} (h : (l.map f).Nodup) {a b : α} (ha : a ∈ l) (hb : b ∈ l)
    (hab : f a = f b) : a = b := by
  induction l with
  | nil => cases ha
  | cons x rest ih =>
    simp only [List.map_cons, List.nodup_cons] at h
    simp only [List.mem_cons] at ha hb
    rcases ha with rfl | ha <;> rcases hb with rfl | hb
    · rfl
    · exact absurd (hab ▸ List.mem_map_of_mem hb) h.1
    · exact absurd (hab ▸ List.mem_map_of_mem ha) h.1
    · exact ih h.2 ha hb

@[simp] theorem bumpConn_handle (hd : Nat) (b : String) (x : Conn) : (bumpConn hd b x).handle = x.handle := by
  unfold bumpConn; split <;> rfl
@[simp] theorem bumpConn_group (hd : Nat) (b : String) (x : Conn) : (bumpConn hd b x).group = x.group := by
  unfold bumpConn; split <;> rfl
@[simp] theorem bumpConn_id (hd : Nat) (b : String) (x : Conn) : (bumpConn hd b x).id = x.id := by
  unfold bumpConn; split <;> rfl
@[simp] theorem bumpConn_cap (hd : Nat) (b : String) (x : Conn) : (bumpConn hd b x).cap = x.cap := by
  unfold bumpConn; split <;> rfl
theorem bumpConn_of_ne {hd : Nat} {b : String} {x : Conn} (h : x.handle ≠ hd) : bumpConn hd b x = x := by
  unfold bumpConn; simp [h]
theorem bumpConn_of_eq {hd : Nat} {b : String} {x : Conn} (h : x.handle = hd) : (bumpConn hd b x).buf = x.buf ++ [b] := by
  unfold bumpConn; simp [h]

theorem map_bump_handles (l : List Conn) (hd : Nat) (b : String) : (l.map (bumpConn hd b)).map (·.handle) = l.map (·.handle) := by
  induction l with
  | nil => rfl
  | cons a rest ih => simp [ih]

theorem map_bump_id (l : List Conn) (hd : Nat) (b : String) (h : ∀ x ∈ l, x.handle ≠ hd) : l.map (bumpConn hd b) = l := by
  induction l with
  | nil => rfl
  | cons x xs ih =>
    rw [List.map_cons, bumpConn_of_ne (h x (by simp)), ih (fun y hy => h y (by simp [hy]))]

theorem sum_bump (l : List Conn) (hd : Nat) (b : String) (hnd : (l.map (·.handle)).Nodup)
    (c : Conn) (hc : c ∈ l) (hch : c.handle = hd) :
    ((l.map (bumpConn hd b)).map (·.buf.length)).sum = (l.map (·.buf.length)).sum + 1 := by
  induction l with
  | nil => cases hc
  | cons a rest ih =>
    simp only [List.map_cons, List.nodup_cons] at hnd
    simp only [List.map_cons, List.sum_cons]
    by_cases ha : a.handle = hd
    · have hrest : rest.map (bumpConn hd b) = rest :=
        map_bump_id rest hd b (fun x hx hxh => hnd.1 (ha.trans hxh.symm ▸ List.mem_map_of_mem hx))
      rw [hrest, bumpConn_of_eq ha]
      simp only [List.length_append, List.length_cons, List.length_nil]; omega
    · have hc' : c ∈ rest := by
        simp only [List.mem_cons] at hc
        rcases hc with rfl | hc
        · exact absurd hch ha
        · exact hc
      rw [bumpConn_of_ne ha, ih hnd.2 hc']; omega

end Resonate.Poll
