/-
  Proofs/Lift.lean — lifting facts about one command to transactions, batches (with rollback) and
  arbitrary sequences of batches.
-/
import Resonate.Model.Store
namespace Resonate

theorem execTx_lift (g : SqlDefs) (R : Db → Db → Prop) (hr : ∀ db, R db db)
    (ht : ∀ a b c, R a b → R b c → R a c)
    (hstep : ∀ db db' c r, db.exec g c = .ok (db', r) → R db db') :
    ∀ (cs : List Cmd) (db db' : Db) (rs : List Res), db.execTx g cs = .ok (db', rs) → R db db' := by
  intro cs
  induction cs with
  | nil => intro db db' rs h; simp [Db.execTx] at h; rw [← h.1]; exact hr _
  | cons c cs ih =>
    intro db db' rs h
    simp only [Db.execTx] at h
    cases h1 : db.exec g c with
    | error e => simp [h1] at h
    | ok p =>
      obtain ⟨db1, r⟩ := p
      simp only [h1] at h
      cases h2 : db1.execTx g cs with
      | error e => simp [h2] at h
      | ok q =>
        obtain ⟨db2, rs2⟩ := q
        simp only [h2] at h
        injection h with h; injection h with hd _
        subst hd
        exact ht _ _ _ (hstep _ _ _ _ h1) (ih _ _ _ h2)

theorem execTxs_lift (g : SqlDefs) (R : Db → Db → Prop) (hr : ∀ db, R db db)
    (ht : ∀ a b c, R a b → R b c → R a c)
    (htx : ∀ db db' cs rs, db.execTx g cs = .ok (db', rs) → R db db') :
    ∀ (txs : List (List Cmd)) (db db' : Db) (rss : List (List Res)), db.execTxs g txs = .ok (db', rss) → R db db' := by
  intro txs
  induction txs with
  | nil => intro db db' rss h; simp [Db.execTxs] at h; rw [← h.1]; exact hr _
  | cons tx txs ih =>
    intro db db' rss h
    simp only [Db.execTxs] at h
    split at h
    · cases h
    · cases h1 : db.execTx g tx with
      | error e => simp [h1] at h
      | ok p =>
        obtain ⟨db1, rs⟩ := p
        simp only [h1] at h
        cases h2 : db1.execTxs g txs with
        | error e => simp [h2] at h
        | ok q =>
          obtain ⟨db2, rss2⟩ := q
          simp only [h2] at h
          injection h with h; injection h with hd _
          subst hd
          exact ht _ _ _ (htx _ _ _ _ h1) (ih _ _ _ h2)

/-- a batch either commits the composition of its transactions or leaves the database unchanged -/
theorem execBatch_lift (g : SqlDefs) (R : Db → Db → Prop) (hr : ∀ db, R db db)
    (ht : ∀ a b c, R a b → R b c → R a c)
    (hstep : ∀ db db' c r, db.exec g c = .ok (db', r) → R db db')
    (db : Db) (txs : List (List Cmd)) : R db (db.execBatch g txs).1 := by
  unfold Db.execBatch
  cases h : db.execTxs g txs with
  | error e => exact hr _
  | ok p =>
    obtain ⟨db', rss⟩ := p
    exact execTxs_lift g R hr ht (fun db db' cs rs h => execTx_lift g R hr ht hstep cs db db' rs h) txs db db' rss h

/-- the database after a sequence of batches (each all-or-nothing) -/
def Db.execBatches (g : SqlDefs) (db : Db) (bs : List (List (List Cmd))) : Db :=
  bs.foldl (fun db b => (db.execBatch g b).1) db

theorem execBatches_lift (g : SqlDefs) (R : Db → Db → Prop) (hr : ∀ db, R db db)
    (ht : ∀ a b c, R a b → R b c → R a c)
    (hstep : ∀ db db' c r, db.exec g c = .ok (db', r) → R db db') :
    ∀ (bs : List (List (List Cmd))) (db : Db), R db (db.execBatches g bs) := by
  intro bs
  induction bs with
  | nil => intro db; exact hr _
  | cons b bs ih =>
    intro db
    simp only [Db.execBatches, List.foldl_cons]
    exact ht _ _ _ (execBatch_lift g R hr ht hstep db b) (ih _)

/-- unary invariants: the same lifting with `R a b := I a → I b` -/
theorem execBatches_inv (g : SqlDefs) (I : Db → Prop)
    (hstep : ∀ db db' c r, I db → db.exec g c = .ok (db', r) → I db')
    (bs : List (List (List Cmd))) (db : Db) (h : I db) : I (db.execBatches g bs) :=
  execBatches_lift g (fun a b => I a → I b) (fun _ h => h) (fun _ _ _ h1 h2 h => h2 (h1 h))
    (fun db db' c r hx hi => hstep db db' c r hi hx) bs db h

end Resonate
