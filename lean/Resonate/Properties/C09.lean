/-
  Properties/C09.lean — locks are mutually exclusive and leases are honoured.
  Store level, for arbitrary command sequences (any of the 27 kinds with arbitrary arguments).
-/
import Resonate.Model.SqlSpec
import Resonate.Model.Coroutines
import Resonate.Proofs.Frame
import Resonate.Proofs.Lift
import Resonate.Proofs.StoreBasics
import Resonate.Proofs.SysDb
namespace Resonate.C09
open Resonate SqlSpec

variable (d : Dialect)

/-- at most one lock row per resource -/
def LockUnique (db : Db) : Prop := List.Pairwise (fun a b : LockRow => a.resourceId ≠ b.resourceId) db.locks

/-- execution `e` holds the lock on `res` -/
def Held (db : Db) (res e : String) : Prop := ∃ r ∈ db.locks, r.resourceId = res ∧ r.executionId = e

theorem pairwise_filter {α} {R : α → α → Prop} (p : α → Bool) {l : List α} (h : List.Pairwise R l) : List.Pairwise R (l.filter p) :=
  h.sublist List.filter_sublist

theorem pairwise_update_locks (l : List LockRow) (p : LockRow → Bool) (f : LockRow → LockRow) (hf : ∀ r, (f r).resourceId = r.resourceId)
    (h : List.Pairwise (fun a b : LockRow => a.resourceId ≠ b.resourceId) l) :
    List.Pairwise (fun a b : LockRow => a.resourceId ≠ b.resourceId) (updateWhere p f l) := by
  unfold updateWhere
  rw [List.pairwise_map]
  refine h.imp ?_
  intro a b hab
  have ha : (if p a = true then f a else a).resourceId = a.resourceId := by split <;> simp [hf]
  have hb : (if p b = true then f b else b).resourceId = b.resourceId := by split <;> simp [hf]
  rw [ha, hb]; exact hab

theorem lock_row_unique : ∀ (l : List LockRow), List.Pairwise (fun a b : LockRow => a.resourceId ≠ b.resourceId) l →
    ∀ a b, a ∈ l → b ∈ l → a.resourceId = b.resourceId → a = b := by
  intro l
  induction l with
  | nil => intro _ a b ha; cases ha
  | cons x l ih =>
    intro h a b ha hb hid
    rw [List.pairwise_cons] at h
    simp only [List.mem_cons] at ha hb
    rcases ha with rfl | ha <;> rcases hb with rfl | hb
    · rfl
    · exact absurd hid (h.1 b hb)
    · exact absurd hid.symm (h.1 a ha)
    · exact ih h.2 a b ha hb hid

/-- **Mutual exclusion, any command.** -/
theorem lockUnique_exec (db db' : Db) (cmd : Cmd) (r : Res) (hi : LockUnique db)
    (h : db.exec (defs d) cmd = .ok (db', r)) : LockUnique db' := by
  have fr := exec_frame _ _ _ _ _ h
  by_cases hw : cmd.wL = false
  · unfold LockUnique; rw [fr.2.2.2.1 hw]; exact hi
  · cases cmd with
    | acquireLock c =>
      simp only [Db.exec] at h
      split at h
      · injection h with h; injection h with h _; subst h
        exact pairwise_update_locks _ _ _ (by intro r; rfl) hi
      · rename_i hany
        injection h with h; injection h with h _; subst h
        simp only [LockUnique, List.pairwise_append]
        refine ⟨hi, List.pairwise_singleton _ _, ?_⟩
        intro a ha b hb
        simp only [List.mem_singleton] at hb
        subst hb
        have : db.locks.any (fun r => r.resourceId == ((defs d).lockAcquire_row c).resourceId) = false := by simpa using hany
        simp only [List.any_eq_false, beq_iff_eq] at this
        exact this a ha
    | releaseLock c =>
      simp only [Db.exec] at h
      injection h with h; injection h with h _; subst h
      exact pairwise_filter _ hi
    | heartbeatLocks c =>
      simp only [Db.exec] at h
      injection h with h; injection h with h _; subst h
      exact pairwise_update_locks _ _ _ (by intro r; rfl) hi
    | timeoutLocks c =>
      simp only [Db.exec] at h
      injection h with h; injection h with h _; subst h
      exact pairwise_filter _ hi
    | _ => simp [Cmd.wL] at hw

theorem lockUnique_batches (bs : List (List (List Cmd))) (db : Db) (h : LockUnique db) : LockUnique (db.execBatches (defs d) bs) :=
  execBatches_inv (defs d) LockUnique (fun db db' c r hi hx => lockUnique_exec d db db' c r hi hx) bs db h

/-- **An acquire by another execution is refused and changes nothing.** -/
theorem acquire_by_other_refused (db db' : Db) (c : AcquireLockCmd) (res : Res) (hu : LockUnique db) (e : String)
    (hh : Held db c.resourceId e) (hne : e ≠ c.executionId)
    (h : db.exec (defs d) (.acquireLock c) = .ok (db', res)) : db'.locks = db.locks ∧ res = .rows 0 := by
  obtain ⟨r, hr, hres, hex⟩ := hh
  simp only [Db.exec] at h
  have hany : db.locks.any (fun x => x.resourceId == ((defs d).lockAcquire_row c).resourceId) = true := by
    simp only [List.any_eq_true, beq_iff_eq]; exact ⟨r, hr, hres⟩
  simp only [hany, if_true] at h
  injection h with h; injection h with hdb hr'
  -- no row matches `resource = c.resource ∧ execution = c.execution`
  have hnone : ∀ x ∈ db.locks, (x.resourceId == ((defs d).lockAcquire_row c).resourceId && (defs d).lockAcquire_conflictWhere x ((defs d).lockAcquire_row c)) = false := by
    intro x hx
    by_cases hxr : x.resourceId = c.resourceId
    · -- by uniqueness x = r, whose execution differs
      have : x = r := lock_row_unique _ hu x r hx hr (hxr.trans hres.symm)
      subst this
      simp [defs, lockAcquire_row, lockAcquire_conflictWhere, hex, hne]
    · simp [defs, lockAcquire_row, hxr]
  constructor
  · rw [← hdb]; exact updateWhere_of_none _ _ _ hnone
  · rw [← hr']; congr 1; exact (countP_eq_zero _ _).mpr hnone

/-- **A release by another execution has no effect on the holder's row.** -/
theorem release_by_other_keeps (db db' : Db) (c : ReleaseLockCmd) (res : Res) (r : LockRow) (hr : r ∈ db.locks)
    (hne : ¬ (r.resourceId = c.resourceId ∧ r.executionId = c.executionId))
    (h : db.exec (defs d) (.releaseLock c) = .ok (db', res)) : r ∈ db'.locks := by
  simp only [Db.exec] at h
  injection h with h; injection h with hdb _
  rw [← hdb]
  simp only [List.mem_filter, defs, lockRelease_where]
  refine ⟨hr, ?_⟩
  simp only [Bool.not_eq_true', Bool.and_eq_false_iff, beq_eq_false_iff_ne, ne_eq]
  by_cases h1 : r.resourceId = c.resourceId
  · right; exact fun h2 => hne ⟨h1, h2⟩
  · left; exact h1

/-- **A heartbeat never creates or transfers a lock**: same rows, same resource / execution / process /
    ttl; only `expires_at` of the rows of that process moves, to `time + ttl`. -/
theorem heartbeat_only_extends (db db' : Db) (c : HeartbeatLocksCmd) (res : Res)
    (h : db.exec (defs d) (.heartbeatLocks c) = .ok (db', res)) :
    db'.locks = db.locks.map (fun r => if r.processId == c.processId then { r with expiresAt := c.time + r.ttl } else r) := by
  simp only [Db.exec] at h
  injection h with h; injection h with hdb _
  rw [← hdb]
  rfl

/-- **The expiry sweep removes only locks whose lease has run out.** -/
theorem sweep_only_expired (db db' : Db) (c : TimeoutLocksCmd) (res : Res) (r : LockRow) (hr : r ∈ db.locks)
    (hlive : c.timeout < r.expiresAt) (h : db.exec (defs d) (.timeoutLocks c) = .ok (db', res)) : r ∈ db'.locks := by
  simp only [Db.exec] at h
  injection h with h; injection h with hdb _
  rw [← hdb]
  simp only [List.mem_filter, defs, lockTimeout_where]
  exact ⟨hr, by simp; omega⟩

/-- what a command may do to the holder `(res, e)` of a lock with current lease end `ends` -/
def Admissible (res e : String) (ends : Int) : Cmd → Prop
  | .releaseLock c => ¬ (c.resourceId = res ∧ c.executionId = e)
  | .timeoutLocks c => c.timeout < ends
  | _ => True

/-- **The holder keeps the lock** across ANY single command — of any of the 27 kinds, by anybody — other
    than its own release or a sweep at/after its lease end; the row keeps resource and execution, and
    its lease end never decreases below what acquire / heartbeat set. -/
theorem holder_keeps (db db' : Db) (cmd : Cmd) (res : Res) (r : LockRow) (hr : r ∈ db.locks)
    (hadm : Admissible r.resourceId r.executionId r.expiresAt cmd)
    (h : db.exec (defs d) cmd = .ok (db', res)) :
    ∃ r' ∈ db'.locks, r'.resourceId = r.resourceId ∧ r'.executionId = r.executionId := by
  have fr := exec_frame _ _ _ _ _ h
  by_cases hw : cmd.wL = false
  · exact ⟨r, by rw [fr.2.2.2.1 hw]; exact hr, rfl, rfl⟩
  · cases cmd with
    | acquireLock c =>
      simp only [Db.exec] at h
      split at h
      · injection h with h; injection h with hdb _; subst hdb
        refine ⟨_, List.mem_map.mpr ⟨r, hr, rfl⟩, ?_, ?_⟩ <;> (split <;> rfl)
      · injection h with h; injection h with hdb _; subst hdb
        exact ⟨r, List.mem_append_left _ hr, rfl, rfl⟩
    | releaseLock c =>
      exact ⟨r, release_by_other_keeps d db db' c res r hr (fun hx => hadm ⟨hx.1.symm, hx.2.symm⟩) h, rfl, rfl⟩
    | heartbeatLocks c =>
      rw [heartbeat_only_extends d db db' c res h]
      refine ⟨_, List.mem_map.mpr ⟨r, hr, rfl⟩, ?_, ?_⟩ <;> (split <;> rfl)
    | timeoutLocks c =>
      exact ⟨r, sweep_only_expired d db db' c res r hr (by simpa [Admissible] using hadm) h, rfl, rfl⟩
    | _ => simp [Cmd.wL] at hw

/-! ### the three request coroutines are single-transaction; statuses by row count -/

def acquireCmdOf (req : AcquireLockReq) (t0 : Time) : AcquireLockCmd :=
  { resourceId := req.resourceId, processId := req.processId, executionId := req.executionId, ttl := req.ttl, expiresAt := t0 + req.ttl }
def lockOf (req : AcquireLockReq) (t0 : Time) : Lock :=
  { resourceId := req.resourceId, executionId := req.executionId, processId := req.processId, ttl := req.ttl, expiresAt := t0 + req.ttl }

/-- acquire: one transaction; the lease end is `now + ttl`; refused iff the store reports 0 rows -/
theorem acquire_coroutine (req : AcquireLockReq) (t0 : Time) :
    ∃ k, Coro.acquireLock req t0 = .yield [.store [.acquireLock (acquireCmdOf req t0)]] k ∧
      (∀ t, k t [.store [.rows 0]] = .done (some (.lock S_LOCK_ALREADY_ACQUIRED none))) ∧
      (∀ t, k t [.store [.rows 1]] = .done (some (.lock S_CREATED (some (lockOf req t0))))) :=
  ⟨_, rfl, fun _ => rfl, fun _ => rfl⟩

theorem release_coroutine (res e : String) (t0 : Time) :
    ∃ k, Coro.releaseLock res e t0 = .yield [.store [.releaseLock { resourceId := res, executionId := e }]] k ∧
      (∀ t, k t [.store [.rows 0]] = .done (some (.status S_LOCK_NOT_FOUND))) ∧
      (∀ t, k t [.store [.rows 1]] = .done (some (.status S_NOCONTENT))) :=
  ⟨_, rfl, fun _ => rfl, fun _ => rfl⟩

theorem heartbeat_coroutine (p : String) (t0 : Time) :
    ∃ k, Coro.heartbeatLocks p t0 = .yield [.store [.heartbeatLocks { processId := p, time := t0 }]] k ∧
      (∀ t n, k t [.store [.rows n]] = .done (some (.count S_OK n))) :=
  ⟨_, rfl, fun _ _ => rfl⟩

theorem sweep_coroutine (t0 : Time) :
    ∃ k, Coro.timeoutLocks t0 = .yield [.store [.timeoutLocks { timeout := t0 }]] k := ⟨_, rfl⟩

/-! ### every run of the server -/

/-- **At any instant a resource has at most one lock row — in EVERY state reachable by the kernel model**, from any database
    where that holds: any requests, ticks, store batches of any composition and order with injected failures, any
    configuration, shutdown, crashes and restarts; no hypothesis on the run at all (the store keeps the invariant for
    arbitrary commands, `lockUnique_exec`). -/
theorem at_most_one_holder_every_run (env : Env) (db0 : Db) (h0 : LockUnique db0) (cs : List Choice) :
    LockUnique ((Sys.boot env d (defs d) db0).run cs).db := by
  have h := run_rel (fun a b => LockUnique a → LockUnique b) (fun _ h => h) (fun _ _ _ h1 h2 h => h2 (h1 h))
    (Sys.boot env d (defs d) db0) (by intro db db' c r hx hi; exact lockUnique_exec d db db' c r hi hx) cs
  exact h h0

/-- … hence two executions never hold the same resource in any reachable state -/
theorem never_two_holders (env : Env) (db0 : Db) (h0 : LockUnique db0) (cs : List Choice) (res e1 e2 : String)
    (h1 : Held ((Sys.boot env d (defs d) db0).run cs).db res e1) (h2 : Held ((Sys.boot env d (defs d) db0).run cs).db res e2) : e1 = e2 := by
  obtain ⟨r1, hr1, hres1, he1⟩ := h1
  obtain ⟨r2, hr2, hres2, he2⟩ := h2
  have hu := at_most_one_holder_every_run d env db0 h0 cs
  have : r1 = r2 := lock_row_unique _ hu r1 r2 hr1 hr2 (hres1.trans hres2.symm)
  rw [← he1, ← he2, this]

/-! ### non-vacuity -/
def exLock : LockRow := { resourceId := "r", executionId := "e", processId := "p", ttl := 5, expiresAt := 15 }
example : LockUnique { locks := [exLock] } ∧ Held { locks := [exLock] } "r" "e" := by
  refine ⟨List.pairwise_singleton _ _, exLock, by simp, rfl, rfl⟩
example : Admissible "r" "e" 15 (.timeoutLocks ⟨14⟩) := by simp [Admissible]

end Resonate.C09
