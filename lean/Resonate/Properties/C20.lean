/-
  Properties/C20.lean — client data is stored and returned exactly as supplied.
-/
import Resonate.Proofs.JsonRoundTrip
import Resonate.Proofs.CoBasics
import Resonate.Model.SqlSpec
import Resonate.Model.Env
namespace Resonate.C20
open Resonate SqlSpec

/-! ### header / tag maps survive persistence (Go's JSON codec for map[string]string) -/

def encodeSMap (m : SMap) : String := String.ofList (Json.encMap (m.map fun kv => (kv.1.toList, kv.2.toList)))
def decodeSMap (s : String) : Option SMap := (Json.decMap s.toList).map fun l => l.map fun kv => (String.ofList kv.1, String.ofList kv.2)

/-- every string map — any Unicode content (quotes, backslashes, control characters, markup characters,
    U+2028/2029, astral-plane characters), any size — is recovered exactly from its persisted form -/
theorem map_round_trip (m : SMap) : decodeSMap (encodeSMap m) = some m := by
  simp only [decodeSMap, encodeSMap, String.toList_ofList, Json.decMap_encMap, Option.map_some, List.map_map]
  congr 1
  conv => rhs; rw [← List.map_id m]
  apply List.map_congr_left
  intro kv _
  simp [Function.comp, String.ofList_toList]

/-! ### the store copies every client field verbatim, and reads return it verbatim -/

variable (d : Dialect)

/-- creating a promise and reading it back (same database, nothing in between) returns exactly the supplied
    id, parameter headers and bytes, timeout, creation key and tags -/
theorem create_then_read (db : Db) (c : CreatePromiseCmd) (hfresh : ∀ r ∈ db.promises, r.id ≠ c.id) :
    ∃ db1, db.exec (defs d) (.createPromise c) = .ok (db1, .rows 1) ∧
      ∃ row, db1.exec (defs d) (.readPromise { id := c.id }) = .ok (db1, .promises [row]) ∧
        row.id = c.id ∧ row.toPromise.param = c.param ∧ row.timeout = c.timeout ∧ row.idempotencyKeyForCreate = c.idempotencyKey ∧
        row.tags = c.tags ∧ row.createdOn = some c.createdOn ∧ row.state = 1 := by
  have h1 : db.promises.any (fun r => r.id == c.id) = false := by
    simp only [List.any_eq_false]; intro r hr; simpa using hfresh r hr
  have hf : db.promises.filter (fun r => r.id == c.id) = [] := by
    rw [List.filter_eq_nil_iff]; intro r hr; simpa using hfresh r hr
  refine ⟨{ db with promises := db.promises ++ [promiseInsert_row c (db.seqP + 1)], seqP := db.seqP + 1 }, ?_, ?_⟩
  · simp [Db.exec, Db.createPromise, h1, defs]
  · refine ⟨promiseSelect_proj (promiseInsert_row c (db.seqP + 1)), ?_, rfl, rfl, rfl, rfl, rfl, rfl, rfl⟩
    simp only [Db.exec, defs]
    unfold promiseSelect_where
    simp only [List.filter_append, hf, List.nil_append]
    simp [promiseInsert_row]

/-- a completion stores the supplied value headers, value bytes and completion key verbatim -/
theorem completion_value_verbatim (c : UpdatePromiseCmd) (r : PromiseRow) :
    (promiseUpdate_set c r).toPromise.value = c.value ∧ (promiseUpdate_set c r).idempotencyKeyForComplete = c.idempotencyKey ∧
    (promiseUpdate_set c r).toPromise.param = r.toPromise.param := by
  simp [promiseUpdate_set, PromiseRow.toPromise]

/-- receiver descriptions and messages of registrations travel unchanged into the task created from them -/
theorem registration_to_task_verbatim (c : CreateTasksCmd) (cb : CallbackRow) (n : Nat) :
    (taskInsertAll_row c cb n).recv = cb.recv ∧ (taskInsertAll_row c cb n).mesg = cb.mesg ∧ (taskInsertAll_row c cb n).id = cb.id ∧
    (taskInsertAll_row c cb n).timeout = cb.timeout := ⟨rfl, rfl, rfl, rfl⟩

theorem callback_row_verbatim (c : CreateCallbackCmd) :
    (callbackInsert_row c).recv = c.recv ∧ (callbackInsert_row c).timeout = c.timeout ∧ (callbackInsert_row c).promiseId = c.promiseId := ⟨rfl, rfl, rfl⟩

theorem schedule_row_verbatim (c : CreateScheduleCmd) (n : Nat) :
    (scheduleInsert_row c n).id = c.id ∧ (scheduleInsert_row c n).description = c.description ∧ (scheduleInsert_row c n).cron = c.cron ∧
    (scheduleInsert_row c n).tags = c.tags ∧ (scheduleInsert_row c n).promiseId = c.promiseId ∧ (scheduleInsert_row c n).promiseTimeout = c.promiseTimeout ∧
    (scheduleInsert_row c n).toSchedule.promiseParam = c.promiseParam ∧ (scheduleInsert_row c n).promiseTags = c.promiseTags := ⟨rfl, rfl, rfl, rfl, rfl, rfl, rfl, rfl⟩

/-! ### ids are compared exactly (no case folding, trimming or normalisation) outside search patterns -/

theorem promise_lookup_exact (c : ReadPromiseCmd) (r : PromiseRow) : promiseSelect_where c r = true ↔ r.id = c.id := by simp [promiseSelect_where]
theorem promise_update_exact (c : UpdatePromiseCmd) (r : PromiseRow) : promiseUpdate_where c r = true ↔ (r.id = c.id ∧ r.state = 1) := by simp [promiseUpdate_where]
theorem task_lookup_exact (c : ReadTaskCmd) (r : TaskRow) : taskSelect_where c r = true ↔ r.id = c.id := by simp [taskSelect_where]
theorem schedule_lookup_exact (c : ReadScheduleCmd) (r : ScheduleRow) : scheduleSelect_where c r = true ↔ r.id = c.id := by simp [scheduleSelect_where]
theorem lock_lookup_exact (c : ReadLockCmd) (r : LockRow) : lockRead_where c r = true ↔ r.resourceId = c.resourceId := by simp [lockRead_where]
theorem callbacks_by_promise_exact (c : DeleteCallbacksCmd) (r : CallbackRow) : callbackDelete_where c r = true ↔ r.promiseId = c.promiseId := by simp [callbackDelete_where]

/-! ### ids the server derives embed the client id unaltered -/

theorem invoke_id_embeds (p : String) : Coro.invokeId p = "__invoke:" ++ p := rfl
theorem resume_id_embeds (root leaf : String) : Coro.callbackId root leaf = "__resume:" ++ root ++ ":" ++ leaf := rfl
theorem notify_id_embeds (p i : String) : Coro.subscriptionId p i = "__notify:" ++ p ++ ":" ++ i := rfl

/-- the id template substitutes the schedule id verbatim (no escaping — after the repair of finding F4) -/
theorem template_embeds_id (id : String) (ts : Int) : genIdModel "{{.id}}" id ts = some id := by
  simp only [genIdModel, tmplSubst]
  simp [tmplSubst, String.ofList_toList]

/-! ### non-vacuity -/
example : Json.encChar '<' = ['\\', 'u', '0', '0', '3', 'c'] := by decide
example : Json.decMap (Json.encMap [(['a', '"'], ['\n', 'é'])]) = some [(['a', '"'], ['\n', 'é'])] := Json.decMap_encMap _

end Resonate.C20
